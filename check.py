#!/venv/bin/python
"""Entry point: check.py <Cxx> [--tier quick|thorough] [--replay file] | --setup"""
import os
import sys
import warnings

warnings.filterwarnings("ignore")
sys.path.insert(0, os.path.dirname(os.path.abspath(__file__)))
os.chdir(os.path.dirname(os.path.abspath(__file__)))
from verif.runner import main  # noqa: E402

if __name__ == "__main__":
    sys.exit(main(sys.argv[1:]))
