/-
  `maflib/validation.py`: validation errors, stringency, and
  `MafValidationError.process_validation_errors`.
-/
import MafModel.Py.Value
open Py
namespace Model

inductive Mode where
  | strict | lenient | silent
  deriving Repr, DecidableEq, Inhabited

/-- A collected validation error: type (member name of `MafValidationErrorType`)
    and reported line number.  `origin` is a ghost field (not present in the
    code): the physical 1-based index of the line the error is about, taken from
    the structure of the input; C17 states `line = some n → n = origin`. -/
structure VErr where
  tpe : String
  line : Option Nat
  origin : Option Nat := none
  deriving Repr, DecidableEq, Inhabited

/-- One record on the `maflib` logger tree (only warnings are emitted). -/
structure LogRec where
  tpe : String
  line : Option Nat
  deriving Repr, DecidableEq, Inhabited

/-- `process_validation_errors(errors, stringency)`: Silent does nothing, Lenient
    logs one warning per error, Strict raises the first error. -/
def processErrors (mode : Mode) (errs : List VErr) : Except PyErr (List LogRec) :=
  match mode, errs with
  | _, [] => .ok []
  | .silent, _ => .ok []
  | .strict, e :: _ => .error (.format e.tpe e.line)
  | .lenient, es => .ok (es.map (fun e => { tpe := e.tpe, line := e.line }))

/-- `ValidationStringency.Silent if x is None else x` -/
def modeOrSilent : Option Mode → Mode
  | some m => m
  | none => .silent

end Model
