/-
  Effect model of the external sorter's spill files (`maflib/sorter.py`): which
  I/O calls it makes, in which order, what it registers for clean-up and what
  `close()` does — with a fault plan that makes one chosen I/O call fail.

  The *world* part of the state records what exists outside the sorter (files on
  disk, open descriptors, open gzip handles); the *sorter* part is the object's
  own bookkeeping.  Both live in one state that survives exceptions (a Python
  object mutated in place), so "nothing is left behind" relates the two.
  Items are their keys (natural numbers); the harness uses pairwise distinct keys.
-/
import MafModel.Py.Value
open Py
namespace Model

inductive IOCall where
  | mkstemp | gzopenW | gzopenR | write | read | hcloseW | hcloseR | osclose | remove
  deriving Repr, DecidableEq, Inhabited

def IOCall.name : IOCall → String
  | .mkstemp => "mkstemp" | .gzopenW => "gzip.open(w)" | .gzopenR => "gzip.open(r)"
  | .write => "write" | .read => "read" | .hcloseW => "handle.close(w)" | .hcloseR => "handle.close(r)"
  | .osclose => "os.close" | .remove => "os.remove"

/-- one open cursor of a merge (`_SortedIterator`) -/
structure Cursor where
  handle : Nat
  rest : List Nat          -- keys still in the file behind the look-ahead
  peek : Option Nat        -- `_next_key`
  closed : Bool := false
  deriving Repr, DecidableEq, Inhabited

structure RState where
  -- the world
  files : List Nat := []        -- spill files that exist
  fds : List Nat := []          -- open descriptors returned by mkstemp
  handles : List Nat := []      -- open gzip handles
  nextId : Nat := 0
  trace : List IOCall := []     -- every I/O call made, in order
  failAt : Option Nat := none   -- index (in `trace`) of the call that fails
  fired : Bool := false
  -- the sorter object
  cap : Nat := 1
  alwaysSpill : Bool := true
  stash : List Nat := []
  paths : List Nat := []                    -- `_paths`
  fdsReg : List (Option Nat) := []          -- `_fds` (None: nothing left to close)
  contents : List (Nat × List Nat) := []    -- what each spill file holds
  merging : List (List Cursor) := []        -- `_merging_iterators`
  deriving Repr, Inhabited

abbrev M := ExceptT PyErr (StateM RState)

def ioErr : PyErr := .os 5

/-- log one I/O call; `true` when this is the call that must fail (fires once) -/
def tick (c : IOCall) : M Bool := do
  let s ← get
  let fail := (s.failAt == some s.trace.length) && !s.fired
  set { s with trace := s.trace ++ [c], fired := s.fired || fail }
  return fail

def mkstemp : M (Nat × Nat) := do
  if (← tick .mkstemp) then throw ioErr
  let s ← get
  set { s with files := s.files ++ [s.nextId], fds := s.fds ++ [s.nextId + 1], nextId := s.nextId + 2 }
  return (s.nextId + 1, s.nextId)

def gzopen (mode : IOCall) : M Nat := do
  if (← tick mode) then throw ioErr
  let s ← get
  set { s with handles := s.handles ++ [s.nextId], nextId := s.nextId + 1 }
  return s.nextId

def hwrite : M Unit := do
  if (← tick .write) then throw ioErr

def hread : M Unit := do
  if (← tick .read) then throw ioErr

/-- closing a handle releases it even when the call reports a failure -/
def hclose (c : IOCall) (h : Nat) : M Unit := do
  let fail ← tick c
  modify (fun s => { s with handles := s.handles.erase h })
  if fail then throw ioErr

def osclose (d : Nat) : M Unit := do
  let fail ← tick .osclose
  modify (fun s => { s with fds := s.fds.erase d })
  if fail then throw ioErr

/-- a failed removal leaves the file in place -/
def osremove (f : Nat) : M Unit := do
  if (← tick .remove) then throw ioErr
  modify (fun s => { s with files := s.files.erase f })

/-- run `x`; an `OSError` is swallowed, anything else propagates (`except OSError: pass`) -/
def swallowOS (x : M Unit) : M Unit :=
  tryCatch x (fun e => match e with | .os _ => pure () | e => throw e)

/-- run `x`, remember the first `OSError` in `first` -/
def collectOS (first : Option PyErr) (x : M Unit) : M (Option PyErr) :=
  tryCatch (do x; pure first) (fun e => match e with
    | .os _ => pure (first.orElse (fun _ => some e))
    | e => throw e)

/-- `__spill` -/
def spill : M Unit := do
  let s ← get
  if s.stash.isEmpty then return ()
  let (d, f) ← mkstemp
  modify (fun s => { s with paths := s.paths ++ [f], fdsReg := s.fdsReg ++ [some d] })
  let h ← gzopen .gzopenW
  let sorted := s.stash.mergeSort (fun a b => a ≤ b)
  tryCatch (sorted.forM (fun _ => do hwrite; hwrite))
    (fun e => do swallowOS (hclose .hcloseW h); throw e)
  hclose .hcloseW h
  modify (fun s => { s with stash := [], contents := s.contents ++ [(f, sorted)] })

/-- `add` -/
def add (x : Nat) : M Unit := do
  modify (fun s => { s with stash := s.stash ++ [x] })
  let s ← get
  if s.stash.length = s.cap then spill

/-- `_SortedIterator.__advance` on a cursor that is not closed: read the length
    prefix; at end of file close the handle, otherwise read the record -/
def advance (c : Cursor) : M Cursor := do
  hread
  match c.rest with
  | [] =>
    -- `close()` marks the cursor closed before closing the handle
    tryCatch (do hclose .hcloseR c.handle; pure { c with closed := true, peek := none })
      (fun e => throw e)
  | k :: ks =>
    hread
    return { c with rest := ks, peek := some k }

/-- `_SortedIterator(path)`: open, read the first record; close quietly when that fails -/
def newCursor (keys : List Nat) : M Cursor := do
  let h ← gzopen .gzopenR
  let c : Cursor := { handle := h, rest := keys, peek := none }
  tryCatch (advance c) (fun e => do
    -- the handle may already have been released by a failing close at end of file
    let s ← get
    if s.handles.contains h then swallowOS (hclose .hcloseR h)
    throw e)

/-- `_MergingIterator.close()`: close every cursor that is still open; first failure reported at the end -/
def closeCursors (cs : List Cursor) : M Unit := do
  let first ← cs.foldlM (fun (first : Option PyErr) c => do
    let s ← get
    if c.closed || !s.handles.contains c.handle then pure first
    else collectOS first (hclose .hcloseR c.handle)) none
  match first with
  | some e => throw e
  | none => pure ()

/-- index of the cursor with the smallest look-ahead -/
def minCursor : List Cursor → Option Nat
  | cs =>
    let idx := cs.zipIdx.filterMap (fun (p : Cursor × Nat) => p.1.peek.map (fun k => (k, p.2)))
    match idx with
    | [] => none
    | x :: xs => some (xs.foldl (fun (best : Nat × Nat) y => if y.1 < best.1 then y else best) x).2

/-- the merge loop: emit up to `limit` items (`none` = all); returns the emitted keys and
    the cursors as they stand (for an abandoned iteration) -/
def mergeLoop : Nat → Option Nat → List Cursor → List Nat → M (List Nat × List Cursor × Bool)
  | 0, _, cs, out => pure (out, cs, false)
  | fuel + 1, limit, cs, out =>
    if limit == some out.length then pure (out, cs, true)          -- the consumer stops here
    else match minCursor cs with
      | none => pure (out, cs, false)                               -- heap empty: StopIteration
      | some i =>
        match cs[i]? with
        | none => pure (out, cs, false)
        | some c =>
          match c.peek with
          | none => pure (out, cs, false)
          | some k => do
            -- `s_iter.next()`: return the look-ahead and advance; a failing advance may already
            -- have released the handle (close at end of file)
            let c' ← tryCatch (advance c) (fun e => do
              let s ← get
              if !s.handles.contains c.handle then
                modify (fun s => { s with merging := s.merging.map (fun m => m.map (fun x => if x.handle = c.handle then { x with closed := true } else x)) })
              throw e)
            let cs' := cs.set i c'
            -- keep the registered copy of the cursors up to date
            modify (fun s => { s with merging := s.merging.map (fun m => if m.map (·.handle) == cs.map (·.handle) then cs' else m) })
            mergeLoop fuel limit cs' (out ++ [k])

/-- `iter(sorter)` consumed up to `limit` items (`none`: to the end) -/
def iterate (limit : Option Nat) : M (List Nat) := do
  let s ← get
  if !s.paths.isEmpty || s.alwaysSpill then
    spill
    let s ← get
    -- `_MergingIterator(paths)`: open a cursor per file; on failure close the ones opened so far
    let files := s.paths.map (fun p => ((s.contents.find? (fun q => q.1 == p)).map (·.2)).getD [])
    let cs ← files.foldlM (fun (acc : List Cursor) keys =>
      tryCatch (do let c ← newCursor keys; pure (acc ++ [c]))
        (fun e => do swallowOS (closeCursors acc); throw e)) []
    modify (fun s => { s with merging := s.merging ++ [cs] })
    let total := (files.map List.length).sum
    let r ← tryCatch (mergeLoop (total + 1) limit cs [])
      (fun e => do
        -- `finally` of a failed iteration: unregister and close
        let s ← get
        let cur := (s.merging.getLast?).getD cs
        modify (fun s => { s with merging := s.merging.dropLast })
        tryCatch (closeCursors cur) (fun _ => pure ())   -- a second failure is chained to the first
        throw e)
    let (out, cs', abandoned) := r
    if abandoned then
      -- the cursors stay registered: `close()` deals with them
      return out
    else
      -- exhaustion: `__next__` closes everything, then the `finally` clause does (a no-op)
      modify (fun s => { s with merging := s.merging.dropLast })
      closeCursors cs'
      return out
  else
    -- nothing was spilled: sort in memory (no I/O); the consumer may stop early
    let out := s.stash.mergeSort (fun a b => a ≤ b)
    return match limit with
      | some j => out.take j
      | none => out

/-- `sorter.close()` -/
def close : M Unit := do
  let s ← get
  let first ← s.merging.foldlM (fun (first : Option PyErr) cs => collectOS first (closeCursors cs)) none
  modify (fun s => { s with merging := [] })
  let (first, remaining) ← (s.paths.zip s.fdsReg).foldlM
    (fun (acc : Option PyErr × List Nat) (pd : Nat × Option Nat) => do
      let (first, remaining) := acc
      let first ← match pd.2 with
        | some d => collectOS first (osclose d)
        | none => pure first
      tryCatch (do osremove pd.1; pure (first, remaining))
        (fun e => match e with
          | .os _ => pure (first.orElse (fun _ => some e), remaining ++ [pd.1])
          | e => throw e)) (first, [])
  modify (fun s => { s with paths := remaining, fdsReg := remaining.map (fun _ => none) })
  match first with
  | some e => throw e
  | none => pure ()

/-- what the caller sees of one phase -/
structure PhaseLog where
  raised : List (String × PyErr) := []
  output : Option (List Nat) := none
  deriving Repr, Inhabited

/-- the whole scenario of the fault-injection harness: add keys `n, n-1, …, 1`, iterate
    (optionally abandoning after `abandon` items), then `close()` — again when it fails, up to 3 times -/
def scenario (n cap : Nat) (alwaysSpill : Bool) (abandon : Option Nat) (failAt : Option Nat) :
    PhaseLog × RState :=
  let s0 : RState := { cap := cap, alwaysSpill := alwaysSpill, failAt := failAt }
  let keys := (List.range n).map (fun k => n - k)
  -- add phase
  let (r1, s1) := (keys.forM add : M Unit).run s0
  let (log1, s2) : PhaseLog × RState :=
    match r1 with
    | .error e => ({ raised := [("add", e)] }, s1)
    | .ok () =>
      match (iterate abandon).run s1 with
      | (.ok out, s) => ({ output := some out }, s)
      | (.error e, s) => ({ raised := [("iterate", e)] }, s)
  -- close phase
  let rec closeN : Nat → Nat → PhaseLog → RState → PhaseLog × RState
    | 0, _, log, s => (log, s)
    | fuel + 1, k, log, s =>
      match close.run s with
      | (.ok (), s') => (log, s')
      | (.error e, s') => closeN fuel (k + 1) { log with raised := log.raised ++ [("close#" ++ toString k, e)] } s'
  closeN 3 0 log1 s2

end Model
