/-
  `maflib/header.py`: header records, `MafHeader.from_lines`, `validate`,
  accessors and printing.
-/
import MafModel.Model.Scheme
import MafModel.Model.Validation
import MafModel.Model.SortOrder
open Py
namespace Model

/-- value of a header record -/
inductive HVal where
  | text (t : Text)
  | sortOrder (o : Order) (contigs : List Text)   -- a `SortOrder` instance (with `_contigs`)
  | contigs (cs : List Text)
  deriving Repr, DecidableEq, Inhabited

structure HRec where
  key : Text
  value : HVal
  deriving Repr, DecidableEq, Inhabited

/-- names of the four special keys and the sort orders (regenerated constants are
    passed in by the caller) -/
structure HConsts where
  versionKey : Text
  annotationKey : Text
  sortOrderKey : Text
  contigKey : Text
  startSymbol : Char
  /-- `SortOrder.all()` : (name, derives from `Coordinate`, uses barcodes) -/
  sortOrders : List (Text × Bool × Bool)
  deriving Repr, Inhabited

def orderOfName (K : HConsts) (n : Text) : Option Order :=
  match List.find? (fun p => p.1 == n) K.sortOrders with
  | some (_, coord, bar) =>
    if coord then (if bar then some .barcodesAndCoordinate else some .coordinate)
    else if n == "Unsorted".toList then some .unsorted else some .unknown
  | none => none

def Order.name : Order → Text
  | .unknown => "Unknown".toList
  | .unsorted => "Unsorted".toList
  | .coordinate => "Coordinate".toList
  | .barcodesAndCoordinate => "BarcodesAndCoordinate".toList

/-- `MafHeaderRecord.from_line(line, line_number)` -/
def HRec.fromLine (K : HConsts) (line : Text) (n : Nat) : Except VErr HRec :=
  match line with
  | c :: rest =>
    if c ≠ K.startSymbol then .error { tpe := "HEADER_LINE_MISSING_START_SYMBOL", line := some n, origin := some n }
    else match split1 ' ' rest with
      | none => .error { tpe := "HEADER_LINE_MISSING_SEPARATOR", line := some n, origin := some n }
      | some (key, v0) =>
        let value := rstripWs v0
        if key.isEmpty then .error { tpe := "HEADER_LINE_EMPTY_KEY", line := some n, origin := some n }
        else if value.isEmpty then .error { tpe := "HEADER_LINE_EMPTY_VALUE", line := some n, origin := some n }
        else if key = K.sortOrderKey then
          match orderOfName K value with
          | some o => .ok { key := key, value := .sortOrder o [] }
          | none => .error { tpe := "HEADER_UNSUPPORTED_SORT_ORDER", line := some n, origin := some n }
        else if key = K.contigKey then .ok { key := key, value := .contigs (splitOn ',' value) }
        else .ok { key := key, value := .text value }
  | [] => .error { tpe := "HEADER_LINE_MISSING_START_SYMBOL", line := some n, origin := some n }

structure Header where
  recs : List (Text × HRec) := []          -- OrderedDict key ↦ record
  errors : List VErr := []
  mode : Mode := .silent
  deriving Repr, DecidableEq, Inhabited

def Header.get (h : Header) (k : Text) : Option HRec := tdictGetH h.recs k
  where tdictGetH (d : List (Text × HRec)) (k : Text) : Option HRec :=
    (List.find? (fun p => p.1 == k) d).map (·.2)

def Header.set (h : Header) (r : HRec) : Header :=
  { h with recs := if h.recs.any (fun p => p.1 == r.key)
                   then h.recs.map (fun p => if p.1 == r.key then (r.key, r) else p)
                   else h.recs ++ [(r.key, r)] }

def HVal.str : HVal → Text
  | .text t => t
  | .sortOrder o _ => o.name
  | .contigs cs => joinWith ',' cs

/-- `str(record)` -/
def HRec.render (K : HConsts) (r : HRec) : Text := K.startSymbol :: r.key ++ ' ' :: r.value.str

/-- `str(header)`: the records joined by newlines -/
def Header.renderLines (K : HConsts) (h : Header) : List Text := h.recs.map (fun p => p.2.render K)

def Header.version (K : HConsts) (h : Header) : Option Text := (h.get K.versionKey).map (·.value.str)
def Header.annotation (K : HConsts) (h : Header) : Option Text := (h.get K.annotationKey).map (·.value.str)
def Header.contigs (K : HConsts) (h : Header) : Option (List Text) :=
  match h.get K.contigKey with
  | some { value := .contigs cs, .. } => some cs
  | _ => none
/-- `sort_order()`: `Unsorted()` when the pragma is absent -/
def Header.sortOrder (K : HConsts) (h : Header) : Order × List Text :=
  match h.get K.sortOrderKey with
  | some { value := .sortOrder o cs, .. } => (o, cs)
  | _ => (.unsorted, [])

/-- the registry a header consults: `all_schemes()` and the supported lists -/
structure Registry where
  schemes : List Scheme
  supportedVersions : List String
  supportedAnnotations : List String
  deriving Repr, Inhabited

/-- `find_scheme(version, annotation)`; the pseudo-scheme `NoRestrictionsScheme`
    cannot be instantiated without column names and is reported as not found -/
def Registry.findScheme (R : Registry) (version annotation : Option Text) : Except PyErr (Option Scheme) :=
  match findSchemeClass R.schemes (version.map String.ofList) (annotation.map String.ofList) with
  | .ok (some s) => if s.noRestrictions then .ok none else .ok (some s)
  | r => r

/-- `header.scheme()` (a `ValueError` from the lookup means "no scheme") -/
def Header.scheme (K : HConsts) (R : Registry) (h : Header) : Option Scheme :=
  match R.findScheme (h.version K) (h.annotation K) with
  | .ok s => s
  | .error _ => none

/-- `header.validate(validation_stringency, reset_errors)` -/
def Header.validate (K : HConsts) (R : Registry) (h : Header) (mode : Option Mode) (reset : Bool) :
    Header × Except PyErr (List LogRec) :=
  let errs0 := if reset then [] else h.errors
  let scheme := h.scheme K R
  let m := mode.getD h.mode
  let e1 : List VErr := match h.version K with
    | none => [{ tpe := "HEADER_MISSING_VERSION", line := none }]
    | some v => if R.supportedVersions.contains (String.ofList v) then []
                else [{ tpe := "HEADER_UNSUPPORTED_VERSION", line := none }]
  let e2 : List VErr :=
    match scheme.filter Scheme.isBasic with
    | some _ => if (h.get K.annotationKey).isSome then [{ tpe := "HEADER_UNSUPPORTED_ANNOTATION_SPEC", line := none }] else []
    | none => match h.annotation K with
      | none => [{ tpe := "HEADER_MISSING_ANNOTATION_SPEC", line := none }]
      | some a => if R.supportedAnnotations.contains (String.ofList a) then []
                  else [{ tpe := "HEADER_UNSUPPORTED_ANNOTATION_SPEC", line := none }]
  let h' := { h with errors := errs0 ++ e1 ++ e2 }
  (h', processErrors m h'.errors)

/-- the line-by-line part of `from_lines`: kept records (first of duplicates wins) and errors -/
def Header.parseLines (K : HConsts) : Nat → List Text → Header → Header
  | _, [], h => h
  | n, l :: ls, h =>
    match HRec.fromLine K l n with
    | .error e => Header.parseLines K (n + 1) ls { h with errors := h.errors ++ [e] }
    | .ok r =>
      if (h.get r.key).isSome then
        Header.parseLines K (n + 1) ls
          { h with errors := h.errors ++ [{ tpe := "HEADER_DUPLICATE_KEYS", line := some n, origin := some n }] }
      else Header.parseLines K (n + 1) ls (h.set r)

/-- re-apply the contig list to a coordinate-based sort order -/
def Header.applyContigs (K : HConsts) (h : Header) : Header :=
  match h.contigs K, h.get K.sortOrderKey with
  | some cs, some { value := .sortOrder o _, key := k } =>
    if !cs.isEmpty && o.sortable then h.set { key := k, value := .sortOrder o cs } else h
  | _, _ => h

/-- `MafHeader.from_lines(lines, validation_stringency)` -/
def Header.fromLines (K : HConsts) (R : Registry) (lines : List Text) (mode : Option Mode) :
    Header × Except PyErr (List LogRec) :=
  let h0 : Header := { mode := modeOrSilent mode }
  let h1 := (Header.parseLines K 1 lines h0).applyContigs K
  h1.validate K R none false

end Model
