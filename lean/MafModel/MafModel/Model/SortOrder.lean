/-
  `maflib/sort_order.py`: sort keys (`_CoordinateKey`, `_BarcodesAndCoordinateKey`),
  `SortOrderKey.compare`, the `total_ordering` operators and `SortOrderChecker`.
-/
import MafModel.Py.Value
open Py
namespace Model

/-- a key component as the comparison sees it -/
inductive KV where
  | none
  | int (i : Int)
  | str (s : Text)
  deriving Repr, DecidableEq, Inhabited

/-- Python `<` on two non-`None` components (`TypeError` on `int` vs `str`) -/
def KV.lt : KV → KV → Except PyErr Bool
  | .int a, .int b => .ok (decide (a < b))
  | .str a, .str b => .ok (decide (a < b))
  | _, _ => .error .type

/-- `SortOrderKey.compare(this, that)`: `None` sorts last -/
def cmpKV (a b : KV) : Except PyErr Int :=
  match a, b with
  | .none, .none => .ok 0
  | .none, _ => .ok 1
  | _, .none => .ok (-1)
  | a, b => do
    let gt ← KV.lt b a
    let lt ← KV.lt a b
    .ok ((if gt then 1 else 0) - (if lt then 1 else 0))

/-- what a sort order reads from a record or plain locatable -/
structure Loc where
  /-- the record has its three coordinate columns (a `MafRecord` lacking one raises `KeyError`) -/
  hasCoords : Bool := true
  tumor : KV := .none
  normal : KV := .none
  chr : KV := .none
  start : KV := .none
  stop : KV := .none
  deriving Repr, DecidableEq, Inhabited

inductive Order where
  | unknown | unsorted | coordinate | barcodesAndCoordinate
  deriving Repr, DecidableEq, Inhabited

def Order.sortable : Order → Bool
  | .coordinate => true
  | .barcodesAndCoordinate => true
  | _ => false

structure Key where
  tumor : KV := .none
  normal : KV := .none
  chr : KV
  start : KV
  stop : KV
  deriving Repr, DecidableEq, Inhabited

/-- chromosome names are compared as text: `str(chromosome)` -/
def chrText : KV → KV
  | .int i => .str (intStr i)
  | k => k

/-- positions given as text are read as integers (`int(v)`); a text that `int()` cannot
    read makes the record un-keyable: `KeyError`, exactly like a missing coordinate column -/
def posInt : KV → Except PyErr KV
  | .str s => match pyInt s with
    | some i => .ok (.int i)
    | none => .error .key
  | k => .ok k

/-- `sort_order.sort_key()(record)`: `KeyError` when the record cannot be keyed (coordinates
    are missing, or a position is a text that is not a number); `ValueError` when a contig
    list is given and does not contain the chromosome.  Evaluation order: chromosome
    (`KeyError`), contig lookup (`ValueError`), start, end (`KeyError`). -/
def mkKey (o : Order) (contigs : List Text) (r : Loc) : Except PyErr Key :=
  if !r.hasCoords then .error .key
  else do
    let c := chrText r.chr
    let chr ← (if contigs.isEmpty then (.ok c : Except PyErr KV)
               else match c with
                 | .str s => match contigs.idxOf? s with
                   | some i => .ok (.int i)
                   | none => .error .value
                 | _ => .error .value)
    let s ← posInt r.start
    let e ← posInt r.stop
    match o with
    | .barcodesAndCoordinate => .ok { tumor := r.tumor, normal := r.normal, chr := chr, start := s, stop := e }
    | _ => .ok { chr := chr, start := s, stop := e }

/-- `__cmp__`: barcodes (when the order has them), chromosome, start, end -/
def cmpKey (a b : Key) : Except PyErr Int := do
  let d ← cmpKV a.tumor b.tumor
  if d ≠ 0 then return d
  let d ← cmpKV a.normal b.normal
  if d ≠ 0 then return d
  let d ← cmpKV a.chr b.chr
  if d ≠ 0 then return d
  let d ← cmpKV a.start b.start
  if d ≠ 0 then return d
  cmpKV a.stop b.stop

/-- the six rich comparisons: `__lt__`/`__eq__` are defined from `__cmp__`, the
    others are derived by `functools.total_ordering` -/
def keyLt (a b : Key) : Except PyErr Bool := (cmpKey a b).map (· < 0)
def keyEq (a b : Key) : Except PyErr Bool := (cmpKey a b).map (· = 0)
def keyLe (a b : Key) : Except PyErr Bool := do return (← keyLt a b) || (← keyEq a b)
def keyGt (a b : Key) : Except PyErr Bool := do return !((← keyLt a b) || (← keyEq a b))
def keyGe (a b : Key) : Except PyErr Bool := do return !(← keyLt a b)
def keyNe (a b : Key) : Except PyErr Bool := do return !(← keyEq a b)

/-- `SortOrderChecker`: remembers the last record it could key -/
structure Checker where
  order : Order
  contigs : List Text
  last : Option Loc := none
  deriving Repr, Inhabited

/-- `checker += record`: a record that cannot be keyed (missing coordinates, or a
    position text that is not a number) is skipped; a key smaller than the previous record's is the ordering error. -/
def Checker.add (c : Checker) (r : Loc) : Except PyErr Checker :=
  if !c.order.sortable then .ok { c with last := some r }
  else
    match mkKey c.order c.contigs r with
    | .error .key => .ok c
    | .error e => .error e
    | .ok k =>
      match c.last with
      | none => .ok { c with last := some r }
      | some l =>
        match mkKey c.order c.contigs l with
        | .error e => .error e
        | .ok lk =>
          match keyLt k lk with
          | .error e => .error e
          | .ok true => .error .value
          | .ok false => .ok { c with last := some r }

/-- iterate a list through the checker: the records before the first failure, and the failure -/
def checkAll (c : Checker) : List Loc → List Loc × Option PyErr
  | [] => ([], none)
  | r :: rs =>
    match c.add r with
    | .error e => ([], some e)
    | .ok c' => let (out, e) := checkAll c' rs; (r :: out, e)

end Model
