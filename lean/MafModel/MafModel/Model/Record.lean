/-
  `maflib/record.py`: `MafRecord` as a mutable mapping (name map + slot list),
  `validate`, `from_line`, `__str__`.
-/
import MafModel.Model.Scheme
import MafModel.Model.Validation
open Py
namespace Model

/-- a column object stored in a record; `oid` models object identity -/
structure RCol where
  oid : Nat
  col : Column
  deriving Repr, DecidableEq, Inhabited

structure Record where
  dict : List (Text × RCol) := []
  slots : List (Option RCol) := []
  errors : List VErr := []
  line : Option Nat := none
  mode : Mode := .silent
  deriving Repr, DecidableEq, Inhabited

/-- the key forms accepted by `__getitem__` / `__setitem__` / `__delitem__` -/
inductive RKey where
  | int (i : Int)
  | name (s : Text)
  | column (c : Column)
  | none
  | other
  deriving Repr, DecidableEq, Inhabited

def tdictGet {β} (d : List (Text × β)) (k : Text) : Option β :=
  (List.find? (fun p => p.1 == k) d).map (·.2)

def tdictSet {β} (d : List (Text × β)) (k : Text) (v : β) : List (Text × β) :=
  if d.any (fun p => p.1 == k) then d.map (fun p => if p.1 == k then (k, v) else p)
  else d ++ [(k, v)]

def tdictDel {β} (d : List (Text × β)) (k : Text) : List (Text × β) :=
  d.filter (fun p => !(p.1 == k))

/-- `record[key]` -/
def Record.getItem (r : Record) : RKey → Except PyErr (Option RCol)
  | .int i =>
    if i < 0 ∨ (r.slots.length : Int) ≤ i then .error .key
    else .ok (r.slots.getD i.toNat none)
  | .column c => match tdictGet r.dict c.key with
    | some x => .ok (some x)
    | none => .error .key
  | .name s => match tdictGet r.dict s with
    | some x => .ok (some x)
    | none => .error .key
  | .none => .ok none
  | .other => .error .type

/-- set slot `i` of a list, padding with `None` (`extend([None] * n)`) -/
def setSlot (l : List (Option RCol)) (i : Nat) (x : RCol) : List (Option RCol) :=
  let l' := if l.length ≤ i then l ++ List.replicate (i + 1 - l.length) none else l
  l'.set i (some x)

/-- Python list item assignment with a possibly negative index -/
def listSetPy (l : List (Option RCol)) (i : Int) (x : RCol) : Except PyErr (List (Option RCol)) :=
  if 0 ≤ i then
    if i.toNat < l.length then .ok (l.set i.toNat (some x)) else .error .index
  else
    let j := (l.length : Int) + i
    if 0 ≤ j then .ok (l.set j.toNat (some x)) else .error .index

/-- `record[key] = column`.  Returns the new record; on error the record state the
    Python object is left in (some failures happen after a partial update). -/
def Record.setItem (r : Record) (key : RKey) (x : RCol) : Record × Except PyErr Unit :=
  -- 1. reconcile the key with the column (may set the column's index)
  let step1 : Except PyErr RCol :=
    match key with
    | .int i =>
      if i < 0 then .error .key
      else match x.col.index with
        | none => .ok { x with col := { x.col with index := some i } }
        | some ci => if i ≠ ci then .error .value else .ok x
    | .column k => if x.col.key ≠ k.key then .error .value else .ok x
    | .name s => if x.col.key ≠ s then .error .value else .ok x
    | .none => .error .type
    | .other => .error .type
  match step1 with
  | .error e => (r, .error e)
  | .ok x =>
    let k := x.col.key
    -- 2. inherit / check / assign the index
    let step2 : Except PyErr RCol :=
      match tdictGet r.dict k with
      | some old =>
        match x.col.index with
        | none => .ok { x with col := { x.col with index := old.col.index } }
        | some ci => if old.col.index ≠ some ci then .error .value else .ok x
      | none =>
        match x.col.index with
        | none => .ok { x with col := { x.col with index := some (r.slots.length : Int) } }
        | some _ => .ok x
    -- 3. refuse, before the record is touched, a negative index or one whose slot
    --    holds a column with another name
    let step3 : Except PyErr RCol :=
      match step2 with
      | .error e => .error e
      | .ok x =>
        match x.col.index with
        | none => .ok x
        | some ci =>
          if ci < 0 then .error .value
          else match r.slots.getD ci.toNat none with
            | some occ => if occ.col.key ≠ k then .error .value else .ok x
            | none => .ok x
    match step3 with
    | .error e => (r, .error e)
    | .ok x =>
      let r1 := { r with dict := tdictSet r.dict k x }
      match x.col.index with
      | none => (r1, .error .assertion)
      | some ci =>
        -- `if len(self) <= ci: extend`  (a negative index never extends)
        let slots1 := if (r1.slots.length : Int) ≤ ci
                      then r1.slots ++ List.replicate (ci - r1.slots.length + 1).toNat none
                      else r1.slots
        match listSetPy slots1 ci x with
        | .ok s => ({ r1 with slots := s }, .ok ())
        | .error e => ({ r1 with slots := slots1 }, .error e)

def trimNone : List (Option RCol) → List (Option RCol)
  | l => (l.reverse.dropWhile (·.isNone)).reverse

/-- `del record[key]` -/
def Record.delItem (r : Record) (key : RKey) : Record × Except PyErr Unit :=
  match r.getItem key with
  | .error e => (r, .error e)
  | .ok none => (r, .error .key)
  | .ok (some c) =>
    let d := tdictDel r.dict c.col.key
    match c.col.index with
    | none => ({ r with dict := d }, .error .type)   -- `self.__columns_list[None] = None`
    | some ci =>
      if ci = (r.slots.length : Int) - 1 then
        ({ r with dict := d, slots := trimNone (r.slots.dropLast) }, .ok ())
      else
        -- `self.__columns_list[ci] = None` (Python index semantics)
        if 0 ≤ ci then
          if ci.toNat < r.slots.length then ({ r with dict := d, slots := r.slots.set ci.toNat none }, .ok ())
          else ({ r with dict := d }, .error .index)
        else
          let j := (r.slots.length : Int) + ci
          if 0 ≤ j then ({ r with dict := d, slots := r.slots.set j.toNat none }, .ok ())
          else ({ r with dict := d }, .error .index)

/-- `list(record)` : names in slot order, `None` for empty slots -/
def Record.keys (r : Record) : List (Option Text) := r.slots.map (·.map (·.col.key))

/-- `record.popitem()` as `MafRecord` inherits it from `MutableMapping`: `key = next(iter(self))` - the name in slot 0,
    `None` when that slot is empty, `StopIteration` (turned into `KeyError`) for the empty record - then
    `value = self[key]` and `del self[key]`.  `self[None]` answers `None`, and `del self[None]` raises `KeyError`. -/
def Record.popItem (r : Record) : Record × Except PyErr Unit :=
  match r.keys with
  | [] => (r, .error .key)
  | none :: _ => r.delItem .none
  | some k :: _ => r.delItem (.name k)

/-- `record.clear()` (`MutableMapping.clear`): `popitem()` until it raises `KeyError`, which is swallowed; any other
    exception propagates.  `fuel` bounds the loop (`slots.length + 1` is enough: every successful round empties slot 0). -/
def Record.clear : Nat → Record → Record × Except PyErr Unit
  | 0, r => (r, .ok ())
  | fuel + 1, r =>
    match r.popItem with
    | (r', .ok ()) => Record.clear fuel r'
    | (r', .error .key) => (r', .ok ())
    | (r', .error e) => (r', .error e)

/-- `record.value(key)` -/
def Record.value (r : Record) (key : RKey) : Except PyErr PyVal :=
  match r.getItem key with
  | .ok (some c) => .ok c.col.value
  | .ok none => .error .attribute      -- `None.value`
  | .error .key => .ok .none
  | .error e => .error e

/-- `str(record)`: one field per slot; an empty slot prints as `None` -/
def Record.render (C : Ctx) (r : Record) : Except PyErr Text :=
  (r.slots.mapM (fun (s : Option RCol) => match s with
    | some c => c.col.render C
    | none => (Except.ok "None".toList : Except PyErr Text))).map (joinWith '\t')

/-- `bool(scheme)`: a scheme defines `__len__` -/
def Scheme.truthy (s : Scheme) : Bool := s.size > 0

/-- `str(twin) != str(self)` on renderings (a failing rendering differs from everything) -/
def exceptTextEq (a b : Except PyErr Text) : Bool :=
  match a, b with
  | .ok x, .ok y => x == y
  | _, _ => false

/-- scheme part of `MafColumnRecord.validate` -/
def Column.schemeErrors (C : Ctx) (col : Column) (scheme : Option Scheme) (line : Option Nat) :
    List VErr :=
  match scheme.filter Scheme.truthy with
  | none => []
  | some s =>
    match s.columnIndex (String.ofList col.key), s.columnClass (String.ofList col.key) with
    | some si, some sc =>
      if col.index.isSome ∧ col.index ≠ some (si : Int) then
        [{ tpe := "RECORD_COLUMN_OUT_OF_ORDER", line := line }]
      else if !isSubclass C col.cls sc then
        [{ tpe := "RECORD_COLUMN_WRONG_FORMAT", line := line }]
      else if col.cls ≠ sc ∧ sc ≠ "MafColumnRecord" ∧ !col.valueInvalid C then
        -- a column of a proper sub-class: its value and text must also be what the
        -- scheme's own class allows (`twin = scheme_class(key, value, index)`)
        let twin : Column := { col with cls := sc }
        if twin.valueInvalid C ∨ !(exceptTextEq (twin.render C) (col.render C)) then
          [{ tpe := "RECORD_COLUMN_WRONG_FORMAT", line := line }]
        else []
      else []
    | _, _ => [{ tpe := "SCHEME_MISMATCHING_COLUMN_NAMES", line := line }]

/-- `column.validate(scheme=…, line_number=…)` -/
def Column.validate (C : Ctx) (col : Column) (scheme : Option Scheme) (line : Option Nat) : List VErr :=
  (if col.valueInvalid C then [{ tpe := "RECORD_COLUMN_WRONG_FORMAT", line := line }] else [])
    ++ col.schemeErrors C scheme line

/-- the internal self-consistency checks of `MafRecord.validate` (columns can be
    changed behind the record's back): the name map and the slot list hold the very
    same column objects, and every column reports the index it is stored at -/
def Record.syncErrors (r : Record) : List VErr :=
  let inSync := r.dict.length = r.slots.length &&
    r.slots.all (fun s => match s with
      | some c => (match tdictGet r.dict c.col.key with
                   | some d => d.oid == c.oid
                   | none => false)
      | none => true)
  (if inSync then [] else [{ tpe := "RECORD_OUT_OF_SYNC", line := r.line }]) ++
  r.slots.zipIdx.filterMap (fun (p : Option RCol × Nat) => match p.1 with
    | some c => if c.col.index == some (p.2 : Int) then none
                else some { tpe := "RECORD_COLUMN_INDEX_OUT_OF_SYNC", line := r.line }
    | none => none)

def hasFieldSep (t : Text) : Bool := t.any (fun c => c = '\t' || c = '\n' || c = '\r')

/-- errors of one stored column in `record.validate`: the column's own errors and,
    when validating against a scheme, the framing check on the text of a valid column -/
def Record.columnErrors (C : Ctx) (r : Record) (scheme : Option Scheme) (c : RCol) : List VErr :=
  let errs := c.col.validate C scheme none
  if (scheme.filter Scheme.truthy).isSome && errs.isEmpty then
    match c.col.render C with
    | .ok t => if hasFieldSep t then [{ tpe := "RECORD_COLUMN_WRONG_FORMAT", line := r.line }] else []
    | .error _ => []      -- rendering a valid column does not fail (see the per-type lemmas)
  else errs

/-- `record.validate(validation_stringency, reset_errors, scheme)`.
    Returns the updated record (errors), the log and the outcome. -/
def Record.validate (C : Ctx) (r : Record) (mode : Option Mode) (reset : Bool)
    (scheme : Option Scheme) : Record × Except PyErr (List LogRec) :=
  let errs0 := if reset then [] else r.errors
  let m := mode.getD r.mode
  let e1 : List VErr :=
    match scheme.filter Scheme.truthy with
    | some s => if s.size ≠ r.slots.length then [{ tpe := "RECORD_MISMATCH_NUMBER_OF_COLUMNS", line := none }] else []
    | none => []
  let e2 : List VErr := r.slots.flatMap (fun s => match s with
    | none => [{ tpe := "RECORD_COLUMN_WITH_NO_VALUE", line := r.line }]
    | some c => r.columnErrors C scheme c)
  let foundNone := r.slots.any (·.isNone)
  let e3 : List VErr := if foundNone then [] else r.syncErrors
  let r' := { r with errors := errs0 ++ e1 ++ e2 ++ e3 }
  (r', processErrors m r'.errors)

/-- `MafRecord.from_line(line, column_names, scheme, line_number, validation_stringency)` -/
def Record.fromLine (C : Ctx) (line : Text) (columnNames : Option (List Text))
    (scheme : Option Scheme) (lineNo : Option Nat) (mode : Option Mode) :
    Except PyErr (Record × List LogRec) :=
  let r0 : Record := { line := lineNo, mode := modeOrSilent mode }
  let names? : Option (List Text) := match columnNames with
    | some ns => some ns
    | none => scheme.map (fun s => s.names.map String.toList)
  match names? with
  | none => .error .value
  | some names =>
    let values := splitOn '\t' (rstripCRLF line)
    if names.length ≠ values.length then
      let r1 := { r0 with errors := [{ tpe := "RECORD_MISMATCH_NUMBER_OF_COLUMNS", line := lineNo, origin := lineNo }] }
      match r1.validate C none false none with
      | (r2, .ok logs) => .ok (r2, logs)
      | (_, .error e) => .error e
    else
      let sch := scheme.filter Scheme.truthy
      -- per-column construction; a failing `record[name] = column` aborts with its exception
      let step (acc : Except PyErr (Record × Nat)) (nv : Text × Text) : Except PyErr (Record × Nat) :=
        match acc with
        | .error e => .error e
        | .ok (r, i) =>
          let (name, value) := nv
          let built : Except Unit Column :=
            match sch.bind (fun s => s.columnClass (String.ofList name)) with
            | none => .ok { cls := "MafColumnRecord", key := name, value := .atom (.str value), index := some (i : Int) }
            | some cls =>
              match buildColumn C cls name value (some (i : Int)) with
              | .ok c => .ok c
              | .error _ => .error ()
          match built with
          | .error () =>
            .ok ({ r with errors := r.errors ++ [{ tpe := "RECORD_INVALID_COLUMN_VALUE", line := lineNo, origin := lineNo }] }, i + 1)
          | .ok col =>
            let errs := (col.validate C scheme lineNo).map (fun e => { e with origin := lineNo })
            let r1 := { r with errors := r.errors ++ errs }
            if errs.isEmpty then
              match r1.setItem (.name name) { oid := i, col := col } with
              | (r2, .ok ()) => .ok (r2, i + 1)
              | (_, .error e) => .error e
            else .ok (r1, i + 1)
      match (names.zip values).foldl step (.ok (r0, 0)) with
      | .error e => .error e
      | .ok (r, _) =>
        match r.validate C none false none with
        | (r2, .ok logs) => .ok (r2, logs)
        | (_, .error e) => .error e

end Model
