/-
  `maflib/writer.py`: `MafWriter.__init__`, `__iadd__`, `close`, with the sorting
  path through `MafSorter` (`MafSorterCodec` = `str(record)` / `from_line` Strict).
-/
import MafModel.Model.Reader
import MafModel.Model.Sorter
open Py
namespace Model

structure Writer where
  /-- every `handle.write(text)` call so far, in order -/
  out : List Text := []
  header : Header := {}
  scheme : Option Scheme := none
  mode : Mode := .strict
  assumeSorted : Bool := true
  /-- a `MafSorter` is configured (records are queued until `close`) -/
  sorting : Bool := false
  queued : List Record := []
  deriving Repr, Inhabited

/-- `_set_checker_and_sorter`: `sort_key()` of `Unsorted`/`Unknown` raises `NotImplementedError` -/
def Writer.setSorter (K : HConsts) (w : Writer) : Except PyErr Writer :=
  if w.assumeSorted then .ok { w with sorting := false }
  else
    let (o, _) := w.header.sortOrder K
    if o.sortable then .ok { w with sorting := true } else .error .notImplemented

def columnLine (s : Scheme) : Text := joinWith '\t' (s.names.map String.toList) ++ ['\n']

/-- `MafWriter(handle, header, validation_stringency, assume_sorted)` -/
def Writer.init (K : HConsts) (R : Registry) (h : Header) (mode : Option Mode) (assumeSorted : Bool) :
    Except PyErr Writer :=
  let m := modeOrSilent mode
  match h.validate K R (some m) true with
  | (_, .error e) => .error e
  | (h', .ok _) =>
    let out1 : List Text := if h'.recs.isEmpty then [] else [joinWith '\n' (h'.renderLines K) ++ ['\n']]
    let w : Writer := { out := out1, header := h', mode := m, assumeSorted := assumeSorted }
    match (h'.scheme K R).filter Scheme.truthy with
    | some s => ({ w with scheme := some s, out := w.out ++ [columnLine s] }).setSorter K
    | none => .ok w

/-- the sort key of a record as the sorter computes it -/
def Writer.keyOf (K : HConsts) (w : Writer) (r : Record) : Except PyErr Key :=
  let (o, cs) := w.header.sortOrder K
  -- `_CoordinateKey.__init__`: chromosome (KeyError), contig lookup (ValueError), positions
  -- (KeyError: column missing, or a text that is not a number); the error propagates from `add`
  let loc := r.toLoc
  if loc.hasCoords then mkKey o cs loc
  else match (tdictGet r.dict "Chromosome".toList).map (·.col.value) with
    | none => .error .key
    | some ch =>
      let chKV : KV := match ch with
        | .atom (.int i) => .int i
        | .atom (.str s) => .str s
        | _ => .none
      match mkKey o cs { hasCoords := true, chr := chKV } with
      | .error .value => .error .value
      | _ => .error .key

/-- `writer += record` -/
def Writer.write (C : Ctx) (K : HConsts) (w : Writer) (r : Record) : Writer × Except PyErr Unit :=
  -- no scheme yet: infer the columns from the record
  let step1 : Except PyErr Writer :=
    match w.scheme.filter Scheme.truthy with
    | some _ => .ok w
    | none =>
      let names := r.keys.map (fun k => match k with | some t => String.ofList t | none => "None")
      let s := noRestrictionsScheme names
      ({ w with scheme := some s, out := w.out ++ [columnLine s] }).setSorter K
  match step1 with
  | .error e =>
    -- the column line was already written and the scheme set when `sort_key()` raised
    let names := r.keys.map (fun k => match k with | some t => String.ofList t | none => "None")
    let s := noRestrictionsScheme names
    ({ w with scheme := some s, out := w.out ++ [columnLine s] }, .error e)
  | .ok w1 =>
    match r.validate C (some w1.mode) true w1.scheme with
    | (_, .error e) => (w1, .error e)
    | (r', .ok _) =>
      if w1.sorting then
        match w1.keyOf K r', r'.render C with
        | .error e, _ => (w1, .error e)
        | _, .error e => (w1, .error e)
        | .ok _, .ok _ => ({ w1 with queued := w1.queued ++ [r'] }, .ok ())
      else
        match r'.render C with
        | .error e => (w1, .error e)
        | .ok t => ({ w1 with out := w1.out ++ [t ++ ['\n']] }, .ok ())

/-- `MafSorterCodec.decode(encode(record))`: re-parse the rendering in Strict mode -/
def Writer.recode (C : Ctx) (w : Writer) (names : Option (List Text)) (r : Record) : Except PyErr Record :=
  match r.render C with
  | .error e => .error e
  | .ok t =>
    match Record.fromLine C t names w.scheme none (some .strict) with
    | .ok (r', _) => .ok r'
    | .error e => .error e

/-- `writer.close()`: drain the sorter (sorted by key, stable) into the handle -/
def Writer.close (C : Ctx) (K : HConsts) (w : Writer) : Writer × Except PyErr Unit :=
  if !w.sorting then (w, .ok ())
  else
    -- keys were computed at `add` time; failures there were reported then
    let keyed := w.queued.filterMap (fun r => match w.keyOf K r with | .ok k => some (k, r) | .error _ => none)
    let lt (a b : Key × Record) : Bool := match keyLt a.1 b.1 with | .ok true => true | _ => false
    let sorted := sortAll lt 10000 true keyed
    -- the codec takes the column names from the keys of the first encoded record
    -- (an empty slot has the key `None`, which no scheme knows)
    let names : Option (List Text) := w.queued.head?.map (fun r =>
      r.keys.map (fun k => match k with | some t => t | none => "\x00<None>".toList))
    let rec drain (w : Writer) : List (Key × Record) → Writer × Except PyErr Unit
      | [] => (w, .ok ())
      | (_, r) :: rest =>
        match w.recode C names r with
        | .error e => (w, .error e)
        | .ok r' =>
          match r'.render C with
          | .error e => (w, .error e)
          | .ok t => drain { w with out := w.out ++ [t ++ ['\n']] } rest
    drain w sorted

end Model
