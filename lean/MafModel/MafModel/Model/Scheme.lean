/-
  Schemes: `maflib/schemes.py` and the scheme factory
  (`load_all_scheme_data`, `combine_columns`, `build_scheme_class`,
  `build_schemes`, `validate_schemes`, `find_scheme_class`).
-/
import MafModel.Model.ColumnTypes
open Py
namespace Model

/-- A scheme instance: its layout as (column name, class) in column order.
    Names are distinct (the Python object keeps them in an `OrderedDict`). -/
structure Scheme where
  version : String
  annotation : String
  cols : List (String × String)
  noRestrictions : Bool := false
  deriving Repr, DecidableEq, Inhabited

def Scheme.names (s : Scheme) : List String := s.cols.map (·.1)
def Scheme.size (s : Scheme) : Nat := s.cols.length
def Scheme.columnClass (s : Scheme) (n : String) : Option String :=
  (List.find? (fun p => p.1 == n) s.cols).map (·.2)
def Scheme.columnIndex (s : Scheme) (n : String) : Option Nat :=
  let i := s.cols.findIdx (fun p => p.1 == n)
  if i < s.cols.length then some i else none
def Scheme.isBasic (s : Scheme) : Bool := s.version == s.annotation

/-- Python `dict` semantics on an association list: assignment to an existing key
    replaces the value in place, a new key is appended. -/
def dictSet {β} (d : List (String × β)) (k : String) (v : β) : List (String × β) :=
  if d.any (fun p => p.1 == k) then d.map (fun p => if p.1 == k then (k, v) else p)
  else d ++ [(k, v)]

def dictGet {β} (d : List (String × β)) (k : String) : Option β :=
  (List.find? (fun p => p.1 == k) d).map (·.2)

def dictOfList {β} (l : List (String × β)) : List (String × β) :=
  l.foldl (fun d p => dictSet d p.1 p.2) []

/-- `NoRestrictionsScheme(column_names)`: every column is a plain `MafColumnRecord`;
    duplicate names collapse (they are dictionary keys). -/
def noRestrictionsScheme (names : List String) : Scheme :=
  { version := "no-version", annotation := "no-annotation-specification",
    cols := dictOfList (names.map (fun n => (n, "MafColumnRecord"))), noRestrictions := true }

/-- state threaded through scheme building: the class table grows by `extend_class` -/
structure BuildState where
  tbl : ClassTable
  order : List Nat         -- generated base order of `extend_class`
  deriving Repr, Inhabited

def pyNameOf (tbl : ClassTable) (c : String) : String :=
  match tbl.find c with
  | some e => e.pyName
  | none => c

/-- `combine_columns(base_columns, extra_columns, filtered)` -/
def combineColumns (st : BuildState) (ann : String) (base : List (String × String))
    (extra : List (String × String)) (filtered : Option (List String)) :
    Except PyErr (BuildState × List (String × String)) :=
  let cols0 := dictOfList base
  -- mix the class of a redefined column in front of / behind the base class
  let (st1, cols1, _) := extra.foldl (fun (acc : BuildState × List (String × String) × Nat) ex =>
      let (st, cols, k) := acc
      match dictGet cols ex.1 with
      | some bcls =>
        let uid := "(" ++ ex.2 ++ "+" ++ bcls ++ ")@" ++ ann ++ "#" ++ ex.1 ++ "#" ++ toString k
        let e := extendClass st.order uid bcls ex.2 (pyNameOf st.tbl bcls)
        ({ st with tbl := st.tbl ++ [e] }, dictSet cols ex.1 uid, k + 1)
      | none => (st, cols, k + 1)) (st, cols0, 0)
  -- the list of new columns is computed before the update
  let fresh := extra.filter (fun ex => (dictGet cols1 ex.1).isNone)
  let cols2 := fresh.foldl (fun d p => dictSet d p.1 p.2) cols1
  match filtered with
  | none => .ok (st1, cols2)
  | some f =>
    if f.any (fun n => (dictGet cols2 n).isNone) then .error .value
    else .ok (st1, cols2.filter (fun p => !f.contains p.1))

/-- `build_scheme_class(datum, base_scheme)` -/
def buildSchemeClass (st : BuildState) (d : SchemeDef) (base : Option Scheme) :
    Except PyErr (BuildState × Scheme) :=
  match base with
  | some b =>
    match combineColumns st d.annotation b.cols d.columns d.filtered with
    | .ok (st', cols) => .ok (st', { version := d.version, annotation := d.annotation, cols := cols })
    | .error e => .error e
  | none => .ok (st, { version := d.version, annotation := d.annotation, cols := dictOfList d.columns })

/-- `not d.extends` -/
def SchemeDef.hasBase (d : SchemeDef) : Option String :=
  match d.base with
  | some b => if b.isEmpty then none else some b
  | none => none

/-- `build_schemes(data)`: repeatedly build the first datum whose base is built. -/
def buildSchemesAux : Nat → BuildState → List SchemeDef → List (String × Scheme) →
    Except PyErr (BuildState × List (String × Scheme))
  | _, st, [], built => .ok (st, built)
  | 0, _, _ :: _, _ => .error (.unmodelled "fuel")
  | fuel + 1, st, data, built =>
    let ready (d : SchemeDef) : Bool :=
      match d.hasBase with
      | none => true
      | some b => (dictGet built b).isSome
    match data.findIdx? ready with
    | none => .error .value
    | some i =>
      match data[i]? with
      | none => .error (.unmodelled "index")
      | some d =>
        let base := d.hasBase.bind (dictGet built)
        match buildSchemeClass st d base with
        | .error e => .error e
        | .ok (st', s) => buildSchemesAux fuel st' (data.eraseIdx i) (dictSet built s.annotation s)

def buildSchemes (st : BuildState) (data : List SchemeDef) :
    Except PyErr (BuildState × List (String × Scheme)) :=
  buildSchemesAux data.length st data []

/-- a definition without a base has its own `filtered` list applied to its own
    columns (`combine_columns(base_columns=[], …)`): `none` when a filtered name
    does not exist -/
def SchemeDef.normalize (d : SchemeDef) : Option SchemeDef :=
  match d.hasBase, d.filtered with
  | none, some f =>
    if f.any (fun n => !(d.columns.any (fun c => c.1 == n))) then none
    else some { d with columns := d.columns.filter (fun c => !f.contains c.1), filtered := none }
  | _, _ => some d

/-- `build_schemes(data)` as it stands: two definitions with one annotation are
    rejected up front, base-less definitions are normalised, then the build loop runs. -/
def buildSchemesTop (st : BuildState) (data : List SchemeDef) :
    Except PyErr (BuildState × List (String × Scheme)) :=
  if !(data.map (·.annotation)).Nodup then .error .value
  else match data.mapM SchemeDef.normalize with
    | none => .error .value
    | some ds => buildSchemes st ds

/-- `load_all_scheme_data`: every column type name must be a known column type
    (a class of the column-types module deriving from `MafColumnRecord`) -/
def knownColumnType (C : Ctx) (n : String) : Bool := isSubclass C n "MafColumnRecord"

def checkSchemeData (C : Ctx) (data : List SchemeDef) : Except PyErr Unit :=
  if data.all (fun d => d.columns.all (fun c => knownColumnType C c.2)) then .ok () else .error .value

/-- `validate_schemes`: pairwise distinct (version, annotation) -/
def validateSchemes : List Scheme → Bool
  | [] => true
  | s :: rest => rest.all (fun r => !(r.version == s.version && r.annotation == s.annotation))
                 && validateSchemes rest

def noRestrictionsClass : Scheme :=
  { version := "no-version", annotation := "no-annotation-specification", cols := [], noRestrictions := true }

/-- `find_scheme_class(version, annotation)` over the list `all_schemes()` -/
def findSchemeClass (all : List Scheme) (version annotation : Option String) :
    Except PyErr (Option Scheme) :=
  let v := version.filter (fun s => !s.isEmpty)
  let a := annotation.filter (fun s => !s.isEmpty)
  match v, a with
  | none, none => .error .value
  | some v, none => .ok (List.find? (fun s => s.version == v && s.annotation == v) all)
  | none, some a => .ok (List.find? (fun s => s.annotation == a) all)
  | some v, some a => .ok (List.find? (fun s => s.version == v && s.annotation == a) all)

end Model
