/-
  The process-wide scheme registry (`scheme_factory.all_schemes`) as a state
  machine: the built-in definitions plus the extra definitions registered so far.
-/
import MafModel.Model.Header
open Py
namespace Model

/-- the registry is determined by the extras registered so far (in order) -/
structure RegState where
  extras : List SchemeDef := []
  deriving Repr, Inhabited

/-- `load_all_schemes(extra_filenames)`: check the column types, build, validate.
    `builtins` are the shipped definitions, `tbl`/`order` the generated class table and mix-in order. -/
def loadAll (tbl : ClassTable) (order : List Nat) (builtins extras : List SchemeDef) :
    Except PyErr (ClassTable × List Scheme) :=
  let C : Ctx := { tbl := tbl, enums := [], H := ⟨fun _ => none⟩ }
  match checkSchemeData C (builtins ++ extras) with
  | .error e => .error e
  | .ok () =>
    match buildSchemesTop { tbl := tbl, order := order } (builtins ++ extras) with
    | .error e => .error e
    | .ok (st, ss) =>
      if !validateSchemes (noRestrictionsClass :: ss.map (·.2)) then .error .value
      else .ok (st.tbl, ss.map (·.2))

/-- `all_schemes(extra_filenames=defs)`: registration is cumulative, and nothing is
    registered when the new definitions cannot be loaded -/
def RegState.register (tbl : ClassTable) (order : List Nat) (builtins : List SchemeDef)
    (s : RegState) (defs : List SchemeDef) : RegState × Except PyErr Unit :=
  match loadAll tbl order builtins (s.extras ++ defs) with
  | .ok _ => ({ extras := s.extras ++ defs }, .ok ())
  | .error e => (s, .error e)

/-- `all_schemes()` for the current state (the state is only ever reached through
    successful registrations, so this loads) -/
def RegState.schemes (tbl : ClassTable) (order : List Nat) (builtins : List SchemeDef) (s : RegState) : List Scheme :=
  match loadAll tbl order builtins s.extras with
  | .ok (_, ss) => ss
  | .error _ => []

/-- the registry a header / reader / writer consults in this state -/
def RegState.registry (tbl : ClassTable) (order : List Nat) (builtins : List SchemeDef) (s : RegState) : Registry :=
  let all := noRestrictionsClass :: s.schemes tbl order builtins
  { schemes := all, supportedVersions := all.map (·.version), supportedAnnotations := all.map (·.annotation) }

end Model
