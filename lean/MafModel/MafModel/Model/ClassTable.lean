/-
  Class tables (what the translator emits) and Python's method resolution:
  C3 linearisation, hook lookup, `super()` chains, `extend_class`.
-/
import MafModel.Py.Value
open Py
namespace Model

/-- values that occur in `__nullable_dict__` literals -/
inductive NullVal where
  | none | emptyList | enumMember (cls member : String)
  deriving Repr, DecidableEq, Inhabited

def NullVal.toPy : NullVal → PyVal
  | .none => .atom .none
  | .emptyList => .list []
  | .enumMember c m => .atom (.enum c m)

/-- One class body.  `hooks` lists every method name defined in the body; the
    `Option (Option _)` fields are `none` when the body does not define the
    constant hook and `some r` when it defines it to `return r`. -/
structure ClassEntry where
  name : String
  bases : List String
  hooks : List String
  nullDict : Option (Option (List (String × NullVal))) := none
  minV : Option (Option Int) := none
  maxV : Option (Option Int) := none
  enumCls : Option String := none
  elemCls : Option String := none
  /-- `cls.__name__` when it differs from the table key (classes made by `extend_class`) -/
  display : Option String := none
  deriving Repr, DecidableEq, Inhabited

def ClassEntry.pyName (e : ClassEntry) : String := e.display.getD e.name

abbrev ClassTable := List ClassEntry

/-- One scheme definition file. -/
structure SchemeDef where
  version : String
  annotation : String
  base : Option String
  filtered : Option (List String)
  columns : List (String × String)
  deriving Repr, DecidableEq, Inhabited

def ClassTable.find (tbl : ClassTable) (n : String) : Option ClassEntry :=
  List.find? (fun e => e.name == n) tbl

/-- C3 merge: repeatedly take the first head that is in no tail. -/
def c3merge : Nat → List (List String) → Option (List String)
  | 0, _ => none
  | fuel + 1, seqs =>
    let seqs := seqs.filter (fun s => !s.isEmpty)
    if seqs.isEmpty then some []
    else
      let inTail (c : String) : Bool := seqs.any (fun s => s.tail.contains c)
      match seqs.findSome? (fun s => match s.head? with
                                     | some h => if inTail h then none else some h
                                     | none => none) with
      | none => none    -- inconsistent hierarchy: Python raises TypeError
      | some h =>
        (c3merge fuel (seqs.map (fun s => if s.head? == some h then s.tail else s))).map (h :: ·)

/-- `cls.__mro__` as class names (`object` omitted); `none` = not linearisable. -/
def mro (tbl : ClassTable) : Nat → String → Option (List String)
  | 0, _ => none
  | fuel + 1, n =>
    match tbl.find n with
    | none => none
    | some e =>
      match e.bases.mapM (mro tbl fuel) with
      | none => none
      | some ls => (c3merge (tbl.length * tbl.length + 8) (ls ++ [e.bases])).map (n :: ·)

def mroOf (tbl : ClassTable) (n : String) : Option (List String) := mro tbl (tbl.length + 1) n

/-- the classes of an MRO that define `hook`, in MRO order: the `super()` chain -/
def hookChain (tbl : ClassTable) (m : List String) (hook : String) : List String :=
  m.filter (fun c => match tbl.find c with
                     | some e => e.hooks.contains hook
                     | none => false)

/-- first class of the MRO whose body defines a constant hook -/
def firstConst {α} (tbl : ClassTable) (m : List String) (f : ClassEntry → Option α) : Option α :=
  m.findSome? (fun c => (tbl.find c).bind f)

/-- `extend_class(base_cls, cls)`: a new class named like the base whose bases are
    the two arguments in the generated order.  The model gives the new class a
    unique name `uid` (Python: a fresh class object). -/
def extendClass (order : List Nat) (uid base extra baseName : String) : ClassEntry :=
  { name := uid
    bases := order.filterMap (fun i => if i = 0 then some base else if i = 1 then some extra else none)
    hooks := []
    display := some baseName }

end Model
