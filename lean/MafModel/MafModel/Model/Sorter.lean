/-
  `maflib/sorter.py`: the external sorter — stash, spill of sorted chunks,
  k-way merge of the spilled chunks.  Generic in the item type; `lt` is the key
  comparison (`_SortEntry.__lt__` / `_SortedIterator.__lt__`).
-/
import MafModel.Py.Value
open Py
namespace Model

structure Sorter (α : Type) where
  cap : Nat
  alwaysSpill : Bool := true
  stash : List α := []
  files : List (List α) := []
  deriving Repr, Inhabited

variable {α : Type}

/-- `sorted(stash)`: Python's sort is stable and only uses `<` -/
def sortChunk (lt : α → α → Bool) (l : List α) : List α :=
  l.mergeSort (fun a b => !lt b a)

/-- `__spill`: write the sorted stash as one more file (nothing when it is empty) -/
def Sorter.spill (lt : α → α → Bool) (s : Sorter α) : Sorter α :=
  if s.stash.isEmpty then s
  else { s with files := s.files ++ [sortChunk lt s.stash], stash := [] }

/-- `add`: stash the item, spill when the stash is full -/
def Sorter.add (lt : α → α → Bool) (s : Sorter α) (x : α) : Sorter α :=
  let s' := { s with stash := s.stash ++ [x] }
  if s'.stash.length = s.cap then s'.spill lt else s'

/-- index of the first chunk whose head is minimal among the non-empty chunks -/
def minHead (lt : α → α → Bool) : List (List α) → Option (Nat × α)
  | [] => none
  | c :: cs =>
    match c, minHead lt cs with
    | [], r => r.map (fun p => (p.1 + 1, p.2))
    | x :: _, none => some (0, x)
    | x :: _, some (j, y) => if lt y x then some (j + 1, y) else some (0, x)

/-- `_MergingIterator`: repeatedly emit the smallest head -/
def mergeK (lt : α → α → Bool) : Nat → List (List α) → List α
  | 0, _ => []
  | fuel + 1, cs =>
    match minHead lt cs with
    | none => []
    | some (i, x) => x :: mergeK lt fuel (cs.modify i List.tail)

def totalLen (cs : List (List α)) : Nat := (cs.map List.length).sum

/-- `iter(sorter)` -/
def Sorter.iter (lt : α → α → Bool) (s : Sorter α) : List α :=
  if !s.files.isEmpty || s.alwaysSpill then
    let s' := s.spill lt
    mergeK lt (totalLen s'.files) s'.files
  else sortChunk lt s.stash

/-- add all items then iterate -/
def sortAll (lt : α → α → Bool) (cap : Nat) (alwaysSpill : Bool) (xs : List α) : List α :=
  (xs.foldl (Sorter.add lt) { cap := cap, alwaysSpill := alwaysSpill }).iter lt

end Model
