/-
  Line-protocol operations of the driver (JSON in, JSON out).
-/
import Lean.Data.Json
import MafModel.Model.Record
import MafModel.Spec.Layout
import MafModel.Model.SortOrder
import MafModel.Model.Sorter
import MafModel.Model.Overlap
import MafModel.Model.Header
import MafModel.Model.Reader
import MafModel.Model.Writer
import MafModel.Model.Resources
import MafModel.Generated.Enums
import MafModel.Generated.ClassTable
import MafModel.Generated.SchemeDefs
import MafModel.Generated.Consts
open Lean Py Model

namespace Ops

structure Env where
  tbl : ClassTable
  schemes : List (String × Scheme)
  buildErr : Option PyErr
  deriving Inhabited

/-- the built-in schemes, built by the model of `build_schemes` from the generated definitions -/
def initEnv : Env :=
  match buildSchemesTop { tbl := Generated.classTable, order := Generated.extendClassOrder } Generated.schemeDefs with
  | .ok (st, ss) => { tbl := st.tbl, schemes := ss, buildErr := none }
  | .error e => { tbl := Generated.classTable, schemes := [], buildErr := some e }

def txt (s : String) : Text := s.toList
def str (t : Text) : String := String.ofList t
def jtxt (t : Text) : Json := Json.str (str t)

def getStr? (j : Json) (k : String) : Option String :=
  match j.getObjVal? k with
  | .ok (Json.str s) => some s
  | _ => none

def getNat? (j : Json) (k : String) : Option Nat :=
  match j.getObjVal? k with
  | .ok v => match v.getNat? with | .ok n => some n | _ => none
  | _ => none

def getInt? (j : Json) (k : String) : Option Int :=
  match j.getObjVal? k with
  | .ok v => match v.getInt? with | .ok n => some n | _ => none
  | _ => none

def getArr (j : Json) (k : String) : List Json :=
  match j.getObjVal? k with
  | .ok (Json.arr a) => a.toList
  | _ => []

def getBool (j : Json) (k : String) (dflt : Bool) : Bool :=
  match j.getObjVal? k with
  | .ok (Json.bool b) => b
  | _ => dflt

def errName : PyErr → String
  | .format t l => "MafFormatException:" ++ t ++ ":" ++ (match l with | some n => toString n | none => "None")
  | .value => "ValueError" | .key => "KeyError" | .type => "TypeError" | .index => "IndexError"
  | .attribute => "AttributeError" | .assertion => "AssertionError"
  | .notImplemented => "NotImplementedError" | .stopIteration => "StopIteration"
  | .generic => "Exception"
  | .os n => "OSError:" ++ toString n
  | .unmodelled w => "UNMODELLED:" ++ w

def atomToJson : Atom → Json
  | .none => Json.mkObj [("t", "none")]
  | .bool b => Json.mkObj [("t", "bool"), ("v", Json.bool b)]
  | .int i => Json.mkObj [("t", "int"), ("v", Json.str (toString i))]
  | .float t => Json.mkObj [("t", "float"), ("v", jtxt t)]
  | .str s => Json.mkObj [("t", "str"), ("v", jtxt s)]
  | .enum c m => Json.mkObj [("t", "enum"), ("c", Json.str c), ("m", Json.str m)]
  | .uuid n => Json.mkObj [("t", "uuid"), ("v", Json.str (toString n))]
  | .other t => Json.mkObj [("t", "other"), ("v", Json.str t)]

def valToJson : PyVal → Json
  | .atom a => atomToJson a
  | .list xs => Json.mkObj [("t", "list"), ("v", Json.arr (xs.map atomToJson).toArray)]
  | .tuple xs => Json.mkObj [("t", "tuple"), ("v", Json.arr (xs.map atomToJson).toArray)]

def atomOfJson (j : Json) : Atom :=
  match getStr? j "t" with
  | some "none" => .none
  | some "bool" => .bool (getBool j "v" false)
  | some "int" => .int (((getStr? j "v").bind String.toInt?).getD 0)
  | some "float" => .float (txt ((getStr? j "v").getD ""))
  | some "str" => .str (txt ((getStr? j "v").getD ""))
  | some "enum" => .enum ((getStr? j "c").getD "") ((getStr? j "m").getD "")
  | some "uuid" => .uuid (((getStr? j "v").bind String.toNat?).getD 0)
  | _ => .other ((getStr? j "v").getD "?")

def valOfJson (j : Json) : PyVal :=
  match getStr? j "t" with
  | some "list" => .list ((getArr j "v").map atomOfJson)
  | some "tuple" => .tuple ((getArr j "v").map atomOfJson)
  | _ => .atom (atomOfJson j)

/-- the float host of a request: the graph of CPython's `float`/`repr` on the
    texts of the request (`floats`: object text ↦ repr or null).  A text missing
    from the table yields the marker token `<MISSING>` so that an incomplete
    table shows up as a disagreement instead of passing silently. -/
def floatHostOf (j : Json) : FloatHost :=
  let tbl : List (Text × Option Text) := match j.getObjVal? "floats" with
    | .ok (Json.obj kvs) => kvs.toList.map (fun (k, v) =>
        (txt k, match v with | Json.str s => some (txt s) | _ => none))
    | _ => []
  { parse := fun t => match List.find? (fun p => p.1 == t) tbl with
      | some p => p.2
      | none => some (txt "<MISSING>") }

def ctxOf (env : Env) (j : Json) : Ctx :=
  { tbl := env.tbl, enums := Generated.enums, H := floatHostOf j }

def modeOf (j : Json) : Option Mode :=
  match getStr? j "mode" with
  | some "Strict" => some .strict
  | some "Lenient" => some .lenient
  | some "Silent" => some .silent
  | _ => none

def exceptText (_C : Ctx) (r : Except PyErr Text) : Json :=
  match r with
  | .ok t => Json.mkObj [("ok", jtxt t)]
  | .error e => Json.mkObj [("err", Json.str (errName e))]

/-- resolve the class a request names: either `cls`, or `scheme` + `col` -/
def classOf (env : Env) (j : Json) : Option String :=
  match getStr? j "cls" with
  | some c => some c
  | none => match getStr? j "scheme", getStr? j "col" with
    | some a, some c => (dictGet env.schemes a).bind (fun s => s.columnClass c)
    | _, _ => none

def pyNames (env : Env) (m : List String) : Json :=
  Json.arr (m.map (fun c => Json.str (pyNameOf env.tbl c))).toArray

def colJson (C : Ctx) (env : Env) (c : Column) : Json :=
  Json.mkObj [("cls", Json.str (pyNameOf env.tbl c.cls)), ("key", jtxt c.key), ("value", valToJson c.value),
    ("index", match c.index with | some i => Json.num (Lean.JsonNumber.fromInt i) | none => Json.null),
    ("invalid", Json.bool (c.valueInvalid C)),
    ("str", exceptText C (c.render C))]

def errsJson (es : List VErr) : Json :=
  Json.arr (es.map (fun e => Json.arr #[Json.str e.tpe,
    match e.line with | some n => Json.num n | none => Json.null])).toArray

def logsJson (ls : List LogRec) : Json :=
  Json.arr (ls.map (fun e => Json.arr #[Json.str e.tpe,
    match e.line with | some n => Json.num n | none => Json.null])).toArray

def recordJson (C : Ctx) (env : Env) (r : Record) : Json :=
  Json.mkObj [
    ("errors", errsJson r.errors),
    ("keys", Json.arr (r.keys.map (fun k => match k with | some t => jtxt t | none => Json.null)).toArray),
    ("slots", Json.arr (r.slots.map (fun s => match s with
        | some c => colJson C env c.col
        | none => Json.null)).toArray),
    ("dict", Json.arr (r.dict.map (fun p => jtxt p.1)).toArray),
    ("str", exceptText C (r.render C))]

def schemeOf (env : Env) (j : Json) : Option Scheme :=
  match getStr? j "scheme" with
  | some a => dictGet env.schemes a
  | none => match j.getObjVal? "norestrict" with
    | .ok (Json.arr a) => some (noRestrictionsScheme (a.toList.filterMap (fun x => match x with | Json.str s => some s | _ => none)))
    | _ => none

def kvOf (j : Json) : KV :=
  match j with
  | Json.str s => .str (txt s)
  | Json.num _ => match j.getInt? with | .ok i => .int i | _ => .none
  | _ => .none

def locOf (j : Json) : Loc :=
  let f (k : String) : KV := kvOf ((j.getObjVal? k).toOption.getD Json.null)
  { hasCoords := getBool j "hasCoords" true, tumor := f "tumor", normal := f "normal",
    chr := f "chr", start := f "start", stop := f "stop" }

def orderOf (j : Json) : Order :=
  match getStr? j "order" with
  | some "Coordinate" => .coordinate
  | some "BarcodesAndCoordinate" => .barcodesAndCoordinate
  | some "Unsorted" => .unsorted
  | _ => .unknown

def contigsOf (j : Json) : List Text :=
  (getArr j "contigs").filterMap (fun x => match x with | Json.str s => some (txt s) | _ => none)

def hconsts : HConsts :=
  { versionKey := txt Generated.versionKey, annotationKey := txt Generated.annotationSpecKey,
    sortOrderKey := txt Generated.sortOrderKey, contigKey := txt Generated.contigKey,
    startSymbol := (Generated.headerLineStartSymbol.toList.head?).getD '#',
    sortOrders := Generated.sortOrders.map (fun p => (txt p.1, p.2.1, p.2.2)) }

/-- `all_schemes()` as a registry: the pseudo-scheme class plus the built schemes;
    `extras` are registered definitions (C20) -/
def registryOf (schemes : List Scheme) : Registry :=
  let all := noRestrictionsClass :: schemes
  { schemes := all, supportedVersions := all.map (·.version), supportedAnnotations := all.map (·.annotation) }

def linesOf (j : Json) (k : String) : List Text :=
  (getArr j k).filterMap (fun x => match x with | Json.str s => some (txt s) | _ => none)

def headerJson (h : Header) : Json :=
  let K := hconsts
  Json.mkObj [
    ("records", Json.arr (h.recs.map (fun p => Json.arr #[jtxt p.1, jtxt (p.2.render K)])).toArray),
    ("errors", errsJson h.errors),
    ("version", match h.version K with | some t => jtxt t | none => Json.null),
    ("annotation", match h.annotation K with | some t => jtxt t | none => Json.null),
    ("sort_order", jtxt (h.sortOrder K).1.name),
    ("sort_contigs", Json.arr ((h.sortOrder K).2.map jtxt).toArray),
    ("contigs", match h.contigs K with | some cs => Json.arr (cs.map jtxt).toArray | none => Json.null)]

def recSummary (C : Ctx) (r : Record) : Json :=
  Json.mkObj [("errors", errsJson r.errors),
    ("keys", Json.arr (r.keys.map (fun k => match k with | some t => jtxt t | none => Json.null)).toArray),
    ("str", exceptText C (r.render C))]

def dispatch (env : Env) (j : Json) : Json :=
  match getStr? j "op" with
  | some "ping" => Json.mkObj [("pong", Json.bool true),
      ("buildErr", match env.buildErr with | some e => Json.str (errName e) | none => Json.null)]
  | some "schemes" =>
    Json.mkObj [("schemes", Json.arr (env.schemes.map (fun (a, s) => Json.mkObj [
      ("annotation", Json.str a), ("version", Json.str s.version),
      ("names", Json.arr (s.names.map Json.str).toArray),
      ("classes", Json.arr (s.cols.map (fun p => Json.str (pyNameOf env.tbl p.2))).toArray)])).toArray)]
  | some "mro" =>
    match classOf env j with
    | none => Json.mkObj [("err", "no such class")]
    | some c => match mroOf env.tbl c with
      | some m => Json.mkObj [("mro", pyNames env m)]
      | none => Json.mkObj [("err", "TypeError")]
  | some "col.build" =>
    let C := ctxOf env j
    match classOf env j with
    | none => Json.mkObj [("err", "no such class")]
    | some c =>
      match buildColumn C c (txt ((getStr? j "name").getD "")) (txt ((getStr? j "text").getD "")) (getInt? j "index") with
      | .ok col => Json.mkObj [("col", colJson C env col)]
      | .error e => Json.mkObj [("exc", Json.str (errName e))]
  | some "col.api" =>
    let C := ctxOf env j
    match classOf env j with
    | none => Json.mkObj [("err", "no such class")]
    | some c =>
      let col : Column := { cls := c, key := txt ((getStr? j "name").getD ""),
                            value := valOfJson ((j.getObjVal? "value").toOption.getD Json.null),
                            index := getInt? j "index" }
      Json.mkObj [("col", colJson C env col)]
  | some "rec.from_line" =>
    let C := ctxOf env j
    let names : Option (List Text) := match j.getObjVal? "names" with
      | .ok (Json.arr a) => some (a.toList.filterMap (fun x => match x with | Json.str s => some (txt s) | _ => none))
      | _ => none
    match Record.fromLine C (txt ((getStr? j "line").getD "")) names (schemeOf env j) (getNat? j "lineno") (modeOf j) with
    | .ok (r, logs) => Json.mkObj [("rec", recordJson C env r), ("logs", logsJson logs)]
    | .error e => Json.mkObj [("exc", Json.str (errName e))]
  | some "rec.edit" =>
    let keyOf (j : Json) : RKey :=
      match getStr? j "t" with
      | some "name" => .name (txt ((getStr? j "v").getD ""))
      | some "int" => .int ((getInt? j "v").getD 0)
      | some "col" => .column { cls := "MafColumnRecord", key := txt ((getStr? j "key").getD ""), value := .atom .none, index := none }
      | some "none" => .none
      | _ => .other
    let colOf (j : Json) (oid : Nat) : RCol :=
      { oid := oid, col := { cls := "MafColumnRecord", key := txt ((getStr? j "key").getD ""),
                             value := .atom (.str (txt ((getStr? j "value").getD ""))), index := getInt? j "index" } }
    let obs (r : Record) : Json := Json.mkObj [
      ("len", Json.num r.slots.length),
      ("keys", Json.arr (r.keys.map (fun k => match k with | some t => jtxt t | none => Json.null)).toArray),
      ("dict", Json.arr (r.dict.map (fun p => Json.arr #[jtxt p.1, Json.num p.2.oid,
          match p.2.col.index with | some i => Json.num (Lean.JsonNumber.fromInt i) | none => Json.null])).toArray),
      ("slots", Json.arr (r.slots.map (fun s => match s with
          | some c => Json.arr #[jtxt c.col.key, Json.num c.oid,
              match c.col.index with | some i => Json.num (Lean.JsonNumber.fromInt i) | none => Json.null]
          | none => Json.null)).toArray)]
    let step (acc : Record × List Json × Nat) (o : Json) : Record × List Json × Nat :=
      let (r, outs, n) := acc
      let kind := (getStr? o "k").getD ""
      let colJ := (o.getObjVal? "col").toOption.getD Json.null
      let keyJ := (o.getObjVal? "key").toOption.getD Json.null
      let (r', res) : Record × Except PyErr Unit :=
        if kind == "set" then r.setItem (keyOf keyJ) (colOf colJ n)
        else if kind == "add" then
          let c := colOf colJ n
          r.setItem (.name c.col.key) c
        else if kind == "popitem" then r.popItem
        else if kind == "clear" then Record.clear (r.slots.length + 1) r
        else r.delItem (keyOf keyJ)
      let out := Json.mkObj [("exc", match res with | .ok () => Json.null | .error e => Json.str (errName e)), ("obs", obs r')]
      (r', outs ++ [out], n + 1)
    let (_, outs, _) := (getArr j "ops").foldl step (({} : Record), [], 0)
    Json.mkObj [("steps", Json.arr outs.toArray)]
  | some "sortkey.cmp" =>
    let o := orderOf j
    let cs := contigsOf j
    let ka := mkKey o cs (locOf ((j.getObjVal? "a").toOption.getD Json.null))
    let kb := mkKey o cs (locOf ((j.getObjVal? "b").toOption.getD Json.null))
    let showB (r : Except PyErr Bool) : Json := match r with | .ok b => Json.bool b | .error e => Json.str (errName e)
    match ka, kb with
    | .ok a, .ok b => Json.mkObj [("lt", showB (keyLt a b)), ("le", showB (keyLe a b)), ("gt", showB (keyGt a b)),
        ("ge", showB (keyGe a b)), ("eq", showB (keyEq a b)), ("ne", showB (keyNe a b)),
        ("cmp", match cmpKey a b with | .ok d => Json.num (Lean.JsonNumber.fromInt d) | .error e => Json.str (errName e))]
    | .error e, _ => Json.mkObj [("keyerr", Json.str (errName e))]
    | _, .error e => Json.mkObj [("keyerr", Json.str (errName e))]
  | some "checker.run" =>
    let c : Checker := { order := orderOf j, contigs := contigsOf j }
    let (out, err) := checkAll c ((getArr j "recs").map locOf)
    Json.mkObj [("yielded", Json.num out.length),
      ("err", match err with | some e => Json.str (errName e) | none => Json.null)]
  | some "sorter.run" =>
    -- items are [key, id] pairs of integers; `lt` compares keys
    let items : List (Int × Int) := (getArr j "items").map (fun x => match x with
      | Json.arr a => (((a[0]?.bind (fun v => v.getInt?.toOption)).getD 0), ((a[1]?.bind (fun v => v.getInt?.toOption)).getD 0))
      | _ => (0, 0))
    let lt (a b : Int × Int) : Bool := decide (a.1 < b.1)
    let cap := (getNat? j "cap").getD 1
    let s := items.foldl (Sorter.add lt) { cap := cap, alwaysSpill := getBool j "always_spill" true }
    let out := s.iter lt
    Json.mkObj [("out", Json.arr (out.map (fun p => Json.arr #[Json.num (Lean.JsonNumber.fromInt p.1), Json.num (Lean.JsonNumber.fromInt p.2)])).toArray),
      ("files", Json.num s.files.length), ("stash", Json.num s.stash.length)]
  | some "hdr.lines" =>
    let R := registryOf (env.schemes.map (·.2))
    match Header.fromLines hconsts R (linesOf j "lines") (modeOf j) with
    | (h, .ok logs) => Json.mkObj [("header", headerJson h), ("logs", logsJson logs),
        ("scheme", match h.scheme hconsts R with | some s => Json.str s.annotation | none => Json.null)]
    | (_, .error e) => Json.mkObj [("exc", Json.str (errName e))]
  | some "reader.run" =>
    let C := ctxOf env j
    let R := registryOf (env.schemes.map (·.2))
    let given : Option Scheme := match (getStr? j "given").bind (dictGet env.schemes) with
      | some s => some s
      | none => match j.getObjVal? "given_norestrict" with
        | .ok (Json.arr a) => some (noRestrictionsScheme (a.toList.filterMap (fun x => match x with | Json.str s => some s | _ => none)))
        | _ => none
    match Reader.init C hconsts R (linesOf j "lines") (modeOf j) given with
    | .error e => Json.mkObj [("init_exc", Json.str (errName e))]
    | .ok r =>
      let (recs, err, r') := r.readAll C hconsts
      Json.mkObj [("header", headerJson r.header), ("init_errors", errsJson r.errors),
        ("scheme", match r.scheme with
          | some s => Json.mkObj [("annotation", Json.str s.annotation), ("names", Json.arr (s.names.map Json.str).toArray)]
          | none => Json.null),
        ("records", Json.arr (recs.map (recSummary C)).toArray),
        ("iter_exc", match err with | some e => Json.str (errName e) | none => Json.null),
        ("errors", errsJson r'.errors),
        ("logs", logsJson r'.logs)]
  | some "writer.run" =>
    let C := ctxOf env j
    let K := hconsts
    let R := registryOf (env.schemes.map (·.2))
    let (h, _) := Header.fromLines K R (linesOf j "header_lines") (some .silent)
    let outText (w : Writer) : Json := jtxt w.out.flatten
    -- build a record from a specification
    let clsOf (cj : Json) : String := (classOf env cj).getD "MafColumnRecord"
    let mkRec (rj : Json) : Record :=
      match rj.getObjVal? "parse" with
      | .ok pj =>
        let names : Option (List Text) := match pj.getObjVal? "names" with
          | .ok (Json.arr a) => some (a.toList.filterMap (fun x => match x with | Json.str s => some (txt s) | _ => none))
          | _ => none
        match Record.fromLine C (txt ((getStr? pj "line").getD "")) names (schemeOf env pj) none (some .silent) with
        | .ok (r, _) => r
        | .error _ => {}
      | .error _ =>
        let cols := getArr rj "cols"
        let (r, _) := cols.foldl (fun (acc : Record × Nat) cj =>
          let (r, n) := acc
          let col : Column := { cls := clsOf cj, key := txt ((getStr? cj "key").getD ""),
                                value := valOfJson ((cj.getObjVal? "value").toOption.getD Json.null),
                                index := getInt? cj "index" }
          ((r.setItem (.name col.key) { oid := n, col := col }).1, n + 1)) (({} : Record), 0)
        -- post-hoc mutations of stored column objects, addressed by construction order
        (getArr rj "mut").foldl (fun (r : Record) mj =>
          let oid := (getNat? mj "i").getD 0
          let f (c : RCol) : RCol :=
            if c.oid ≠ oid then c else
            match getStr? mj "field" with
            | some "value" => { c with col := { c.col with value := valOfJson ((mj.getObjVal? "to").toOption.getD Json.null) } }
            | some "index" => { c with col := { c.col with index := getInt? mj "to" } }
            | some "key" => { c with col := { c.col with key := txt ((getStr? mj "to").getD "") } }
            | _ => c
          { r with dict := r.dict.map (fun p => (p.1, f p.2)), slots := r.slots.map (fun s => s.map f) }) r
    match Writer.init K R h (modeOf j) (getBool j "assume_sorted" true) with
    | .error e => Json.mkObj [("init_exc", Json.str (errName e))]
    | .ok w0 =>
      let (_, steps) := (getArr j "ops").foldl (fun (acc : Writer × List Json) o =>
        let (w, outs) := acc
        let (w', res) : Writer × Except PyErr Unit :=
          if (getStr? o "k") == some "close" then w.close C K
          else w.write C K (mkRec ((o.getObjVal? "rec").toOption.getD Json.null))
        (w', outs ++ [Json.mkObj [("exc", match res with | .ok () => Json.null | .error e => Json.str (errName e)),
                                   ("out", outText w')]])) (w0, [])
      Json.mkObj [("init_out", outText w0), ("steps", Json.arr steps.toArray)]
  | some "overlap.run" =>
    -- inputs: list of lists of locs; items are (key, id); groups are reported as ids per input
    let byBar := getBool j "by_barcodes" true
    let o : Order := if byBar then .barcodesAndCoordinate else .coordinate
    let cs := contigsOf j
    let inputs : List (List Json) := (getArr j "inputs").map (fun x => match x with | Json.arr a => a.toList | _ => [])
    let keyed : Except PyErr (List (List (Key × Nat))) :=
      (inputs.foldl (fun (acc : Except PyErr (List (List (Key × Nat)) × Nat)) inp =>
        match acc with
        | .error e => .error e
        | .ok (done, n) =>
          match inp.foldl (fun (a2 : Except PyErr (List (Key × Nat) × Nat)) lj =>
              match a2 with
              | .error e => .error e
              | .ok (l, k) => match mkKey o cs (locOf lj) with
                | .ok key => .ok (l ++ [(key, k)], k + 1)
                | .error e => .error e) (.ok ([], n)) with
          | .error e => .error e
          | .ok (l, n') => .ok (done ++ [l], n')) (.ok ([], 0))).map (·.1)
    match keyed with
    | .error e => Json.mkObj [("exc", Json.str (errName e))]
    | .ok its =>
      let intOf (k : KV) : Int := match k with | .int i => i | _ => 0
      let ops : OvOps (Key × Nat) := {
        lt := fun a b => match keyLt a.1 b.1 with | .ok true => true | _ => false,
        same := fun a b => decide (a.1.chr = b.1.chr) && (!byBar || (decide (a.1.tumor = b.1.tumor) && decide (a.1.normal = b.1.normal))),
        start := fun a => intOf a.1.start,
        stop := fun a => intOf a.1.stop }
      let groups := ovAll ops (totalLen' its + 1) its
      let gj (gs : List (List (List (Key × Nat)))) : Json :=
        Json.arr (gs.map (fun g => Json.arr (g.map (fun slot => Json.arr (slot.map (fun p => Json.num p.2)).toArray)).toArray)).toArray
      match getStr? j "allele" with
      | none => Json.mkObj [("groups", gj groups)]
      | some relName =>
        let rel : AlleleRel := if relName == "Intersects" then .intersects else if relName == "Subset" then .subset else .equality
        -- alleles: parallel arrays indexed by item id: {"ref": "...", "alts": [...]}
        let alle := getArr j "alleles"
        let al : AlOps (Key × Nat) := {
          ref := fun a => txt ((alle[a.2]?.bind (fun x => getStr? x "ref")).getD ""),
          alts := fun a => (alle[a.2]?.map (fun x => linesOf x "alts")).getD [] }
        Json.mkObj [("groups", gj (alleleAll al rel groups))]
  | some "registry.run" =>
    -- a history of register / find / header / read operations against the process-wide registry
    let C0 := ctxOf env j
    let K := hconsts
    let defOf (d : Json) : SchemeDef := {
      version := (getStr? d "version").getD "", annotation := (getStr? d "annotation").getD "",
      base := getStr? d "extends",
      filtered := match d.getObjVal? "filtered" with
        | .ok (Json.arr a) => some (a.toList.filterMap (fun x => match x with | Json.str s => some s | _ => none))
        | _ => none,
      columns := (getArr d "columns").filterMap (fun c => match c with
        | Json.arr a => match a[0]?, a[1]? with
          | some (Json.str n), some (Json.str t) => some (n, t)
          | _, _ => none
        | _ => none) }
    -- state: the registered extra definitions (accumulated), the current table and schemes
    let build (extras : List SchemeDef) : Except PyErr (ClassTable × List Scheme) :=
      let Cc : Ctx := { tbl := Generated.classTable, enums := Generated.enums, H := ⟨fun _ => none⟩ }
      match checkSchemeData Cc extras with
      | .error e => .error e
      | .ok () =>
        match buildSchemesTop { tbl := Generated.classTable, order := Generated.extendClassOrder } (Generated.schemeDefs ++ extras) with
        | .error e => .error e
        | .ok (st, ss) =>
          if !validateSchemes (noRestrictionsClass :: ss.map (·.2)) then .error .value else .ok (st.tbl, ss.map (·.2))
    let step (acc : (List SchemeDef × ClassTable × List Scheme) × List Json) (o : Json) :=
      let ((extras, tbl, schemes), outs) := acc
      let R := registryOf schemes
      let C : Ctx := { C0 with tbl := tbl }
      match getStr? o "k" with
      | some "register" =>
        let extras' := extras ++ (getArr o "defs").map defOf
        match build extras' with
        | .ok (tbl', schemes') => (((extras', tbl', schemes')), outs ++ [Json.mkObj [("exc", Json.null)]])
        | .error e => ((extras, tbl, schemes), outs ++ [Json.mkObj [("exc", Json.str (errName e))]])
      | some "find" =>
        let r := R.findScheme ((getStr? o "version").map txt) ((getStr? o "annotation").map txt)
        ((extras, tbl, schemes), outs ++ [match r with
          | .ok (some s) => Json.mkObj [("annotation", Json.str s.annotation), ("version", Json.str s.version),
                                         ("names", Json.arr (s.names.map Json.str).toArray)]
          | .ok none => Json.mkObj [("found", Json.null)]
          | .error e => Json.mkObj [("exc", Json.str (errName e))]])
      | some "header" =>
        let res := match Header.fromLines K R (linesOf o "lines") (modeOf o) with
          | (h, .ok _) => Json.mkObj [("errors", errsJson h.errors)]
          | (_, .error e) => Json.mkObj [("exc", Json.str (errName e))]
        ((extras, tbl, schemes), outs ++ [res])
      | some "read" =>
        let res := match Reader.init C K R (linesOf o "lines") (modeOf o) none with
          | .error e => Json.mkObj [("init_exc", Json.str (errName e))]
          | .ok r =>
            let (recs, err, r') := r.readAll C K
            Json.mkObj [("scheme", match r.scheme with | some s => Json.str s.annotation | none => Json.null),
              ("n", Json.num recs.length), ("errors", errsJson r'.errors),
              ("iter_exc", match err with | some e => Json.str (errName e) | none => Json.null)]
        ((extras, tbl, schemes), outs ++ [res])
      | _ => ((extras, tbl, schemes), outs ++ [Json.mkObj [("fatal", "bad op")]])
    let (_, outs) := (getArr j "ops").foldl step (([], env.tbl, env.schemes.map (·.2)), [])
    Json.mkObj [("steps", Json.arr outs.toArray)]
  | some "sorter.faults" =>
    let (log, st) := Model.scenario ((getNat? j "n").getD 0) ((getNat? j "cap").getD 1) (getBool j "always_spill" true)
      (getNat? j "abandon") (getNat? j "fail_at")
    Json.mkObj [("calls", Json.arr (st.trace.map (fun c => Json.str c.name)).toArray),
      ("raised", Json.arr (log.raised.map (fun p => Json.arr #[Json.str p.1, Json.str (errName p.2)])).toArray),
      ("output", match log.output with | some o => Json.arr (o.map (fun (k : Nat) => Json.num (Lean.JsonNumber.fromNat k))).toArray | none => Json.null),
      ("fired", Json.bool st.fired),
      ("leaked_files", Json.num st.files.length), ("leaked_fds", Json.num st.fds.length),
      ("open_handles", Json.num st.handles.length)]
  | some "schemes.build" =>
    -- definitions in load order; the result is compared as a set keyed by annotation
    let defs : List SchemeDef := (getArr j "defs").map (fun d => {
      version := (getStr? d "version").getD "", annotation := (getStr? d "annotation").getD "",
      base := getStr? d "extends",
      filtered := match d.getObjVal? "filtered" with
        | .ok (Json.arr a) => some (a.toList.filterMap (fun x => match x with | Json.str s => some s | _ => none))
        | _ => none,
      columns := (getArr d "columns").filterMap (fun c => match c with
        | Json.arr a => match a[0]?, a[1]? with
          | some (Json.str n), some (Json.str t) => some (n, t)
          | _, _ => none
        | _ => none) })
    let C0 : Ctx := { tbl := Generated.classTable, enums := Generated.enums, H := ⟨fun _ => none⟩ }
    match checkSchemeData C0 defs with
    | .error e => Json.mkObj [("exc", Json.str (errName e))]
    | .ok () =>
      match buildSchemesTop { tbl := Generated.classTable, order := Generated.extendClassOrder } defs with
      | .error e => Json.mkObj [("exc", Json.str (errName e))]
      | .ok (st, ss) =>
        if !validateSchemes (noRestrictionsClass :: ss.map (·.2)) then Json.mkObj [("exc", "ValueError")]
        else Json.mkObj [("schemes", Json.arr (ss.map (fun (a, s) => Json.mkObj [
          ("annotation", Json.str a), ("version", Json.str s.version),
          ("names", Json.arr (s.names.map Json.str).toArray),
          ("mros", Json.arr (s.cols.map (fun p => match mroOf st.tbl p.2 with
              | some m => Json.arr (m.map (fun c => Json.str (pyNameOf st.tbl c))).toArray
              | none => Json.null)).toArray)])).toArray)]
  | some "spec.domain" =>
    let S : Spec.SCtx := { enums := Generated.enums, H := floatHostOf j }
    let ty : Option Spec.ColType := match getStr? j "cls" with
      | some c => some (.named c)
      | none => match getStr? j "scheme", getStr? j "col" with
        | some a, some c => (Spec.layoutOf Generated.schemeDefs a).bind (fun l => l.typeOf c)
        | _, _ => none
    match ty with
    | none => Json.mkObj [("err", "no such type")]
    | some ty =>
      let t := txt ((getStr? j "text").getD "")
      match Spec.specBuild S ty t with
      | some v => Json.mkObj [("in", Json.bool true), ("value", valToJson v),
                              ("null", Json.bool (Spec.isNullOf ty v))]
      | none => Json.mkObj [("in", Json.bool false)]
  | some "spec.line" =>
    let S : Spec.SCtx := { enums := Generated.enums, H := floatHostOf j }
    match (getStr? j "scheme").bind (Spec.layoutOf Generated.schemeDefs) with
    | none => Json.mkObj [("err", "no such scheme")]
    | some layout =>
      let fields := splitOn '\t' (rstripCRLF (txt ((getStr? j "line").getD "")))
      Json.mkObj [("count_ok", Json.bool (fields.length == layout.length)),
        ("fields", Json.arr ((layout.zip fields).map (fun (p : (String × Spec.ColType) × Text) =>
          match Spec.specBuild S p.1.2 p.2 with
          | some v => Json.mkObj [("in", Json.bool true), ("value", valToJson v),
                                  ("null", Json.bool (Spec.isNullOf p.1.2 v)),
                                  ("pref", match Spec.preferredNull p.1.2 with | some t => jtxt t | none => Json.null)]
          | none => Json.mkObj [("in", Json.bool false)])).toArray)]
  | some "spec.layouts" =>
    Json.mkObj [("layouts", Json.arr (Generated.schemeDefs.map (fun d =>
      Json.mkObj [("annotation", Json.str d.annotation),
        ("names", match Spec.layoutOf Generated.schemeDefs d.annotation with
          | some l => Json.arr (l.map (fun p => Json.str p.1)).toArray
          | none => Json.null)])).toArray)]
  | some op => Json.mkObj [("fatal", Json.str ("unknown op " ++ op))]
  | none => Json.mkObj [("fatal", "no op")]

end Ops
