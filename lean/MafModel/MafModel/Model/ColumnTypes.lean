/-
  Column types: `MafColumnRecord`, `MafCustomColumnRecord` and the hook bodies of
  `maflib/column_types.py`, executed over a class table through Python's MRO.

  The *structure* (bases, which body defines which hook, constant hooks, enum
  vocabularies) comes from the generated tables; the hook *bodies* below are
  hand-written, keyed by the defining class, and tied to the code by the
  correspondence check (`col.build`, `col.api`).
-/
import MafModel.Model.ClassTable
open Py
namespace Model

/-- CPython's `float(text)` as an abstract host: the float is represented by its
    `repr`.  Laws used by theorems are hypotheses (`FloatHost.Lawful`), checked on
    the graph recorded from CPython at every run. -/
structure FloatHost where
  parse : Text → Option Text

structure FloatHost.Lawful (H : FloatHost) : Prop where
  /-- `float(repr(f)) == f` for every float the host can produce -/
  parse_repr : ∀ t r, H.parse t = some r → H.parse r = some r
  /-- a float's `repr` contains no separator and is not empty -/
  repr_clean : ∀ t r, H.parse t = some r → r ≠ [] ∧ ∀ c ∈ r, c ≠ '\t' ∧ c ≠ '\n' ∧ c ≠ '\r' ∧ c ≠ ';'
  parse_empty : H.parse [] = none

abbrev Enums := List (String × List (String × String))

def Enums.members (E : Enums) (cls : String) : List (String × String) :=
  match List.find? (fun p => p.1 == cls) E with
  | some p => p.2
  | none => []

/-- `EnumCls(text)` then `EnumCls[text]` : member name -/
def enumLookup (E : Enums) (cls : String) (t : Text) : Option String :=
  let ms := E.members cls
  match List.find? (fun p => p.2.toList == t) ms with
  | some p => some p.1
  | none => match List.find? (fun p => p.1.toList == t) ms with
    | some p => some p.1
    | none => none

def enumValue (E : Enums) (cls member : String) : Option Text :=
  (List.find? (fun p => p.1 == member) (E.members cls)).map (·.2.toList)

/-- Python `str(v)` for scalars. -/
def atomStr (E : Enums) : Atom → Except PyErr Text
  | .none => .ok "None".toList
  | .bool true => .ok "True".toList
  | .bool false => .ok "False".toList
  | .int i => .ok (intStr i)
  | .float t => .ok t
  | .str s => .ok s
  | .enum c m => match enumValue E c m with
    | some v => .ok v
    | none => .error (.unmodelled "enum member")
  | .uuid n => .ok (uuidStr n)
  | .other _ => .error (.unmodelled "str(other)")

def pyStr (E : Enums) : PyVal → Except PyErr Text
  | .atom a => atomStr E a
  | .list _ => .error (.unmodelled "str(list)")
  | .tuple _ => .error (.unmodelled "str(tuple)")

structure Ctx where
  tbl : ClassTable
  enums : Enums
  H : FloatHost

def isInstanceStr : PyVal → Bool | .atom (.str _) => true | _ => false
/-- `isinstance(v, int)` — `bool` is a subclass of `int` in Python -/
def isInstanceInt : PyVal → Bool | .atom (.int _) => true | .atom (.bool _) => true | _ => false
def isInstanceFloat : PyVal → Bool | .atom (.float _) => true | _ => false
def isInstanceBool : PyVal → Bool | .atom (.bool _) => true | _ => false
def isInstanceUuid : PyVal → Bool | .atom (.uuid _) => true | _ => false
/-- the value as an integer for `IntegerColumn` / `TranscriptStrand` validation:
    `isinstance(v, int) and not isinstance(v, bool)` -/
def asInt : PyVal → Option Int
  | .atom (.int i) => some i | _ => none

/-- The element class of a sequence column, resolved through its MRO. -/
structure ElemSpec where
  buildChain : List String
  validateChain : List String
  enumCls : Option String
  minV : Option Int
  maxV : Option Int
  deriving Repr, DecidableEq, Inhabited

/-- Everything method resolution decides about a class, computed once from the
    class table: which `build` / `validate` method it inherits, its null
    dictionary, the `super()` chains of the three hooks and the constant hooks.
    All execution below is a function of this record; the theorems about
    column types are stated over such records, and a `decide` obligation ties
    each class of the generated table to the record the theorem is about. -/
structure ColSpec where
  cls : String
  mro : List String
  buildMethod : Option String
  validateMethod : Option String
  nullDict : Option (List (String × NullVal))
  buildChain : List String
  validateChain : List String
  stringChain : List String
  enumCls : Option String
  minV : Option Int
  maxV : Option Int
  elem : Option ElemSpec
  deriving Repr, DecidableEq, Inhabited

def resolveElem (tbl : ClassTable) (ec : String) : Option ElemSpec :=
  (mroOf tbl ec).map (fun em =>
    { buildChain := hookChain tbl em "__build__"
      validateChain := hookChain tbl em "__validate__"
      enumCls := firstConst tbl em (·.enumCls)
      minV := (firstConst tbl em (·.minV)).join
      maxV := (firstConst tbl em (·.maxV)).join })

def resolveSpec (tbl : ClassTable) (cls : String) : Option ColSpec :=
  (mroOf tbl cls).map (fun m =>
    { cls := cls
      mro := m
      buildMethod := (hookChain tbl m "build").head?
      validateMethod := (hookChain tbl m "validate").head?
      nullDict := (firstConst tbl m (·.nullDict)).join
      buildChain := hookChain tbl m "__build__"
      validateChain := hookChain tbl m "__validate__"
      stringChain := hookChain tbl m "__string_it__"
      enumCls := firstConst tbl m (·.enumCls)
      minV := (firstConst tbl m (·.minV)).join
      maxV := (firstConst tbl m (·.maxV)).join
      elem := (firstConst tbl m (·.elemCls)).bind (resolveElem tbl) })

/-! ### hook bodies (one named definition per `__build__` / `__validate__` body) -/

/-- `StringIntegerOrFloatColumn.__build__` -/
def bStrIntFloat (H : FloatHost) (t : Text) : Atom :=
  match H.parse t with
  | some f => .float f
  | none => match pyInt t with
    | some i => .int i
    | none => .str t

/-- `StringOrIntegerColumn.__build__` -/
def bStrInt (t : Text) : Atom :=
  match pyInt t with
  | some i => .int i
  | none => .str t

/-- `IntegerColumn.__build__`, `TranscriptStrand.__build__` -/
def bInt (t : Text) : Except PyErr Atom :=
  match pyInt t with
  | some i => .ok (.int i)
  | none => .error .value

/-- `FloatColumn.__build__` -/
def bFloat (H : FloatHost) (t : Text) : Except PyErr Atom :=
  match H.parse t with
  | some f => .ok (.float f)
  | none => .error .value

/-- `EnumColumn.__build__` -/
def bEnum (E : Enums) (enumCls : Option String) (t : Text) : Except PyErr Atom :=
  match enumCls with
  | none => .error .type
  | some ec => match enumLookup E ec t with
    | some mem => .ok (.enum ec mem)
    | none => .error .key

/-- `Canonical.__build__` -/
def bCanonical (t : Text) : Except PyErr Atom :=
  if pyUpper t = [] then .ok (.bool false)
  else if pyUpper t = "YES".toList then .ok (.bool true)
  else .error .value

/-- `BooleanColumn.__build__` -/
def bBoolean (t : Text) : Except PyErr Atom :=
  if pyUpper t = "TRUE".toList then .ok (.bool true)
  else if pyUpper t = "FALSE".toList then .ok (.bool false)
  else .error .value

/-- `UUIDColumn.__build__` -/
def bUuid (t : Text) : Except PyErr Atom :=
  match pyUuid t with
  | some n => .ok (.uuid n)
  | none => .error .value

/-- `EntrezGeneId.__build__`: `None if built == 0 else built` -/
def zeroIsNull (r : Except PyErr Atom) : Except PyErr Atom :=
  match r with
  | .ok a => .ok (if a.pyEq (.int 0) then .none else a)
  | .error e => .error e

/-- Run the `__build__` chain of a non-sequence class on a text.
    `enumCls` is `cls.__enum_class__()` of the class the hook is called on,
    `chain` the definers of `__build__` from the current `super()` position on. -/
def runBuildAtom (C : Ctx) (enumCls : Option String) : List String → Text → Except PyErr Atom
  | [], _ => .error .attribute
  | c :: rest, t =>
    if c = "MafCustomColumnRecord" then .ok .none
    else if c = "_BuildStringColumn" then .ok (.str t)
    else if c = "StringIntegerOrFloatColumn" then .ok (bStrIntFloat C.H t)
    else if c = "StringOrIntegerColumn" then .ok (bStrInt t)
    else if c = "IntegerColumn" then bInt t
    else if c = "TranscriptStrand" then bInt t
    else if c = "FloatColumn" then bFloat C.H t
    else if c = "EnumColumn" then bEnum C.enums enumCls t
    else if c = "Canonical" then bCanonical t
    else if c = "BooleanColumn" then bBoolean t
    else if c = "NullableYesOrNo" then runBuildAtom C enumCls rest (pyCapitalize t)
    else if c = "NullableYOrN" then runBuildAtom C enumCls rest (pyCapitalize t)
    else if c = "PickColumn" then runBuildAtom C enumCls rest (pyCapitalize t)
    else if c = "YesNoOrUnknown" then runBuildAtom C enumCls rest t
    else if c = "UUIDColumn" then bUuid t
    else if c = "EntrezGeneId" then
      -- `built = super().__build__(value); return None if built == 0 else built`
      zeroIsNull (runBuildAtom C enumCls rest t)
    else .error (.unmodelled ("__build__ of " ++ c))

/-- `SequenceOfValuesColumn.__build__` -/
def bSeq (C : Ctx) (elem : Option ElemSpec) (t : Text) : Except PyErr PyVal :=
  match elem with
  | none => .error .attribute
  | some es =>
    match (splitOn ';' t).mapM (runBuildAtom C es.enumCls es.buildChain) with
    | .ok xs => .ok (.list xs)
    | .error e => .error e

/-- `cls.__build__(text)` -/
def runBuild (C : Ctx) (sp : ColSpec) (t : Text) : Except PyErr PyVal :=
  match sp.buildChain with
  | c :: _ =>
    if c = "SequenceOfValuesColumn" then bSeq C sp.elem t
    else (runBuildAtom C sp.enumCls sp.buildChain t).map PyVal.atom
  | [] => .error .attribute

/-- `IntegerColumn.__validate__` -/
def vIntRange (minV maxV : Option Int) (v : PyVal) : Bool :=
  match asInt v with
  | none => true
  | some i =>
    (match minV with | some lo => decide (i < lo) | none => false) ||
    (match maxV with | some hi => decide (hi < i) | none => false)

/-- `EnumColumn.__validate__` -/
def vEnum (enumCls : Option String) (v : PyVal) : Bool :=
  match enumCls, v with
  | some ec, .atom (.enum vc _) => vc != ec
  | _, _ => true

/-- a text element must not contain the list separator -/
def hasListSep : Atom → Bool
  | .str s => s.contains ';'
  | _ => false

/-- `SequenceOfValuesColumn.__validate__` -/
def vSeq (elemInvalid : Atom → Bool) (v : PyVal) : Bool :=
  match v with
  | .list xs => xs.any (fun a => elemInvalid a || hasListSep a)
  | .tuple xs => xs.any (fun a => elemInvalid a || hasListSep a)
  | _ => true

/-- `NullableDnaString.__validate__` -/
def vDna (v : PyVal) : Bool :=
  match v with
  | .atom (.str s) => if s = ['-'] then false else !s.all (fun b => b = 'A' || b = 'C' || b = 'G' || b = 'T')
  | _ => true

/-- `TranscriptStrand.__validate__` -/
def vStrand (v : PyVal) : Bool :=
  match asInt v with
  | none => true
  | some i => !(i = -1 || i = 1)

/-- Run a `__validate__` chain; `true` = a message was returned (invalid).
    `elemInvalid` is the element validator of a sequence class. -/
def runValidate (enumCls : Option String) (minV maxV : Option Int) (elemInvalid : Atom → Bool) :
    List String → PyVal → Bool
  | [], _ => false
  | c :: rest, v =>
    if c = "MafCustomColumnRecord" then false
    else if c = "RequireNullValue" then true
    else if c = "NullableStringColumn" then !isInstanceStr v
    else if c = "StringColumn" then
      if runValidate enumCls minV maxV elemInvalid rest v then true else !v.truthy
    else if c = "StringIntegerOrFloatColumn" then
      !(isInstanceInt v || isInstanceFloat v || isInstanceStr v)
    else if c = "StringOrIntegerColumn" then !(isInstanceInt v || isInstanceStr v)
    else if c = "IntegerColumn" then vIntRange minV maxV v
    else if c = "FloatColumn" then !isInstanceFloat v
    else if c = "EnumColumn" then vEnum enumCls v
    else if c = "SequenceOfValuesColumn" then vSeq elemInvalid v
    else if c = "NullableDnaString" then vDna v
    else if c = "DnaString" then
      if runValidate enumCls minV maxV elemInvalid rest v then true else !v.truthy
    else if c = "Canonical" then !isInstanceBool v
    else if c = "BooleanColumn" then !isInstanceBool v
    else if c = "UUIDColumn" then !isInstanceUuid v
    else if c = "TranscriptStrand" then vStrand v
    else true   -- unknown hook body: treated as rejecting (never reached on the generated table)

def ColSpec.nullValues (sp : ColSpec) : List PyVal :=
  match sp.nullDict with
  | some d => d.map (·.2.toPy)
  | none => []

/-- `self.value in nullable_values` -/
def ColSpec.isNullValue (sp : ColSpec) (v : PyVal) : Bool :=
  sp.nullValues.any (fun n => n.pyEq v)

/-- the element validator `column_cls("", value).__validate__()` of a sequence class -/
def ColSpec.elemInvalid (sp : ColSpec) : Atom → Bool :=
  match sp.elem with
  | none => fun _ => true
  | some es => fun a => runValidate es.enumCls es.minV es.maxV (fun _ => true) es.validateChain (.atom a)

/-- `__string_it__` -/
def runString (E : Enums) (chain : List String) (v : PyVal) : Except PyErr Text :=
  match chain with
  | [] => .error .attribute
  | c :: _ =>
    if c = "MafColumnRecord" then pyStr E v
    else if c = "EnumColumn" then
      match v with
      | .atom (.enum ec mem) => match enumValue E ec mem with
        | some t => .ok t
        | none => .error (.unmodelled "enum member")
      | _ => .error .attribute
    else if c = "SequenceOfValuesColumn" then
      match v with
      | .list xs => (xs.mapM (atomStr E)).map (joinWith ';')
      | .tuple xs => (xs.mapM (atomStr E)).map (joinWith ';')
      | _ => .error (.unmodelled "join over non-sequence")
    else if c = "Canonical" then .ok (if v.truthy then "YES".toList else [])
    else .error (.unmodelled ("__string_it__ of " ++ c))

/-- `str(column)` (`MafColumnRecord.__str__`) on a resolved class -/
def ColSpec.render (E : Enums) (sp : ColSpec) (v : PyVal) : Except PyErr Text :=
  let keys := match sp.nullDict with
    | some d => (d.filter (fun p => p.2.toPy.pyEq v)).map (·.1)
    | none => []
  match keys with
  | k :: _ => if keys.contains "" then .ok [] else .ok k.toList
  | [] => runString E sp.stringChain v

/-- `cls.build(name, text)` value part.  `.inl v`: a column of this class with value `v`;
    `.inr ()`: the class inherits `MafColumnRecord.build`, which returns a plain
    `MafColumnRecord` carrying the text. -/
def ColSpec.buildValue (C : Ctx) (sp : ColSpec) (t : Text) : Except PyErr (PyVal ⊕ Unit) :=
  match sp.buildMethod with
  | some "MafCustomColumnRecord" =>
    match sp.nullDict.bind (fun d => List.find? (fun p => p.1.toList == t) d) with
    | some p => .ok (.inl p.2.toPy)
    | none =>
      match runBuild C sp t with
      | .ok v => .ok (.inl v)
      | .error e => .error e
  | some "MafColumnRecord" => .ok (.inr ())
  | _ => .error .attribute

/-- the value-level part of `column.validate()`: `true` = RECORD_COLUMN_WRONG_FORMAT -/
def ColSpec.valueInvalid (sp : ColSpec) (v : PyVal) : Bool :=
  match sp.validateMethod with
  | some "MafCustomColumnRecord" =>
    if sp.isNullValue v then false
    else runValidate sp.enumCls sp.minV sp.maxV sp.elemInvalid sp.validateChain v
  | _ => false

/-- A column object: its class, name, value and `column_index`. -/
structure Column where
  cls : String
  key : Text
  value : PyVal
  index : Option Int
  deriving Repr, DecidableEq, Inhabited

def Column.render (C : Ctx) (col : Column) : Except PyErr Text :=
  match resolveSpec C.tbl col.cls with
  | none => .error (.unmodelled "class")
  | some sp => sp.render C.enums col.value

/-- `cls.build(name, text, column_index)` without a scheme -/
def buildColumn (C : Ctx) (cls : String) (key : Text) (t : Text) (index : Option Int) :
    Except PyErr Column :=
  match resolveSpec C.tbl cls with
  | none => .error (.unmodelled "class")
  | some sp =>
    match sp.buildValue C t with
    | .ok (.inl v) => .ok { cls := cls, key := key, value := v, index := index }
    | .ok (.inr ()) => .ok { cls := "MafColumnRecord", key := key, value := .atom (.str t), index := index }
    | .error e => .error e

def Column.valueInvalid (C : Ctx) (col : Column) : Bool :=
  match resolveSpec C.tbl col.cls with
  | none => true
  | some sp => sp.valueInvalid col.value

def isSubclass (C : Ctx) (cls sup : String) : Bool :=
  match mroOf C.tbl cls with
  | some m => m.contains sup
  | none => false


/-- Field-level acceptance as `from_line` applies it to one column of a scheme:
    build with the scheme's class, keep the column only when it validates with
    zero errors.  `plainOk` says whether a plain `MafColumnRecord` is an instance
    of the scheme's class (only when the scheme's class *is* `MafColumnRecord`). -/
def ColSpec.accept (C : Ctx) (sp : ColSpec) (plainOk : Bool) (t : Text) : Option PyVal :=
  match sp.buildValue C t with
  | .ok (.inl v) => if sp.valueInvalid v then none else some v
  | .ok (.inr ()) => if plainOk then some (.atom (.str t)) else none
  | .error _ => none

/-- forget the identity of the class, keep everything method resolution decided -/
def ColSpec.erase (sp : ColSpec) : ColSpec := { sp with cls := "", mro := [] }

end Model
