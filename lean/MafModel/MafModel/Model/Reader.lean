/-
  `maflib/reader.py`: `MafReader.__init__` (header, column line, scheme choice,
  column-name checks), `__next__` and order-enforcing iteration.
-/
import MafModel.Model.Header
import MafModel.Model.Record
open Py
namespace Model

structure Reader where
  /-- lines not yet pulled from the input iterator -/
  src : List Text
  /-- how many lines have been pulled so far (C19) -/
  pulled : Nat := 0
  /-- the single look-ahead line (`None` at end of input) -/
  next : Option Text := none
  /-- `__line_number`: number of lines successfully pulled -/
  lineNo : Nat := 0
  header : Header := {}
  scheme : Option Scheme := none
  errors : List VErr := []
  mode : Mode := .silent
  logs : List LogRec := []
  deriving Repr, Inhabited

/-- `__next_line__`: pull one line, strip CR/LF; the counter advances only when a line was there -/
def Reader.advance (r : Reader) : Reader :=
  match r.src with
  | [] => { r with next := none, pulled := r.pulled + 1 }     -- the pull that hits StopIteration
  | l :: ls => { r with src := ls, next := some (rstripCRLF l), lineNo := r.lineNo + 1, pulled := r.pulled + 1 }

/-- read header lines: lines starting with the start symbol -/
def readHeaderLines (K : HConsts) : Nat → Reader → List Text → Reader × List Text
  | 0, r, acc => (r, acc)
  | fuel + 1, r, acc =>
    let r' := r.advance
    match r'.next with
    | some l => if l.head? = some K.startSymbol then readHeaderLines K fuel r' (acc ++ [l]) else (r', acc)
    | none => (r', acc)

/-- the record a data line gives, as the order checker sees it -/
def Record.toLoc (r : Record) : Loc :=
  let get (n : String) : Option PyVal := (tdictGet r.dict n.toList).map (·.col.value)
  let kvOf : PyVal → KV
    | .atom (.int i) => .int i
    | .atom (.bool b) => .int (if b then 1 else 0)
    | .atom (.str s) => .str s
    | _ => .none
  -- `str(chromosome)`: a `bool` prints as `True` / `False`
  let chrOf : PyVal → KV
    | .atom (.bool b) => .str (if b then "True".toList else "False".toList)
    | v => kvOf v
  match get "Chromosome", get "Start_Position", get "End_Position" with
  | some c, some s, some e =>
    { hasCoords := true, chr := chrOf c, start := kvOf s, stop := kvOf e,
      tumor := ((get "Tumor_Sample_Barcode").map kvOf).getD .none,
      normal := ((get "Matched_Norm_Sample_Barcode").map kvOf).getD .none }
  | _, _, _ => { hasCoords := false }

/-- `checker.add(record)` for a parsed record.  `_CoordinateKey.__init__` reads the
    chromosome (KeyError when the column is missing), looks it up in the contig
    list (ValueError), and only then reads the positions (KeyError when a position
    column is missing or holds a text that is not a number): a record that
    cannot be keyed is skipped, but a chromosome missing from the contig list is
    reported even when a position column is missing (or unreadable) too. -/
def Checker.addRecord (c : Checker) (rec : Record) : Except PyErr Checker :=
  let loc := rec.toLoc
  if !c.order.sortable || loc.hasCoords then c.add loc
  else
    match (tdictGet rec.dict "Chromosome".toList).map (·.col.value) with
    | none => .ok c
    | some ch =>
      let chKV : KV := match ch with
        | .atom (.int i) => .int i
        | .atom (.bool b) => .int (if b then 1 else 0)
        | .atom (.str s) => .str s
        | _ => .none
      match mkKey c.order c.contigs { hasCoords := true, chr := chKV } with
      | .error .value => .error .value
      | _ => .ok c

/-- `MafReader(lines, validation_stringency, scheme)` -/
def Reader.init (C : Ctx) (K : HConsts) (R : Registry) (lines : List Text) (mode : Option Mode)
    (given : Option Scheme) : Except PyErr Reader :=
  let m := modeOrSilent mode
  let r0 : Reader := { src := lines, mode := m }
  let (r1, hlines) := readHeaderLines K (lines.length + 1) r0 []
  match Header.fromLines K R hlines (some m) with
  | (_, .error e) => .error e
  | (h, .ok hlogs) =>
    let r2 := { r1 with header := h, errors := h.errors, logs := hlogs }
    -- the column-name line
    let (r3, colNames) : Reader × Option (List Text) :=
      match r2.next with
      | some l => (r2.advance, some (splitOn '\t' l))
      | none => (r2, none)
    -- the physical line of the column names, remembered before looking ahead
    let colLine := r2.lineNo
    -- `__update_scheme__`
    let hs := h.scheme K R
    let (e1, sch1) : List VErr × Option Scheme :=
      match given with
      | some g =>
        ((match hs with
          | some s => if g.version ≠ s.version then [{ tpe := "HEADER_MISMATCH_SCHEME", line := none }] else []
          | none => []), some g)
      | none => ([], hs)
    let (sch2, warn) : Option Scheme × List LogRec :=
      match colNames with
      | some names =>
        if sch1.isNone ∨ (sch1.map (·.noRestrictions)) = some true then
          (some (noRestrictionsScheme (names.map String.ofList)),
           if m ≠ .silent then [{ tpe := "NO_MATCHING_SCHEME_WARNING", line := none }] else [])
        else (sch1, [])
      | none => (sch1, [])
    -- column names against the scheme
    let e2 : List VErr :=
      match colNames, sch2 with
      | some names, some s =>
        let snames := s.names.map String.toList
        let ln := some colLine
        let origin := some (hlines.length + 1)
        if names.length ≠ snames.length then
          [{ tpe := "SCHEME_MISMATCHING_NUMBER_OF_COLUMN_NAMES", line := ln, origin := origin }]
        else (names.zip snames).filterMap (fun p =>
          if p.1 ≠ p.2 then some { tpe := "SCHEME_MISMATCHING_COLUMN_NAMES", line := ln, origin := origin } else none)
      | some _, none => []
      | none, _ => [{ tpe := "HEADER_MISSING_COLUMN_NAMES", line := some (r3.lineNo + 1), origin := some (hlines.length + 1) }]
    let r4 := { r3 with scheme := sch2, errors := r3.errors ++ e1 ++ e2, logs := r3.logs ++ warn }
    match processErrors m r4.errors with
    | .error e => .error e
    | .ok lg => .ok { r4 with logs := r4.logs ++ lg }

/-- `reader.__next__()`: `none` = `StopIteration` -/
def Reader.nextRecord (C : Ctx) (r : Reader) : Except PyErr (Option (Record × Reader)) :=
  match r.next with
  | none => .ok none
  | some l =>
    match Record.fromLine C l none r.scheme (some r.lineNo) (some r.mode) with
    | .error e => .error e
    | .ok (rec, lg) =>
      let rec' := { rec with errors := rec.errors.map (fun e => { e with origin := some r.lineNo }) }
      let r' := { r with errors := r.errors ++ rec'.errors, logs := r.logs ++ lg }
      .ok (some (rec', r'.advance))

/-- iterate the reader through the order-enforcing iterator: the records yielded
    before any failure, the failure, and the final reader state -/
def Reader.iterate (C : Ctx) (K : HConsts) : Nat → Reader → Checker → List Record → List Record × Option PyErr × Reader
  | 0, r, _, acc => (acc, none, r)
  | fuel + 1, r, chk, acc =>
    match r.nextRecord C with
    | .error e => (acc, some e, r)
    | .ok none => (acc, none, r)
    | .ok (some (rec, r')) =>
      match chk.addRecord rec with
      | .error e => (acc, some e, r')
      | .ok chk' => Reader.iterate C K fuel r' chk' (acc ++ [rec])

def Reader.checker (K : HConsts) (r : Reader) : Checker :=
  let (o, cs) := r.header.sortOrder K
  { order := o, contigs := cs }

/-- `list(reader)` -/
def Reader.readAll (C : Ctx) (K : HConsts) (r : Reader) : List Record × Option PyErr × Reader :=
  Reader.iterate C K (r.src.length + 2) r (r.checker K) []

end Model
