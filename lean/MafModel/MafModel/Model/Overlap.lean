/-
  `maflib/overlap_iter.py`: `LocatableOverlapIterator.__next__` and
  `LocatableByAlleleOverlapIterator.__next__`, over abstract keyed items.

  `OvOps` abstracts what the loop reads from a sort key: the order `lt`, the
  "same chromosome (and barcode pair)" test, and the closed interval.
-/
import MafModel.Py.Value
open Py
namespace Model

structure OvOps (κ : Type) where
  lt : κ → κ → Bool
  same : κ → κ → Bool
  start : κ → Int
  stop : κ → Int

variable {κ : Type}

/-- the head of every input (`peek()`), `none` when exhausted -/
def heads (iters : List (List κ)) : List (Option κ) := iters.map List.head?

/-- Python `min` over the present heads: the first minimal one -/
def minKey (ops : OvOps κ) : List (Option κ) → Option κ
  | [] => none
  | none :: r => minKey ops r
  | some k :: r =>
    match minKey ops r with
    | none => some k
    | some m => if ops.lt m k then some m else some k

/-- `__overlaps`: same class and `lo.start ≤ cur.start ≤ hi` -/
def overlapsHead (ops : OvOps κ) (lo : κ) (hi : Int) (cur : κ) : Bool :=
  ops.same lo cur && decide (ops.start lo ≤ ops.start cur) && decide (ops.start cur ≤ hi)

/-- one `for i, _iter in enumerate(self._iters)` pass: every input whose head
    overlaps the running interval gives up that head (at most one per pass) and
    extends the running end.  Returns the new end, the absorbed head per input
    and the remaining inputs. -/
def sweepPass (ops : OvOps κ) (lo : κ) : Int → List (List κ) → Int × List (Option κ) × List (List κ)
  | hi, [] => (hi, [], [])
  | hi, [] :: rest =>
    let (hi', t, r) := sweepPass ops lo hi rest
    (hi', none :: t, [] :: r)
  | hi, (k :: ks) :: rest =>
    if overlapsHead ops lo hi k then
      let hi1 := if hi < ops.stop k then ops.stop k else hi
      let (hi', t, r) := sweepPass ops lo hi1 rest
      (hi', some k :: t, ks :: r)
    else
      let (hi', t, r) := sweepPass ops lo hi rest
      (hi', none :: t, (k :: ks) :: r)

def appendTaken (acc : List (List κ)) (t : List (Option κ)) : List (List κ) :=
  List.zipWith (fun a o => match o with | some k => a ++ [k] | none => a) acc t

/-- `while added:` — repeat passes until one absorbs nothing -/
def sweep (ops : OvOps κ) (lo : κ) : Nat → Int → List (List κ) → List (List κ) → List (List κ) × List (List κ)
  | 0, _, acc, iters => (acc, iters)
  | fuel + 1, hi, acc, iters =>
    let (hi', t, r) := sweepPass ops lo hi iters
    if t.any Option.isSome then sweep ops lo fuel hi' (appendTaken acc t) r
    else (acc, r)

def totalLen' (cs : List (List κ)) : Nat := (cs.map List.length).sum

/-- `LocatableOverlapIterator.__next__`: `none` = `StopIteration` -/
def ovNext (ops : OvOps κ) (iters : List (List κ)) : Option (List (List κ) × List (List κ)) :=
  match minKey ops (heads iters) with
  | none => none
  | some lo =>
    some (sweep ops lo (totalLen' iters + 1) (ops.stop lo) (iters.map (fun _ => [])) iters)

/-- all groups, in emission order -/
def ovAll (ops : OvOps κ) : Nat → List (List κ) → List (List (List κ))
  | 0, _ => []
  | fuel + 1, iters =>
    match ovNext ops iters with
    | none => []
    | some (g, rest) =>
      -- a group that absorbed nothing (ill-formed interval `stop < start`) would repeat forever
      if g.all List.isEmpty then [] else g :: ovAll ops fuel rest

/-! ### allele-aware iteration -/

structure AlOps (κ : Type) where
  ref : κ → Text
  alts : κ → List Text

inductive AlleleRel where
  | equality | intersects | subset
  deriving Repr, DecidableEq, Inhabited

def AlleleRel.test : AlleleRel → List Text → List Text → Bool
  | .equality, base, other => base == other
  | .intersects, base, other => other.any (fun i => base.contains i) || base == other
  | .subset, base, other => other.all (fun i => base.contains i)

/-- `__should_add(items, other)` -/
def shouldAdd (al : AlOps κ) (rel : AlleleRel) (items : List κ) (other : κ) : Bool :=
  items.any (fun it => al.ref it == al.ref other && rel.test (al.alts it) (al.alts other))

/-- partition of the first input of a positional group: each record joins the
    first subgroup it is compatible with, else opens a new one -/
def partitionFirst (al : AlOps κ) (rel : AlleleRel) : List κ → List (List κ) → List (List κ)
  | [], acc => acc
  | x :: xs, acc =>
    match acc.findIdx? (fun g => shouldAdd al rel g x) with
    | some i => partitionFirst al rel xs (acc.modify i (· ++ [x]))
    | none => partitionFirst al rel xs (acc ++ [[x]])

/-- the groups emitted for one positional group whose first slot is non-empty -/
def alleleGroups (al : AlOps κ) (rel : AlleleRel) (g : List (List κ)) : List (List (List κ)) :=
  match g with
  | [] => []
  | first :: others =>
    (partitionFirst al rel first []).map (fun sub =>
      sub :: others.map (fun o => o.filter (shouldAdd al rel sub)))

/-- `list(LocatableByAlleleOverlapIterator(...))` from the positional groups -/
def alleleAll (al : AlOps κ) (rel : AlleleRel) (groups : List (List (List κ))) : List (List (List κ)) :=
  (groups.filter (fun g => match g with | f :: _ => !f.isEmpty | [] => false)).flatMap (alleleGroups al rel)

end Model
