/-
  C03 — the validation stringency changes what is REPORTED, never what is PARSED.

  For each entry point — `Header.fromLines`, `Record.fromLine`, `Record.validate`, and whole-file
  reading (`Reader.init` + `Reader.readAll`) — the value and the collected error list are those of
  the Silent run; Silent logs nothing, Lenient logs one warning per collected error, Strict raises
  the first collected error (and returns exactly the Silent result when there is none).

  "Same value" is up to the stringency field the objects remember (`Header.mode`, `Record.mode`,
  `Reader.mode`): `x.withMode m` is `x` with that field set to `m`; `ModeRel m rS rM` says the
  reader `rM` is `rS` up to the stringency fields and the log.
-/
import MafModel.Lemmas.ReaderModes
import MafModel.Lemmas.ReaderExample
import MafModel.Props.C17
open Py Model
namespace C03

/-- the warnings of a list of collected errors: one `⟨type, line⟩` record per error -/
def warnings (es : List VErr) : List LogRec := es.map (fun e => { tpe := e.tpe, line := e.line })

theorem errLogs_lenient_eq (es : List VErr) : errLogs .lenient es = warnings es := rfl

/-! ## 1. `Header.fromLines` -/
section header
variable (K : HConsts) (R : Registry) (ls : List Text)

/-- parsing is stringency-independent: the header of any mode is the Silent header -/
theorem header_parse_independent (m : Mode) :
    (Header.fromLines K R ls (some m)).1 = (Header.fromLines K R ls (some .silent)).1.withMode m := by
  simp only [fromLines_spec]; rfl

/-- … and the outcome is `processErrors` on the Silent error list -/
theorem header_outcome (m : Mode) :
    (Header.fromLines K R ls (some m)).2 =
      processErrors m (Header.fromLines K R ls (some .silent)).1.errors := by
  simp only [fromLines_spec]; rfl

/-- Silent and Lenient: the same header, the same collected errors, no exception -/
theorem header_silent_lenient_same :
    (Header.fromLines K R ls (some .lenient)).1 = (Header.fromLines K R ls (some .silent)).1.withMode .lenient ∧
    (Header.fromLines K R ls (some .lenient)).1.recs = (Header.fromLines K R ls (some .silent)).1.recs ∧
    (Header.fromLines K R ls (some .lenient)).1.errors = (Header.fromLines K R ls (some .silent)).1.errors ∧
    (∃ lg, (Header.fromLines K R ls (some .silent)).2 = .ok lg) ∧
    (∃ lg, (Header.fromLines K R ls (some .lenient)).2 = .ok lg) := by
  have h := header_parse_independent K R ls .lenient
  refine ⟨h, by rw [h]; rfl, by rw [h]; rfl, ⟨[], ?_⟩,
    ⟨errLogs .lenient (Header.fromLines K R ls (some .silent)).1.errors, ?_⟩⟩
  · rw [header_outcome]; simp
  · rw [header_outcome, processErrors_lenient]

theorem header_silent_no_logs : (Header.fromLines K R ls (some .silent)).2 = .ok [] := by
  rw [header_outcome]; simp

theorem header_lenient_logs_every_error :
    (Header.fromLines K R ls (some .lenient)).2 =
      .ok (warnings (Header.fromLines K R ls (some .silent)).1.errors) := by
  rw [header_outcome, processErrors_lenient]; rfl

/-- Strict raises the first collected error; with no error it returns what Silent returns -/
theorem header_strict_first_error :
    (∀ e es, (Header.fromLines K R ls (some .silent)).1.errors = e :: es →
      (Header.fromLines K R ls (some .strict)).2 = .error (.format e.tpe e.line)) ∧
    ((Header.fromLines K R ls (some .silent)).1.errors = [] →
      Header.fromLines K R ls (some .strict) =
        ((Header.fromLines K R ls (some .silent)).1.withMode .strict, .ok [])) := by
  constructor
  · intro e es h
    rw [header_outcome, h]; rfl
  · intro h
    apply Prod.ext
    · exact header_parse_independent K R ls .strict
    · show (Header.fromLines K R ls (some .strict)).2 = .ok []
      rw [header_outcome, h]; rfl

end header

/-! ## 2. `Record.fromLine` -/
section record
variable (C : Ctx) (l : Text) (cn : Option (List Text)) (sch : Option Scheme) (n : Option Nat)

/-- `from_line` under any stringency, in terms of the Silent run: the same exception if parsing
    itself raised; otherwise `processErrors` on the collected errors and the same record -/
theorem record_via_silent (m : Mode) :
    Record.fromLine C l cn sch n (some m) =
      match Record.fromLine C l cn sch n (some .silent) with
      | .error e => .error e
      | .ok (rec, _) =>
        match processErrors m rec.errors with
        | .error e => .error e
        | .ok lg => .ok (rec.withMode m, lg) := by
  rw [fromLine_spec, fromLine_spec C l cn sch n (some .silent)]
  cases parsedLine C l cn sch n with
  | error e => rfl
  | ok prec => simp only [modeOrSilent, processErrors_silent]; rfl

/-- Silent and Lenient: the same record with the same collected errors — or the same (non-format)
    exception; neither raises a `MafFormatException` -/
theorem record_silent_lenient_same :
    (∀ rec lg, Record.fromLine C l cn sch n (some .silent) = .ok (rec, lg) →
      Record.fromLine C l cn sch n (some .lenient) = .ok (rec.withMode .lenient, warnings rec.errors)) ∧
    (∀ e, Record.fromLine C l cn sch n (some .silent) = .error e →
      Record.fromLine C l cn sch n (some .lenient) = .error e ∧ e.notFormat) := by
  constructor
  · intro rec lg h
    rw [record_via_silent, h]
    simp only [processErrors_lenient]; rfl
  · intro e h
    refine ⟨by rw [record_via_silent, h], ?_⟩
    rw [fromLine_spec] at h
    cases hp : parsedLine C l cn sch n with
    | error e' => rw [hp] at h; cases h; exact parsedLine_error_notFormat hp
    | ok prec => rw [hp] at h; simp [modeOrSilent] at h

theorem record_silent_no_logs {rec : Record} {lg : List LogRec}
    (h : Record.fromLine C l cn sch n (some .silent) = .ok (rec, lg)) : lg = [] := by
  rw [fromLine_spec] at h
  cases hp : parsedLine C l cn sch n with
  | error e' => rw [hp] at h; cases h
  | ok prec => rw [hp] at h; simp [modeOrSilent] at h; exact h.2

theorem record_lenient_logs_every_error {rec : Record} {lg : List LogRec}
    (h : Record.fromLine C l cn sch n (some .lenient) = .ok (rec, lg)) : lg = warnings rec.errors := by
  rw [fromLine_spec] at h
  cases hp : parsedLine C l cn sch n with
  | error e' => rw [hp] at h; cases h
  | ok prec =>
    rw [hp] at h
    simp only [modeOrSilent, processErrors_lenient, Except.ok.injEq, Prod.mk.injEq] at h
    rw [← h.1, ← h.2]; rfl

/-- Strict raises the first collected error of the Silent record (type and line number); with no
    collected error it returns exactly the Silent record -/
theorem record_strict_first_error {rec : Record} {lg : List LogRec}
    (h : Record.fromLine C l cn sch n (some .silent) = .ok (rec, lg)) :
    (∀ e es, rec.errors = e :: es →
      Record.fromLine C l cn sch n (some .strict) = .error (.format e.tpe e.line)) ∧
    (rec.errors = [] → Record.fromLine C l cn sch n (some .strict) = .ok (rec.withMode .strict, [])) := by
  constructor
  · intro e es he
    rw [record_via_silent, h]
    simp only [he, processErrors_strict_cons]
  · intro he
    rw [record_via_silent, h]
    simp only [he, processErrors_nil]

end record

/-! ## 3. `Record.validate` -/
section validate
variable (C : Ctx) (r : Record) (reset : Bool) (sch : Option Scheme)

/-- the validated record does not depend on the stringency at all -/
theorem validate_record_independent (m : Mode) :
    (r.validate C (some m) reset sch).1 = (r.validate C (some .silent) reset sch).1 := by
  simp only [validate_eq]

/-- `validate` raises nothing in Silent mode (it has no assertion left that could fail): the
    Silent run succeeds and logs nothing -/
theorem validate_silent_ok : (r.validate C (some .silent) reset sch).2 = .ok [] := by
  simp only [validate_eq, Option.getD_some, processErrors_silent]

/-- the only exception `validate` raises, under any stringency, is the `MafFormatException` of
    `processErrors` in Strict mode: the first collected error -/
theorem validate_error_only_strict_format {m : Mode} {e : PyErr}
    (h : (r.validate C (some m) reset sch).2 = .error e) :
    m = .strict ∧ ∃ x xs, (r.validate C (some .silent) reset sch).1.errors = x :: xs ∧
      e = .format x.tpe x.line := by
  simp only [validate_eq, Option.getD_some] at h ⊢
  exact processErrors_error h

/-- the outcome: (the failure of the Silent run if there were one — there is none, see
    `validate_silent_ok` — else) `processErrors` -/
theorem validate_outcome (m : Mode) :
    (r.validate C (some m) reset sch).2 =
      match (r.validate C (some .silent) reset sch).2 with
      | .error e => .error e
      | .ok _ => processErrors m (r.validate C (some .silent) reset sch).1.errors := by
  simp only [validate_eq, Option.getD_some, processErrors_silent]

theorem validate_silent_lenient_same :
    (r.validate C (some .lenient) reset sch).1 = (r.validate C (some .silent) reset sch).1 ∧
    (∀ lg, (r.validate C (some .silent) reset sch).2 = .ok lg → lg = [] ∧
      (r.validate C (some .lenient) reset sch).2 =
        .ok (warnings (r.validate C (some .silent) reset sch).1.errors)) ∧
    (∀ e, (r.validate C (some .silent) reset sch).2 = .error e →
      (r.validate C (some .lenient) reset sch).2 = .error e ∧ e.notFormat) := by
  refine ⟨validate_record_independent C r reset sch .lenient, ?_, ?_⟩
  · intro lg h
    constructor
    · rw [validate_silent_ok] at h
      cases h; rfl
    · rw [validate_outcome, h]
      simp only [processErrors_lenient]; rfl
  · intro e h
    refine ⟨by rw [validate_outcome, h], ?_⟩
    rw [validate_silent_ok] at h
    cases h

theorem validate_strict_first_error {lg : List LogRec}
    (h : (r.validate C (some .silent) reset sch).2 = .ok lg) :
    (∀ e es, (r.validate C (some .silent) reset sch).1.errors = e :: es →
      (r.validate C (some .strict) reset sch).2 = .error (.format e.tpe e.line)) ∧
    ((r.validate C (some .silent) reset sch).1.errors = [] →
      r.validate C (some .strict) reset sch = ((r.validate C (some .silent) reset sch).1, .ok [])) := by
  constructor
  · intro e es he
    rw [validate_outcome, h]
    simp only [he, processErrors_strict_cons]
  · intro he
    apply Prod.ext
    · exact validate_record_independent C r reset sch .strict
    · show (r.validate C (some .strict) reset sch).2 = .ok []
      rw [validate_outcome, h]
      simp only [he, processErrors_nil]

end validate

/-! ## 4. whole-file reading: `Reader.init` + `Reader.readAll` -/
section reader
variable (C : Ctx) (K : HConsts) (R : Registry) (lines : List Text) (given : Option Scheme)

/-- the Silent construction never fails; `silentReader` is what it gives -/
theorem reader_silent_init :
    Reader.init C K R lines (some .silent) given = .ok (silentReader K R lines given) :=
  init_silent C K R lines given

/-- **Silent and Lenient read the same file the same way**: both construct a reader, the readers
    agree up to the stringency fields and the log (`ModeRel`), they return the same records (up to
    the stringency field), stop with the same exception if any — never a `MafFormatException` —
    and end with the same collected error list. -/
theorem reader_silent_lenient_same :
    ∃ rL, Reader.init C K R lines (some .lenient) given = .ok rL ∧
      ModeRel .lenient (silentReader K R lines given) rL ∧
      (rL.readAll C K).1 = ((silentReader K R lines given).readAll C K).1.map (·.withMode .lenient) ∧
      (rL.readAll C K).2.1 = ((silentReader K R lines given).readAll C K).2.1 ∧
      ModeRel .lenient ((silentReader K R lines given).readAll C K).2.2 (rL.readAll C K).2.2 ∧
      (rL.readAll C K).2.2.errors = ((silentReader K R lines given).readAll C K).2.2.errors ∧
      (∀ e, ((silentReader K R lines given).readAll C K).2.1 = some e → e.notFormat) := by
  obtain ⟨rL, hinit, hrel, _⟩ := init_lenient C K R lines given
  obtain ⟨h1, h2, h3, _, _⟩ := readAll_nonstrict (C := C) (K := K) (m := .lenient) (by decide) hrel rfl
  refine ⟨rL, hinit, hrel, h1, h2, h3, h3.errors, ?_⟩
  have hat : At lines (silentReader K R lines given) (min (headerLen K lines + 1) lines.length) :=
    initReader_at ..
  exact iterate_nonstrict_notFormat _ _ _ _ hat.fuel (by show Mode.silent ≠ .strict; decide)

/-- the Silent run logs nothing, neither at construction nor while reading -/
theorem reader_silent_no_logs :
    (silentReader K R lines given).logs = [] ∧
    ((silentReader K R lines given).readAll C K).2.2.logs = [] := by
  have hrel : ModeRel .silent (silentReader K R lines given) (silentReader K R lines given) :=
    ⟨rfl, rfl, rfl, rfl, rfl, rfl, rfl, rfl⟩
  obtain ⟨_, _, _, h4, _⟩ := readAll_nonstrict (C := C) (K := K) (m := .silent) (by decide) hrel rfl
  exact ⟨rfl, h4⟩

/-- **the Lenient log**: the header's warnings (one per header error, emitted by
    `MafHeader.from_lines`), the `NO_MATCHING_SCHEME_WARNING` record when the reader falls back to
    `NoRestrictionsScheme`, then one warning per collected error of the whole file in file order —
    the header errors a second time (the reader re-processes its accumulated list at the end of
    `__init__`), the column-name errors, then each record's errors as the record is read. -/
theorem reader_lenient_logs_every_error :
    ∃ rL, Reader.init C K R lines (some .lenient) given = .ok rL ∧
      (rL.readAll C K).2.2.logs =
        warnings (parsedHeader K R (headerBlock K lines)).errors ++
        warnOf K R lines given .lenient ++
        warnings ((silentReader K R lines given).readAll C K).2.2.errors := by
  obtain ⟨rL, hinit, hrel, hlogs⟩ := init_lenient C K R lines given
  obtain ⟨_, _, _, _, new, h5, h6⟩ := readAll_nonstrict (C := C) (K := K) (m := .lenient) (by decide) hrel rfl
  refine ⟨rL, hinit, ?_⟩
  rw [h6, hlogs, h5]
  simp [errLogs_lenient_eq, warnings, List.append_assoc]

/-- the `NO_MATCHING_SCHEME_WARNING` record is emitted (outside Silent mode) exactly when there is a
    column-name line and no usable scheme -/
theorem warnOf_eq (m : Mode) :
    warnOf K R lines given m =
      if (colNamesOf K lines).isSome ∧
          schemeless (initSch1 ((parsedHeader K R (headerBlock K lines)).scheme K R) given) ∧ m ≠ .silent
      then [{ tpe := "NO_MATCHING_SCHEME_WARNING", line := none }] else [] := by
  unfold warnOf initWarn
  cases colNamesOf K lines with
  | none => simp
  | some names =>
    by_cases h1 : schemeless (initSch1 ((parsedHeader K R (headerBlock K lines)).scheme K R) given)
    · by_cases h2 : m = .silent <;> simp [h1, h2]
    · simp [h1]

/-- **Strict reads the file as Silent does, up to the first collected error.**  Errors are
    append-only across the stages (header, column line, each record in turn), so "the first error
    of the Silent run" is the first error in file order:
    * if the Silent run ends with the collected list `e :: _`, the Strict run raises
      `MafFormatException(e.tpe, e.line)` — at construction if `e` is a header / column-name error,
      else while reading, having yielded a prefix of the Silent records;
    * if the Silent run collects nothing, the Strict run constructs, returns exactly the Silent
      records and ends the same way (same exception, if the order checker raised one). -/
theorem reader_strict_first_error :
    (∀ e es, ((silentReader K R lines given).readAll C K).2.2.errors = e :: es →
      Reader.init C K R lines (some .strict) given = .error (.format e.tpe e.line) ∨
      ∃ rT, Reader.init C K R lines (some .strict) given = .ok rT ∧
        (rT.readAll C K).2.1 = some (.format e.tpe e.line) ∧
        ∃ k, k ≤ ((silentReader K R lines given).readAll C K).1.length ∧
          (rT.readAll C K).1 =
            (((silentReader K R lines given).readAll C K).1.take k).map (·.withMode .strict)) ∧
    (((silentReader K R lines given).readAll C K).2.2.errors = [] →
      ∃ rT, Reader.init C K R lines (some .strict) given = .ok rT ∧
        (rT.readAll C K).1 = ((silentReader K R lines given).readAll C K).1.map (·.withMode .strict) ∧
        (rT.readAll C K).2.1 = ((silentReader K R lines given).readAll C K).2.1 ∧
        ModeRel .strict ((silentReader K R lines given).readAll C K).2.2 (rT.readAll C K).2.2) := by
  obtain ⟨more, new, _, hnew⟩ : ∃ more new,
      ((silentReader K R lines given).readAll C K).1 = [] ++ more ∧
      ((silentReader K R lines given).readAll C K).2.2.errors = (silentReader K R lines given).errors ++ new :=
    iterate_extends (C := C) (K := K) _ _ _ _
  obtain ⟨hs1, hs2⟩ := init_strict C K R lines given
  constructor
  · intro e es he
    cases hE : (silentReader K R lines given).errors with
    | cons x xs =>
      rw [hnew, hE] at he
      cases he
      exact .inl (hs2 _ _ hE)
    | nil =>
      obtain ⟨rT, hinit, hrel, _⟩ := hs1 hE
      obtain ⟨a, b, _⟩ := (readAll_strict (C := C) (K := K) hrel rfl hE).2 e es he
      exact .inr ⟨rT, hinit, a, b⟩
  · intro he
    have hE : (silentReader K R lines given).errors = [] := by
      rw [hnew] at he
      exact (List.append_eq_nil_iff.1 he).1
    obtain ⟨rT, hinit, hrel, _⟩ := hs1 hE
    obtain ⟨a, b, c, _⟩ := (readAll_strict (C := C) (K := K) hrel rfl hE).1 he
    exact ⟨rT, hinit, a, b, c⟩

end reader

/-! ## non-vacuity: the example file of `Lemmas/ReaderExample.lean` -/
section examples
open Model.ReaderExample

private def exHeader : List Text := ["#version 2.4".toList, "#oops".toList]

/-- header: the Silent run collects three errors; Lenient logs three warnings; Strict raises the first -/
example : (Header.fromLines exK exR exHeader (some .silent)).1.errors.map (fun e => (e.tpe, e.line)) =
      [("HEADER_LINE_MISSING_SEPARATOR", some 2), ("HEADER_UNSUPPORTED_VERSION", none),
       ("HEADER_MISSING_ANNOTATION_SPEC", none)] ∧
    (Header.fromLines exK exR exHeader (some .lenient)).2 =
      .ok [⟨"HEADER_LINE_MISSING_SEPARATOR", some 2⟩, ⟨"HEADER_UNSUPPORTED_VERSION", none⟩,
           ⟨"HEADER_MISSING_ANNOTATION_SPEC", none⟩] ∧
    (Header.fromLines exK exR exHeader (some .strict)).2 =
      .error (.format "HEADER_LINE_MISSING_SEPARATOR" (some 2)) := by
  refine ⟨by decide, ?_, ?_⟩
  · rw [header_lenient_logs_every_error]; decide
  · exact (header_strict_first_error exK exR exHeader).1
      { tpe := "HEADER_LINE_MISSING_SEPARATOR", line := some 2, origin := some 2 }
      [{ tpe := "HEADER_UNSUPPORTED_VERSION", line := none }, { tpe := "HEADER_MISSING_ANNOTATION_SPEC", line := none }]
      (by decide)

private def exScheme : Scheme := noRestrictionsScheme ["Chromosome", "Start_Position", "End_Position"]

/-- record: the short line `chr2<TAB>5` read as line 5.  The Silent run returns a record with one
    collected error; so (by `record_strict_first_error`) Strict raises it, and (by
    `record_silent_lenient_same`) Lenient returns the same record and logs it. -/
example : ∃ rec lg,
    Record.fromLine exC "chr2\t5".toList none (some exScheme) (some 5) (some .silent) = .ok (rec, lg) ∧
    rec.errors = [{ tpe := "RECORD_MISMATCH_NUMBER_OF_COLUMNS", line := some 5, origin := some 5 }] ∧
    Record.fromLine exC "chr2\t5".toList none (some exScheme) (some 5) (some .strict) =
      .error (.format "RECORD_MISMATCH_NUMBER_OF_COLUMNS" (some 5)) ∧
    Record.fromLine exC "chr2\t5".toList none (some exScheme) (some 5) (some .lenient) =
      .ok (rec.withMode .lenient, [⟨"RECORD_MISMATCH_NUMBER_OF_COLUMNS", some 5⟩]) := by
  have hnd := noRestrictionsScheme_names_nodup ["Chromosome", "Start_Position", "End_Position"]
  have hp := parsedLine_eq_of_nodup exC "chr2\t5".toList (cn := none) (sch := some exScheme) (some 5)
    (lineNames_scheme exScheme) (names_toList_nodup hnd)
  obtain ⟨prec, hprec, herr⟩ : ∃ prec, parsedLine exC "chr2\t5".toList none (some exScheme) (some 5) = .ok prec ∧
      prec.errors = [{ tpe := "RECORD_MISMATCH_NUMBER_OF_COLUMNS", line := some 5, origin := some 5 }] := by
    rw [hp]
    obtain ⟨r, hr, hf⟩ := exists_ok_of_map
      (x := preRecord exC "chr2\t5".toList none (some exScheme) (some 5))
      (f := fun r => r.validateErrors exC false none)
      (b := [{ tpe := "RECORD_MISMATCH_NUMBER_OF_COLUMNS", line := some 5, origin := some 5 }]) (by decide)
    rw [hr]
    exact ⟨_, rfl, hf⟩
  have hS : Record.fromLine exC "chr2\t5".toList none (some exScheme) (some 5) (some .silent)
      = .ok (prec.withMode .silent, []) := by
    rw [fromLine_spec, hprec]; simp [modeOrSilent]
  refine ⟨_, _, hS, herr, ?_, ?_⟩
  · exact (record_strict_first_error exC _ none (some exScheme) (some 5) hS).1 _ _ herr
  · have := (record_silent_lenient_same exC "chr2\t5".toList none (some exScheme) (some 5)).1 _ _ hS
    rw [this]
    simp [warnings, herr]

/-- whole file: the Silent run of the example file collects `HEADER_LINE_MISSING_SEPARATOR` first, so
    (by `reader_strict_first_error`) the Strict run fails with exactly that error — here already at
    construction; the Lenient run emits the `NO_MATCHING_SCHEME_WARNING` record -/
example : Reader.init exC exK exR exLines (some .strict) none =
      .error (.format "HEADER_LINE_MISSING_SEPARATOR" (some 2)) ∧
    warnOf exK exR exLines none .lenient = [⟨"NO_MATCHING_SCHEME_WARNING", none⟩] := by
  refine ⟨?_, by decide⟩
  obtain ⟨more, new, _, hnew⟩ := iterate_extends (C := exC) (K := exK)
    ((silentReader exK exR exLines none).src.length + 2) (silentReader exK exR exLines none)
    ((silentReader exK exR exLines none).checker exK) []
  have hE : (silentReader exK exR exLines none).errors =
      { tpe := "HEADER_LINE_MISSING_SEPARATOR", line := some 2, origin := some 2 } ::
      [{ tpe := "HEADER_UNSUPPORTED_VERSION", line := none }, { tpe := "HEADER_MISSING_ANNOTATION_SPEC", line := none }] := by
    decide
  rw [hE] at hnew
  rcases (reader_strict_first_error exC exK exR exLines none).1 _ _ hnew with h | ⟨rT, hT, _⟩
  · exact h
  · have : errOf (Reader.init exC exK exR exLines (some .strict) none) ≠ none := by decide
    rw [hT] at this
    exact absurd rfl this

/-- whole file, failure while reading: `exClean` has a clean header and a short second record.
    The Silent run reads both records and collects `RECORD_MISMATCH_NUMBER_OF_COLUMNS` at line 5
    (computed with `C17.compositional`); so, by `reader_strict_first_error`, the Strict run
    constructs its reader and then raises exactly that error while reading — an exception of the
    kind `C16.kinds_schemeless` allows. -/
example : ∃ rT, Reader.init exC exK exR2 exClean (some .strict) none = .ok rT ∧
    (rT.readAll exC exK).2.1 = some (.format "RECORD_MISMATCH_NUMBER_OF_COLUMNS" (some 5)) := by
  have hinit := reader_silent_init exC exK exR2 exClean none
  have hsch : (silentReader exK exR2 exClean none).scheme =
      some (noRestrictionsScheme ["Chromosome", "Start_Position", "End_Position"]) := by decide
  have hE : (silentReader exK exR2 exClean none).errors = [] := by decide
  have hsort : (C16.declaredOrder exK (silentReader exK exR2 exClean none)).sortable = false := by decide
  obtain ⟨recs, r', hread, _⟩ := C16.nonstrict_unsorted_total (C := exC) (by intro g h; cases h)
    (by intro s h; cases h) hinit (by decide) hsort
  have hcomp := C17.compositional hinit hread
  rw [← (C17.init_state hinit).2.2.2.1, hsch, hE] at hcomp
  have hD : dataLines exK exClean = ["chr1\t10\t20".toList, "chr2\t5".toList] := by decide
  have hk : headerLen exK exClean = 2 := by decide
  have hnd := noRestrictionsScheme_names_nodup ["Chromosome", "Start_Position", "End_Position"]
  have hm : (silentReader exK exR2 exClean none).mode = .silent := rfl
  simp only [hD, hk, hm, List.nil_append, List.zipIdx_cons, List.zipIdx_nil, List.flatMap_cons,
    List.flatMap_nil, List.append_nil, recordErrors_eval exC hnd (m := .silent) (by decide)] at hcomp
  have hval : r'.errors = [{ tpe := "RECORD_MISMATCH_NUMBER_OF_COLUMNS", line := some 5, origin := some 5 }] := by
    rw [hcomp]; decide
  have hS : ((silentReader exK exR2 exClean none).readAll exC exK).2.2.errors =
      { tpe := "RECORD_MISMATCH_NUMBER_OF_COLUMNS", line := some 5, origin := some 5 } :: [] := by
    rw [hread]; exact hval
  rcases (reader_strict_first_error exC exK exR2 exClean none).1 _ _ hS with h | ⟨rT, hT, hres, _⟩
  · have : errOf (Reader.init exC exK exR2 exClean (some .strict) none) = none := by decide
    rw [h] at this
    cases this
  · exact ⟨rT, hT, hres⟩

end examples

end C03
