/-
  C06 — more `__validate__` bodies, translated from the source and interpreted, against the hand model:
  `StringColumn` (through `super().__validate__()`), `TranscriptStrand`, and every enumerated column class
  (`isinstance(self.value, self.__enum_class__())`, the enum class being a constant hook of the instance's class).
-/
import MafModel.Lemmas.BodiesEmb
open Py PyIR Bodies

namespace C06Bodies

set_option maxHeartbeats 4000000

/-! ### `StringColumn`: `super().__validate__()` then emptiness -/

theorem validate_str_StringColumn (fp) (s : Text) :
    hookInvalid fp "StringColumn" (.str s) = modelInvalid "StringColumn" (.atom (.str s)) := by
  rw [show modelInvalid "StringColumn" (.atom (.str s)) = .ok (!(!s.isEmpty)) from rfl]
  refine Tree.Forall.eval (H := host fp) (t := runTree Generated.Bodies.program (host fp) "StringColumn" "__validate__" [colObj "StringColumn" (.str s)])
    (P := fun (r : Except PyErr (Val × Env)) => Except.map (fun r => !r.1.isNone) r = Except.ok (!(!s.isEmpty))) ?_
  tree_split h
  · tree_leaf
    rw [show s.isEmpty = true from h]; rfl
  · tree_leaf
    rw [show s.isEmpty = false from h]; rfl

theorem validate_StringColumn (fp) : ∀ v : PyVal, hookInvalid fp "StringColumn" (emb v) = modelInvalid "StringColumn" v := by
  intro v
  cases v with
  | atom a => cases a with
    | str s => exact validate_str_StringColumn fp s
    | _ => rfl
  | list xs => rfl
  | tuple xs => rfl

/-! ### `TranscriptStrand`: `self.value not in (-1, 1)` -/

theorem validate_int_TranscriptStrand (fp) (i : Int) :
    hookInvalid fp "TranscriptStrand" (.int i) = modelInvalid "TranscriptStrand" (.atom (.int i)) := by
  rw [show modelInvalid "TranscriptStrand" (.atom (.int i)) = .ok (!(decide (i = -1) || decide (i = 1))) from rfl]
  refine Tree.Forall.eval (H := host fp) (t := runTree Generated.Bodies.program (host fp) "TranscriptStrand" "__validate__" [colObj "TranscriptStrand" (.int i)])
    (P := fun (r : Except PyErr (Val × Env)) => Except.map (fun r => !r.1.isNone) r = Except.ok (!(decide (i = -1) || decide (i = 1)))) ?_
  tree_split h
  · tree_leaf
    have hi : i = -1 := by have := (beq_iff_eq (a := (-1 : Int)) (b := i)).1 h; omega
    subst hi; rfl
  · tree_split h2
    · tree_leaf
      have hi : i = 1 := by have := (beq_iff_eq (a := (1 : Int)) (b := i)).1 h2; omega
      subst hi; rfl
    · tree_leaf
      have h1 : ¬ i = -1 := by intro e; subst e; simp [Query.holds] at h
      have h3 : ¬ i = 1 := by intro e; subst e; simp [Query.holds] at h2
      rw [show decide (i = -1) = false from decide_eq_false h1, show decide (i = 1) = false from decide_eq_false h3]; rfl

theorem validate_TranscriptStrand (fp) : ∀ v : PyVal, hookInvalid fp "TranscriptStrand" (emb v) = modelInvalid "TranscriptStrand" v := by
  intro v
  cases v with
  | atom a => cases a with
    | int i => exact validate_int_TranscriptStrand fp i
    | _ => rfl
  | list xs => rfl
  | tuple xs => rfl

end C06Bodies
