import MafModel.Lemmas.BodiesEmb
open Py PyIR Bodies Model

namespace C06BodiesDna
set_option maxHeartbeats 4000000

def selfObj (K : String) (s : Text) : Val := colObj K (.str s)
def E0 (K : String) (s : Text) : Env := [("self", selfObj K s)]
def E (K : String) (s : Text) (i : Nat) (c : Char) : Env := [("self", selfObj K s), ("i", .int i), ("base", .str [c])]

def loopBody : List Stmt :=
  [(.ifS (.cmp (.name "base") [(.notIn, (.tuple [(.const (.str "A".toList)), (.const (.str "C".toList)), (.const (.str "G".toList)), (.const (.str "T".toList))]))]) [(.ret .message)] [])]

def okChar (b : Char) : Bool := b = 'A' || b = 'C' || b = 'G' || b = 'T'

def MSG : Val := .str "<message>".toList

def stepRes (K : String) (s : Text) (j : Nat) (c' : Char) : Except PyErr (Env × Option Val) :=
  .ok (E K s j c', if okChar c' then Option.none else Option.some MSG)

theorem holds_textEq_char (H : Host) (a c : Char) : Query.holds H (Query.textEq [a] [c]) = decide (a = c) := by
  simp only [Query.holds]
  by_cases h : a = c
  · subst h; simp
  · have : ([a] == [c]) = false := by simp [h]
    simp [this, h]

set_option hygiene false in
macro "hit" a:term : tactic => `(tactic| (
  tree_leaf
  have hc : c' = $a := by
    have := holds_textEq_char (host fp) $a c'
    simp_all
    first | assumption | (symm; assumption)
  subst hc
  rfl))

/-- one round of `for i, base in enumerate(self.value): if base not in ("A", "C", "G", "T"): return <message>` -/
theorem step_eval (fp : Text → Option Text) (K : String) (s : Text) (n i j : Nat) (c c' : Char) :
    Tree.eval (host fp) (execStmts Generated.Bodies.program (host fp) (n + 5) (setVar (setVar (E K s i c) "i" (.int j)) "base" (.str [c'])) loopBody)
      = stepRes K s j c' := by
  refine Tree.Forall.eval (H := host fp) (t := execStmts Generated.Bodies.program (host fp) (n + 5) (setVar (setVar (E K s i c) "i" (.int j)) "base" (.str [c'])) loopBody)
    (P := fun r => r = stepRes K s j c') ?_
  tree_split h1
  · hit 'A'
  · tree_split h2
    · hit 'C'
    · tree_split h3
      · hit 'G'
      · tree_split h4
        · hit 'T'
        · tree_leaf
          have e1 := holds_textEq_char (host fp) 'A' c'
          have e2 := holds_textEq_char (host fp) 'C' c'
          have e3 := holds_textEq_char (host fp) 'G' c'
          have e4 := holds_textEq_char (host fp) 'T' c'
          have h1 : Query.holds (host fp) (Query.textEq ['A'] [c']) = false := h1
          have h2 : Query.holds (host fp) (Query.textEq ['C'] [c']) = false := h2
          have h3 : Query.holds (host fp) (Query.textEq ['G'] [c']) = false := h3
          have h4 : Query.holds (host fp) (Query.textEq ['T'] [c']) = false := h4
          rw [e1] at h1; rw [e2] at h2; rw [e3] at h3; rw [e4] at h4
          have n1 : c' ≠ 'A' := fun h => by simp [h] at h1
          have n2 : c' ≠ 'C' := fun h => by simp [h] at h2
          have n3 : c' ≠ 'G' := fun h => by simp [h] at h3
          have n4 : c' ≠ 'T' := fun h => by simp [h] at h4
          have hk : okChar c' = false := by simp [okChar, n1, n2, n3, n4]
          simp only [stepRes, hk]
          rfl


/-- the first round (no loop variables yet) of `for i, base in enumerate(self.value): if base not in ("A", "C", "G", "T"): return <message>` -/
theorem step_eval0 (fp : Text → Option Text) (K : String) (s : Text) (n i j : Nat) (c c' : Char) :
    Tree.eval (host fp) (execStmts Generated.Bodies.program (host fp) (n + 5) (setVar (setVar (E0 K s) "i" (.int j)) "base" (.str [c'])) loopBody)
      = stepRes K s j c' := by
  refine Tree.Forall.eval (H := host fp) (t := execStmts Generated.Bodies.program (host fp) (n + 5) (setVar (setVar (E0 K s) "i" (.int j)) "base" (.str [c'])) loopBody)
    (P := fun r => r = stepRes K s j c') ?_
  tree_split h1
  · hit 'A'
  · tree_split h2
    · hit 'C'
    · tree_split h3
      · hit 'G'
      · tree_split h4
        · hit 'T'
        · tree_leaf
          have e1 := holds_textEq_char (host fp) 'A' c'
          have e2 := holds_textEq_char (host fp) 'C' c'
          have e3 := holds_textEq_char (host fp) 'G' c'
          have e4 := holds_textEq_char (host fp) 'T' c'
          have h1 : Query.holds (host fp) (Query.textEq ['A'] [c']) = false := h1
          have h2 : Query.holds (host fp) (Query.textEq ['C'] [c']) = false := h2
          have h3 : Query.holds (host fp) (Query.textEq ['G'] [c']) = false := h3
          have h4 : Query.holds (host fp) (Query.textEq ['T'] [c']) = false := h4
          rw [e1] at h1; rw [e2] at h2; rw [e3] at h3; rw [e4] at h4
          have n1 : c' ≠ 'A' := fun h => by simp [h] at h1
          have n2 : c' ≠ 'C' := fun h => by simp [h] at h2
          have n3 : c' ≠ 'G' := fun h => by simp [h] at h3
          have n4 : c' ≠ 'T' := fun h => by simp [h] at h4
          have hk : okChar c' = false := by simp [okChar, n1, n2, n3, n4]
          simp only [stepRes, hk]
          rfl


def charVal (ch : Char) : Val := .str [ch]

/-- the loop function of `execStmt (.forS (some "i") "base" …)` at body fuel `n + 5` -/
def stepFn (fp : Text → Option Text) (n : Nat) : Env → Nat → Val → M (Env × Option Val) :=
  fun env i v => execStmts Generated.Bodies.program (host fp) (n + 5) (setVar (setVar env "i" (.int i)) "base" v) loopBody

/-- the whole loop from a state in which the loop variables exist: `None` falls out iff every character is a base -/
theorem loop_eval (fp : Text → Option Text) (K : String) (s : Text) (n : Nat) (cs : List Char) :
    ∀ (i j : Nat) (c : Char), ∃ env',
      Tree.eval (host fp) (forLoop (stepFn fp n) (E K s i c) j (cs.map charVal))
        = .ok (env', if cs.all okChar then Option.none else Option.some MSG) := by
  induction cs with
  | nil => intro i j c; exact ⟨E K s i c, rfl⟩
  | cons c' cs ih =>
    intro i j c
    simp only [List.map_cons, forLoop, M.bind]
    erw [Tree.eval_bind]
    have hs : Tree.eval (host fp) (stepFn fp n (E K s i c) j (charVal c')) = stepRes K s j c' := step_eval fp K s n i j c c'
    erw [hs]
    cases hk : okChar c'
    · refine ⟨E K s j c', ?_⟩
      simp only [stepRes, hk, List.all_cons, Bool.false_and]
      rfl
    · obtain ⟨env', he⟩ := ih j (j + 1) c'
      refine ⟨env', ?_⟩
      simp only [stepRes, hk, List.all_cons, Bool.true_and]
      exact he

/-- the whole loop from the state before the loop -/
theorem loop_eval0 (fp : Text → Option Text) (K : String) (s : Text) (n : Nat) (cs : List Char) : ∃ env',
    Tree.eval (host fp) (forLoop (stepFn fp n) (E0 K s) 0 (cs.map charVal))
      = .ok (env', if cs.all okChar then Option.none else Option.some MSG) := by
  cases cs with
  | nil => exact ⟨E0 K s, rfl⟩
  | cons c' cs =>
    simp only [List.map_cons, forLoop, M.bind]
    erw [Tree.eval_bind]
    have hs : Tree.eval (host fp) (stepFn fp n (E0 K s) 0 (charVal c')) = stepRes K s 0 c' := step_eval0 fp K s n 0 0 'x' c'
    erw [hs]
    cases hk : okChar c'
    · refine ⟨E K s 0 c', ?_⟩
      simp only [stepRes, hk, List.all_cons, Bool.false_and]
      rfl
    · obtain ⟨env', he⟩ := loop_eval fp K s n cs 0 1 c'
      refine ⟨env', ?_⟩
      simp only [stepRes, hk, List.all_cons, Bool.true_and]
      exact he

def forStmt : Stmt := Stmt.forS (some "i") "base" ((Expr.name "self").attr "value") loopBody

theorem for_eval (fp : Text → Option Text) (K : String) (s : Text) (n : Nat) : ∃ env',
    Tree.eval (host fp) (execStmt Generated.Bodies.program (host fp) (n + 6) (E0 K s) forStmt)
      = .ok (env', if s.all okChar then Option.none else Option.some MSG) := by
  conv => enter [1, env', 1, 2]; whnf
  exact loop_eval0 fp K s n s

def restStmts : List Stmt := [forStmt, Stmt.ret (Expr.const Val.none)]

/-- the loop and the final `return None`: `None` iff every character is a base -/
theorem rest_eval (fp : Text → Option Text) (K : String) (s : Text) (n : Nat) : ∃ env',
    Tree.eval (host fp) (execStmts Generated.Bodies.program (host fp) (n + 7) (E0 K s) restStmts)
      = .ok (env', some (if s.all okChar then Val.none else MSG)) := by
  obtain ⟨env1, h1⟩ := for_eval fp K s n
  conv => enter [1, env', 1, 2]; whnf
  cases hk : s.all okChar
  · refine ⟨env1, ?_⟩
    erw [Tree.eval_bind, h1]
    simp only [hk]
    rfl
  · refine ⟨env1, ?_⟩
    erw [Tree.eval_bind, h1]
    simp only [hk]
    rfl

theorem vDna_of_ne (s : Text) (hs : s ≠ ['-']) : vDna (.atom (.str s)) = !s.all okChar := by
  simp only [vDna, hs, if_false]
  rfl

/-- the whole method body on a text value -/
theorem body_eval (fp : Text → Option Text) (K : String) (s : Text) (n : Nat) : ∃ env',
    Tree.eval (host fp) (execStmts Generated.Bodies.program (host fp) (n + 8) (E0 K s) Generated.Bodies.NullableDnaString____validate__.body)
      = .ok (env', some (if vDna (.atom (.str s)) then MSG else Val.none)) := by
  by_cases hs : s = ['-']
  · subst hs
    exact ⟨_, rfl⟩
  · obtain ⟨env1, h1⟩ := rest_eval fp K s n
    refine ⟨env1, ?_⟩
    conv => lhs; arg 2; whnf
    simp only [Tree.eval]
    have hq : Query.holds (host fp) (Query.textEq "-".toList s) = false := by
      simp only [Query.holds]
      have : ("-".toList == s) = false := by
        simp only [beq_eq_false_iff_ne, ne_eq]
        intro h; exact hs h.symm
      exact this
    simp only [hq, Bool.false_eq_true, if_false]
    conv => lhs; arg 2; whnf
    conv at h1 => lhs; arg 2; whnf
    rw [vDna_of_ne s hs]
    cases hk : s.all okChar
    · simp only [hk] at h1 ⊢; exact h1
    · simp only [hk] at h1 ⊢; exact h1

/-- the call `self.__validate__()` is the body run in the environment that binds `self`, followed by the unpacking of the
    returned value -/
theorem runTree_shape (fp : Text → Option Text) (s : Text) :
    ∃ K : Except PyErr (Env × Option Val) → Tree (Except PyErr (Val × Env)),
      runTree Generated.Bodies.program (host fp) "NullableDnaString" "__validate__" [selfObj "NullableDnaString" s]
        = Tree.bind (execStmts Generated.Bodies.program (host fp) (55 + 8) (E0 "NullableDnaString" s) Generated.Bodies.NullableDnaString____validate__.body) K
      ∧ ∀ env' v, K (.ok (env', some v)) = M.ok (v, env') :=
  ⟨_, rfl, fun _ _ => rfl⟩

theorem run_eval (fp : Text → Option Text) (s : Text) : ∃ env',
    run Generated.Bodies.program (host fp) "NullableDnaString" "__validate__" [selfObj "NullableDnaString" s]
      = .ok (if vDna (.atom (.str s)) then MSG else Val.none, env') := by
  obtain ⟨env', h⟩ := body_eval fp "NullableDnaString" s 55
  obtain ⟨K, hK, hK2⟩ := runTree_shape fp s
  refine ⟨env', ?_⟩
  unfold run
  rw [hK]
  erw [Tree.eval_bind, h, hK2]
  rfl

/-- `NullableDnaString.__validate__` on a text value: the translated body (a loop over the characters) gives the model's
    verdict `vDna` -/
theorem validate_str_NullableDnaString (fp : Text → Option Text) (s : Text) :
    hookInvalid fp "NullableDnaString" (emb (.atom (.str s))) = modelInvalid "NullableDnaString" (.atom (.str s)) := by
  obtain ⟨env', h⟩ := run_eval fp s
  have hm : modelInvalid "NullableDnaString" (.atom (.str s)) = .ok (vDna (.atom (.str s))) := rfl
  rw [hm]
  unfold hookInvalid
  conv => lhs; whnf
  erw [h]
  cases vDna (.atom (.str s)) <;> rfl

theorem validate_NullableDnaString (fp) : ∀ v : PyVal, hookInvalid fp "NullableDnaString" (emb v) = modelInvalid "NullableDnaString" v := by
  intro v
  cases v with
  | atom a => cases a with
    | str s => exact validate_str_NullableDnaString fp s
    | _ => rfl
  | list xs => rfl
  | tuple xs => rfl

/-! ### `DnaString`: `msg = super().__validate__()`, then an empty text is refused too -/

def superE : Expr := Expr.superCall "DnaString" "__validate__" []
def D : String := "DnaString"
def verdict (s : Text) : Val := if vDna (.atom (.str s)) then MSG else Val.none

theorem super_shape (fp : Text → Option Text) (s : Text) :
    ∃ (K1 : Except PyErr (Env × Option Val) → Tree (Except PyErr (Val × Env))) (K2 : Except PyErr (Val × Env) → Tree (Except PyErr Val)),
      evalExpr Generated.Bodies.program (host fp) 61 (E0 D s) superE
        = Tree.bind (Tree.bind (execStmts Generated.Bodies.program (host fp) (51 + 8) (E0 D s) Generated.Bodies.NullableDnaString____validate__.body) K1) K2
      ∧ (∀ env' v, K1 (.ok (env', some v)) = M.ok (v, env')) ∧ (∀ r, K2 (.ok r) = M.ok r.1) :=
  ⟨_, _, rfl, fun _ _ => rfl, fun _ => rfl⟩

theorem super_eval (fp : Text → Option Text) (s : Text) :
    Tree.eval (host fp) (evalExpr Generated.Bodies.program (host fp) 61 (E0 D s) superE) = .ok (verdict s) := by
  obtain ⟨env', h⟩ := body_eval fp D s 51
  obtain ⟨K1, K2, hK, hK1, hK2⟩ := super_shape fp s
  rw [hK]
  erw [Tree.eval_bind, Tree.eval_bind, h, hK1]
  erw [show Tree.eval (host fp) (M.ok (verdict s, env')) = .ok (verdict s, env') from rfl, hK2]
  rfl

def E1 (s : Text) (v : Val) : Env := [("self", selfObj D s), ("msg", v)]

theorem assign_shape (fp : Text → Option Text) (s : Text) :
    ∃ K : Except PyErr Val → Tree (Except PyErr (Env × Option Val)),
      execStmt Generated.Bodies.program (host fp) 62 (E0 D s) (Stmt.assign "msg" superE)
        = Tree.bind (evalExpr Generated.Bodies.program (host fp) 61 (E0 D s) superE) K
      ∧ ∀ v, K (.ok v) = M.ok (E1 s v, Option.none) :=
  ⟨_, rfl, fun _ => rfl⟩

theorem assign_eval (fp : Text → Option Text) (s : Text) :
    Tree.eval (host fp) (execStmt Generated.Bodies.program (host fp) 62 (E0 D s) (Stmt.assign "msg" superE))
      = .ok (E1 s (verdict s), Option.none) := by
  obtain ⟨K, hK, hK2⟩ := assign_shape fp s
  rw [hK]
  erw [Tree.eval_bind, super_eval, hK2]
  rfl

def EMPTYMSG : Val := .str "Found an empty string".toList

def tailStmts : List Stmt :=
  [(.ifS (.and [(.cmp (.name "msg") [(.is_, (.const .none))]), (.not (.attr (.name "self") "value"))]) [(.ret (.const (.str "Found an empty string".toList)))] [(.ret (.name "msg"))])]

def final (s : Text) : Val :=
  if vDna (.atom (.str s)) then MSG else if s.isEmpty then EMPTYMSG else Val.none

theorem tail_eval (fp : Text → Option Text) (s : Text) :
    Tree.eval (host fp) (execStmts Generated.Bodies.program (host fp) 62 (E1 s (verdict s)) tailStmts)
      = .ok (E1 s (verdict s), some (final s)) := by
  cases hv : vDna (.atom (.str s))
  · simp only [verdict, final, hv, Bool.false_eq_true, if_false]
    refine Tree.Forall.eval (H := host fp) (t := execStmts Generated.Bodies.program (host fp) 62 (E1 s Val.none) tailStmts)
      (P := fun r => r = .ok (E1 s Val.none, some (if s.isEmpty then EMPTYMSG else Val.none))) ?_
    tree_split h1
    · tree_leaf
      have : s.isEmpty = true := h1
      simp only [this, if_true]
      try rfl
    · tree_leaf
      have : s.isEmpty = false := h1
      simp only [this, Bool.false_eq_true, if_false]
      try rfl
  · simp only [verdict, final, hv, if_true]
    rfl

theorem body2_shape (fp : Text → Option Text) (s : Text) :
    ∃ K : Except PyErr (Env × Option Val) → Tree (Except PyErr (Env × Option Val)),
      execStmts Generated.Bodies.program (host fp) 63 (E0 D s) Generated.Bodies.DnaString____validate__.body
        = Tree.bind (execStmt Generated.Bodies.program (host fp) 62 (E0 D s) (Stmt.assign "msg" superE)) K
      ∧ ∀ env', K (.ok (env', Option.none)) = execStmts Generated.Bodies.program (host fp) 62 env' tailStmts :=
  ⟨_, rfl, fun _ => rfl⟩

theorem body2_eval (fp : Text → Option Text) (s : Text) :
    Tree.eval (host fp) (execStmts Generated.Bodies.program (host fp) 63 (E0 D s) Generated.Bodies.DnaString____validate__.body)
      = .ok (E1 s (verdict s), some (final s)) := by
  obtain ⟨K, hK, hK2⟩ := body2_shape fp s
  rw [hK]
  erw [Tree.eval_bind, assign_eval, hK2, tail_eval]

theorem runTree2_shape (fp : Text → Option Text) (s : Text) :
    ∃ K : Except PyErr (Env × Option Val) → Tree (Except PyErr (Val × Env)),
      runTree Generated.Bodies.program (host fp) "DnaString" "__validate__" [selfObj D s]
        = Tree.bind (execStmts Generated.Bodies.program (host fp) 63 (E0 D s) Generated.Bodies.DnaString____validate__.body) K
      ∧ ∀ env' v, K (.ok (env', some v)) = M.ok (v, env') :=
  ⟨_, rfl, fun _ _ => rfl⟩

theorem run2_eval (fp : Text → Option Text) (s : Text) :
    run Generated.Bodies.program (host fp) "DnaString" "__validate__" [selfObj D s] = .ok (final s, E1 s (verdict s)) := by
  obtain ⟨K, hK, hK2⟩ := runTree2_shape fp s
  unfold run
  rw [hK]
  erw [Tree.eval_bind, body2_eval, hK2]
  rfl

/-- `DnaString.__validate__` on a text value: the inherited loop, then an empty text is refused too -/
theorem validate_str_DnaString (fp : Text → Option Text) (s : Text) :
    hookInvalid fp "DnaString" (emb (.atom (.str s))) = modelInvalid "DnaString" (.atom (.str s)) := by
  have hm : modelInvalid "DnaString" (.atom (.str s))
      = .ok (if vDna (.atom (.str s)) then true else !(PyVal.atom (.str s)).truthy) := rfl
  rw [hm]
  unfold hookInvalid
  conv => lhs; whnf
  erw [run2_eval fp s]
  cases hv : vDna (.atom (.str s))
  · cases s with
    | nil => simp only [final, hv]; rfl
    | cons c cs => simp only [final, hv]; rfl
  · simp only [final, hv]; rfl

theorem validate_DnaString (fp) : ∀ v : PyVal, hookInvalid fp "DnaString" (emb v) = modelInvalid "DnaString" v := by
  intro v
  cases v with
  | atom a => cases a with
    | str s => exact validate_str_DnaString fp s
    | _ => rfl
  | list xs => rfl
  | tuple xs => rfl

end C06BodiesDna
