/-
  C04 — Rendering is a canonical fixpoint (field level).

  For any field text accepted under a column type, rendering the built value
  (`str(column)`, `ColSpec.render`) gives a text that is accepted again and
  denotes the *same* value, that contains no TAB/CR/LF, that renders to itself,
  and that is the preferred null spelling when the value is the null value.

  Operational side: `Model.ColSpec.accept` / `Model.ColSpec.render` over the
  resolved class records `Builtin.expectedOf ty` (tied to the generated class
  table by `C01.builtins_resolve` / `C01.named_resolve`).  Helper lemmas live
  in `Lemmas/Render.lean`.

  Hypotheses:
  * `Render.FloatHost.Lawful' C.H` — the three `FloatHost.Lawful` laws plus
    "`float()` accepts every integer literal" (`parse_int`);
  * `Render.EnumsOK C.enums` — a decidable condition on the enum vocabularies,
    discharged for the generated table by `enumsOK_generated` (`decide +kernel`).

  Known finding: the full statement is FALSE for `SequenceOfNullableYesOrNo`
  (`seq_single_null_counterexample`, `fixpoint_all_false`).
-/
import MafModel.Lemmas.Render
open Model Py Spec Render

namespace C04

/-- the null-value / text pair that breaks the fixpoint: a one-element list whose
    element renders as the empty text (re-exported from `Render`) -/
abbrev SingleEmpty := Render.SingleEmpty

/-- **Tie to the source (regenerated every run).**  The generated enum
    vocabularies satisfy the conditions the fixpoint theorems need: within each
    class the values are pairwise distinct and contain no TAB, CR, LF or `;`;
    the values of the three capitalising classes are fixed by `capitalize`, are
    not `"Null"`, and only a member named `Null` has the value `""`; the values
    of the classes in `Render.nonEmptyClasses` (the three `""`-nullable enumerated
    columns and the element class of `SequenceOfSequencers`) are non-empty. -/
theorem enumsOK_generated : EnumsOK Generated.enums := Render.enumsOK_generated

/-- The fixpoint property of one column type `ty` with resolved class `sp`
    (full strength). -/
def fixpoint_statement (C : Ctx) (sp : ColSpec) (ty : ColType) : Prop :=
  ∀ (t : Text) (v : PyVal),
    (∀ c ∈ t, c ≠ '\t' ∧ c ≠ '\n' ∧ c ≠ '\r') →
    sp.accept C false t = some v →
    ∃ t', sp.render C.enums v = .ok t'
      ∧ (∀ c ∈ t', c ≠ '\t' ∧ c ≠ '\n' ∧ c ≠ '\r')
      ∧ sp.accept C false t' = some v
      ∧ (sp.isNullValue v = true → some t' = preferredNull ty)

/-- The property C04 at full strength: every column type of the development.
    NOT a theorem — see `fixpoint_all_false`. -/
def fixpoint_all : Prop :=
  ∀ (C : Ctx), FloatHost.Lawful' C.H → EnumsOK C.enums →
    ∀ (ty : ColType) (sp : ColSpec), Builtin.expectedOf ty = some sp → fixpoint_statement C sp ty

/-- the context of the counterexample: generated tables, a lawful float host -/
def cexCtx : Ctx := ⟨Generated.classTable, Generated.enums, intHost⟩

/-- **Known finding (kernel-checked witness).**  Under `SequenceOfNullableYesOrNo`
    the text `Null` is accepted as the one-element list `[Null]`; that value
    renders as the empty text, which denotes the empty list — a different value. -/
theorem seq_single_null_counterexample :
    Expected.SequenceOfNullableYesOrNo.accept cexCtx false "Null".toList
        = some (.list [.enum "NullableYesOrNoEnum" "Null"])
    ∧ Expected.SequenceOfNullableYesOrNo.render cexCtx.enums (.list [.enum "NullableYesOrNoEnum" "Null"])
        = .ok []
    ∧ Expected.SequenceOfNullableYesOrNo.accept cexCtx false [] = some (.list []) := by
  decide +kernel

/-- the full-strength statement is refuted by the counterexample -/
theorem fixpoint_all_false : ¬ fixpoint_all := by
  intro h
  obtain ⟨h1, h2, h3⟩ := seq_single_null_counterexample
  have hs := h cexCtx intHost_lawful enumsOK_generated (.named "SequenceOfNullableYesOrNo")
    Expected.SequenceOfNullableYesOrNo (by decide) "Null".toList _ (by decide) h1
  obtain ⟨t', hr, _, ha, _⟩ := hs
  rw [h2] at hr
  injection hr with hr
  subst hr
  rw [h3] at ha
  simp at ha

/-- **C04, every column type but the sequence of nullable yes/no (full strength).** -/
theorem fixpoint (C : Ctx) (hH : FloatHost.Lawful' C.H) (hE : EnumsOK C.enums)
    (ty : ColType) (sp : ColSpec) (h : Builtin.expectedOf ty = some sp)
    (hty : ty ≠ .named "SequenceOfNullableYesOrNo") : fixpoint_statement C sp ty :=
  fun t v hclean hacc => fix_all C hH hE ty sp h t v hclean hacc (fun e => absurd e hty)

/-- **C04, all column types, partial**: the conclusion of `fixpoint_statement`
    for every accepted value that is not a one-element list whose element renders
    as the empty text.  (What is missing for `SequenceOfNullableYesOrNo` is
    exactly the excluded case, for which the property fails.) -/
theorem fixpoint_partial (C : Ctx) (hH : FloatHost.Lawful' C.H) (hE : EnumsOK C.enums)
    (ty : ColType) (sp : ColSpec) (h : Builtin.expectedOf ty = some sp)
    (t : Text) (v : PyVal) (hclean : ∀ c ∈ t, c ≠ '\t' ∧ c ≠ '\n' ∧ c ≠ '\r')
    (hacc : sp.accept C false t = some v) (hse : ¬ SingleEmpty C.enums v) :
    ∃ t', sp.render C.enums v = .ok t'
      ∧ (∀ c ∈ t', c ≠ '\t' ∧ c ≠ '\n' ∧ c ≠ '\r')
      ∧ sp.accept C false t' = some v
      ∧ (sp.isNullValue v = true → some t' = preferredNull ty) :=
  fix_all C hH hE ty sp h t v hclean hacc (fun _ => hse)

/-- the same for `SequenceOfNullableYesOrNo`, under the hypothesis that the
    rendering is not the empty text -/
theorem fixpoint_partial_nonempty (C : Ctx) (hH : FloatHost.Lawful' C.H) (hE : EnumsOK C.enums)
    (t : Text) (v : PyVal) (hclean : ∀ c ∈ t, c ≠ '\t' ∧ c ≠ '\n' ∧ c ≠ '\r')
    (hacc : Expected.SequenceOfNullableYesOrNo.accept C false t = some v)
    (hne : Expected.SequenceOfNullableYesOrNo.render C.enums v ≠ .ok []) :
    ∃ t', Expected.SequenceOfNullableYesOrNo.render C.enums v = .ok t'
      ∧ (∀ c ∈ t', c ≠ '\t' ∧ c ≠ '\n' ∧ c ≠ '\r')
      ∧ Expected.SequenceOfNullableYesOrNo.accept C false t' = some v
      ∧ (Expected.SequenceOfNullableYesOrNo.isNullValue v = true →
          some t' = preferredNull (.named "SequenceOfNullableYesOrNo")) :=
  fixpoint_partial C hH hE (.named "SequenceOfNullableYesOrNo") _ (by decide) t v hclean hacc
    (not_singleEmpty_of_render C.enums _ v rfl rfl hne)

/-- the named types, quantified like `Builtin.accept_named` -/
theorem fixpoint_named (C : Ctx) (hH : FloatHost.Lawful' C.H) (hE : EnumsOK C.enums)
    (n : String) (sp : ColSpec) (h : (n, sp) ∈ Expected.named)
    (hn : n ≠ "SequenceOfNullableYesOrNo") : fixpoint_statement C sp (.named n) := by
  have hall : Expected.named.all (fun p => Expected.namedSpec p.1 == some p.2) = true := by decide
  have hs : Expected.namedSpec n = some sp := by
    simpa using (List.all_eq_true.mp hall) (n, sp) h
  exact fixpoint C hH hE (.named n) sp hs (by simpa using hn)

/-- **Rendering is idempotent**: the rendered text, parsed again, renders to itself. -/
theorem render_idempotent (C : Ctx) (hH : FloatHost.Lawful' C.H) (hE : EnumsOK C.enums)
    (ty : ColType) (sp : ColSpec) (h : Builtin.expectedOf ty = some sp)
    (t : Text) (v : PyVal) (hclean : ∀ c ∈ t, c ≠ '\t' ∧ c ≠ '\n' ∧ c ≠ '\r')
    (hacc : sp.accept C false t = some v) (hse : ¬ SingleEmpty C.enums v)
    (t' : Text) (hr : sp.render C.enums v = .ok t') (v' : PyVal) (ha : sp.accept C false t' = some v') :
    v' = v ∧ sp.render C.enums v' = .ok t' := by
  obtain ⟨t'', hr', _, ha', _⟩ := fixpoint_partial C hH hE ty sp h t v hclean hacc hse
  rw [hr] at hr'
  injection hr' with hr'
  subst hr'
  rw [ha] at ha'
  injection ha' with ha'
  subst ha'
  exact ⟨rfl, hr⟩

/-- the rendered text denotes the same value in the flat specification -/
theorem rendered_denotes (C : Ctx) (hH : FloatHost.Lawful' C.H) (hE : EnumsOK C.enums)
    (ty : ColType) (sp : ColSpec) (h : Builtin.expectedOf ty = some sp)
    (t : Text) (v : PyVal) (hclean : ∀ c ∈ t, c ≠ '\t' ∧ c ≠ '\n' ∧ c ≠ '\r')
    (hacc : sp.accept C false t = some v) (hse : ¬ SingleEmpty C.enums v) :
    ∃ t', sp.render C.enums v = .ok t' ∧ specBuild ⟨C.enums, C.H⟩ ty t' = some v := by
  obtain ⟨t', hr, _, ha, _⟩ := fixpoint_partial C hH hE ty sp h t v hclean hacc hse
  exact ⟨t', hr, by rw [← Builtin.field_accept C ty sp t' h]; exact ha⟩

/-- **Masked types**: only the empty text is accepted, its value `None` renders
    as the empty text. -/
theorem fixpoint_masked (C : Ctx) (b : String) (sp : ColSpec)
    (h : Builtin.expectedOf (.mixed "RequireNullValue" (.named b)) = some sp)
    (t : Text) (v : PyVal) (hacc : sp.accept C false t = some v) :
    t = [] ∧ v = .atom .none ∧ sp.render C.enums v = .ok [] := by
  obtain ⟨h1, h2, t', hr, _, _, hn⟩ := fix_masked C b sp h t v hacc
  refine ⟨h1, h2, ?_⟩
  subst h2
  have hb : b ∈ Builtin.maskable := by
    simp only [Builtin.expectedOf] at h
    split at h
    · rename_i hc; exact hc.2
    · simp at h
  have hnull : sp.isNullValue (.atom .none) = true := by
    simp only [Builtin.expectedOf, hb, and_self, if_true] at h
    simp only [Builtin.maskable, List.mem_cons, List.mem_nil_iff, or_false] at hb
    rcases hb with rfl | rfl
    · rw [show Expected.namedSpec "NullableDnaString" = some Expected.NullableDnaString from by decide] at h
      simp at h; subst h; decide
    · rw [show Expected.namedSpec "NullableZeroBasedIntegerColumn" = some Expected.NullableZeroBasedIntegerColumn from by decide] at h
      simp at h; subst h; decide
  have := hn hnull
  simp only [Builtin.maskable, List.mem_cons, List.mem_nil_iff, or_false] at hb
  rcases hb with rfl | rfl <;>
    (simp [preferredNull, namedNulls, baseName] at this; subst this; exact hr)

/-! ### non-vacuity -/

/-- the hypotheses are satisfiable: a lawful float host and the generated vocabularies -/
example : FloatHost.Lawful' cexCtx.H ∧ EnumsOK cexCtx.enums := ⟨intHost_lawful, enumsOK_generated⟩

/-- `"007"` under `ZeroBasedIntegerColumn` ↦ `7` ↦ `"7"` ↦ `7` -/
example : Expected.ZeroBasedIntegerColumn.accept cexCtx false "007".toList = some (.atom (.int 7))
    ∧ Expected.ZeroBasedIntegerColumn.render cexCtx.enums (.atom (.int 7)) = .ok "7".toList
    ∧ Expected.ZeroBasedIntegerColumn.accept cexCtx false "7".toList = some (.atom (.int 7)) := by
  decide +kernel

/-- `"yes"` and `"Yes"` under `NullableYesOrNo` ↦ member `Yes` ↦ `"1"` ↦ member `Yes` -/
example : Expected.NullableYesOrNo.accept cexCtx false "yes".toList = some (.atom (.enum "NullableYesOrNoEnum" "Yes"))
    ∧ Expected.NullableYesOrNo.accept cexCtx false "Yes".toList = some (.atom (.enum "NullableYesOrNoEnum" "Yes"))
    ∧ Expected.NullableYesOrNo.render cexCtx.enums (.atom (.enum "NullableYesOrNoEnum" "Yes")) = .ok "1".toList
    ∧ Expected.NullableYesOrNo.accept cexCtx false "1".toList = some (.atom (.enum "NullableYesOrNoEnum" "Yes")) := by
  decide +kernel

/-- `EntrezGeneId`: zero ↦ null ↦ `"0"` ↦ null -/
example : Expected.EntrezGeneId.accept cexCtx false "000".toList = some (.atom .none)
    ∧ Expected.EntrezGeneId.render cexCtx.enums (.atom .none) = .ok "0".toList
    ∧ Expected.EntrezGeneId.accept cexCtx false "0".toList = some (.atom .none)
    ∧ some "0".toList = preferredNull (.named "EntrezGeneId") := by
  decide +kernel

/-- a sequence that does round-trip, with a null element inside: `"null;YES"` ↦ `[Null, Yes]` ↦ `";1"` -/
example : Expected.SequenceOfNullableYesOrNo.accept cexCtx false "null;YES".toList
      = some (.list [.enum "NullableYesOrNoEnum" "Null", .enum "NullableYesOrNoEnum" "Yes"])
    ∧ Expected.SequenceOfNullableYesOrNo.render cexCtx.enums
        (.list [.enum "NullableYesOrNoEnum" "Null", .enum "NullableYesOrNoEnum" "Yes"]) = .ok ";1".toList
    ∧ Expected.SequenceOfNullableYesOrNo.accept cexCtx false ";1".toList
      = some (.list [.enum "NullableYesOrNoEnum" "Null", .enum "NullableYesOrNoEnum" "Yes"]) := by
  decide +kernel

/-- the side condition of `fixpoint_partial` holds there, fails at the counterexample -/
example : ¬ SingleEmpty cexCtx.enums (.list [.enum "NullableYesOrNoEnum" "Null", .enum "NullableYesOrNoEnum" "Yes"]) := by
  rintro ⟨a, h, _⟩; simp at h
example : SingleEmpty cexCtx.enums (.list [.enum "NullableYesOrNoEnum" "Null"]) := ⟨_, rfl, by decide +kernel⟩

/-- the combined theorem applies to a concrete column type and text -/
example : ∃ t', Expected.ZeroBasedIntegerColumn.render cexCtx.enums (.atom (.int 7)) = .ok t'
    ∧ Expected.ZeroBasedIntegerColumn.accept cexCtx false t' = some (.atom (.int 7)) := by
  obtain ⟨t', h1, _, h2, _⟩ := fixpoint cexCtx intHost_lawful enumsOK_generated (.named "ZeroBasedIntegerColumn")
    Expected.ZeroBasedIntegerColumn (by decide) (by decide) "007".toList (.atom (.int 7)) (by decide)
    (by decide +kernel)
  exact ⟨t', h1, h2⟩

example : Builtin.expectedOf (.mixed "RequireNullValue" (.named "NullableDnaString")) ≠ none := by decide

end C04
