/-
  C01 / C04 — the `__build__` hooks that do not consult a host parser (`_BuildStringColumn.__build__`, inherited by the
  string and DNA column classes, and the default `MafCustomColumnRecord.__build__`), translated from the source on every
  run and interpreted, equal the hand model's `runBuild` over the regenerated class table, for every text.
  (The hooks that call `int()` / `float()` / `UUID()` / an enum constructor are translated and executed against the real
  methods on every run — `body.build` — but not proved: DESIGN.md §3.3.)
-/
import MafModel.Lemmas.BodiesEmb
open Py PyIR Bodies

namespace C01Bodies

set_option maxHeartbeats 4000000

theorem build_NullableStringColumn (fp) (t : Text) : hookBuild fp "NullableStringColumn" t = modelBuild fp "NullableStringColumn" t := by rfl
theorem build_StringColumn (fp) (t : Text) : hookBuild fp "StringColumn" t = modelBuild fp "StringColumn" t := by rfl
theorem build_NullableDnaString (fp) (t : Text) : hookBuild fp "NullableDnaString" t = modelBuild fp "NullableDnaString" t := by rfl
theorem build_DnaString (fp) (t : Text) : hookBuild fp "DnaString" t = modelBuild fp "DnaString" t := by rfl
theorem build_MafCustomColumnRecord (fp) (t : Text) : hookBuild fp "MafCustomColumnRecord" t = modelBuild fp "MafCustomColumnRecord" t := by rfl

/-- non-vacuity: the interpreted hook really returns the text -/
example (fp) : hookBuild fp "StringColumn" "TP53".toList = .ok (.str "TP53".toList) := by rfl

end C01Bodies
