/-
  C12 — the allele relation `AlleleOverlapType.subset` (maflib/overlap_iter.py), translated from the source on every run
  and interpreted, is the model's `AlleleRel.test .subset` for ALL lists of allele texts: an induction over the
  interpreter's loops (`all(i in a for i in other)` over `set(base)`).
-/
import MafModel.Lemmas.BodiesEmb
import MafModel.Model.Overlap
open Py PyIR Bodies Model

namespace C12Bodies
set_option maxHeartbeats 4000000

def strs (xs : List Text) : Val := .list (xs.map Val.str)
def setOf (xs : List Text) : Val := .obj "set" ((xs.map Val.str).map (fun x => ("", x)))

/-- `anyEq` over texts is list membership -/
theorem anyEq_eval (H : Host) (x : Text) (b : List Text) :
    Tree.eval H (anyEq (.str x) (b.map Val.str)) = decide (x ∈ b) := by
  induction b with
  | nil => rfl
  | cons y ys ih =>
    simp only [List.map_cons, anyEq]
    rw [Tree.eval_bind]
    have hq : Tree.eval H (Val.pyEq (.str y) (.str x)) = (y == x) := by
      show Tree.eval H (test (.textEq y x)) = _
      simp only [test, Tree.eval, Query.holds]; by_cases h : (y == x) = true <;> simp [h]
    rw [hq]
    by_cases hyx : y = x
    · subst hyx; simp [Tree.eval]
    · have : (y == x) = false := by simpa using hyx
      rw [this]; simp only [Bool.false_eq_true, if_false]; rw [ih]
      have : x ≠ y := fun h => hyx h.symm
      simp [this]

/-- `x in set(base)` -/
theorem contains_eval (H : Host) (x : Text) (b : List Text) :
    Tree.eval H (containsVal (.str x) (setOf b)) = .ok (decide (x ∈ b)) := by
  have : containsVal (.str x) (setOf b) = M.ofTree (anyEq (.str x) (b.map Val.str)) := by
    simp [containsVal, setOf, iterate, List.map_map, Function.comp_def]
  rw [this, M.ofTree, Tree.eval_bind, anyEq_eval]; rfl

def env0 (b o : List Text) : Env := [("cls", Val.cls "AlleleOverlapType"), ("base", strs b), ("other", strs o)]
def env1 (b o : List Text) : Env := setVar (env0 b o) "a" (setOf b)
def quantE : Expr := Expr.quant true "i" (Expr.name "other") ((Expr.name "i").cmp [(CmpOp.in_, Expr.name "a")])

def condE : Expr := (Expr.name "i").cmp [(CmpOp.in_, Expr.name "a")]

theorem cond_eval (H : Host) (b o : List Text) (n : Nat) (x : Text) :
    Tree.eval H (evalExpr Generated.Bodies.program H (n + 3) (setVar (env1 b o) "i" (.str x)) condE) = .ok (.bool (decide (x ∈ b))) := by
  conv => lhs; arg 2; whnf
  erw [Tree.eval_bind]
  have hc : Tree.eval H (applyCmp CmpOp.in_ ((fun (x : String × Val) => x.snd) ("i", Val.str x)) ((fun (x : String × Val) => x.snd) ("a", setOf b)))
      = .ok (decide (x ∈ b)) := contains_eval H x b
  erw [hc]
  by_cases hx : x ∈ b
  · simp only [hx, decide_true]; rfl
  · simp only [hx, decide_false]; rfl

/-- the loop body `i in a` of `all(i in a for i in other)` -/
theorem f_eval (H : Host) (b o : List Text) (n : Nat) (x : Text) :
    Tree.eval H ((evalExpr Generated.Bodies.program H (n + 3) (setVar (env1 b o) "i" (.str x)) condE).bind (fun c => M.ofTree c.truthy))
      = .ok (decide (x ∈ b)) := by
  unfold M.bind
  erw [Tree.eval_bind, cond_eval]
  rfl

/-- `allM` over a list of texts whose body evaluates, at every element, to a known Boolean -/
theorem allM_eval (H : Host) (f : Val → M Bool) (g : Text → Bool)
    (hf : ∀ x, Tree.eval H (f (.str x)) = .ok (g x)) (o : List Text) :
    Tree.eval H (allM f (o.map Val.str)) = .ok (o.all g) := by
  induction o with
  | nil => rfl
  | cons x xs ih =>
    simp only [List.map_cons, allM, M.bind]
    erw [Tree.eval_bind, hf x]
    cases hg : g x
    · simp [List.all_cons, hg]; rfl
    · simp only [List.all_cons, hg, Bool.true_and]; exact ih

theorem quant_eval (H : Host) (b o : List Text) :
    Tree.eval H (evalExpr Generated.Bodies.program H 60 (env1 b o) quantE) = .ok (.bool (o.all (fun x => decide (x ∈ b)))) := by
  conv => lhs; arg 2; whnf
  erw [Tree.eval_bind]
  simp only [if_true]
  erw [allM_eval H _ (fun x => decide (x ∈ b)) (fun x => f_eval H b o 56 x) o]
  rfl

theorem ret_eval (H : Host) (b o : List Text) :
    Tree.eval H (execStmt Generated.Bodies.program H 61 (env1 b o) (Stmt.ret quantE))
      = .ok (env1 b o, some (.bool (o.all (fun x => decide (x ∈ b))))) := by
  conv => lhs; arg 2; whnf
  erw [Tree.eval_bind, quant_eval]
  rfl

theorem subset_body (H : Host) (b o : List Text) :
    Tree.eval H (execStmts Generated.Bodies.program H 63 (env0 b o) Generated.Bodies.AlleleOverlapType__subset.body)
      = .ok (env1 b o, some (.bool (o.all (fun x => decide (x ∈ b))))) := by
  conv => lhs; arg 2; whnf
  erw [Tree.eval_bind, ret_eval]
  rfl

def relRun (H : Host) (m : String) (b o : List Text) : Except PyErr Val :=
  (run Generated.Bodies.program H "AlleleOverlapType" m [.cls "AlleleOverlapType", strs b, strs o]).map (·.1)

/-- `AlleleOverlapType.subset(base, other)`, translated and interpreted, for all lists of texts -/
theorem subset_eq (H : Host) (b o : List Text) :
    relRun H "subset" b o = .ok (.bool (o.all (fun x => decide (x ∈ b)))) := by
  unfold relRun run
  conv => lhs; arg 2; arg 2; whnf
  erw [Tree.eval_bind, subset_body]
  rfl

/-- ... which is the hand model's `AlleleRel.test .subset` -/
theorem subset_eq_model (H : Host) (b o : List Text) :
    relRun H "subset" b o = .ok (.bool (AlleleRel.test .subset b o)) := by
  rw [subset_eq]
  congr 2
  simp [AlleleRel.test]

/-- `==` on two lists of texts -/
theorem pyEqList_eval (H : Host) (b o : List Text) :
    Tree.eval H (Val.pyEqList (b.map Val.str) (o.map Val.str)) = decide (b = o) := by
  induction b generalizing o with
  | nil => cases o <;> simp [Val.pyEqList, Tree.eval]
  | cons x xs ih =>
    cases o with
    | nil => simp [Val.pyEqList, Tree.eval]
    | cons y ys =>
      simp only [List.map_cons, Val.pyEqList]
      rw [Tree.eval_bind]
      have hq : Tree.eval H (Val.pyEq (.str x) (.str y)) = (x == y) := by
        show Tree.eval H (test (.textEq x y)) = _
        simp only [test, Tree.eval, Query.holds]; by_cases h : (x == y) = true <;> simp [h]
      rw [hq]
      by_cases hxy : x = y
      · subst hxy; simp only [beq_self_eq_true, if_true]; rw [ih]; simp
      · have : (x == y) = false := by simpa using hxy
        rw [this]; simp [Tree.eval, hxy]

def eqE : Expr := (Expr.name "base").cmp [(CmpOp.eq, Expr.name "other")]

theorem applyEq_eval (H : Host) (b o : List Text) :
    Tree.eval H (applyCmp CmpOp.eq (strs b) (strs o)) = .ok (decide (b = o)) := by
  show Tree.eval H (M.ofTree (Val.pyEqList (b.map Val.str) (o.map Val.str))) = _
  rw [M.ofTree, Tree.eval_bind, pyEqList_eval]; rfl

/-- `base == other` evaluated in an environment that binds the two names to the two lists -/
theorem eq_expr_eval (H : Host) (b o : List Text) (n : Nat) :
    Tree.eval H (evalExpr Generated.Bodies.program H (n + 2) (env0 b o) eqE) = .ok (.bool (decide (b = o))) := by
  conv => lhs; arg 2; whnf
  erw [Tree.eval_bind]
  have hc : Tree.eval H (applyCmp CmpOp.eq ((fun (x : String × Val) => x.snd) ("base", strs b)) ((fun (x : String × Val) => x.snd) ("other", strs o)))
      = .ok (decide (b = o)) := applyEq_eval H b o
  erw [hc]
  by_cases h : b = o
  · simp only [h, decide_true]; rfl
  · simp only [h, decide_false]; rfl

theorem equality_body (H : Host) (b o : List Text) :
    Tree.eval H (execStmts Generated.Bodies.program H 63 (env0 b o) Generated.Bodies.AlleleOverlapType__equality.body)
      = .ok (env0 b o, some (.bool (decide (b = o)))) := by
  conv => lhs; arg 2; whnf
  erw [Tree.eval_bind]
  have hr : Tree.eval H (execStmt Generated.Bodies.program H 62 (env0 b o) (Stmt.ret eqE))
      = .ok (env0 b o, some (.bool (decide (b = o)))) := by
    conv => lhs; arg 2; whnf
    erw [Tree.eval_bind, eq_expr_eval H b o 59]
    rfl
  erw [hr]
  rfl

/-- `AlleleOverlapType.equality(base, other)`, translated and interpreted, is `base == other` for all lists of texts -/
theorem equality_eq (H : Host) (b o : List Text) :
    relRun H "equality" b o = .ok (.bool (decide (b = o))) := by
  unfold relRun run
  conv => lhs; arg 2; arg 2; whnf
  erw [Tree.eval_bind, equality_body]
  rfl

theorem equality_eq_model (H : Host) (b o : List Text) :
    relRun H "equality" b o = .ok (.bool (AlleleRel.test .equality b o)) := by
  rw [equality_eq]
  congr 2
  simp only [AlleleRel.test]
  by_cases h : b = o
  · simp [h]
  · have : (b == o) = false := by simpa using h
    simp [h, this]

def anyE : Expr := Expr.quant false "i" (Expr.name "other") condE
def orE : Expr := Expr.or [anyE, eqE]

/-- `anyM` over a list of texts whose body evaluates, at every element, to a known Boolean -/
theorem anyM_eval (H : Host) (f : Val → M Bool) (g : Text → Bool)
    (hf : ∀ x, Tree.eval H (f (.str x)) = .ok (g x)) (o : List Text) :
    Tree.eval H (anyM f (o.map Val.str)) = .ok (o.any g) := by
  induction o with
  | nil => rfl
  | cons x xs ih =>
    simp only [List.map_cons, anyM, M.bind]
    erw [Tree.eval_bind, hf x]
    cases hg : g x
    · simp only [List.any_cons, hg, Bool.false_or]; exact ih
    · simp [List.any_cons, hg]; rfl

theorem any_eval (H : Host) (b o : List Text) :
    Tree.eval H (evalExpr Generated.Bodies.program H 59 (env1 b o) anyE) = .ok (.bool (o.any (fun x => decide (x ∈ b)))) := by
  conv => lhs; arg 2; whnf
  erw [Tree.eval_bind]
  simp only [Bool.false_eq_true, if_false]
  erw [anyM_eval H _ (fun x => decide (x ∈ b)) (fun x => f_eval H b o 55 x) o]
  rfl

theorem eq_expr_eval1 (H : Host) (b o : List Text) (n : Nat) :
    Tree.eval H (evalExpr Generated.Bodies.program H (n + 2) (env1 b o) eqE) = .ok (.bool (decide (b = o))) := by
  conv => lhs; arg 2; whnf
  erw [Tree.eval_bind]
  have hc : Tree.eval H (applyCmp CmpOp.eq ((fun (x : String × Val) => x.snd) ("base", strs b)) ((fun (x : String × Val) => x.snd) ("other", strs o)))
      = .ok (decide (b = o)) := applyEq_eval H b o
  erw [hc]
  by_cases h : b = o
  · simp only [h, decide_true]; rfl
  · simp only [h, decide_false]; rfl

theorem or_eval (H : Host) (b o : List Text) :
    Tree.eval H (evalExpr Generated.Bodies.program H 60 (env1 b o) orE) = .ok (.bool (o.any (fun x => decide (x ∈ b)) || decide (b = o))) := by
  conv => lhs; arg 2; whnf
  erw [Tree.eval_bind, any_eval]
  cases ha : o.any (fun x => decide (x ∈ b))
  · simp only [Bool.false_or]
    show Tree.eval H (evalExpr Generated.Bodies.program H 59 (env1 b o) eqE) = _
    exact eq_expr_eval1 H b o 57
  · rfl

theorem intersects_body (H : Host) (b o : List Text) :
    Tree.eval H (execStmts Generated.Bodies.program H 63 (env0 b o) Generated.Bodies.AlleleOverlapType__intersects.body)
      = .ok (env1 b o, some (.bool (o.any (fun x => decide (x ∈ b)) || decide (b = o)))) := by
  conv => lhs; arg 2; whnf
  erw [Tree.eval_bind]
  have hr : Tree.eval H (execStmt Generated.Bodies.program H 61 (env1 b o) (Stmt.ret orE))
      = .ok (env1 b o, some (.bool (o.any (fun x => decide (x ∈ b)) || decide (b = o)))) := by
    conv => lhs; arg 2; whnf
    erw [Tree.eval_bind, or_eval]
    rfl
  erw [hr]
  rfl

/-- `AlleleOverlapType.intersects(base, other)`, translated and interpreted, for all lists of texts: some element of
    `other` is in `base`, or the two lists are equal (two empty lists intersect) -/
theorem intersects_eq (H : Host) (b o : List Text) :
    relRun H "intersects" b o = .ok (.bool (o.any (fun x => decide (x ∈ b)) || decide (b = o))) := by
  unfold relRun run
  conv => lhs; arg 2; arg 2; whnf
  erw [Tree.eval_bind, intersects_body]
  rfl

theorem intersects_eq_model (H : Host) (b o : List Text) :
    relRun H "intersects" b o = .ok (.bool (AlleleRel.test .intersects b o)) := by
  rw [intersects_eq]
  congr 2
  simp only [AlleleRel.test]
  congr 1
  · simp
  · by_cases h : b = o
    · simp [h]
    · have : (b == o) = false := by simpa using h
      simp [h, this]

/-- the three relations at once: the translated class methods are the model's `AlleleRel.test` -/
theorem relations_eq_model (H : Host) (b o : List Text) :
    relRun H "equality" b o = .ok (.bool (AlleleRel.test .equality b o)) ∧
    relRun H "intersects" b o = .ok (.bool (AlleleRel.test .intersects b o)) ∧
    relRun H "subset" b o = .ok (.bool (AlleleRel.test .subset b o)) :=
  ⟨equality_eq_model H b o, intersects_eq_model H b o, subset_eq_model H b o⟩

example (H : Host) : relRun H "subset" ["T".toList] ["T".toList, "T".toList] = .ok (.bool true) := by
  rw [subset_eq]; rfl

end C12Bodies
