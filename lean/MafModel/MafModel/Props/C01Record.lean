/-
  C01 at record level — `MafRecord.from_line` with a scheme accepts exactly the
  lines whose every field is accepted by the class of its column, binds accepted
  fields to the right name / index / class / value, never exposes a rejected
  field, and reports the errors in the way the stringency asks for.

  The field-level acceptance `ColSpec.accept` is the one `Props/C01.lean` proves
  equal to the documented domain; this file lifts it through the loop of
  `from_line`, `record[name] = column` (using the coherence invariant of C15) and
  the final `validate`.
-/
import MafModel.Lemmas.FromLineLemmas
import MafModel.Generated.ClassTable
import MafModel.Generated.Enums
open Model Py

namespace C01Record

/-- the hypotheses on the scheme: distinct names, at least one column, every class
    resolves, inherits `MafCustomColumnRecord.build` and is a subclass of itself -/
abbrev Hyp (C : Ctx) (S : Scheme) : Prop := SchemeOK C S

/-- a decidable check of the hypotheses (for concrete schemes: `decide +kernel`) -/
def hypCheck (C : Ctx) (S : Scheme) : Bool :=
  decide (S.names.Nodup) && decide (S.size > 0) &&
    S.cols.all (fun p => match resolveSpec C.tbl p.2 with
      | some sp => sp.buildMethod == some "MafCustomColumnRecord" && isSubclass C p.2 p.2
      | none => false)

theorem hyp_of_check (C : Ctx) (S : Scheme) (h : hypCheck C S = true) : Hyp C S := by
  simp only [hypCheck, Bool.and_eq_true, decide_eq_true_eq, List.all_eq_true] at h
  obtain ⟨⟨h1, h2⟩, h3⟩ := h
  refine ⟨h1, h2, ?_⟩
  intro p hp
  have := h3 p hp
  cases hr : resolveSpec C.tbl p.2 with
  | none => simp [hr] at this
  | some sp =>
    simp only [hr, Bool.and_eq_true, beq_iff_eq] at this
    exact ⟨sp, rfl, this.1, this.2⟩

/-! ### wrong number of fields -/

/-- Silent / Lenient (or no stringency given): a record without any column carrying exactly
    the RECORD_MISMATCH_NUMBER_OF_COLUMNS error of that line; Strict: that error is raised -/
theorem count_mismatch (C : Ctx) (S : Scheme) (line : Text) (lineNo : Option Nat)
    (mode : Option Mode) (hlen : (fieldsOf line).length ≠ S.size) :
    (mode ≠ some .strict →
      ∃ r logs, Record.fromLine C line none (some S) lineNo mode = .ok (r, logs) ∧
        r.errors = [⟨"RECORD_MISMATCH_NUMBER_OF_COLUMNS", lineNo, lineNo⟩] ∧
        r.slots = [] ∧ r.dict = [] ∧ r.line = lineNo) ∧
    (mode = some .strict →
      Record.fromLine C line none (some S) lineNo mode =
        .error (.format "RECORD_MISMATCH_NUMBER_OF_COLUMNS" lineNo)) := by
  rw [fromLine_mismatch C S line lineNo mode hlen]
  constructor
  · intro hm
    cases mode with
    | none => exact ⟨_, _, rfl, rfl, rfl, rfl, rfl⟩
    | some m =>
      cases m with
      | strict => exact absurd rfl hm
      | lenient => exact ⟨_, _, rfl, rfl, rfl, rfl, rfl⟩
      | silent => exact ⟨_, _, rfl, rfl, rfl, rfl, rfl⟩
  · rintro rfl; rfl

/-! ### right number of fields -/

section
variable {C : Ctx} {S : Scheme}

/-- outside Strict mode `from_line` always returns a record -/
theorem nonstrict_total (hS : Hyp C S) (line : Text) (lineNo : Option Nat) (mode : Option Mode)
    (hm : mode ≠ some .strict) :
    ∃ r logs, Record.fromLine C line none (some S) lineNo mode = .ok (r, logs) := by
  by_cases hlen : (fieldsOf line).length = S.size
  · rw [fromLine_spec hS line lineNo mode hlen]
    have hm' : modeOrSilent mode ≠ .strict := by
      cases mode with
      | none => simp [modeOrSilent]
      | some m => intro e; apply hm; simp only [modeOrSilent] at e; rw [e]
    obtain ⟨l, hl⟩ := processErrors_nonstrict _ hm'
      (specFinal C S (fieldsOf line) lineNo (modeOrSilent mode)).errors
    rw [hl]
    exact ⟨_, _, rfl⟩
  · obtain ⟨r, logs, h, _⟩ := (count_mismatch C S line lineNo mode hlen).1 hm
    exact ⟨r, logs, h⟩

/-- whatever the mode, a returned record is the specified one -/
theorem result_eq_spec (hS : Hyp C S) {line : Text} {lineNo : Option Nat} {mode : Option Mode}
    (hlen : (fieldsOf line).length = S.size) {r : Record} {logs : List LogRec}
    (h : Record.fromLine C line none (some S) lineNo mode = .ok (r, logs)) :
    r = specFinal C S (fieldsOf line) lineNo (modeOrSilent mode) := by
  rw [fromLine_spec hS line lineNo mode hlen] at h
  split at h
  · simp only [Except.ok.injEq, Prod.mk.injEq] at h
    exact h.1.symm
  · cases h

theorem specFinal_inv (hS : Hyp C S) (fields : List Text) (hlen : fields.length = S.size)
    (lineNo : Option Nat) (m : Mode) : (specFinal C S fields lineNo m).Inv :=
  (fromLine_loop hS fields hlen lineNo m S.size (Nat.le_refl _)).2.of_eq rfl rfl

/-- **acceptance.**  The returned record has no error iff every field is accepted by the
    (resolved) class of its column. -/
theorem accept_iff (hS : Hyp C S) {line : Text} {lineNo : Option Nat} {mode : Option Mode}
    (hlen : (fieldsOf line).length = S.size) {r : Record} {logs : List LogRec}
    (h : Record.fromLine C line none (some S) lineNo mode = .ok (r, logs)) :
    r.errors = [] ↔
      ∀ (i : Nat) (n cls : String) (sp : ColSpec) (f : Text),
        S.cols[i]? = some (n, cls) → resolveSpec C.tbl cls = some sp → (fieldsOf line)[i]? = some f →
        (sp.accept C false f).isSome = true := by
  rw [result_eq_spec hS hlen h]
  simp only [specFinal, specRec, List.append_eq_nil_iff, List.flatMap_eq_nil_iff, List.mem_range,
    noValueErrs_eq_nil_iff]
  constructor
  · rintro ⟨h1, _⟩ i n cls sp f hp hsp hf
    have hi : i < S.size := by
      by_cases hi : i < S.cols.length
      · exact hi
      · rw [List.getElem?_eq_none (by omega)] at hp; cases hp
    have := h1 i hi
    rw [errAt_eq hp hf hsp] at this
    cases ha : sp.accept C false f with
    | none => rw [ha] at this; simp at this
    | some v => rfl
  · intro hall
    have key : ∀ i, i < S.size → errAt C S (fieldsOf line) lineNo i = [] ∧
        ∃ c, colAt C S (fieldsOf line) i = some c := by
      intro i hi
      have hi' : i < S.cols.length := hi
      have hif : i < (fieldsOf line).length := by rw [hlen]; exact hi
      obtain ⟨⟨n, cls⟩, hp⟩ : ∃ p, S.cols[i]? = some p := ⟨_, List.getElem?_eq_getElem hi'⟩
      obtain ⟨f, hf⟩ : ∃ f, (fieldsOf line)[i]? = some f := ⟨_, List.getElem?_eq_getElem hif⟩
      obtain ⟨sp, hsp, _, _⟩ := hS.cls_ok _ (List.mem_of_getElem? hp)
      have := hall i n cls sp f hp hsp hf
      rw [errAt_eq hp hf hsp, colAt_eq hp hf hsp]
      cases ha : sp.accept C false f with
      | none => rw [ha] at this; cases this
      | some v => exact ⟨rfl, _, rfl⟩
    refine ⟨fun i hi => (key i hi).1, ?_⟩
    intro hmem
    have := mem_trimNone hmem
    simp only [specCols, List.mem_map, List.mem_range] at this
    obtain ⟨j, hj, hc⟩ := this
    obtain ⟨c, hc'⟩ := (key j hj).2
    rw [hc'] at hc; cases hc

/-- **binding of an accepted field.**  Slot `i` holds a column with the `i`-th name, index `i`,
    the `i`-th class and the accepted value; lookups by name and by position return that value. -/
theorem binding_accepted (hS : Hyp C S) {line : Text} {lineNo : Option Nat} {mode : Option Mode}
    (hlen : (fieldsOf line).length = S.size) {r : Record} {logs : List LogRec}
    (h : Record.fromLine C line none (some S) lineNo mode = .ok (r, logs))
    {i : Nat} {n cls : String} {sp : ColSpec} {f : Text} {v : PyVal}
    (hp : S.cols[i]? = some (n, cls)) (hsp : resolveSpec C.tbl cls = some sp)
    (hf : (fieldsOf line)[i]? = some f) (ha : sp.accept C false f = some v) :
    r.slots[i]? = some (some { oid := i, col := { cls := cls, key := n.toList, value := v, index := some (i : Int) } }) ∧
    r.getItem (.name n.toList) = .ok (some { oid := i, col := { cls := cls, key := n.toList, value := v, index := some (i : Int) } }) ∧
    r.value (.name n.toList) = .ok v ∧ r.value (.int i) = .ok v := by
  rw [result_eq_spec hS hlen h]
  have hinv := specFinal_inv hS (fieldsOf line) hlen lineNo (modeOrSilent mode)
  have hi : i < S.size := by
    by_cases hi : i < S.cols.length
    · exact hi
    · rw [List.getElem?_eq_none (by omega)] at hp; cases hp
  have hslot : (specFinal C S (fieldsOf line) lineNo (modeOrSilent mode)).slots[i]? =
      some (some (fieldCol i n cls v)) := by
    simp only [specFinal, specRec]
    rw [trimNone_getElem?_some, specCols_getElem? _ _ _ _ _ hi, colAt_eq hp hf hsp, ha]
    rfl
  have hget := (hinv.slot_ok i _ hslot).2
  have hname : (specFinal C S (fieldsOf line) lineNo (modeOrSilent mode)).getItem (.name n.toList) =
      .ok (some (fieldCol i n cls v)) := (getItem_name_iff _ _ _).2 hget
  have hint := (getItem_int_iff _ _ _).2 hslot
  refine ⟨hslot, hname, ?_, ?_⟩
  · simp only [Record.value, hname]; rfl
  · simp only [Record.value, hint]; rfl

/-- **a rejected field is never exposed.**  Its slot is empty (or beyond the end of the slot
    list), a lookup by its name finds nothing (`record.value(name)` is `None`), and the record
    carries an error for it, reported at the line number given to `from_line`. -/
theorem binding_rejected (hS : Hyp C S) {line : Text} {lineNo : Option Nat} {mode : Option Mode}
    (hlen : (fieldsOf line).length = S.size) {r : Record} {logs : List LogRec}
    (h : Record.fromLine C line none (some S) lineNo mode = .ok (r, logs))
    {i : Nat} {n cls : String} {sp : ColSpec} {f : Text}
    (hp : S.cols[i]? = some (n, cls)) (hsp : resolveSpec C.tbl cls = some sp)
    (hf : (fieldsOf line)[i]? = some f) (ha : sp.accept C false f = none) :
    (r.slots[i]? = some none ∨ r.slots[i]? = none) ∧
    r.getItem (.name n.toList) = .error .key ∧
    r.value (.name n.toList) = .ok .none ∧
    ∃ e ∈ r.errors, e.line = lineNo ∧ e.origin = lineNo ∧
      (e.tpe = "RECORD_INVALID_COLUMN_VALUE" ∨ e.tpe = "RECORD_COLUMN_WRONG_FORMAT") := by
  rw [result_eq_spec hS hlen h]
  have hinv := specFinal_inv hS (fieldsOf line) hlen lineNo (modeOrSilent mode)
  have hi : i < S.size := by
    by_cases hi : i < S.cols.length
    · exact hi
    · rw [List.getElem?_eq_none (by omega)] at hp; cases hp
  have hcol : colAt C S (fieldsOf line) i = none := by rw [colAt_eq hp hf hsp, ha]; rfl
  have hslot : ∀ c, (specFinal C S (fieldsOf line) lineNo (modeOrSilent mode)).slots[i]? ≠ some (some c) := by
    intro c hc
    simp only [specFinal, specRec] at hc
    rw [trimNone_getElem?_some, specCols_getElem? _ _ _ _ _ hi, hcol] at hc
    cases hc
  have hdict : tdictGet (specFinal C S (fieldsOf line) lineNo (modeOrSilent mode)).dict n.toList = none := by
    cases hg : tdictGet (specFinal C S (fieldsOf line) lineNo (modeOrSilent mode)).dict n.toList with
    | none => rfl
    | some c =>
      exfalso
      have hm := mem_of_tdictGet hg
      obtain ⟨j, hj, hc, hk⟩ := specRec_dict_name (C := C) (S := S) (fields := fieldsOf line)
        (lineNo := lineNo) (m := modeOrSilent mode) (k := S.size) hm
      obtain ⟨n', cls', sp', f', v', hp', _, _, _, hcv⟩ := colAt_some hc
      simp only at hk hc hcv
      have : n'.toList = n.toList := by rw [hk, hcv]; rfl
      have := Scheme.name_inj hS.nodup hp' hp (String.toList_inj.1 this)
      subst this
      rw [hcol] at hc; cases hc
  have hname : (specFinal C S (fieldsOf line) lineNo (modeOrSilent mode)).getItem (.name n.toList) =
      .error .key := by
    simp only [Record.getItem, hdict]
  refine ⟨?_, hname, by simp only [Record.value, hname], fieldErr C sp lineNo f, ?_, ?_⟩
  · cases hs : (specFinal C S (fieldsOf line) lineNo (modeOrSilent mode)).slots[i]? with
    | none => exact Or.inr rfl
    | some o =>
      cases o with
      | none => exact Or.inl rfl
      | some c => exact absurd hs (hslot c)
  · simp only [specFinal, specRec, List.mem_append, List.mem_flatMap, List.mem_range]
    left
    refine ⟨i, hi, ?_⟩
    rw [errAt_eq hp hf hsp, ha]
    exact List.mem_singleton.2 rfl
  · unfold fieldErr
    split <;> simp

/-- **Strict.**  With the errors `e :: _` the Silent mode collects, Strict raises
    `MafFormatException(e.tpe, e.line)`; with none it returns the Silent record
    (whose `validation_stringency` is then Strict).  Holds for any number of fields. -/
theorem strict (hS : Hyp C S) (line : Text) (lineNo : Option Nat) {rs : Record} {logs : List LogRec}
    (h : Record.fromLine C line none (some S) lineNo (some .silent) = .ok (rs, logs)) :
    Record.fromLine C line none (some S) lineNo (some .strict) =
      match rs.errors with
      | [] => .ok ({ rs with mode := .strict }, [])
      | e :: _ => .error (.format e.tpe e.line) := by
  by_cases hlen : (fieldsOf line).length = S.size
  · have hr := result_eq_spec hS hlen h
    rw [fromLine_spec hS line lineNo (some .strict) hlen, hr]
    have hmode : specFinal C S (fieldsOf line) lineNo (modeOrSilent (some Mode.strict)) =
        { specFinal C S (fieldsOf line) lineNo (modeOrSilent (some Mode.silent)) with mode := .strict } := rfl
    rw [hmode]
    generalize specFinal C S (fieldsOf line) lineNo (modeOrSilent (some Mode.silent)) = R
    rcases R with ⟨d, sl, errs, ln, md⟩
    cases errs <;> rfl
  · rw [fromLine_mismatch C S line lineNo _ hlen] at h ⊢
    simp only [modeOrSilent, processErrors, Except.ok.injEq, Prod.mk.injEq] at h
    rw [← h.1]
    rfl

/-- **Silent and Lenient agree** on the record (columns, name map, errors); Lenient
    additionally logs one warning per error; no stringency means Silent. -/
theorem modes_agree (hS : Hyp C S) (line : Text) (lineNo : Option Nat) {rs : Record}
    {logs : List LogRec}
    (h : Record.fromLine C line none (some S) lineNo (some .silent) = .ok (rs, logs)) :
    logs = [] ∧
    Record.fromLine C line none (some S) lineNo (some .lenient) =
      .ok ({ rs with mode := .lenient }, rs.errors.map (fun e => { tpe := e.tpe, line := e.line })) ∧
    Record.fromLine C line none (some S) lineNo none = .ok (rs, logs) := by
  refine ⟨?_, ?_, h⟩
  · by_cases hlen : (fieldsOf line).length = S.size
    · rw [fromLine_spec hS line lineNo _ hlen] at h
      simp only [modeOrSilent, processErrors] at h
      split at h
      · rename_i l hl
        split at hl <;> simp_all
      · cases h
    · rw [fromLine_mismatch C S line lineNo _ hlen] at h
      simp only [modeOrSilent, processErrors, Except.ok.injEq, Prod.mk.injEq] at h
      exact h.2.symm
  · by_cases hlen : (fieldsOf line).length = S.size
    · have hr := result_eq_spec hS hlen h
      rw [fromLine_spec hS line lineNo (some .lenient) hlen, hr]
      have hmode : specFinal C S (fieldsOf line) lineNo (modeOrSilent (some Mode.lenient)) =
          { specFinal C S (fieldsOf line) lineNo (modeOrSilent (some Mode.silent)) with mode := .lenient } := rfl
      rw [hmode]
      generalize specFinal C S (fieldsOf line) lineNo (modeOrSilent (some Mode.silent)) = R
      rcases R with ⟨d, sl, errs, ln, md⟩
      cases errs <;> rfl
    · rw [fromLine_mismatch C S line lineNo _ hlen] at h ⊢
      simp only [modeOrSilent, processErrors, Except.ok.injEq, Prod.mk.injEq] at h
      rw [← h.1]
      rfl

end

/-! ### non-vacuity: a concrete scheme over the generated class table -/

def demoC : Ctx := ⟨Generated.classTable, Generated.enums, ⟨fun _ => none⟩⟩

def demoS : Scheme :=
  { version := "v", annotation := "a",
    cols := [("Hugo_Symbol", "StringColumn"), ("Start_Position", "OneBasedIntegerColumn"),
             ("Strand", "Strand")] }

/-- the hypotheses of all theorems above hold for it -/
theorem demo_hyp : Hyp demoC demoS := hyp_of_check _ _ (by decide +kernel)

/-- summary of a result, for evaluation -/
def summary (x : Except PyErr (Record × List LogRec)) :
    Option (List String × List (Option Text) × Nat) :=
  match x with
  | .ok (r, logs) => some (r.errors.map (·.tpe), r.keys, logs.length)
  | .error _ => none

/-- a conforming line: no error, every column bound (hypotheses of `accept_iff`, right to left,
    and of `binding_accepted`) -/
example : (fieldsOf "TP53\t7\t+\r\n".toList).length = demoS.size := by decide +kernel
example : summary (Record.fromLine demoC "TP53\t7\t+\r\n".toList none (some demoS) (some 3) none) =
    some ([], [some "Hugo_Symbol".toList, some "Start_Position".toList, some "Strand".toList], 0) := by
  rw [fromLine_spec demo_hyp _ _ _ (by decide +kernel)]
  decide +kernel

/-- a line whose first field is outside its domain (hypotheses of `binding_rejected`): the slot
    stays empty, two errors, one warning each in Lenient mode -/
example : summary (Record.fromLine demoC "\t7\t+".toList none (some demoS) (some 3) (some .lenient)) =
    some (["RECORD_COLUMN_WRONG_FORMAT", "RECORD_COLUMN_WITH_NO_VALUE"],
      [none, some "Start_Position".toList, some "Strand".toList], 2) := by
  decide +kernel

def errOf (x : Except PyErr (Record × List LogRec)) : Option PyErr :=
  match x with
  | .error e => some e
  | .ok _ => none

/-- `strict`, error case, and `count_mismatch` -/
example : errOf (Record.fromLine demoC "\t7\t+".toList none (some demoS) (some 3) (some .strict)) =
    some (.format "RECORD_COLUMN_WRONG_FORMAT" (some 3)) := by decide +kernel

example : (fieldsOf "TP53\t7".toList).length ≠ demoS.size := by decide +kernel

end C01Record
