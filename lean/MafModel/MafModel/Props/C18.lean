/-
  C18 — no spill file, descriptor or gzip handle is left behind.

  The effect model `Model/Resources.lean` (tied to `maflib/sorter.py` by exact
  comparison of I/O traces under fault injection) runs the harness scenario
  `scenario n cap alwaysSpill abandon failAt`: add the keys `n, …, 1`, iterate
  (optionally abandoning the iteration after `abandon` items), then `close()` —
  again while `close()` itself reports a failure, up to three times — with the
  I/O call number `failAt` failing (`none`: no fault).

  All four statements hold for EVERY `n`, `cap` (also `cap = 0`), `alwaysSpill`,
  `abandon` and `failAt`; nothing here is bounded or partial.  The bounded
  `decide +kernel` checks at the end are additional evidence only.

  1. `no_leak`          — at the end no file, descriptor or handle exists.
  2. `propagates`       — if the fault fired, something was raised; everything raised
                          is the I/O error (`raised_only_ioErr`, unconditional), and
                          nothing is raised unless the fault fired (`raises_only_if_fired`).
  3. `clean_run`        — without a fault nothing is raised, nothing is left and the
                          complete iteration delivers the keys `1 … n` in order.
  4. `close_idempotent` — after a `close()` that returned, a further `close()` makes
                          no I/O call at all: it returns and leaves the state as it is.
-/
import MafModel.Lemmas.ResourceScenario
import MafModel.Lemmas.ResourceEval
open Py Model ResourceLemmas

namespace C18

/-- **C18.1** — once the sorter has been closed (the harness closes again when `close()`
    itself reports a failure; the fault fires at most once) no spill file, descriptor or
    gzip handle is left — whatever the fault position, including faults inside `close()`. -/
theorem no_leak (n cap : Nat) (sp : Bool) (abandon failAt : Option Nat) :
    let (_, s) := scenario n cap sp abandon failAt
    s.files = [] ∧ s.fds = [] ∧ s.handles = [] := by
  have h := (scenario_spec n cap sp abandon failAt).empty
  exact ⟨h.2.1, h.1.2.2.1, h.1.2.1⟩

/-- the sorter's own bookkeeping is empty as well -/
theorem nothing_registered (n cap : Nat) (sp : Bool) (abandon failAt : Option Nat) :
    let (_, s) := scenario n cap sp abandon failAt
    s.paths = [] ∧ s.fdsReg = [] ∧ s.merging = [] := by
  have h := (scenario_spec n cap sp abandon failAt).empty
  exact ⟨h.2.2.1, h.2.2.2, h.1.2.2.2⟩

/-- every exception the caller sees is the injected I/O error -/
theorem raised_only_ioErr (n cap : Nat) (sp : Bool) (abandon failAt : Option Nat) :
    ∀ p ∈ (scenario n cap sp abandon failAt).1.raised, p.2 = ioErr :=
  (scenario_spec n cap sp abandon failAt).io

/-- **C18.2** — if the fault fired, the failure reaches the caller (some phase raised),
    and nothing but the I/O error is raised. -/
theorem propagates (n cap : Nat) (sp : Bool) (abandon failAt : Option Nat) :
    let (log, s) := scenario n cap sp abandon failAt
    s.fired = true → log.raised ≠ [] ∧ ∀ p ∈ log.raised, p.2 = ioErr := by
  intro hf
  exact ⟨(scenario_spec n cap sp abandon failAt).propagates hf, (scenario_spec n cap sp abandon failAt).io⟩

/-- conversely nothing is raised unless a fault was planned and fired -/
theorem raises_only_if_fired (n cap : Nat) (sp : Bool) (abandon failAt : Option Nat) :
    let (log, s) := scenario n cap sp abandon failAt
    log.raised ≠ [] → failAt.isSome = true ∧ s.fired = true :=
  (scenario_spec n cap sp abandon failAt).onlyFault

/-- the fault-free run raises nothing -/
theorem clean_run_raises_nothing (n cap : Nat) (sp : Bool) (abandon : Option Nat) :
    (scenario n cap sp abandon none).1.raised = [] := by
  have h := scenario_spec n cap sp abandon none
  cases hr : (scenario n cap sp abandon none).1.raised with
  | nil => rfl
  | cons x xs =>
    have := (h.onlyFault (by rw [hr]; simp)).1
    cases this

/-- **C18.3** — the fault-free run: nothing is raised, nothing is left, and a complete
    iteration delivers the keys `1, …, n` in ascending order. -/
theorem clean_run (n cap : Nat) (sp : Bool) (abandon : Option Nat) :
    let (log, s) := scenario n cap sp abandon none
    log.raised = [] ∧ (s.files = [] ∧ s.fds = [] ∧ s.handles = []) ∧
    (abandon = none → log.output = some ((List.range n).map (· + 1))) :=
  ⟨clean_run_raises_nothing n cap sp abandon, no_leak n cap sp abandon none,
   (scenario_spec n cap sp abandon none).output rfl⟩

/-- **C18.4** — `close()` is idempotent: from any state satisfying the boundary invariant
    `RInv` (files registered, descriptors registered, handles covered by registered
    cursors), if `close()` returns normally it has released everything, and a further
    `close()` returns normally without making any I/O call — the state (trace included)
    does not change. -/
theorem close_idempotent (s s1 : RState) (hr : RInv s) (h : (close : M Unit).run s = (.ok (), s1)) :
    (s1.files = [] ∧ s1.fds = [] ∧ s1.handles = []) ∧ (close : M Unit).run s1 = (.ok (), s1) := by
  have hc := close_spec s hr
  have h' : exec close s = (.ok (), s1) := h
  rw [h'] at hc
  obtain ⟨_, _, ⟨_, q2, q3, q4⟩, q5, q6, q7⟩ := hc
  exact ⟨⟨q5, q3, q2⟩, close_noop s1 q4 q6 q7⟩

/-- the boundary invariant holds of every state the harness closes: after the add phase
    and after the iteration, whether they returned or raised -/
theorem invariant_after_add (n cap : Nat) (sp : Bool) (failAt : Option Nat) :
    RInv ((((List.range n).map (fun k => n - k)).forM add : M Unit).run
      { cap := cap, alwaysSpill := sp, failAt := failAt }).2 :=
  rinv_after_add _ _ (wf_s0 cap sp failAt) rfl

/-- a failing `close()` keeps the invariant, so the harness may simply call it again;
    when it fails the fault has fired, and the next call cannot fail -/
theorem close_failure_recoverable (s s1 : RState) (e : PyErr) (hr : RInv s)
    (h : (close : M Unit).run s = (.error e, s1)) :
    e = ioErr ∧ RInv s1 ∧ s1.fired = true ∧
    ∃ s2, (close : M Unit).run s1 = (.ok (), s2) ∧ s2.files = [] ∧ s2.fds = [] ∧ s2.handles = [] := by
  have hc := close_spec s hr
  have h' : exec close s = (.error e, s1) := h
  rw [h'] at hc
  obtain ⟨_, he, _, hf, hE⟩ := hc
  refine ⟨he, hE.1, hf, ?_⟩
  obtain ⟨a, h1, _, _, h4⟩ := (close_spec s1 hE.1).ok_of_fired hf
  rcases hx : exec close s1 with ⟨r, s2⟩
  rw [hx] at h1 h4
  simp only at h1; subst h1
  exact ⟨s2, hx, h4.2.1, h4.1.2.2.1, h4.1.2.1⟩

/-- the final state of the scenario is a fixed point of `close()` -/
theorem scenario_closed (n cap : Nat) (sp : Bool) (abandon failAt : Option Nat) :
    (close : M Unit).run (scenario n cap sp abandon failAt).2 = (.ok (), (scenario n cap sp abandon failAt).2) := by
  have h := (scenario_spec n cap sp abandon failAt).empty
  exact close_noop _ h.1.2.2.2 h.2.2.1 h.2.2.2

/-! ## non-vacuity: concrete runs

`List.mergeSort` does not reduce in the kernel, so the runs are evaluated on the
insertion-sort presentation `ResourceEval.scenarioK`, which is proved equal to
`scenario` (`scenario_eq_scenarioK`). -/

open ResourceEval in
/-- the fault hits the add phase (a `write` of the third spill): it is raised by `add`,
    the fault fired (hypothesis of `propagates`), and everything is released at the end -/
example : (scenario 5 2 true none (some 7)).1.raised = [("add", ioErr)] ∧
    (scenario 5 2 true none (some 7)).2.fired = true ∧
    (scenario 5 2 true none (some 7)).2.files = [] := by
  rewrite [scenario_eq_scenarioK]; decide +kernel

open ResourceEval in
/-- a fault during the iteration (reading a spill file) -/
example : (scenario 3 2 true (some 1) (some 13)).1.raised = [("iterate", ioErr)] ∧
    (scenario 3 2 true (some 1) (some 13)).2.fired = true := by
  rewrite [scenario_eq_scenarioK]; decide +kernel

open ResourceEval in
/-- a fault inside `close()` (an `os.remove`): the first `close()` raises, the harness
    closes again, and nothing is left -/
example : (scenario 3 2 true (some 1) (some 22)).1.raised = [("close#0", ioErr)] ∧
    (scenario 3 2 true (some 1) (some 22)).1.output = some [1] ∧
    (scenario 3 2 true (some 1) (some 22)).2.files = [] := by
  rewrite [scenario_eq_scenarioK]; decide +kernel

open ResourceEval in
/-- fault-free runs: sorted output, complete or abandoned, spilled or in memory -/
example : (scenario 5 2 true none none).1.output = some [1, 2, 3, 4, 5] ∧
    (scenario 5 2 true none none).1.raised = [] ∧
    (scenario 5 2 false (some 2) none).1.output = some [1, 2] ∧
    (scenario 2 3 false none none).1.output = some [1, 2] := by
  rewrite [scenario_eq_scenarioK]; decide +kernel

/-- a state with one registered spill file left, and the fault planned for the next I/O call -/
def oneFile : RState := { files := [0], paths := [0], fdsReg := [none], nextId := 1, failAt := some 0 }

theorem oneFile_inv : RInv oneFile :=
  ⟨by decide, by decide, by decide, rfl, fun _ h => (by cases h), ⟨by decide, fun _ h => (by cases h)⟩,
   fun _ h => (by cases h)⟩

/-- the hypotheses of `close_failure_recoverable` are satisfiable: `close()` raises from `oneFile` -/
example : ∃ s1, (close : M Unit).run oneFile = (.error ioErr, s1) ∧ s1.files = [0] :=
  ⟨_, rfl, rfl⟩

/-- the hypotheses of `close_idempotent` are satisfiable, non-trivially: the same state without
    a fault plan; `close()` returns and removes the file -/
example : RInv { oneFile with failAt := none } ∧
    ∃ s1, (close : M Unit).run { oneFile with failAt := none } = (.ok (), s1) ∧ s1.trace = [.remove] :=
  ⟨⟨by decide, by decide, by decide, rfl, fun _ h => (by cases h), ⟨by decide, fun _ h => (by cases h)⟩,
    fun _ h => (by cases h)⟩, _, rfl, rfl⟩

/-! ## a bounded exhaustive check (additional evidence only — the theorems above are general) -/

/-- for one `n`: every `cap` in `caps`, both spill modes, `abandon ∈ {none, 1}`, no fault and
    every fault position `< bound`: nothing is left, the scenario raises exactly when the
    fault fired, and only the I/O error is raised -/
def boundedCheck (run : Nat → Nat → Bool → Option Nat → Option Nat → PhaseLog × RState)
    (n : Nat) (caps : List Nat) (bound : Nat) : Bool :=
  caps.all fun cap => [true, false].all fun sp =>
  [none, some 1].all fun ab => (none :: (List.range bound).map some).all fun fa =>
    let r := run n cap sp ab fa
    r.2.files.isEmpty && r.2.fds.isEmpty && r.2.handles.isEmpty &&
    (r.2.fired == !r.1.raised.isEmpty) && r.1.raised.all (fun p => p.2 == ioErr)

/-! BOUNDED CHECKS, not the theorems: `n ≤ 2` with `cap ∈ {1,2,3}` and `n = 3` with
    `cap ∈ {2,3}`; the bounds 26 and 30 exceed the number of I/O calls of these runs (at most
    24, resp. 28), so every fault position is covered. -/
open ResourceEval in
theorem bounded_check_0_1 :
    boundedCheck scenario 0 [1, 2, 3] 26 = true ∧ boundedCheck scenario 1 [1, 2, 3] 26 = true := by
  rewrite [scenario_eq_scenarioK]; decide +kernel
open ResourceEval in
theorem bounded_check_2 : boundedCheck scenario 2 [1, 2, 3] 26 = true := by
  rewrite [scenario_eq_scenarioK]; decide +kernel
open ResourceEval in
theorem bounded_check_3 : boundedCheck scenario 3 [2, 3] 30 = true := by
  rewrite [scenario_eq_scenarioK]; decide +kernel

end C18
