/-
  C12 — allele-aware overlap (`LocatableByAlleleOverlapIterator`; model: second half of
  `MafModel/Model/Overlap.lean`: `AlleleRel.test`, `shouldAdd`, `partitionFirst`, `alleleGroups`,
  `alleleAll`).

  For every `al : AlOps κ` (how reference / alternate alleles are read off a record),
  `rel : AlleleRel` and positional group `first :: others`:

  a. `first_partition`  : the first slots of the emitted groups (`subgroups`) partition `first`:
       their concatenation is a permutation of `first`, each is non-empty and a sublist of `first`
       (order preserved).  `exactly_one` / `exactly_one_occ`: every record (every *occurrence*, via
       tagging with positions) of `first` sits in exactly one subgroup.
  b. `later_member_matches_earlier` : each later member of a subgroup passed `shouldAdd` against the
       members before it; `opens_new_group` : the first member of the `j`-th subgroup, when it
       arrived, found exactly `j` subgroups and failed the test against each of them as it stood
       then; `arrival` : the inductive characterisation of the partition (what happens when one more
       record of `first` arrives: it joins the FIRST subgroup that accepts it, else opens a new one).
  c. `others_exact` : in an emitted group `sub :: outs`, `outs` is `others` filtered slot-wise by
       `shouldAdd al rel sub` (`mem_other_slot_iff`: nothing that fails is returned, nothing that
       passes is omitted; order preserved).
  d. `allele_rel_spec` : `AlleleRel.test` meets its documentation.
  e. `alleleAll_eq`, `alleleAll_cons_skip`, `alleleAll_cons_keep`, `alleleGroups_ne_nil` :
       `alleleAll` skips exactly the positional groups whose first slot is empty (or that have no
       slot at all) and emits the groups of the others in order.

  The hypothesis `first ≠ []` of the task is only needed where something has to exist
  (`alleleGroups_ne_nil`); everything else holds for every `first`.
  Everything is proved in full; nothing is partial.
-/
import MafModel.Lemmas.AlleleLemmas

open Py Model

namespace C12

variable {κ : Type} (al : AlOps κ) (rel : AlleleRel)

/-- the first slot of every group -/
def firstSlots (gs : List (List (List κ))) : List (List κ) := gs.map (fun g => g.headD [])

/-- the first slots of the groups emitted for the positional group `first :: others` -/
abbrev subgroups (first : List κ) (others : List (List κ)) : List (List κ) :=
  firstSlots (alleleGroups al rel (first :: others))

/-- they are the partition computed by `partitionFirst` -/
theorem subgroups_eq (first : List κ) (others : List (List κ)) :
    subgroups al rel first others = partitionFirst al rel first [] := by
  simp [subgroups, firstSlots, alleleGroups, Function.comp_def]

/-! ## (a) the subgroups partition `first` -/

/-- a. the first slots of `alleleGroups al rel (first :: others)` partition `first` -/
theorem first_partition (first : List κ) (others : List (List κ)) :
    (subgroups al rel first others).flatten.Perm first ∧
    (∀ s ∈ subgroups al rel first others, s ≠ []) ∧
    (∀ s ∈ subgroups al rel first others, s.Sublist first) := by
  rw [subgroups_eq]
  refine ⟨by simpa using partitionFirst_flatten_perm al rel first [],
    partitionFirst_ne_nil al rel first (by simp), ?_⟩
  intro s hs
  obtain ⟨a, e, rfl, ha, he⟩ := partitionFirst_sublist al rel first [] s hs
  rcases ha with ha | rfl
  · simp at ha
  · simpa using he

/-- a. counting form: every record occurs in the subgroups as often as in `first` -/
theorem first_partition_count [BEq κ] [LawfulBEq κ] (first : List κ) (others : List (List κ))
    (x : κ) : ((subgroups al rel first others).map (List.count x)).sum = first.count x := by
  rw [← List.count_flatten]
  exact (first_partition al rel first others).1.count_eq x

theorem pairwise_disjoint_of_nodup_flatten {α : Type} {L : List (List α)} (h : L.flatten.Nodup) :
    (∀ l ∈ L, l.Nodup) ∧ L.Pairwise (fun s t => ∀ a ∈ s, a ∉ t) := by
  induction L with
  | nil => simp
  | cons a L ih =>
    rw [List.flatten_cons, List.nodup_append] at h
    obtain ⟨h1, h2, h3⟩ := h
    obtain ⟨i1, i2⟩ := ih h2
    refine ⟨?_, List.pairwise_cons.2 ⟨?_, i2⟩⟩
    · intro l hl
      rcases List.mem_cons.1 hl with rfl | hl
      · exact h1
      · exact i1 l hl
    · intro t ht x hx hxt
      exact h3 x hx x (List.mem_flatten.2 ⟨t, ht, hxt⟩) rfl

theorem unique_index {α : Type} {L : List (List α)}
    (h : L.Pairwise (fun s t => ∀ a ∈ s, a ∉ t)) {x : α} {j k : Nat} (hj : j < L.length)
    (hk : k < L.length) (hxj : x ∈ L[j]) (hxk : x ∈ L[k]) : k = j := by
  rw [List.pairwise_iff_getElem] at h
  rcases Nat.lt_trichotomy j k with hlt | heq | hgt
  · exact absurd hxk (h j k hj hk hlt x hxj)
  · exact heq.symm
  · exact absurd hxj (h k j hk hj hgt x hxk)

/-- a. when the records of `first` are distinct, the subgroups are pairwise disjoint and every
    record of `first` lies in exactly one subgroup -/
theorem exactly_one (first : List κ) (others : List (List κ)) (hnd : first.Nodup) :
    (subgroups al rel first others).Pairwise (fun s t => ∀ a ∈ s, a ∉ t) ∧
    ∀ x ∈ first, ∃ j, ∃ hj : j < (subgroups al rel first others).length,
      x ∈ (subgroups al rel first others)[j] ∧
      ∀ k (hk : k < (subgroups al rel first others).length),
        x ∈ (subgroups al rel first others)[k] → k = j := by
  have hp := (first_partition al rel first others).1
  have hd := (pairwise_disjoint_of_nodup_flatten (hp.nodup_iff.2 hnd)).2
  refine ⟨hd, ?_⟩
  intro x hx
  obtain ⟨s, hs, hxs⟩ := List.mem_flatten.1 (hp.mem_iff.2 hx)
  obtain ⟨j, hj, rfl⟩ := List.getElem_of_mem hs
  exact ⟨j, hj, hxs, fun k hk hxk => unique_index hd hj hk hxs hxk⟩

/-- a. occurrence-precise form, duplicates allowed: tag every record of `first` with its position
    (`first.zipIdx`); the partition of the tagged records (which reads the alleles through the tag)
    projects onto the subgroups, and every occurrence `(first[p], p)` lies in exactly one of its
    subgroups -/
theorem exactly_one_occ (first : List κ) (others : List (List κ)) :
    (partitionFirst (al.comap Prod.fst) rel first.zipIdx []).map (List.map Prod.fst)
      = subgroups al rel first others ∧
    ∀ p (hp : p < first.length), ∃ j,
      ∃ hj : j < (partitionFirst (al.comap Prod.fst) rel first.zipIdx []).length,
        (first[p], p) ∈ (partitionFirst (al.comap Prod.fst) rel first.zipIdx [])[j] ∧
        ∀ k (hk : k < (partitionFirst (al.comap Prod.fst) rel first.zipIdx []).length),
          (first[p], p) ∈ (partitionFirst (al.comap Prod.fst) rel first.zipIdx [])[k] → k = j := by
  constructor
  · have := partitionFirst_map al rel (Prod.fst : κ × Nat → κ) first.zipIdx []
    rw [List.zipIdx_map_fst] at this
    rw [subgroups_eq, ← this]; rfl
  · intro p hp
    have hnd : (first.zipIdx).Nodup := by
      have h1 : ((first.zipIdx).map Prod.snd).Nodup := by
        rw [List.zipIdx_map_snd]; exact List.nodup_range' 1
      rw [List.nodup_iff_pairwise_ne] at h1 ⊢
      exact List.Pairwise.of_map Prod.snd (fun a b hab he => hab (by rw [he])) h1
    have hmem : (first[p], p) ∈ first.zipIdx := by
      rw [List.mem_zipIdx_iff_getElem?]; simp [hp]
    have h := (exactly_one (al.comap Prod.fst) rel first.zipIdx [] hnd).2 _ hmem
    rw [subgroups_eq] at h
    exact h

/-! ## (b) why a record is where it is -/

/-- b. in every subgroup, each later member (position `i > 0`) passed the test against the members
    before it -/
theorem later_member_matches_earlier (first : List κ) (others : List (List κ)) :
    ∀ s ∈ subgroups al rel first others, ∀ i (h : i < s.length), 0 < i →
      shouldAdd al rel (s.take i) s[i] = true := by
  rw [subgroups_eq]
  intro s hs
  exact partitionFirst_chained al rel first (by simp) s hs

/-- b. spelled out: some earlier member of the subgroup has the same reference allele and related
    alternate alleles -/
theorem later_member_matches_some_earlier (first : List κ) (others : List (List κ)) :
    ∀ s ∈ subgroups al rel first others, ∀ i (h : i < s.length), 0 < i →
      ∃ p, ∃ hp : p < i, al.ref (s[p]'(by omega)) = al.ref s[i] ∧
        rel.test (al.alts (s[p]'(by omega))) (al.alts s[i]) = true := by
  intro s hs i h hi
  have := later_member_matches_earlier al rel first others s hs i h hi
  rw [shouldAdd_iff] at this
  obtain ⟨it, hit, h1, h2⟩ := this
  obtain ⟨p, hp, rfl⟩ := List.getElem_of_mem hit
  have hp' : p < i := by rw [List.length_take] at hp; omega
  rw [List.getElem_take] at h1 h2
  exact ⟨p, hp', h1, h2⟩

/-- b. the first member `x₀` of the `j`-th subgroup opened it: when it arrived — after the records
    `pre` of `first` — there were exactly `j` subgroups, `x₀` failed the test against every one of
    them as it stood then, and those are the beginnings of the final subgroups `0 … j-1` -/
theorem opens_new_group (first : List κ) (others : List (List κ)) (j : Nat)
    (hj : j < (subgroups al rel first others).length) :
    ∃ pre x₀ post, first = pre ++ x₀ :: post ∧
      ((subgroups al rel first others)[j]).head? = some x₀ ∧
      (partitionFirst al rel pre []).length = j ∧
      (∀ t ∈ partitionFirst al rel pre [], shouldAdd al rel t x₀ = false) ∧
      (∀ (k : Nat) (t : List κ), (partitionFirst al rel pre [])[k]? = some t →
        ∃ t', (subgroups al rel first others)[k]? = some t' ∧ t <+: t') := by
  have hget : (partitionFirst al rel first [])[j]? = some ((subgroups al rel first others)[j]) := by
    rw [← subgroups_eq al rel first others]; exact List.getElem?_eq_getElem hj
  obtain ⟨pre, x₀, post, rfl, hh, hl, hf⟩ :=
    partitionFirst_opens al rel first [] (Nat.zero_le j) hget
  refine ⟨pre, x₀, post, rfl, hh, hl, hf, ?_⟩
  intro k t hk
  rw [subgroups_eq, partitionFirst_append]
  exact partitionFirst_getElem?_prefix al rel _ _ hk

/-- b. inductive characterisation of the partition: when, after the records `pre`, one more record
    `x` arrives, either it joins the FIRST subgroup accepting it (it failed against all earlier
    ones; all other subgroups are untouched), or it fails against all and opens a new last one -/
theorem arrival (pre : List κ) (x : κ) :
    (∃ l₁ b l₂, partitionFirst al rel pre [] = l₁ ++ b :: l₂ ∧
        (∀ a ∈ l₁, shouldAdd al rel a x = false) ∧ shouldAdd al rel b x = true ∧
        partitionFirst al rel (pre ++ [x]) [] = l₁ ++ (b ++ [x]) :: l₂) ∨
    ((∀ a ∈ partitionFirst al rel pre [], shouldAdd al rel a x = false) ∧
        partitionFirst al rel (pre ++ [x]) [] = partitionFirst al rel pre [] ++ [[x]]) := by
  rw [partitionFirst_snoc]
  exact place_cases al rel _ x

/-- b. the partition of nothing is empty (base case of `arrival`) -/
theorem arrival_nil : partitionFirst al rel ([] : List κ) [] = [] := partitionFirst_nil al rel []

/-! ## (c) the other inputs -/

/-- every emitted group is a subgroup of `first` followed by one slot per other input -/
theorem emitted_shape (first : List κ) (others : List (List κ)) :
    ∀ grp ∈ alleleGroups al rel (first :: others), ∃ sub outs, grp = sub :: outs ∧
      sub ∈ subgroups al rel first others ∧ outs.length = others.length := by
  intro grp hg
  simp only [alleleGroups, List.mem_map] at hg
  obtain ⟨sub, hsub, rfl⟩ := hg
  refine ⟨sub, _, rfl, ?_, by simp⟩
  rw [subgroups_eq]; exact hsub

/-- c. for every emitted group `sub :: outs`: from every other input exactly the records of the
    positional group that pass the test against some member of `sub`, in order -/
theorem others_exact (first : List κ) (others : List (List κ)) {sub : List κ}
    {outs : List (List κ)} (h : sub :: outs ∈ alleleGroups al rel (first :: others)) :
    outs = others.map (fun o => o.filter (shouldAdd al rel sub)) := by
  simp only [alleleGroups, List.mem_map] at h
  obtain ⟨sub', -, heq⟩ := h
  cases heq
  rfl

/-- c. position-wise: the `j`-th emitted group is the `j`-th subgroup with the filtered others -/
theorem alleleGroups_getElem (first : List κ) (others : List (List κ)) (j : Nat)
    (hj : j < (alleleGroups al rel (first :: others)).length) :
    (alleleGroups al rel (first :: others))[j]
      = (partitionFirst al rel first [])[j]'(by simpa [alleleGroups] using hj)
        :: others.map (fun o => o.filter
            (shouldAdd al rel ((partitionFirst al rel first [])[j]'(by simpa [alleleGroups] using hj)))) := by
  simp [alleleGroups]

/-- c. slot-wise: nothing that fails is returned, nothing that passes is omitted, order preserved -/
theorem mem_other_slot_iff (first : List κ) (others : List (List κ)) {sub : List κ}
    {outs : List (List κ)} (h : sub :: outs ∈ alleleGroups al rel (first :: others))
    (i : Nat) (hi : i < others.length) :
    ∃ hi' : i < outs.length,
      outs[i] = others[i].filter (shouldAdd al rel sub) ∧ outs[i].Sublist others[i] ∧
      ∀ y, y ∈ outs[i] ↔ y ∈ others[i] ∧
        ∃ it ∈ sub, al.ref it = al.ref y ∧ rel.test (al.alts it) (al.alts y) = true := by
  have := others_exact al rel first others h
  subst this
  refine ⟨by simpa using hi, by simp, by simp, ?_⟩
  intro y
  simp only [List.getElem_map, List.mem_filter, shouldAdd_iff]

/-! ## (d) the allele relations -/

/-- d. `AlleleRel.test` meets its documentation -/
theorem allele_rel_spec (base other : List Text) :
    (AlleleRel.test .equality base other = true ↔ base = other) ∧
    (AlleleRel.test .intersects base other = true ↔
      (∃ a, a ∈ base ∧ a ∈ other) ∨ base = other) ∧
    (AlleleRel.test .subset base other = true ↔ ∀ a ∈ other, a ∈ base) :=
  ⟨AlleleRel.test_equality base other, AlleleRel.test_intersects base other,
    AlleleRel.test_subset base other⟩

/-- d. so two empty allele lists intersect, and nothing else intersects an empty list -/
theorem intersects_nil (other : List Text) :
    AlleleRel.test .intersects [] other = true ↔ other = [] := by
  rw [AlleleRel.test_intersects]; simp [eq_comm]

/-- d. the relations `Subset` and `Intersects` are set relations on the lists: an allele that a list repeats counts
    once (a homozygous `T/T` call listed as `[T, T]` is contained in `[T]`), whatever the lengths of the lists -/
theorem subset_repeats (base other : List Text) :
    AlleleRel.test .subset base (other ++ other) = AlleleRel.test .subset base other := by
  rw [Bool.eq_iff_iff, AlleleRel.test_subset, AlleleRel.test_subset]
  constructor
  · intro h a ha; exact h a (List.mem_append_left _ ha)
  · intro h a ha; rcases List.mem_append.1 ha with h1 | h1 <;> exact h a h1

theorem subset_longer_list (t : Text) : AlleleRel.test .subset [t] [t, t] = true := by
  rw [AlleleRel.test_subset]; intro a ha; simp at ha ⊢; exact ha

/-! ## (e) all positional groups -/

/-- the positional group has a first slot and that slot is non-empty -/
def FirstNonempty (g : List (List κ)) : Prop := ∃ f others, g = f :: others ∧ f ≠ []

instance (g : List (List κ)) : Decidable (FirstNonempty g) :=
  match g with
  | [] => isFalse (by rintro ⟨f, o, h, -⟩; cases h)
  | [] :: _ => isFalse (by rintro ⟨f, o, h, hne⟩; cases h; exact hne rfl)
  | (x :: f) :: o => isTrue ⟨x :: f, o, rfl, by simp⟩

/-- e. `alleleAll` is `alleleGroups` over exactly the groups whose first slot is non-empty, in
    order -/
theorem alleleAll_eq (groups : List (List (List κ))) :
    alleleAll al rel groups
      = (groups.filter (fun g => decide (FirstNonempty g))).flatMap (alleleGroups al rel) := by
  unfold alleleAll
  congr 1
  apply List.filter_congr
  intro g _
  match g with
  | [] => simp [FirstNonempty]
  | [] :: o => simp [FirstNonempty]
  | (x :: f) :: o => simp [FirstNonempty]

theorem alleleAll_nil : alleleAll al rel ([] : List (List (List κ))) = [] := rfl

/-- e. a positional group without non-empty first slot is skipped -/
theorem alleleAll_cons_skip (g : List (List κ)) (groups : List (List (List κ)))
    (h : ¬ FirstNonempty g) : alleleAll al rel (g :: groups) = alleleAll al rel groups := by
  rw [alleleAll_eq, alleleAll_eq, List.filter_cons_of_neg (by simpa using h)]

/-- e. a positional group with non-empty first slot contributes its groups, in place -/
theorem alleleAll_cons_keep (g : List (List κ)) (groups : List (List (List κ)))
    (h : FirstNonempty g) :
    alleleAll al rel (g :: groups) = alleleGroups al rel g ++ alleleAll al rel groups := by
  rw [alleleAll_eq, alleleAll_eq, List.filter_cons_of_pos (by simpa using h), List.flatMap_cons]

/-- e. ... and that contribution is not empty, so exactly the groups with an empty first slot
    leave no trace in the output -/
theorem alleleGroups_ne_nil (first : List κ) (others : List (List κ)) (hne : first ≠ []) :
    alleleGroups al rel (first :: others) ≠ [] := by
  intro h
  have hp := (first_partition al rel first others).1
  rw [subgroups, h] at hp
  exact hne (by simpa [firstSlots] using hp.symm)

/-- e. a skipped group would have contributed nothing anyway: the filter is redundant -/
theorem alleleAll_eq_flatMap (groups : List (List (List κ))) :
    alleleAll al rel groups = groups.flatMap (alleleGroups al rel) := by
  induction groups with
  | nil => rfl
  | cons g groups ih =>
    by_cases h : FirstNonempty g
    · rw [alleleAll_cons_keep al rel g groups h, ih, List.flatMap_cons]
    · rw [alleleAll_cons_skip al rel g groups h, ih, List.flatMap_cons]
      have : alleleGroups al rel g = [] := by
        match g with
        | [] => rfl
        | [] :: o => simp [alleleGroups, partitionFirst_nil]
        | (x :: f) :: o => exact absurd ⟨x :: f, o, rfl, by simp⟩ h
      rw [this, List.nil_append]

/-- every emitted group has one slot per input of its positional group -/
theorem emitted_length (g : List (List κ)) : ∀ grp ∈ alleleGroups al rel g, grp.length = g.length := by
  match g with
  | [] => simp [alleleGroups]
  | first :: others =>
    intro grp hg
    obtain ⟨sub, outs, rfl, -, hl⟩ := emitted_shape al rel first others grp hg
    simp [hl]

/-! ## non-vacuity -/

section examples

/-- records `(id, reference allele, alternate alleles)` -/
private abbrev Rec := Nat × Text × List Text
private def exAl : AlOps Rec := { ref := fun r => r.2.1, alts := fun r => r.2.2 }
private def r1 : Rec := (1, "A".toList, ["T".toList])
private def r2 : Rec := (2, "A".toList, ["T".toList, "G".toList])
private def r3 : Rec := (3, "A".toList, ["C".toList])
private def r4 : Rec := (4, "G".toList, ["T".toList])
private def r5 : Rec := (5, "A".toList, ["G".toList])
private def o6 : Rec := (6, "A".toList, ["T".toList])
private def o7 : Rec := (7, "A".toList, ["C".toList])
private def o8 : Rec := (8, "C".toList, ["T".toList])

/-- `r5` joins the first subgroup through `r2` (not `r1`); `r3`, `r4` open new subgroups -/
example : alleleGroups exAl .intersects [[r1, r2, r3, r4, r5], [o6, o7, o8]] =
    [[[r1, r2, r5], [o6]], [[r3], [o7]], [[r4], []]] := by rfl

example : subgroups exAl .intersects [r1, r2, r3, r4, r5] [[o6, o7, o8]]
    = [[r1, r2, r5], [r3], [r4]] := by decide

/-- (a) at the concrete group -/
example : ([[r1, r2, r5], [r3], [r4]] : List (List Rec)).flatten.Perm [r1, r2, r3, r4, r5] ∧
    (∀ s ∈ ([[r1, r2, r5], [r3], [r4]] : List (List Rec)), s.Sublist [r1, r2, r3, r4, r5]) := by
  have h := first_partition exAl .intersects [r1, r2, r3, r4, r5] [[o6, o7, o8]]
  have e : subgroups exAl .intersects [r1, r2, r3, r4, r5] [[o6, o7, o8]]
      = [[r1, r2, r5], [r3], [r4]] := by decide
  rw [e] at h
  exact ⟨h.1, h.2.2⟩

/-- (a) `exactly_one` applies: the records are distinct -/
example : ([r1, r2, r3, r4, r5] : List Rec).Nodup := by decide

/-- (b) `r5` (position 2 of the first subgroup) passes against `[r1, r2]` but not against `[r1]` -/
example : shouldAdd exAl .intersects [r1, r2] r5 = true ∧ shouldAdd exAl .intersects [r1] r5 = false := by
  decide

/-- (b) `opens_new_group` for `j = 1`: `r3` arrives after `pre = [r1, r2]`, finds the single
    subgroup `[r1, r2]` and fails against it -/
example : partitionFirst exAl .intersects [r1, r2] [] = [[r1, r2]] ∧
    shouldAdd exAl .intersects [r1, r2] r3 = false := by decide

/-- (c) at the concrete group -/
example : ([o6] : List Rec) = [o6, o7, o8].filter (shouldAdd exAl .intersects [r1, r2, r5]) := by
  decide
example : [[o6]] = [[o6, o7, o8]].map (fun o => o.filter (shouldAdd exAl .intersects [r1, r2, r5])) :=
  others_exact exAl .intersects [r1, r2, r3, r4, r5] [[o6, o7, o8]] (sub := [r1, r2, r5]) (by decide)

/-- (d) the three relations differ -/
example : AlleleRel.test .intersects ["T".toList, "G".toList] ["G".toList, "C".toList] = true ∧
    AlleleRel.test .subset ["T".toList, "G".toList] ["G".toList, "C".toList] = false ∧
    AlleleRel.test .subset ["T".toList, "G".toList] ["G".toList] = true ∧
    AlleleRel.test .equality ["T".toList, "G".toList] ["G".toList] = false ∧
    AlleleRel.test .intersects [] [] = true ∧ AlleleRel.test .intersects [] ["G".toList] = false := by
  decide

/-- with `subset` the partition is different: `r2` (alts T,G) is not covered by `r1` (alts T) -/
example : subgroups exAl .subset [r1, r2, r3, r4, r5] [] = [[r1], [r2, r5], [r3], [r4]] := by decide

/-- (e) the groups with empty first slot (second) or no slot (third) are skipped -/
example : alleleAll exAl .equality [[[r1], [o6, o7]], [[], [o8]], [], [[r3, o7], []]] =
    [[[r1], [o6]], [[r3, o7], []]] := by rfl

example : FirstNonempty [[r1], [o6, o7]] ∧ ¬ FirstNonempty [[], [o8]] ∧
    ¬ FirstNonempty ([] : List (List Rec)) := by decide

end examples

end C12
