/-
  C14, the entry point as it stands in the code (`build_schemes`): duplicate
  annotations are rejected up front, definitions without a base have their own
  `filtered` list applied, then the build loop of `Props/C14.lean` runs.
-/
import MafModel.Props.C14
import MafModel.Generated.SchemeDefs
open Model Py Spec

namespace C14Top

/-- two definitions of one annotation are rejected with an error (ValueError),
    whatever the load order -/
theorem duplicate_annotation_rejected (st : BuildState) (ds : List SchemeDef)
    (h : ¬ (ds.map (·.annotation)).Nodup) : buildSchemesTop st ds = .error .value := by
  simp [buildSchemesTop, h]

theorem mapM_normalize_none (ds : List SchemeDef) (d : SchemeDef) (hd : d ∈ ds)
    (hnone : d.normalize = none) : ds.mapM SchemeDef.normalize = none := by
  induction ds with
  | nil => cases hd
  | cons x xs ih =>
    simp only [List.mapM_cons]
    rcases List.mem_cons.mp hd with rfl | h
    · simp [hnone]
    · cases hx : x.normalize with
      | none => simp
      | some y => simp [ih h]

/-- a filtered column that does not exist in a definition without a base is rejected -/
theorem baseless_missing_filter_rejected (st : BuildState) (ds : List SchemeDef) (d : SchemeDef)
    (hd : d ∈ ds) (hb : d.hasBase = none) (f : List String) (hf : d.filtered = some f)
    (n : String) (hn : n ∈ f) (hmiss : ∀ c ∈ d.columns, c.1 ≠ n) :
    buildSchemesTop st ds = .error .value := by
  unfold buildSchemesTop
  split
  · rfl
  · have hnone : d.normalize = none := by
      simp only [SchemeDef.normalize, hb, hf]
      have : f.any (fun n => !(d.columns.any (fun c => c.1 == n))) = true := by
        simp only [List.any_eq_true]
        refine ⟨n, hn, ?_⟩
        simp only [Bool.not_eq_true', List.any_eq_false, beq_iff_eq]
        intro c hc; exact hmiss c hc
      simp [this]
    have := mapM_normalize_none ds d hd hnone
    simp [this]

/-- definitions that need no normalisation are built by the loop of `Props/C14.lean`,
    so all of its theorems apply to the entry point -/
theorem top_eq_build (st : BuildState) (ds : List SchemeDef)
    (hnd : (ds.map (·.annotation)).Nodup)
    (hflt : ∀ d ∈ ds, d.hasBase = none → d.filtered = none) :
    buildSchemesTop st ds = buildSchemes st ds := by
  have hn : ∀ d ∈ ds, d.normalize = some d := by
    intro d hd
    unfold SchemeDef.normalize
    cases hb : d.hasBase with
    | some b => simp
    | none => simp [hflt d hd hb]
  have hm : ds.mapM SchemeDef.normalize = some ds := by
    clear hnd hflt
    induction ds with
    | nil => rfl
    | cons x xs ih =>
      simp only [List.mapM_cons, hn x (by simp)]
      simp [ih (fun d hd => hn d (by simp [hd]))]
  simp [buildSchemesTop, hnd, hm]

/-- the shipped definitions need no normalisation (re-checked against the generated definitions) -/
theorem generated_top_eq_build :
    (Generated.schemeDefs.map (·.annotation)).Nodup ∧
    ∀ d ∈ Generated.schemeDefs, d.hasBase = none → d.filtered = none := by
  decide +kernel

end C14Top
