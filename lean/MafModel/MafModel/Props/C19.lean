/-
  C19 (reader part) — incrementality: the reader never pulls more than one line beyond the record
  it has just returned.

  `Reader.pulled` counts the pulls from the input iterator (one per `Reader.advance`, including the
  pull that hits `StopIteration`); `At lines r p` (`Lemmas/ReaderLemmas.lean`) says the look-ahead
  of `r` stands at 0-based line `p`: `p + 1` pulls so far, `r.src = lines.drop (p + 1)` are the
  lines not yet pulled, and `r.next` is line `p`.
-/
import MafModel.Lemmas.ReaderLemmas
import MafModel.Lemmas.ReaderExample
open Py Model
namespace C19

variable {C : Ctx} {K : HConsts} {R : Registry} {lines : List Text} {mode : Option Mode}
  {given : Option Scheme} {r r' : Reader}

/-- `pulled` counts exactly the `advance` calls: each call is one pull, and nothing else pulls -/
theorem advance_pulls_one (r : Reader) : r.advance.pulled = r.pulled + 1 ∧ r.advance.src = r.src.tail :=
  ⟨advance_pulled r, advance_src r⟩

/-- **after construction**: the header lines, the column-name line and one look-ahead line have been
    pulled — `k + 2` pulls, or `k + 1` when the input ends with the header block -/
theorem init_lookahead (hinit : Reader.init C K R lines mode given = .ok r) :
    At lines r (min (headerLen K lines + 1) lines.length) ∧
    r.pulled = min (headerLen K lines + 1) lines.length + 1 ∧
    r.pulled ≤ headerLen K lines + 2 := by
  obtain ⟨hd, hlogs, lg, _, _, rfl⟩ := init_ok hinit
  have hat := initReader_at lines (min (headerLen K lines + 1) lines.length) hd
    (schemeOf K R lines given hd) (hd.errors ++ initErrorsOf K R lines given hd) (modeOrSilent mode)
    (hlogs ++ initWarn (modeOrSilent mode) (colNamesOf K lines) (initSch1 (hd.scheme K R) given) ++ lg)
  refine ⟨hat, hat.pulled, ?_⟩
  rw [hat.pulled]; omega

/-- **each successful `__next__` pulls exactly one more line**: the record returned is line `p`,
    the look-ahead moves to line `p + 1` -/
theorem next_pulls_one {p : Nat} {rec : Record} (hat : At lines r p)
    (h : r.nextRecord C = .ok (some (rec, r'))) :
    At lines r' (p + 1) ∧ r'.pulled = r.pulled + 1 ∧ r.next = (stripped lines)[p]? ∧ p < lines.length := by
  obtain ⟨l, prec, lg, hn, _, _, _, rfl⟩ := nextRecord_ok h
  have ha := hat.advance
  refine ⟨⟨by simpa using ha.pulled, by simpa using ha.src, by simpa using ha.lineNo,
    by simpa using ha.next⟩, by simp, hat.next, ?_⟩
  have := hat.next
  rw [hn] at this
  have := (List.getElem?_eq_some_iff.1 this.symm).1
  simpa using this

/-- `StopIteration`, or an exception, pulls nothing (`__next__` returns no new reader state) -/
theorem next_end_pulls_nothing (h : r.next = none) : r.nextRecord C = .ok none := nextRecord_none h

/-- `n` successful calls of `__next__` in a row -/
def nextN (C : Ctx) : Nat → Reader → Option Reader
  | 0, r => some r
  | n + 1, r =>
    match r.nextRecord C with
    | .ok (some (_, r')) => nextN C n r'
    | _ => none

theorem nextN_at : ∀ (n : Nat) (p : Nat) (r rn : Reader), At lines r p → nextN C n r = some rn →
    At lines rn (p + n) ∧ rn.pulled = r.pulled + n ∧ (0 < n → p + n ≤ lines.length) := by
  intro n
  induction n with
  | zero =>
    intro p r rn hat h
    simp only [nextN, Option.some.injEq] at h
    subst h
    exact ⟨hat, rfl, fun h => absurd h (Nat.lt_irrefl 0)⟩
  | succ n ih =>
    intro p r rn hat h
    simp only [nextN] at h
    split at h
    · rename_i rec r' hnr
      obtain ⟨hat', hp', _, hlt⟩ := next_pulls_one hat hnr
      obtain ⟨a, b, c⟩ := ih (p + 1) r' rn hat' h
      refine ⟨by rw [show p + (n + 1) = p + 1 + n by omega]; exact a, by rw [b, hp']; omega, fun _ => ?_⟩
      by_cases hn : 0 < n
      · have := c hn; omega
      · omega
    · cases h

/-- **C19 (reader look-ahead).**  After construction and `n` successful `__next__` calls the reader
    has pulled exactly `min (k+1) |lines| + 1 + n ≤ (k + 1) + n + 1` lines: the `k` header lines,
    the column-name line, the `n` data lines it has returned — and ONE line beyond the record it
    has just returned.  It never pulls past the end of the input more than once
    (`pulled ≤ |lines| + 1`), and what it has not pulled is still in the source
    (`src = lines.drop pulled`). -/
theorem reader_lookahead (hinit : Reader.init C K R lines mode given = .ok r) {n : Nat} {rn : Reader}
    (hn : nextN C n r = some rn) :
    rn.pulled = min (headerLen K lines + 1) lines.length + 1 + n ∧
    rn.pulled ≤ (headerLen K lines + 1) + n + 1 ∧
    rn.pulled ≤ lines.length + 1 ∧
    rn.src = lines.drop rn.pulled ∧
    rn.src.length + min rn.pulled lines.length = lines.length := by
  obtain ⟨hat, hp, _⟩ := init_lookahead hinit
  obtain ⟨a, b, c⟩ := nextN_at n _ r rn hat hn
  have hk := headerLen_le K lines
  refine ⟨by rw [b, hp], by rw [b, hp]; omega, ?_, by rw [a.src, a.pulled], a.src_length⟩
  rw [b, hp]
  by_cases h0 : 0 < n
  · have := c h0; omega
  · have : n = 0 := by omega
    subst this; omega

/-- the same for the whole-file iteration: when `readAll` stops — end of input, exception, or order
    violation — having returned `recs`, the reader has pulled at most the header, the column-name
    line, the records returned, the record the order checker refused (if that is what stopped it),
    and one look-ahead line -/
theorem readAll_lookahead (hinit : Reader.init C K R lines mode given = .ok r) :
    (r.readAll C K).2.2.pulled ≤ (headerLen K lines + 1) + ((r.readAll C K).1.length + 1) + 1 ∧
    (r.readAll C K).2.2.pulled ≤ lines.length + 1 ∧
    (r.readAll C K).2.2.src = lines.drop (r.readAll C K).2.2.pulled := by
  obtain ⟨hat, _, _⟩ := init_lookahead hinit
  obtain ⟨j, hst, _, h2, _⟩ := readAll_spec (C := C) hat
  have hk := headerLen_le K lines
  have hj := hst.le
  simp only [dataLines, List.length_drop, stripped_length] at hj
  refine ⟨by rw [hst.pos.pulled]; omega, by rw [hst.pos.pulled]; omega, by rw [hst.pos.src, hst.pos.pulled]⟩

/-! ### non-vacuity -/
section examples
open Model.ReaderExample

/-- the five-line example: after construction 4 lines are pulled (2 header lines, the column names,
    one look-ahead); then two records can be read, each pulling one more line — `nextN 2` succeeds
    and `reader_lookahead` applies with `n = 2`: 6 pulls for 5 lines (the last one hit the end) -/
example : ∃ r rn, Reader.init exC exK exR exLines (some .silent) none = .ok r ∧ r.pulled = 4 ∧
    headerLen exK exLines = 2 ∧ nextN exC 2 r = some rn ∧ rn.pulled = 6 := by
  obtain ⟨r, hr, hf⟩ := exists_ok_of_map (x := Reader.init exC exK exR exLines (some .silent) none)
    (f := fun r => (r.pulled, r.mode)) (b := (4, .silent)) (by decide)
  simp only [Prod.mk.injEq] at hf
  obtain ⟨hat, _, _⟩ := init_lookahead hr
  have hinv := init_schemeInv hr (by intro g h; cases h) (by intro s h; cases h)
  have hk : min (headerLen exK exLines + 1) exLines.length = 3 := by decide
  rw [hk] at hat
  -- first record: line 3 (0-based) is there
  have hn1 : r.next = some "chr1\t10\t20".toList := by rw [hat.next]; decide
  obtain ⟨rec1, r1, h1, hinv1, hm1⟩ := nextRecord_total (C := exC) (by rw [hf.2]; decide) hinv hn1
  obtain ⟨hat1, hp1, _, _⟩ := next_pulls_one hat h1
  -- second record: line 4
  have hn2 : r1.next = some "chr2\t5".toList := by rw [hat1.next]; decide
  obtain ⟨rec2, r2, h2, _, _⟩ := nextRecord_total (C := exC) (by rw [hm1, hf.2]; decide) hinv1 hn2
  obtain ⟨_, hp2, _, _⟩ := next_pulls_one hat1 h2
  refine ⟨r, r2, hr, hf.1, by decide, ?_, by rw [hp2, hp1, hf.1]⟩
  simp only [nextN, h1, h2]

end examples

end C19
