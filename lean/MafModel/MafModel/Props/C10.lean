/-
  C10 — a sorting writer obeys its own header: the records it emits are accepted by the order
  checker of a reader that uses the same sort order and contig list.

  Model: the sorting writer pushes every record into the external sorter (`Model.sortAll`,
  `MafModel/Model/Sorter.lean`) whose comparison is the `<` of the records' sort keys, `recLt`:

      recLt o cs a b := match mkKey o cs a, mkKey o cs b with
                        | .ok ka, .ok kb => keyLt ka kb == .ok true
                        | _, _ => false

  and the reader feeds what it reads to `Model.checkAll` (`MafModel/Model/SortOrder.lean`).

  * `Good o cs r`: `r` is well-formed (`Loc.WF`) and keyable (`mkKey o cs r = .ok _`).
  a. `lt_total`, `lt_trans` : on good records `le a b := !recLt b a` is total and transitive —
     the hypotheses C07 needs — from C08.  (They FAIL on arbitrary records: an unkeyable record is
     "equal" to everything, see the counterexample `trans_fails_without_good`; this is why the
     proof restricts the sorter to the subtype of good records, `SorterLemmas.sortAll_map`.)
  b. `own_reader_accepts` : for a sortable order, every `cap ≥ 1`, both spill policies and every
     list of good records, the checker yields the whole sorter output and reports no error;
     `own_reader_yields_all` adds that this output is a permutation of the records written.
  c. `unsorted_order_preserved` : a non-sorting writer writes the records in call order
     (definitional on the tiny writer model `writeAll`); `sorting_writer_accepted` restates (b)
     on that model and `unsorted_writer_accepted` is the matching fact for non-sortable orders.

  Everything is proved in full; nothing is partial.
-/
import MafModel.Props.C07
import MafModel.Props.C09
import MafModel.Lemmas.SorterMapLemmas

open Py Model

namespace C10

/-- the comparison of the sorting writer: `<` on the sort keys (of the same order and contigs) -/
def recLt (o : Order) (cs : List Text) (a b : Loc) : Bool :=
  match mkKey o cs a, mkKey o cs b with
  | .ok ka, .ok kb => (keyLt ka kb == .ok true)
  | _, _ => false

/-- a record the sorting writer can handle: well-formed and keyable -/
def Good (o : Order) (cs : List Text) (r : Loc) : Prop := r.WF ∧ ∃ k, mkKey o cs r = .ok k

variable {o : Order} {cs : List Text}

/-- the key of a good record is `Loc.key`, and it satisfies the kind invariant -/
theorem Good.key {r : Loc} (h : Good o cs r) :
    mkKey o cs r = .ok (r.key o cs) ∧ KeyInv (!cs.isEmpty) (r.key o cs) := by
  obtain ⟨hwf, k, hk⟩ := h
  obtain ⟨-, rfl⟩ := (mkKey_ok_iff hwf).1 hk
  exact ⟨hk, mkKey_inv hwf hk⟩

/-- on good records `recLt` is the sign test of the keys' comparison -/
theorem recLt_eq {a b : Loc} (ha : Good o cs a) (hb : Good o cs b) :
    recLt o cs a b = decide (Key.cmp (a.key o cs) (b.key o cs) < 0) := by
  unfold recLt
  rw [ha.key.1, hb.key.1]
  simp only
  rw [(ops_of_cmpKey (cmpKey_eq_cmp (ha.key.2.compat hb.key.2))).1]
  cases decide (Key.cmp (a.key o cs) (b.key o cs) < 0) <;> rfl

/-- "not `b < a`" is the operator `a ≤ b` on the keys -/
theorem not_recLt_iff_keyLe {a b : Loc} (ha : Good o cs a) (hb : Good o cs b) :
    (!recLt o cs b a) = true ↔ keyLe (a.key o cs) (b.key o cs) = .ok true := by
  rw [recLt_eq hb ha, C08.keyLe_iff_inv ha.key.2 hb.key.2, Key.cmp_swap (a.key o cs) (b.key o cs)]
  simp only [Bool.not_eq_true', decide_eq_false_iff_not]
  omega

/-! ## (a) `recLt` is a strict weak order on good records -/

/-- a. totality of `le a b := !recLt b a` -/
theorem lt_total {a b : Loc} (ha : Good o cs a) (hb : Good o cs b) :
    (!recLt o cs b a) = true ∨ (!recLt o cs a b) = true := by
  rw [recLt_eq hb ha, recLt_eq ha hb, Key.cmp_swap (a.key o cs) (b.key o cs)]
  simp only [Bool.not_eq_true', decide_eq_false_iff_not]
  omega

/-- a. transitivity of `le a b := !recLt b a` -/
theorem lt_trans {a b c : Loc} (ha : Good o cs a) (hb : Good o cs b) (hc : Good o cs c) :
    (!recLt o cs b a) = true → (!recLt o cs c b) = true → (!recLt o cs c a) = true := by
  rw [not_recLt_iff_keyLe ha hb, not_recLt_iff_keyLe hb hc, not_recLt_iff_keyLe ha hc]
  exact C08.le_trans_inv ha.key.2 hb.key.2 hc.key.2

/-- a. irreflexivity and asymmetry (so `recLt` is the strict part of a total preorder) -/
theorem lt_irrefl {a : Loc} (ha : Good o cs a) : recLt o cs a a = false := by
  rw [recLt_eq ha ha, Key.cmp_self]; rfl

theorem lt_asymm {a b : Loc} (ha : Good o cs a) (hb : Good o cs b)
    (h : recLt o cs a b = true) : recLt o cs b a = false := by
  rw [recLt_eq ha hb] at h
  rw [recLt_eq hb ha, Key.cmp_swap (a.key o cs) (b.key o cs)]
  simp only [decide_eq_true_eq] at h
  simp only [decide_eq_false_iff_not]
  omega

/-- the restriction to good records matters: with an unkeyable record in the middle,
    transitivity of `!recLt · ·` fails (so C07 cannot be applied to `recLt` on all of `Loc`) -/
theorem trans_fails_without_good :
    ∃ a b c : Loc, (!recLt .coordinate [] b a) = true ∧ (!recLt .coordinate [] c b) = true ∧
      (!recLt .coordinate [] c a) = false :=
  ⟨{ chr := .str "1".toList, start := .int 5, stop := .int 6 }, { hasCoords := false },
   { chr := .str "1".toList, start := .int 1, stop := .int 2 }, by decide, by decide, by decide⟩

/-! ## (b) the sorter's output passes the checker -/

/-- the good records as a type, and the comparison on it -/
abbrev GoodLoc (o : Order) (cs : List Text) : Type := { r : Loc // Good o cs r }

/-- a list of good records sorted for `recLt` is yielded completely by the checker -/
theorem checkAll_of_sorted (hs : o.sortable = true) {l : List Loc} (hg : ∀ r ∈ l, Good o cs r)
    (hsorted : l.Pairwise (fun a b => (!recLt o cs b a) = true)) :
    checkAll { order := o, contigs := cs } l = (l, none) := by
  have hk : Keyed o cs l (l.map (Loc.key o cs)) := by
    clear hsorted
    induction l with
    | nil => trivial
    | cons r l ih =>
      exact ⟨(hg r (by simp)).key.1, ih (fun r hr => hg r (by simp [hr]))⟩
  rw [C09.all_iff_pairwise_le (c := { order := o, contigs := cs }) hs rfl
    (fun r hr => (hg r hr).1) hk, List.pairwise_map]
  exact hsorted.imp_of_mem (fun {a b} ha hb h => (not_recLt_iff_keyLe (hg a ha) (hg b hb)).1 h)

/-- the sorter's output on good records: all good, and sorted for `recLt` -/
theorem sortAll_good_sorted {rs : List Loc} (hg : ∀ r ∈ rs, Good o cs r)
    (cap : Nat) (hcap : 1 ≤ cap) (sp : Bool) :
    (∀ r ∈ sortAll (recLt o cs) cap sp rs, Good o cs r) ∧
    (sortAll (recLt o cs) cap sp rs).Pairwise (fun a b => (!recLt o cs b a) = true) := by
  -- move to the subtype of good records, where C07 applies
  have hrs : (rs.attachWith (Good o cs) hg).map Subtype.val = rs := by
    rw [← List.unattach, List.unattach_attachWith]
  have hmap := SorterLemmas.sortAll_map (recLt o cs) (Subtype.val : GoodLoc o cs → Loc) cap sp
    (rs.attachWith (Good o cs) hg)
  rw [hrs] at hmap
  have hsorted := C07.sorted (SorterLemmas.comapLt (recLt o cs) (Subtype.val : GoodLoc o cs → Loc))
    (fun a b => lt_total a.2 b.2) (fun a b c => lt_trans a.2 b.2 c.2) cap hcap sp
    (rs.attachWith (Good o cs) hg)
  rw [hmap]
  constructor
  · intro r hr
    obtain ⟨g, -, rfl⟩ := List.mem_map.1 hr
    exact g.2
  · rw [List.pairwise_map]
    exact hsorted

/-- b. MAIN: what a sorting writer emits is accepted by a reader using the same order and contig
    list: the library's own order checker iterates to the end and yields every emitted record. -/
theorem own_reader_accepts (o : Order) (hs : o.sortable = true) (cs : List Text) (rs : List Loc)
    (hwf : ∀ r ∈ rs, r.WF) (hkey : ∀ r ∈ rs, ∃ k, mkKey o cs r = .ok k)
    (cap : Nat) (hcap : 1 ≤ cap) (sp : Bool) :
    checkAll { order := o, contigs := cs } (sortAll (recLt o cs) cap sp rs)
      = (sortAll (recLt o cs) cap sp rs, none) := by
  have h := sortAll_good_sorted (o := o) (cs := cs) (rs := rs)
    (fun r hr => ⟨hwf r hr, hkey r hr⟩) cap hcap sp
  exact checkAll_of_sorted hs h.1 h.2

/-- b. ... and what the reader yields is every written record exactly once -/
theorem own_reader_yields_all (o : Order) (hs : o.sortable = true) (cs : List Text) (rs : List Loc)
    (hwf : ∀ r ∈ rs, r.WF) (hkey : ∀ r ∈ rs, ∃ k, mkKey o cs r = .ok k)
    (cap : Nat) (hcap : 1 ≤ cap) (sp : Bool) :
    (checkAll { order := o, contigs := cs } (sortAll (recLt o cs) cap sp rs)).2 = none ∧
    (checkAll { order := o, contigs := cs } (sortAll (recLt o cs) cap sp rs)).1.Perm rs := by
  rw [own_reader_accepts o hs cs rs hwf hkey cap hcap sp]
  exact ⟨rfl, C07.perm _ cap hcap sp rs⟩

/-- b. the keys of the emitted records are non-decreasing for the operator `≤` -/
theorem emitted_keys_sorted (o : Order) (cs : List Text) (rs : List Loc)
    (hwf : ∀ r ∈ rs, r.WF) (hkey : ∀ r ∈ rs, ∃ k, mkKey o cs r = .ok k)
    (cap : Nat) (hcap : 1 ≤ cap) (sp : Bool) :
    ((sortAll (recLt o cs) cap sp rs).map (Loc.key o cs)).Pairwise
      (fun a b => keyLe a b = .ok true) := by
  have h := sortAll_good_sorted (o := o) (cs := cs) (rs := rs)
    (fun r hr => ⟨hwf r hr, hkey r hr⟩) cap hcap sp
  rw [List.pairwise_map]
  exact h.2.imp_of_mem (fun {a b} ha hb h' => (not_recLt_iff_keyLe (h.1 a ha) (h.1 b hb)).1 h')

/-- keyability from an explicit (decidable) key list -/
theorem keyable_of_keyed {rs : List Loc} {ks : List Key} (h : Keyed o cs rs ks) :
    ∀ r ∈ rs, ∃ k, mkKey o cs r = .ok k := by
  induction rs generalizing ks with
  | nil => simp
  | cons r rs ih =>
    cases ks with
    | nil => exact h.elim
    | cons k ks =>
      intro r' hr'
      rcases List.mem_cons.1 hr' with rfl | hr'
      · exact ⟨k, h.1⟩
      · exact ih h.2 r' hr'

/-! ## (c) a tiny writer model -/

/-- what a writer puts in the file for the records passed to `+=`, in order: a sorting writer
    routes them through the sorter, a non-sorting writer writes them as they come -/
def writeAll (sorting : Bool) (o : Order) (cs : List Text) (cap : Nat) (sp : Bool)
    (rs : List Loc) : List Loc :=
  if sorting then sortAll (recLt o cs) cap sp rs else rs

/-- c. a non-sorting writer writes the records in call order (definitional) -/
theorem unsorted_order_preserved (o : Order) (cs : List Text) (cap : Nat) (sp : Bool)
    (rs : List Loc) : writeAll (sorting := false) o cs cap sp rs = rs := rfl

/-- b. on the writer model: the output of a sorting writer is accepted by its own reader -/
theorem sorting_writer_accepted (o : Order) (hs : o.sortable = true) (cs : List Text)
    (rs : List Loc) (hwf : ∀ r ∈ rs, r.WF) (hkey : ∀ r ∈ rs, ∃ k, mkKey o cs r = .ok k)
    (cap : Nat) (hcap : 1 ≤ cap) (sp : Bool) :
    checkAll { order := o, contigs := cs } (writeAll true o cs cap sp rs)
      = (writeAll true o cs cap sp rs, none) ∧
    (writeAll true o cs cap sp rs).Perm rs :=
  ⟨own_reader_accepts o hs cs rs hwf hkey cap hcap sp, C07.perm _ cap hcap sp rs⟩

/-- c. the output of a non-sorting writer whose header declares a non-sortable order
    (`Unknown`/`Unsorted`) is accepted by its reader whatever the records are -/
theorem unsorted_writer_accepted (o : Order) (hs : o.sortable = false) (cs : List Text)
    (cap : Nat) (sp : Bool) (rs : List Loc) :
    checkAll { order := o, contigs := cs } (writeAll false o cs cap sp rs) = (rs, none) :=
  C09.unsorted_never _ hs rs

/-! ## non-vacuity -/

section examples

private def cs0 : List Text := ["chr1".toList, "chr2".toList]
private def l1 : Loc := { chr := .str "chr1".toList, start := .int 5, stop := .int 9 }
private def l2 : Loc := { chr := .str "chr1".toList, start := .str "10".toList, stop := .int 12 }
private def l3 : Loc := { chr := .str "chr2".toList, start := .int 1, stop := .int 2 }
private def k1 : Key := { chr := .int 0, start := .int 5, stop := .int 9 }
private def k2 : Key := { chr := .int 0, start := .int 10, stop := .int 12 }
private def k3 : Key := { chr := .int 1, start := .int 1, stop := .int 2 }

/-- the hypotheses of `own_reader_accepts` are met by a concrete unsorted input -/
example : Order.coordinate.sortable = true ∧ (∀ r ∈ [l3, l2, l1, l2], r.WF) ∧
    Keyed .coordinate cs0 [l3, l2, l1, l2] [k3, k2, k1, k2] := by decide

example (cap : Nat) (hcap : 1 ≤ cap) (sp : Bool) :
    checkAll { order := .coordinate, contigs := cs0 }
        (sortAll (recLt .coordinate cs0) cap sp [l3, l2, l1, l2])
      = (sortAll (recLt .coordinate cs0) cap sp [l3, l2, l1, l2], none) :=
  own_reader_accepts .coordinate rfl cs0 _ (by decide)
    (keyable_of_keyed (ks := [k3, k2, k1, k2]) (by decide)) cap hcap sp

/-- the input itself is NOT accepted (so the sorter did something) -/
example : checkAll { order := .coordinate, contigs := cs0 } [l3, l2, l1, l2]
    = ([l3], some .value) := by decide

/-- the comparison on these records: `l1 < l2 < l3`, the text position "10" read as a number -/
example : recLt .coordinate cs0 l1 l2 = true ∧ recLt .coordinate cs0 l2 l3 = true ∧
    recLt .coordinate cs0 l2 l1 = false ∧ recLt .coordinate cs0 l2 l2 = false := by decide

example : Good .coordinate cs0 l2 := ⟨by decide, k2, by decide⟩

end examples

end C10
