/-
  C05 — Public and masked schemes never let germline information through.

  Field-level theorems over the generated definitions: in every public/masked
  layout (recognised from the definitions: a definition that redefines columns
  with `RequireNullValue`) the six germline columns have a type whose domain is
  exactly the null spelling, the operational model rejects (never exposes) any
  other text, and the protected-only VCF columns are absent from public layouts.
-/
import MafModel.Props.C01
open Model Py Spec

namespace C05

def germline6 : List String :=
  ["Match_Norm_Seq_Allele1", "Match_Norm_Seq_Allele2", "Match_Norm_Validation_Allele1",
   "Match_Norm_Validation_Allele2", "n_ref_count", "n_alt_count"]

def vcfOnly : List String := ["vcf_region", "vcf_info", "vcf_format", "vcf_tumor_gt", "vcf_normal_gt"]

/-- public/masked definitions, recognised from the generated definitions -/
def maskedDefs : List SchemeDef :=
  Generated.schemeDefs.filter (fun d => d.columns.any (fun c => c.2 == "RequireNullValue"))

def isMaskedType : Option ColType → Bool
  | some (.mixed "RequireNullValue" (.named b)) => Builtin.maskable.contains b
  | _ => false

/-- there are four public/masked layouts (tie to the generated definitions) -/
theorem four_masked_layouts : maskedDefs.map (·.annotation) =
    ["gdc-1.0.0-aliquot-merged-masked", "gdc-1.0.0-public", "gdc-1.0.1-public",
     "gdc-2.0.0-aliquot-merged-masked"] := by decide +kernel

/-- in each of them, each of the six germline columns is a `RequireNullValue`
    redefinition of a maskable type (so dropping an override line, a `filtered`
    entry swallowing one, or a changed base type breaks this obligation) -/
theorem germline_columns_masked :
    maskedDefs.all (fun d => match layoutOf Generated.schemeDefs d.annotation with
      | some L => germline6.all (fun c => isMaskedType (L.typeOf c))
      | none => false) = true := by decide +kernel

/-- the documented domain of a masked column is exactly its null spelling -/
theorem masked_domain (S : SCtx) (b : String) (hb : b ∈ Builtin.maskable) (t : Text) :
    inDomain S (.mixed "RequireNullValue" (.named b)) t = decide (t = []) := by
  simp only [Builtin.maskable, List.mem_cons, List.mem_nil_iff, or_false] at hb
  rcases hb with rfl | rfl <;>
    by_cases ht : t = [] <;>
    simp [inDomain, specBuild, namedBuild, nullOr, namedNulls, baseName, lookupName, capEnums, ht, intAtLeast] <;>
    (repeat (split <;> simp_all))

/-- **Strict rejects / non-strict never exposes**: any text other than the null
    spelling placed in a masked column is rejected by the operational model —
    no column object is kept, whatever the text and whether or not it is valid
    for the underlying protected type. -/
theorem masked_never_exposed (C : Ctx) (b : String) (hb : b ∈ Builtin.maskable) (sp : ColSpec) (t : Text)
    (h : Builtin.expectedOf (.mixed "RequireNullValue" (.named b)) = some sp) (ht : t ≠ []) :
    sp.accept C false t = none := by
  apply C01.field_reject C _ sp t h
  rw [masked_domain _ b hb t]
  simp [ht]

/-- the only accepted text carries the null value -/
theorem masked_accepts_null_only (C : Ctx) (b : String) (hb : b ∈ Builtin.maskable) (sp : ColSpec) (t : Text) (v : PyVal)
    (h : Builtin.expectedOf (.mixed "RequireNullValue" (.named b)) = some sp)
    (hv : sp.accept C false t = some v) : t = [] ∧ v = .atom .none := by
  by_cases ht : t = []
  · subst ht
    rw [C01.field_accept_eq_spec C _ sp [] h] at hv
    simp only [Builtin.maskable, List.mem_cons, List.mem_nil_iff, or_false] at hb
    rcases hb with rfl | rfl <;>
      simp [specBuild, namedBuild, nullOr, namedNulls, baseName, lookupName, capEnums] at hv <;>
      exact ⟨rfl, hv.symm⟩
  · rw [masked_never_exposed C b hb sp t h ht] at hv
    simp at hv

/-- field-level non-interference: two lines that differ only in non-null texts at
    masked positions give the same (empty) result at those positions, so nothing
    of the offending text survives in the record -/
theorem masked_noninterference (C : Ctx) (b : String) (hb : b ∈ Builtin.maskable) (sp : ColSpec) (t₁ t₂ : Text)
    (h : Builtin.expectedOf (.mixed "RequireNullValue" (.named b)) = some sp) (h1 : t₁ ≠ []) (h2 : t₂ ≠ []) :
    sp.accept C false t₁ = sp.accept C false t₂ := by
  rw [masked_never_exposed C b hb sp t₁ h h1, masked_never_exposed C b hb sp t₂ h h2]

/-- the protected-only VCF columns are absent from the public layouts -/
theorem vcf_absent_from_public :
    (Generated.schemeDefs.filter (fun d => d.annotation.endsWith "-public")).all (fun d =>
      match layoutOf Generated.schemeDefs d.annotation with
      | some L => vcfOnly.all (fun c => (L.typeOf c).isNone) && !L.isEmpty
      | none => false) = true := by decide +kernel

/-! non-vacuity -/
example : "NullableDnaString" ∈ Builtin.maskable := by decide
example : (Generated.schemeDefs.filter (fun d => d.annotation.endsWith "-public")).length = 2 := by decide +kernel
example : inDomain ⟨Generated.enums, ⟨fun _ => none⟩⟩ (.mixed "RequireNullValue" (.named "NullableZeroBasedIntegerColumn")) "17".toList = false := by decide
example : inDomain ⟨Generated.enums, ⟨fun _ => none⟩⟩ (.named "NullableZeroBasedIntegerColumn") "17".toList = true := by decide

end C05
