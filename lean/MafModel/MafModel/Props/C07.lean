/-
  C07 — the external sorter (`maflib/sorter.py`, model `MafModel/Model/Sorter.lean`).

  For every item type `α` and every key comparison `lt : α → α → Bool` whose
  derived `le a b := !lt b a` is TOTAL and TRANSITIVE (the key totally
  preorders the items), every capacity `cap ≥ 1`, both spill policies and every
  input list, iterating the sorter yields every added item exactly once, in
  non-decreasing key order, and the key sequence is independent of capacity,
  spill policy and insertion order.

  `cap ≥ 1` is an explicit hypothesis everywhere: the Python code raises
  `IndexError` for `cap = 0`, so that case is outside the specification.

  The state-machine invariants at the end are the sorter part of C19.
-/
import MafModel.Lemmas.SorterLemmas

namespace C07
open Model SorterLemmas

variable {α : Type}

/-! ## 4. the k-way merge -/

/-- merging any chunks with enough fuel yields a permutation of their concatenation
    (no hypothesis on `lt` or on the chunks is needed) -/
theorem mergeK_perm (lt : α → α → Bool) (fuel : Nat) (cs : List (List α))
    (hfuel : totalLen cs ≤ fuel) :
    (mergeK lt fuel cs).Perm cs.flatten :=
  SorterLemmas.mergeK_perm lt fuel cs hfuel

/-- merging sorted chunks with enough fuel yields a sorted list -/
theorem mergeK_sorted (lt : α → α → Bool)
    (total : ∀ a b, !lt b a ∨ !lt a b)
    (trans : ∀ a b c, !lt b a → !lt c b → !lt c a)
    (fuel : Nat) (cs : List (List α))
    (hcs : ∀ c ∈ cs, c.Pairwise (fun a b => !lt b a))
    (hfuel : totalLen cs ≤ fuel) :
    (mergeK lt fuel cs).Pairwise (fun a b => !lt b a) :=
  SorterLemmas.mergeK_sorted total trans fuel cs hcs hfuel

/-! ## 5. invariants of the `add` state machine (used by C19) -/

theorem stash_lt_cap (lt : α → α → Bool) (cap : Nat) (hcap : 1 ≤ cap) (sp : Bool)
    (xs : List α) :
    (xs.foldl (Sorter.add lt) { cap := cap, alwaysSpill := sp }).stash.length < cap :=
  (inv_run lt hcap sp xs).stash_lt

theorem count (lt : α → α → Bool) (cap : Nat) (hcap : 1 ≤ cap) (sp : Bool) (xs : List α) :
    totalLen (xs.foldl (Sorter.add lt) { cap := cap, alwaysSpill := sp }).files
      + (xs.foldl (Sorter.add lt) { cap := cap, alwaysSpill := sp }).stash.length
      = xs.length := by
  have h := (inv_run lt hcap sp xs).content.length_eq
  rw [List.length_append, ← totalLen_eq_length_flatten] at h
  exact h

/-- every spilled chunk is sorted and full -/
theorem files_sorted (lt : α → α → Bool)
    (total : ∀ a b, !lt b a ∨ !lt a b)
    (trans : ∀ a b c, !lt b a → !lt c b → !lt c a)
    (cap : Nat) (hcap : 1 ≤ cap) (sp : Bool) (xs : List α) :
    ∀ f ∈ (xs.foldl (Sorter.add lt) { cap := cap, alwaysSpill := sp }).files,
      f.Pairwise (fun a b => !lt b a) ∧ f.length = cap := by
  intro f hf
  have inv := inv_run lt hcap sp xs
  obtain ⟨l, rfl⟩ := inv.files_chunk f hf
  exact ⟨sortChunk_sorted total trans l, inv.files_len _ hf⟩

/-- every spilled chunk is full (needs no hypothesis on `lt`) -/
theorem files_full (lt : α → α → Bool) (cap : Nat) (hcap : 1 ≤ cap) (sp : Bool) (xs : List α) :
    ∀ f ∈ (xs.foldl (Sorter.add lt) { cap := cap, alwaysSpill := sp }).files,
      f.length = cap :=
  (inv_run lt hcap sp xs).files_len

theorem spilled_all_but_fewer_than_cap (lt : α → α → Bool) (cap : Nat) (hcap : 1 ≤ cap)
    (sp : Bool) (xs : List α) :
    xs.length - totalLen (xs.foldl (Sorter.add lt) { cap := cap, alwaysSpill := sp }).files
      < cap := by
  have h1 := count lt cap hcap sp xs
  have h2 := stash_lt_cap lt cap hcap sp xs
  omega

/-- `add` never changes the configuration -/
theorem config_preserved (lt : α → α → Bool) (cap : Nat) (hcap : 1 ≤ cap) (sp : Bool)
    (xs : List α) :
    (xs.foldl (Sorter.add lt) { cap := cap, alwaysSpill := sp }).cap = cap ∧
    (xs.foldl (Sorter.add lt) { cap := cap, alwaysSpill := sp }).alwaysSpill = sp :=
  ⟨(inv_run lt hcap sp xs).cap_eq, (inv_run lt hcap sp xs).sp_eq⟩

/-- the spilled chunks and the stash together hold exactly the added items -/
theorem content (lt : α → α → Bool) (cap : Nat) (hcap : 1 ≤ cap) (sp : Bool) (xs : List α) :
    ((xs.foldl (Sorter.add lt) { cap := cap, alwaysSpill := sp }).files.flatten
      ++ (xs.foldl (Sorter.add lt) { cap := cap, alwaysSpill := sp }).stash).Perm xs :=
  (inv_run lt hcap sp xs).content

/-- exact shape: `⌊n / cap⌋` spilled chunks and `n % cap` stashed items -/
theorem files_count_and_stash_size (lt : α → α → Bool) (cap : Nat) (hcap : 1 ≤ cap) (sp : Bool)
    (xs : List α) :
    (xs.foldl (Sorter.add lt) { cap := cap, alwaysSpill := sp }).files.length = xs.length / cap ∧
    (xs.foldl (Sorter.add lt) { cap := cap, alwaysSpill := sp }).stash.length
      = xs.length % cap := by
  have h1 := count lt cap hcap sp xs
  have h2 := stash_lt_cap lt cap hcap sp xs
  have h3 := totalLen_of_forall_length (files_full lt cap hcap sp xs)
  generalize (xs.foldl (Sorter.add lt) { cap := cap, alwaysSpill := sp }) = s at h1 h2 h3 ⊢
  rw [h3] at h1
  rw [← h1, Nat.mul_comm]
  constructor
  · rw [Nat.mul_add_div (by omega), Nat.div_eq_of_lt h2, Nat.add_zero]
  · rw [Nat.mul_add_mod, Nat.mod_eq_of_lt h2]

/-! ## 1–3. the sorter as a whole -/

/-- 1. every added item comes out exactly once -/
theorem perm (lt : α → α → Bool) (cap : Nat) (hcap : 1 ≤ cap) (sp : Bool) (xs : List α) :
    (sortAll lt cap sp xs).Perm xs := by
  rw [sortAll_eq]
  exact (iter_perm lt _).trans (inv_run lt hcap sp xs).content

/-- 2. the output is in non-decreasing key order -/
theorem sorted (lt : α → α → Bool)
    (total : ∀ a b, !lt b a ∨ !lt a b)
    (trans : ∀ a b c, !lt b a → !lt c b → !lt c a)
    (cap : Nat) (hcap : 1 ≤ cap) (sp : Bool) (xs : List α) :
    (sortAll lt cap sp xs).Pairwise (fun a b => !lt b a) := by
  rw [sortAll_eq]
  exact iter_sorted total trans _
    (fun f hf => (files_sorted lt total trans cap hcap sp xs f hf).1)

/-- two sorted permutations of one multiset are pointwise key-equivalent -/
theorem sorted_perm_keys_eq (lt : α → α → Bool)
    (total : ∀ a b, !lt b a ∨ !lt a b)
    (trans : ∀ a b c, !lt b a → !lt c b → !lt c a)
    {l₁ l₂ : List α} (hp : l₁.Perm l₂)
    (h₁ : l₁.Pairwise (fun a b => !lt b a)) (h₂ : l₂.Pairwise (fun a b => !lt b a)) :
    List.Forall₂ (fun a b => !lt a b ∧ !lt b a) l₁ l₂ :=
  sorted_perm_forall₂ total trans hp h₁ h₂

/-- 3. the key sequence does not depend on capacity, spill policy or insertion order -/
theorem keys_canonical (lt : α → α → Bool)
    (total : ∀ a b, !lt b a ∨ !lt a b)
    (trans : ∀ a b c, !lt b a → !lt c b → !lt c a)
    (cap₁ cap₂ : Nat) (hcap₁ : 1 ≤ cap₁) (hcap₂ : 1 ≤ cap₂) (sp₁ sp₂ : Bool)
    (xs ys : List α) (hperm : xs.Perm ys) :
    List.Forall₂ (fun a b => !lt a b ∧ !lt b a)
      (sortAll lt cap₁ sp₁ xs) (sortAll lt cap₂ sp₂ ys) :=
  sorted_perm_keys_eq lt total trans
    (((perm lt cap₁ hcap₁ sp₁ xs).trans hperm).trans (perm lt cap₂ hcap₂ sp₂ ys).symm)
    (sorted lt total trans cap₁ hcap₁ sp₁ xs)
    (sorted lt total trans cap₂ hcap₂ sp₂ ys)

/-- corollary: when the key is antisymmetric (a total *order*) the output itself is canonical -/
theorem output_canonical_of_antisymm (lt : α → α → Bool)
    (total : ∀ a b, !lt b a ∨ !lt a b)
    (trans : ∀ a b c, !lt b a → !lt c b → !lt c a)
    (antisymm : ∀ a b, !lt a b → !lt b a → a = b)
    (cap₁ cap₂ : Nat) (hcap₁ : 1 ≤ cap₁) (hcap₂ : 1 ≤ cap₂) (sp₁ sp₂ : Bool)
    (xs ys : List α) (hperm : xs.Perm ys) :
    sortAll lt cap₁ sp₁ xs = sortAll lt cap₂ sp₂ ys := by
  have h := keys_canonical lt total trans cap₁ cap₂ hcap₁ hcap₂ sp₁ sp₂ xs ys hperm
  generalize sortAll lt cap₁ sp₁ xs = l₁ at h
  generalize sortAll lt cap₂ sp₂ ys = l₂ at h
  induction h with
  | nil => rfl
  | cons hab _ ih => rw [antisymm _ _ hab.1 hab.2, ih]

/-! ## non-vacuity -/

section Examples

/-- the natural-number key satisfies the hypotheses -/
theorem natLt_total : ∀ a b : Nat, !decide (b < a) ∨ !decide (a < b) := by
  intro a b; simp only [Bool.not_eq_true', decide_eq_false_iff_not]; omega
theorem natLt_trans : ∀ a b c : Nat, !decide (b < a) → !decide (c < b) → !decide (c < a) := by
  intro a b c; simp only [Bool.not_eq_true', decide_eq_false_iff_not]; omega

/-- a genuine *pre*order (ties between distinct items): pairs compared on the first component -/
theorem fstLt_total : ∀ a b : Nat × Nat, !decide (b.1 < a.1) ∨ !decide (a.1 < b.1) := by
  intro a b; simp only [Bool.not_eq_true', decide_eq_false_iff_not]; omega
theorem fstLt_trans : ∀ a b c : Nat × Nat,
    !decide (b.1 < a.1) → !decide (c.1 < b.1) → !decide (c.1 < a.1) := by
  intro a b c; simp only [Bool.not_eq_true', decide_eq_false_iff_not]; omega

/-- the main theorems instantiated at these keys: every hypothesis is dischargeable -/
example (cap : Nat) (hcap : 1 ≤ cap) (sp : Bool) (xs : List Nat) :
    (sortAll (fun a b : Nat => decide (a < b)) cap sp xs).Pairwise (fun a b => !decide (b < a)) :=
  sorted _ natLt_total natLt_trans cap hcap sp xs
example (sp₁ sp₂ : Bool) (xs : List (Nat × Nat)) :
    List.Forall₂ (fun a b : Nat × Nat => !decide (a.1 < b.1) ∧ !decide (b.1 < a.1))
      (sortAll (fun a b : Nat × Nat => decide (a.1 < b.1)) 3 sp₁ xs)
      (sortAll (fun a b : Nat × Nat => decide (a.1 < b.1)) 7 sp₂ xs.reverse) :=
  keys_canonical _ fstLt_total fstLt_trans 3 7 (by omega) (by omega) sp₁ sp₂ xs xs.reverse
    (List.reverse_perm xs).symm
example :
    (mergeK (fun a b : Nat => decide (a < b)) 5 [[1, 3], [], [1, 2], [0]]).Pairwise
      (fun a b => !decide (b < a)) :=
  mergeK_sorted _ natLt_total natLt_trans 5 [[1, 3], [], [1, 2], [0]]
    (by simp) (by simp [totalLen])
example (xs : List (Nat × Nat)) :
    ∀ f ∈ (xs.foldl (Sorter.add (fun a b : Nat × Nat => decide (a.1 < b.1)))
        { cap := 4, alwaysSpill := false }).files,
      f.Pairwise (fun a b => !decide (b.1 < a.1)) ∧ f.length = 4 :=
  files_sorted _ fstLt_total fstLt_trans 4 (by omega) false xs

/-- evaluate a closed sorter expression (`decide` cannot unfold `List.mergeSort`,
    which is defined by well-founded recursion) -/
local macro "sorter_eval" : tactic =>
  `(tactic| simp [sortAll, Sorter.add, Sorter.spill, Sorter.iter, sortChunk, List.mergeSort,
      totalLen, mergeK, minHead])

example : sortAll (fun a b : Nat => decide (a < b)) 2 true [3, 1, 2, 1] = [1, 1, 2, 3] := by
  sorter_eval
example : sortAll (fun a b : Nat => decide (a < b)) 3 false [3, 1, 2, 1] = [1, 1, 2, 3] := by
  sorter_eval
example : sortAll (fun a b : Nat => decide (a < b)) 5 false [3, 1, 2, 1] = [1, 1, 2, 3] := by
  sorter_eval
/-- with ties the *items* may come out in a different order for a different capacity,
    but the *keys* agree position by position, as `keys_canonical` says -/
example : sortAll (fun a b : Nat × Nat => decide (a.1 < b.1)) 2 true [(1, 0), (2, 0), (0, 0), (1, 1)]
    = [(0, 0), (1, 0), (1, 1), (2, 0)] := by sorter_eval
example : sortAll (fun a b : Nat × Nat => decide (a.1 < b.1)) 1 true [(1, 1), (2, 0), (0, 0), (1, 0)]
    = [(0, 0), (1, 1), (1, 0), (2, 0)] := by sorter_eval

/-- the state after five adds with `cap = 2`: two full sorted chunks, one stashed item -/
example :
    ([3, 1, 2, 1, 0].foldl (Sorter.add (fun a b : Nat => decide (a < b)))
        { cap := 2, alwaysSpill := true }).files = [[1, 3], [1, 2]] ∧
    ([3, 1, 2, 1, 0].foldl (Sorter.add (fun a b : Nat => decide (a < b)))
        { cap := 2, alwaysSpill := true }).stash = [0] := by sorter_eval

/-- a merge instance meeting the hypotheses of `mergeK_sorted` -/
example : mergeK (fun a b : Nat => decide (a < b)) 5 [[1, 3], [], [1, 2], [0]] = [0, 1, 1, 2, 3] := by
  sorter_eval

end Examples

end C07
