/-
  C20 — scheme registration is monotone and first-class.

  1. `monotone`, `monotone_history`, `history_prefix` — registration is cumulative.
  2. `failed_registration_noop`, `register_fails_iff` — a failed call changes nothing.
  3. `resolves` (general, with normalisation of base-less definitions), `resolves_plain`
     (no normalisation needed), `registry_finds`; `registered` / `registered_origin`
     (no side conditions), `normalized_counterpart` — a registered scheme resolves by
     its `(version, annotation)` pair to its documented layout.
  4. `version_supported`, `annotation_supported`, `supported_versions_iff`,
     `supported_annotations_iff`, `version_accepted`, `annotation_accepted`,
     `first_class`, `first_class_basic`, `basic_with_annotation_pragma` — header
     validation treats registered definitions exactly like built-ins.
  5. `layout_unchanged`, `builtins_unchanged`, `builtins_unchanged_registry` —
     registering extras does not change the built-in schemes.

  Every statement of 3–5 is uniform over `d ∈ bs ++ s.extras`: nothing distinguishes
  a built-in from a registered definition.  Helper lemmas: `Lemmas/RegistryLemmas.lean`.
-/
import MafModel.Model.Registry
import MafModel.Lemmas.RegistryLemmas
import MafModel.Props.C14Top
import MafModel.Props.C13
open Py Model

namespace C20

/-! ## 1. registration is cumulative -/

/-- **C20.1** — whether the call succeeds or fails, what was registered before is
    still registered afterwards, in the same order. -/
theorem monotone (tbl : ClassTable) (order : List Nat) (bs : List SchemeDef) (s : RegState)
    (defs : List SchemeDef) : s.extras <+: (s.register tbl order bs defs).1.extras := by
  unfold RegState.register
  split
  · exact List.prefix_append _ _
  · exact List.prefix_refl _

/-- the state after a history of registration calls -/
def history (tbl : ClassTable) (order : List Nat) (bs : List SchemeDef) (calls : List (List SchemeDef)) : RegState :=
  calls.foldl (fun s d => (s.register tbl order bs d).1) {}

theorem foldl_monotone (tbl : ClassTable) (order : List Nat) (bs : List SchemeDef)
    (calls : List (List SchemeDef)) (s : RegState) :
    s.extras <+: (calls.foldl (fun s d => (s.register tbl order bs d).1) s).extras := by
  induction calls generalizing s with
  | nil => exact List.prefix_refl _
  | cons d rest ih => exact (monotone tbl order bs s d).trans (ih _)

/-- a successful call registers exactly its definitions, after the earlier ones -/
theorem register_ok_extras {tbl : ClassTable} {order : List Nat} {bs : List SchemeDef} {s : RegState}
    {defs : List SchemeDef} (h : (s.register tbl order bs defs).2 = .ok ()) :
    (s.register tbl order bs defs).1.extras = s.extras ++ defs := by
  unfold RegState.register at h ⊢
  split
  · rfl
  · rename_i e he; rw [he] at h; cases h

/-- **C20.1, histories** — in any history of calls, every definition of every call
    that succeeded (at the moment it was made) is in the final registry: a later
    registration, successful or not, never makes an earlier one disappear. -/
theorem monotone_history (tbl : ClassTable) (order : List Nat) (bs : List SchemeDef)
    (pre post : List (List SchemeDef)) (defs : List SchemeDef)
    (hok : ((history tbl order bs pre).register tbl order bs defs).2 = .ok ()) :
    ∀ d ∈ defs, d ∈ (history tbl order bs (pre ++ defs :: post)).extras := by
  intro d hd
  have h1 : history tbl order bs (pre ++ defs :: post) =
      post.foldl (fun s d => (s.register tbl order bs d).1)
        ((history tbl order bs pre).register tbl order bs defs).1 := by
    simp [history, List.foldl_append]
  rw [h1]
  apply (foldl_monotone tbl order bs post _).subset
  rw [register_ok_extras hok]
  exact List.mem_append_right _ hd

/-- the extras of the earlier state also stay, in order, at the front -/
theorem history_prefix (tbl : ClassTable) (order : List Nat) (bs : List SchemeDef)
    (pre post : List (List SchemeDef)) :
    (history tbl order bs pre).extras <+: (history tbl order bs (pre ++ post)).extras := by
  have h1 : history tbl order bs (pre ++ post) =
      post.foldl (fun s d => (s.register tbl order bs d).1) (history tbl order bs pre) := by
    simp [history, List.foldl_append]
  rw [h1]
  exact foldl_monotone tbl order bs post _

/-! ## 2. a failed registration changes nothing -/

/-- **C20.2** -/
theorem failed_registration_noop (tbl : ClassTable) (order : List Nat) (bs : List SchemeDef)
    (s : RegState) (defs : List SchemeDef) (e : PyErr)
    (h : (s.register tbl order bs defs).2 = .error e) : (s.register tbl order bs defs).1 = s := by
  unfold RegState.register at h ⊢
  split
  · rename_i r hr; rw [hr] at h; cases h
  · rfl

/-- and it fails exactly when the enlarged definition set does not load -/
theorem register_fails_iff (tbl : ClassTable) (order : List Nat) (bs : List SchemeDef)
    (s : RegState) (defs : List SchemeDef) (e : PyErr) :
    (s.register tbl order bs defs).2 = .error e ↔ loadAll tbl order bs (s.extras ++ defs) = .error e := by
  unfold RegState.register
  split
  · rename_i r hr; simp [hr]
  · rename_i e' he; simp [he]

/-! ## 3. a registered scheme resolves to its documented layout

  `loadAll` = `checkSchemeData`, then `buildSchemesTop` (reject duplicate annotations,
  normalise base-less definitions, run the build loop), then `validateSchemes`.  The
  statements below are uniform over `d ∈ bs ++ s.extras`: nothing distinguishes a
  built-in definition from a registered one. -/

open RegistryLemmas in
/-- the run behind a successful load: annotations pairwise distinct, every definition
    normalises, the build loop succeeds on the normalised list, the resulting
    schemes (in build order) have pairwise distinct `(version, annotation)` pairs -/
theorem load_run {tbl : ClassTable} {order : List Nat} {bs ex : List SchemeDef}
    {tbl' : ClassTable} {ss : List Scheme} (h : loadAll tbl order bs ex = .ok (tbl', ss)) :
    ((bs ++ ex).map (·.annotation)).Nodup ∧
    ∃ ds st built, (bs ++ ex).mapM SchemeDef.normalize = some ds ∧
      buildSchemes { tbl := tbl, order := order } ds = .ok (st, built) ∧
      validateSchemes (noRestrictionsClass :: ss) = true ∧ ss = built.map (·.2) := by
  obtain ⟨_, st, built, hb, hv, rfl, _⟩ := loadAll_ok h
  obtain ⟨hnd, ds, hds, hbuild⟩ := buildSchemesTop_ok hb
  exact ⟨hnd, ds, st, built, hds, hbuild, hv, rfl⟩

open RegistryLemmas in
/-- **normalisation** keeps version, annotation and base; it only applies a base-less
    definition's own `filtered` list to its own columns.  Every definition has exactly
    one normalised counterpart, and a definition with a base (or without a `filtered`
    list) is its own counterpart. -/
theorem normalized_counterpart {data ds : List SchemeDef}
    (h : data.mapM SchemeDef.normalize = some ds) :
    ds.map (·.annotation) = data.map (·.annotation) ∧
    ∀ d ∈ data, ∃ d' ∈ ds, d.normalize = some d' ∧ d'.version = d.version ∧
      d'.annotation = d.annotation ∧ d'.base = d.base ∧ d'.hasBase = d.hasBase ∧
      d'.columns.Sublist d.columns ∧
      ((d.hasBase = none → d.filtered = none) → d' = d) ∧
      (∀ f, d.hasBase = none → d.filtered = some f →
        d'.filtered = none ∧ d'.columns = d.columns.filter (fun c => !f.contains c.1)) := by
  obtain ⟨hall, rfl⟩ := mapM_normalize_some h
  refine ⟨map_normD_annotation hall, fun d hd => ?_⟩
  have hn := hall d hd
  refine ⟨normD d, List.mem_map.2 ⟨d, hd, rfl⟩, hn, normalize_version hn, normalize_annotation hn,
    normalize_base hn, normalize_hasBase hn, normalize_columns_sublist hn, fun hid => ?_, fun f hb hf => ?_⟩
  · have := normalize_id hid
    rw [hn] at this
    exact Option.some.inj this
  · exact ⟨(normalize_baseless hn hb hf).1, (normalize_baseless hn hb hf).2.1⟩

open RegistryLemmas in
/-- **registered, no side conditions** — after a successful load every definition,
    built-in or extra, has a scheme in the list with its own version and annotation,
    and that scheme is not the no-restrictions pseudo-scheme -/
theorem registered {tbl : ClassTable} {order : List Nat} {bs ex : List SchemeDef}
    {tbl' : ClassTable} {ss : List Scheme} (h : loadAll tbl order bs ex = .ok (tbl', ss))
    {d : SchemeDef} (hd : d ∈ bs ++ ex) :
    ∃ sch ∈ ss, sch.version = d.version ∧ sch.annotation = d.annotation ∧ sch.noRestrictions = false := by
  obtain ⟨hnd, ds, st, built, hds, hbuild, _, rfl⟩ := load_run h
  obtain ⟨hall, rfl⟩ := mapM_normalize_some hds
  have hnd' : (((bs ++ ex).map normD).map (·.annotation)).Nodup := by
    rw [map_normD_annotation hall]; exact hnd
  obtain ⟨s, hg, hv, ha, hnr⟩ := built_entry hnd' hbuild (List.mem_map.2 ⟨d, hd, rfl⟩)
  have hn := hall d hd
  exact ⟨s, List.mem_map.2 ⟨_, SchemeLemmas.mem_of_dictGet hg, rfl⟩,
    hv.trans (normalize_version hn), ha.trans (normalize_annotation hn), hnr⟩

open RegistryLemmas in
/-- conversely every scheme in the list comes from a definition -/
theorem registered_origin {tbl : ClassTable} {order : List Nat} {bs ex : List SchemeDef}
    {tbl' : ClassTable} {ss : List Scheme} (h : loadAll tbl order bs ex = .ok (tbl', ss))
    {sch : Scheme} (hs : sch ∈ ss) :
    ∃ d ∈ bs ++ ex, sch.version = d.version ∧ sch.annotation = d.annotation ∧ sch.noRestrictions = false := by
  obtain ⟨hnd, ds, st, built, hds, hbuild, _, rfl⟩ := load_run h
  obtain ⟨hall, rfl⟩ := mapM_normalize_some hds
  have hnd' : (((bs ++ ex).map normD).map (·.annotation)).Nodup := by
    rw [map_normD_annotation hall]; exact hnd
  obtain ⟨d', hd', hv, ha, hnr⟩ := built_origin hnd' hbuild hs
  obtain ⟨d, hd, rfl⟩ := List.mem_map.1 hd'
  have hn := hall d hd
  exact ⟨d, hd, hv.trans (normalize_version hn), ha.trans (normalize_annotation hn), hnr⟩

/-- lookup by `(version, annotation)` in the loaded list finds exactly the scheme with
    that pair (the pairs are distinct by `validate_schemes`) -/
theorem load_find {tbl : ClassTable} {order : List Nat} {bs ex : List SchemeDef}
    {tbl' : ClassTable} {ss : List Scheme} (h : loadAll tbl order bs ex = .ok (tbl', ss))
    {sch : Scheme} (hs : sch ∈ ss) (hne1 : sch.version ≠ "") (hne2 : sch.annotation ≠ "") :
    findSchemeClass (noRestrictionsClass :: ss) (some sch.version) (some sch.annotation) = .ok (some sch) := by
  obtain ⟨_, _, _, _, _, _, hv, _⟩ := load_run h
  exact C14.find_both hv (List.mem_cons_of_mem _ hs) hne1 hne2

open RegistryLemmas in
/-- the layout of one definition after a successful load of well-formed definitions -/
theorem load_entry {tbl : ClassTable} {order : List Nat} {bs ex ds : List SchemeDef}
    {tbl' : ClassTable} {ss : List Scheme} (h : loadAll tbl order bs ex = .ok (tbl', ss))
    (hds : (bs ++ ex).mapM SchemeDef.normalize = some ds)
    (hcols : ∀ d ∈ bs ++ ex, (d.columns.map (·.1)).Nodup) (hann : ∀ d ∈ bs ++ ex, d.annotation ≠ "")
    {d : SchemeDef} (hd : d ∈ bs ++ ex) :
    C14.DefsOK ds ∧ ∃ sch l, sch ∈ ss ∧ sch.version = d.version ∧ sch.annotation = d.annotation ∧
      sch.noRestrictions = false ∧ Spec.layoutOf ds d.annotation = some l ∧ sch.names = l.map (·.1) := by
  obtain ⟨hnd, ds', st, built, hds', hbuild, _, rfl⟩ := load_run h
  rw [hds] at hds'
  cases hds'
  obtain ⟨hall, rfl⟩ := mapM_normalize_some hds
  have hok := defsOK_normD hall hnd hcols hann
  have hn := hall d hd
  have hmem : normD d ∈ (bs ++ ex).map normD := List.mem_map.2 ⟨d, hd, rfl⟩
  obtain ⟨s, l, hg, hv, ha, hl, hnames⟩ := C14.layout_eq_resolve hok hbuild _ hmem
  obtain ⟨s', hg', _, _, hnr⟩ := built_entry hok.1 hbuild hmem
  have : s' = s := by
    simp only at hg'
    rw [hg] at hg'; exact (Option.some.inj hg').symm
  subst this
  rw [normalize_annotation hn] at hl
  exact ⟨hok, s', l, List.mem_map.2 ⟨_, SchemeLemmas.mem_of_dictGet hg, rfl⟩,
    hv.trans (normalize_version hn), ha.trans (normalize_annotation hn), hnr, hl, hnames⟩

/-- **C20.3** — a registered scheme resolves by its `(version, annotation)` pair to
    its documented layout.

    Let the extras of `s` be registered (`loadAll … = .ok (tbl', ss)`, so
    `s.schemes … = ss`).  Then the definitions normalise to a list `ds`
    (`normalized_counterpart`: same versions, annotations and bases), `ds` is
    well-formed, and for every definition `d`, built-in or extra, with a non-empty
    version, `find_scheme_class(d.version, d.annotation)` over `all_schemes()` returns
    a scheme of the list that carries `d`'s version and annotation, is not the
    no-restrictions pseudo-scheme, and whose column names are exactly those of the
    declarative layout `Spec.layoutOf ds d.annotation`.

    Side conditions, stated explicitly: column names are distinct within each
    definition (`hcols`) and no annotation is empty (`hann`).  Distinct annotations are
    *not* a hypothesis: `buildSchemesTop` enforces them. -/
theorem resolves {tbl : ClassTable} {order : List Nat} {bs : List SchemeDef} {s : RegState}
    {tbl' : ClassTable} {ss : List Scheme}
    (hload : loadAll tbl order bs s.extras = .ok (tbl', ss))
    (hcols : ∀ d ∈ bs ++ s.extras, (d.columns.map (·.1)).Nodup)
    (hann : ∀ d ∈ bs ++ s.extras, d.annotation ≠ "") :
    s.schemes tbl order bs = ss ∧
    ∃ ds, (bs ++ s.extras).mapM SchemeDef.normalize = some ds ∧ C14.DefsOK ds ∧
      ∀ d ∈ bs ++ s.extras, d.version ≠ "" →
        ∃ sch l,
          findSchemeClass (noRestrictionsClass :: ss) (some d.version) (some d.annotation) = .ok (some sch) ∧
          sch ∈ ss ∧ sch.version = d.version ∧ sch.annotation = d.annotation ∧
          sch.noRestrictions = false ∧
          Spec.layoutOf ds d.annotation = some l ∧ sch.names = l.map (·.1) := by
  refine ⟨by unfold RegState.schemes; rw [hload], ?_⟩
  obtain ⟨_, ds, _, _, hds, _, _, _⟩ := load_run hload
  refine ⟨ds, hds, ?_, fun d hd hne => ?_⟩
  · cases hbe : bs ++ s.extras with
    | nil =>
      rw [hbe] at hds
      simp only [List.mapM_nil] at hds
      cases hds
      exact ⟨by simp, by simp, by simp⟩
    | cons d0 _ => exact (load_entry hload hds hcols hann (d := d0) (by rw [hbe]; simp)).1
  · obtain ⟨_, sch, l, hs, hv, ha, hnr, hl, hnames⟩ := load_entry hload hds hcols hann hd
    refine ⟨sch, l, ?_, hs, hv, ha, hnr, hl, hnames⟩
    have := load_find hload hs (by rw [hv]; exact hne) (by rw [ha]; exact hann d hd)
    rw [hv, ha] at this
    exact this

open RegistryLemmas in
/-- **C20.3, without normalisation** — when no base-less definition carries a
    `filtered` list (the side condition of `C14Top.top_eq_build`; true of the shipped
    definitions, `C14Top.generated_top_eq_build`), the layout is that of the
    definitions as written: `Spec.layoutOf (bs ++ s.extras) d.annotation`. -/
theorem resolves_plain {tbl : ClassTable} {order : List Nat} {bs : List SchemeDef} {s : RegState}
    {tbl' : ClassTable} {ss : List Scheme}
    (hload : loadAll tbl order bs s.extras = .ok (tbl', ss))
    (hcols : ∀ d ∈ bs ++ s.extras, (d.columns.map (·.1)).Nodup)
    (hann : ∀ d ∈ bs ++ s.extras, d.annotation ≠ "")
    (hflt : ∀ d ∈ bs ++ s.extras, d.hasBase = none → d.filtered = none) :
    C14.DefsOK (bs ++ s.extras) ∧
    ∀ d ∈ bs ++ s.extras, d.version ≠ "" →
      ∃ sch l,
        findSchemeClass (noRestrictionsClass :: ss) (some d.version) (some d.annotation) = .ok (some sch) ∧
        sch ∈ ss ∧ sch.version = d.version ∧ sch.annotation = d.annotation ∧
        sch.noRestrictions = false ∧
        Spec.layoutOf (bs ++ s.extras) d.annotation = some l ∧ sch.names = l.map (·.1) := by
  obtain ⟨_, ds, hds, hok, hall⟩ := resolves hload hcols hann
  have : ds = bs ++ s.extras := by
    obtain ⟨hn, rfl⟩ := mapM_normalize_some hds
    conv => rhs; rw [← List.map_id (bs ++ s.extras)]
    apply List.map_congr_left
    intro d hd
    have := normalize_id (hflt d hd)
    rw [hn d hd] at this
    exact Option.some.inj this
  subst this
  exact ⟨hok, hall⟩

/-- the registry of a state whose extras load -/
theorem registry_eq {tbl : ClassTable} {order : List Nat} {bs : List SchemeDef} {s : RegState}
    {tbl' : ClassTable} {ss : List Scheme}
    (hload : loadAll tbl order bs s.extras = .ok (tbl', ss)) :
    s.registry tbl order bs =
      { schemes := noRestrictionsClass :: ss,
        supportedVersions := (noRestrictionsClass :: ss).map (·.version),
        supportedAnnotations := (noRestrictionsClass :: ss).map (·.annotation) } := by
  unfold RegState.registry RegState.schemes
  rw [hload]

/-- **C20.3, through the registry** — `find_scheme` of the state's registry, given the
    version and annotation of a registered definition as header text, returns its scheme
    (same conclusion as `resolves`; no well-formedness side conditions are needed to
    find the scheme, only for its layout). -/
theorem registry_finds {tbl : ClassTable} {order : List Nat} {bs : List SchemeDef} {s : RegState}
    {tbl' : ClassTable} {ss : List Scheme}
    (hload : loadAll tbl order bs s.extras = .ok (tbl', ss))
    {d : SchemeDef} (hd : d ∈ bs ++ s.extras) (hne1 : d.version ≠ "") (hne2 : d.annotation ≠ "")
    {v a : Option Text} (hv : v.map String.ofList = some d.version)
    (ha : a.map String.ofList = some d.annotation) :
    ∃ sch ∈ ss, (s.registry tbl order bs).findScheme v a = .ok (some sch) ∧
      sch.version = d.version ∧ sch.annotation = d.annotation := by
  obtain ⟨sch, hs, hsv, hsa, hnr⟩ := registered hload hd
  have hf := load_find hload hs (by rw [hsv]; exact hne1) (by rw [hsa]; exact hne2)
  rw [hsv, hsa] at hf
  refine ⟨sch, hs, ?_, hsv, hsa⟩
  rw [registry_eq hload]
  unfold Registry.findScheme
  simp only [hv, ha, hf, hnr, Bool.false_eq_true, if_false]

/-! ## 4. a registered scheme is first-class for header validation -/

/-- **C20.4a** — the version of every definition, built-in or extra, is a supported
    version of the state's registry.  No side conditions. -/
theorem version_supported {tbl : ClassTable} {order : List Nat} {bs : List SchemeDef} {s : RegState}
    {tbl' : ClassTable} {ss : List Scheme}
    (hload : loadAll tbl order bs s.extras = .ok (tbl', ss))
    {d : SchemeDef} (hd : d ∈ bs ++ s.extras) :
    d.version ∈ (s.registry tbl order bs).supportedVersions := by
  obtain ⟨sch, hs, hsv, _, _⟩ := registered hload hd
  rw [registry_eq hload]
  exact List.mem_map.2 ⟨sch, List.mem_cons_of_mem _ hs, hsv⟩

/-- **C20.4b** — likewise its annotation is a supported annotation.  No side conditions. -/
theorem annotation_supported {tbl : ClassTable} {order : List Nat} {bs : List SchemeDef} {s : RegState}
    {tbl' : ClassTable} {ss : List Scheme}
    (hload : loadAll tbl order bs s.extras = .ok (tbl', ss))
    {d : SchemeDef} (hd : d ∈ bs ++ s.extras) :
    d.annotation ∈ (s.registry tbl order bs).supportedAnnotations := by
  obtain ⟨sch, hs, _, hsa, _⟩ := registered hload hd
  rw [registry_eq hload]
  exact List.mem_map.2 ⟨sch, List.mem_cons_of_mem _ hs, hsa⟩

/-- the supported versions are exactly `no-version` and the versions of the definitions -/
theorem supported_versions_iff {tbl : ClassTable} {order : List Nat} {bs : List SchemeDef} {s : RegState}
    {tbl' : ClassTable} {ss : List Scheme}
    (hload : loadAll tbl order bs s.extras = .ok (tbl', ss)) (v : String) :
    v ∈ (s.registry tbl order bs).supportedVersions ↔
      v = "no-version" ∨ ∃ d ∈ bs ++ s.extras, d.version = v := by
  constructor
  · intro h
    rw [registry_eq hload] at h
    obtain ⟨sch, hs, rfl⟩ := List.mem_map.1 h
    rcases List.mem_cons.1 hs with rfl | hs
    · exact .inl rfl
    · obtain ⟨d, hd, hv, _, _⟩ := registered_origin hload hs
      exact .inr ⟨d, hd, hv.symm⟩
  · rintro (rfl | ⟨d, hd, rfl⟩)
    · rw [registry_eq hload]; exact List.mem_map.2 ⟨_, List.mem_cons_self, rfl⟩
    · exact version_supported hload hd

/-- the supported annotations are exactly `no-annotation-specification` and the
    annotations of the definitions -/
theorem supported_annotations_iff {tbl : ClassTable} {order : List Nat} {bs : List SchemeDef} {s : RegState}
    {tbl' : ClassTable} {ss : List Scheme}
    (hload : loadAll tbl order bs s.extras = .ok (tbl', ss)) (a : String) :
    a ∈ (s.registry tbl order bs).supportedAnnotations ↔
      a = "no-annotation-specification" ∨ ∃ d ∈ bs ++ s.extras, d.annotation = a := by
  constructor
  · intro h
    rw [registry_eq hload] at h
    obtain ⟨sch, hs, rfl⟩ := List.mem_map.1 h
    rcases List.mem_cons.1 hs with rfl | hs
    · exact .inl rfl
    · obtain ⟨d, hd, _, ha, _⟩ := registered_origin hload hs
      exact .inr ⟨d, hd, ha.symm⟩
  · rintro (rfl | ⟨d, hd, rfl⟩)
    · rw [registry_eq hload]; exact List.mem_map.2 ⟨_, List.mem_cons_self, rfl⟩
    · exact annotation_supported hload hd

/-- **no `HEADER_UNSUPPORTED_VERSION`** (nor `HEADER_MISSING_VERSION`) for a header whose
    version pragma names a definition of the state, built-in or extra.  No side conditions. -/
theorem version_accepted {tbl : ClassTable} {order : List Nat} {bs : List SchemeDef} {s : RegState}
    {tbl' : ClassTable} {ss : List Scheme}
    (hload : loadAll tbl order bs s.extras = .ok (tbl', ss))
    {d : SchemeDef} (hd : d ∈ bs ++ s.extras) (K : HConsts) {h : Header}
    (hv : (h.version K).map String.ofList = some d.version) :
    C13.versionErrs K (s.registry tbl order bs) h = [] := by
  unfold C13.versionErrs
  cases hver : h.version K with
  | none => rw [hver] at hv; cases hv
  | some v =>
    rw [hver] at hv
    simp only [Option.map_some, Option.some.injEq] at hv
    simp only [hv, version_supported hload hd, if_true]

/-- the scheme a header naming a registered definition gets from the state's registry -/
theorem header_scheme {tbl : ClassTable} {order : List Nat} {bs : List SchemeDef} {s : RegState}
    {tbl' : ClassTable} {ss : List Scheme}
    (hload : loadAll tbl order bs s.extras = .ok (tbl', ss))
    {d : SchemeDef} (hd : d ∈ bs ++ s.extras) (hne1 : d.version ≠ "") (hne2 : d.annotation ≠ "")
    (K : HConsts) {h : Header}
    (hv : (h.version K).map String.ofList = some d.version)
    (ha : (h.annotation K).map String.ofList = some d.annotation) :
    ∃ sch ∈ ss, h.scheme K (s.registry tbl order bs) = some sch ∧
      sch.version = d.version ∧ sch.annotation = d.annotation := by
  obtain ⟨sch, hs, hf, hsv, hsa⟩ := registry_finds hload hd hne1 hne2 hv ha
  refine ⟨sch, hs, ?_, hsv, hsa⟩
  unfold Header.scheme
  rw [hf]

/-- **no `HEADER_UNSUPPORTED_ANNOTATION_SPEC`** (nor `HEADER_MISSING_ANNOTATION_SPEC`) for a
    header whose version and annotation pragmas name a *non-basic* definition
    (`version ≠ annotation`) of the state, built-in or extra. -/
theorem annotation_accepted {tbl : ClassTable} {order : List Nat} {bs : List SchemeDef} {s : RegState}
    {tbl' : ClassTable} {ss : List Scheme}
    (hload : loadAll tbl order bs s.extras = .ok (tbl', ss))
    {d : SchemeDef} (hd : d ∈ bs ++ s.extras) (hne1 : d.version ≠ "") (hne2 : d.annotation ≠ "")
    (hnb : d.version ≠ d.annotation) (K : HConsts) {h : Header}
    (hv : (h.version K).map String.ofList = some d.version)
    (ha : (h.annotation K).map String.ofList = some d.annotation) :
    C13.annotationErrs K (s.registry tbl order bs) h = [] := by
  obtain ⟨sch, _, hsch, hsv, hsa⟩ := header_scheme hload hd hne1 hne2 K hv ha
  have hc : ¬ ∃ s', h.scheme K (s.registry tbl order bs) = some s' ∧ s'.isBasic = true := by
    rintro ⟨s', hs', hb⟩
    rw [hsch] at hs'
    cases hs'
    unfold Scheme.isBasic at hb
    rw [hsv, hsa] at hb
    exact hnb (by simpa using hb)
  unfold C13.annotationErrs
  rw [if_neg hc]
  cases hann : h.annotation K with
  | none => rw [hann] at ha; cases ha
  | some a =>
    rw [hann] at ha
    simp only [Option.map_some, Option.some.injEq] at ha
    simp only [ha, annotation_supported hload hd, if_true]

/-- what the model does with a *basic* definition (`version = annotation`), built-in or
    extra alike: a header that names it by both pragmas gets
    `HEADER_UNSUPPORTED_ANNOTATION_SPEC` — the rule "a basic scheme takes no annotation
    pragma" of `Header.validate` (`C13.annotation_rule`), not a registration defect:
    the annotation itself *is* supported (`annotation_supported`). -/
theorem annotation_basic_with_pragma {tbl : ClassTable} {order : List Nat} {bs : List SchemeDef}
    {s : RegState} {tbl' : ClassTable} {ss : List Scheme}
    (hload : loadAll tbl order bs s.extras = .ok (tbl', ss))
    {d : SchemeDef} (hd : d ∈ bs ++ s.extras) (hne1 : d.version ≠ "")
    (hbasic : d.version = d.annotation) (K : HConsts) {h : Header}
    (hv : (h.version K).map String.ofList = some d.version)
    (ha : (h.annotation K).map String.ofList = some d.annotation) :
    C13.annotationErrs K (s.registry tbl order bs) h =
      [C13.headerErr "HEADER_UNSUPPORTED_ANNOTATION_SPEC"] := by
  obtain ⟨sch, _, hsch, hsv, hsa⟩ := header_scheme hload hd hne1 (hbasic ▸ hne1) K hv ha
  have hc : ∃ s', h.scheme K (s.registry tbl order bs) = some s' ∧ s'.isBasic = true :=
    ⟨sch, hsch, by unfold Scheme.isBasic; rw [hsv, hsa, hbasic]; simp⟩
  unfold C13.annotationErrs
  rw [if_pos hc]
  cases hann : h.annotation K with
  | none => rw [hann] at ha; cases ha
  | some a => rfl

/-- a basic definition named the way basic schemes are meant to be named — version
    pragma only — gets no annotation error at all -/
theorem annotation_basic_without_pragma {tbl : ClassTable} {order : List Nat} {bs : List SchemeDef}
    {s : RegState} {tbl' : ClassTable} {ss : List Scheme}
    (hload : loadAll tbl order bs s.extras = .ok (tbl', ss))
    {d : SchemeDef} (hd : d ∈ bs ++ s.extras) (hne1 : d.version ≠ "")
    (hbasic : d.version = d.annotation) (K : HConsts) {h : Header}
    (hv : (h.version K).map String.ofList = some d.version)
    (ha : h.annotation K = none) :
    C13.annotationErrs K (s.registry tbl order bs) h = [] := by
  obtain ⟨sch, hs, hsv, hsa, hnr⟩ := registered hload hd
  obtain ⟨_, _, _, _, _, _, hval, _⟩ := load_run hload
  have hf := C14.find_basic hval (List.mem_cons_of_mem _ hs) (by rw [hsv]; exact hne1)
    (by rw [hsv, hsa, hbasic]) none (.inl rfl)
  rw [hsv] at hf
  have hsch : h.scheme K (s.registry tbl order bs) = some sch := by
    unfold Header.scheme Registry.findScheme
    rw [registry_eq hload]
    simp only [hv, ha, Option.map_none, hf, hnr, Bool.false_eq_true, if_false]
  have hc : ∃ s', h.scheme K (s.registry tbl order bs) = some s' ∧ s'.isBasic = true :=
    ⟨sch, hsch, by unfold Scheme.isBasic; rw [hsv, hsa, hbasic]; simp⟩
  unfold C13.annotationErrs
  rw [if_pos hc, ha]
  rfl

/-- **C20.4** — header validation treats a registered definition exactly like a
    built-in one (the statement is uniform over `d ∈ bs ++ s.extras`).

    For a header whose version and annotation pragmas name a non-basic definition
    `d` of the state (`d.version ≠ d.annotation`, both non-empty), `Header.validate`
    against the state's registry adds *no* error: in particular neither
    `HEADER_UNSUPPORTED_VERSION` nor `HEADER_UNSUPPORTED_ANNOTATION_SPEC`; the error
    list is the old one (or empty after `reset`) and the outcome is `processErrors` of
    that list.

    The basic case (`d.version = d.annotation`) is `first_class_basic` (version pragma
    only: no error added) and `basic_with_annotation_pragma` (both pragmas: the model
    reports `HEADER_UNSUPPORTED_ANNOTATION_SPEC`, for built-ins and extras alike).
    The version half holds without any side condition (`version_accepted`). -/
theorem first_class {tbl : ClassTable} {order : List Nat} {bs : List SchemeDef} {s : RegState}
    {tbl' : ClassTable} {ss : List Scheme}
    (hload : loadAll tbl order bs s.extras = .ok (tbl', ss))
    {d : SchemeDef} (hd : d ∈ bs ++ s.extras) (hne1 : d.version ≠ "") (hne2 : d.annotation ≠ "")
    (hnb : d.version ≠ d.annotation) (K : HConsts) (h : Header)
    (hv : (h.version K).map String.ofList = some d.version)
    (ha : (h.annotation K).map String.ofList = some d.annotation)
    (mode : Option Mode) (reset : Bool) :
    let errs0 := if reset then [] else h.errors
    h.validate K (s.registry tbl order bs) mode reset =
      ({ h with errors := errs0 }, processErrors (mode.getD h.mode) errs0) := by
  intro errs0
  have := C13.validate_rules K (s.registry tbl order bs) h mode reset
  simp only [version_accepted hload hd K hv, annotation_accepted hload hd hne1 hne2 hnb K hv ha,
    List.append_nil] at this
  exact this

/-- **C20.4, basic definitions** — a header naming a basic definition of the state by
    its version pragma alone validates without any added error. -/
theorem first_class_basic {tbl : ClassTable} {order : List Nat} {bs : List SchemeDef} {s : RegState}
    {tbl' : ClassTable} {ss : List Scheme}
    (hload : loadAll tbl order bs s.extras = .ok (tbl', ss))
    {d : SchemeDef} (hd : d ∈ bs ++ s.extras) (hne1 : d.version ≠ "")
    (hbasic : d.version = d.annotation) (K : HConsts) (h : Header)
    (hv : (h.version K).map String.ofList = some d.version) (ha : h.annotation K = none)
    (mode : Option Mode) (reset : Bool) :
    let errs0 := if reset then [] else h.errors
    h.validate K (s.registry tbl order bs) mode reset =
      ({ h with errors := errs0 }, processErrors (mode.getD h.mode) errs0) := by
  intro errs0
  have := C13.validate_rules K (s.registry tbl order bs) h mode reset
  simp only [version_accepted hload hd K hv,
    annotation_basic_without_pragma hload hd hne1 hbasic K hv ha, List.append_nil] at this
  exact this

/-- **C20.4, the honest exception** — a header naming a basic definition by *both*
    pragmas gets exactly one added error, `HEADER_UNSUPPORTED_ANNOTATION_SPEC` (and no
    `HEADER_UNSUPPORTED_VERSION`); this is the same for built-in and registered basic
    definitions. -/
theorem basic_with_annotation_pragma {tbl : ClassTable} {order : List Nat} {bs : List SchemeDef}
    {s : RegState} {tbl' : ClassTable} {ss : List Scheme}
    (hload : loadAll tbl order bs s.extras = .ok (tbl', ss))
    {d : SchemeDef} (hd : d ∈ bs ++ s.extras) (hne1 : d.version ≠ "")
    (hbasic : d.version = d.annotation) (K : HConsts) (h : Header)
    (hv : (h.version K).map String.ofList = some d.version)
    (ha : (h.annotation K).map String.ofList = some d.annotation)
    (mode : Option Mode) (reset : Bool) :
    let errs := (if reset then [] else h.errors) ++ [C13.headerErr "HEADER_UNSUPPORTED_ANNOTATION_SPEC"]
    h.validate K (s.registry tbl order bs) mode reset =
      ({ h with errors := errs }, processErrors (mode.getD h.mode) errs) := by
  intro errs
  have := C13.validate_rules K (s.registry tbl order bs) h mode reset
  simp only [version_accepted hload hd K hv,
    annotation_basic_with_pragma hload hd hne1 hbasic K hv ha, List.append_nil] at this
  exact this

/-! ## 5. registering extras does not change the built-ins -/

/-- **declarative level** — a chain that resolves inside the built-ins resolves to the
    same layout when definitions are appended (no hypothesis on the extras: `findDef`
    takes the first definition of an annotation, and more fuel does not change a
    resolved layout). -/
theorem layout_unchanged {bs : List SchemeDef} (extras : List SchemeDef) {a : String}
    (hg : C14.grounded bs a) : Spec.layoutOf (bs ++ extras) a = Spec.layoutOf bs a := by
  cases hl : Spec.layoutOf bs a with
  | none => exact absurd hl hg
  | some l => exact RegistryLemmas.layoutOf_append extras hl

/-- the fuel monotonicity used above -/
theorem resolve_fuel_mono (ds : List SchemeDef) {n m : Nat} (hnm : n ≤ m) {a : String} {l : Spec.Layout}
    (h : Spec.resolve ds n a = some l) : Spec.resolve ds m a = some l :=
  SchemeLemmas.resolve_mono ds hnm h

/-- and the lookup fact: an annotation of `bs` is looked up in `bs` -/
theorem findDef_unchanged {bs : List SchemeDef} (extras : List SchemeDef) {a : String}
    (h : a ∈ bs.map (·.annotation)) : Spec.findDef (bs ++ extras) a = Spec.findDef bs a :=
  RegistryLemmas.findDef_append_of_mem extras h

open RegistryLemmas in
/-- **C20.5** — the scheme of every built-in definition is the same with and without
    the extras.

    If the built-ins load on their own (`h0`: in particular every built-in's `extends`
    chain stays inside `bs`) and together with the extras (`h1`), then for every
    built-in `b` with a non-empty version, `find_scheme_class(b.version, b.annotation)`
    finds a scheme in both lists, and the two have the same column names, version and
    annotation.  Side conditions as in `resolves`: column names distinct within each
    definition, no empty annotation (distinct annotations are enforced by the load). -/
theorem builtins_unchanged {tbl : ClassTable} {order : List Nat} {bs extras : List SchemeDef}
    {tbl0 tbl1 : ClassTable} {ss0 ss1 : List Scheme}
    (h0 : loadAll tbl order bs [] = .ok (tbl0, ss0))
    (h1 : loadAll tbl order bs extras = .ok (tbl1, ss1))
    (hcols : ∀ d ∈ bs ++ extras, (d.columns.map (·.1)).Nodup)
    (hann : ∀ d ∈ bs ++ extras, d.annotation ≠ "")
    {b : SchemeDef} (hb : b ∈ bs) (hne : b.version ≠ "") :
    ∃ s0 s1,
      findSchemeClass (noRestrictionsClass :: ss0) (some b.version) (some b.annotation) = .ok (some s0) ∧
      findSchemeClass (noRestrictionsClass :: ss1) (some b.version) (some b.annotation) = .ok (some s1) ∧
      s0 ∈ ss0 ∧ s1 ∈ ss1 ∧
      s0.names = s1.names ∧ s0.version = s1.version ∧ s0.annotation = s1.annotation ∧
      s0.version = b.version ∧ s0.annotation = b.annotation := by
  have hcols0 : ∀ d ∈ bs ++ [], (d.columns.map (·.1)).Nodup := fun d hd =>
    hcols d (List.mem_append_left _ (by simpa using hd))
  have hann0 : ∀ d ∈ bs ++ [], d.annotation ≠ "" := fun d hd =>
    hann d (List.mem_append_left _ (by simpa using hd))
  obtain ⟨_, ds0, _, _, hds0, _, _, _⟩ := load_run h0
  obtain ⟨_, ds1, _, _, hds1, _, _, _⟩ := load_run h1
  obtain ⟨_, s0, l0, hs0, hv0, ha0, _, hl0, hn0⟩ :=
    load_entry h0 hds0 hcols0 hann0 (d := b) (by simpa using hb)
  obtain ⟨_, s1, l1, hs1, hv1, ha1, _, hl1, hn1⟩ :=
    load_entry h1 hds1 hcols hann (d := b) (List.mem_append_left _ hb)
  have hl : l1 = l0 := by
    obtain ⟨_, rfl⟩ := mapM_normalize_some hds0
    obtain ⟨_, rfl⟩ := mapM_normalize_some hds1
    rw [List.append_nil] at hl0
    rw [List.map_append, layoutOf_append _ hl0] at hl1
    exact (Option.some.inj hl1).symm
  subst hl
  have hf0 := load_find h0 hs0 (by rw [hv0]; exact hne) (by rw [ha0]; exact hann b (List.mem_append_left _ hb))
  have hf1 := load_find h1 hs1 (by rw [hv1]; exact hne) (by rw [ha1]; exact hann b (List.mem_append_left _ hb))
  rw [hv0, ha0] at hf0
  rw [hv1, ha1] at hf1
  exact ⟨s0, s1, hf0, hf1, hs0, hs1, hn0.trans hn1.symm, hv0.trans hv1.symm, ha0.trans ha1.symm, hv0, ha0⟩

/-- **C20.5, as states** — the registry of a state with successfully registered extras
    and the registry of the initial state answer `find_scheme` for a built-in's
    `(version, annotation)` with schemes of the same layout, version and annotation. -/
theorem builtins_unchanged_registry {tbl : ClassTable} {order : List Nat} {bs : List SchemeDef}
    {s : RegState} {tbl0 tbl1 : ClassTable} {ss0 ss1 : List Scheme}
    (h0 : loadAll tbl order bs [] = .ok (tbl0, ss0))
    (h1 : loadAll tbl order bs s.extras = .ok (tbl1, ss1))
    (hcols : ∀ d ∈ bs ++ s.extras, (d.columns.map (·.1)).Nodup)
    (hann : ∀ d ∈ bs ++ s.extras, d.annotation ≠ "")
    {b : SchemeDef} (hb : b ∈ bs) (hne : b.version ≠ "") :
    ∃ s0 s1,
      (({} : RegState).registry tbl order bs).findScheme (some b.version.toList) (some b.annotation.toList)
        = .ok (some s0) ∧
      (s.registry tbl order bs).findScheme (some b.version.toList) (some b.annotation.toList)
        = .ok (some s1) ∧
      s0.names = s1.names ∧ s0.version = s1.version ∧ s0.annotation = s1.annotation := by
  obtain ⟨s0, s1, hf0, hf1, hs0, hs1, hn, hv, ha, hv0, ha0⟩ := builtins_unchanged h0 h1 hcols hann hb hne
  have hnr0 : s0.noRestrictions = false := by
    obtain ⟨_, _, _, _, h⟩ := registered_origin h0 hs0; exact h
  have hnr1 : s1.noRestrictions = false := by
    obtain ⟨_, _, _, _, h⟩ := registered_origin h1 hs1; exact h
  refine ⟨s0, s1, ?_, ?_, hn, hv, ha⟩
  · rw [registry_eq (s := {}) h0]
    unfold Registry.findScheme
    simp only [Option.map_some, String.ofList_toList, hf0, hnr0, Bool.false_eq_true, if_false]
  · rw [registry_eq h1]
    unfold Registry.findScheme
    simp only [Option.map_some, String.ofList_toList, hf1, hnr1, Bool.false_eq_true, if_false]

/-! ## non-vacuity: two built-ins, three registered extras -/
namespace Ex
open C14.Ex (tbl0 root child grand)

/-- the "built-ins": a basic scheme `v1` and a derived one `v1-x` -/
def bs0 : List SchemeDef := [root, child]

/-- a base-less extra definition with its own `filtered` list (needs normalisation) -/
def trimmed : SchemeDef :=
  { version := "v9", annotation := "v9-trim", base := none, filtered := some ["q"],
    columns := [("p", "StringColumn"), ("q", "StringColumn")] }
/-- a basic extra definition -/
def basicX : SchemeDef :=
  { version := "v7", annotation := "v7", base := none, filtered := none, columns := [("k", "StringColumn")] }

/-- `grand` extends the built-in `v1-x` -/
def extras1 : List SchemeDef := [grand, trimmed, basicX]

def s0 : RegState := {}
def s1 : RegState := (s0.register tbl0 [1, 0] bs0 extras1).1

/-- the registration call succeeds and registers the three definitions -/
theorem reg1_ok : (s0.register tbl0 [1, 0] bs0 extras1).2.toBool = true := by decide +kernel
theorem s1_extras : s1.extras = extras1 := by decide +kernel
theorem load0 : (loadAll tbl0 [1, 0] bs0 []).toBool = true := by decide +kernel
theorem load1 : (loadAll tbl0 [1, 0] bs0 s1.extras).toBool = true := by decide +kernel

/-- the side conditions of `resolves` / `builtins_unchanged` hold -/
theorem hcols1 : ∀ d ∈ bs0 ++ s1.extras, (d.columns.map (·.1)).Nodup := by
  rw [s1_extras]; decide
theorem hann1 : ∀ d ∈ bs0 ++ s1.extras, d.annotation ≠ "" := by
  rw [s1_extras]; decide

/-- failing registrations leave the state unchanged (C20.2 on concrete calls):
    a second definition of the annotation `v1-x`, and an unknown column type -/
def dupAnn : SchemeDef :=
  { version := "v2", annotation := "v1-x", base := none, filtered := none, columns := [("c1", "StringColumn")] }
def badType : SchemeDef :=
  { version := "v3", annotation := "v3", base := none, filtered := none, columns := [("c1", "NoSuchColumn")] }
example : (s1.register tbl0 [1, 0] bs0 [dupAnn]).2 = .error .value ∧
    (s1.register tbl0 [1, 0] bs0 [dupAnn]).1.extras = s1.extras := by decide +kernel
example : (s1.register tbl0 [1, 0] bs0 [badType]).2 = .error .value ∧
    (s1.register tbl0 [1, 0] bs0 [badType]).1.extras = s1.extras := by decide +kernel
example : (s1.register tbl0 [1, 0] bs0 [dupAnn]).1 = s1 :=
  failed_registration_noop _ _ _ _ _ .value (by decide +kernel)

/-- the normalised definitions: only `trimmed` changes -/
theorem norm1 : (bs0 ++ s1.extras).mapM SchemeDef.normalize =
    some [root, child, grand, { trimmed with columns := [("p", "StringColumn")], filtered := none }, basicX] := by
  rw [s1_extras]; decide

/-- `resolves` on the extra `grand` (derived from a built-in): found by
    `("v1", "v1-x-pub")`, layout `c2, c3` -/
example : ∃ sch, findSchemeClass (noRestrictionsClass :: s1.schemes tbl0 [1, 0] bs0)
      (some "v1") (some "v1-x-pub") = .ok (some sch) ∧
    sch.version = "v1" ∧ sch.annotation = "v1-x-pub" ∧ sch.names = ["c2", "c3"] := by
  obtain ⟨⟨tbl', ss⟩, hload⟩ := RegistryLemmas.ok_of_toBool load1
  obtain ⟨hss, ds, hds, _, hall⟩ := resolves hload hcols1 hann1
  obtain ⟨sch, l, hf, _, hv, ha, _, hl, hn⟩ := hall grand (by rw [s1_extras]; decide) (by decide)
  rw [norm1] at hds
  cases hds
  have : l = [("c2", .mixed "RequireNullValue" (.named "StringColumn")), ("c3", .named "StringColumn")] := by
    have h2 : Spec.layoutOf [root, child, grand,
        { trimmed with columns := [("p", "StringColumn")], filtered := none }, basicX] grand.annotation = some
        [("c2", .mixed "RequireNullValue" (.named "StringColumn")), ("c3", .named "StringColumn")] := by decide
    rw [h2] at hl; exact (Option.some.inj hl).symm
  subst this
  rw [hss]
  exact ⟨sch, hf, hv, ha, hn⟩

/-- `resolves` on the extra `trimmed` (normalisation at work): layout `p` only -/
example : ∃ sch, findSchemeClass (noRestrictionsClass :: s1.schemes tbl0 [1, 0] bs0)
      (some "v9") (some "v9-trim") = .ok (some sch) ∧ sch.names = ["p"] := by
  obtain ⟨⟨tbl', ss⟩, hload⟩ := RegistryLemmas.ok_of_toBool load1
  obtain ⟨hss, ds, hds, _, hall⟩ := resolves hload hcols1 hann1
  obtain ⟨sch, l, hf, _, _, _, _, hl, hn⟩ := hall trimmed (by rw [s1_extras]; decide) (by decide)
  rw [norm1] at hds
  cases hds
  have : l = [("p", .named "StringColumn")] := by
    have h2 : Spec.layoutOf [root, child, grand,
        { trimmed with columns := [("p", "StringColumn")], filtered := none }, basicX] trimmed.annotation = some
        [("p", .named "StringColumn")] := by decide
    rw [h2] at hl; exact (Option.some.inj hl).symm
  subst this
  rw [hss]
  exact ⟨sch, hf, hn⟩

/-- the side condition of `resolves_plain` fails for `extras1` (because of `trimmed`) and
    holds for a state with `grand` and `basicX` only -/
example : ¬ ∀ d ∈ bs0 ++ extras1, d.hasBase = none → d.filtered = none := by decide
def s2 : RegState := (s0.register tbl0 [1, 0] bs0 [grand, basicX]).1
theorem s2_extras : s2.extras = [grand, basicX] := by decide +kernel
theorem load2 : (loadAll tbl0 [1, 0] bs0 s2.extras).toBool = true := by decide +kernel
example : ∃ sch l, findSchemeClass (noRestrictionsClass :: s2.schemes tbl0 [1, 0] bs0)
      (some "v1") (some "v1-x-pub") = .ok (some sch) ∧
    Spec.layoutOf (bs0 ++ s2.extras) "v1-x-pub" = some l ∧ sch.names = l.map (·.1) := by
  obtain ⟨⟨tbl', ss⟩, hload⟩ := RegistryLemmas.ok_of_toBool load2
  obtain ⟨_, hall⟩ := resolves_plain hload (by rw [s2_extras]; decide) (by rw [s2_extras]; decide)
    (by rw [s2_extras]; decide)
  obtain ⟨sch, l, hf, _, _, _, _, hl, hn⟩ := hall grand (by rw [s2_extras]; decide) (by decide)
  have hss : s2.schemes tbl0 [1, 0] bs0 = ss := by unfold RegState.schemes; rw [hload]
  rw [hss]
  exact ⟨sch, l, hf, hl, hn⟩

/-- the supported lists of the state's registry, computed -/
example : (s1.registry tbl0 [1, 0] bs0).supportedVersions = ["no-version", "v1", "v1", "v1", "v9", "v7"] ∧
    (s1.registry tbl0 [1, 0] bs0).supportedAnnotations =
      ["no-annotation-specification", "v1", "v1-x", "v1-x-pub", "v9-trim", "v7"] := by decide +kernel

/-- headers naming the registered `grand` (non-basic), the registered basic `v7` by its
    version only, and `v7` by both pragmas -/
def hGrand : Header := C13.parsed K0 ["#version v1".toList, "#annotation.spec v1-x-pub".toList] .silent
def hBasic : Header := C13.parsed K0 ["#version v7".toList] .silent
def hBasic2 : Header := C13.parsed K0 ["#version v7".toList, "#annotation.spec v7".toList] .silent

example (mode : Option Mode) : hGrand.validate K0 (s1.registry tbl0 [1, 0] bs0) mode true =
    ({ hGrand with errors := [] }, processErrors (mode.getD hGrand.mode) []) := by
  obtain ⟨⟨tbl', ss⟩, hload⟩ := RegistryLemmas.ok_of_toBool load1
  exact first_class hload (d := grand) (by rw [s1_extras]; decide) (by decide) (by decide) (by decide)
    K0 hGrand (by decide) (by decide) mode true

example (mode : Option Mode) : hBasic.validate K0 (s1.registry tbl0 [1, 0] bs0) mode true =
    ({ hBasic with errors := [] }, processErrors (mode.getD hBasic.mode) []) := by
  obtain ⟨⟨tbl', ss⟩, hload⟩ := RegistryLemmas.ok_of_toBool load1
  exact first_class_basic hload (d := basicX) (by rw [s1_extras]; decide) (by decide) (by decide)
    K0 hBasic (by decide) (by decide) mode true

example : (hBasic2.validate K0 (s1.registry tbl0 [1, 0] bs0) none true).1.errors =
    [C13.headerErr "HEADER_UNSUPPORTED_ANNOTATION_SPEC"] := by
  obtain ⟨⟨tbl', ss⟩, hload⟩ := RegistryLemmas.ok_of_toBool load1
  rw [basic_with_annotation_pragma hload (d := basicX) (by rw [s1_extras]; decide) (by decide) (by decide)
    K0 hBasic2 (by decide) (by decide) none true]
  rfl

/-- the same header against the registry *before* the registration: both errors -/
example : (hGrand.validate K0 (s0.registry tbl0 [1, 0] bs0) none true).1.errors =
      [C13.headerErr "HEADER_UNSUPPORTED_ANNOTATION_SPEC"] ∧
    (hBasic.validate K0 (s0.registry tbl0 [1, 0] bs0) none true).1.errors =
      [C13.headerErr "HEADER_UNSUPPORTED_VERSION", C13.headerErr "HEADER_MISSING_ANNOTATION_SPEC"] := by
  decide +kernel

/-- the built-in `child` keeps its layout: hypotheses of `builtins_unchanged` hold, and
    the declarative layouts agree -/
example : ∀ b ∈ bs0, C14.grounded bs0 b.annotation := by decide
example : Spec.layoutOf (bs0 ++ extras1) "v1-x" = Spec.layoutOf bs0 "v1-x" :=
  layout_unchanged extras1 (by decide)
example : ∃ sa sb,
    (s0.registry tbl0 [1, 0] bs0).findScheme (some "v1".toList) (some "v1-x".toList) = .ok (some sa) ∧
    (s1.registry tbl0 [1, 0] bs0).findScheme (some "v1".toList) (some "v1-x".toList) = .ok (some sb) ∧
    sa.names = sb.names ∧ sa.version = sb.version ∧ sa.annotation = sb.annotation := by
  obtain ⟨⟨tbl0', ss0⟩, h0⟩ := RegistryLemmas.ok_of_toBool load0
  obtain ⟨⟨tbl1', ss1⟩, h1⟩ := RegistryLemmas.ok_of_toBool load1
  exact builtins_unchanged_registry h0 h1 hcols1 hann1 (b := child) (by decide) (by decide)

/-- why `h0` is a hypothesis: built-ins whose chain leaves `bs` do not load alone, even
    though they load together with an extra that supplies the base -/
example : (loadAll tbl0 [1, 0] [child] []).toBool = false ∧
    (loadAll tbl0 [1, 0] [child] [root]).toBool = true := by decide +kernel

end Ex

end C20
