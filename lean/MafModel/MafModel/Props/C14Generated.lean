/-
  C14 instantiated at the shipped data: the hypotheses of the C14 theorems hold for
  `Generated.schemeDefs` / `Generated.classTable` (kernel-checked by `decide +kernel`;
  this file takes about a minute, which is why it is separate from `Props/C14`).
-/
import MafModel.Props.C14
import MafModel.Generated.SchemeDefs
import MafModel.Generated.ClassTable
import MafModel.Generated.Consts
open Py Model SchemeLemmas

namespace C14
set_option maxRecDepth 100000

/-- the initial state of the real factory -/
def genSt : BuildState := { tbl := Generated.classTable, order := Generated.extendClassOrder }

theorem generated_defsOK : DefsOK Generated.schemeDefs := by decide +kernel

theorem generated_grounded :
    ∀ d ∈ Generated.schemeDefs, grounded Generated.schemeDefs d.annotation := by decide +kernel

theorem generated_filtersOK : FiltersOK Generated.schemeDefs := by decide +kernel

/-- the class-level hypotheses, including that no two synthesised class names collide -/
theorem generated_classHyps : (match buildSchemes genSt Generated.schemeDefs with
    | .ok r => decide (ClassHyps Generated.schemeDefs genSt r.1)
    | .error _ => false) = true := by decide +kernel

/-- the shipped definitions build, in *every* load order and from any initial class
    table, and every load order yields the same versions, annotations and column names:
    those of `Spec.layoutOf` -/
theorem generated_any_order (ds' : List SchemeDef) (hp : Generated.schemeDefs.Perm ds')
    (st' : BuildState) :
    ∃ st1 built, buildSchemes st' ds' = .ok (st1, built) ∧
      ∀ d ∈ Generated.schemeDefs, ∃ s l, dictGet built d.annotation = some s ∧
        s.version = d.version ∧ s.annotation = d.annotation ∧
        Spec.layoutOf Generated.schemeDefs d.annotation = some l ∧ s.names = l.map (·.1) := by
  have hds' := generated_defsOK.perm hp
  have hok : ∃ r, buildSchemes genSt Generated.schemeDefs = .ok r :=
    (build_ok_iff generated_defsOK generated_filtersOK genSt).2 generated_grounded
  obtain ⟨⟨st1, built⟩, h⟩ := ((order_independent hp generated_defsOK genSt st').1).1 hok
  refine ⟨st1, built, h, fun d hd => ?_⟩
  obtain ⟨s, l, h1, h2, h3, h4, h5⟩ := layout_eq_resolve hds' h d (hp.mem_iff.1 hd)
  exact ⟨s, l, h1, h2, h3, by rw [layoutOf_perm hp generated_defsOK.1]; exact h4, h5⟩

/-- class level for the real run -/
theorem generated_class_layout {st1 : BuildState} {built : List (String × Scheme)}
    (h : buildSchemes genSt Generated.schemeDefs = .ok (st1, built)) :
    ∀ d ∈ Generated.schemeDefs, ∃ s l, dictGet built d.annotation = some s ∧
      Spec.layoutOf Generated.schemeDefs d.annotation = some l ∧
      readLayout st1.tbl s = l.map (fun q => (q.1, some q.2)) := by
  have hc := generated_classHyps
  rw [h] at hc
  exact class_layout generated_defsOK h (of_decide_eq_true hc)

end C14
