/-
  C11 / C12 / C19 — the overlap predicates of `LocatableOverlapIterator` (maflib/overlap_iter.py), translated from the
  source on every run and interpreted, are the hand model's `overlapsHead`: same chromosome (and, with barcode
  grouping, the same barcode pair) and `lo.start ≤ cur.start ≤ lo.end`, read from the *current* `end` of the running
  minimum (the loop widens it in place).
-/
import MafModel.Lemmas.BodiesEmb
import MafModel.Model.SortOrder
import MafModel.Model.Overlap
open Py PyIR Bodies Model

namespace C11Bodies

set_option maxHeartbeats 4000000

def embKV : KV → Val
  | .none => .none
  | .int i => .int i
  | .str s => .str s

/-- a `_CoordinateKey` object as `Locatable.__init__` leaves it -/
def coordKey (chr : KV) (start stop : Int) : Val :=
  .obj "_CoordinateKey" [("_chromosome", embKV chr), ("_start", .int start), ("_end", .int stop)]

/-- interpret `LocatableOverlapIterator.__overlaps(min_key, cur_key)` -/
def overlapsRun (H : Host) (a b : Val) : Except PyErr Val :=
  (run Generated.Bodies.program H "LocatableOverlapIterator" "_LocatableOverlapIterator__overlaps"
    [.cls "LocatableOverlapIterator", a, b]).map (·.1)

set_option hygiene false in
macro "fin" : tactic => `(tactic| (tree_leaf; simp only [Query.holds, beq_iff_eq, decide_eq_true_eq, decide_eq_false_iff_not, beq_eq_false_iff_ne, ne_eq] at *; simp [Except.map]; try (first | omega | (simp_all; done) | (simp_all; omega))))

/-- the walk over `lo.start ≤ cur.start ≤ lo.end` once the chromosome test has come out true -/
macro "positions" : tactic => `(tactic| (
  tree_split h2
  · tree_split h3
    · fin
    · tree_split h4
      · fin
      · fin
  · tree_split h3
    · tree_split h4
      · fin
      · tree_split h5
        · fin
        · fin
    · fin))

/-- `__overlaps` on two coordinate keys: same chromosome and `lo.start ≤ cur.start ≤ lo.end` -/
theorem overlaps_eq (H : Host) (c d : KV) (s e s' e' : Int) :
    overlapsRun H (coordKey c s e) (coordKey d s' e')
      = .ok (.bool (decide (c = d) && decide (s ≤ s') && decide (s' ≤ e))) := by
  refine Tree.Forall.eval (H := H) (t := runTree Generated.Bodies.program H "LocatableOverlapIterator" "_LocatableOverlapIterator__overlaps"
      [.cls "LocatableOverlapIterator", coordKey c s e, coordKey d s' e'])
    (P := fun (r : Except PyErr (Val × Env)) => Except.map (·.1) r = .ok (.bool (decide (c = d) && decide (s ≤ s') && decide (s' ≤ e)))) ?_
  cases c with
  | none => cases d with
    | none => positions
    | int j => fin
    | str t => fin
  | int i => cases d with
    | none => fin
    | int j =>
      tree_split h1
      · positions
      · fin
    | str t => fin
  | str u => cases d with
    | none => fin
    | int j => fin
    | str t =>
      tree_split h1
      · positions
      · fin


/-- a `_BarcodesAndCoordinateKey` object: the two barcode attributes, then what `Locatable.__init__` sets -/
def barcodeKey (tb nb chr : KV) (start stop : Int) : Val :=
  .obj "_BarcodesAndCoordinateKey" [("tumor_barcode", embKV tb), ("normal_barcode", embKV nb),
    ("_chromosome", embKV chr), ("_start", .int start), ("_end", .int stop)]

def overlapsBarcodeRun (H : Host) (a b : Val) : Except PyErr Val :=
  (run Generated.Bodies.program H "LocatableOverlapIterator" "_LocatableOverlapIterator__overlaps_with_barcode"
    [.cls "LocatableOverlapIterator", a, b]).map (·.1)

/-- `__overlaps` reads only the coordinate attributes: on barcode keys it is the same predicate -/
theorem overlaps_barcodeKey (H : Host) (tb nb tb' nb' c d : KV) (s e s' e' : Int) :
    overlapsRun H (barcodeKey tb nb c s e) (barcodeKey tb' nb' d s' e')
      = .ok (.bool (decide (c = d) && decide (s ≤ s') && decide (s' ≤ e))) := by
  refine Tree.Forall.eval (H := H) (t := runTree Generated.Bodies.program H "LocatableOverlapIterator" "_LocatableOverlapIterator__overlaps"
      [.cls "LocatableOverlapIterator", barcodeKey tb nb c s e, barcodeKey tb' nb' d s' e'])
    (P := fun (r : Except PyErr (Val × Env)) => Except.map (·.1) r = .ok (.bool (decide (c = d) && decide (s ≤ s') && decide (s' ≤ e)))) ?_
  cases c with
  | none => cases d with
    | none => positions
    | int j => fin
    | str t => fin
  | int i => cases d with
    | none => fin
    | int j =>
      tree_split h1
      · positions
      · fin
    | str t => fin
  | str u => cases d with
    | none => fin
    | int j => fin
    | str t =>
      tree_split h1
      · positions
      · fin



/-- the model's reading of a coordinate key: chromosome component, start, end -/
def coordOps : OvOps (KV × Int × Int) where
  lt := fun _ _ => false
  same := fun a b => decide (a.1 = b.1)
  start := fun a => a.2.1
  stop := fun a => a.2.2

/-- the translated `__overlaps`, read on the running minimum `lo` whose `end` has been widened to `hi`, is the model's
    `overlapsHead` (what `Model.sweepPass` tests each head with) -/
theorem overlaps_eq_overlapsHead (H : Host) (lo cur : KV × Int × Int) (hi : Int) :
    overlapsRun H (coordKey lo.1 lo.2.1 hi) (coordKey cur.1 cur.2.1 cur.2.2)
      = .ok (.bool (overlapsHead coordOps lo hi cur)) := by
  rw [overlaps_eq]; rfl

example : overlapsHead coordOps (.str "1".toList, 3, 9) 12 (.str "1".toList, 10, 11) = true := by decide

end C11Bodies
