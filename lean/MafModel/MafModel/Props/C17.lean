/-
  C17 — the reader's error list is compositional, in file order, and its line numbers are the
  physical line numbers.

  Notation (definitions in `Lemmas/ReaderLemmas.lean`):
  * `stripped lines`      — the input lines without their line ends;
  * `headerBlock K lines` — the maximal prefix of `stripped lines` whose elements start with the
                            start symbol; `headerLen K lines` (`k`) is its length;
  * the column-name line is `(stripped lines)[k]?`, physical line `k + 1`;
  * `dataLines K lines`   — `(stripped lines).drop (k + 1)`; data line `j` is physical line `k + 2 + j`;
  * `recordErrors C sch m n l` — the errors `Record.fromLine C l none sch (some n) (some m)` collects
                            (with the ghost origin `n` that `__next__` stamps on them);
  * `initErrorsOf K R lines given hd` — the scheme-mismatch / column-name errors of `__init__`.
-/
import MafModel.Lemmas.ReaderLemmas
import MafModel.Lemmas.ReaderHeader
import MafModel.Lemmas.ReaderExample
import MafModel.Props.C16
open Py Model
namespace C17

variable {C : Ctx} {K : HConsts} {R : Registry} {lines : List Text} {mode : Option Mode}
  {given : Option Scheme} {r r' : Reader} {recs : List Record}

/-- the errors of the header block, as `MafHeader.from_lines` collects them -/
def headerErrors (K : HConsts) (R : Registry) (lines : List Text) (mode : Option Mode) : List VErr :=
  (Header.fromLines K R ((stripped lines).take (headerLen K lines)) (some (modeOrSilent mode))).1.errors

/-- what a successful `Reader.init` leaves: the parsed header, the stringency, the scheme, and the
    header errors followed by the scheme / column-name errors -/
theorem init_state (hinit : Reader.init C K R lines mode given = .ok r) :
    r.header = (Header.fromLines K R ((stripped lines).take (headerLen K lines)) (some (modeOrSilent mode))).1 ∧
    r.mode = modeOrSilent mode ∧
    r.scheme = schemeOf K R lines given r.header ∧
    r.errors = headerErrors K R lines mode ++ initErrorsOf K R lines given r.header ∧
    At lines r (min (headerLen K lines + 1) lines.length) := by
  obtain ⟨hd, hlogs, lg, hfl, _, rfl⟩ := init_ok hinit
  rw [headerBlock_eq_take] at hfl
  unfold headerErrors
  rw [hfl]
  exact ⟨rfl, rfl, rfl, rfl, initReader_at ..⟩

/-- **C17 (compositional error list), general form.**  Whichever way the whole-file reading ends,
    the reader's error list is: the header errors, then the scheme / column-name errors, then the
    errors of the first `j` data lines in file order — where `j` is the number of records returned,
    plus one if it was the order checker that stopped the iteration (the offending record had
    already been parsed). -/
theorem compositional_prefix (hinit : Reader.init C K R lines mode given = .ok r) :
    ∃ j, (r.readAll C K).1.length ≤ j ∧ j ≤ (r.readAll C K).1.length + 1 ∧
      j ≤ (dataLines K lines).length ∧
      (r.readAll C K).2.2.errors =
        headerErrors K R lines mode ++ initErrorsOf K R lines given r.header ++
          ((dataLines K lines).take j).zipIdx.flatMap
            (fun p => recordErrors C r.scheme r.mode (headerLen K lines + 2 + p.2) p.1) ∧
      ((r.readAll C K).2.1 = none →
        j = (dataLines K lines).length ∧ (r.readAll C K).1.length = (dataLines K lines).length) := by
  obtain ⟨_, _, _, herr, hat⟩ := init_state hinit
  obtain ⟨j, hst, h1, h2, h3⟩ := readAll_spec (C := C) hat
  refine ⟨j, h1, h2, hst.le, ?_, h3⟩
  rw [hst.errors, herr]
  rfl

/-- **C17 (compositional error list).**  If the reader is constructed and the whole file is read
    without an exception (for `Silent` / `Lenient` and an order that is not sortable this is always
    so, see `C16.nonstrict_unsorted_total`), then the reader's error list is exactly

      header errors ++ scheme / column-name errors ++ (errors of data line 0) ++ (errors of data line 1) ++ …

    where the errors of data line `j` are those `Record.fromLine` collects for it when told it is
    line `k + 2 + j`.  No error is lost, duplicated or reordered. -/
theorem compositional (hinit : Reader.init C K R lines mode given = .ok r)
    (hread : r.readAll C K = (recs, none, r')) :
    r'.errors =
      headerErrors K R lines mode ++ initErrorsOf K R lines given r.header ++
        (dataLines K lines).zipIdx.flatMap
          (fun p => recordErrors C r.scheme r.mode (headerLen K lines + 2 + p.2) p.1) := by
  obtain ⟨j, _, _, _, herr, hnone⟩ := compositional_prefix hinit
  rw [hread] at herr hnone
  obtain ⟨rfl, _⟩ := hnone rfl
  simpa using herr

/-- **`from_line` reports the line number it was given** (`n`) on EVERY error it collects — none is
    left without a line number (the closing re-validation, which would report without one, finds
    nothing: every stored column has already passed its value check).
    (Stated for the model's `Record.fromLine` itself.) -/
theorem fromLine_line_numbers {l : Text} {names : Option (List Text)} {sch : Option Scheme} {n : Nat}
    {m : Option Mode} {rec : Record} {lg : List LogRec}
    (h : Record.fromLine C l names sch (some n) m = .ok (rec, lg)) :
    ∀ e ∈ rec.errors, e.line = some n := by
  rw [fromLine_spec] at h
  cases hp : parsedLine C l names sch (some n) with
  | error e => rw [hp] at h; cases h
  | ok prec =>
    rw [hp] at h
    simp only [] at h
    cases hpe : processErrors (modeOrSilent m) prec.errors with
    | error e => rw [hpe] at h; cases h
    | ok lg' =>
      rw [hpe] at h
      cases h
      exact fun e he => parsedLine_lines_all hp e he

/-- every error the reader collects for a data line carries that line's physical number -/
theorem record_errors_carry_line {sch : Option Scheme} {m : Mode} {n : Nat} {l : Text} {e : VErr}
    (he : e ∈ recordErrors C sch m n l) : e.line = some n ∧ e.origin = some n :=
  ⟨(recordErrors_lines he).2, (recordErrors_lines he).1⟩

/-- the scheme / column-name errors: `HEADER_MISMATCH_SCHEME` carries no line number, every
    column-name error carries the number `k + 1` of the column-name line -/
theorem initErrors_lines {hd : Header} {e : VErr} (he : e ∈ initErrorsOf K R lines given hd) :
    (e.line = none ∧ e.tpe = "HEADER_MISMATCH_SCHEME") ∨
    (e.line = some (headerLen K lines + 1) ∧ e.origin = some (headerLen K lines + 1)) := by
  rcases List.mem_append.1 he with h | h
  · exact .inl (initE1_lines h)
  · exact .inr (initE2_lines h)

/-- a file without a column-name line: `HEADER_MISSING_COLUMN_NAMES` is reported at line `k + 1` -/
theorem missing_column_names {hd : Header} (h : (stripped lines)[headerLen K lines]? = none) :
    { tpe := "HEADER_MISSING_COLUMN_NAMES", line := some (headerLen K lines + 1),
      origin := some (headerLen K lines + 1) } ∈ initErrorsOf K R lines given hd := by
  unfold initErrorsOf colNamesOf
  rw [h]
  simp [initE2_missing]

/-- **C17 (line numbers).**  Every error of the reader that carries a line number `n` is about
    physical line `n` of the input (`origin`, the ghost field, is the line the error was produced
    for), and:
    * `1 ≤ n ≤ k`: it is the diagnosis of header line `n`, i.e. of `(stripped lines)[n-1]`
      (`HeaderDiag`: what `HRec.fromLine` answers for that line, or its `HEADER_DUPLICATE_KEYS`);
    * `n = k + 1`: it is one of the column-name errors;
    * `n = k + 2 + j`: it is one of the errors `Record.fromLine` collects for data line `j`.
    This holds whichever way the reading ended. -/
theorem line_numbers (hinit : Reader.init C K R lines mode given = .ok r) :
    ∀ e ∈ (r.readAll C K).2.2.errors, ∀ n, e.line = some n →
      e.origin = some n ∧
      ((1 ≤ n ∧ n ≤ headerLen K lines ∧ HeaderDiag K (headerBlock K lines) 1 e) ∨
       (n = headerLen K lines + 1 ∧ e ∈ initErrorsOf K R lines given r.header) ∨
       (∃ j, ∃ hj : j < (dataLines K lines).length, n = headerLen K lines + 2 + j ∧
          e ∈ recordErrors C r.scheme r.mode (headerLen K lines + 2 + j) (dataLines K lines)[j])) := by
  intro e he n hn
  obtain ⟨j, _, _, _, herr, _⟩ := compositional_prefix hinit
  rw [herr] at he
  rcases List.mem_append.1 he with he | he
  · rcases List.mem_append.1 he with he | he
    · -- a header error
      unfold headerErrors at he
      rw [← headerBlock_eq_take, fromLines_spec] at he
      obtain ⟨perLine, whole, hsplit, hper, hwhole⟩ := parsedHeader_errors K R (headerBlock K lines)
      simp only [Header.withMode_errors] at he
      rw [hsplit] at he
      rcases List.mem_append.1 he with he | he
      · have hd := hper e he
        obtain ⟨i, hi, hl, ho, _⟩ := hper e he
        rw [hn] at hl
        simp only [Option.some.injEq] at hl
        refine ⟨by rw [ho, hl], .inl ⟨by omega, ?_, hd⟩⟩
        have : i < headerLen K lines := hi
        omega
      · rw [(hwhole e he).1] at hn; cases hn
    · -- a scheme / column-name error
      rcases initErrors_lines he with ⟨h1, _⟩ | ⟨h1, h2⟩
      · rw [h1] at hn; cases hn
      · rw [hn] at h1
        simp only [Option.some.injEq] at h1
        exact ⟨by rw [h2, h1], .inr (.inl ⟨h1, he⟩)⟩
  · -- an error of a data line
    obtain ⟨i, hi, _, hei⟩ := mem_errsUpTo (f := fun i l => recordErrors C r.scheme r.mode (headerLen K lines + 2 + i) l) he
    obtain ⟨ho, hl⟩ := recordErrors_lines hei
    rw [hn] at hl
    simp only [Option.some.injEq] at hl
    exact ⟨by rw [ho, hl], .inr (.inr ⟨i, hi, hl, hei⟩)⟩

/-- the ghost-field form of C17: a reported line number is the line the error was produced for -/
theorem line_eq_origin (hinit : Reader.init C K R lines mode given = .ok r) :
    ∀ e ∈ (r.readAll C K).2.2.errors, ∀ n, e.line = some n → e.origin = some n :=
  fun e he n hn => (line_numbers hinit e he n hn).1

/-! ### non-vacuity: the five-line example file of `Lemmas/ReaderExample.lean` -/
section examples
open Model.ReaderExample

private def tags (es : List VErr) : List (String × Option Nat × Option Nat) :=
  es.map (fun e => (e.tpe, e.line, e.origin))

/-- The hypotheses of `compositional` are met by the example file read in Silent mode, and the
    theorem computes its error list: the malformed header line 2, the two whole-header errors
    (no line number), and the short record on line 5 — in file order, with the physical line
    numbers. -/
example : ∃ r recs r', Reader.init exC exK exR exLines (some .silent) none = .ok r ∧
    r.readAll exC exK = (recs, none, r') ∧
    tags r'.errors =
      [("HEADER_LINE_MISSING_SEPARATOR", some 2, some 2), ("HEADER_UNSUPPORTED_VERSION", none, none),
       ("HEADER_MISSING_ANNOTATION_SPEC", none, none),
       ("RECORD_MISMATCH_NUMBER_OF_COLUMNS", some 5, some 5)] := by
  obtain ⟨r, hr, hf⟩ := exists_ok_of_map (x := Reader.init exC exK exR exLines (some .silent) none)
    (f := fun r => ((r.header.sortOrder exK).1.sortable == false &&
      r.scheme == some (noRestrictionsScheme ["Chromosome", "Start_Position", "End_Position"]) &&
      r.mode == .silent &&
      tags r.errors == [("HEADER_LINE_MISSING_SEPARATOR", some 2, some 2),
        ("HEADER_UNSUPPORTED_VERSION", none, none), ("HEADER_MISSING_ANNOTATION_SPEC", none, none)]))
    (b := true) (by decide)
  simp only [Bool.and_eq_true, beq_iff_eq] at hf
  obtain ⟨⟨⟨hsort, hsch⟩, hmode⟩, herrs⟩ := hf
  obtain ⟨recs, r', hread, _⟩ := C16.nonstrict_unsorted_total (C := exC) (by intro g h; cases h)
    (by intro s h; cases h) hr (by decide) hsort
  refine ⟨r, recs, r', hr, hread, ?_⟩
  have hcomp := compositional hr hread
  rw [← (init_state hr).2.2.2.1, hsch, hmode] at hcomp
  rw [hcomp]
  have hD : dataLines exK exLines = ["chr1\t10\t20".toList, "chr2\t5".toList] := by decide
  have hk : headerLen exK exLines = 2 := by decide
  have hnd := noRestrictionsScheme_names_nodup ["Chromosome", "Start_Position", "End_Position"]
  simp only [hD, hk, tags, List.map_append, List.zipIdx_cons, List.zipIdx_nil, List.flatMap_cons,
    List.flatMap_nil, List.append_nil, recordErrors_eval exC hnd (m := .silent) (by decide)]
  simp only [tags] at herrs
  rw [herrs]
  decide

end examples

end C17
