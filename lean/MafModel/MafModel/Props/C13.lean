/-
  C13 — header lines are parsed, diagnosed and printed faithfully.

  Statements about the model's `HRec.fromLine` (`MafHeaderRecord.from_line`),
  `Header.parseLines` / `Header.applyContigs` (`MafHeader.from_lines`), `HRec.render` /
  `Header.renderLines` (`str`), the accessors and `Header.validate`
  (`MafModel/Model/Header.lean`).  Helper lemmas live in `Lemmas/HeaderLemmas.lean`.

  `K : HConsts` is arbitrary; where needed it is assumed well-formed (`K.WF`: the four special keys
  are pairwise distinct and blank-free, and looking up a listed sort-order name gives an order that
  prints as exactly that name).  The real constants `K0` are well-formed (`K0_wf`) and agree with
  the regenerated constants (`K0_generated`).  Nothing depends on the start symbol being `'#'`.

  Vocabulary (from the lemma file):
  * `lineErr t n` — the diagnosis `⟨t, line := some n, origin := some n⟩`;
  * `kvResult K key v n` — the decision table for a line `# key ␣ v`;
  * `HVal.ofText K key value` — the value stored for `key` and stripped text `value`;
  * `okRecs K lines` — the records of the well-formed lines, in line order; `okKeys` their keys;
  * `keepFirst rs` — the first record of each key, in order of first occurrence;
  * `lineDiag K seen l n` — the diagnosis of line `l` (index `n`) given the keys seen before;
  * `HRec.Canon K r` — the record invariant; `Header.Inv K h` — entries filed under their own key,
    canonical, keys distinct; `Header.Fresh h` — no sort order carries a contig list yet;
  * `HRec.reset` — forget the contig list attached to a sort order.

  `C13.derived_fresh` (a derived header shares no mutable state with its source) is about object
  aliasing in Python (`deepcopy`); the model has value semantics, so there is nothing to state
  here.  It is covered by the differential check only.
-/
import MafModel.Lemmas.HeaderLemmas
import MafModel.Generated.Consts
open Py Model
namespace C13

/-! ## the constants -/

theorem K0_wf : K0.WF := Model.K0_WF

/-- `K0` is what the driver builds from the regenerated constants -/
theorem K0_generated :
    K0 = { versionKey := Generated.versionKey.toList,
           annotationKey := Generated.annotationSpecKey.toList,
           sortOrderKey := Generated.sortOrderKey.toList,
           contigKey := Generated.contigKey.toList,
           startSymbol := (Generated.headerLineStartSymbol.toList.head?).getD '#',
           sortOrders := Generated.sortOrders.map (fun p => (p.1.toList, p.2.1, p.2.2)) } := by
  rfl

/-! ## 1. `parse_exact` : one line -/

/-- **Every line is kept or diagnosed with exactly one error of the right category.**
    A line has one of three shapes, and `fromLine` answers accordingly:
    no start symbol → `HEADER_LINE_MISSING_START_SYMBOL`; start symbol and no blank after it →
    `HEADER_LINE_MISSING_SEPARATOR`; `# key ␣ v` with blank-free `key` → the table `kvResult`
    (spelled out by the theorems below). -/
theorem parse_exact (K : HConsts) (line : Text) (n : Nat) :
    ((∀ rest, line ≠ K.startSymbol :: rest) ∧
        HRec.fromLine K line n = .error (lineErr "HEADER_LINE_MISSING_START_SYMBOL" n)) ∨
    (∃ rest, line = K.startSymbol :: rest ∧ ' ' ∉ rest ∧
        HRec.fromLine K line n = .error (lineErr "HEADER_LINE_MISSING_SEPARATOR" n)) ∨
    (∃ key v, line = K.startSymbol :: (key ++ ' ' :: v) ∧ ' ' ∉ key ∧
        HRec.fromLine K line n = kvResult K key v n) := by
  rcases line_shape K line with h1 | ⟨rest, rfl, h2⟩ | ⟨key, v, rfl, h3⟩
  · left
    refine ⟨h1, ?_⟩
    cases line with
    | nil => rfl
    | cons c rest => exact fromLine_noStart K c rest n (fun e => h1 rest (by rw [e]))
  · right; left; exact ⟨rest, rfl, h2, fromLine_noSep K rest n h2⟩
  · right; right; exact ⟨key, v, rfl, h3, fromLine_kv K key v n h3⟩

/-- the table for `# key ␣ v`, row by row -/
theorem kv_empty_key (K : HConsts) (v : Text) (n : Nat) :
    kvResult K [] v n = .error (lineErr "HEADER_LINE_EMPTY_KEY" n) := by simp [kvResult]

theorem kv_empty_value (K : HConsts) {key v : Text} (n : Nat) (hk : key ≠ []) (hv : rstripWs v = []) :
    kvResult K key v n = .error (lineErr "HEADER_LINE_EMPTY_VALUE" n) := by simp [kvResult, hk, hv]

theorem kv_sort_order (K : HConsts) {key v : Text} (n : Nat) (hk : key ≠ []) (hv : rstripWs v ≠ [])
    (hs : key = K.sortOrderKey) {o : Order} (ho : orderOfName K (rstripWs v) = some o) :
    kvResult K key v n = .ok { key := key, value := .sortOrder o [] } := by
  subst hs
  simp [kvResult, hk, hv, HVal.ofText, ho]

theorem kv_unsupported_sort_order (K : HConsts) {key v : Text} (n : Nat) (hk : key ≠ [])
    (hv : rstripWs v ≠ []) (hs : key = K.sortOrderKey) (ho : orderOfName K (rstripWs v) = none) :
    kvResult K key v n = .error (lineErr "HEADER_UNSUPPORTED_SORT_ORDER" n) := by
  subst hs
  simp [kvResult, hk, hv, HVal.ofText, ho]

theorem kv_contigs (K : HConsts) {key v : Text} (n : Nat) (hk : key ≠ []) (hv : rstripWs v ≠ [])
    (hs : key ≠ K.sortOrderKey) (hc : key = K.contigKey) :
    kvResult K key v n = .ok { key := key, value := .contigs (splitOn ',' (rstripWs v)) } := by
  subst hc
  simp [kvResult, hk, hv, HVal.ofText, hs]

theorem kv_text (K : HConsts) {key v : Text} (n : Nat) (hk : key ≠ []) (hv : rstripWs v ≠ [])
    (hs : key ≠ K.sortOrderKey) (hc : key ≠ K.contigKey) :
    kvResult K key v n = .ok { key := key, value := .text (rstripWs v) } := by
  simp [kvResult, hk, hv, HVal.ofText, hs, hc]

/-! ### the same as equivalences -/

private theorem kvResult_ne_shape (K : HConsts) (key v : Text) (n : Nat) :
    kvResult K key v n ≠ .error (lineErr "HEADER_LINE_MISSING_START_SYMBOL" n) ∧
    kvResult K key v n ≠ .error (lineErr "HEADER_LINE_MISSING_SEPARATOR" n) := by
  unfold kvResult
  split
  · simp [lineErr]
  · split
    · simp [lineErr]
    · split <;> simp [lineErr]

theorem missing_start_iff (K : HConsts) (line : Text) (n : Nat) :
    (∀ rest, line ≠ K.startSymbol :: rest) ↔
      HRec.fromLine K line n = .error (lineErr "HEADER_LINE_MISSING_START_SYMBOL" n) := by
  rcases parse_exact K line n with ⟨h1, h2⟩ | ⟨rest, rfl, h1, h2⟩ | ⟨key, v, rfl, h1, h2⟩
  · exact ⟨fun _ => h2, fun _ => h1⟩
  · rw [h2]
    constructor
    · intro h; exact absurd rfl (h rest)
    · intro h; simp [lineErr] at h
  · rw [h2]
    constructor
    · intro h; exact absurd rfl (h _)
    · intro h; exact absurd h (kvResult_ne_shape K key v n).1

theorem missing_separator_iff (K : HConsts) (line : Text) (n : Nat) :
    (∃ rest, line = K.startSymbol :: rest ∧ ' ' ∉ rest) ↔
      HRec.fromLine K line n = .error (lineErr "HEADER_LINE_MISSING_SEPARATOR" n) := by
  rcases parse_exact K line n with ⟨h1, h2⟩ | ⟨rest, rfl, h1, h2⟩ | ⟨key, v, rfl, h1, h2⟩
  · rw [h2]
    constructor
    · rintro ⟨rest, e, -⟩; exact absurd e (h1 rest)
    · intro h; simp [lineErr] at h
  · exact ⟨fun _ => h2, fun _ => ⟨rest, rfl, h1⟩⟩
  · rw [h2]
    constructor
    · rintro ⟨rest, e, hr⟩
      injection e with _ e
      subst e
      simp at hr
    · intro h; exact absurd h (kvResult_ne_shape K key v n).2

section kv
variable (K : HConsts) {key v : Text} (n : Nat) (hb : ' ' ∉ key)
include hb

theorem empty_key_iff :
    key = [] ↔ HRec.fromLine K (K.startSymbol :: (key ++ ' ' :: v)) n =
      .error (lineErr "HEADER_LINE_EMPTY_KEY" n) := by
  rw [fromLine_kv K key v n hb]
  constructor
  · rintro rfl; exact kv_empty_key K v n
  · intro h
    unfold kvResult at h
    split at h
    · assumption
    · split at h
      · simp [lineErr] at h
      · split at h <;> simp [lineErr] at h

theorem empty_value_iff :
    (key ≠ [] ∧ rstripWs v = []) ↔ HRec.fromLine K (K.startSymbol :: (key ++ ' ' :: v)) n =
      .error (lineErr "HEADER_LINE_EMPTY_VALUE" n) := by
  rw [fromLine_kv K key v n hb]
  constructor
  · rintro ⟨h1, h2⟩; exact kv_empty_value K n h1 h2
  · intro h
    unfold kvResult at h
    split at h
    · simp [lineErr] at h
    · rename_i hk
      split at h
      · rename_i hv; exact ⟨hk, hv⟩
      · split at h <;> simp [lineErr] at h

theorem unsupported_sort_order_iff :
    (key ≠ [] ∧ rstripWs v ≠ [] ∧ key = K.sortOrderKey ∧ orderOfName K (rstripWs v) = none) ↔
      HRec.fromLine K (K.startSymbol :: (key ++ ' ' :: v)) n =
        .error (lineErr "HEADER_UNSUPPORTED_SORT_ORDER" n) := by
  rw [fromLine_kv K key v n hb]
  constructor
  · rintro ⟨h1, h2, h3, h4⟩; exact kv_unsupported_sort_order K n h1 h2 h3 h4
  · intro h
    unfold kvResult at h
    split at h
    · simp [lineErr] at h
    · rename_i hk
      split at h
      · simp [lineErr] at h
      · rename_i hv
        split at h
        · simp at h
        · rename_i hnone
          unfold HVal.ofText at hnone
          split at hnone
          · rename_i hs
            exact ⟨hk, hv, hs, by simpa using hnone⟩
          · split at hnone <;> simp at hnone

/-- the line is kept iff key and value are non-empty and (for the sort-order key) the name is
    recognised; the stored value is `HVal.ofText` -/
theorem ok_iff (r : HRec) :
    HRec.fromLine K (K.startSymbol :: (key ++ ' ' :: v)) n = .ok r ↔
      key ≠ [] ∧ rstripWs v ≠ [] ∧ r.key = key ∧ HVal.ofText K key (rstripWs v) = some r.value := by
  rw [fromLine_ok_iff]
  constructor
  · rintro ⟨v', e, h1, h2, h3, h4⟩
    injection e with _ e
    obtain ⟨rfl, rfl⟩ := kv_unique hb h1 e
    exact ⟨h2, h3, rfl, h4⟩
  · rintro ⟨h1, h2, rfl, h4⟩
    exact ⟨v, rfl, hb, h1, h2, h4⟩

end kv

/-- the stored value, case by case -/
theorem ofText_sort_order (K : HConsts) (value : Text) :
    HVal.ofText K K.sortOrderKey value = (orderOfName K value).map (fun o => .sortOrder o []) := by
  simp [HVal.ofText]

theorem ofText_contigs (K : HConsts) (value : Text) (h : K.contigKey ≠ K.sortOrderKey) :
    HVal.ofText K K.contigKey value = some (.contigs (splitOn ',' value)) := by
  simp [HVal.ofText, h]

theorem ofText_text (K : HConsts) (key value : Text) (h1 : key ≠ K.sortOrderKey)
    (h2 : key ≠ K.contigKey) : HVal.ofText K key value = some (.text value) := by
  simp [HVal.ofText, h1, h2]

/-- every error of `fromLine` carries the given line number (also as ghost origin) and is one of
    the five per-line categories -/
theorem error_line (K : HConsts) (line : Text) (n : Nat) (e : VErr)
    (h : HRec.fromLine K line n = .error e) :
    e.line = some n ∧ e.origin = some n ∧
      e.tpe ∈ ["HEADER_LINE_MISSING_START_SYMBOL", "HEADER_LINE_MISSING_SEPARATOR",
        "HEADER_LINE_EMPTY_KEY", "HEADER_LINE_EMPTY_VALUE", "HEADER_UNSUPPORTED_SORT_ORDER"] :=
  fromLine_error K line n e h

/-- under `K.WF` the four pragmas are parsed to the right kind of value -/
theorem pragma_version {K : HConsts} (W : K.WF) (v : Text) (n : Nat) (hv : rstripWs v ≠ [])
    (hk : K.versionKey ≠ []) :
    HRec.fromLine K (K.startSymbol :: (K.versionKey ++ ' ' :: v)) n =
      .ok { key := K.versionKey, value := .text (rstripWs v) } := by
  rw [fromLine_kv K _ v n (W.keys_noblank _ (by simp [HConsts.specialKeys]))]
  exact kv_text K n hk hv W.version_ne_sort W.version_ne_contig

theorem pragma_annotation {K : HConsts} (W : K.WF) (v : Text) (n : Nat) (hv : rstripWs v ≠ [])
    (hk : K.annotationKey ≠ []) :
    HRec.fromLine K (K.startSymbol :: (K.annotationKey ++ ' ' :: v)) n =
      .ok { key := K.annotationKey, value := .text (rstripWs v) } := by
  rw [fromLine_kv K _ v n (W.keys_noblank _ (by simp [HConsts.specialKeys]))]
  exact kv_text K n hk hv W.annotation_ne_sort W.annotation_ne_contig

theorem pragma_contigs {K : HConsts} (W : K.WF) (v : Text) (n : Nat) (hv : rstripWs v ≠ [])
    (hk : K.contigKey ≠ []) :
    HRec.fromLine K (K.startSymbol :: (K.contigKey ++ ' ' :: v)) n =
      .ok { key := K.contigKey, value := .contigs (splitOn ',' (rstripWs v)) } := by
  rw [fromLine_kv K _ v n (W.keys_noblank _ (by simp [HConsts.specialKeys]))]
  exact kv_contigs K n hk hv (Ne.symm W.sort_ne_contig) rfl

theorem pragma_sort_order {K : HConsts} (W : K.WF) (v : Text) (n : Nat) (o : Order)
    (ho : orderOfName K (rstripWs v) = some o) (hk : K.sortOrderKey ≠ []) :
    HRec.fromLine K (K.startSymbol :: (K.sortOrderKey ++ ' ' :: v)) n =
      .ok { key := K.sortOrderKey, value := .sortOrder o [] } := by
  rw [fromLine_kv K _ v n (W.keys_noblank _ (by simp [HConsts.specialKeys]))]
  refine kv_sort_order K n hk ?_ rfl ho
  intro e
  rw [← orderOfName_name W ho] at e
  exact o.name_ne_nil e

/-! ## 1. `parse_exact` : all lines -/

/-- the parse of `lines` into an empty header with stringency `m` (the line-by-line part of
    `MafHeader.from_lines`) -/
abbrev parsed (K : HConsts) (lines : List Text) (m : Mode) : Header :=
  Header.parseLines K 1 lines { mode := m }

/-- **The kept records are exactly the first well-formed line of each key, in order of first
    occurrence**, each filed under its own key. -/
theorem parse_kept (K : HConsts) (lines : List Text) (m : Mode) :
    (parsed K lines m).recs = (keepFirst (okRecs K lines)).map (fun r => (r.key, r)) :=
  parseLines_recs K lines 1 m

/-- `okRecs`: the results of the well-formed lines -/
theorem mem_okRecs_iff (K : HConsts) (lines : List Text) (r : HRec) :
    r ∈ okRecs K lines ↔ ∃ l ∈ lines, ∀ n, HRec.fromLine K l n = .ok r := by
  rw [mem_okRecs]
  constructor
  · rintro ⟨l, hl, h⟩; exact ⟨l, hl, fun n => fromLine_ok_indep h n⟩
  · rintro ⟨l, hl, h⟩; exact ⟨l, hl, h 0⟩

/-- `keepFirst`, declaratively: a record is kept iff no record before it has its key … -/
theorem kept_iff_first (rs : List HRec) (r : HRec) :
    r ∈ keepFirst rs ↔ ∃ pre post, rs = pre ++ r :: post ∧ ∀ s ∈ pre, s.key ≠ r.key :=
  mem_keepFirst_iff rs r

/-- … the kept records are the subsequence at the positions of first occurrence (this fixes the
    order) … -/
theorem kept_positions (rs : List HRec) :
    keepFirst rs =
      (rs.zipIdx.filter (fun p => (rs.take p.2).all (fun s => s.key ≠ p.1.key))).map (·.1) :=
  keepFirst_positions rs 0

/-- … and their keys are pairwise distinct. -/
theorem kept_keys_distinct (K : HConsts) (lines : List Text) (m : Mode) :
    (parsed K lines m).keys.Pairwise (· ≠ ·) := by
  unfold parsed
  rw [parseLines_keys]; exact keepFirst_keys_distinct _

/-- a lookup in the parsed header finds the first well-formed line with that key -/
theorem parse_get (K : HConsts) (lines : List Text) (m : Mode) (k : Text) :
    (parsed K lines m).get k = (okRecs K lines).find? (fun r => r.key == k) :=
  parseLines_get K lines 1 m k

/-- **The errors are, in line order, the diagnosis of each line**: line number `n` (1-based) is
    diagnosed against the keys of the well-formed lines before it. -/
theorem parse_errors (K : HConsts) (lines : List Text) (m : Mode) :
    (parsed K lines m).errors =
      (lines.zipIdx 1).flatMap
        (fun p => lineDiag K (okKeys K (lines.take (p.2 - 1))) p.1 p.2) := by
  unfold parsed
  rw [parseLines_errors, errsFrom_eq_flatMap]
  simp

/-- the diagnosis of one line: its own error; `HEADER_DUPLICATE_KEYS` when it is well-formed and
    an earlier well-formed line has its key; nothing otherwise -/
theorem diag_error {K : HConsts} {seen : List Text} {l : Text} {n : Nat} {e : VErr}
    (h : HRec.fromLine K l n = .error e) : lineDiag K seen l n = [e] := by
  simp [lineDiag, h]

theorem diag_duplicate {K : HConsts} {seen : List Text} {l : Text} {n : Nat} {r : HRec}
    (h : HRec.fromLine K l n = .ok r) (hk : r.key ∈ seen) :
    lineDiag K seen l n = [lineErr "HEADER_DUPLICATE_KEYS" n] := by
  simp [lineDiag, h, hk]

theorem diag_kept {K : HConsts} {seen : List Text} {l : Text} {n : Nat} {r : HRec}
    (h : HRec.fromLine K l n = .ok r) (hk : r.key ∉ seen) : lineDiag K seen l n = [] := by
  simp [lineDiag, h, hk]

/-- "already seen" means: the key of an earlier well-formed line -/
theorem mem_okKeys_iff (K : HConsts) (pre : List Text) (k : Text) :
    k ∈ okKeys K pre ↔ ∃ l ∈ pre, ∃ s, (∀ n, HRec.fromLine K l n = .ok s) ∧ s.key = k := by
  simp only [okKeys, List.mem_map, mem_okRecs_iff]
  constructor
  · rintro ⟨s, ⟨l, hl, h⟩, rfl⟩; exact ⟨l, hl, s, h, rfl⟩
  · rintro ⟨l, hl, s, h, rfl⟩; exact ⟨s, ⟨l, hl, h⟩, rfl⟩

/-- a line gets at most one error -/
theorem diag_length_le_one (K : HConsts) (seen : List Text) (l : Text) (n : Nat) :
    (lineDiag K seen l n).length ≤ 1 := by
  unfold lineDiag
  split
  · simp
  · split <;> simp

/-- every error of a diagnosis carries the line's number -/
theorem diag_line {K : HConsts} {seen : List Text} {l : Text} {n : Nat} {e : VErr}
    (h : e ∈ lineDiag K seen l n) : e.line = some n ∧ e.origin = some n := by
  unfold lineDiag at h
  split at h
  · rename_i e' he
    simp only [List.mem_singleton] at h
    subst h
    exact ⟨(fromLine_error K l n _ he).1, (fromLine_error K l n _ he).2.1⟩
  · split at h
    · simp only [List.mem_singleton] at h
      subst h
      exact ⟨rfl, rfl⟩
    · simp at h

/-- **`line_numbers`**: every error of the parse reports the 1-based position of its line, and is
    the diagnosis of that line. -/
theorem line_numbers (K : HConsts) (lines : List Text) (m : Mode) :
    ∀ e ∈ (parsed K lines m).errors,
      ∃ n, e.line = some n ∧ e.origin = some n ∧ 1 ≤ n ∧ ∃ hn : n - 1 < lines.length,
        n ≤ lines.length ∧
        e ∈ lineDiag K (okKeys K (lines.take (n - 1))) (lines[n - 1]) n := by
  intro e he
  rw [parse_errors, List.mem_flatMap] at he
  obtain ⟨⟨l, n⟩, hp, hd⟩ := he
  obtain ⟨h1, h2, h3⟩ := List.mem_zipIdx hp
  simp only at hd h3
  refine ⟨n, (diag_line hd).1, (diag_line hd).2, h1, by omega, by omega, ?_⟩
  rw [← h3]; exact hd

/-- the parse keeps the stringency it was given -/
theorem parse_mode (K : HConsts) (lines : List Text) (m : Mode) : (parsed K lines m).mode = m :=
  parseLines_mode K lines 1 _

/-- the parsed header satisfies the invariant, and no sort order carries contigs yet -/
theorem parse_inv {K : HConsts} (W : K.WF) (lines : List Text) (m : Mode) :
    (parsed K lines m).Inv K ∧ (parsed K lines m).Fresh :=
  parseLines_inv W lines 1 m

/-! ## 2. `print_parse_id` -/

/-- every record `fromLine` returns is canonical and carries no contig list -/
theorem fromLine_canon {K : HConsts} (W : K.WF) {line : Text} {n : Nat} {r : HRec}
    (h : HRec.fromLine K line n = .ok r) : r.Canon K ∧ r.reset = r :=
  Model.fromLine_canon W h

/-- **Printing is faithful**: a kept line prints as itself minus the trailing whitespace. -/
theorem render_parsed_line {K : HConsts} (W : K.WF) {key v : Text} {n : Nat} {r : HRec}
    (hk : ' ' ∉ key) (h : HRec.fromLine K (K.startSymbol :: (key ++ ' ' :: v)) n = .ok r) :
    r.render K = K.startSymbol :: (key ++ ' ' :: rstripWs v) :=
  fromLine_render_line W hk h

/-- **Parsing a printed canonical record gives the record back** (a sort order without its contig
    list, which `fromLine` never sets and `applyContigs` restores). -/
theorem parse_render_record {K : HConsts} {r : HRec} (h : r.Canon K) (n : Nat) :
    HRec.fromLine K (r.render K) n = .ok r.reset :=
  fromLine_render h n

/-- Re-parsing the printed lines of any header satisfying the invariant: no errors, and the same
    records up to the contig lists of sort orders. -/
theorem reparse {K : HConsts} {h : Header} (hi : h.Inv K) (m' : Mode) :
    Header.parseLines K 1 (h.renderLines K) { mode := m' } =
      { recs := h.recs.map (fun p => (p.1, p.2.reset)), errors := [], mode := m' } := by
  have hmap : h.renderLines K = (h.recs.map (·.2)).map (HRec.render K) := by
    simp [Header.renderLines]
  rw [hmap, parseLines_rendered]
  · simp only [List.nil_append, List.map_map]
    congr 1
    apply List.map_congr_left
    intro p hp
    simp [hi.key_eq p hp]
  · intro r hr
    obtain ⟨p, hp, rfl⟩ := List.mem_map.mp hr
    exact hi.canon p hp
  · have : (h.recs.map (·.2)).map (·.key) = h.keys := by
      simp only [List.map_map, Header.keys]
      apply List.map_congr_left
      intro p hp; exact hi.key_eq p hp
    rw [this]; exact hi.distinct
  · simp [Header.keys]

/-- **`print_parse_id`**: print the header parsed from `lines` (with the contigs applied to the sort
    order) and parse the printed lines again: the second parse reports no error, keeps exactly the
    records of the first parse, and after `applyContigs` has exactly the records of the printed
    header. -/
theorem print_parse_id {K : HConsts} (W : K.WF) (lines : List Text) (m m' : Mode) :
    let h := (parsed K lines m).applyContigs K
    let q := Header.parseLines K 1 (h.renderLines K) { mode := m' }
    q.errors = [] ∧ q.recs = (parsed K lines m).recs ∧ (q.applyContigs K).recs = h.recs := by
  intro h q
  have hp := parse_inv W lines m
  have hi : h.Inv K := applyContigs_inv hp.1
  have hq : q = { recs := (parsed K lines m).recs, errors := [], mode := m' } := by
    show Header.parseLines K 1 (h.renderLines K) { mode := m' } = _
    rw [reparse hi m', applyContigs_reset hp.1, hp.2.map_reset]
  refine ⟨by rw [hq], by rw [hq], ?_⟩
  exact applyContigs_recs_congr K (by rw [hq])

/-- with the same stringency the whole header comes back, minus the errors of the first parse
    (the printed header is error-free) -/
theorem print_parse_id_header {K : HConsts} (W : K.WF) (lines : List Text) (m : Mode) :
    let h := (parsed K lines m).applyContigs K
    (Header.parseLines K 1 (h.renderLines K) { mode := m }).applyContigs K =
      { h with errors := [] } := by
  intro h
  have hp := parse_inv W lines m
  have hi : h.Inv K := applyContigs_inv hp.1
  have hq : Header.parseLines K 1 (h.renderLines K) { mode := m } =
      { parsed K lines m with errors := [] } := by
    rw [reparse hi m, applyContigs_reset hp.1, hp.2.map_reset, Header.mk.injEq]
    exact ⟨rfl, rfl, (parse_mode K lines m).symm⟩
  have h3 := (print_parse_id W lines m m).2.2
  generalize hq' : (Header.parseLines K 1 (h.renderLines K) { mode := m }).applyContigs K = q' at h3
  have e1 : q'.errors = [] := by rw [← hq', applyContigs_errors, hq]
  have e2 : q'.mode = h.mode := by
    rw [← hq', applyContigs_mode, hq]
    show (parsed K lines m).mode = ((parsed K lines m).applyContigs K).mode
    rw [applyContigs_mode]
  obtain ⟨r, e, mo⟩ := q'
  simp only at h3 e1 e2
  subst h3 e1 e2
  rfl

/-- consequently printing is a fixpoint: the re-parsed header prints the same lines -/
theorem print_fixpoint {K : HConsts} (W : K.WF) (lines : List Text) (m m' : Mode) :
    let h := (parsed K lines m).applyContigs K
    ((Header.parseLines K 1 (h.renderLines K) { mode := m' }).applyContigs K).renderLines K =
      h.renderLines K := by
  intro h
  exact congrArg (fun rs => rs.map (fun p => p.2.render K)) (print_parse_id W lines m m').2.2

/-! ## 3. `accessors` -/

/-- with distinct keys, a lookup returns exactly the entry filed under the key -/
theorem get_iff_mem {h : Header} (hd : h.keys.Pairwise (· ≠ ·)) (k : Text) (r : HRec) :
    h.get k = some r ↔ (k, r) ∈ h.recs :=
  ⟨Header.mem_of_get, Header.get_of_mem hd⟩

theorem get_none_iff (h : Header) (k : Text) : h.get k = none ↔ k ∉ h.keys :=
  Header.get_eq_none_iff h k

/-- `version()` is the printed value of the kept version pragma … -/
theorem version_iff {K : HConsts} {h : Header} (hd : h.keys.Pairwise (· ≠ ·)) (t : Text) :
    h.version K = some t ↔ ∃ r, (K.versionKey, r) ∈ h.recs ∧ r.value.str = t := by
  simp only [Header.version, Option.map_eq_some_iff, get_iff_mem hd]

/-- … and `None` exactly when there is none -/
theorem version_none_iff (K : HConsts) (h : Header) :
    h.version K = none ↔ K.versionKey ∉ h.keys := by
  simp only [Header.version, Option.map_eq_none_iff, get_none_iff]

theorem annotation_iff {K : HConsts} {h : Header} (hd : h.keys.Pairwise (· ≠ ·)) (t : Text) :
    h.annotation K = some t ↔ ∃ r, (K.annotationKey, r) ∈ h.recs ∧ r.value.str = t := by
  simp only [Header.annotation, Option.map_eq_some_iff, get_iff_mem hd]

theorem annotation_none_iff (K : HConsts) (h : Header) :
    h.annotation K = none ↔ K.annotationKey ∉ h.keys := by
  simp only [Header.annotation, Option.map_eq_none_iff, get_none_iff]

/-- `contigs()` is the list of the kept contigs pragma … -/
theorem contigs_iff {K : HConsts} {h : Header} (hd : h.keys.Pairwise (· ≠ ·)) (cs : List Text) :
    h.contigs K = some cs ↔ ∃ r, (K.contigKey, r) ∈ h.recs ∧ r.value = .contigs cs := by
  unfold Header.contigs
  constructor
  · intro hh
    split at hh
    · rename_i k cs' hg
      injection hh with hh
      subst hh
      exact ⟨_, (get_iff_mem hd _ _).mp hg, rfl⟩
    · simp at hh
  · rintro ⟨r, hr, hv⟩
    obtain ⟨k, v⟩ := r
    simp only at hv
    subst hv
    rw [(get_iff_mem hd _ _).mpr hr]

/-- the record filed under the contigs key of a header satisfying the invariant is a contig list
    (non-empty, its elements free of `,`) -/
theorem contigs_record {K : HConsts} (W : K.WF) {h : Header} (hi : h.Inv K) {r : HRec}
    (hr : (K.contigKey, r) ∈ h.recs) :
    ∃ cs, r.value = .contigs cs ∧ cs ≠ [] ∧ ∀ c ∈ cs, ',' ∉ c := by
  have hk : r.key = K.contigKey := hi.key_eq _ hr
  have hc := (hi.canon _ hr).value
  rw [hk] at hc
  cases hv : r.value with
  | contigs cs => rw [hv] at hc; exact ⟨cs, rfl, hc.2.2.1, hc.2.2.2.1⟩
  | text t => rw [hv] at hc; exact absurd rfl hc.2.1
  | sortOrder o cs => rw [hv] at hc; exact absurd hc.1.symm W.sort_ne_contig

/-- … and `None` exactly when there is none -/
theorem contigs_none_iff {K : HConsts} (W : K.WF) {h : Header} (hi : h.Inv K) :
    h.contigs K = none ↔ K.contigKey ∉ h.keys := by
  constructor
  · intro hn hk
    obtain ⟨p, hp, e⟩ := List.mem_map.mp hk
    obtain ⟨k, r⟩ := p
    simp only at e
    subst e
    obtain ⟨cs, hv, -⟩ := contigs_record W hi hp
    have := (contigs_iff hi.distinct cs).mpr ⟨r, hp, hv⟩
    rw [hn] at this; simp at this
  · intro hk
    unfold Header.contigs
    rw [(get_none_iff h _).mpr hk]

/-- `sort_order()` is the order (with its contig list) of the kept sort-order pragma … -/
theorem sortOrder_of_mem {K : HConsts} {h : Header} (hd : h.keys.Pairwise (· ≠ ·)) {r : HRec}
    {o : Order} {cs : List Text} (hr : (K.sortOrderKey, r) ∈ h.recs) (hv : r.value = .sortOrder o cs) :
    h.sortOrder K = (o, cs) := by
  obtain ⟨k, v⟩ := r
  simp only at hv
  subst hv
  unfold Header.sortOrder
  rw [(get_iff_mem hd _ _).mpr hr]

/-- … and `Unsorted()` when there is none -/
theorem sortOrder_absent {K : HConsts} {h : Header} (hk : K.sortOrderKey ∉ h.keys) :
    h.sortOrder K = (.unsorted, []) := by
  unfold Header.sortOrder
  rw [(get_none_iff h _).mpr hk]

/-- the record filed under the sort-order key of a header satisfying the invariant is a sort
    order -/
theorem sortOrder_record {K : HConsts} {h : Header} (hi : h.Inv K) {r : HRec}
    (hr : (K.sortOrderKey, r) ∈ h.recs) : ∃ o cs, r.value = .sortOrder o cs := by
  have hk : r.key = K.sortOrderKey := hi.key_eq _ hr
  have hc := (hi.canon _ hr).value
  rw [hk] at hc
  cases hv : r.value with
  | sortOrder o cs => exact ⟨o, cs, rfl⟩
  | text t => rw [hv] at hc; exact absurd rfl hc.1
  | contigs cs => rw [hv] at hc; exact absurd rfl hc.1

/-- the two cases are exhaustive under the invariant -/
theorem sortOrder_cases {K : HConsts} {h : Header} (hi : h.Inv K) :
    (∃ r o cs, (K.sortOrderKey, r) ∈ h.recs ∧ r.value = .sortOrder o cs ∧ h.sortOrder K = (o, cs)) ∨
    (K.sortOrderKey ∉ h.keys ∧ h.sortOrder K = (.unsorted, [])) := by
  by_cases hk : K.sortOrderKey ∈ h.keys
  · left
    obtain ⟨p, hp, e⟩ := List.mem_map.mp hk
    obtain ⟨k, r⟩ := p
    simp only at e
    subst e
    obtain ⟨o, cs, hv⟩ := sortOrder_record hi hp
    exact ⟨r, o, cs, hp, hv, sortOrder_of_mem hi.distinct hp hv⟩
  · right; exact ⟨hk, sortOrder_absent hk⟩

/-- for a parsed header the accessors read the first well-formed line of the key -/
theorem parsed_version (K : HConsts) (lines : List Text) (m : Mode) :
    (parsed K lines m).version K =
      ((okRecs K lines).find? (fun r => r.key == K.versionKey)).map (·.value.str) := by
  simp only [Header.version, parse_get]

theorem parsed_annotation (K : HConsts) (lines : List Text) (m : Mode) :
    (parsed K lines m).annotation K =
      ((okRecs K lines).find? (fun r => r.key == K.annotationKey)).map (·.value.str) := by
  simp only [Header.annotation, parse_get]

/-- a fresh header's sort order has no contigs -/
theorem fresh_sortOrder {K : HConsts} {h : Header} (hf : h.Fresh) : (h.sortOrder K).2 = [] := by
  unfold Header.sortOrder
  split
  · rename_i k o cs hg
    have := hf _ (Header.mem_of_get hg)
    simp only [HRec.reset, HVal.reset] at this
    injection this with _ this
    injection this with _ this
    exact this.symm
  · rfl

/-- **after `applyContigs`**: version, annotation and contigs are untouched … -/
theorem applyContigs_accessors {K : HConsts} (W : K.WF) {h : Header} (hi : h.Inv K) :
    (h.applyContigs K).version K = h.version K ∧
    (h.applyContigs K).annotation K = h.annotation K ∧
    (h.applyContigs K).contigs K = h.contigs K := by
  refine ⟨?_, ?_, ?_⟩
  · simp only [Header.version, applyContigs_get hi W.version_ne_sort]
  · simp only [Header.annotation, applyContigs_get hi W.annotation_ne_sort]
  · simp only [Header.contigs, applyContigs_get hi (Ne.symm W.sort_ne_contig)]

/-- … and the sort order keeps its order; a sortable one carries exactly the list of the contigs
    pragma (none: the empty list), a non-sortable one carries `[]`. -/
theorem applyContigs_sortOrder {K : HConsts} (W : K.WF) {h : Header} (hi : h.Inv K) (hf : h.Fresh) :
    (h.applyContigs K).sortOrder K =
      ((h.sortOrder K).1, if (h.sortOrder K).1.sortable then (h.contigs K).getD [] else []) := by
  rw [Model.applyContigs_sortOrder hi]
  have h0 := fresh_sortOrder (K := K) hf
  cases hc : h.contigs K with
  | none =>
    simp only [Option.getD_none, ite_self]
    rw [← h0]
  | some cs =>
    obtain ⟨r, hr, hv⟩ := (contigs_iff hi.distinct cs).mp hc
    obtain ⟨cs', hv', hne, -⟩ := contigs_record W hi hr
    rw [hv] at hv'
    injection hv' with hv'
    subst hv'
    have : cs.isEmpty = false := by cases cs with
      | nil => exact absurd rfl hne
      | cons a b => rfl
    simp only [this, Bool.not_false, Bool.true_and, Option.getD_some]
    split
    · rfl
    · rw [← h0]

/-- the instance for `from_lines`: the header after the line-by-line parse and `applyContigs` -/
theorem accessors {K : HConsts} (W : K.WF) (lines : List Text) (m : Mode) :
    let p := parsed K lines m
    let h := p.applyContigs K
    h.version K = p.version K ∧ h.annotation K = p.annotation K ∧ h.contigs K = p.contigs K ∧
    h.sortOrder K =
      ((p.sortOrder K).1, if (p.sortOrder K).1.sortable then (p.contigs K).getD [] else []) ∧
    h.Inv K := by
  intro p h
  have hp := parse_inv W lines m
  have := applyContigs_accessors W hp.1
  exact ⟨this.1, this.2.1, this.2.2, applyContigs_sortOrder W hp.1 hp.2, applyContigs_inv hp.1⟩

/-! ## 4. `validate_rules` -/

/-- a header-level error: no line number -/
def headerErr (t : String) : VErr := { tpe := t, line := none }

/-- the version check -/
def versionErrs (K : HConsts) (R : Registry) (h : Header) : List VErr :=
  match h.version K with
  | none => [headerErr "HEADER_MISSING_VERSION"]
  | some v => if String.ofList v ∈ R.supportedVersions then []
              else [headerErr "HEADER_UNSUPPORTED_VERSION"]

/-- the annotation check -/
def annotationErrs (K : HConsts) (R : Registry) (h : Header) : List VErr :=
  if ∃ s, h.scheme K R = some s ∧ s.isBasic = true then
    (if (h.annotation K).isSome then [headerErr "HEADER_UNSUPPORTED_ANNOTATION_SPEC"] else [])
  else match h.annotation K with
    | none => [headerErr "HEADER_MISSING_ANNOTATION_SPEC"]
    | some a => if String.ofList a ∈ R.supportedAnnotations then []
                else [headerErr "HEADER_UNSUPPORTED_ANNOTATION_SPEC"]

/-- **`validate`**: the records and the stringency are untouched; the version error, then the
    annotation error are appended to the old errors (or to nothing when `reset`); the outcome is
    `processErrors` of the stringency in force on the new error list. -/
theorem validate_rules (K : HConsts) (R : Registry) (h : Header) (mode : Option Mode) (reset : Bool) :
    let errs := (if reset then [] else h.errors) ++ versionErrs K R h ++ annotationErrs K R h
    h.validate K R mode reset =
      ({ h with errors := errs }, processErrors (mode.getD h.mode) errs) := by
  have e1 : (match h.version K with
      | none => [({ tpe := "HEADER_MISSING_VERSION", line := none } : VErr)]
      | some v => if R.supportedVersions.contains (String.ofList v) then []
                  else [{ tpe := "HEADER_UNSUPPORTED_VERSION", line := none }]) =
      versionErrs K R h := by
    unfold versionErrs
    cases h.version K with
    | none => rfl
    | some v => simp [headerErr]
  have e2 : (match (h.scheme K R).filter Scheme.isBasic with
      | some _ => if (h.get K.annotationKey).isSome then
          [({ tpe := "HEADER_UNSUPPORTED_ANNOTATION_SPEC", line := none } : VErr)] else []
      | none => match h.annotation K with
        | none => [{ tpe := "HEADER_MISSING_ANNOTATION_SPEC", line := none }]
        | some a => if R.supportedAnnotations.contains (String.ofList a) then []
                    else [{ tpe := "HEADER_UNSUPPORTED_ANNOTATION_SPEC", line := none }]) =
      annotationErrs K R h := by
    unfold annotationErrs
    have hsome : (h.get K.annotationKey).isSome = (h.annotation K).isSome := by
      simp [Header.annotation]
    cases hs : h.scheme K R with
    | none =>
      simp only [Option.filter_none, reduceCtorEq, false_and, exists_false, if_false]
      cases h.annotation K with
      | none => rfl
      | some a => simp [headerErr]
    | some s =>
      by_cases hb : s.isBasic = true
      · simp [Option.filter, hb, hsome, headerErr]
      · simp only [Option.filter, hb, Bool.false_eq_true, if_false, Option.some.injEq,
          exists_eq_left']
        cases h.annotation K with
        | none => rfl
        | some a => simp [headerErr]
  intro errs
  have hE : (h.validate K R mode reset).1.errors = errs := by
    unfold Header.validate
    simp only []
    exact congr (congrArg HAppend.hAppend (congr (congrArg HAppend.hAppend rfl) e1)) e2
  have h1 : (h.validate K R mode reset).1 =
      { h with errors := (h.validate K R mode reset).1.errors } := rfl
  have h2 : (h.validate K R mode reset).2 =
      processErrors (mode.getD h.mode) (h.validate K R mode reset).1.errors := rfl
  apply Prod.ext
  · rw [h1, hE]
  · rw [h2, hE]

/-- the version rule, as a table -/
theorem version_rule (K : HConsts) (R : Registry) (h : Header) :
    (h.version K = none → versionErrs K R h = [headerErr "HEADER_MISSING_VERSION"]) ∧
    (∀ v, h.version K = some v → String.ofList v ∈ R.supportedVersions → versionErrs K R h = []) ∧
    (∀ v, h.version K = some v → String.ofList v ∉ R.supportedVersions →
      versionErrs K R h = [headerErr "HEADER_UNSUPPORTED_VERSION"]) := by
  unfold versionErrs
  refine ⟨fun e => by rw [e], fun v e hv => by rw [e]; simp [hv], fun v e hv => by rw [e]; simp [hv]⟩

/-- the annotation rule, as a table: with a basic scheme an annotation pragma must be absent;
    otherwise it must be present and supported -/
theorem annotation_rule (K : HConsts) (R : Registry) (h : Header) :
    (∀ s, h.scheme K R = some s → s.isBasic = true →
      (annotationErrs K R h = [headerErr "HEADER_UNSUPPORTED_ANNOTATION_SPEC"] ↔
        K.annotationKey ∈ h.keys) ∧
      (annotationErrs K R h = [] ↔ K.annotationKey ∉ h.keys)) ∧
    ((∀ s, h.scheme K R = some s → s.isBasic = false) →
      (h.annotation K = none → annotationErrs K R h = [headerErr "HEADER_MISSING_ANNOTATION_SPEC"]) ∧
      (∀ a, h.annotation K = some a → String.ofList a ∈ R.supportedAnnotations →
        annotationErrs K R h = []) ∧
      (∀ a, h.annotation K = some a → String.ofList a ∉ R.supportedAnnotations →
        annotationErrs K R h = [headerErr "HEADER_UNSUPPORTED_ANNOTATION_SPEC"])) := by
  constructor
  · intro s hs hb
    have hc : ∃ s, h.scheme K R = some s ∧ s.isBasic = true := ⟨s, hs, hb⟩
    unfold annotationErrs
    rw [if_pos hc]
    by_cases hk : K.annotationKey ∈ h.keys
    · have : (h.annotation K).isSome = true := by
        cases ha : h.annotation K with
        | none => exact absurd hk ((annotation_none_iff K h).mp ha)
        | some a => rfl
      simp [this, hk]
    · have : h.annotation K = none := (annotation_none_iff K h).mpr hk
      simp [this, hk]
  · intro hnb
    have hc : ¬ ∃ s, h.scheme K R = some s ∧ s.isBasic = true := by
      rintro ⟨s, hs, hb⟩; rw [hnb s hs] at hb; simp at hb
    unfold annotationErrs
    rw [if_neg hc]
    refine ⟨fun e => by rw [e], fun a e ha => by rw [e]; simp [ha], fun a e ha => by rw [e]; simp [ha]⟩

/-- none of the header-level errors carries a line number -/
theorem header_errors_no_line (K : HConsts) (R : Registry) (h : Header) :
    ∀ e ∈ versionErrs K R h ++ annotationErrs K R h, e.line = none := by
  intro e he
  have hv : ∀ e ∈ versionErrs K R h, e.line = none := by
    unfold versionErrs
    intro e he
    split at he
    · simp at he; rw [he]; rfl
    · split at he
      · simp at he
      · simp at he; rw [he]; rfl
  have ha : ∀ e ∈ annotationErrs K R h, e.line = none := by
    unfold annotationErrs
    intro e he
    split at he
    · split at he
      · simp at he; rw [he]; rfl
      · simp at he
    · split at he
      · simp at he; rw [he]; rfl
      · split at he
        · simp at he
        · simp at he; rw [he]; rfl
  rcases List.mem_append.mp he with h1 | h1
  · exact hv e h1
  · exact ha e h1

/-- each check contributes at most one error -/
theorem header_errors_le_one (K : HConsts) (R : Registry) (h : Header) :
    (versionErrs K R h).length ≤ 1 ∧ (annotationErrs K R h).length ≤ 1 := by
  constructor
  · unfold versionErrs
    split
    · simp
    · split <;> simp
  · unfold annotationErrs
    split
    · split <;> simp
    · split
      · simp
      · split <;> simp

/-- the three stringencies differ only in the outcome: the returned header is the same; Silent
    reports nothing, Lenient logs one warning per error, Strict fails with the first error iff there
    is one -/
theorem modes_header (K : HConsts) (R : Registry) (h : Header) (m m' : Option Mode) (reset : Bool) :
    (h.validate K R m reset).1 = (h.validate K R m' reset).1 := by
  simp only [validate_rules]

theorem mode_silent (errs : List VErr) : processErrors .silent errs = .ok [] := by
  cases errs <;> rfl

theorem mode_lenient (errs : List VErr) :
    processErrors .lenient errs = .ok (errs.map (fun e => { tpe := e.tpe, line := e.line })) := by
  cases errs <;> rfl

theorem mode_strict_nil : processErrors .strict [] = .ok [] := rfl

theorem mode_strict_cons (e : VErr) (es : List VErr) :
    processErrors .strict (e :: es) = .error (.format e.tpe e.line) := rfl

/-- Strict fails iff the error list is non-empty -/
theorem mode_strict_fails_iff (errs : List VErr) :
    (∃ x, processErrors .strict errs = .error x) ↔ errs ≠ [] := by
  cases errs with
  | nil => simp [processErrors]
  | cons e es => simp [processErrors]

/-- `from_lines` is the composition of the three steps characterised above -/
theorem fromLines_eq (K : HConsts) (R : Registry) (lines : List Text) (mode : Option Mode) :
    Header.fromLines K R lines mode =
      ((parsed K lines (modeOrSilent mode)).applyContigs K).validate K R none false := rfl

/-! ## non-vacuity: concrete instances (real constants `K0`) -/

section examples

private def t (s : String) : Text := s.toList

/-- a header with every kind of line: kept pragmas, a line without separator, a duplicate, an empty
    value, a line without start symbol, an empty key, an unknown sort order -/
def exLines : List Text :=
  [t "#version gdc-1.0.0", t "#key", t "#version other", t "#contigs chr1,chr2,chr10  ",
   t "#sort.order Coordinate", t "#key   ", t "version x", t "# v", t "#sort.order Foo",
   t "#my.key some text"]

-- single lines (`parse_exact`)
example : HRec.fromLine K0 (t "#version gdc-1.0.0") 1 = .ok ⟨t "version", .text (t "gdc-1.0.0")⟩ := by
  decide
example : HRec.fromLine K0 (t "#contigs chr1,chr2,chr10") 2 =
    .ok ⟨t "contigs", .contigs [t "chr1", t "chr2", t "chr10"]⟩ := by decide
example : HRec.fromLine K0 (t "#sort.order Coordinate") 3 =
    .ok ⟨t "sort.order", .sortOrder .coordinate []⟩ := by decide
example : HRec.fromLine K0 (t "#key") 4 = .error (lineErr "HEADER_LINE_MISSING_SEPARATOR" 4) := by
  decide
example : HRec.fromLine K0 (t "#key   ") 5 = .error (lineErr "HEADER_LINE_EMPTY_VALUE" 5) := by decide
example : HRec.fromLine K0 (t "key v") 6 = .error (lineErr "HEADER_LINE_MISSING_START_SYMBOL" 6) := by
  decide
example : HRec.fromLine K0 (t "# v") 7 = .error (lineErr "HEADER_LINE_EMPTY_KEY" 7) := by decide
example : HRec.fromLine K0 (t "#sort.order Foo") 8 =
    .error (lineErr "HEADER_UNSUPPORTED_SORT_ORDER" 8) := by decide

-- the hypotheses of the `kv` equivalences are met by a real line
example : HRec.fromLine K0 (K0.startSymbol :: (t "version" ++ ' ' :: t "gdc-1.0.0 ")) 1 =
    .ok ⟨t "version", .text (t "gdc-1.0.0")⟩ :=
  (ok_iff K0 1 (key := t "version") (v := t "gdc-1.0.0 ") (by decide) _).mpr (by decide)
example := pragma_version K0_wf (t "gdc-1.0.0") 1 (by decide) (by decide)
example := pragma_sort_order K0_wf (t "Coordinate ") 1 .coordinate (by decide) (by decide)

-- all lines (`parse_kept`, `parse_errors`, `line_numbers`): the duplicate is reported at line 3
example : (parsed K0 exLines .silent).recs =
    [(t "version", ⟨t "version", .text (t "gdc-1.0.0")⟩),
     (t "contigs", ⟨t "contigs", .contigs [t "chr1", t "chr2", t "chr10"]⟩),
     (t "sort.order", ⟨t "sort.order", .sortOrder .coordinate []⟩),
     (t "my.key", ⟨t "my.key", .text (t "some text")⟩)] := by decide
example : (parsed K0 exLines .silent).errors =
    [lineErr "HEADER_LINE_MISSING_SEPARATOR" 2, lineErr "HEADER_DUPLICATE_KEYS" 3,
     lineErr "HEADER_LINE_EMPTY_VALUE" 6, lineErr "HEADER_LINE_MISSING_START_SYMBOL" 7,
     lineErr "HEADER_LINE_EMPTY_KEY" 8, lineErr "HEADER_UNSUPPORTED_SORT_ORDER" 9] := by decide
example : okRecs K0 exLines ≠ keepFirst (okRecs K0 exLines) := by decide

-- printing and parsing again (`print_parse_id`): the printed header …
example : ((parsed K0 exLines .silent).applyContigs K0).renderLines K0 =
    [t "#version gdc-1.0.0", t "#contigs chr1,chr2,chr10", t "#sort.order Coordinate",
     t "#my.key some text"] := by decide
-- … and the theorem at this instance (its only hypothesis is `K0.WF`)
example := print_parse_id K0_wf exLines .silent .lenient
example := print_parse_id_header K0_wf exLines .strict

-- accessors: the sortable order carries the contigs
example : ((parsed K0 exLines .silent).applyContigs K0).sortOrder K0 =
    (.coordinate, [t "chr1", t "chr2", t "chr10"]) := by decide
example : ((parsed K0 exLines .silent).applyContigs K0).version K0 = some (t "gdc-1.0.0") := by
  decide
example : (parsed K0 [t "#sort.order Unsorted", t "#contigs chr1"] .silent |>.applyContigs K0).sortOrder K0
    = (.unsorted, []) := by decide
example : (parsed K0 [t "#contigs chr1"] .silent |>.applyContigs K0).sortOrder K0 = (.unsorted, []) := by
  decide

/-- a small registry: a basic scheme and an annotated one -/
def exRegistry : Registry :=
  { schemes := [{ version := "gdc-1.0.0", annotation := "gdc-1.0.0", cols := [] },
                { version := "gdc-1.0.0", annotation := "gdc-1.0.0-aliquot", cols := [] }],
    supportedVersions := ["gdc-1.0.0"],
    supportedAnnotations := ["gdc-1.0.0", "gdc-1.0.0-aliquot"] }

-- `validate_rules`: every row of the table occurs
example : versionErrs K0 exRegistry (parsed K0 [] .silent) = [headerErr "HEADER_MISSING_VERSION"] ∧
    annotationErrs K0 exRegistry (parsed K0 [] .silent) = [headerErr "HEADER_MISSING_ANNOTATION_SPEC"] := by
  decide
example : versionErrs K0 exRegistry (parsed K0 [t "#version v9"] .silent) =
    [headerErr "HEADER_UNSUPPORTED_VERSION"] := by decide
example : versionErrs K0 exRegistry (parsed K0 [t "#version gdc-1.0.0"] .silent) = [] ∧
    annotationErrs K0 exRegistry (parsed K0 [t "#version gdc-1.0.0"] .silent) = [] := by decide
example : annotationErrs K0 exRegistry
    (parsed K0 [t "#version gdc-1.0.0", t "#annotation.spec gdc-1.0.0"] .silent) =
    [headerErr "HEADER_UNSUPPORTED_ANNOTATION_SPEC"] := by decide
example : annotationErrs K0 exRegistry
    (parsed K0 [t "#version gdc-1.0.0", t "#annotation.spec gdc-1.0.0-aliquot"] .silent) = [] := by
  decide
example : annotationErrs K0 exRegistry
    (parsed K0 [t "#version gdc-1.0.0", t "#annotation.spec nope"] .silent) =
    [headerErr "HEADER_UNSUPPORTED_ANNOTATION_SPEC"] := by decide
-- the three stringencies on a header without version
example : (Header.fromLines K0 exRegistry [t "#key"] (some .strict)).2 =
    .error (.format "HEADER_LINE_MISSING_SEPARATOR" (some 1)) := by decide
example : (Header.fromLines K0 exRegistry [t "#key"] (some .lenient)).2 =
    .ok [⟨"HEADER_LINE_MISSING_SEPARATOR", some 1⟩, ⟨"HEADER_MISSING_VERSION", none⟩,
         ⟨"HEADER_MISSING_ANNOTATION_SPEC", none⟩] := by decide
example : (Header.fromLines K0 exRegistry [t "#key"] none).2 = .ok [] := by decide

end examples

end C13
