/-
  C02 — files written by the library read back identically (end-to-end composition).

  Operational model: `Model.Writer.init` / `Model.Writer.write` (`MafWriter(...)`, `writer += record`);
  the file is the concatenation of the texts passed to `handle.write` (`Writer.bytes`), cut into
  lines after every LF (`RoundTrip.fileLines`, Python's iteration over a text handle without newline
  translation); `Model.Reader.init` / `Model.Reader.readAll` (`MafReader(lines)`, `list(reader)`).
  Helper lemmas: `Lemmas/RoundTrip.lean`.

  Vocabulary (from the lemma file)
  * `writeAll C K w rs`      — `writer += r` for every `r` of `rs`, stopping at the first exception;
  * `Printable K h`          — `h` is a header the grammar can carry (records filed under their own
                               canonical key/value, distinct keys, the sort order carrying exactly the
                               contig list `from_lines` attaches, no LF in a printed line);
                               `printable_of_parsed`: every header `from_lines` builds from LF-free
                               lines is one;
  * `SchemeFit C K S`        — the scheme hypotheses of C01/C06 (`SchemeOKGen`) + column names
                               without TAB/CR/LF + the column-name line does not start with `#`;
  * `RecStable C S r`        — every value of `r` is the value its own text denotes under the
                               scheme's class ("canonical value"); `stable_of_parsed`: true of every
                               value that came out of parsing; NOT true of every API-built value, and
                               without it the property FAILS: `api_value_counterexample`;
  * `Record.Inv`             — the name map and the slot list of the record hold the same column
                               objects (true of every record built through the API from `{}`);
  * `InDeclaredOrder K h rs` — the reader's own order checker lets `rs` through;
  * `cells r`                — (name, value) of every slot of `r`, in slot order.

  Theorems
  1. `round_trip_typed`        recognised scheme, Strict, direct (non-sorting) writer;
  2. `rewrite_identical`       writing the re-read content again gives the same bytes;
  3. `round_trip_schemeless`   no scheme from the header, Silent; `header_only_file` when no record
                               was written (no column-name line: `HEADER_MISSING_COLUMN_NAMES`);
  4. findings: `api_value_counterexample` (a validated API-built value whose text denotes another
     value: `"007"` in a `StringOrIntegerColumn` comes back as `7` and is rewritten as `7`),
     `header_lf_counterexample` (a header value containing LF is accepted by the writer and comes
     back as two lines), `hash_column_counterexample` (a scheme-less first column named `#…` is
     read back as a header line).
-/
import MafModel.Lemmas.RoundTrip
import MafModel.Props.C06
import MafModel.Props.C04
open Model Py RoundTrip

namespace C02

/-- `writer += r₁; writer += r₂; …`, stopping at the first exception -/
abbrev writeAll := RoundTrip.writeAll

/-! ### small facts about the pieces -/

/-- the scheme a header names is never the pseudo-scheme `NoRestrictionsScheme` -/
theorem scheme_restricted {K : HConsts} {R : Registry} {h : Header} {S : Scheme}
    (hs : h.scheme K R = some S) : S.noRestrictions = false := by
  unfold Header.scheme Registry.findScheme at hs
  split at hs
  · rename_i o ho
    split at ho
    · rename_i s' hf
      split at ho
      · cases ho; cases hs
      · rename_i hnr
        cases ho; cases hs
        simpa using hnr
    · rename_i hne
      subst hs
      cases hc : findSchemeClass R.schemes (Option.map String.ofList (Header.version K h))
          (Option.map String.ofList (Header.annotation K h)) with
      | error e => rw [hc] at ho; cases ho
      | ok o' =>
        rw [hc] at ho
        cases ho
        exact absurd hc (hne S)
  · cases hs

theorem validate_snd (C : Ctx) (r : Record) (m : Mode) (s : Option Scheme) :
    (r.validate C (some m) true s).2 = processErrors m (r.validate C (some m) true s).1.errors := rfl

theorem processErrors_nil (m : Mode) : processErrors m [] = .ok [] := by cases m <;> rfl

/-! ## 1. recognised scheme, Strict -/

/-- the hypotheses of theorems 1 and 2, and everything the proof establishes on the way (the
    printed fields `fss`, the shape of the two writers' states, the reader's state) -/
theorem typed_core (C : Ctx) (K : HConsts) (R : Registry) (h : Header) (S : Scheme) (rs : List Record)
    (w0 w : Writer) (hfit : SchemeFit C K S) (hh : Printable K h)
    (hinit : Writer.init K R h (some .strict) true = .ok w0) (hsch : w0.scheme = some S)
    (hwrite : writeAll C K w0 rs = (w, .ok ()))
    (hstable : ∀ r ∈ rs, RecStable C S r) (hcoh : ∀ r ∈ rs, r.Inv)
    (horder : InDeclaredOrder K w0.header rs) :
    ∃ (fss : List (List Text)) (rd rd' : Reader),
      h.scheme K R = some S ∧ hdrErrs K R h = [] ∧
      w0 = { out := headerOut K h ++ [columnLine S], header := { h with errors := [] }, scheme := some S,
             mode := .strict, assumeSorted := true, sorting := false } ∧
      fss.length = rs.length ∧
      (∀ i (h1 : i < rs.length) (h2 : i < fss.length), Emitted C S rs[i] fss[i]) ∧
      w = { w0 with out := w0.out ++ (fss.map (joinWith '\t')).map (· ++ ['\n']) } ∧
      fileLines w.bytes = fileOf (h.renderLines K) (colText S) (fss.map (joinWith '\t')) ∧
      Reader.init C K R (fileLines w.bytes) (some .strict) none = .ok rd ∧
      rd.header = { recs := h.recs, errors := [], mode := .strict } ∧ rd.scheme = some S ∧
      rd.errors = [] ∧ rd.mode = .strict ∧
      colNamesOf K (fileLines w.bytes) = some (S.names.map String.toList) ∧
      rd.readAll C K = (rereadAll C S .strict ((h.renderLines K).length + 1) fss, none, rd') ∧
      rd'.errors = [] ∧ rd'.next = none ∧ rd'.header = rd.header := by
  rw [writer_init_eq] at hinit
  cases hpe : processErrors .strict (hdrErrs K R h) with
  | error e => rw [hpe] at hinit; cases hinit
  | ok lg =>
    rw [hpe] at hinit
    simp only at hinit
    obtain ⟨herrs, -⟩ := Model.processErrors_strict_ok hpe
    cases hf : (h.scheme K R).filter Scheme.truthy with
    | none =>
      rw [hf] at hinit
      simp only [Except.ok.injEq] at hinit
      subst hinit
      cases hsch
    | some s =>
      rw [hf] at hinit
      simp only [Except.ok.injEq] at hinit
      subst hinit
      simp only [Option.some.injEq] at hsch
      subst hsch
      have hscheme : h.scheme K R = some s := (Option.filter_eq_some_iff.1 hf).1
      have hS := hfit.ok.truthy
      -- every record passed Strict validation
      obtain ⟨ts, htl, hall, _⟩ := (writeAll_direct hS rs _ w rfl rfl).1 hwrite
      have hvalid : ∀ r ∈ rs, Valid C s r := by
        intro r hr
        obtain ⟨i, hi, rfl⟩ := List.getElem_of_mem hr
        obtain ⟨_, lg', hv⟩ := hall i hi (by rw [htl]; exact hi)
        exact valid_of_strict_ok hS hv
      obtain ⟨fss, hfl, hem, hw', hlines, _⟩ := written_file hh hfit (w0 := _) rfl rfl rfl hwrite hvalid
      have hsch2 : initSch2 (some (s.names.map String.toList)) (initSch1 (h.scheme K R) none) = some s := by
        simp [initSch2, initSch1, hscheme, schemeless, scheme_restricted hscheme]
      have hord : InDeclaredOrder K h rs := by
        obtain ⟨c, hc⟩ := horder
        exact ⟨c, by rw [← hc]; rfl⟩
      obtain ⟨rd, rd', h1, h2, h3, h4, h5, h6, h7, h8, h9, h10⟩ :=
        read_file (C := C) (R := R) (m := .strict) hh hfit hfl hem hstable hcoh hsch2 hpe hord
      unfold readHeader at h2
      rw [herrs] at h2 h4 h8
      refine ⟨fss, rd, rd', hscheme, herrs, by rw [herrs], hfl, hem, hw', hlines, ?_, h2, h3, h4, h5, ?_,
        h7, h8, h9, h10⟩
      · rw [hlines]; exact h1
      · rw [hlines]; exact h6

/-- **C02.1 — the round trip, recognised scheme, Strict mode, direct writer.**
    A Strict writer is constructed on a header `h` the grammar can carry, whose version/annotation
    name the scheme `S`; every record of `rs` is accepted (`writer += r` does not raise); the values
    are canonical (`RecStable`), the records coherent (`Record.Inv`) and supplied in the declared
    order.  Then, with `lines` the lines of the bytes on the handle:
    * `MafReader(lines, Strict)` is constructed, without any error; it carries the same header
      records in the same order (keys, values, contig lists) and the scheme `S`, and the column names
      it read are the names of `S`;
    * `list(reader)` raises nothing, collects no error and reads to the end of the input;
    * it returns as many records as were written, in the same order; each prints as the written
      record does (equal text), has no error, and holds in every slot a column of the same name with
      the same — equal, `=` — typed value. -/
theorem round_trip_typed (C : Ctx) (K : HConsts) (R : Registry) (h : Header) (S : Scheme)
    (rs : List Record) (w0 w : Writer) (hP : PlainRenders C) (hfit : SchemeFit C K S)
    (hh : Printable K h)
    (hinit : Writer.init K R h (some .strict) true = .ok w0) (hsch : w0.scheme = some S)
    (hwrite : writeAll C K w0 rs = (w, .ok ()))
    (hstable : ∀ r ∈ rs, RecStable C S r) (hcoh : ∀ r ∈ rs, r.Inv)
    (horder : InDeclaredOrder K w0.header rs) :
    ∃ (rd : Reader) (rs' : List Record) (rd' : Reader),
      Reader.init C K R (fileLines w.bytes) (some .strict) none = .ok rd ∧
      rd.header.recs = w0.header.recs ∧ rd.header.errors = [] ∧ rd.errors = [] ∧
      rd.scheme = some S ∧ colNamesOf K (fileLines w.bytes) = some (S.names.map String.toList) ∧
      rd.readAll C K = (rs', none, rd') ∧ rd'.errors = [] ∧ rd'.next = none ∧
      rs'.length = rs.length ∧
      List.Forall₂ (fun r' r => r'.render C = r.render C ∧ (∃ t, r.render C = .ok t) ∧
        cells r' = cells r ∧ r'.errors = [] ∧ r'.Inv) rs' rs := by
  obtain ⟨fss, rd, rd', _, _, hw0, hfl, hem, _, _, hinit', hhdr, hs, herr, _, hcn, hread, herr', hnext, _⟩ :=
    typed_core C K R h S rs w0 w hfit hh hinit hsch hwrite hstable hcoh horder
  have hql := rereadAll_length C S .strict ((h.renderLines K).length + 1) fss
  refine ⟨rd, _, rd', hinit', by rw [hhdr, hw0], by rw [hhdr], herr, hs, hcn, hread, herr', hnext,
    by rw [hql, hfl], ?_⟩
  apply forall₂_of_getElem _ _ (by rw [hql, hfl])
  intro i h1 h2
  have h3 : i < fss.length := by rw [hfl]; exact h2
  have hst := hstable _ (List.getElem_mem h2)
  rw [rereadAll_getElem C S .strict _ fss i h1 h3]
  refine ⟨?_, ⟨_, (hem i h2 h3).render⟩, reread_cells hfit.ok (hem i h2 h3) hst _ _, rfl,
    reread_inv hfit.ok (hem i h2 h3).flen (allAccepted_of_stable hfit.ok (hem i h2 h3) hst) _ _⟩
  rw [(hem i h2 h3).render]
  exact reread_render hfit.ok hP (hem i h2 h3) hst _ _

/-! ## 2. writing the re-read content again -/

theorem headerOut_congr (K : HConsts) {h1 h2 : Header} (e : h1.recs = h2.recs) :
    headerOut K h1 = headerOut K h2 := by
  unfold headerOut
  rw [renderLines_congr K e, e]

/-- **C02.2 — the second file is byte-identical.**  Under the hypotheses of `round_trip_typed`:
    a Strict writer constructed on the header the reader parsed accepts every re-read record, and
    the bytes on its handle are the bytes of the first file. -/
theorem rewrite_identical (C : Ctx) (K : HConsts) (R : Registry) (h : Header) (S : Scheme)
    (rs : List Record) (w0 w : Writer) (hP : PlainRenders C) (hfit : SchemeFit C K S)
    (hh : Printable K h)
    (hinit : Writer.init K R h (some .strict) true = .ok w0) (hsch : w0.scheme = some S)
    (hwrite : writeAll C K w0 rs = (w, .ok ()))
    (hstable : ∀ r ∈ rs, RecStable C S r) (hcoh : ∀ r ∈ rs, r.Inv)
    (horder : InDeclaredOrder K w0.header rs) :
    ∃ (rd : Reader) (rs' : List Record) (rd' : Reader) (v0 v : Writer),
      Reader.init C K R (fileLines w.bytes) (some .strict) none = .ok rd ∧
      rd.readAll C K = (rs', none, rd') ∧
      Writer.init K R rd.header (some .strict) true = .ok v0 ∧
      writeAll C K v0 rs' = (v, .ok ()) ∧
      v.bytes = w.bytes := by
  obtain ⟨fss, rd, rd', hscheme, herrs, hw0, hfl, hem, hw', _, hinit', hhdr, _, _, _, _, hread, _, _, _⟩ :=
    typed_core C K R h S rs w0 w hfit hh hinit hsch hwrite hstable hcoh horder
  have hS := hfit.ok.truthy
  -- the second writer
  have hrecs : rd.header.recs = h.recs := by rw [hhdr]
  have hv0 : Writer.init K R rd.header (some .strict) true =
      .ok { out := headerOut K h ++ [columnLine S], header := { rd.header with errors := [] },
            scheme := some S, mode := .strict, assumeSorted := true, sorting := false } := by
    rw [writer_init_eq, hdrErrs_congr K R hrecs, herrs, scheme_congr K R hrecs, hscheme,
      headerOut_congr K hrecs]
    simp [processErrors, Option.filter, hS]
  refine ⟨rd, _, rd', _,
    { out := (headerOut K h ++ [columnLine S]) ++ (fss.map (joinWith '\t')).map (· ++ ['\n']),
      header := { rd.header with errors := [] }, scheme := some S, mode := .strict,
      assumeSorted := true, sorting := false }, hinit', hread, hv0, ?_, ?_⟩
  · exact (writeAll_direct hS _ _ _ rfl rfl).2 ⟨fss.map (joinWith '\t'),
      by rw [rereadAll_length, List.length_map], (by
        intro i h1 h2
        have h3 : i < fss.length := by simpa using h2
        have h4 : i < rs.length := by rw [← hfl]; exact h3
        have hst := hstable _ (List.getElem_mem h4)
        rw [rereadAll_getElem C S .strict _ fss i h1 h3, List.getElem_map]
        refine ⟨reread_render hfit.ok hP (hem i h4 h3) hst _ _, [], ?_⟩
        rw [validate_snd, reread_valid hfit.ok hP (hem i h4 h3) hst _ _ _]
        rfl), rfl⟩
  · rw [hw', hw0]
    rfl

/-! ## 3. no scheme from the header, Silent -/

/-- the column names a scheme-less writer infers from the first record: `str(key)` of every slot -/
def keyNames (r : Record) : List String :=
  r.keys.map (fun k => match k with | some t => String.ofList t | none => "None")

/-- the first `+=` of a writer without scheme: the column names are inferred, written, and the
    record is then handled as by a writer with the scheme `NoRestrictionsScheme(names)` -/
theorem write_first {C : Ctx} {K : HConsts} {w : Writer} {r : Record} (hn : w.scheme = none)
    (ha : w.assumeSorted = true) (hS : (noRestrictionsScheme (keyNames r)).truthy = true) :
    w.write C K r =
      ({ w with scheme := some (noRestrictionsScheme (keyNames r)),
                out := w.out ++ [columnLine (noRestrictionsScheme (keyNames r))],
                sorting := false } : Writer).write C K r := by
  obtain ⟨out, hd, sch, mo, as, so, qu⟩ := w
  simp only at hn ha
  subst hn ha
  unfold Writer.write
  simp only [Writer.setSorter, if_true, Option.filter, keyNames]
  simp only [keyNames] at hS
  simp only [hS, if_true]
  rfl

theorem processErrors_silent (es : List VErr) : processErrors .silent es = .ok [] := by
  cases es <;> rfl

/-- the names of the inferred scheme are the keys of a record that validates against it -/
theorem names_of_valid {C : Ctx} {r : Record} (hS : (noRestrictionsScheme (keyNames r)).truthy = true)
    (hv : Valid C (noRestrictionsScheme (keyNames r)) r) :
    (noRestrictionsScheme (keyNames r)).names = keyNames r := by
  obtain ⟨_, _, hlen, _, hcols⟩ := Record.validate_strict_ok hS hv
  generalize noRestrictionsScheme (keyNames r) = S at *
  apply List.ext_getElem?
  intro i
  by_cases hi : i < S.size
  · obtain ⟨c, hc, hvalid⟩ := hcols i hi
    obtain ⟨n, cls, hp, hk, _⟩ := hvalid.pos
    simp only [Scheme.names, List.getElem?_map, hp, Option.map_some, keyNames, Record.keys, hc, hk,
      String.ofList_toList]
  · have h1 : S.names.length ≤ i := by
      simp only [Scheme.names, List.length_map]; simp only [Scheme.size] at hi; omega
    have h2 : (keyNames r).length ≤ i := by
      simp only [keyNames, Record.keys, List.length_map, hlen]; omega
    rw [List.getElem?_eq_none h1, List.getElem?_eq_none h2]

/-- **C02.3 — the round trip without a recognised scheme, Silent mode.**  The header names no
    scheme (no version/annotation, or unknown ones); the writer infers the columns from the first
    record `r0`: `S = NoRestrictionsScheme(keys of r0)`.  Every record is valid against `S` (Silent
    mode reports nothing, so this is a hypothesis: as many slots as names, the names in order,
    texts free of TAB/CR/LF), carries canonical values — here: every value is the text it prints —
    and is coherent; the records come in the declared order.  Then the file is read back in Silent
    mode: same header records, the whole-header errors of the writer's header and no other error,
    the scheme `S` inferred from the column-name line, and the same records in the same order with
    equal text and equal (name, value) cells. -/
theorem round_trip_schemeless (C : Ctx) (K : HConsts) (R : Registry) (h : Header) (r0 : Record)
    (rest : List Record) (w0 w : Writer) (hP : PlainRenders C)
    (hfit : SchemeFit C K (noRestrictionsScheme (keyNames r0))) (hh : Printable K h)
    (hnos : h.scheme K R = none)
    (hinit : Writer.init K R h (some .silent) true = .ok w0)
    (hwrite : writeAll C K w0 (r0 :: rest) = (w, .ok ()))
    (hvalid : ∀ r ∈ r0 :: rest, Valid C (noRestrictionsScheme (keyNames r0)) r)
    (hstable : ∀ r ∈ r0 :: rest, RecStable C (noRestrictionsScheme (keyNames r0)) r)
    (hcoh : ∀ r ∈ r0 :: rest, r.Inv)
    (horder : InDeclaredOrder K w0.header (r0 :: rest)) :
    ∃ (rd : Reader) (rs' : List Record) (rd' : Reader),
      Reader.init C K R (fileLines w.bytes) (some .silent) none = .ok rd ∧
      rd.header.recs = w0.header.recs ∧ rd.header.errors = w0.header.errors ∧
      rd.errors = w0.header.errors ∧
      rd.scheme = some (noRestrictionsScheme (keyNames r0)) ∧
      colNamesOf K (fileLines w.bytes) = some ((keyNames r0).map String.toList) ∧
      rd.readAll C K = (rs', none, rd') ∧ rd'.errors = rd.errors ∧ rd'.next = none ∧
      rs'.length = (r0 :: rest).length ∧
      List.Forall₂ (fun r' r => r'.render C = r.render C ∧ (∃ t, r.render C = .ok t) ∧
        cells r' = cells r ∧ r'.errors = [] ∧ r'.Inv) rs' (r0 :: rest) := by
  have hS := hfit.ok.truthy
  have hnames := names_of_valid hS (hvalid r0 (by simp))
  generalize hSdef : noRestrictionsScheme (keyNames r0) = S at *
  -- the writer
  rw [writer_init_eq, processErrors_silent, hnos] at hinit
  simp only [Option.filter_none, Except.ok.injEq] at hinit
  subst hinit
  have hstep : RoundTrip.writeAll C K
      ({ out := headerOut K h, header := { h with errors := hdrErrs K R h }, mode := .silent,
         assumeSorted := true } : Writer) (r0 :: rest) =
      RoundTrip.writeAll C K
      ({ out := headerOut K h ++ [columnLine S], header := { h with errors := hdrErrs K R h },
         scheme := some S, mode := .silent, assumeSorted := true, sorting := false } : Writer) (r0 :: rest) := by
    simp only [RoundTrip.writeAll]
    rw [write_first rfl rfl (by rw [hSdef]; exact hS), hSdef]
  change RoundTrip.writeAll C K _ _ = _ at hwrite
  rw [hstep] at hwrite
  obtain ⟨fss, hfl, hem, hw', hlines, _⟩ := written_file hh hfit (w0 := _) rfl rfl rfl hwrite hvalid
  have hsch2 : initSch2 (some (S.names.map String.toList)) (initSch1 (h.scheme K R) none) = some S := by
    simp only [initSch2, initSch1, hnos, schemeless, Option.isNone_none, true_or, if_true,
      List.map_map, Option.some.injEq]
    have : (String.ofList ∘ String.toList) = id := by funext s; simp
    rw [this, List.map_id, hnames, hSdef]
  have hord : InDeclaredOrder K h (r0 :: rest) := by
    obtain ⟨c, hc⟩ := horder
    exact ⟨c, by rw [← hc]; rfl⟩
  obtain ⟨rd, rd', h1, h2, h3, h4, h5, h6, h7, h8, h9, h10⟩ :=
    read_file (C := C) (R := R) (m := .silent) hh hfit hfl hem hstable hcoh hsch2
      (processErrors_silent _) hord
  have hql := rereadAll_length C S .silent ((h.renderLines K).length + 1) fss
  refine ⟨rd, _, rd', by rw [hlines]; exact h1, by rw [h2], by rw [h2], h4, h3,
    by rw [hlines, h6, hnames], h7, by rw [h8, h4], h9, by rw [hql, hfl], ?_⟩
  apply forall₂_of_getElem _ _ (by rw [hql, hfl])
  intro i i1 i2
  have i3 : i < fss.length := by rw [hfl]; exact i2
  have hst := hstable _ (List.getElem_mem i2)
  rw [rereadAll_getElem C S .silent _ fss i i1 i3]
  refine ⟨?_, ⟨_, (hem i i2 i3).render⟩, reread_cells hfit.ok (hem i i2 i3) hst _ _, rfl,
    reread_inv hfit.ok (hem i i2 i3).flen (allAccepted_of_stable hfit.ok (hem i i2 i3) hst) _ _⟩
  rw [(hem i i2 i3).render]
  exact reread_render hfit.ok hP (hem i i2 i3) hst _ _

/-- **C02.3, no record written.**  A scheme-less Silent writer that is never given a record has
    written the header lines only — no column-name line.  Reading that file in Silent mode: the
    reader is constructed with the same header records, no scheme, and one more error than the
    whole-header errors, `HEADER_MISSING_COLUMN_NAMES` at the line after the header;
    `list(reader)` is empty.  (So for such a file the property is about the header only.) -/
theorem header_only_file (C : Ctx) (K : HConsts) (R : Registry) (h : Header) (w0 : Writer)
    (hh : Printable K h) (hnos : h.scheme K R = none)
    (hinit : Writer.init K R h (some .silent) true = .ok w0) :
    ∃ rd : Reader, Reader.init C K R (fileLines w0.bytes) (some .silent) none = .ok rd ∧
      rd.header.recs = w0.header.recs ∧ rd.header.errors = w0.header.errors ∧ rd.scheme = none ∧
      colNamesOf K (fileLines w0.bytes) = none ∧
      rd.errors = w0.header.errors ++
        [{ tpe := "HEADER_MISSING_COLUMN_NAMES", line := some ((h.renderLines K).length + 1),
           origin := some ((h.renderLines K).length + 1) }] ∧
      rd.readAll C K = ([], none, rd) := by
  rw [writer_init_eq, processErrors_silent, hnos] at hinit
  simp only [Option.filter_none, Except.ok.injEq] at hinit
  subst hinit
  have hok : ∀ l ∈ h.renderLines K, LineOK l := fun l hl => (renderLine_ok hh l hl).1
  have hst : ∀ l ∈ h.renderLines K, l.head? = some K.startSymbol := fun l hl => (renderLine_ok hh l hl).2
  have hlines : fileLines (headerOut K h).flatten = (h.renderLines K).map (· ++ ['\n']) := by
    rw [headerOut_flatten]
    exact fileLines_flatten _ (fun l hl => (hok l hl).1)
  obtain ⟨hb, hs⟩ := headerBlock_headerOnly (K := K) hok hst
  have hk : headerLen K ((h.renderLines K).map (· ++ ['\n'])) = (h.renderLines K).length := by
    unfold headerLen; rw [hb]
  have hnone : (stripped ((h.renderLines K).map (· ++ ['\n'])))[(h.renderLines K).length]? = none := by
    rw [hs]; simp
  have hinit' := init_eq C K R ((h.renderLines K).map (· ++ ['\n'])) (some .silent) none
  rw [hb, hk] at hinit'
  simp only [modeOrSilent] at hinit'
  rw [fromLines_rendered R hh .silent, processErrors_silent] at hinit'
  simp only [hnone, Option.map_none, initSch1, initSch2, initE1, initE2, List.append_nil,
    processErrors_silent, List.length_map, Nat.min_eq_right (Nat.le_succ _)] at hinit'
  have hs' : Header.scheme K R { recs := h.recs, errors := hdrErrs K R h, mode := .silent } = none := by
    rw [← hnos]; exact scheme_congr K R rfl
  rw [hs'] at hinit'
  simp only [Writer.bytes]
  rw [hlines]
  refine ⟨_, hinit', rfl, rfl, rfl, ?_, rfl, ?_⟩
  · unfold colNamesOf; rw [hk, hnone]; rfl
  · unfold Reader.readAll
    simp only [initReader, List.length_drop]
    unfold Reader.iterate
    simp [Reader.nextRecord]

/-! ## 4. the side conditions are met by what the library itself produces -/

theorem _root_.RoundTrip.Printable.congr {K : HConsts} {h1 h2 : Header} (hp : Printable K h1)
    (e : h2.recs = h1.recs) : Printable K h2 where
  inv := ⟨by rw [e]; exact hp.inv.key_eq, by rw [e]; exact hp.inv.canon,
    by unfold Header.keys; rw [e]; exact hp.inv.distinct⟩
  closed := by
    refine Eq.trans (applyContigs_recs_congr K ?_) (hp.closed.trans e.symm)
    show h2.recs.map _ = h1.recs.map _
    rw [e]
  noLF := by rw [renderLines_congr K e]; exact hp.noLF

theorem render_reset (K : HConsts) (r : HRec) : r.reset.render K = r.render K := by
  simp [HRec.render, HRec.reset]

/-- **every header `from_lines` parses from LF-free lines is `Printable`** (so the hypothesis on
    the header in the theorems above is exactly "a header the grammar can carry") -/
theorem printable_of_parsed {K : HConsts} (W : K.WF) (lines : List Text) (m : Mode)
    (hlf : ∀ l ∈ lines, '\n' ∉ l) : Printable K ((C13.parsed K lines m).applyContigs K) := by
  have hp := C13.parse_inv W lines m
  have hreset : ((C13.parsed K lines m).applyContigs K).recs.map (fun p => (p.1, p.2.reset)) =
      (C13.parsed K lines m).recs := by
    rw [applyContigs_reset hp.1, hp.2.map_reset]
  refine ⟨applyContigs_inv hp.1, ?_, ?_⟩
  · rw [hreset]
    exact applyContigs_recs_congr K rfl
  · have hrl : ((C13.parsed K lines m).applyContigs K).renderLines K = (C13.parsed K lines m).renderLines K := by
      unfold Header.renderLines
      rw [← hreset, List.map_map]
      apply List.map_congr_left
      intro p _
      simp [render_reset]
    rw [hrl]
    intro l hl
    obtain ⟨p, hpm, rfl⟩ := List.mem_map.1 hl
    rw [C13.parse_kept] at hpm
    obtain ⟨r, hr, rfl⟩ := List.mem_map.1 hpm
    obtain ⟨l0, hl0, hfl⟩ := mem_okRecs.1 (mem_keepFirst_mem hr)
    obtain ⟨v, rfl, hk, _, _, _⟩ := (fromLine_ok_iff K l0 0 r).1 hfl
    simp only
    rw [fromLine_render_line W hk hfl]
    have h0 := hlf _ hl0
    simp only [List.mem_cons, List.mem_append, not_or] at h0 ⊢
    exact ⟨h0.1, h0.2.1, h0.2.2.1, fun hm => h0.2.2.2 (mem_rstripChars _ _ _ hm)⟩

/-- … in particular the header of `MafHeader.from_lines(lines)`, whatever the stringency -/
theorem printable_fromLines {K : HConsts} (W : K.WF) (R : Registry) (lines : List Text)
    (mode : Option Mode) (hlf : ∀ l ∈ lines, '\n' ∉ l) :
    Printable K (Header.fromLines K R lines mode).1 := by
  apply (printable_of_parsed W lines (modeOrSilent mode) hlf).congr
  rw [C13.fromLines_eq, C13.validate_rules]

/-- **a value that came out of parsing is canonical**: the column `from_line` builds for an accepted
    field (class = the scheme's class, a column type of the development, the value not the one
    known exception of C04 — a one-element list whose element prints as the empty text) satisfies
    `ColStable`.  Hypotheses as in C04: a lawful float host, the enum vocabularies. -/
theorem stable_of_parsed {C : Ctx} (hH : Render.FloatHost.Lawful' C.H) (hE : Render.EnumsOK C.enums)
    {S : Scheme} {i : Nat} {n cls : String} {sp : ColSpec} {t0 : Text} {v : PyVal}
    (hp : S.cols[i]? = some (n, cls)) (hsp : resolveSpec C.tbl cls = some sp)
    (hne : cls ≠ "MafColumnRecord") (hty : ClassTyped C cls)
    (hclean : ∀ c ∈ t0, c ≠ '\t' ∧ c ≠ '\n' ∧ c ≠ '\r')
    (hacc : sp.accept C false t0 = some v) (hse : ¬ C04.SingleEmpty C.enums v)
    (key : Text) (idx : Option Int) :
    ColStable C S i { cls := cls, key := key, value := v, index := idx } := by
  intro n' cls' sp' t hp' hsp' hr
  rw [hp] at hp'
  cases hp'
  rw [hsp] at hsp'
  cases hsp'
  obtain ⟨ty, hty⟩ := hty
  rw [hsp] at hty
  simp only [Option.map_some] at hty
  obtain ⟨t', hr', _, ha', _⟩ := C04.fixpoint_partial C hH hE ty sp.erase hty.symm t0 v hclean
    (by rw [Builtin.accept_erase]; exact hacc) hse
  rw [ColSpec.render_erase] at hr'
  rw [Builtin.accept_erase] at ha'
  have : t = t' := by
    simp only [Column.render, hsp] at hr
    rw [hr'] at hr
    cases hr
    rfl
  subst this
  have hpl : plainOk cls = false := by simp [plainOk, hne]
  rw [hpl]
  exact ha'

/-- … and so is every text value in an unrestricted (`MafColumnRecord`) column -/
theorem stable_plain {C : Ctx} (hP : PlainRenders C) {S : Scheme} (hS : SchemeOKGen C S) {i : Nat} {n : String}
    (hp : S.cols[i]? = some (n, "MafColumnRecord")) (t0 key : Text) (idx : Option Int) :
    ColStable C S i { cls := "MafColumnRecord", key := key, value := .atom (.str t0), index := idx } := by
  intro n' cls' sp' t hp' hsp' hr
  rw [hp] at hp'
  cases hp'
  obtain ⟨sp, hsp, _, hcase⟩ := hS.cls_ok _ (List.mem_of_getElem? hp)
  simp only at hsp hcase
  rw [hsp'] at hsp
  cases hsp
  rcases hcase with ⟨hne, _⟩ | ⟨_, hb, _⟩
  · exact absurd rfl hne
  · have : t = t0 := by
      simp only [Column.render, hsp', hP sp' hsp' t0] at hr
      cases hr
      rfl
    subst this
    simp [ColSpec.accept, ColSpec.buildValue, hb, plainOk]

/-- when the header declares no sortable order the order hypothesis is vacuous -/
theorem inDeclaredOrder_of_unsortable {K : HConsts} {h : Header}
    (ho : (h.sortOrder K).1.sortable = false) (rs : List Record) : InDeclaredOrder K h rs := by
  unfold InDeclaredOrder
  generalize hc : ({ order := (h.sortOrder K).1, contigs := (h.sortOrder K).2 } : Checker) = chk
  have hco : chk.order.sortable = false := by rw [← hc]; exact ho
  clear hc
  induction rs generalizing chk with
  | nil => exact ⟨_, rfl⟩
  | cons r rs ih =>
    have : chk.addRecord r = .ok { chk with last := some r.toLoc } := by
      unfold Checker.addRecord Checker.add
      simp [hco]
    simp only [checkRecords, this]
    exact ih _ hco

/-- the order hypothesis in the vocabulary of C09 / C10 (`checkAll` over what the order checker
    reads from each record): when every record has its three coordinate columns, `InDeclaredOrder`
    says that `checkAll` goes through the whole list without an error -/
theorem inDeclaredOrder_of_checkAll {K : HConsts} {h : Header} {rs : List Record}
    (hco : ∀ r ∈ rs, r.toLoc.hasCoords = true)
    (hchk : (checkAll { order := (h.sortOrder K).1, contigs := (h.sortOrder K).2 }
      (rs.map Record.toLoc)).2 = none) : InDeclaredOrder K h rs := by
  unfold InDeclaredOrder
  generalize ({ order := (h.sortOrder K).1, contigs := (h.sortOrder K).2 } : Checker) = chk at hchk
  induction rs generalizing chk with
  | nil => exact ⟨_, rfl⟩
  | cons r rs ih =>
    have hadd : chk.addRecord r = chk.add r.toLoc := by
      unfold Checker.addRecord
      simp [hco r (by simp)]
    simp only [List.map_cons, checkAll] at hchk
    simp only [checkRecords, hadd]
    cases hc : chk.add r.toLoc with
    | error e => rw [hc] at hchk; cases hchk
    | ok c' =>
      rw [hc] at hchk
      exact ih (fun x hx => hco x (by simp [hx])) c' hchk

/-! ## 5. decidable checks for concrete instances -/

theorem exists_ok_of_map {ε α β : Type} {x : Except ε α} {f : α → β} {b : β}
    (h : x.toOption.map f = some b) : ∃ a, x = .ok a ∧ f a = b := by
  cases x with
  | error e => cases h
  | ok a => exact ⟨a, rfl, by simpa [Except.toOption] using h⟩

/-- a decidable form of `RecStable` -/
def stableCheck (C : Ctx) (S : Scheme) (r : Record) : Bool :=
  r.slots.zipIdx.all (fun p => match p.1 with
    | none => true
    | some c => match S.cols[p.2]? with
      | none => true
      | some q => match resolveSpec C.tbl q.2, c.col.render C with
        | some sp, .ok t => decide (sp.accept C (plainOk q.2) t = some c.col.value)
        | _, _ => true)

theorem recStable_of_check {C : Ctx} {S : Scheme} {r : Record} (h : stableCheck C S r = true) :
    RecStable C S r := by
  intro i c hc n cls sp t hp hsp hr
  simp only [stableCheck, List.all_eq_true] at h
  have := h (some c, i) (List.mem_zipIdx_iff_getElem?.2 hc)
  simpa [hp, hsp, hr] using this

/-- a decidable form of `Record.Inv` -/
def invCheck (r : Record) : Bool :=
  decide (r.dict.map (·.1)).Nodup &&
  r.dict.all (fun p => decide (p.2.col.key = p.1) && match p.2.col.index with
    | some (Int.ofNat i) => decide (r.slots[i]? = some (some p.2))
    | _ => false) &&
  r.slots.zipIdx.all (fun p => match p.1 with
    | some c => decide (c.col.index = some (p.2 : Int)) && decide (tdictGet r.dict c.col.key = some c)
    | none => true) &&
  decide (r.slots.getLast? ≠ some none)

theorem inv_of_check {r : Record} (h : invCheck r = true) : r.Inv := by
  simp only [invCheck, Bool.and_eq_true, decide_eq_true_eq, List.all_eq_true] at h
  obtain ⟨⟨⟨h1, h2⟩, h3⟩, h4⟩ := h
  refine ⟨h1, ?_, ?_, h4⟩
  · intro p hp
    obtain ⟨hk, hi⟩ := h2 p hp
    refine ⟨hk, ?_⟩
    cases hidx : p.2.col.index with
    | none => rw [hidx] at hi; cases hi
    | some j =>
      rw [hidx] at hi
      cases j with
      | ofNat i => exact ⟨i, rfl, by simpa using hi⟩
      | negSucc i => cases hi
  · intro i c hc
    have := h3 (some c, i) (List.mem_zipIdx_iff_getElem?.2 hc)
    simpa using this

theorem inDeclaredOrder_of_isOk {K : HConsts} {h : Header} {rs : List Record}
    (hok : (checkRecords { order := (h.sortOrder K).1, contigs := (h.sortOrder K).2 } rs).toOption.isSome
      = true) : InDeclaredOrder K h rs := by
  unfold InDeclaredOrder
  cases hc : checkRecords { order := (h.sortOrder K).1, contigs := (h.sortOrder K).2 } rs with
  | error e => rw [hc] at hok; cases hok
  | ok c => exact ⟨c, rfl⟩

/-- the writer a Strict `MafWriter(...)` call returns on a header without whole-header errors
    that names the scheme `S` -/
theorem writer_init_typed {K : HConsts} {R : Registry} {h : Header} {S : Scheme}
    (he : hdrErrs K R h = []) (hs : (h.scheme K R).filter Scheme.truthy = some S) :
    Writer.init K R h (some .strict) true =
      .ok { out := headerOut K h ++ [columnLine S], header := { h with errors := [] }, scheme := some S,
            mode := .strict, assumeSorted := true, sorting := false } := by
  rw [writer_init_eq, he, hs]
  rfl

/-- a direct writer with scheme `S` accepts records that validate and print -/
theorem writeAll_of_texts {C : Ctx} {K : HConsts} {S : Scheme} (hS : S.truthy = true) {w : Writer}
    (hs : w.scheme = some S) (hsort : w.sorting = false) {rs : List Record} {ts : List Text}
    (h : List.Forall₂ (fun r t => r.render C = .ok t ∧
      (r.validate C (some w.mode) true (some S)).2 = .ok []) rs ts) :
    writeAll C K w rs = ({ w with out := w.out ++ ts.map (· ++ ['\n']) }, .ok ()) := by
  obtain ⟨hl, hall⟩ := forall₂_getElem h
  exact (writeAll_direct hS rs w _ hs hsort).2 ⟨ts, hl.symm,
    fun i h1 h2 => ⟨(hall i h1 h2).1, [], (hall i h1 h2).2⟩, rfl⟩

/-! ## 6. non-vacuity: a typed file with a header of five pragmas and two records -/

section examples

private def t (s : String) : Text := s.toList

/-- generated class table and enums, a lawful float host; the three coordinate columns -/
def exC : Ctx := C06.sortC
def exS : Scheme := C06.sortS
def exR : Registry := { schemes := [exS], supportedVersions := ["v"], supportedAnnotations := ["a"] }

/-- the header `from_lines` parses from these five lines (real constants `K0`): version,
    annotation, a contig list, a coordinate sort order (which gets the contig list attached) and a
    free pragma with an inner blank -/
def exHeaderLines : List Text :=
  [t "#version v", t "#annotation.spec a", t "#contigs chr1,chr2", t "#sort.order Coordinate",
   t "#my.key two words"]
def exH : Header := (C13.parsed K0 exHeaderLines .strict).applyContigs K0

/-- two records, in coordinate order with respect to the contig list -/
def exRs : List Record := [C06.locRec "chr1" 7 9, C06.locRec "chr2" 5 6]

def exW0 : Writer :=
  { out := headerOut K0 exH ++ [columnLine exS], header := { exH with errors := [] }, scheme := some exS,
    mode := .strict, assumeSorted := true, sorting := false }
def exW : Writer := { exW0 with out := exW0.out ++ [t "chr1\t7\t9\n", t "chr2\t5\t6\n"] }

theorem ex_sortOrder : exH.sortOrder K0 = (.coordinate, [t "chr1", t "chr2"]) := by decide +kernel
theorem ex_printable : Printable K0 exH := printable_of_parsed K0_WF exHeaderLines .strict (by decide)
theorem ex_fit : SchemeFit exC K0 exS :=
  ⟨C06.schemeOKGen_of_check _ _ (by decide +kernel), by unfold NamesClean; decide, by decide⟩
theorem ex_plain : PlainRenders exC := plainRenders_of_check (by decide +kernel)
theorem ex_init : Writer.init K0 exR exH (some .strict) true = .ok exW0 :=
  writer_init_typed (by decide +kernel) (by decide +kernel)
theorem ex_write : writeAll exC K0 exW0 exRs = (exW, .ok ()) :=
  writeAll_of_texts (ts := [t "chr1\t7\t9", t "chr2\t5\t6"]) ex_fit.ok.truthy rfl rfl
    (.cons ⟨by decide +kernel, by decide +kernel⟩ (.cons ⟨by decide +kernel, by decide +kernel⟩ .nil))
theorem ex_stable : ∀ r ∈ exRs, RecStable exC exS r := by
  intro r hr
  simp only [exRs, List.mem_cons, List.mem_nil_iff, or_false] at hr
  rcases hr with rfl | rfl <;> exact recStable_of_check (by decide +kernel)
theorem ex_inv : ∀ r ∈ exRs, r.Inv := by
  intro r hr
  simp only [exRs, List.mem_cons, List.mem_nil_iff, or_false] at hr
  rcases hr with rfl | rfl <;> exact inv_of_check (by decide +kernel)
theorem ex_order : InDeclaredOrder K0 exW0.header exRs := inDeclaredOrder_of_isOk (by decide +kernel)

/-- the file -/
example : exW.bytes = t ("#version v\n#annotation.spec a\n#contigs chr1,chr2\n#sort.order Coordinate\n" ++
    "#my.key two words\nChromosome\tStart_Position\tEnd_Position\nchr1\t7\t9\nchr2\t5\t6\n") := by
  decide +kernel

/-- every hypothesis of `round_trip_typed` and `rewrite_identical` is met -/
example := round_trip_typed exC K0 exR exH exS exRs exW0 exW ex_plain ex_fit ex_printable ex_init rfl
  ex_write ex_stable ex_inv ex_order
example := rewrite_identical exC K0 exR exH exS exRs exW0 exW ex_plain ex_fit ex_printable ex_init rfl
  ex_write ex_stable ex_inv ex_order

/-- the order hypothesis is not vacuous: the same records the other way round are out of order -/
example : ¬ InDeclaredOrder K0 exW0.header exRs.reverse := by
  rintro ⟨c, hc⟩
  have : (checkRecords { order := (exW0.header.sortOrder K0).1, contigs := (exW0.header.sortOrder K0).2 }
      exRs.reverse).toOption.isSome = false := by decide +kernel
  rw [hc] at this
  cases this

/-- `stable_of_parsed` applies to a concrete parsed field: `"007"` under `OneBasedIntegerColumn` -/
def exParsedCol : Column :=
  { cls := "OneBasedIntegerColumn", key := t "Start_Position", value := .atom (.int 7), index := some 1 }

example : ColStable exC exS 1 exParsedCol := by
  obtain ⟨sp, hsp⟩ : ∃ sp, resolveSpec exC.tbl "OneBasedIntegerColumn" = some sp :=
    Option.isSome_iff_exists.1 (by decide +kernel)
  have hacc : sp.accept exC false (t "007") = some (.atom (.int 7)) := by
    have : (resolveSpec exC.tbl "OneBasedIntegerColumn").map (fun sp => sp.accept exC false (t "007")) =
        some (some (.atom (.int 7))) := by decide +kernel
    rw [hsp] at this
    simpa using this
  exact stable_of_parsed Render.intHost_lawful Render.enumsOK_generated (S := exS) (i := 1)
    (n := "Start_Position") rfl hsp (by decide) ⟨.named "OneBasedIntegerColumn", by decide +kernel⟩
    (by decide) hacc (by rintro ⟨a, h, _⟩; cases h) _ _

/-! ### a scheme-less file: empty leading / trailing fields, a value with an inner blank -/

def slR : Registry := { schemes := [], supportedVersions := [], supportedAnnotations := [] }
def slC0 (v : String) : RCol :=
  ⟨0, { cls := "MafColumnRecord", key := t "id", value := .atom (.str (t v)), index := some 0 }⟩
def slC1 (v : String) : RCol :=
  ⟨1, { cls := "MafColumnRecord", key := t "B", value := .atom (.str (t v)), index := some 1 }⟩
def slRec (a b : String) : Record :=
  { dict := [(t "id", slC0 a), (t "B", slC1 b)], slots := [some (slC0 a), some (slC1 b)] }
/-- a header without version and annotation: two whole-header errors, no scheme -/
def slH : Header := (C13.parsed K0 [t "#note no version here"] .silent).applyContigs K0
def slW0 : Writer :=
  { out := headerOut K0 slH, header := { slH with errors := hdrErrs K0 slR slH }, mode := .silent,
    assumeSorted := true }
def slW : Writer :=
  { slW0 with scheme := some (noRestrictionsScheme ["id", "B"]),
              out := slW0.out ++ [t "id\tB\n", t "x y\t\n", t "\tz\n"] }

theorem sl_init : Writer.init K0 slR slH (some .silent) true = .ok slW0 := by
  rw [writer_init_eq, processErrors_silent]
  rfl
theorem sl_write : writeAll exC K0 slW0 [slRec "x y" "", slRec "" "z"] = (slW, .ok ()) := by rfl
theorem sl_keys : keyNames (slRec "x y" "") = ["id", "B"] := by decide
theorem sl_fit : SchemeFit exC K0 (noRestrictionsScheme (keyNames (slRec "x y" ""))) := by
  rw [sl_keys]
  exact ⟨C06.schemeOKGen_of_check _ _ (by decide +kernel), by unfold NamesClean; decide, by decide⟩
theorem sl_valid : ∀ r ∈ [slRec "x y" "", slRec "" "z"],
    Valid exC (noRestrictionsScheme (keyNames (slRec "x y" ""))) r := by
  rw [sl_keys]
  intro r hr
  simp only [List.mem_cons, List.mem_nil_iff, or_false] at hr
  rcases hr with rfl | rfl <;> (unfold Valid; decide +kernel)
theorem sl_stable : ∀ r ∈ [slRec "x y" "", slRec "" "z"],
    RecStable exC (noRestrictionsScheme (keyNames (slRec "x y" ""))) r := by
  rw [sl_keys]
  intro r hr
  simp only [List.mem_cons, List.mem_nil_iff, or_false] at hr
  rcases hr with rfl | rfl <;> exact recStable_of_check (by decide +kernel)
theorem sl_inv : ∀ r ∈ [slRec "x y" "", slRec "" "z"], r.Inv := by
  intro r hr
  simp only [List.mem_cons, List.mem_nil_iff, or_false] at hr
  rcases hr with rfl | rfl <;> exact inv_of_check (by decide +kernel)

example : slW.bytes = t "#note no version here\nid\tB\nx y\t\n\tz\n" := by decide +kernel

/-- every hypothesis of `round_trip_schemeless` and of `header_only_file` is met -/
example := round_trip_schemeless exC K0 slR slH (slRec "x y" "") [slRec "" "z"] slW0 slW ex_plain sl_fit
  (printable_of_parsed K0_WF _ .silent (by decide)) (by decide +kernel) sl_init sl_write sl_valid sl_stable
  sl_inv (inDeclaredOrder_of_unsortable (by decide +kernel) _)
example := header_only_file exC K0 slR slH slW0 (printable_of_parsed K0_WF _ .silent (by decide))
  (by decide +kernel) sl_init

end examples

/-! ## 7. findings (kernel-checked)

  Each of the three side conditions of the theorems that is not established by validation is
  necessary: dropping it makes the property fail on the model — and on the library (each case was
  replayed on `/repo`, see the report). -/

section findings

private def s (x : String) : Text := x.toList

/-! ### (a) a validated API-built value whose text denotes another value -/

/-- a one-column scheme: `Chromosome` is a `StringOrIntegerColumn`, as in the shipped `gdc-1.0.0` -/
def cexS : Scheme := { version := "v", annotation := "a", cols := [("Chromosome", "StringOrIntegerColumn")] }
def cexR : Registry := { schemes := [cexS], supportedVersions := ["v"], supportedAnnotations := ["a"] }
def cexH : Header := (C13.parsed K0 [s "#version v", s "#annotation.spec a"] .strict).applyContigs K0
/-- `StringOrIntegerColumn("Chromosome", "007")`: a `str` is a valid value of that column -/
def cexCol : RCol :=
  ⟨0, { cls := "StringOrIntegerColumn", key := s "Chromosome", value := .atom (.str (s "007")), index := some 0 }⟩
def cexRec : Record := { dict := [(s "Chromosome", cexCol)], slots := [some cexCol] }
def cexW0 : Writer :=
  { out := headerOut K0 cexH ++ [columnLine cexS], header := { cexH with errors := [] }, scheme := some cexS,
    mode := .strict, assumeSorted := true, sorting := false }
def cexW : Writer := { cexW0 with out := cexW0.out ++ [s "007\n"] }

theorem cex_fit : SchemeFit exC K0 cexS :=
  ⟨C06.schemeOKGen_of_check _ _ (by decide +kernel), by unfold NamesClean; decide, by decide⟩
theorem cex_init : Writer.init K0 cexR cexH (some .strict) true = .ok cexW0 :=
  writer_init_typed (by decide +kernel) (by decide +kernel)
theorem cex_write : writeAll exC K0 cexW0 [cexRec] = (cexW, .ok ()) :=
  writeAll_of_texts (ts := [s "007"]) cex_fit.ok.truthy rfl rfl
    (.cons ⟨by decide +kernel, by decide +kernel⟩ .nil)

/-- **Finding (kernel-checked).**  The Strict writer accepts the record and writes `007`; the
    Strict reader reads the file back without any error, but the value it builds is the integer
    `7`, which prints as `7`: the re-read record has neither the text nor the value of the written
    one, and writing it again gives a different file.  The record is coherent, the header printable,
    the scheme fit; the only hypothesis of `round_trip_typed` that fails is `RecStable`. -/
theorem api_value_counterexample :
    writeAll exC K0 cexW0 [cexRec] = (cexW, .ok ()) ∧
    cexW.bytes = s "#version v\n#annotation.spec a\nChromosome\n007\n" ∧
    cexRec.render exC = .ok (s "007") ∧
    (Reader.init exC K0 cexR (fileLines cexW.bytes) (some .strict) none).toOption.map
        (fun rd => (rd.readAll exC K0).1.map (fun r => r.render exC)) = some [.ok (s "7")] ∧
    (Reader.init exC K0 cexR (fileLines cexW.bytes) (some .strict) none).toOption.map
        (fun rd => (rd.readAll exC K0).1.map cells) = some [[some (s "Chromosome", .atom (.int 7))]] ∧
    (Reader.init exC K0 cexR (fileLines cexW.bytes) (some .strict) none).toOption.map
        (fun rd => ((rd.readAll exC K0).2.1, rd.errors)) = some (none, []) ∧
    ¬ RecStable exC cexS cexRec := by
  refine ⟨cex_write, by decide +kernel, by decide +kernel, by decide +kernel, by decide +kernel,
    by decide +kernel, ?_⟩
  intro h
  obtain ⟨sp, hsp⟩ : ∃ sp, resolveSpec exC.tbl "StringOrIntegerColumn" = some sp :=
    Option.isSome_iff_exists.1 (by decide +kernel)
  have h1 := h 0 cexCol rfl "Chromosome" "StringOrIntegerColumn" sp (s "007") rfl hsp (by decide +kernel)
  have h2 : (resolveSpec exC.tbl "StringOrIntegerColumn").map
      (fun sp => sp.accept exC (plainOk "StringOrIntegerColumn") (s "007")) = some (some (.atom (.int 7))) := by
    decide +kernel
  rw [hsp] at h2
  simp only [Option.map_some, Option.some.injEq] at h2
  rw [h2] at h1
  exact absurd h1 (by decide)

/-- `round_trip_typed` without the hypothesis on the values, and with "equal text" as its only
    conclusion about the records -/
def round_trip_any_values : Prop :=
  ∀ (C : Ctx) (K : HConsts) (R : Registry) (h : Header) (S : Scheme) (rs : List Record) (w0 w : Writer),
    PlainRenders C → SchemeFit C K S → Printable K h →
    Writer.init K R h (some .strict) true = .ok w0 → w0.scheme = some S →
    writeAll C K w0 rs = (w, .ok ()) → (∀ r ∈ rs, r.Inv) → InDeclaredOrder K w0.header rs →
    ∃ (rd : Reader) (rs' : List Record) (rd' : Reader),
      Reader.init C K R (fileLines w.bytes) (some .strict) none = .ok rd ∧
      rd.readAll C K = (rs', none, rd') ∧
      List.Forall₂ (fun r' r => r'.render C = r.render C) rs' rs

/-- … is false: the property C02 does not hold for every record a Strict writer accepts -/
theorem round_trip_any_values_false : ¬ round_trip_any_values := by
  intro H
  obtain ⟨rd, rs', rd', hi, hr, hf⟩ := H exC K0 cexR cexH cexS [cexRec] cexW0 cexW ex_plain cex_fit
    (printable_of_parsed K0_WF _ .strict (by decide)) cex_init rfl cex_write
    (by intro r hr; simp only [List.mem_singleton] at hr; subst hr; exact inv_of_check (by decide +kernel))
    (inDeclaredOrder_of_isOk (by decide +kernel))
  have key := api_value_counterexample.2.2.2.1
  rw [hi] at key
  simp only [Except.toOption, Option.map_some, hr, Option.some.injEq] at key
  cases hf with
  | cons h1 h2 =>
    cases h2
    simp only [List.map_cons, List.map_nil, List.cons.injEq, and_true] at key
    rw [h1, api_value_counterexample.2.2.1] at key
    exact absurd key (by decide)

/-! ### (b) a header value containing a line feed -/

/-- a header built through the API: its records are filed under their own keys, canonical and
    distinct (`Header.Inv`), but one value contains LF -/
def lfH : Header :=
  { recs := [(s "version", ⟨s "version", .text (s "v")⟩),
             (s "annotation.spec", ⟨s "annotation.spec", .text (s "a")⟩),
             (s "note", ⟨s "note", .text (s "x\ny")⟩)] }
def lfW0 : Writer :=
  { out := headerOut K0 lfH ++ [columnLine cexS], header := { lfH with errors := [] }, scheme := some cexS,
    mode := .strict, assumeSorted := true, sorting := false }

/-- of the three components of `Printable`, the header satisfies the first two … -/
theorem lfH_inv : lfH.Inv K0 := by
  refine ⟨by decide, ?_, by decide⟩
  intro p hp
  simp only [lfH, List.mem_cons, List.mem_nil_iff, or_false] at hp
  rcases hp with rfl | rfl | rfl <;>
    exact ⟨by decide, by decide, ⟨by decide, by decide, by decide, by decide⟩⟩
theorem lfH_closed :
    (Header.applyContigs K0 { lfH with recs := lfH.recs.map (fun p => (p.1, p.2.reset)) }).recs = lfH.recs := by
  decide
/-- … but not the third -/
theorem lfH_not_printable : ¬ Printable K0 lfH := fun h => h.noLF (s "#note x\ny") (by decide) (by decide)

/-- **Finding (kernel-checked).**  The Strict writer accepts the header (`validate` checks version
    and annotation only) and prints the value over two lines; the reader takes the second half,
    `y`, for the column-name line: the Strict reader refuses the file, the Silent reader returns a
    header whose `note` is `x`.  (`Printable.noLF` is the hypothesis that excludes this.) -/
theorem header_lf_counterexample :
    Writer.init K0 cexR lfH (some .strict) true = .ok lfW0 ∧
    lfW0.bytes = s "#version v\n#annotation.spec a\n#note x\ny\nChromosome\n" ∧
    (match Reader.init exC K0 cexR (fileLines lfW0.bytes) (some .strict) none with
     | .ok _ => none | .error e => some e) = some (.format "SCHEME_MISMATCHING_COLUMN_NAMES" (some 4)) ∧
    (Reader.init exC K0 cexR (fileLines lfW0.bytes) (some .silent) none).toOption.map
        (fun rd => rd.header.recs.map (fun p => (p.1, p.2.value))) =
      some [(s "version", .text (s "v")), (s "annotation.spec", .text (s "a")), (s "note", .text (s "x"))] :=
  ⟨writer_init_typed (by decide +kernel) (by decide +kernel), by decide +kernel, by decide +kernel,
    by decide +kernel⟩

/-! ### (c) a scheme-less first column whose name starts with the header start symbol -/

def hashR : Registry := { schemes := [], supportedVersions := [], supportedAnnotations := [] }
def hashC0 : RCol := ⟨0, { cls := "MafColumnRecord", key := s "#id", value := .atom (.str (s "a")), index := some 0 }⟩
def hashC1 : RCol := ⟨1, { cls := "MafColumnRecord", key := s "B", value := .atom (.str (s "b")), index := some 1 }⟩
def hashRec : Record := { dict := [(s "#id", hashC0), (s "B", hashC1)], slots := [some hashC0, some hashC1] }

/-- **Finding (kernel-checked).**  A scheme-less Silent writer writes the column names `#id`, `B`;
    the reader takes that line for a header line and the first record for the column names: of the
    two records written, one comes back.  (`SchemeFit.nohash` is the hypothesis that excludes
    this.) -/
theorem hash_column_counterexample :
    (Writer.init K0 hashR {} (some .silent) true).toOption.map (fun w0 =>
      ((writeAll exC K0 w0 [hashRec, hashRec]).1.bytes, (writeAll exC K0 w0 [hashRec, hashRec]).2)) =
      some (s "#id\tB\na\tb\na\tb\n", .ok ()) ∧
    (Reader.init exC K0 hashR (fileLines (s "#id\tB\na\tb\na\tb\n")) (some .silent) none).toOption.map
        (fun rd => (rd.readAll exC K0).1.map (fun r => r.render exC)) = some [.ok (s "a\tb")] ∧
    (Reader.init exC K0 hashR (fileLines (s "#id\tB\na\tb\na\tb\n")) (some .silent) none).toOption.map
        (fun rd => rd.scheme.map (·.names)) = some (some ["a", "b"]) :=
  ⟨by decide +kernel, by decide +kernel, by decide +kernel⟩

end findings

/-! ### naming

  By the convention of the development ("what is proved of a statement that is false at full
  strength is called `…_partial`"): the statement of C02 for *every* record a Strict writer accepts
  is `round_trip_any_values`, refuted by `round_trip_any_values_false`; `round_trip_typed` and
  `rewrite_identical` are what holds — everything, under the explicit hypothesis `RecStable` on the
  values (and `Printable`, `SchemeFit`, `Record.Inv`).  The same theorems under the conventional
  names: -/

theorem round_trip_typed_partial : type_of% @round_trip_typed := @round_trip_typed
theorem rewrite_identical_partial : type_of% @rewrite_identical := @rewrite_identical
theorem round_trip_schemeless_partial : type_of% @round_trip_schemeless := @round_trip_schemeless

end C02
