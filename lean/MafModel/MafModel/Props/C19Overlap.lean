/-
  C19 (overlap part) — overlap iteration is incremental: it never pulls more than one record per
  input beyond the groups it has emitted.

  In the model (`MafModel/Model/Overlap.lean`) an input is a list; what the Python iterator has
  *pulled* from input `i` is what it consumed plus the one record it is peeking at (the head of the
  remaining input, when there is one).  `ovNext ops iters = some (g, rest)` is one `__next__`:
  `g` is the emitted group (one slot per input), `rest` the inputs afterwards.

  Everything here is purely structural: no hypothesis on `ops` (no lawfulness, no sortedness) is
  needed.

  * `slot_split`        : `iters[i] = g[i] ++ rest[i]` — only a prefix was consumed, exactly the
                          emitted slot;
  * `consumed_eq_emitted`, `rest_eq_drop`, `slot_eq_take`: the same in counting / `take` / `drop`
                          form;
  * `pulled_le`         : `pulled ≤ emitted + 1` for every input, with equality iff the input is not
                          exhausted; `lookahead` identifies the single look-ahead record;
  * `Run` / `run_split` : the same after any number of `__next__` calls:
                          `iters[i] = (slot i of group 1) ++ … ++ (slot i of group n) ++ rest[i]`;
  * `ovAll_run`         : the groups listed by `ovAll` are such a run.
-/
import MafModel.Lemmas.OverlapLemmas

open Model

namespace C19Overlap

variable {κ : Type} {ops : OvOps κ}

/-! ### one `__next__` -/

/-- the emitted group and the remaining inputs have one slot per input -/
theorem lengths {iters g rest : List (List κ)} (h : ovNext ops iters = some (g, rest)) :
    g.length = iters.length ∧ rest.length = iters.length := by
  obtain ⟨lo, hiF, -, hs⟩ := ovNext_eq_some h
  exact hs.length (by simp)

/-- list form: gluing every emitted slot back in front of the remaining input restores the inputs -/
theorem zipWith_split {iters g rest : List (List κ)} (h : ovNext ops iters = some (g, rest)) :
    List.zipWith (· ++ ·) g rest = iters := by
  obtain ⟨lo, hiF, -, hs⟩ := ovNext_eq_some h
  rw [hs.zipWith_eq, zipWith_append_map_nil]

/-- MAIN: after `ovNext ops iters = some (g, rest)`, for every input `i`:
    `iters[i] = g[i] ++ rest[i]` — only a prefix was consumed, and it is exactly the emitted slot. -/
theorem slot_split {iters g rest : List (List κ)} (h : ovNext ops iters = some (g, rest))
    (i : Nat) (hi : i < iters.length) :
    iters[i] = g[i]'(by rw [(lengths h).1]; exact hi) ++ rest[i]'(by rw [(lengths h).2]; exact hi) := by
  have hz := zipWith_split h
  have hi' : i < (List.zipWith (· ++ ·) g rest).length := by rw [hz]; exact hi
  have : (List.zipWith (· ++ ·) g rest)[i] = iters[i] := by simp only [hz]
  rw [← this, List.getElem_zipWith]

/-- the number of records consumed from input `i` equals the number emitted from it -/
theorem consumed_eq_emitted {iters g rest : List (List κ)} (h : ovNext ops iters = some (g, rest))
    (i : Nat) (hi : i < iters.length) :
    iters[i].length - (rest[i]'(by rw [(lengths h).2]; exact hi)).length
      = (g[i]'(by rw [(lengths h).1]; exact hi)).length := by
  rw [slot_split h i hi, List.length_append]; omega

/-- the remaining input is the input minus its first `|g[i]|` records -/
theorem rest_eq_drop {iters g rest : List (List κ)} (h : ovNext ops iters = some (g, rest))
    (i : Nat) (hi : i < iters.length) :
    rest[i]'(by rw [(lengths h).2]; exact hi)
      = iters[i].drop (g[i]'(by rw [(lengths h).1]; exact hi)).length := by
  rw [slot_split h i hi, List.drop_left]

/-- the emitted slot is the first `|g[i]|` records of the input, in input order -/
theorem slot_eq_take {iters g rest : List (List κ)} (h : ovNext ops iters = some (g, rest))
    (i : Nat) (hi : i < iters.length) :
    g[i]'(by rw [(lengths h).1]; exact hi)
      = iters[i].take (g[i]'(by rw [(lengths h).1]; exact hi)).length := by
  rw [slot_split h i hi, List.take_left]

/-- records pulled from an input of which `rest` remains: the consumed ones plus the one being
    peeked at (`peek()` pulls the head of a non-exhausted input) -/
def pulled (input rest : List κ) : Nat :=
  (input.length - rest.length) + (if rest.isEmpty then 0 else 1)

/-- at most ONE record per input is pulled beyond what was emitted — exactly one when the input is
    not exhausted, none when it is -/
theorem pulled_le {iters g rest : List (List κ)} (h : ovNext ops iters = some (g, rest))
    (i : Nat) (hi : i < iters.length) :
    pulled iters[i] (rest[i]'(by rw [(lengths h).2]; exact hi))
        ≤ (g[i]'(by rw [(lengths h).1]; exact hi)).length + 1 ∧
    (pulled iters[i] (rest[i]'(by rw [(lengths h).2]; exact hi))
        = (g[i]'(by rw [(lengths h).1]; exact hi)).length + 1 ↔
      rest[i]'(by rw [(lengths h).2]; exact hi) ≠ []) := by
  unfold pulled
  rw [consumed_eq_emitted h i hi]
  cases hr : rest[i]'(by rw [(lengths h).2]; exact hi) <;> simp

/-- the look-ahead record of input `i` is the record right after the emitted slot -/
theorem lookahead {iters g rest : List (List κ)} (h : ovNext ops iters = some (g, rest))
    (i : Nat) (hi : i < iters.length) :
    (rest[i]'(by rw [(lengths h).2]; exact hi)).head?
      = iters[i][(g[i]'(by rw [(lengths h).1]; exact hi)).length]? := by
  rw [rest_eq_drop h i hi, List.head?_drop]

/-! ### any number of `__next__` calls -/

/-- `Run ops iters gs rest`: calling `__next__` `gs.length` times from inputs `iters` emits the
    groups `gs`, in this order, and leaves the inputs `rest` -/
inductive Run (ops : OvOps κ) : List (List κ) → List (List (List κ)) → List (List κ) → Prop
  | nil {iters : List (List κ)} : Run ops iters [] iters
  | cons {iters g mid : List (List κ)} {gs : List (List (List κ))} {rest : List (List κ)} :
      ovNext ops iters = some (g, mid) → Run ops mid gs rest → Run ops iters (g :: gs) rest

theorem Run.lengths {iters rest : List (List κ)} {gs : List (List (List κ))}
    (h : Run ops iters gs rest) :
    rest.length = iters.length ∧ ∀ g ∈ gs, g.length = iters.length := by
  induction h with
  | nil => exact ⟨rfl, by simp⟩
  | cons h1 _ ih =>
    have hl := C19Overlap.lengths h1
    refine ⟨by rw [ih.1, hl.2], ?_⟩
    intro g hg
    rcases List.mem_cons.1 hg with rfl | hg
    · exact hl.1
    · rw [ih.2 g hg, hl.2]

/-- after any number of emitted groups, input `i` is the concatenation of its slots in the emitted
    groups followed by what remains: exactly the emitted records were consumed, in order, and the
    only further record pulled is the head of `rest[i]` -/
theorem run_split {iters rest : List (List κ)} {gs : List (List (List κ))}
    (h : Run ops iters gs rest) (i : Nat) (hi : i < iters.length) :
    iters[i] = (gs.map (fun g => g.getD i [])).flatten ++ rest[i]'(by rw [h.lengths.1]; exact hi) := by
  induction h with
  | nil => simp
  | @cons iters g mid gs rest h1 h2 ih =>
    have hl := lengths h1
    have hm : i < mid.length := by rw [hl.2]; exact hi
    have hg : i < g.length := by rw [hl.1]; exact hi
    rw [List.map_cons, List.flatten_cons, List.append_assoc, ← ih hm, slot_split h1 i hi,
      List.getD_eq_getElem?_getD, List.getElem?_eq_getElem hg, Option.getD_some]

/-- counting form: consumed = emitted, and pulled ≤ emitted + 1 -/
theorem run_pulled_le {iters rest : List (List κ)} {gs : List (List (List κ))}
    (h : Run ops iters gs rest) (i : Nat) (hi : i < iters.length) :
    iters[i].length - (rest[i]'(by rw [h.lengths.1]; exact hi)).length
        = ((gs.map (fun g => g.getD i [])).flatten).length ∧
    pulled iters[i] (rest[i]'(by rw [h.lengths.1]; exact hi))
        ≤ ((gs.map (fun g => g.getD i [])).flatten).length + 1 := by
  have hs := run_split h i hi
  have h1 : iters[i].length - (rest[i]'(by rw [h.lengths.1]; exact hi)).length
        = ((gs.map (fun g => g.getD i [])).flatten).length := by
    conv => lhs; rw [hs]
    rw [List.length_append]; omega
  refine ⟨h1, ?_⟩
  unfold pulled
  rw [h1]
  split <;> omega

/-- the groups listed by `ovAll` (whatever the fuel) are a run of `__next__` calls -/
theorem ovAll_run (fuel : Nat) (iters : List (List κ)) :
    ∃ rest, Run ops iters (ovAll ops fuel iters) rest := by
  induction fuel generalizing iters with
  | zero => exact ⟨iters, .nil⟩
  | succ fuel ih =>
    unfold ovAll
    cases h : ovNext ops iters with
    | none => exact ⟨iters, .nil⟩
    | some p =>
      obtain ⟨g, mid⟩ := p
      simp only
      split
      · exact ⟨iters, .nil⟩
      · obtain ⟨rest, hr⟩ := ih mid
        exact ⟨rest, .cons h hr⟩

/-! ### non-vacuity -/

/-- keys `(class, start, stop)` ordered lexicographically -/
def exOps : OvOps (Nat × Int × Int) where
  lt a b := decide (a.1 < b.1) || (decide (a.1 = b.1) &&
    (decide (a.2.1 < b.2.1) || (decide (a.2.1 = b.2.1) && decide (a.2.2 < b.2.2))))
  same a b := decide (a.1 = b.1)
  start k := k.2.1
  stop k := k.2.2

def exIters : List (List (Nat × Int × Int)) :=
  [[(0, 1, 10), (0, 15, 15), (0, 30, 40)], [(0, 5, 25), (0, 50, 60)]]

def exG : List (List (Nat × Int × Int)) := [[(0, 1, 10), (0, 15, 15)], [(0, 5, 25)]]
def exRest : List (List (Nat × Int × Int)) := [[(0, 30, 40)], [(0, 50, 60)]]

/-- a concrete `__next__`: two records absorbed from the first input, one from the second -/
theorem ex_next : ovNext exOps exIters = some (exG, exRest) := by rfl

example : exIters[0] = exG[0] ++ exRest[0] := slot_split ex_next 0 (by decide)
example : exIters[1] = exG[1] ++ exRest[1] := slot_split ex_next 1 (by decide)
example : pulled exIters[0] exRest[0] = exG[0].length + 1 := by decide
example : exRest[0].head? = exIters[0][exG[0].length]? := lookahead ex_next 0 (by decide)

/-- a run of two `__next__` calls, the second exhausting the first input: nothing is pulled from
    it beyond what was emitted -/
example : Run exOps exIters [exG, [[(0, 30, 40)], []]] [[], [(0, 50, 60)]] :=
  .cons ex_next (.cons (by rfl) .nil)
example : pulled exIters[0] ([] : List (Nat × Int × Int)) = (exG[0] ++ [(0, 30, 40)]).length := by
  decide

end C19Overlap
