/-
  C14 — scheme resolution and inheritance.

  The operational scheme factory (`buildSchemes`: "repeatedly build the first
  definition whose base is already built", `combineColumns` with Python-dict
  semantics and `extend_class`) against the declarative layout `Spec.resolve`.

  1. `build_ok_or_value`, `build_ok_iff_full`, `build_ok_iff`, `ungrounded_rejected`,
     `missing_filter_rejected` — success ⇔ all grounded ∧ all filtered names exist;
     every failure is a `ValueError`.
  2. `layout_eq_resolve` (names/version/annotation, unconditional under `DefsOK`),
     `class_layout` (column classes read back as `Spec.ColType`, under `ClassHyps`).
  3. `Spec.resolve_perm`, `order_independent`, `order_independent_classes`.
  4. `override_mro`, `override_semantics`, `override_resolveSpec`, `redefinition_class`.
  5. `duplicate_annotation_order_dependent` (negative fact).
  6. `find_both`, `find_basic`, `find_annotation`, `find_unique`.

  The only conditional part: the class-level statements (`class_layout`,
  `order_independent_classes`) assume `ClassHyps`, whose last field says that the
  class names of the *final* table are pairwise distinct, i.e. that the names the
  model invents for synthesised classes did not collide (Python creates fresh class
  objects; the model's string names `(extra+base)@ann#col#k` are not injective for
  arbitrary strings).  It is decidable and checked for the concrete runs below and,
  in `C14Generated`, for the shipped definitions.
-/
import MafModel.Lemmas.SchemeLemmas
open Py Model SchemeLemmas

namespace C14

/-! ## 1. when does `build_schemes` succeed -/

/-- `build_schemes` either succeeds or raises `ValueError`; the model's internal
    `unmodelled` errors (fuel, index) never occur.  No hypotheses. -/
theorem build_ok_or_value (st : BuildState) (ds : List SchemeDef) :
    (∃ r, buildSchemes st ds = .ok r) ∨ buildSchemes st ds = .error .value :=
  buildSchemesAux_ok_or_value _ st ds [] (Nat.le_refl _)

/-- the loop invariant holds of every successful run -/
theorem ninv_of_ok {st : BuildState} {ds : List SchemeDef} (hds : DefsOK ds) {r}
    (h : buildSchemes st ds = .ok r) : NInv ds [] r.2 :=
  buildSchemesAux_induct (fun _ data built => NInv ds data built)
    (fun _ _ _ _ _ _ _ hinv hi hd hb => hinv.step hds hi hd hb) _ st ds [] r (NInv.init ds) h

/-- what the final invariant says about one definition -/
theorem final_entry {ds : List SchemeDef} (hds : DefsOK ds) {built : List (String × Scheme)}
    (hinv : NInv ds [] built) {d : SchemeDef} (hd : d ∈ ds) :
    ∃ s l, dictGet built d.annotation = some s ∧ s.version = d.version ∧ s.annotation = d.annotation ∧
      filterOKd ds d = true ∧ Spec.layoutOf ds d.annotation = some l ∧ s.names = l.map (·.1) := by
  have hlen := hinv.length_le
  simp only [List.length_nil, Nat.add_zero] at hlen
  have hkeys : (built.map (·.1)).Nodup := by
    have := hinv.perm.nodup_iff.2 hds.1
    simpa using this
  have hmem : d.annotation ∈ built.map (·.1) := by
    have := hinv.perm.mem_iff.2 (List.mem_map.2 ⟨d, hd, rfl⟩)
    simpa using this
  obtain ⟨p, hp, hpa⟩ := List.mem_map.1 hmem
  obtain ⟨d', hd', ha', hv, hann, hf, l, hres, hnames⟩ := hinv.ok p hp
  have hdd : d' = d := by
    have h1 := findDef_of_mem hds.1 hd'
    have h2 := findDef_of_mem hds.1 hd
    rw [ha', hpa, h2] at h1
    exact (Option.some.inj h1).symm
  subst hdd
  refine ⟨p.2, l, ?_, hv, hann, hf, ?_, hnames⟩
  · exact dictGet_of_mem_nodup hkeys (by rw [← hpa]; exact hp)
  · unfold Spec.layoutOf
    rw [← hlen, ← hpa]; exact hres

/-- Full characterisation: for a well-formed definition set the factory succeeds
    exactly when every definition is grounded and every `filtered` name exists. -/
theorem build_ok_iff_full {ds : List SchemeDef} (hds : DefsOK ds) (st : BuildState) :
    (∃ r, buildSchemes st ds = .ok r) ↔ (∀ d ∈ ds, grounded ds d.annotation) ∧ FiltersOK ds := by
  constructor
  · rintro ⟨r, h⟩
    have hinv := ninv_of_ok hds h
    refine ⟨fun d hd => ?_, fun d hd => ?_⟩
    · obtain ⟨s, l, _, _, _, _, hl, _⟩ := final_entry hds hinv hd
      unfold grounded; rw [hl]; simp
    · obtain ⟨s, l, _, _, _, hf, _, _⟩ := final_entry hds hinv hd
      exact hf
  · rintro ⟨hg, hf⟩
    exact buildSchemesAux_progress (fun _ data built => NInv ds data built)
      (fun _ _ _ _ _ _ _ hinv hi hd hb => hinv.step hds hi hd hb)
      (fun st data built hinv hne => hinv.progress hds hg hf hne st)
      _ st ds [] (Nat.le_refl _) (NInv.init ds)

/-- C14.1 as stated: with existing `filtered` names, success ⇔ all grounded. -/
theorem build_ok_iff {ds : List SchemeDef} (hds : DefsOK ds) (hf : FiltersOK ds) (st : BuildState) :
    (∃ r, buildSchemes st ds = .ok r) ↔ ∀ d ∈ ds, grounded ds d.annotation := by
  rw [build_ok_iff_full hds st]
  exact ⟨fun h => h.1, fun h => ⟨h, hf⟩⟩

/-- an unknown base or an inheritance cycle is a `ValueError` -/
theorem ungrounded_rejected {ds : List SchemeDef} (hds : DefsOK ds) (st : BuildState)
    {d : SchemeDef} (hd : d ∈ ds) (h : ¬ grounded ds d.annotation) :
    buildSchemes st ds = .error .value := by
  rcases build_ok_or_value st ds with hok | herr
  · exact absurd (((build_ok_iff_full hds st).1 hok).1 d hd) h
  · exact herr

/-- a `filtered` column that does not exist is a `ValueError` -/
theorem missing_filter_rejected {ds : List SchemeDef} (hds : DefsOK ds) (st : BuildState)
    {d : SchemeDef} (hd : d ∈ ds) {b : String} {bl : Spec.Layout} {f : List String} {n : String}
    (hb : d.hasBase = some b) (hbl : Spec.layoutOf ds b = some bl) (hf : d.filtered = some f)
    (hn : n ∈ f) (hn1 : n ∉ bl.map (·.1)) (hn2 : n ∉ d.columns.map (·.1)) :
    buildSchemes st ds = .error .value := by
  rcases build_ok_or_value st ds with hok | herr
  · exfalso
    have := ((build_ok_iff_full hds st).1 hok).2 d hd
    simp only [filterOKd, hb, hbl, filtOK, hf, List.all_eq_true] at this
    have := this n hn
    simp only [allNames, List.contains_eq_mem, List.mem_append, List.mem_filter,
      decide_eq_true_eq] at this
    rcases this with h | h
    · exact hn1 h
    · exact hn2 h.1
  · exact herr


/-- `grounded` is "following `base` reaches a base-less definition inside `ds` within
    `ds.length` steps" -/
def reaches (ds : List SchemeDef) : Nat → String → Bool
  | 0, _ => false
  | n + 1, a =>
    match Spec.findDef ds a with
    | none => false
    | some d =>
      match d.hasBase with
      | none => true
      | some b => reaches ds n b

theorem resolve_isSome_eq_reaches (ds : List SchemeDef) (n : Nat) (a : String) :
    (Spec.resolve ds n a).isSome = reaches ds n a := by
  induction n generalizing a with
  | zero => rfl
  | succ n ih =>
    unfold Spec.resolve reaches
    cases Spec.findDef ds a with
    | none => rfl
    | some d =>
      simp only []
      cases d.hasBase with
      | none => rfl
      | some b => simp only [Option.isSome_map, ih]

theorem grounded_iff_reaches (ds : List SchemeDef) (a : String) :
    grounded ds a ↔ reaches ds ds.length a = true := by
  unfold grounded Spec.layoutOf
  rw [← resolve_isSome_eq_reaches, Option.isSome_iff_ne_none]

/-! ## 2. the operational layout is the declarative one -/

/-- **C14.2** — every definition is in the result under its annotation, with its own
    version and annotation, and its column names are exactly those of
    `Spec.layoutOf`: the base layout in base order without the filtered columns, then
    the new columns in declaration order, a redefined column keeping its base position. -/
theorem layout_eq_resolve {ds : List SchemeDef} (hds : DefsOK ds) {st st' : BuildState}
    {built : List (String × Scheme)} (h : buildSchemes st ds = .ok (st', built)) :
    ∀ d ∈ ds, ∃ s l, dictGet built d.annotation = some s ∧ s.version = d.version ∧
      s.annotation = d.annotation ∧ Spec.layoutOf ds d.annotation = some l ∧
      s.names = l.map (·.1) := by
  intro d hd
  obtain ⟨s, l, h1, h2, h3, _, h5, h6⟩ := final_entry hds (ninv_of_ok hds h) hd
  exact ⟨s, l, h1, h2, h3, h5, h6⟩

/-- the form given in the task statement -/
theorem layout_eq_resolve' {ds : List SchemeDef} (hds : DefsOK ds) {st st' : BuildState}
    {built : List (String × Scheme)} (h : buildSchemes st ds = .ok (st', built))
    {d : SchemeDef} (hd : d ∈ ds) :
    ∃ s, dictGet built d.annotation = some s ∧ s.version = d.version ∧ s.annotation = d.annotation ∧
      s.names = (Spec.layoutOf ds d.annotation).get!.map (·.1) := by
  obtain ⟨s, l, h1, h2, h3, h5, h6⟩ := layout_eq_resolve hds h d hd
  exact ⟨s, h1, h2, h3, by rw [h5]; exact h6⟩

/-- the result dictionary has exactly the annotations of `ds` as keys -/
theorem built_keys {ds : List SchemeDef} (hds : DefsOK ds) {st st' : BuildState}
    {built : List (String × Scheme)} (h : buildSchemes st ds = .ok (st', built)) :
    (built.map (·.1)).Perm (ds.map (·.annotation)) := by
  have := (ninv_of_ok hds h).perm
  simpa using this

/-- the explicit shape of a derived layout's column names -/
theorem layout_names_derived {ds : List SchemeDef} {n : Nat} {a b : String} {d : SchemeDef} {bl : Spec.Layout}
    (hd : Spec.findDef ds a = some d) (hb : d.hasBase = some b) (hbl : Spec.resolve ds n b = some bl) :
    ∃ l, Spec.resolve ds (n + 1) a = some l ∧
      l.map (·.1) =
        let all := bl.map (·.1) ++ (d.columns.map (·.1)).filter (fun c => !(bl.map (·.1)).contains c)
        match d.filtered with
        | none => all
        | some f => all.filter (fun c => !f.contains c) := by
  refine ⟨Spec.applyDef bl d, ?_, ?_⟩
  · unfold Spec.resolve; rw [hd]; simp only [hb, hbl, Option.map_some]
  · rw [applyDef_names]; rfl

/-! ### class level -/

/-- a scheme's layout read back through the class table -/
def readLayout (tbl : ClassTable) (s : Scheme) : List (String × Option Spec.ColType) :=
  s.cols.map (fun q => (q.1, typeOfClass tbl q.2))

/-- class-level hypotheses on a run: generated base order `[1, 0]`, no synthesised class
    in the initial table, every column type of `ds` known, and the class names of
    the final table pairwise distinct (the synthesised names did not collide) -/
structure ClassHyps (ds : List SchemeDef) (st st' : BuildState) : Prop where
  order : st.order = [1, 0]
  plain : ∀ e ∈ st.tbl, e.display = none
  known : ∀ d ∈ ds, ∀ c ∈ d.columns, (st.tbl.find c.2).isSome = true
  fresh : (st'.tbl.map (·.name)).Nodup

instance (ds : List SchemeDef) (st st' : BuildState) : Decidable (ClassHyps ds st st') :=
  decidable_of_iff (st.order = [1, 0] ∧ (∀ e ∈ st.tbl, e.display = none) ∧
      (∀ d ∈ ds, ∀ c ∈ d.columns, (st.tbl.find c.2).isSome = true) ∧ (st'.tbl.map (·.name)).Nodup)
    ⟨fun ⟨a, b, c, d⟩ => ⟨a, b, c, d⟩, fun ⟨a, b, c, d⟩ => ⟨a, b, c, d⟩⟩

theorem cinv_of_ok {ds : List SchemeDef} (hds : DefsOK ds) {st st' : BuildState}
    {built : List (String × Scheme)} (h : buildSchemes st ds = .ok (st', built))
    (hc : ClassHyps ds st st') : CInv ds st' built := by
  have := buildSchemesAux_induct
    (fun st data built => NInv ds data built ∧ ((st.tbl.map (·.name)).Nodup → CInv ds st built))
    (fun st data built i d st1 s hinv hi hd hb =>
      ⟨hinv.1.step hds hi hd hb, fun hfresh => by
        obtain ⟨⟨ext, hext⟩, _⟩ := buildSchemeClass_tbl hb
        exact CInv.step hds hinv.1 (hinv.2 (nodup_of_append_map (hext ▸ hfresh))) hi hd hb hfresh⟩)
    _ st ds [] (st', built)
    ⟨NInv.init ds, fun _ => ⟨hc.order,
      fun d hd c hcm => typeOfClass_plain hc.plain (hc.known d hd c hcm), by simp⟩⟩ h
  exact this.2 hc.fresh

/-- **C14.2/3, class level** — the class at each position of a built scheme reads back
    as the `ColType` of the declarative layout: a redefined column is
    `mixed extra (inherited type)`, i.e. an `extend_class` of the base class and the
    redefining class with bases `[extra, base]`. -/
theorem class_layout {ds : List SchemeDef} (hds : DefsOK ds) {st st' : BuildState}
    {built : List (String × Scheme)} (h : buildSchemes st ds = .ok (st', built))
    (hc : ClassHyps ds st st') :
    ∀ d ∈ ds, ∃ s l, dictGet built d.annotation = some s ∧ Spec.layoutOf ds d.annotation = some l ∧
      readLayout st'.tbl s = l.map (fun q => (q.1, some q.2)) := by
  intro d hd
  have hinv := ninv_of_ok hds h
  have hcinv := cinv_of_ok hds h hc
  obtain ⟨s, l, h1, _, _, _, h5, _⟩ := final_entry hds hinv hd
  obtain ⟨l', hres, hrel⟩ := hcinv.cls _ (mem_of_dictGet h1)
  have hlen := hinv.length_le
  simp only [List.length_nil, Nat.add_zero] at hlen
  simp only at hres hrel
  rw [hlen] at hres
  have : l' = l := by
    unfold Spec.layoutOf at h5; rw [hres] at h5; exact Option.some.inj h5
  subst this
  exact ⟨s, l', h1, h5, hrel⟩


/-! ## 3. independence of the load order -/

theorem DefsOK.perm {ds ds' : List SchemeDef} (hp : ds.Perm ds') (h : DefsOK ds) : DefsOK ds' :=
  ⟨(hp.map _).nodup_iff.1 h.1, fun d hd => h.2.1 d (hp.mem_iff.2 hd), fun d hd => h.2.2 d (hp.mem_iff.2 hd)⟩

/-- `Spec.resolve` depends only on the *set* of definitions (distinct annotations) -/
theorem _root_.Spec.resolve_perm {ds ds' : List SchemeDef} (hp : ds.Perm ds') (hds : DefsOK ds)
    (n : Nat) (a : String) : Spec.resolve ds n a = Spec.resolve ds' n a :=
  SchemeLemmas.resolve_perm hp hds.1 n a

theorem grounded_perm {ds ds' : List SchemeDef} (hp : ds.Perm ds') (hds : DefsOK ds) (a : String) :
    grounded ds a ↔ grounded ds' a := by
  unfold grounded; rw [layoutOf_perm hp hds.1]

theorem FiltersOK_perm {ds ds' : List SchemeDef} (hp : ds.Perm ds') (hds : DefsOK ds) :
    FiltersOK ds ↔ FiltersOK ds' := by
  have key : ∀ d, filterOKd ds d = filterOKd ds' d := by
    intro d
    unfold filterOKd
    cases d.hasBase with
    | none => rfl
    | some b => simp only [layoutOf_perm hp hds.1]
  unfold FiltersOK
  constructor
  · intro h d hd; rw [← key]; exact h d (hp.mem_iff.2 hd)
  · intro h d hd; rw [key]; exact h d (hp.mem_iff.1 hd)

/-- **C14.3** — for two load orders of the same well-formed definition set (and any two
    initial class tables) the factory succeeds or fails together, and on success every
    annotation — known or not — gets the same version, annotation and column names. -/
theorem order_independent {ds ds' : List SchemeDef} (hp : ds.Perm ds') (hds : DefsOK ds)
    (st st' : BuildState) :
    ((∃ r, buildSchemes st ds = .ok r) ↔ (∃ r, buildSchemes st' ds' = .ok r)) ∧
    (∀ r r', buildSchemes st ds = .ok r → buildSchemes st' ds' = .ok r' → ∀ a,
      (dictGet r.2 a).map (fun s => (s.version, s.annotation, s.names)) =
      (dictGet r'.2 a).map (fun s => (s.version, s.annotation, s.names))) := by
  have hds' := hds.perm hp
  constructor
  · rw [build_ok_iff_full hds st, build_ok_iff_full hds' st', FiltersOK_perm hp hds]
    apply and_congr_left'
    constructor
    · intro h d hd; exact (grounded_perm hp hds _).1 (h d (hp.mem_iff.2 hd))
    · intro h d hd; exact (grounded_perm hp hds _).2 (h d (hp.mem_iff.1 hd))
  · rintro ⟨st1, b1⟩ ⟨st2, b2⟩ h1 h2 a
    by_cases ha : a ∈ ds.map (·.annotation)
    · obtain ⟨d, hd, rfl⟩ := List.mem_map.1 ha
      obtain ⟨s1, l1, g1, v1, a1, e1, n1⟩ := layout_eq_resolve hds h1 d hd
      obtain ⟨s2, l2, g2, v2, a2, e2, n2⟩ := layout_eq_resolve hds' h2 d (hp.mem_iff.1 hd)
      rw [layoutOf_perm hp hds.1, e2] at e1
      have := Option.some.inj e1
      subst this
      simp only [g1, g2, Option.map_some, v1, v2, a1, a2, n1, n2]
    · have k1 : dictGet b1 a = none := by
        rw [dictGet_eq_none_iff]; intro hm; exact ha ((built_keys hds h1).mem_iff.1 hm)
      have k2 : dictGet b2 a = none := by
        rw [dictGet_eq_none_iff]; intro hm
        exact ha ((hp.map _).mem_iff.2 ((built_keys hds' h2).mem_iff.1 hm))
      simp only [k1, k2, Option.map_none]

/-- **C14.3, class level** — under the class-level hypotheses on both runs, every
    annotation's columns also read back to the same `ColType`s in both load orders. -/
theorem order_independent_classes {ds ds' : List SchemeDef} (hp : ds.Perm ds') (hds : DefsOK ds)
    {st st' : BuildState} {r r' : BuildState × List (String × Scheme)}
    (h1 : buildSchemes st ds = .ok r) (h2 : buildSchemes st' ds' = .ok r')
    (hc1 : ClassHyps ds st r.1) (hc2 : ClassHyps ds' st' r'.1) (a : String) :
    (dictGet r.2 a).map (readLayout r.1.tbl) = (dictGet r'.2 a).map (readLayout r'.1.tbl) := by
  have hds' := hds.perm hp
  obtain ⟨st1, b1⟩ := r
  obtain ⟨st2, b2⟩ := r'
  by_cases ha : a ∈ ds.map (·.annotation)
  · obtain ⟨d, hd, rfl⟩ := List.mem_map.1 ha
    obtain ⟨s1, l1, g1, e1, n1⟩ := class_layout hds h1 hc1 d hd
    obtain ⟨s2, l2, g2, e2, n2⟩ := class_layout hds' h2 hc2 d (hp.mem_iff.1 hd)
    rw [layoutOf_perm hp hds.1, e2] at e1
    have := Option.some.inj e1
    subst this
    simp only [g1, g2, Option.map_some, n1, n2]
  · have k1 : dictGet b1 a = none := by
      rw [dictGet_eq_none_iff]; intro hm; exact ha ((built_keys hds h1).mem_iff.1 hm)
    have k2 : dictGet b2 a = none := by
      rw [dictGet_eq_none_iff]; intro hm
      exact ha ((hp.map _).mem_iff.2 ((built_keys hds' h2).mem_iff.1 hm))
    simp only [k1, k2, Option.map_none]

/-! ## 4. what a redefinition means: the MRO of the synthesised class -/

/-- a redefinition of column `x.1` (class `x.2`) over an inherited column of class
    `bcls` appends exactly one class: `extend_class` of the two in the generated order -/
theorem redefinition_class (ann : String) (acc : BuildState × List (String × String) × Nat)
    (x : String × String) (bcls : String) (h : dictGet acc.2.1 x.1 = some bcls) :
    (mixStep ann acc x).1.tbl = acc.1.tbl ++
      [extendClass acc.1.order (mixUid ann x bcls acc.2.2) bcls x.2 (pyNameOf acc.1.tbl bcls)] ∧
    dictGet (mixStep ann acc x).2.1 x.1 = some (mixUid ann x bcls acc.2.2) := by
  unfold mixStep
  rw [h]
  refine ⟨rfl, ?_⟩
  simp only []
  have hk := key_mem_of_dictGet h
  rw [dictSet_of_mem _ hk]
  obtain ⟨p, hp, hpk⟩ := List.mem_map.1 hk
  unfold dictGet
  rw [List.find?_map]
  cases hf : List.find? ((fun p => p.1 == x.1) ∘ fun p => if p.1 == x.1 then (x.1, mixUid ann x bcls acc.2.2) else p) acc.2.1 with
  | none =>
    rw [List.find?_eq_none] at hf
    have := hf p hp
    simp [hpk] at this
  | some q =>
    have := List.find?_some hf
    simp only [Function.comp] at this
    simp only [Option.map_some]
    by_cases hq : (q.1 == x.1) = true
    · simp only [hq, if_true]
    · simp only [hq] at this; exact absurd this hq

/-- general form: the MRO of the synthesised class is `uid :: C3-merge` of the two
    parents' MROs and the base list `[extra, base]` -/
theorem override_mro {tbl : ClassTable} {uid b x nm : String} {mx mb : List String}
    (hfresh : uid ∉ tbl.map (·.name)) (hx : mroOf tbl x = some mx) (hb : mroOf tbl b = some mb) :
    mroOf (tbl ++ [extendClass [1, 0] uid b x nm]) uid =
      (c3merge ((tbl.length + 1) * (tbl.length + 1) + 8) [mx, mb, [x, b]]).map (uid :: ·) :=
  mroOf_extend hfresh hx hb

/-- **C14.4** — the masking mix-in.  `RequireNullValue` (MRO
    `[RequireNullValue, MafColumnRecord]`, defining only `__validate__`) mixed over any
    class `b` whose MRO ends in `MafColumnRecord` (in particular
    `[…, MafCustomColumnRecord, MafColumnRecord]`): the synthesised class has MRO
    `uid :: RequireNullValue :: mro(b)`; its `__validate__` chain is
    `RequireNullValue` followed by the *whole* inherited chain (both constraints are
    enforced), and every other hook (`build`, `validate`, `__build__`,
    `__string_it__`, `__nullable_dict__`) and the null dictionary resolve as in `b`. -/
theorem override_semantics {tbl : ClassTable} {uid b nm : String} {pre : List String} {eR : ClassEntry}
    (hfresh : uid ∉ tbl.map (·.name))
    (hx : mroOf tbl "RequireNullValue" = some ["RequireNullValue", "MafColumnRecord"])
    (hb : mroOf tbl b = some (pre ++ ["MafColumnRecord"]))
    (hnd : (pre ++ ["MafColumnRecord"]).Nodup) (hR : "RequireNullValue" ∉ pre)
    (hfind : tbl.find "RequireNullValue" = some eR) (hhooks : eR.hooks = ["__validate__"])
    (hnull : eR.nullDict = none) :
    let tbl' := tbl ++ [extendClass [1, 0] uid b "RequireNullValue" nm]
    let m := uid :: "RequireNullValue" :: (pre ++ ["MafColumnRecord"])
    mroOf tbl' uid = some m ∧
    hookChain tbl' m "__validate__" =
      "RequireNullValue" :: hookChain tbl (pre ++ ["MafColumnRecord"]) "__validate__" ∧
    (∀ hook, hook ≠ "__validate__" →
      hookChain tbl' m hook = hookChain tbl (pre ++ ["MafColumnRecord"]) hook) ∧
    firstConst tbl' m (·.nullDict) = firstConst tbl (pre ++ ["MafColumnRecord"]) (·.nullDict) := by
  intro tbl' m
  have hRm : "RequireNullValue" ∉ pre ++ ["MafColumnRecord"] := by
    intro h; rcases List.mem_append.1 h with h | h
    · exact hR h
    · simp at h
  have huid : tbl.find uid = none := by
    unfold ClassTable.find
    rw [List.find?_eq_none]
    intro e he hn
    simp only [beq_iff_eq] at hn
    exact hfresh (List.mem_map.2 ⟨e, he, hn⟩)
  refine ⟨mroOf_extend_mask hfresh hx hb hnd hRm, ?_, ?_, ?_⟩
  · show hookChain (tbl ++ [_]) (uid :: "RequireNullValue" :: _) _ = _
    rw [hookChain_extend _ _ rfl, hookChain_cons, hookChain_cons, huid, hfind]
    simp only [hhooks]
    rfl
  · intro hook hne
    show hookChain (tbl ++ [_]) (uid :: "RequireNullValue" :: _) _ = _
    rw [hookChain_extend _ _ rfl, hookChain_cons, hookChain_cons, huid, hfind]
    simp only [hhooks]
    have : (["__validate__"].contains hook) = false := by
      simp only [List.contains_cons, List.contains_nil, Bool.or_false, beq_eq_false_iff_ne]
      exact hne
    simp only [this]
    rfl
  · show firstConst (tbl ++ [_]) (uid :: "RequireNullValue" :: _) _ = _
    rw [firstConst_extend _ _ _ rfl, firstConst_cons, firstConst_cons, huid, hfind]
    simp only [Option.bind_none, Option.bind_some, hnull, Option.none_or]


theorem resolveElem_extend {tbl : ClassTable} (e : ClassEntry) (he : e.hooks = [])
    (h1 : e.enumCls = none) (h2 : e.minV = none) (h3 : e.maxV = none) {ec : String}
    (hm : (mroOf tbl ec).isSome = true) : resolveElem (tbl ++ [e]) ec = resolveElem tbl ec := by
  unfold resolveElem
  cases hmro : mroOf tbl ec with
  | none => rw [hmro] at hm; cases hm
  | some em =>
    rw [mroOf_append [e] hmro]
    simp only [Option.map_some, hookChain_extend _ _ he, firstConst_extend _ _ _ h1,
      firstConst_extend _ _ _ h2, firstConst_extend _ _ _ h3]

/-- **C14.4, as a `ColSpec`** — everything method resolution decides about the
    synthesised masking class is what it decides about the base class `b`, except
    that `RequireNullValue.__validate__` is put in front of the inherited
    `__validate__` chain. -/
theorem override_resolveSpec {tbl : ClassTable} {uid b nm : String} {pre : List String}
    (hfresh : uid ∉ tbl.map (·.name))
    (hx : mroOf tbl "RequireNullValue" = some ["RequireNullValue", "MafColumnRecord"])
    (hb : mroOf tbl b = some (pre ++ ["MafColumnRecord"]))
    (hnd : (pre ++ ["MafColumnRecord"]).Nodup) (hR : "RequireNullValue" ∉ pre)
    (hfind : tbl.find "RequireNullValue" =
      some { name := "RequireNullValue", bases := ["MafColumnRecord"], hooks := ["__validate__"] })
    (helem : ∀ ec, firstConst tbl (pre ++ ["MafColumnRecord"]) (·.elemCls) = some ec →
      (mroOf tbl ec).isSome = true) :
    resolveSpec (tbl ++ [extendClass [1, 0] uid b "RequireNullValue" nm]) uid =
      (resolveSpec tbl b).map (fun sp =>
        { sp with cls := uid, mro := uid :: "RequireNullValue" :: sp.mro,
                  validateChain := "RequireNullValue" :: sp.validateChain }) := by
  obtain ⟨hm, hval, hother, _⟩ := override_semantics (nm := nm) hfresh hx hb hnd hR hfind rfl rfl
  have huid : tbl.find uid = none := by
    unfold ClassTable.find
    rw [List.find?_eq_none]
    intro e he hn
    simp only [beq_iff_eq] at hn
    exact hfresh (List.mem_map.2 ⟨e, he, hn⟩)
  have hconst : ∀ {α} (f : ClassEntry → Option α),
      f (extendClass [1, 0] uid b "RequireNullValue" nm) = none →
      f { name := "RequireNullValue", bases := ["MafColumnRecord"], hooks := ["__validate__"] } = none →
      firstConst (tbl ++ [extendClass [1, 0] uid b "RequireNullValue" nm])
        (uid :: "RequireNullValue" :: (pre ++ ["MafColumnRecord"])) f =
      firstConst tbl (pre ++ ["MafColumnRecord"]) f := by
    intro α f h1 h2
    rw [firstConst_extend _ _ _ h1, firstConst_cons, firstConst_cons, huid, hfind]
    simp only [Option.bind_none, Option.bind_some, h2, Option.none_or]
  unfold resolveSpec
  rw [hm, hb]
  simp only [Option.map_some, Option.some.injEq]
  rw [hval, hother "build" (by decide), hother "validate" (by decide), hother "__build__" (by decide),
    hother "__string_it__" (by decide), hconst (·.nullDict) rfl rfl, hconst (·.enumCls) rfl rfl,
    hconst (·.minV) rfl rfl, hconst (·.maxV) rfl rfl, hconst (·.elemCls) rfl rfl]
  congr 1
  cases hec : firstConst tbl (pre ++ ["MafColumnRecord"]) (·.elemCls) with
  | none => rfl
  | some ec =>
    simp only [Option.bind_some]
    exact resolveElem_extend _ rfl rfl rfl rfl (helem ec hec)

/-! ## 5. duplicate annotations are *not* rejected -/

def dupA : SchemeDef := { version := "v", annotation := "a", base := none, filtered := none, columns := [("x", "T")] }
def dupB : SchemeDef := { version := "v", annotation := "a", base := none, filtered := none, columns := [("y", "T")] }

/-- **C14.5** — two definitions with the same annotation are accepted; the later one
    silently overwrites the earlier, so the layout of that annotation depends on the
    load order.  This is why `DefsOK` (distinct annotations) is a hypothesis of 1–3. -/
theorem duplicate_annotation_order_dependent :
    ∃ ds ds' : List SchemeDef, ds.Perm ds' ∧ ¬ DefsOK ds ∧
      ∀ st : BuildState, ∃ r r', buildSchemes st ds = .ok r ∧ buildSchemes st ds' = .ok r' ∧
        (dictGet r.2 "a").map (·.names) = some ["y"] ∧ (dictGet r'.2 "a").map (·.names) = some ["x"] ∧
        (dictGet r.2 "a").map (·.names) ≠ (dictGet r'.2 "a").map (·.names) :=
  ⟨[dupA, dupB], [dupB, dupA], List.Perm.swap _ _ _, by decide, fun st =>
    ⟨(st, [("a", { version := "v", annotation := "a", cols := [("y", "T")] })]),
     (st, [("a", { version := "v", annotation := "a", cols := [("x", "T")] })]),
     rfl, rfl, rfl, rfl, by simp [dictGet, Scheme.names]⟩⟩


/-! ## 6. `find_scheme_class` finds *the* scheme, whatever the order -/

/-- `validate_schemes` is pairwise distinctness of `(version, annotation)` -/
theorem validate_iff (all : List Scheme) :
    validateSchemes all = true ↔
      all.Pairwise (fun s r => (s.version, s.annotation) ≠ (r.version, r.annotation)) :=
  validateSchemes_iff all

/-- at most one scheme per `(version, annotation)` pair -/
theorem pair_unique {all : List Scheme} (hv : validateSchemes all = true) {s s' : Scheme}
    (hs : s ∈ all) (hs' : s' ∈ all) (h1 : s.version = s'.version) (h2 : s.annotation = s'.annotation) :
    s = s' :=
  atMostOne_of_pairwise (fun s : Scheme => (s.version, s.annotation)) ((validate_iff all).1 hv)
    s hs s' hs' (by simp [h1, h2])

/-- both given: the unique scheme with that `(version, annotation)` pair -/
theorem find_both {all : List Scheme} (hv : validateSchemes all = true) {s : Scheme} (hs : s ∈ all)
    (hne1 : s.version ≠ "") (hne2 : s.annotation ≠ "") :
    findSchemeClass all (some s.version) (some s.annotation) = .ok (some s) := by
  have e1 : s.version.isEmpty = false := by simpa [String.isEmpty_iff] using hne1
  have e2 : s.annotation.isEmpty = false := by simpa [String.isEmpty_iff] using hne2
  simp only [findSchemeClass, Option.filter, e1, e2, Bool.not_false, if_true]
  congr 1
  apply find?_of_unique hs (by simp)
  intro r hr hp
  simp only [Bool.and_eq_true, beq_iff_eq] at hp
  exact pair_unique hv hr hs hp.1 hp.2

/-- version only: the unique *basic* scheme (annotation = version) -/
theorem find_basic {all : List Scheme} (hv : validateSchemes all = true) {s : Scheme} (hs : s ∈ all)
    (hne : s.version ≠ "") (hbasic : s.annotation = s.version) (a : Option String)
    (ha : a = none ∨ a = some "") :
    findSchemeClass all (some s.version) a = .ok (some s) := by
  have e1 : s.version.isEmpty = false := by simpa [String.isEmpty_iff] using hne
  have ha' : a.filter (fun s => !s.isEmpty) = none := by
    rcases ha with rfl | rfl
    · rfl
    · decide
  simp only [findSchemeClass, ha']
  simp only [Option.filter, e1, Bool.not_false, if_true]
  congr 1
  apply find?_of_unique hs (by simp [hbasic])
  intro r hr hp
  simp only [Bool.and_eq_true, beq_iff_eq] at hp
  exact pair_unique hv hr hs hp.1 (hp.2.trans hbasic.symm)

/-- annotation only: needs distinct annotations -/
theorem find_annotation {all : List Scheme} (hnd : (all.map (·.annotation)).Nodup) {s : Scheme}
    (hs : s ∈ all) (hne : s.annotation ≠ "") (v : Option String) (hv : v = none ∨ v = some "") :
    findSchemeClass all v (some s.annotation) = .ok (some s) := by
  have e1 : s.annotation.isEmpty = false := by simpa [String.isEmpty_iff] using hne
  have hv' : v.filter (fun s => !s.isEmpty) = none := by
    rcases hv with rfl | rfl
    · rfl
    · decide
  simp only [findSchemeClass, hv']
  simp only [Option.filter, e1, Bool.not_false, if_true]
  congr 1
  apply find?_of_unique hs (by simp)
  intro r hr hp
  simp only [beq_iff_eq] at hp
  exact atMostOne_of_pairwise (fun s : Scheme => s.annotation) (List.pairwise_map.1 hnd) r hr s hs hp

/-- **C14.6** — with pairwise distinct `(version, annotation)` pairs the answer of
    `find_scheme_class` does not depend on the order of the list of schemes; for the
    annotation-only form this needs distinct annotations. -/
theorem find_unique {all all' : List Scheme} (hp : all.Perm all') (hv : validateSchemes all = true)
    (v a : Option String)
    (hann : v.filter (fun s => !s.isEmpty) = none → (all.map (·.annotation)).Nodup) :
    findSchemeClass all v a = findSchemeClass all' v a := by
  have hpair : ∀ x y : String, ∀ s ∈ all, ∀ r ∈ all,
      (s.version == x && s.annotation == y) = true → (r.version == x && r.annotation == y) = true → s = r := by
    intro x y s hs r hr h1 h2
    simp only [Bool.and_eq_true, beq_iff_eq] at h1 h2
    exact pair_unique hv hs hr (h1.1.trans h2.1.symm) (h1.2.trans h2.2.symm)
  unfold findSchemeClass
  cases hvf : v.filter (fun s => !s.isEmpty) with
  | none =>
    cases haf : a.filter (fun s => !s.isEmpty) with
    | none => rfl
    | some a' =>
      simp only []
      congr 1
      apply find?_perm_of_unique hp
      intro s hs r hr h1 h2
      simp only [beq_iff_eq] at h1 h2
      exact atMostOne_of_pairwise (fun s : Scheme => s.annotation) (List.pairwise_map.1 (hann hvf))
        s hs r hr (h1.trans h2.symm)
  | some v' =>
    cases haf : a.filter (fun s => !s.isEmpty) with
    | none =>
      simp only []
      congr 1
      exact find?_perm_of_unique hp (hpair v' v')
    | some a' =>
      simp only []
      congr 1
      exact find?_perm_of_unique hp (hpair v' a')

/-! ## non-vacuity: a three-definition chain, two load orders -/
namespace Ex

def tbl0 : ClassTable := [
  { name := "MafColumnRecord", bases := [], hooks := ["build", "validate", "__nullable_dict__"] },
  { name := "MafCustomColumnRecord", bases := ["MafColumnRecord"], hooks := ["__build__", "__validate__"] },
  { name := "StringColumn", bases := ["MafCustomColumnRecord"], hooks := ["__build__", "__validate__"] },
  { name := "RequireNullValue", bases := ["MafColumnRecord"], hooks := ["__validate__"] }]

def st0 : BuildState := { tbl := tbl0, order := [1, 0] }

def root : SchemeDef :=
  { version := "v1", annotation := "v1", base := none, filtered := none,
    columns := [("c1", "StringColumn"), ("c2", "StringColumn")] }
def child : SchemeDef :=
  { version := "v1", annotation := "v1-x", base := some "v1", filtered := none,
    columns := [("c2", "RequireNullValue"), ("c3", "StringColumn")] }
def grand : SchemeDef :=
  { version := "v1", annotation := "v1-x-pub", base := some "v1-x", filtered := some ["c1"],
    columns := [] }

def order1 : List SchemeDef := [grand, child, root]
def order2 : List SchemeDef := [root, grand, child]

example : order1.Perm order2 := by decide
example : DefsOK order1 := by decide
example : FiltersOK order1 := by decide
example : ∀ d ∈ order1, grounded order1 d.annotation := by decide
example : ∃ r, buildSchemes st0 order1 = .ok r :=
  (build_ok_iff (ds := order1) (by decide) (by decide) st0).2 (by decide)

def summary (r : Except PyErr (BuildState × List (String × Scheme))) :=
  r.toOption.map (fun r => r.2.map (fun p => (p.1, p.2.version, p.2.names)))

example : summary (buildSchemes st0 order1) =
    some [("v1", "v1", ["c1", "c2"]), ("v1-x", "v1", ["c1", "c2", "c3"]), ("v1-x-pub", "v1", ["c2", "c3"])] := by
  decide +kernel
example : summary (buildSchemes st0 order2) =
    some [("v1", "v1", ["c1", "c2"]), ("v1-x", "v1", ["c1", "c2", "c3"]), ("v1-x-pub", "v1", ["c2", "c3"])] := by
  decide +kernel


/-- the class-level hypotheses hold of both runs -/
example : (match buildSchemes st0 order1 with
    | .ok r => decide (ClassHyps order1 st0 r.1)
    | .error _ => false) = true := by decide +kernel
example : (match buildSchemes st0 order2 with
    | .ok r => decide (ClassHyps order2 st0 r.1)
    | .error _ => false) = true := by decide +kernel

/-- the redefined column `c2` keeps its base position and reads back as
    `RequireNullValue` mixed over the inherited `StringColumn`, in both load orders -/
example : (buildSchemes st0 order1).toOption.bind (fun r => (dictGet r.2 "v1-x-pub").map (readLayout r.1.tbl)) =
    some [("c2", some (.mixed "RequireNullValue" (.named "StringColumn"))),
          ("c3", some (.named "StringColumn"))] := by decide +kernel
example : (buildSchemes st0 order2).toOption.bind (fun r => (dictGet r.2 "v1-x-pub").map (readLayout r.1.tbl)) =
    some [("c2", some (.mixed "RequireNullValue" (.named "StringColumn"))),
          ("c3", some (.named "StringColumn"))] := by decide +kernel
example : Spec.layoutOf order1 "v1-x-pub" =
    some [("c2", .mixed "RequireNullValue" (.named "StringColumn")), ("c3", .named "StringColumn")] := by decide

/-- unknown base, inheritance cycle, missing filtered column: `ValueError` -/
example : ¬ grounded [child] child.annotation := by decide
example : buildSchemes st0 [child] = .error .value :=
  ungrounded_rejected (ds := [child]) (by decide) st0 (d := child) (by decide) (by decide)
def cycA : SchemeDef := { version := "v", annotation := "a", base := some "b", filtered := none, columns := [] }
def cycB : SchemeDef := { version := "v", annotation := "b", base := some "a", filtered := none, columns := [] }
example : DefsOK [cycA, cycB] ∧ ¬ grounded [cycA, cycB] "a" := by decide
example : buildSchemes st0 [cycA, cycB] = .error .value :=
  ungrounded_rejected (ds := [cycA, cycB]) (by decide) st0 (d := cycA) (by decide) (by decide)
def badFilter : SchemeDef :=
  { version := "v1", annotation := "v1-bad", base := some "v1", filtered := some ["nope"], columns := [] }
example : DefsOK [root, badFilter] ∧ (∀ d ∈ [root, badFilter], grounded [root, badFilter] d.annotation) ∧
    ¬ FiltersOK [root, badFilter] := by decide
example : buildSchemes st0 [root, badFilter] = .error .value :=
  missing_filter_rejected (ds := [root, badFilter]) (by decide) st0 (d := badFilter) (by decide)
    (b := "v1") (bl := [("c1", .named "StringColumn"), ("c2", .named "StringColumn")])
    (f := ["nope"]) (n := "nope") (by decide) (by decide) rfl (by decide) (by decide) (by decide)

/-- the hypotheses of `override_semantics` hold for the synthesised class of `c2` -/
example :
    "(RequireNullValue+StringColumn)@v1-x#c2#0" ∉ tbl0.map (·.name) ∧
    mroOf tbl0 "RequireNullValue" = some ["RequireNullValue", "MafColumnRecord"] ∧
    mroOf tbl0 "StringColumn" = some (["StringColumn", "MafCustomColumnRecord"] ++ ["MafColumnRecord"]) ∧
    (["StringColumn", "MafCustomColumnRecord"] ++ ["MafColumnRecord"]).Nodup ∧
    "RequireNullValue" ∉ ["StringColumn", "MafCustomColumnRecord"] ∧
    tbl0.find "RequireNullValue" =
      some { name := "RequireNullValue", bases := ["MafColumnRecord"], hooks := ["__validate__"] } := by
  decide +kernel

/-- and its conclusion, computed: both `__validate__` hooks run, `RequireNullValue` first -/
example : (buildSchemes st0 order1).toOption.bind (fun r =>
      (mroOf r.1.tbl "(RequireNullValue+StringColumn)@v1-x#c2#0").map (fun m =>
        (m, hookChain r.1.tbl m "__validate__", hookChain r.1.tbl m "__build__"))) =
    some (["(RequireNullValue+StringColumn)@v1-x#c2#0", "RequireNullValue", "StringColumn",
            "MafCustomColumnRecord", "MafColumnRecord"],
          ["RequireNullValue", "StringColumn", "MafCustomColumnRecord"],
          ["StringColumn", "MafCustomColumnRecord"]) := by decide +kernel

/-- lookup in two orders -/
def sA : Scheme := { version := "v1", annotation := "v1", cols := [] }
def sB : Scheme := { version := "v1", annotation := "v1-x", cols := [] }
def sC : Scheme := { version := "v2", annotation := "v2", cols := [] }
example : validateSchemes [sA, sB, sC] = true ∧ ([sA, sB, sC].map (·.annotation)).Nodup ∧
    [sA, sB, sC].Perm [sC, sB, sA] := by decide
example : findSchemeClass [sC, sB, sA] (some "v1") none = .ok (some sA) :=
  find_basic (all := [sC, sB, sA]) (by decide) (s := sA) (by decide) (by decide) rfl none (.inl rfl)
example : findSchemeClass [sC, sB, sA] none (some "v1-x") = .ok (some sB) :=
  find_annotation (all := [sC, sB, sA]) (by decide) (s := sB) (by decide) (by decide) none (.inl rfl)
example : findSchemeClass [sA, sB, sC] (some "v1") (some "v1-x") = .ok (some sB) :=
  find_both (all := [sA, sB, sC]) (by decide) (s := sB) (by decide) (by decide) (by decide)
example (v a : Option String) : findSchemeClass [sA, sB, sC] v a = findSchemeClass [sC, sB, sA] v a :=
  find_unique (by decide) (by decide) v a (fun _ => by decide)

end Ex
end C14
