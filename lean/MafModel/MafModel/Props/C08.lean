/-
  C08 — sort keys form the documented total preorder and never fail on well-formed records.

  Everything is stated about the model's own `mkKey`, `cmpKV`, `cmpKey` and the six operators
  `keyLt keyEq keyLe keyGt keyGe keyNe` (`MafModel/Model/SortOrder.lean`).

  * `Loc.WF` (in `Lemmas/SortOrderLemmas.lean`) is the decidable well-formedness predicate.
  * `GoodKey o cs k`: `k` is a key that `mkKey o cs` produced from some well-formed record.
  * `KeyInv ranked k`: the kind invariant (barcodes `None`/text, chromosome `None`/text without
    contig list and integer rank with one, positions `None`/integer).  All order laws are proved
    for every key satisfying the invariant (`…_inv`), and specialised to `GoodKey`s.

  Errors of the key function (section a): `KeyError` exactly for the records that cannot be keyed
  (a coordinate column is missing, or a position is a text `int()` cannot read:
  `mkKey_keyError_iff`), `ValueError` exactly for a chromosome missing from a non-empty contig
  list (`contig_missing_iff`, no hypothesis on the positions), nothing else (`mkKey_all_cases`).

  None of the statements needs `o.sortable`: they hold for every order `o` (an order without
  barcodes builds coordinate keys), which is stronger than what was asked.
-/
import MafModel.Lemmas.SortOrderLemmas
open Py Model
namespace C08

/-! ## (a) `mkKey` never fails on well-formed records, except for the documented `ValueError` -/

/-- a. a well-formed record can be keyed when there is no contig list or its chromosome name is
    in the list -/
theorem mkKey_total (o : Order) (cs : List Text) (l : Loc) (hwf : l.WF)
    (hc : cs = [] ∨ ∃ s, l.chrName = some s ∧ s ∈ cs) : ∃ k, mkKey o cs l = .ok k :=
  ⟨l.key o cs, mkKey_eq_ok hwf hc⟩

/-- a. ... and the key is `Loc.key` (barcodes copied, chromosome name or rank, positions as
    integers) -/
theorem mkKey_value (o : Order) (cs : List Text) (l : Loc) (hwf : l.WF)
    (hc : cs = [] ∨ ∃ s, l.chrName = some s ∧ s ∈ cs) : mkKey o cs l = .ok (l.key o cs) :=
  mkKey_eq_ok hwf hc

/-- a. with a contig list that does not contain the chromosome (or no chromosome at all), keying
    raises `ValueError`; only the coordinate columns have to be present for this (the positions
    are read after the contig lookup, and a bad position is no `ValueError` anyway) -/
theorem contig_missing_of_hasCoords (o : Order) (cs : List Text) (l : Loc)
    (h0 : l.hasCoords = true) (hne : cs ≠ []) (h : ∀ s, l.chrName = some s → s ∉ cs) :
    mkKey o cs l = .error .value :=
  mkKey_eq_error h0 hne h

theorem contig_missing (o : Order) (cs : List Text) (l : Loc) (hwf : l.WF)
    (hne : cs ≠ []) (h : ∀ s, l.chrName = some s → s ∉ cs) :
    mkKey o cs l = .error .value :=
  mkKey_eq_error hwf.1 hne h

/-- a. ... and that is the ONLY `ValueError` of the key function: for every record (well-formed or
    not, whatever its positions are), `mkKey` raises `ValueError` if and only if the record has its
    coordinate columns and a non-empty contig list does not contain its chromosome name -/
theorem contig_missing_iff (o : Order) (cs : List Text) (l : Loc) :
    mkKey o cs l = .error .value ↔
      l.hasCoords = true ∧ cs ≠ [] ∧ ∀ s, l.chrName = some s → s ∉ cs :=
  mkKey_valueError_iff

/-- a. without a contig list the key function never raises `ValueError` -/
theorem no_valueError_without_contigs (o : Order) (l : Loc) : mkKey o [] l ≠ .error .value := by
  intro h
  exact ((contig_missing_iff o [] l).1 h).2.1 rfl

/-- a. the two cases are exhaustive: on a well-formed record `mkKey` either succeeds or raises
    `ValueError` for a chromosome missing from the contig list — nothing else
    (no `KeyError`, no `TypeError`) -/
theorem mkKey_wf_cases (o : Order) (cs : List Text) (l : Loc) (hwf : l.WF) :
    mkKey o cs l = .ok (l.key o cs) ∨
      (cs ≠ [] ∧ (∀ s, l.chrName = some s → s ∉ cs) ∧ mkKey o cs l = .error .value) := by
  rcases chrOk_or_missing cs l with hc | ⟨hne, hm⟩
  · exact .inl (mkKey_eq_ok hwf hc)
  · exact .inr ⟨hne, hm, mkKey_eq_error hwf.1 hne hm⟩

/-- a. the complete case analysis for EVERY record, in the evaluation order of
    `_CoordinateKey.__init__`: no coordinates → `KeyError`; chromosome not in the contig list →
    `ValueError`; a position text that is not a number → `KeyError`; otherwise the key `Loc.key` -/
theorem mkKey_all_cases (o : Order) (cs : List Text) (l : Loc) :
    (l.hasCoords = false ∧ mkKey o cs l = .error .key) ∨
    (l.hasCoords = true ∧ cs ≠ [] ∧ (∀ s, l.chrName = some s → s ∉ cs) ∧
      mkKey o cs l = .error .value) ∨
    (l.hasCoords = true ∧ l.chrOk cs ∧ (l.start.posOk = false ∨ l.stop.posOk = false) ∧
      mkKey o cs l = .error .key) ∨
    (l.hasCoords = true ∧ l.chrOk cs ∧ l.start.posOk = true ∧ l.stop.posOk = true ∧
      mkKey o cs l = .ok (l.key o cs)) :=
  mkKey_cases o cs l

/-- `KeyError` is raised exactly by the records that cannot be keyed: a coordinate column is
    missing, or — the chromosome being keyable (no contig list, or the name is in it) — a position
    is a text that `int()` cannot read -/
theorem mkKey_keyError_iff (o : Order) (cs : List Text) (l : Loc) :
    mkKey o cs l = .error .key ↔
      l.hasCoords = false ∨
        ((cs = [] ∨ ∃ s, l.chrName = some s ∧ s ∈ cs) ∧
          (l.start.posOk = false ∨ l.stop.posOk = false)) :=
  Model.mkKey_keyError_iff

/-- the key function raises nothing but `KeyError` and `ValueError` -/
theorem mkKey_error_kinds (o : Order) (cs : List Text) (l : Loc) (e : PyErr)
    (h : mkKey o cs l = .error e) : e = .key ∨ e = .value :=
  mkKey_error_kind h

/-- `mkKey` succeeds exactly on the records with coordinate columns, a keyable chromosome and
    readable positions (the barcodes are copied, never read) -/
theorem mkKey_succeeds_iff (o : Order) (cs : List Text) (l : Loc) (k : Key) :
    mkKey o cs l = .ok k ↔
      l.hasCoords = true ∧ (cs = [] ∨ ∃ s, l.chrName = some s ∧ s ∈ cs) ∧
        l.start.posOk = true ∧ l.stop.posOk = true ∧ k = l.key o cs :=
  Model.mkKey_ok_iff'

/-- a text position that `int()` rejects makes the record un-keyable: `KeyError`, like a missing
    coordinate column (why `WF` asks for readable positions) -/
theorem posInt_bad_text (s : Text) (h : pyInt s = none) : posInt (.str s) = .error .key := by
  simp [posInt, h]

/-- `posInt` raises nothing but that `KeyError` -/
theorem posInt_error_iff (v : KV) (e : PyErr) :
    posInt v = .error e ↔ (∃ s, v = .str s ∧ pyInt s = none) ∧ e = .key := by
  rw [Model.posInt_error_iff]
  constructor
  · rintro ⟨h, rfl⟩
    refine ⟨?_, rfl⟩
    cases v with
    | str s => exact ⟨s, rfl, by simpa [KV.posOk] using h⟩
    | none => simp [KV.posOk] at h
    | int i => simp [KV.posOk] at h
  · rintro ⟨⟨s, rfl, hs⟩, rfl⟩
    exact ⟨by simp [KV.posOk, hs], rfl⟩

/-- a record whose start (or end) is a non-numeric text is a `KeyError` when its chromosome can be
    keyed ... -/
theorem bad_position_keyError (o : Order) (cs : List Text) (l : Loc) (h0 : l.hasCoords = true)
    (hc : cs = [] ∨ ∃ s, l.chrName = some s ∧ s ∈ cs)
    (hp : l.start.posOk = false ∨ l.stop.posOk = false) : mkKey o cs l = .error .key :=
  mkKey_bad_position h0 hc hp

example : ∃ k, mkKey .barcodesAndCoordinate ["chr1".toList, "chr2".toList]
    { tumor := .str "T".toList, chr := .str "chr2".toList, start := .int 5, stop := .int 9 }
      = .ok k :=
  mkKey_total _ _ _ (by decide) (.inr ⟨"chr2".toList, by decide, by decide⟩)

example : mkKey .coordinate ["chr1".toList] { chr := .str "chrX".toList, start := .int 5, stop := .int 9 }
    = .error .value :=
  contig_missing _ _ _ (by decide) (by decide) (by intro s hs; cases hs; decide)

/-- non-vacuity of `bad_position_keyError`: the start `"abc"` is not a number -/
example : mkKey .coordinate ["chr1".toList]
    { chr := .str "chr1".toList, start := .str "abc".toList, stop := .int 9 } = .error .key :=
  bad_position_keyError _ _ _ rfl (.inr ⟨"chr1".toList, by decide, by decide⟩) (.inl (by decide))

/-- ... but the contig lookup comes first: the same bad position on a chromosome the contig list
    does not have is the `ValueError` (`contig_missing_iff` has no position hypothesis) -/
example : mkKey .coordinate ["chr1".toList]
    { chr := .str "chrX".toList, start := .str "abc".toList, stop := .int 9 } = .error .value :=
  (contig_missing_iff _ _ _).2 ⟨rfl, by decide, by intro s hs; cases hs; decide⟩

/-! ## keys of well-formed records -/

/-- `k` is a key made by `mkKey o cs` from a well-formed record -/
def GoodKey (o : Order) (cs : List Text) (k : Key) : Prop :=
  ∃ l : Loc, l.WF ∧ mkKey o cs l = .ok k

/-- the kind-compatibility invariant holds for every good key -/
theorem GoodKey.inv {o : Order} {cs : List Text} {k : Key} (h : GoodKey o cs k) :
    KeyInv (!cs.isEmpty) k := by
  obtain ⟨l, hwf, hk⟩ := h
  exact mkKey_inv hwf hk

/-- non-vacuity: a good key with a contig list, barcodes and a text position -/
example : GoodKey .barcodesAndCoordinate ["chr1".toList, "chr2".toList]
    { tumor := .str "T".toList, normal := .none, chr := .int 1, start := .int 5, stop := .int 9 } :=
  ⟨{ tumor := .str "T".toList, chr := .str "chr2".toList, start := .int 5, stop := .int 9 },
    by decide, by decide⟩

/-! ## (b) comparison never fails between keys of one `(o, cs)` -/

theorem cmp_total_inv {r : Bool} {a b : Key} (ha : KeyInv r a) (hb : KeyInv r b) :
    ∃ d, cmpKey a b = .ok d ∧ (d = -1 ∨ d = 0 ∨ d = 1) :=
  ⟨Key.cmp a b, cmpKey_eq_cmp (ha.compat hb), Key.cmp_isSign a b⟩

/-- b. keys produced by `mkKey o cs` from well-formed records always compare, with a sign -/
theorem cmp_total {o : Order} {cs : List Text} {l₁ l₂ : Loc} {k₁ k₂ : Key}
    (h₁ : l₁.WF) (h₂ : l₂.WF) (e₁ : mkKey o cs l₁ = .ok k₁) (e₂ : mkKey o cs l₂ = .ok k₂) :
    ∃ d, cmpKey k₁ k₂ = .ok d ∧ (d = -1 ∨ d = 0 ∨ d = 1) :=
  cmp_total_inv (mkKey_inv h₁ e₁) (mkKey_inv h₂ e₂)

theorem cmp_total_good {o : Order} {cs : List Text} {a b : Key}
    (ha : GoodKey o cs a) (hb : GoodKey o cs b) :
    ∃ d, cmpKey a b = .ok d ∧ (d = -1 ∨ d = 0 ∨ d = 1) :=
  cmp_total_inv ha.inv hb.inv

/-- the hypothesis "same `cs`" matters: a key made with a contig list does not compare with one
    made without (`TypeError`: rank vs name) -/
example : cmpKey { chr := .int 0, start := .int 1, stop := .int 2 }
    { chr := .str "chr1".toList, start := .int 1, stop := .int 2 } = .error .type := by decide

/-! ## (c) total preorder -/

theorem cmp_refl_inv {r : Bool} {k : Key} (h : KeyInv r k) : cmpKey k k = .ok 0 := by
  rw [cmpKey_eq_cmp (h.compat h), Key.cmp_self]

theorem cmp_antisymm_inv {r : Bool} {a b : Key} {d : Int} (ha : KeyInv r a) (hb : KeyInv r b)
    (h : cmpKey a b = .ok d) : cmpKey b a = .ok (-d) := by
  rw [cmpKey_eq_cmp (ha.compat hb)] at h
  cases h
  rw [cmpKey_eq_cmp (hb.compat ha), Key.cmp_swap]

/-- all transitivity facts at once: `d₃` exists and `(d₁, d₂, d₃)` is a `Tri`ple -/
theorem cmp_tri_inv {r : Bool} {a b c : Key} {d₁ d₂ : Int}
    (ha : KeyInv r a) (hb : KeyInv r b) (hc : KeyInv r c)
    (h₁ : cmpKey a b = .ok d₁) (h₂ : cmpKey b c = .ok d₂) :
    ∃ d₃, cmpKey a c = .ok d₃ ∧ Tri d₁ d₂ d₃ := by
  rw [cmpKey_eq_cmp (ha.compat hb)] at h₁
  rw [cmpKey_eq_cmp (hb.compat hc)] at h₂
  cases h₁; cases h₂
  exact ⟨_, cmpKey_eq_cmp (ha.compat hc), Key.cmp_tri a b c⟩

theorem cmp_trans_inv {r : Bool} {a b c : Key} {d₁ d₂ : Int}
    (ha : KeyInv r a) (hb : KeyInv r b) (hc : KeyInv r c)
    (h₁ : cmpKey a b = .ok d₁) (h₂ : cmpKey b c = .ok d₂) (l₁ : d₁ ≤ 0) (l₂ : d₂ ≤ 0) :
    ∃ d₃, cmpKey a c = .ok d₃ ∧ d₃ ≤ 0 := by
  obtain ⟨d₃, h₃, t⟩ := cmp_tri_inv ha hb hc h₁ h₂
  exact ⟨d₃, h₃, t.1 l₁ l₂⟩

/-- strict version: one strict step makes the composite strict -/
theorem cmp_trans_strict_inv {r : Bool} {a b c : Key} {d₁ d₂ : Int}
    (ha : KeyInv r a) (hb : KeyInv r b) (hc : KeyInv r c)
    (h₁ : cmpKey a b = .ok d₁) (h₂ : cmpKey b c = .ok d₂)
    (l : (d₁ < 0 ∧ d₂ ≤ 0) ∨ (d₁ ≤ 0 ∧ d₂ < 0)) :
    ∃ d₃, cmpKey a c = .ok d₃ ∧ d₃ < 0 := by
  obtain ⟨d₃, h₃, t⟩ := cmp_tri_inv ha hb hc h₁ h₂
  rcases l with ⟨x, y⟩ | ⟨x, y⟩
  · exact ⟨d₃, h₃, t.2.1 x y⟩
  · exact ⟨d₃, h₃, t.2.2.1 x y⟩

/-- equal keys (comparison `0`) are interchangeable on either side of a comparison -/
theorem cmp_congr_inv {r : Bool} {a b c : Key} {d : Int}
    (ha : KeyInv r a) (hb : KeyInv r b) (hc : KeyInv r c)
    (h₁ : cmpKey a b = .ok 0) (h₂ : cmpKey b c = .ok d) : cmpKey a c = .ok d := by
  obtain ⟨d₃, h₃, t⟩ := cmp_tri_inv ha hb hc h₁ h₂
  rw [h₃, t.2.2.2.1 rfl]

/-- the preorder is in fact an order on keys: comparison `0` means the keys are equal -/
theorem cmp_eq_zero_iff_inv {r : Bool} {a b : Key} (ha : KeyInv r a) (hb : KeyInv r b) :
    cmpKey a b = .ok 0 ↔ a = b := by
  rw [cmpKey_eq_cmp (ha.compat hb)]
  constructor
  · intro h; exact Key.cmp_eq_zero.1 (Except.ok.inj h)
  · intro h; rw [Key.cmp_eq_zero.2 h]

section good
variable {o : Order} {cs : List Text} {a b c : Key}

/-- c. reflexivity -/
theorem cmp_refl (ha : GoodKey o cs a) : cmpKey a a = .ok 0 := cmp_refl_inv ha.inv

/-- c. antisymmetry of the sign -/
theorem cmp_antisymm {d : Int} (ha : GoodKey o cs a) (hb : GoodKey o cs b)
    (h : cmpKey a b = .ok d) : cmpKey b a = .ok (-d) := cmp_antisymm_inv ha.inv hb.inv h

/-- c. transitivity -/
theorem cmp_trans {d₁ d₂ : Int} (ha : GoodKey o cs a) (hb : GoodKey o cs b) (hc : GoodKey o cs c)
    (h₁ : cmpKey a b = .ok d₁) (h₂ : cmpKey b c = .ok d₂) (l₁ : d₁ ≤ 0) (l₂ : d₂ ≤ 0) :
    ∃ d₃, cmpKey a c = .ok d₃ ∧ d₃ ≤ 0 := cmp_trans_inv ha.inv hb.inv hc.inv h₁ h₂ l₁ l₂

/-- c. strict transitivity -/
theorem cmp_trans_strict {d₁ d₂ : Int} (ha : GoodKey o cs a) (hb : GoodKey o cs b)
    (hc : GoodKey o cs c) (h₁ : cmpKey a b = .ok d₁) (h₂ : cmpKey b c = .ok d₂)
    (l : (d₁ < 0 ∧ d₂ ≤ 0) ∨ (d₁ ≤ 0 ∧ d₂ < 0)) :
    ∃ d₃, cmpKey a c = .ok d₃ ∧ d₃ < 0 := cmp_trans_strict_inv ha.inv hb.inv hc.inv h₁ h₂ l

theorem cmp_eq_zero_iff (ha : GoodKey o cs a) (hb : GoodKey o cs b) :
    cmpKey a b = .ok 0 ↔ a = b := cmp_eq_zero_iff_inv ha.inv hb.inv

end good

/-! ## (d) the six operators agree with the comparison -/

/-- d. (no kind hypothesis is needed once `cmpKey a b = .ok d` is known; for good keys such a
    `d` always exists by `cmp_total`) -/
theorem ops_agree {a b : Key} {d : Int} (h : cmpKey a b = .ok d) :
    keyLt a b = .ok (decide (d < 0)) ∧ keyLe a b = .ok (decide (d ≤ 0)) ∧
    keyGt a b = .ok (decide (d > 0)) ∧ keyGe a b = .ok (decide (d ≥ 0)) ∧
    keyEq a b = .ok (decide (d = 0)) ∧ keyNe a b = .ok (decide (d ≠ 0)) :=
  ops_of_cmpKey h

/-- d. for good keys: all six operators return, and agree with the one comparison sign -/
theorem ops_agree_good {o : Order} {cs : List Text} {a b : Key}
    (ha : GoodKey o cs a) (hb : GoodKey o cs b) :
    ∃ d, cmpKey a b = .ok d ∧ (d = -1 ∨ d = 0 ∨ d = 1) ∧
      keyLt a b = .ok (decide (d < 0)) ∧ keyLe a b = .ok (decide (d ≤ 0)) ∧
      keyGt a b = .ok (decide (d > 0)) ∧ keyGe a b = .ok (decide (d ≥ 0)) ∧
      keyEq a b = .ok (decide (d = 0)) ∧ keyNe a b = .ok (decide (d ≠ 0)) := by
  obtain ⟨d, hd, hs⟩ := cmp_total_good ha hb
  exact ⟨d, hd, hs, ops_of_cmpKey hd⟩

/-! ### `≤` (the operator `keyLe`) is a total preorder, `<` its strict part -/

theorem keyLe_iff_inv {r : Bool} {a b : Key} (ha : KeyInv r a) (hb : KeyInv r b) :
    keyLe a b = .ok true ↔ Key.cmp a b ≤ 0 := by
  rw [(ops_of_cmpKey (cmpKey_eq_cmp (ha.compat hb))).2.1]
  simp

theorem keyLt_iff_inv {r : Bool} {a b : Key} (ha : KeyInv r a) (hb : KeyInv r b) :
    keyLt a b = .ok true ↔ Key.cmp a b < 0 := by
  rw [(ops_of_cmpKey (cmpKey_eq_cmp (ha.compat hb))).1]
  simp

theorem keyLt_false_iff_inv {r : Bool} {a b : Key} (ha : KeyInv r a) (hb : KeyInv r b) :
    keyLt a b = .ok false ↔ 0 ≤ Key.cmp a b := by
  rw [(ops_of_cmpKey (cmpKey_eq_cmp (ha.compat hb))).1]
  simp

theorem le_refl_inv {r : Bool} {a : Key} (ha : KeyInv r a) : keyLe a a = .ok true := by
  rw [keyLe_iff_inv ha ha, Key.cmp_self]; omega

theorem le_total_inv {r : Bool} {a b : Key} (ha : KeyInv r a) (hb : KeyInv r b) :
    keyLe a b = .ok true ∨ keyLe b a = .ok true := by
  rw [keyLe_iff_inv ha hb, keyLe_iff_inv hb ha, Key.cmp_swap a b]; omega

theorem le_trans_inv {r : Bool} {a b c : Key} (ha : KeyInv r a) (hb : KeyInv r b) (hc : KeyInv r c)
    (h₁ : keyLe a b = .ok true) (h₂ : keyLe b c = .ok true) : keyLe a c = .ok true := by
  rw [keyLe_iff_inv ha hb] at h₁; rw [keyLe_iff_inv hb hc] at h₂; rw [keyLe_iff_inv ha hc]
  exact (Key.cmp_tri a b c).1 h₁ h₂

theorem le_antisymm_inv {r : Bool} {a b : Key} (ha : KeyInv r a) (hb : KeyInv r b)
    (h₁ : keyLe a b = .ok true) (h₂ : keyLe b a = .ok true) : a = b := by
  rw [keyLe_iff_inv ha hb] at h₁; rw [keyLe_iff_inv hb ha, Key.cmp_swap a b] at h₂
  exact Key.cmp_eq_zero.1 (by omega)

/-- `a < b` is exactly `¬ (b ≤ a)` -/
theorem lt_iff_not_le_inv {r : Bool} {a b : Key} (ha : KeyInv r a) (hb : KeyInv r b) :
    keyLt a b = .ok true ↔ keyLe b a = .ok false := by
  rw [keyLt_iff_inv ha hb, (ops_of_cmpKey (cmpKey_eq_cmp (hb.compat ha))).2.1, Key.cmp_swap a b]
  simp

/-- "not `b < a`" is exactly `a ≤ b` (what the order checker tests) -/
theorem not_lt_iff_le_inv {r : Bool} {a b : Key} (ha : KeyInv r a) (hb : KeyInv r b) :
    keyLt b a = .ok false ↔ keyLe a b = .ok true := by
  rw [keyLt_false_iff_inv hb ha, keyLe_iff_inv ha hb, Key.cmp_swap a b]; omega

theorem lt_irrefl_inv {r : Bool} {a : Key} (ha : KeyInv r a) : keyLt a a = .ok false := by
  rw [keyLt_false_iff_inv ha ha, Key.cmp_self]; omega

theorem lt_trans_inv {r : Bool} {a b c : Key} (ha : KeyInv r a) (hb : KeyInv r b) (hc : KeyInv r c)
    (h₁ : keyLt a b = .ok true) (h₂ : keyLt b c = .ok true) : keyLt a c = .ok true := by
  rw [keyLt_iff_inv ha hb] at h₁; rw [keyLt_iff_inv hb hc] at h₂; rw [keyLt_iff_inv ha hc]
  exact (Key.cmp_tri a b c).2.1 h₁ (by omega)

section good
variable {o : Order} {cs : List Text} {a b c : Key}

/-- c. `≤` is reflexive, total, transitive (and antisymmetric) on good keys -/
theorem le_refl (ha : GoodKey o cs a) : keyLe a a = .ok true := le_refl_inv ha.inv
theorem le_total (ha : GoodKey o cs a) (hb : GoodKey o cs b) :
    keyLe a b = .ok true ∨ keyLe b a = .ok true := le_total_inv ha.inv hb.inv
theorem le_trans (ha : GoodKey o cs a) (hb : GoodKey o cs b) (hc : GoodKey o cs c)
    (h₁ : keyLe a b = .ok true) (h₂ : keyLe b c = .ok true) : keyLe a c = .ok true :=
  le_trans_inv ha.inv hb.inv hc.inv h₁ h₂
theorem le_antisymm (ha : GoodKey o cs a) (hb : GoodKey o cs b)
    (h₁ : keyLe a b = .ok true) (h₂ : keyLe b a = .ok true) : a = b :=
  le_antisymm_inv ha.inv hb.inv h₁ h₂
theorem lt_iff_not_le (ha : GoodKey o cs a) (hb : GoodKey o cs b) :
    keyLt a b = .ok true ↔ keyLe b a = .ok false := lt_iff_not_le_inv ha.inv hb.inv
theorem lt_irrefl (ha : GoodKey o cs a) : keyLt a a = .ok false := lt_irrefl_inv ha.inv
theorem lt_trans (ha : GoodKey o cs a) (hb : GoodKey o cs b) (hc : GoodKey o cs c)
    (h₁ : keyLt a b = .ok true) (h₂ : keyLt b c = .ok true) : keyLt a c = .ok true :=
  lt_trans_inv ha.inv hb.inv hc.inv h₁ h₂

end good

/-! ## (e) the documented order -/

/-- e. integers compare numerically -/
theorem cmpKV_int (a b : Int) :
    cmpKV (.int a) (.int b) = .ok (if a < b then -1 else if a = b then 0 else 1) :=
  cmpKV_eq_cmp (a := .int a) (b := .int b) trivial

/-- e. texts compare as Python strings (lexicographically by code point) -/
theorem cmpKV_str (a b : Text) :
    cmpKV (.str a) (.str b) = .ok (if a < b then -1 else if a = b then 0 else 1) :=
  cmpKV_eq_cmp (a := .str a) (b := .str b) trivial

/-- e. `None` sorts last -/
theorem cmpKV_none_last (v : KV) (h : v ≠ .none) :
    cmpKV v .none = .ok (-1) ∧ cmpKV .none v = .ok 1 ∧ cmpKV .none .none = .ok 0 := by
  cases v <;> simp_all [cmpKV]

/-- e. mixing an integer and a text is Python's `TypeError` -/
theorem cmpKV_int_str (i : Int) (s : Text) :
    cmpKV (.int i) (.str s) = .error .type ∧ cmpKV (.str s) (.int i) = .error .type :=
  ⟨cmpKV_incompat (a := .int i) (b := .str s) (fun h => h),
   cmpKV_incompat (a := .str s) (b := .int i) (fun h => h)⟩

/-- e. a position written as text is read as the integer it denotes -/
theorem posInt_intStr (i : Int) : posInt (.str (intStr i)) = .ok (.int i) := by
  simp [posInt, pyInt_intStr]

/-- e. hence text positions compare NUMERICALLY, not as text -/
theorem cmp_text_positions (i j : Int) :
    (do let a ← posInt (.str (intStr i)); let b ← posInt (.str (intStr j)); cmpKV a b) =
      .ok (if i < j then -1 else if i = j then 0 else 1) := by
  rw [posInt_intStr, posInt_intStr]
  exact cmpKV_int i j

/-- e. `cmpKey` is lexicographic over (tumor, normal, chromosome, start, stop): the first
    component whose comparison is not `0` decides (stated for the keys of the invariant) -/
theorem cmpKey_lex_inv {r : Bool} {a b : Key} (ha : KeyInv r a) (hb : KeyInv r b) :
    cmpKey a b = .ok (lexSign [KV.cmp a.tumor b.tumor, KV.cmp a.normal b.normal,
      KV.cmp a.chr b.chr, KV.cmp a.start b.start, KV.cmp a.stop b.stop]) := by
  rw [cmpKey_eq_cmp (ha.compat hb), lexSign_cons, lexSign_cons, lexSign_cons, lexSign_cons,
    lexSign_singleton]
  rfl

/-- e. THE DOCUMENTED ORDER, on the records' own columns.  For two well-formed records keyed by
    the same `(o, cs)`, the comparison of their keys is the lexicographic combination
    (`lexSign`: first non-zero sign) of
    * tumor barcode and normal barcode as texts, `None` last — only for the barcode order;
    * the chromosome: by name (as text) without a contig list, by rank in the list with one;
    * start and end position as INTEGERS (whether stored as integers or as text), `None` last. -/
theorem documented_order {o : Order} {cs : List Text} {l₁ l₂ : Loc} {k₁ k₂ : Key}
    (h₁ : l₁.WF) (h₂ : l₂.WF) (e₁ : mkKey o cs l₁ = .ok k₁) (e₂ : mkKey o cs l₂ = .ok k₂) :
    cmpKey k₁ k₂ = .ok (lexSign [
      if o = .barcodesAndCoordinate then cmpOpt l₁.tumor.toText? l₂.tumor.toText? else 0,
      if o = .barcodesAndCoordinate then cmpOpt l₁.normal.toText? l₂.normal.toText? else 0,
      if cs = [] then cmpOpt l₁.chrName l₂.chrName else cmpOpt (l₁.chrRank cs) (l₂.chrRank cs),
      cmpOpt l₁.start.toInt? l₂.start.toInt?,
      cmpOpt l₁.stop.toInt? l₂.stop.toInt?]) := by
  rw [cmpKey_eq_cmp ((mkKey_inv h₁ e₁).compat (mkKey_inv h₂ e₂))]
  obtain ⟨_, rfl⟩ := (mkKey_ok_iff h₁).1 e₁
  obtain ⟨_, rfl⟩ := (mkKey_ok_iff h₂).1 e₂
  rw [Loc.key_cmp o cs h₁ h₂]

/-- e. with a contig list both ranks exist, so the chromosome is compared by rank alone -/
theorem rank_exists {o : Order} {cs : List Text} {l : Loc} {k : Key} (hwf : l.WF) (hne : cs ≠ [])
    (e : mkKey o cs l = .ok k) : ∃ s i, l.chrName = some s ∧ cs.idxOf? s = some i ∧
      l.chrRank cs = some i ∧ k.chr = .int i := by
  obtain ⟨hc, rfl⟩ := (mkKey_ok_iff hwf).1 e
  rcases hc with h | ⟨s, hs, hmem⟩
  · exact absurd h hne
  · cases hi : cs.idxOf? s with
    | none => rw [List.idxOf?_eq_none_iff] at hi; exact absurd hmem hi
    | some i =>
      refine ⟨s, i, hs, hi, by simp [Loc.chrRank, hs, hi], ?_⟩
      have hk : (l.key o cs).chr = l.chrKey cs := by cases o <;> rfl
      have he : cs.isEmpty = false := by cases cs <;> simp_all
      rw [hk]; simp [Loc.chrKey, he, Loc.chrRank, hs, hi, KV.ofInt?]

/-- e. non-vacuity and a numeric-vs-text witness: positions "9" and "10" given as text; the record
    with "9" sorts first (as text "10" < "9") -/
example :
    let l₁ : Loc := { chr := .str "chr1".toList, start := .str "9".toList, stop := .str "9".toList }
    let l₂ : Loc := { chr := .str "chr1".toList, start := .str "10".toList, stop := .str "10".toList }
    l₁.WF ∧ l₂.WF ∧ "10".toList < "9".toList ∧
    ∃ k₁ k₂, mkKey .coordinate [] l₁ = .ok k₁ ∧ mkKey .coordinate [] l₂ = .ok k₂ ∧
      cmpKey k₁ k₂ = .ok (-1) ∧ keyLt k₁ k₂ = .ok true := by
  refine ⟨by decide, by decide, by decide, _, _, rfl, rfl, by decide, by decide⟩

/-- e. chromosome by rank, not by name, when a contig list is given: "chr2" before "chr10" -/
example :
    let cs : List Text := ["chr1".toList, "chr2".toList, "chr10".toList]
    let l₁ : Loc := { chr := .str "chr2".toList, start := .int 500, stop := .int 501 }
    let l₂ : Loc := { chr := .str "chr10".toList, start := .int 1, stop := .int 2 }
    l₁.WF ∧ l₂.WF ∧
    (∃ k₁ k₂, mkKey .coordinate cs l₁ = .ok k₁ ∧ mkKey .coordinate cs l₂ = .ok k₂ ∧
      cmpKey k₁ k₂ = .ok (-1)) ∧
    (∃ k₁ k₂, mkKey .coordinate [] l₁ = .ok k₁ ∧ mkKey .coordinate [] l₂ = .ok k₂ ∧
      cmpKey k₁ k₂ = .ok 1) := by
  refine ⟨by decide, by decide, ⟨_, _, rfl, rfl, by decide⟩, ⟨_, _, rfl, rfl, by decide⟩⟩

/-- e. barcodes are compared component by component, NOT as one joined text (round 8, seeded change C09-p): the tumor
    barcode "T1" is a proper prefix of "T1A", so the record with "T1" sorts first, while the joined texts
    "tumor|normal" order the other way ('|' is above every letter and digit) -/
example :
    let l₁ : Loc := { tumor := .str "T1".toList, normal := .str "N".toList, chr := .str "chr1".toList, start := .int 5, stop := .int 6 }
    let l₂ : Loc := { tumor := .str "T1A".toList, normal := .str "N".toList, chr := .str "chr1".toList, start := .int 5, stop := .int 6 }
    "T1A|N".toList < "T1|N".toList ∧
    ∃ k₁ k₂, mkKey .barcodesAndCoordinate [] l₁ = .ok k₁ ∧ mkKey .barcodesAndCoordinate [] l₂ = .ok k₂ ∧
      cmpKey k₁ k₂ = .ok (-1) := by
  refine ⟨by decide, _, _, rfl, rfl, by decide⟩

end C08
