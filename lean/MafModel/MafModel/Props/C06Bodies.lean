/-
  C06 (and the write side of C04 / C05) — the `__validate__` hook bodies of `maflib/column_types.py`, *translated from the source on
  every run* (`Generated/Bodies.lean`, PyIR terms) and interpreted, equal the hand-written model (`Model.runValidate`
  over the regenerated class table) for every value of the model's universe.

  Left side: the PyIR interpreter runs the body Python would run — method resolution through the translated MRO,
  `self.__min_value__()` / `self.__enum_class__()` dispatched on the instance's class, `super(C, self).__validate__()`.
  Right side: the model's own C3 linearisation, hook chains and per-class bodies.  A semantic change to a translated
  body, to a class's bases or to a constant hook breaks these equalities whatever inputs the generators produce.

  Not covered here (iteration over a symbolic string / list; stated in DESIGN.md): `NullableDnaString`, `DnaString`,
  `SequenceOfValuesColumn` and its sub-classes; they stay tied by differential execution only.
-/
import MafModel.Lemmas.BodiesEmb
open Py PyIR Bodies

namespace C06Bodies

-- kernel evaluation of an interpreted body is long but bounded: a finite budget, well above what any theorem here needs
set_option maxHeartbeats 4000000





/-! ### type tests only -/

theorem validate_MafCustomColumnRecord (fp) : ∀ v : PyVal, hookInvalid fp "MafCustomColumnRecord" (emb v) = modelInvalid "MafCustomColumnRecord" v := by hook_rfl
theorem validate_RequireNullValue (fp) : ∀ v : PyVal, hookInvalid fp "RequireNullValue" (emb v) = modelInvalid "RequireNullValue" v := by hook_rfl
theorem validate_NullableStringColumn (fp) : ∀ v : PyVal, hookInvalid fp "NullableStringColumn" (emb v) = modelInvalid "NullableStringColumn" v := by hook_rfl
theorem validate_StringOrIntegerColumn (fp) : ∀ v : PyVal, hookInvalid fp "StringOrIntegerColumn" (emb v) = modelInvalid "StringOrIntegerColumn" v := by hook_rfl
theorem validate_StringIntegerOrFloatColumn (fp) : ∀ v : PyVal, hookInvalid fp "StringIntegerOrFloatColumn" (emb v) = modelInvalid "StringIntegerOrFloatColumn" v := by hook_rfl
theorem validate_FloatColumn (fp) : ∀ v : PyVal, hookInvalid fp "FloatColumn" (emb v) = modelInvalid "FloatColumn" v := by hook_rfl
theorem validate_NullableFloatColumn (fp) : ∀ v : PyVal, hookInvalid fp "NullableFloatColumn" (emb v) = modelInvalid "NullableFloatColumn" v := by hook_rfl
theorem validate_Canonical (fp) : ∀ v : PyVal, hookInvalid fp "Canonical" (emb v) = modelInvalid "Canonical" v := by hook_rfl
theorem validate_BooleanColumn (fp) : ∀ v : PyVal, hookInvalid fp "BooleanColumn" (emb v) = modelInvalid "BooleanColumn" v := by hook_rfl
theorem validate_UUIDColumn (fp) : ∀ v : PyVal, hookInvalid fp "UUIDColumn" (emb v) = modelInvalid "UUIDColumn" v := by hook_rfl
theorem validate_NullableUUIDColumn (fp) : ∀ v : PyVal, hookInvalid fp "NullableUUIDColumn" (emb v) = modelInvalid "NullableUUIDColumn" v := by hook_rfl
/-- no bound: `IntegerColumn.__min_value__` / `__max_value__` return `None` -/
theorem validate_IntegerColumn (fp) : ∀ v : PyVal, hookInvalid fp "IntegerColumn" (emb v) = modelInvalid "IntegerColumn" v := by hook_rfl
theorem validate_NullableIntegerColumn (fp) : ∀ v : PyVal, hookInvalid fp "NullableIntegerColumn" (emb v) = modelInvalid "NullableIntegerColumn" v := by hook_rfl

/-! ### integer ranges: the bound comes from `self.__min_value__()`, resolved on the instance's class -/

-- the integer case of a class whose minimum is `lo` and which has no maximum
set_option hygiene false in
macro "int_min_case" K:str lo:term : tactic => `(tactic| (
  rw [show modelInvalid $K (.atom (.int i)) = .ok (decide (i < $lo) || false) from rfl]
  refine Tree.Forall.eval (H := host fp) (t := runTree Generated.Bodies.program (host fp) "IntegerColumn" "__validate__" [colObj $K (.int i)])
    (P := fun (r : Except PyErr (Val × Env)) => Except.map (fun r => !r.1.isNone) r = Except.ok (decide (i < $lo) || false)) ?_
  tree_split h
  · tree_leaf
    rw [show decide (i < $lo) = true from h]; rfl
  · tree_leaf
    rw [show decide (i < $lo) = false from h]; rfl))

theorem validate_int_OneBased (fp) (i : Int) : hookInvalid fp "OneBasedIntegerColumn" (.int i) = modelInvalid "OneBasedIntegerColumn" (.atom (.int i)) := by
  int_min_case "OneBasedIntegerColumn" 1
theorem validate_int_ZeroBased (fp) (i : Int) : hookInvalid fp "ZeroBasedIntegerColumn" (.int i) = modelInvalid "ZeroBasedIntegerColumn" (.atom (.int i)) := by
  int_min_case "ZeroBasedIntegerColumn" 0
theorem validate_int_NullableOneBased (fp) (i : Int) : hookInvalid fp "NullableOneBasedIntegerColumn" (.int i) = modelInvalid "NullableOneBasedIntegerColumn" (.atom (.int i)) := by
  int_min_case "NullableOneBasedIntegerColumn" 1
theorem validate_int_NullableZeroBased (fp) (i : Int) : hookInvalid fp "NullableZeroBasedIntegerColumn" (.int i) = modelInvalid "NullableZeroBasedIntegerColumn" (.atom (.int i)) := by
  int_min_case "NullableZeroBasedIntegerColumn" 0
theorem validate_int_EntrezGeneId (fp) (i : Int) : hookInvalid fp "EntrezGeneId" (.int i) = modelInvalid "EntrezGeneId" (.atom (.int i)) := by
  int_min_case "EntrezGeneId" 0

theorem validate_OneBasedIntegerColumn (fp) : ∀ v : PyVal, hookInvalid fp "OneBasedIntegerColumn" (emb v) = modelInvalid "OneBasedIntegerColumn" v := by
  hook_int (validate_int_OneBased fp)
theorem validate_ZeroBasedIntegerColumn (fp) : ∀ v : PyVal, hookInvalid fp "ZeroBasedIntegerColumn" (emb v) = modelInvalid "ZeroBasedIntegerColumn" v := by
  hook_int (validate_int_ZeroBased fp)
theorem validate_NullableOneBasedIntegerColumn (fp) : ∀ v : PyVal, hookInvalid fp "NullableOneBasedIntegerColumn" (emb v) = modelInvalid "NullableOneBasedIntegerColumn" v := by
  hook_int (validate_int_NullableOneBased fp)
theorem validate_NullableZeroBasedIntegerColumn (fp) : ∀ v : PyVal, hookInvalid fp "NullableZeroBasedIntegerColumn" (emb v) = modelInvalid "NullableZeroBasedIntegerColumn" v := by
  hook_int (validate_int_NullableZeroBased fp)
theorem validate_EntrezGeneId (fp) : ∀ v : PyVal, hookInvalid fp "EntrezGeneId" (emb v) = modelInvalid "EntrezGeneId" v := by
  hook_int (validate_int_EntrezGeneId fp)

end C06Bodies
