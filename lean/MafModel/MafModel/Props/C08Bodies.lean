/-
  C08 / C09 / C07 / C10 — `SortOrderKey.compare` (maflib/sort_order.py), translated from the source on every run and
  interpreted, equals the hand model's `cmpKV` for every pair of key components: `None` sorts last, two integers /
  two texts give the sign of their difference through `int((this > that) - (this < that))`, an integer against a text
  is `TypeError` (raised by the first comparison Python evaluates, `this > that`).
-/
import MafModel.Lemmas.BodiesEmb
import MafModel.Model.SortOrder
open Py PyIR Bodies Model

namespace C08Bodies

set_option maxHeartbeats 4000000

def embKV : KV → Val
  | .none => .none
  | .int i => .int i
  | .str s => .str s

/-- interpret `SortOrderKey.compare(this, that)` -/
def compareRun (H : Host) (a b : Val) : Except PyErr Val :=
  (run Generated.Bodies.program H "SortOrderKey" "compare" [.cls "SortOrderKey", a, b]).map (·.1)

theorem compare_int_int (H : Host) (a b : Int) :
    compareRun H (.int a) (.int b) = (cmpKV (.int a) (.int b)).map Val.int := by
  rw [show (cmpKV (.int a) (.int b)).map Val.int = .ok (.int ((if decide (b < a) then 1 else 0) - (if decide (a < b) then 1 else 0))) from rfl]
  refine Tree.Forall.eval (H := H) (t := runTree Generated.Bodies.program H "SortOrderKey" "compare" [.cls "SortOrderKey", .int a, .int b])
    (P := fun (r : Except PyErr (Val × Env)) => Except.map (·.1) r = .ok (.int ((if decide (b < a) then 1 else 0) - (if decide (a < b) then 1 else 0)))) ?_
  tree_split h1
  · rw [show decide (b < a) = true from h1]
    tree_split h2
    · tree_leaf; rw [show decide (a < b) = true from h2]; rfl
    · tree_leaf; rw [show decide (a < b) = false from h2]; rfl
  · rw [show decide (b < a) = false from h1]
    tree_split h2
    · tree_leaf; rw [show decide (a < b) = true from h2]; rfl
    · tree_leaf; rw [show decide (a < b) = false from h2]; rfl

theorem compare_str_str (H : Host) (a b : Text) :
    compareRun H (.str a) (.str b) = (cmpKV (.str a) (.str b)).map Val.int := by
  rw [show (cmpKV (.str a) (.str b)).map Val.int = .ok (.int ((if decide (b < a) then 1 else 0) - (if decide (a < b) then 1 else 0))) from rfl]
  refine Tree.Forall.eval (H := H) (t := runTree Generated.Bodies.program H "SortOrderKey" "compare" [.cls "SortOrderKey", .str a, .str b])
    (P := fun (r : Except PyErr (Val × Env)) => Except.map (·.1) r = .ok (.int ((if decide (b < a) then 1 else 0) - (if decide (a < b) then 1 else 0)))) ?_
  tree_split h1
  · rw [show decide (b < a) = true from h1]
    tree_split h2
    · tree_leaf; rw [show decide (a < b) = true from h2]; rfl
    · tree_leaf; rw [show decide (a < b) = false from h2]; rfl
  · rw [show decide (b < a) = false from h1]
    tree_split h2
    · tree_leaf; rw [show decide (a < b) = true from h2]; rfl
    · tree_leaf; rw [show decide (a < b) = false from h2]; rfl

/-- `SortOrderKey.compare` is the model's `cmpKV`, for every pair of components -/
theorem compare_eq_cmpKV (H : Host) (a b : KV) :
    compareRun H (embKV a) (embKV b) = (cmpKV a b).map Val.int := by
  cases a with
  | none => cases b <;> rfl
  | int i => cases b with
    | none => rfl
    | int j => exact compare_int_int H i j
    | str s => rfl
  | str s => cases b with
    | none => rfl
    | int j => rfl
    | str t => exact compare_str_str H s t

end C08Bodies
