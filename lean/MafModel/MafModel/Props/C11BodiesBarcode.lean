/-
  C11 — `LocatableOverlapIterator.__overlaps_with_barcode`, translated and interpreted: the same barcode pair and
  `__overlaps` (a call through `cls`), for all keys.  Built from a fuel-generic version of `C11Bodies.overlaps_barcodeKey`
  (the callee), shape lemmas that peel the call, and a generic lemma about the interpreter's `and` chain.
-/
import MafModel.Props.C11Bodies
open Py PyIR Bodies Model

namespace C11Bodies
set_option maxHeartbeats 4000000

def L : String := "LocatableOverlapIterator"
def ovFn : FnDef := Generated.Bodies.LocatableOverlapIterator___LocatableOverlapIterator__overlaps

/-- the callee at any sufficient fuel -/
theorem overlaps_call (H : Host) (n : Nat) (tb nb tb' nb' c d : KV) (s e s' e' : Int) :
    (Tree.eval H (callFn Generated.Bodies.program H (n + 20) ovFn [.cls L, barcodeKey tb nb c s e, barcodeKey tb' nb' d s' e'])).map (·.1)
      = .ok (.bool (decide (c = d) && decide (s ≤ s') && decide (s' ≤ e))) := by
  refine Tree.Forall.eval (H := H) (t := callFn Generated.Bodies.program H (n + 20) ovFn [.cls L, barcodeKey tb nb c s e, barcodeKey tb' nb' d s' e'])
    (P := fun (r : Except PyErr (Val × Env)) => Except.map (·.1) r = .ok (.bool (decide (c = d) && decide (s ≤ s') && decide (s' ≤ e)))) ?_
  cases c with
  | none => cases d with
    | none => positions
    | int j => fin
    | str t => fin
  | int i => cases d with
    | none => fin
    | int j =>
      tree_split h1
      · positions
      · fin
    | str t => fin
  | str u => cases d with
    | none => fin
    | int j => fin
    | str t =>
      tree_split h1
      · positions
      · fin

def env3 (a b : Val) : Env := [("cls", Val.cls L), ("min_key", a), ("cur_key", b)]
def callE : Expr := Expr.method (.name "cls") "_LocatableOverlapIterator__overlaps" [.name "min_key", .name "cur_key"]

theorem call_shape (H : Host) (n : Nat) (a b : Val) :
    ∃ (Ka : Except PyErr (Val × Env) → Tree (Except PyErr (Val × Option Val))) (Kb : Except PyErr (Val × Option Val) → Tree (Except PyErr Val)),
      evalExpr Generated.Bodies.program H (n + 22) (env3 a b) callE
        = Tree.bind (Tree.bind (callFn Generated.Bodies.program H (n + 20) ovFn [.cls L, a, b]) Ka) Kb
      ∧ (∀ r, Ka (.ok r) = M.ok (r.1, Option.none)) ∧ (∀ x, Kb (.ok x) = M.ok x.1) :=
  ⟨_, _, rfl, fun _ => rfl, fun _ => rfl⟩

/-- the call `cls.__overlaps(min_key, cur_key)` inside the other predicate -/
theorem call_eval (H : Host) (n : Nat) (tb nb tb' nb' c d : KV) (s e s' e' : Int) :
    Tree.eval H (evalExpr Generated.Bodies.program H (n + 22) (env3 (barcodeKey tb nb c s e) (barcodeKey tb' nb' d s' e')) callE)
      = .ok (.bool (decide (c = d) && decide (s ≤ s') && decide (s' ≤ e))) := by
  obtain ⟨Ka, Kb, hK, hKa, hKb⟩ := call_shape H n (barcodeKey tb nb c s e) (barcodeKey tb' nb' d s' e')
  have hc := overlaps_call H n tb nb tb' nb' c d s e s' e'
  rw [hK]
  cases hr : Tree.eval H (callFn Generated.Bodies.program H (n + 20) ovFn [.cls L, barcodeKey tb nb c s e, barcodeKey tb' nb' d s' e']) with
  | error err => rw [hr] at hc; cases hc
  | ok r =>
    rw [hr] at hc
    have hv : r.1 = .bool (decide (c = d) && decide (s ≤ s') && decide (s' ≤ e)) := by
      simpa [Except.map] using hc
    erw [Tree.eval_bind, Tree.eval_bind, hr, hKa]
    erw [show Tree.eval H (M.ok (r.1, (Option.none : Option Val))) = .ok (r.1, Option.none) from rfl, hKb]
    rw [hv]; rfl

/-- the interpreter's `and` chain over three operands that evaluate to Booleans -/
theorem and3_eval (H : Host) (ev : Expr → M Val) (e1 e2 e3 : Expr) (b1 b2 b3 : Bool)
    (h1 : Tree.eval H (ev e1) = .ok (.bool b1)) (h2 : Tree.eval H (ev e2) = .ok (.bool b2)) (h3 : Tree.eval H (ev e3) = .ok (.bool b3)) :
    Tree.eval H (andLoop ev [e1, e2, e3]) = .ok (.bool (b1 && b2 && b3)) := by
  simp only [andLoop, M.bind]
  erw [Tree.eval_bind, h1]
  cases b1
  · rfl
  · show Tree.eval H (Tree.bind (ev e2) _) = _
    erw [Tree.eval_bind, h2]
    cases b2
    · rfl
    · show Tree.eval H (ev e3) = _
      rw [h3]; rfl

def tumorE : Expr := ((Expr.name "min_key").attr "tumor_barcode").cmp [(CmpOp.eq, (Expr.name "cur_key").attr "tumor_barcode")]
def normalE : Expr := ((Expr.name "min_key").attr "normal_barcode").cmp [(CmpOp.eq, (Expr.name "cur_key").attr "normal_barcode")]

set_option hygiene false in
macro "fin2" : tactic => `(tactic| (tree_leaf; first | rfl | (simp_all [Query.holds]; done) | (simp_all [Query.holds, eq_comm]; done)))

set_option hygiene false in
macro "kvwalk" : tactic => `(tactic| (
  cases x with
  | none => cases y with
    | none => fin2
    | int j => fin2
    | str t => fin2
  | int i => cases y with
    | none => fin2
    | int j =>
      tree_split hq
      · fin2
      · fin2
    | str t => fin2
  | str u => cases y with
    | none => fin2
    | int j => fin2
    | str t =>
      tree_split hq
      · fin2
      · fin2))

theorem tumor_eval (H : Host) (n : Nat) (x nb y nb' c d : KV) (s e s' e' : Int) :
    Tree.eval H (evalExpr Generated.Bodies.program H (n + 22) (env3 (barcodeKey x nb c s e) (barcodeKey y nb' d s' e')) tumorE)
      = .ok (.bool (decide (x = y))) := by
  refine Tree.Forall.eval (H := H) (t := evalExpr Generated.Bodies.program H (n + 22) (env3 (barcodeKey x nb c s e) (barcodeKey y nb' d s' e')) tumorE)
    (P := fun r => r = .ok (.bool (decide (x = y)))) ?_
  kvwalk

theorem normal_eval (H : Host) (n : Nat) (tb x tb' y c d : KV) (s e s' e' : Int) :
    Tree.eval H (evalExpr Generated.Bodies.program H (n + 22) (env3 (barcodeKey tb x c s e) (barcodeKey tb' y d s' e')) normalE)
      = .ok (.bool (decide (x = y))) := by
  refine Tree.Forall.eval (H := H) (t := evalExpr Generated.Bodies.program H (n + 22) (env3 (barcodeKey tb x c s e) (barcodeKey tb' y d s' e')) normalE)
    (P := fun r => r = .ok (.bool (decide (x = y)))) ?_
  kvwalk

def andE : Expr := Expr.and [tumorE, normalE, callE]
def owbFn : FnDef := Generated.Bodies.LocatableOverlapIterator___LocatableOverlapIterator__overlaps_with_barcode

theorem and_eval (H : Host) (n : Nat) (tb nb tb' nb' c d : KV) (s e s' e' : Int) :
    Tree.eval H (evalExpr Generated.Bodies.program H (n + 23) (env3 (barcodeKey tb nb c s e) (barcodeKey tb' nb' d s' e')) andE)
      = .ok (.bool (decide (tb = tb') && decide (nb = nb') && (decide (c = d) && decide (s ≤ s') && decide (s' ≤ e)))) := by
  show Tree.eval H (andLoop (evalExpr Generated.Bodies.program H (n + 22) (env3 (barcodeKey tb nb c s e) (barcodeKey tb' nb' d s' e'))) [tumorE, normalE, callE]) = _
  exact and3_eval H _ tumorE normalE callE _ _ _ (tumor_eval H n tb nb tb' nb' c d s e s' e') (normal_eval H n tb nb tb' nb' c d s e s' e')
    (call_eval H n tb nb tb' nb' c d s e s' e')

theorem body_shape (H : Host) (n : Nat) (a b : Val) :
    ∃ (K1 : Except PyErr Val → Tree (Except PyErr (Env × Option Val))) (K2 : Except PyErr (Env × Option Val) → Tree (Except PyErr (Env × Option Val))),
      execStmts Generated.Bodies.program H (n + 25) (env3 a b) owbFn.body
        = Tree.bind (Tree.bind (evalExpr Generated.Bodies.program H (n + 23) (env3 a b) andE) K1) K2
      ∧ (∀ v, K1 (.ok v) = M.ok (env3 a b, some v)) ∧ (∀ env' v, K2 (.ok (env', some v)) = M.ok (env', some v)) :=
  ⟨_, _, rfl, fun _ => rfl, fun _ _ => rfl⟩

theorem owb_runTree_shape (H : Host) (a b : Val) :
    ∃ K : Except PyErr (Env × Option Val) → Tree (Except PyErr (Val × Env)),
      runTree Generated.Bodies.program H L "_LocatableOverlapIterator__overlaps_with_barcode" [.cls L, a, b]
        = Tree.bind (execStmts Generated.Bodies.program H (38 + 25) (env3 a b) owbFn.body) K
      ∧ ∀ env' v, K (.ok (env', some v)) = M.ok (v, env') :=
  ⟨_, rfl, fun _ _ => rfl⟩

/-- `__overlaps_with_barcode` on two barcode keys: the same tumor and normal barcode, and `__overlaps` -/
theorem overlaps_with_barcode_eq (H : Host) (tb nb tb' nb' c d : KV) (s e s' e' : Int) :
    overlapsBarcodeRun H (barcodeKey tb nb c s e) (barcodeKey tb' nb' d s' e')
      = .ok (.bool (decide (tb = tb') && decide (nb = nb') && (decide (c = d) && decide (s ≤ s') && decide (s' ≤ e)))) := by
  obtain ⟨K, hK, hK'⟩ := owb_runTree_shape H (barcodeKey tb nb c s e) (barcodeKey tb' nb' d s' e')
  obtain ⟨K1, K2, hB, hK1, hK2⟩ := body_shape H 38 (barcodeKey tb nb c s e) (barcodeKey tb' nb' d s' e')
  unfold overlapsBarcodeRun run
  show Except.map (·.1) (Tree.eval H (runTree Generated.Bodies.program H L "_LocatableOverlapIterator__overlaps_with_barcode" [.cls L, _, _])) = _
  rw [hK, hB]
  erw [Tree.eval_bind, Tree.eval_bind, Tree.eval_bind, and_eval H 38, hK1]
  erw [show ∀ (x : Env × Option Val), Tree.eval H (M.ok x) = .ok x from fun _ => rfl, hK2]
  erw [show ∀ (x : Env × Option Val), Tree.eval H (M.ok x) = .ok x from fun _ => rfl, hK']
  rfl

/-- the model's reading of a barcode key: tumor barcode, normal barcode, chromosome component, start, end -/
def barcodeOps : OvOps (KV × KV × KV × Int × Int) where
  lt := fun _ _ => false
  same := fun a b => decide (a.1 = b.1) && decide (a.2.1 = b.2.1) && decide (a.2.2.1 = b.2.2.1)
  start := fun a => a.2.2.2.1
  stop := fun a => a.2.2.2.2

/-- ... which is the model's `overlapsHead` with barcode grouping (same barcode pair and chromosome, then the interval
    test against the widened end of the running minimum) -/
theorem overlaps_with_barcode_eq_overlapsHead (H : Host) (lo cur : KV × KV × KV × Int × Int) (hi : Int) :
    overlapsBarcodeRun H (barcodeKey lo.1 lo.2.1 lo.2.2.1 lo.2.2.2.1 hi) (barcodeKey cur.1 cur.2.1 cur.2.2.1 cur.2.2.2.1 cur.2.2.2.2)
      = .ok (.bool (overlapsHead barcodeOps lo hi cur)) := by
  rw [overlaps_with_barcode_eq]
  congr 2
  simp only [overlapsHead, barcodeOps, Bool.and_assoc]

end C11Bodies
