/-
  C15 — A record stays coherent under edits.

  `MafRecord` keeps two indexes of its columns: a name map (`dict`) and a slot
  list (`slots`).  The invariant `Inv` says the two agree; it holds for the empty
  record, is preserved by every `record[key] = column` and `del record[key]`
  (whatever the key form, whatever index the column was preset with, whether the
  operation succeeds or raises), a failing operation leaves the record untouched,
  and hence `Inv` holds in every reachable state.  Object identities (`oid`) are
  arbitrary.
-/
import MafModel.Lemmas.RecordLemmas
open Model Py

namespace C15

/-- the coherence invariant (see `Model.Record.Inv` for the field names) -/
def Inv (r : Record) : Prop :=
  (r.dict.map (·.1)).Nodup
  ∧ (∀ p ∈ r.dict, p.2.col.key = p.1 ∧
      ∃ i : Nat, p.2.col.index = some (i : Int) ∧ r.slots[i]? = some (some p.2))
  ∧ (∀ (i : Nat) (c : RCol), r.slots[i]? = some (some c) →
      c.col.index = some (i : Int) ∧ tdictGet r.dict c.col.key = some c)
  ∧ (r.slots = [] ∨ r.slots.getLast? ≠ some none)

theorem inv_iff (r : Record) : Inv r ↔ r.Inv := by
  constructor
  · rintro ⟨h1, h2, h3, h4⟩
    refine ⟨h1, h2, h3, ?_⟩
    rcases h4 with h | h
    · rw [h]; simp
    · exact h
  · intro h
    exact ⟨h.nodup, h.dict_ok, h.slot_ok, Or.inr h.last_ok⟩

/-- what a client can observe of the two indexes -/
def observe (r : Record) : List (Option RCol) × List (Text × RCol) := (r.slots, r.dict)

inductive EditOp where
  | set (k : RKey) (x : RCol)
  | del (k : RKey)
  /-- `record.popitem()` (inherited from `MutableMapping`) -/
  | pop
  /-- `record.clear()` (inherited from `MutableMapping`) -/
  | clear

/-- apply one edit; a raising edit leaves the object in the state the model returns -/
def step (r : Record) : EditOp → Record
  | .set k x => (r.setItem k x).1
  | .del k => (r.delItem k).1
  | .pop => r.popItem.1
  | .clear => (Record.clear (r.slots.length + 1) r).1

/-! ### the invariant holds initially and is preserved -/

theorem inv_init : Inv {} := (inv_iff _).2 Record.Inv.init

/-- every key form, every column (any preset index), success or failure -/
theorem inv_setItem (r : Record) (key : RKey) (x : RCol) (h : Inv r) : Inv (r.setItem key x).1 :=
  (inv_iff _).2 (((inv_iff _).1 h).setItem key x)

theorem inv_delItem (r : Record) (key : RKey) (h : Inv r) : Inv (r.delItem key).1 :=
  (inv_iff _).2 (((inv_iff _).1 h).delItem key)

/-- a failing `record[key] = x` leaves the whole record (not only the observation) unchanged -/
theorem failed_noop_set_eq (r : Record) (key : RKey) (x : RCol) (e : PyErr)
    (he : (r.setItem key x).2 = .error e) (h : Inv r) : (r.setItem key x).1 = r :=
  setItem_failed_noop ((inv_iff _).1 h) key x e he

theorem failed_noop_set (r : Record) (key : RKey) (x : RCol) (e : PyErr)
    (he : (r.setItem key x).2 = .error e) (h : Inv r) :
    observe (r.setItem key x).1 = observe r := by
  rw [failed_noop_set_eq r key x e he h]

/-- the failures of `setItem` on a coherent record are exactly the exceptions raised
    before any write; the `AssertionError` branch `(r1, .error .assertion)` and the
    `IndexError` of the list assignment are unreachable -/
theorem set_error_kinds (r : Record) (key : RKey) (x : RCol) (e : PyErr)
    (he : (r.setItem key x).2 = .error e) (h : Inv r) : e = .key ∨ e = .value ∨ e = .type :=
  setItem_error_kinds ((inv_iff _).1 h) key x e he

theorem set_assertion_unreachable (r : Record) (key : RKey) (x : RCol) (h : Inv r) :
    (r.setItem key x).2 ≠ .error .assertion ∧ (r.setItem key x).2 ≠ .error .index := by
  constructor <;> intro he <;> rcases set_error_kinds r key x _ he h with h | h | h <;> cases h

theorem failed_noop_del_eq (r : Record) (key : RKey) (e : PyErr)
    (he : (r.delItem key).2 = .error e) (h : Inv r) : (r.delItem key).1 = r :=
  delItem_failed_noop ((inv_iff _).1 h) key e he

theorem failed_noop_del (r : Record) (key : RKey) (e : PyErr)
    (he : (r.delItem key).2 = .error e) (h : Inv r) :
    observe (r.delItem key).1 = observe r := by
  rw [failed_noop_del_eq r key e he h]

/-- `del record[key]` fails on a coherent record only when the lookup fails (or finds
    nothing): the `.error .type` / `.error .index` branches that would have already
    removed the name are unreachable -/
theorem del_error_from_lookup (r : Record) (key : RKey) (e : PyErr)
    (he : (r.delItem key).2 = .error e) (h : Inv r) :
    r.getItem key = .error e ∨ (r.getItem key = .ok none ∧ e = .key) :=
  delItem_error_from_lookup ((inv_iff _).1 h) key e he

/-- `popitem()` is a deletion: it keeps the record coherent -/
theorem inv_popItem (r : Record) (h : Inv r) : Inv r.popItem.1 := by
  unfold Record.popItem
  split
  · exact h
  · exact inv_delItem r _ h
  · exact inv_delItem r _ h

/-- a failing `popitem()` (the empty record, an empty slot 0) leaves the record unchanged -/
theorem failed_noop_pop (r : Record) (e : PyErr) (he : r.popItem.2 = .error e) (h : Inv r) : r.popItem.1 = r := by
  cases hk : r.keys with
  | nil => simp only [Record.popItem, hk]
  | cons a t =>
    cases a with
    | none =>
      simp only [Record.popItem, hk] at he ⊢
      exact failed_noop_del_eq r _ e he h
    | some k =>
      simp only [Record.popItem, hk] at he ⊢
      exact failed_noop_del_eq r _ e he h

/-- `clear()` keeps the record coherent, however many rounds it makes -/
theorem inv_clear (fuel : Nat) (r : Record) (h : Inv r) : Inv (Record.clear fuel r).1 := by
  induction fuel generalizing r with
  | zero => exact h
  | succ n ih =>
    unfold Record.clear
    have hp := inv_popItem r h
    split
    · next r' heq => exact ih r' (by rw [heq] at hp; exact hp)
    · next r' heq => rw [heq] at hp; exact hp
    · next r' e _ heq => rw [heq] at hp; exact hp

/-- on a coherent record `popitem()` fails with `KeyError` only (the empty record, an empty first position) -/
theorem pop_error_is_key (r : Record) (e : PyErr) (he : r.popItem.2 = .error e) (h : Inv r) : e = .key := by
  cases hk : r.keys with
  | nil => simp only [Record.popItem, hk] at he; cases he; rfl
  | cons a t =>
    cases a with
    | none =>
      simp only [Record.popItem, hk] at he
      rcases del_error_from_lookup r _ e he h with h1 | ⟨_, h2⟩
      · simp [Record.getItem] at h1
      · exact h2
    | some k =>
      simp only [Record.popItem, hk] at he
      rcases del_error_from_lookup r _ e he h with h1 | ⟨_, h2⟩
      · simp only [Record.getItem] at h1
        split at h1
        · cases h1
        · cases h1; rfl
      · exact h2

/-- hence `clear()` never raises on a coherent record: every failure of `popitem()` is the `KeyError` it swallows -/
theorem clear_ok (fuel : Nat) (r : Record) (h : Inv r) : (Record.clear fuel r).2 = .ok () := by
  induction fuel generalizing r with
  | zero => rfl
  | succ n ih =>
    unfold Record.clear
    have hp := inv_popItem r h
    split
    · next r' heq => exact ih r' (by rw [heq] at hp; exact hp)
    · rfl
    · next r' e hne heq =>
      exact absurd (pop_error_is_key r e (by rw [heq]) h) (by intro he; exact hne (by rw [he]))

theorem inv_step (r : Record) (op : EditOp) (h : Inv r) : Inv (step r op) := by
  cases op with
  | set k x => exact inv_setItem r k x h
  | del k => exact inv_delItem r k h
  | pop => exact inv_popItem r h
  | clear => exact inv_clear _ r h

/-- the invariant holds in every state reachable from the empty record -/
theorem inv_history (ops : List EditOp) : Inv (ops.foldl step {}) := by
  suffices ∀ r, Inv r → Inv (ops.foldl step r) from this _ inv_init
  induction ops with
  | nil => intro r h; exact h
  | cons op ops ih => intro r h; exact ih _ (inv_step r op h)

/-! ### consequences of the invariant -/

/-- lookups by name and by position agree: `record[name]` is `c` iff `c` carries that
    name and `record[i]` is `c` for the (natural) index `i` that `c` reports -/
theorem lookup_agree (r : Record) (h : Inv r) (n : Text) (c : RCol) :
    r.getItem (.name n) = .ok (some c) ↔
      c.col.key = n ∧ ∃ i : Nat, c.col.index = some (i : Int) ∧
        r.getItem (.int (i : Int)) = .ok (some c) := by
  have h' := (inv_iff _).1 h
  rw [getItem_name_iff]
  constructor
  · intro hg
    obtain ⟨hk, i, hi, hs⟩ := h'.dict_ok _ (mem_of_tdictGet hg)
    exact ⟨hk, i, hi, (getItem_int_iff _ _ _).2 hs⟩
  · rintro ⟨hk, i, _, hg⟩
    have := (h'.slot_ok i c ((getItem_int_iff _ _ _).1 hg)).2
    rwa [hk] at this

/-- and conversely a positional lookup returns a column that the name lookup and the
    column-keyed lookup return as well -/
theorem lookup_agree_int (r : Record) (h : Inv r) (i : Int) (c : RCol)
    (hg : r.getItem (.int i) = .ok (some c)) :
    c.col.index = some i ∧ r.getItem (.name c.col.key) = .ok (some c) ∧
      r.getItem (.column c.col) = .ok (some c) := by
  have h' := (inv_iff _).1 h
  by_cases hneg : i < 0
  · rw [getItem_int_neg r i hneg] at hg; cases hg
  · obtain ⟨n, rfl⟩ := Int.eq_ofNat_of_zero_le (by omega : 0 ≤ i)
    have hs := (getItem_int_iff _ _ _).1 hg
    obtain ⟨hi, hd⟩ := h'.slot_ok n c hs
    exact ⟨hi, (getItem_name_iff _ _ _).2 hd, (getItem_column_iff _ _ _).2 hd⟩

/-- every stored column reports the index it is stored at -/
theorem index_reported (r : Record) (h : Inv r) (i : Nat) (c : RCol)
    (hs : r.slots[i]? = some (some c)) : c.col.index = some (i : Int) :=
  (((inv_iff _).1 h).slot_ok i c hs).1

/-- and a column stored under a name sits in the slot whose number it reports -/
theorem index_reported_dict (r : Record) (h : Inv r) (n : Text) (c : RCol)
    (hg : tdictGet r.dict n = some c) :
    ∃ i : Nat, c.col.index = some (i : Int) ∧ r.slots[i]? = some (some c) :=
  (((inv_iff _).1 h).dict_ok _ (mem_of_tdictGet hg)).2

/-- highest reported index + 1 over the stored columns (0 when there is none) -/
def highestPlusOne (r : Record) : Nat :=
  (r.dict.map (fun p => (p.2.col.index.getD 0).toNat + 1)).foldl max 0

theorem foldl_max_spec (l : List Nat) (a : Nat) :
    a ≤ l.foldl max a ∧ (∀ x ∈ l, x ≤ l.foldl max a) ∧ (l.foldl max a = a ∨ l.foldl max a ∈ l) := by
  induction l generalizing a with
  | nil => simp
  | cons y l ih =>
    obtain ⟨h1, h2, h3⟩ := ih (max a y)
    simp only [List.foldl_cons, List.mem_cons]
    refine ⟨by omega, ?_, ?_⟩
    · rintro x (rfl | hx)
      · omega
      · exact h2 x hx
    · rcases h3 with h | h
      · rw [h]
        by_cases hay : a ≤ y
        · right; left; omega
        · left; omega
      · right; right; exact h

/-- `len(record)` is the highest occupied index + 1 (0 for the empty record):
    the last slot is occupied, and the length is the maximum of `index + 1` over the name map -/
theorem length_is_highest_plus_one (r : Record) (h : Inv r) :
    r.slots.length = highestPlusOne r ∧
    (r.slots.length ≠ 0 → ∃ c, r.slots[r.slots.length - 1]? = some (some c)) ∧
    (r.slots.length = 0 ↔ r.dict = []) := by
  have h' := (inv_iff _).1 h
  have hlast : r.slots.length ≠ 0 → ∃ c, r.slots[r.slots.length - 1]? = some (some c) := by
    intro hne
    have hl := h'.last_ok
    rw [List.getLast?_eq_getElem?] at hl
    have hlt : r.slots.length - 1 < r.slots.length := by omega
    rw [List.getElem?_eq_getElem hlt] at hl ⊢
    cases hx : r.slots[r.slots.length - 1] with
    | none => rw [hx] at hl; exact absurd rfl hl
    | some c => exact ⟨c, rfl⟩
  refine ⟨?_, hlast, ?_⟩
  · unfold highestPlusOne
    obtain ⟨_, h2, h3⟩ := foldl_max_spec
      (r.dict.map (fun p => (p.2.col.index.getD 0).toNat + 1)) 0
    apply Nat.le_antisymm
    · by_cases hne : r.slots.length = 0
      · omega
      · obtain ⟨c, hc⟩ := hlast hne
        obtain ⟨hi, hd⟩ := h'.slot_ok _ c hc
        have hm := mem_of_tdictGet hd
        have := h2 ((c.col.index.getD 0).toNat + 1)
          (List.mem_map.2 ⟨(c.col.key, c), hm, rfl⟩)
        rw [hi] at this
        simp only [Option.getD_some, Int.toNat_natCast] at this
        omega
    · rcases h3 with h3 | h3
      · omega
      · obtain ⟨p, hp, hpe⟩ := List.mem_map.1 h3
        obtain ⟨_, i, hi, hs⟩ := h'.dict_ok p hp
        rw [hi] at hpe
        simp only [Option.getD_some, Int.toNat_natCast] at hpe
        have : i < r.slots.length := by
          by_cases hlt : i < r.slots.length
          · exact hlt
          · rw [List.getElem?_eq_none (by omega)] at hs; cases hs
        omega
  · constructor
    · intro h0
      cases hd : r.dict with
      | nil => rfl
      | cons p d =>
        obtain ⟨_, i, _, hs⟩ := h'.dict_ok p (by rw [hd]; exact List.mem_cons_self)
        rw [List.getElem?_eq_none (by omega)] at hs; cases hs
    · intro hd
      by_cases hne : r.slots.length = 0
      · exact hne
      · obtain ⟨c, hc⟩ := hlast hne
        have := mem_of_tdictGet (h'.slot_ok _ c hc).2
        rw [hd] at this; cases this

/-- `list(record)` lists the names in index order, pointwise: position `i` shows name `n`
    iff the column stored under `n` reports index `i` -/
theorem keys_in_index_order (r : Record) (h : Inv r) (i : Nat) (n : Text) :
    r.keys[i]? = some (some n) ↔
      ∃ c, tdictGet r.dict n = some c ∧ c.col.index = some (i : Int) := by
  have h' := (inv_iff _).1 h
  simp only [Record.keys, List.getElem?_map]
  constructor
  · intro hk
    cases hs : r.slots[i]? with
    | none => simp [hs] at hk
    | some o =>
      cases o with
      | none => simp [hs] at hk
      | some c =>
        simp only [hs, Option.map_some, Option.some.injEq] at hk
        obtain ⟨hi, hd⟩ := h'.slot_ok i c hs
        exact ⟨c, hk ▸ hd, hi⟩
  · rintro ⟨c, hd, hi⟩
    obtain ⟨hk, j, hj, hs⟩ := h'.dict_ok _ (mem_of_tdictGet hd)
    simp only at hk hj hs
    rw [hi] at hj
    simp only [Option.some.injEq, Int.natCast_inj] at hj
    subst hj
    simp [hs, hk]

/-- … and globally: the names shown (skipping empty slots) are the names of the stored
    columns sorted by `column_index` -/
theorem keys_sorted_by_index (r : Record) (h : Inv r) :
    r.keys.filterMap id =
      ((r.dict.map (·.2)).mergeSort (fun a b => decide (a.idx ≤ b.idx))).map (·.col.key) := by
  have h' := (inv_iff _).1 h
  rw [h'.sorted_values, Record.keys, List.filterMap_map, List.map_filterMap]
  congr 1

/-- `str(record)` has exactly one field per slot (the list that is joined with TABs has
    `len(record)` = `len(list(record))` entries) -/
theorem render_field_count (C : Ctx) (r : Record) (h : Inv r) (t : Text)
    (hr : r.render C = .ok t) :
    ∃ fields : List Text, t = joinWith '\t' fields ∧ fields.length = r.slots.length ∧
      fields.length = r.keys.length ∧ fields.length = highestPlusOne r := by
  unfold Record.render at hr
  generalize hm : List.mapM (m := Except PyErr) (β := Text) _ r.slots = res at hr
  cases res with
  | error e => cases hr
  | ok fs =>
    simp only [Except.map, Except.ok.injEq] at hr
    have hl := mapM_ok_length _ _ _ hm
    exact ⟨fs, hr.symm, hl, by simp [Record.keys, hl],
      hl.trans (length_is_highest_plus_one r h).1⟩

/-! ### non-vacuity: a reachable state with a gap -/

def colA : RCol := { oid := 7, col := { cls := "MafColumnRecord", key := "a".toList, value := .atom (.str "x".toList), index := none } }
def colC : RCol := { oid := 7, col := { cls := "MafColumnRecord", key := "c".toList, value := .atom (.int 3), index := some 2 } }
def colB : RCol := { oid := 1, col := { cls := "MafColumnRecord", key := "b".toList, value := .atom .none, index := some 2 } }

def demoOps : List EditOp :=
  [.set (.int 0) colA, .set (.name "c".toList) colC, .set (.column colB.col) colB, .del (.int 5)]

/-- the state reached has a gap, the clashing third assignment and the bad delete were refused -/
example : (demoOps.foldl step {}).slots =
    [some { colA with col := { colA.col with index := some 0 } }, none, some colC] := by decide

example : Inv (demoOps.foldl step {}) := inv_history demoOps

example : ((demoOps.foldl step {}).setItem (.column colB.col) colB).2 = .error .value := by
  rfl

/-- deleting the last column also drops the gap before it: the length is again highest index + 1 -/
example : ((demoOps ++ [EditOp.del (.name "c".toList)]).foldl step {}).slots =
    [some { colA with col := { colA.col with index := some 0 } }] := by decide

/-- `popitem()` takes the first position and leaves a gap there; a second one meets the gap and fails with `KeyError`,
    leaving the record as it was; `clear()` therefore stops after one round on a record with a gap after slot 0 -/
example : ((demoOps ++ [EditOp.pop]).foldl step {}).slots = [none, none, some colC] := by decide

example : ((demoOps ++ [EditOp.pop]).foldl step {}).popItem.2 = .error .key := by rfl

example : ((demoOps ++ [EditOp.clear]).foldl step {}).slots = [none, none, some colC] := by decide

/-- on a record without gaps `clear()` ... also stops after the first round (slot 0 is then a gap): the inherited
    `clear` empties a `MafRecord` only when it holds a single column -/
example : (([EditOp.set (.int 0) colA, EditOp.clear] : List EditOp).foldl step {}).slots = [] := by decide

end C15
