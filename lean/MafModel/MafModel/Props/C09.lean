/-
  C09 — reading enforces the declared order exactly.

  Statements about the model's `Checker.add` / `checkAll` (`MafModel/Model/SortOrder.lean`):
  `checkAll c rs = (yielded records, the error that stopped the iteration, if any)`.

  Vocabulary (from `Lemmas/SortOrderLemmas.lean`):
  * `Keyed o cs rs ks` — every record of `rs` is keyable and `ks` are the keys, in order;
  * `NotDesc a b := keyLt b a = .ok false` — "`b` is not smaller than `a`", the checker's test;
  * `AdjChain R l` — every two adjacent elements of `l` are related by `R`.

  (a), (b), (c), (d) need no well-formedness: they are stated with the actual results of `keyLt`.
  Well-formedness (`Loc.WF`) is what makes `keyLt` total and `≤` transitive (C08); it is used for
  the `Pairwise`/`keyLe` form of (a) and for the exhaustiveness theorem `sorted_or_first_descent`.

  (d) is about the records the checker cannot key (`KeyError` from the key function): the ones
  lacking a coordinate column AND the ones whose start / end position is a text that is not a
  number.  Both are skipped.
-/
import MafModel.Props.C08
open Py Model
namespace C09

variable {c : Checker} {rs : List Loc} {ks : List Key}

/-! ## (a) everything is yielded iff the keys are non-decreasing -/

/-- a. chain form -/
theorem all_iff_chain (hs : c.order.sortable = true) (hl : c.last = none)
    (hk : Keyed c.order c.contigs rs ks) :
    checkAll c rs = (rs, none) ↔ AdjChain NotDesc ks :=
  checkAll_none_iff hs hl hk

/-- a. For a sortable order and keyable records: the whole input is yielded without error iff
    no key is smaller than its predecessor. -/
theorem all_iff_sorted (hs : c.order.sortable = true) (hl : c.last = none)
    (hk : Keyed c.order c.contigs rs ks) :
    checkAll c rs = (rs, none) ↔
      ∀ i (h : i + 1 < ks.length), keyLt ks[i + 1] (ks[i]'(by omega)) = .ok false := by
  rw [all_iff_chain hs hl hk, adjChain_iff_getElem]
  rfl

/-- for keys of the invariant `keyLt` always answers, so "`= .ok false`" is "`≠ .ok true`" -/
theorem keyLt_false_iff_ne_true {r : Bool} {a b : Key} (ha : KeyInv r a) (hb : KeyInv r b) :
    keyLt b a = .ok false ↔ keyLt b a ≠ .ok true := by
  rw [(ops_of_cmpKey (cmpKey_eq_cmp (hb.compat ha))).1]
  cases decide (Key.cmp b a < 0) <;> simp

/-- a. the same for well-formed records, with the literal "`¬ k_{i+1} < k_i`" -/
theorem all_iff_sorted_wf (hs : c.order.sortable = true) (hl : c.last = none)
    (hwf : ∀ r ∈ rs, r.WF) (hk : Keyed c.order c.contigs rs ks) :
    checkAll c rs = (rs, none) ↔
      ∀ i (h : i + 1 < ks.length), keyLt ks[i + 1] (ks[i]'(by omega)) ≠ .ok true := by
  rw [all_iff_sorted hs hl hk]
  have hinv := hk.inv hwf
  constructor
  · intro h i hi
    exact (keyLt_false_iff_ne_true (hinv _ (List.getElem_mem _)) (hinv _ (List.getElem_mem _))).1
      (h i hi)
  · intro h i hi
    exact (keyLt_false_iff_ne_true (hinv _ (List.getElem_mem _)) (hinv _ (List.getElem_mem _))).2
      (h i hi)

/-- a. for well-formed records "adjacent keys in order" is "all pairs in order" for the operator
    `≤`, by the transitivity proved in C08: the input is yielded completely iff its keys are sorted -/
theorem all_iff_pairwise_le (hs : c.order.sortable = true) (hl : c.last = none)
    (hwf : ∀ r ∈ rs, r.WF) (hk : Keyed c.order c.contigs rs ks) :
    checkAll c rs = (rs, none) ↔ ks.Pairwise (fun a b => keyLe a b = .ok true) := by
  rw [all_iff_chain hs hl hk]
  have hinv := hk.inv hwf
  have h1 : AdjChain NotDesc ks ↔ AdjChain (fun a b => keyLe a b = .ok true) ks := by
    rw [adjChain_iff_getElem, adjChain_iff_getElem]
    constructor
    · intro h i hi
      exact (C08.not_lt_iff_le_inv (hinv _ (List.getElem_mem _)) (hinv _ (List.getElem_mem _))).1
        (h i hi)
    · intro h i hi
      exact (C08.not_lt_iff_le_inv (hinv _ (List.getElem_mem _)) (hinv _ (List.getElem_mem _))).2
        (h i hi)
  rw [h1]
  exact adjChain_iff_pairwise (P := KeyInv (!c.contigs.isEmpty))
    (fun _ _ _ ha hb hd h₁ h₂ => C08.le_trans_inv ha hb hd h₁ h₂) ks hinv

/-! ## (b) a first descent stops the iteration right there -/

/-- b. If the keys are non-decreasing up to position `i` and key `i+1` is smaller than key `i`,
    exactly the first `i+1` records are yielded and the iteration fails with `ValueError`. -/
theorem prefix_at_first_descent (hs : c.order.sortable = true) (hl : c.last = none)
    (hk : Keyed c.order c.contigs rs ks) (i : Nat) (hi : i + 1 < ks.length)
    (hsorted : ∀ j (hj : j < i), keyLt (ks[j + 1]'(by omega)) (ks[j]'(by omega)) = .ok false)
    (hdesc : keyLt ks[i + 1] (ks[i]'(by omega)) = .ok true) :
    checkAll c rs = (rs.take (i + 1), some .value) := by
  cases rs with
  | nil =>
    cases ks with
    | nil => simp at hi
    | cons k ks => exact hk.elim
  | cons r rs =>
    cases ks with
    | nil => exact hk.elim
    | cons k ks =>
      rw [checkAll_cons_ok rs (add_first hs hk.1 hl)]
      have hchain : AdjChain NotDesc (k :: ks.take i) := by
        rw [← List.take_succ_cons, adjChain_iff_getElem]
        intro j hj
        have hj' : j < i := by
          rw [List.length_take] at hj; omega
        simp only [NotDesc, List.getElem_take]
        exact hsorted j hj'
      have := checkAll_some_descent (c := { c with last := some r }) (l := r) (lk := k) (rs := rs)
        (ks := ks) hs rfl hk.1 hk.2 i (by simpa using hi) hchain (by simpa using hdesc)
      rw [this]
      rfl

/-- b. (the name asked for; `prefix` is a Lean keyword, hence the quotes) -/
theorem «prefix» (hs : c.order.sortable = true) (hl : c.last = none)
    (hk : Keyed c.order c.contigs rs ks) (i : Nat) (hi : i + 1 < ks.length)
    (hsorted : ∀ j (hj : j < i), keyLt (ks[j + 1]'(by omega)) (ks[j]'(by omega)) = .ok false)
    (hdesc : keyLt ks[i + 1] (ks[i]'(by omega)) = .ok true) :
    checkAll c rs = (rs.take (i + 1), some .value) :=
  prefix_at_first_descent hs hl hk i hi hsorted hdesc

/-- (a)+(b) are exhaustive on well-formed keyable input: either the keys are sorted and all is
    yielded, or there is a first descent and the iteration stops there with `ValueError`.  In
    particular no other error (`TypeError`, `KeyError`) can come out. -/
theorem sorted_or_first_descent (hs : c.order.sortable = true) (hl : c.last = none)
    (hwf : ∀ r ∈ rs, r.WF) (hk : Keyed c.order c.contigs rs ks) :
    (ks.Pairwise (fun a b => keyLe a b = .ok true) ∧ checkAll c rs = (rs, none)) ∨
    ∃ i, ∃ hi : i + 1 < ks.length,
      (∀ j (hj : j < i), keyLt (ks[j + 1]'(by omega)) (ks[j]'(by omega)) = .ok false) ∧
      keyLt ks[i + 1] (ks[i]'(by omega)) = .ok true ∧
      checkAll c rs = (rs.take (i + 1), some .value) := by
  have hinv := hk.inv hwf
  rcases adjChain_or_first_descent NotDesc ks with h | ⟨i, hi, hc, hd⟩
  · have h' := (all_iff_chain hs hl hk).2 h
    exact .inl ⟨(all_iff_pairwise_le hs hl hwf hk).1 h', h'⟩
  · have hsorted : ∀ j (hj : j < i),
        keyLt (ks[j + 1]'(by omega)) (ks[j]'(by omega)) = .ok false := by
      intro j hj
      rw [adjChain_iff_getElem] at hc
      have := hc j (by rw [List.length_take]; omega)
      simp only [NotDesc, List.getElem_take] at this
      exact this
    have hdesc : keyLt ks[i + 1] (ks[i]'(by omega)) = .ok true :=
      Classical.not_not.1 ((not_congr (keyLt_false_iff_ne_true
        (hinv _ (List.getElem_mem (by omega : i < ks.length)))
        (hinv _ (List.getElem_mem hi)))).1 hd)
    exact .inr ⟨i, hi, hsorted, hdesc, prefix_at_first_descent hs hl hk i hi hsorted hdesc⟩

/-! ## (c) an order that is not sortable is never enforced -/

/-- c. for `Unknown`/`Unsorted` every input is yielded completely, whatever it contains and
    whatever the checker remembered -/
theorem unsorted_never (c : Checker) (h : c.order.sortable = false) (rs : List Loc) :
    checkAll c rs = (rs, none) := by
  induction rs generalizing c with
  | nil => rfl
  | cons r rs ih =>
    rw [checkAll_cons_ok rs (add_unsortable r h), ih { c with last := some r } h]

/-! ## (d) records that cannot be keyed are yielded, and neither cause nor mask an error

  "Cannot be keyed" = the key function raises `KeyError` (`Loc.unkeyable o cs l`,
  `Lemmas/SortOrderLemmas.lean`): a coordinate column is missing, OR — the chromosome being keyable —
  the start or end position is a text that is not a number (`unkeyable_iff`).  The checker skips
  exactly these records. -/

/-- d. which records the checker cannot key, on their own columns -/
theorem unkeyable_iff (o : Order) (cs : List Text) (l : Loc) :
    l.unkeyable o cs = true ↔
      l.hasCoords = false ∨
        ((cs = [] ∨ ∃ s, l.chrName = some s ∧ s ∈ cs) ∧
          (l.start.posOk = false ∨ l.stop.posOk = false)) :=
  Loc.unkeyable_iff_cols

/-- d. in terms of the key function: `KeyError` -/
theorem unkeyable_iff_keyError (o : Order) (cs : List Text) (l : Loc) :
    l.unkeyable o cs = true ↔ mkKey o cs l = .error .key :=
  Loc.unkeyable_iff

/-- the checker's verdict is the one it gives on the records that have coordinates, and what it
    yields restricts to what it yields there -/
theorem skip_aux (c : Checker) (hs : c.order.sortable = true) (rs : List Loc) :
    (checkAll c rs).2 = (checkAll c (rs.filter (·.hasCoords))).2 ∧
    (checkAll c rs).1.filter (·.hasCoords) = (checkAll c (rs.filter (·.hasCoords))).1 := by
  induction rs generalizing c with
  | nil => exact ⟨rfl, rfl⟩
  | cons r rs ih =>
    cases hc : r.hasCoords with
    | false =>
      rw [checkAll_cons_ok rs (add_skip hs hc), List.filter_cons_of_neg (by simp [hc])]
      simp only [List.filter_cons_of_neg (p := (·.hasCoords)) (a := r) (by simp [hc])]
      exact ih c hs
    | true =>
      rw [List.filter_cons_of_pos (by simp [hc])]
      cases ha : c.add r with
      | error e =>
        rw [checkAll_cons_error _ ha, checkAll_cons_error _ ha]
        exact ⟨rfl, rfl⟩
      | ok c' =>
        have hs' : c'.order.sortable = true := by
          rw [(add_order_contigs ha).1]; exact hs
        rw [checkAll_cons_ok _ ha, checkAll_cons_ok _ ha]
        obtain ⟨h1, h2⟩ := ih c' hs'
        refine ⟨h1, ?_⟩
        simp only [List.filter_cons_of_pos (p := (·.hasCoords)) (a := r) (by simp [hc])]
        rw [h2]

/-- d. For every checker (any order, any remembered record) and every input, with
    `keyable r := !r.unkeyable c.order c.contigs` (the key function does not raise `KeyError`):
    1. the error (or its absence) is exactly that of the input restricted to the keyable records —
       un-keyable records (no coordinates, or a non-numeric position text) neither cause nor mask
       an ordering error;
    2. the records yielded, restricted to the keyable ones, are exactly the ones yielded from the
       restricted input;
    3. the yielded records are a prefix of the input (un-keyable records are yielded in place);
    4. without error the whole input is yielded;
    5. on error the yielded prefix ends right before a keyable record (the offending one) and the
       order is a sortable one: un-keyable records before it were all yielded. -/
theorem skip_unkeyable (c : Checker) (rs : List Loc) :
    (checkAll c rs).2 = (checkAll c (rs.filter (fun r => !r.unkeyable c.order c.contigs))).2 ∧
    (checkAll c rs).1.filter (fun r => !r.unkeyable c.order c.contigs) =
      (checkAll c (rs.filter (fun r => !r.unkeyable c.order c.contigs))).1 ∧
    (checkAll c rs).1 <+: rs ∧
    ((checkAll c rs).2 = none → (checkAll c rs).1 = rs) ∧
    (∀ e, (checkAll c rs).2 = some e →
      ∃ r rest, rs = (checkAll c rs).1 ++ r :: rest ∧ c.order.sortable = true ∧
        r.unkeyable c.order c.contigs = false) := by
  refine ⟨?_, ?_, checkAll_fst_prefix c rs, checkAll_fst_of_none c rs, ?_⟩
  · cases hs : c.order.sortable with
    | false => rw [unsorted_never c hs, unsorted_never c hs]
    | true => exact (checkAll_filter_keyable c hs rs).1
  · cases hs : c.order.sortable with
    | false => rw [unsorted_never c hs, unsorted_never c hs]
    | true => exact (checkAll_filter_keyable c hs rs).2
  · intro e he
    obtain ⟨r, rest, h1, h2, h3⟩ := checkAll_error_split_keyable c rs e he
    exact ⟨r, rest, h1, h2, Loc.unkeyable_false_iff.2 h3⟩

/-- a record on a chromosome that a supplied contig list does not name is REPORTED by the checker (`ValueError`), never
    skipped - also when its position texts are no numbers (the contig lookup comes first: of the two defects the
    unlisted chromosome wins; a record without a readable position is skipped only when its chromosome is known) -/
theorem unlisted_contig_reported (c : Checker) (hs : c.order.sortable = true) (l : Loc)
    (h0 : l.hasCoords = true) (hne : c.contigs ≠ []) (h : ∀ s, l.chrName = some s → s ∉ c.contigs) :
    c.add l = .error .value := by
  unfold Checker.add
  rw [C08.contig_missing_of_hasCoords c.order c.contigs l h0 hne h]
  simp [hs]

/-- d. the special case of records without coordinate columns (the statement `skip_unkeyable` had
    before a non-numeric position text became a `KeyError`; it still holds, with the filter
    "has its coordinate columns" in place of "can be keyed") -/
theorem skip_no_coords (c : Checker) (rs : List Loc) :
    (checkAll c rs).2 = (checkAll c (rs.filter (·.hasCoords))).2 ∧
    (checkAll c rs).1.filter (·.hasCoords) = (checkAll c (rs.filter (·.hasCoords))).1 ∧
    (checkAll c rs).1 <+: rs ∧
    ((checkAll c rs).2 = none → (checkAll c rs).1 = rs) ∧
    (∀ e, (checkAll c rs).2 = some e →
      ∃ r rest, rs = (checkAll c rs).1 ++ r :: rest ∧ r.hasCoords = true) := by
  refine ⟨?_, ?_, checkAll_fst_prefix c rs, checkAll_fst_of_none c rs, checkAll_error_split c rs⟩
  · cases hs : c.order.sortable with
    | false => rw [unsorted_never c hs, unsorted_never c hs]
    | true => exact (skip_aux c hs rs).1
  · cases hs : c.order.sortable with
    | false => rw [unsorted_never c hs, unsorted_never c hs]
    | true => exact (skip_aux c hs rs).2

/-- an un-keyable record leaves the checker untouched (in particular the remembered record), for a
    sortable order -/
theorem add_unkeyable (hs : c.order.sortable = true) (r : Loc)
    (h : r.unkeyable c.order c.contigs = true) : c.add r = .ok c :=
  add_skip_unkeyable hs (Loc.unkeyable_iff.1 h)

/-- ... and only an un-keyable record does: for a sortable order `add` leaves the checker
    untouched iff the record cannot be keyed — unless the record is the remembered one itself -/
theorem add_eq_self_iff (hs : c.order.sortable = true) (r : Loc) (hne : c.last ≠ some r) :
    c.add r = .ok c ↔ r.unkeyable c.order c.contigs = true := by
  constructor
  · intro ha
    cases hu : r.unkeyable c.order c.contigs with
    | true => rfl
    | false =>
      have := add_ok_of_keyable hs (Loc.unkeyable_false_iff.1 hu) ha
      have hl : c.last = some r := by rw [this]
      exact (hne hl).elim
  · exact add_unkeyable hs r

/-- a record without coordinates leaves the checker untouched -/
theorem add_no_coords (hs : c.order.sortable = true) (r : Loc) (h : r.hasCoords = false) :
    c.add r = .ok c := add_skip hs h

/-- a record whose start or end position is a text that is not a number leaves the checker
    untouched when there is no contig list (or its chromosome is in the list): it is no longer a
    `ValueError` that stops the iteration -/
theorem add_bad_position (hs : c.order.sortable = true) (r : Loc)
    (hc : c.contigs = [] ∨ ∃ s, r.chrName = some s ∧ s ∈ c.contigs)
    (hp : r.start.posOk = false ∨ r.stop.posOk = false) : c.add r = .ok c :=
  add_unkeyable hs r (Loc.unkeyable_iff_cols.2 (.inr ⟨hc, hp⟩))

/-- d+a. with un-keyable records interspersed: everything is yielded iff the keys of the records
    that can be keyed are non-decreasing -/
theorem all_iff_sorted_skip (hs : c.order.sortable = true) (hl : c.last = none)
    (hk : Keyed c.order c.contigs (rs.filter (fun r => !r.unkeyable c.order c.contigs)) ks) :
    checkAll c rs = (rs, none) ↔
      ∀ i (h : i + 1 < ks.length), keyLt ks[i + 1] (ks[i]'(by omega)) = .ok false := by
  rw [checkAll_eq_iff_none, (skip_unkeyable c rs).1, ← checkAll_eq_iff_none,
    all_iff_sorted hs hl hk]

/-- d+b. with un-keyable records interspersed: a first descent among the keyed records is reported
    as `ValueError`; the yielded records are a prefix of the input that contains exactly the first
    `i+1` keyed records and stops right before the offending record, which is a keyable one -/
theorem prefix_skip (hs : c.order.sortable = true) (hl : c.last = none)
    (hk : Keyed c.order c.contigs (rs.filter (fun r => !r.unkeyable c.order c.contigs)) ks)
    (i : Nat) (hi : i + 1 < ks.length)
    (hsorted : ∀ j (hj : j < i), keyLt (ks[j + 1]'(by omega)) (ks[j]'(by omega)) = .ok false)
    (hdesc : keyLt ks[i + 1] (ks[i]'(by omega)) = .ok true) :
    (checkAll c rs).2 = some .value ∧
    (checkAll c rs).1.filter (fun r => !r.unkeyable c.order c.contigs) =
      (rs.filter (fun r => !r.unkeyable c.order c.contigs)).take (i + 1) ∧
    ∃ r rest, rs = (checkAll c rs).1 ++ r :: rest ∧ r.unkeyable c.order c.contigs = false := by
  have h := prefix_at_first_descent hs hl hk i hi hsorted hdesc
  obtain ⟨h1, h2, -, -, h5⟩ := skip_unkeyable c rs
  rw [h] at h1 h2
  obtain ⟨r, rest, h6, -, h7⟩ := h5 _ h1
  exact ⟨h1, h2, r, rest, h6, h7⟩

/-! ## non-vacuity: concrete inputs -/

section examples

private def ck : Checker := { order := .coordinate, contigs := ["chr1".toList, "chr2".toList] }
private def l1 : Loc := { chr := .str "chr1".toList, start := .int 5, stop := .int 9 }
private def l2 : Loc := { chr := .str "chr1".toList, start := .str "10".toList, stop := .int 12 }
private def l3 : Loc := { chr := .str "chr2".toList, start := .int 1, stop := .int 2 }
private def noCoords : Loc := { hasCoords := false }
/-- start position `"abc"`: not a number -/
private def badPos : Loc := { chr := .str "chr1".toList, start := .str "abc".toList, stop := .int 12 }
/-- the same on a chromosome the contig list does not have -/
private def badPosX : Loc := { chr := .str "chrX".toList, start := .str "abc".toList, stop := .int 12 }
private def k1 : Key := { chr := .int 0, start := .int 5, stop := .int 9 }
private def k2 : Key := { chr := .int 0, start := .int 10, stop := .int 12 }
private def k3 : Key := { chr := .int 1, start := .int 1, stop := .int 2 }

/-- (a): a sorted, well-formed, keyable input meets every hypothesis, and is yielded completely -/
example : ck.order.sortable = true ∧ ck.last = none ∧ (∀ r ∈ [l1, l2, l3], r.WF) ∧
    Keyed ck.order ck.contigs [l1, l2, l3] [k1, k2, k3] ∧
    checkAll ck [l1, l2, l3] = ([l1, l2, l3], none) := by
  have hk : Keyed ck.order ck.contigs [l1, l2, l3] [k1, k2, k3] := by decide
  exact ⟨rfl, rfl, by decide, hk, (all_iff_sorted (c := ck) rfl rfl hk).2
    ((adjChain_iff_getElem NotDesc [k1, k2, k3]).1 (by decide))⟩

/-- (b): first descent at position 2 (`l1` after `l3`): two records yielded, then `ValueError` -/
example : checkAll ck [l2, l3, l1, l3] = ([l2, l3], some .value) :=
  prefix_at_first_descent (c := ck) (ks := [k2, k3, k1, k3]) rfl rfl (by decide) 1 (by decide)
    (by decide) (by decide)

/-- (c) -/
example : checkAll { order := .unsorted, contigs := [] } [l3, noCoords, l1] = ([l3, noCoords, l1], none) :=
  unsorted_never _ rfl _

/-- (d): records without coordinates are yielded and do not reset the remembered record: the
    descent `l3 … l1` is still detected across `noCoords` -/
example : checkAll ck [noCoords, l3, noCoords, l1] = ([noCoords, l3, noCoords], some .value) ∧
    checkAll ck [l3, l1] = ([l3], some .value) := by decide

example : checkAll ck [noCoords, l1, noCoords, l3] = ([noCoords, l1, noCoords, l3], none) :=
  (all_iff_sorted_skip (c := ck) (ks := [k1, k3]) rfl rfl (by decide)).2
    ((adjChain_iff_getElem NotDesc [k1, k3]).1 (by decide))

/-- (d): a record with a non-numeric position text is un-keyable (it HAS its coordinate columns),
    is yielded, does not stop the iteration and does not reset the remembered record -/
example : badPos.hasCoords = true ∧ badPos.unkeyable ck.order ck.contigs = true ∧
    ck.add badPos = .ok ck ∧
    checkAll ck [l1, badPos, l3] = ([l1, badPos, l3], none) ∧
    checkAll ck [badPos, l3, badPos, l1] = ([badPos, l3, badPos], some .value) := by
  refine ⟨rfl, by decide, add_bad_position (c := ck) rfl badPos
    (.inr ⟨"chr1".toList, by decide, by decide⟩) (.inl (by decide)), ?_, by decide⟩
  exact (all_iff_sorted_skip (c := ck) (ks := [k1, k3]) rfl rfl (by decide)).2
    ((adjChain_iff_getElem NotDesc [k1, k3]).1 (by decide))

/-- (d): the contig lookup comes before the positions: on a chromosome the contig list does not
    have, the same record is keyable-and-failing (`ValueError`), not skipped -/
example : badPosX.unkeyable ck.order ck.contigs = false ∧
    checkAll ck [l1, badPosX, l3] = ([l1], some .value) := by decide

end examples

end C09
