/-
  C01 — Validation accepts exactly the lines that conform to the scheme.

  Property theorems only (helper lemmas live in `Lemmas/`).  The operational
  model is `Model.ColSpec.accept` (what `MafRecord.from_line` does with one field:
  build with the scheme's class, keep the column only if it validates with zero
  errors) over the class record resolved from the *generated* class table; the
  specification is the flat `Spec.specBuild`.
-/
import MafModel.Lemmas.Builtin
open Model Py Spec

namespace C01

/-- **Tie to the source (regenerated every run).**  Every column of every
    built-in layout — built by the model of `build_schemes` from the generated
    scheme definitions, with classes resolved by C3 over the generated class
    table — sits at the position the documented layout gives it and resolves to
    the class record the field theorems below are about. -/
theorem builtins_resolve : Builtin.builtinsOK = true := by decide +kernel

/-- every named column type of the generated class table resolves to its expected record -/
theorem named_resolve :
    Expected.named.all (fun p => (resolveSpec Generated.classTable p.1).map ColSpec.erase == some p.2) = true := by
  decide +kernel

/-- **Acceptance = domain, value = denotation (all texts, all column types).**
    A field is accepted by the operational model exactly when it lies in the
    documented domain of its column type, and the accepted column carries the
    typed value the text denotes. -/
theorem field_accept_eq_spec (C : Ctx) (ty : ColType) (sp : ColSpec) (t : Text)
    (h : Builtin.expectedOf ty = some sp) :
    sp.accept C false t = specBuild ⟨C.enums, C.H⟩ ty t :=
  Builtin.field_accept C ty sp t h

theorem field_accept_iff_domain (C : Ctx) (ty : ColType) (sp : ColSpec) (t : Text)
    (h : Builtin.expectedOf ty = some sp) :
    (sp.accept C false t).isSome = inDomain ⟨C.enums, C.H⟩ ty t := by
  rw [field_accept_eq_spec C ty sp t h]; rfl

/-- a field outside its domain is never exposed as a value -/
theorem field_reject (C : Ctx) (ty : ColType) (sp : ColSpec) (t : Text)
    (h : Builtin.expectedOf ty = some sp)
    (hout : inDomain ⟨C.enums, C.H⟩ ty t = false) : sp.accept C false t = none := by
  have := field_accept_iff_domain C ty sp t h
  rw [hout] at this
  cases hs : sp.accept C false t with
  | none => rfl
  | some v => rw [hs] at this; simp at this

/-- the class record resolved from the tables, for a class of the extended table -/
theorem accept_of_resolved (C : Ctx) (cls : String) (sp : ColSpec) (ty : ColType) (t : Text)
    (hr : (resolveSpec C.tbl cls).map ColSpec.erase = Builtin.expectedOf ty)
    (hs : resolveSpec C.tbl cls = some sp) :
    sp.accept C false t = specBuild ⟨C.enums, C.H⟩ ty t := by
  rw [hs] at hr
  simp at hr
  rw [← Builtin.accept_erase]
  exact field_accept_eq_spec C ty sp.erase t hr.symm

/-! Non-vacuity: concrete column types meet the hypotheses, and the theorem
    decides concrete texts both ways. -/
example : Builtin.expectedOf (.named "NullableZeroBasedIntegerColumn") = some Expected.NullableZeroBasedIntegerColumn := by decide
example : Builtin.expectedOf (.mixed "RequireNullValue" (.named "NullableDnaString")) ≠ none := by decide
example : inDomain ⟨Generated.enums, ⟨fun _ => none⟩⟩ (.named "OneBasedIntegerColumn") "7".toList = true := by decide
example : inDomain ⟨Generated.enums, ⟨fun _ => none⟩⟩ (.named "OneBasedIntegerColumn") "0".toList = false := by decide
example : inDomain ⟨Generated.enums, ⟨fun _ => none⟩⟩ (.mixed "RequireNullValue" (.named "NullableDnaString")) "ACGT".toList = false := by decide
example : inDomain ⟨Generated.enums, ⟨fun _ => none⟩⟩ (.named "VariantType") "SNP".toList = true := by decide

end C01
