/-
  C01 at the level of whole lines, for every built-in layout: combines the
  record-level theorems (`C01Record`, generic in the scheme) with the field-level
  refinement and the tie to the generated tables (`C01`).
-/
import MafModel.Props.C01
import MafModel.Props.C01Record
import MafModel.Props.C01Tables
open Model Py Spec

/-! ## Record level: whole lines under the built-in layouts -/

namespace C01Builtin
open C01

theorem schemeOK_of_tbl (C C' : Ctx) (S : Scheme) (h : C.tbl = C'.tbl) (hs : SchemeOK C S) : SchemeOK C' S := by
  refine ⟨hs.nodup, hs.pos, ?_⟩
  intro p hp
  obtain ⟨sp, h1, h2, h3⟩ := hs.cls_ok p hp
  refine ⟨sp, by rw [← h]; exact h1, h2, ?_⟩
  simpa [isSubclass, ← h] using h3

/-- what `builtinsOK` says about one column of one built-in scheme -/
theorem builtin_column (st : BuildState) (ss : List (String × Scheme)) (hb : Builtin.built = .ok (st, ss))
    (a : String) (S : Scheme) (hS : (a, S) ∈ ss) :
    ∃ L, layoutOf Generated.schemeDefs S.annotation = some L ∧ L.length = S.cols.length ∧
      ∀ (i : Nat) (c : String × String) (l : String × ColType), S.cols[i]? = some c → L[i]? = some l →
        c.1 = l.1 ∧ (Builtin.expectedOf l.2).isSome ∧
        (resolveSpec st.tbl c.2).map ColSpec.erase = Builtin.expectedOf l.2 := by
  have hok := builtins_resolve
  unfold Builtin.builtinsOK at hok
  rw [hb] at hok
  simp only [Bool.and_eq_true, List.all_eq_true] at hok
  have hs := hok.2 (a, S) hS
  simp only [Builtin.schemeOK] at hs
  cases hL : layoutOf Generated.schemeDefs S.annotation with
  | none => simp [hL] at hs
  | some L =>
    simp only [hL, Bool.and_eq_true, beq_iff_eq, List.all_eq_true] at hs
    refine ⟨L, rfl, hs.1, ?_⟩
    intro i c l hc hl
    have hz : (c, l) ∈ S.cols.zip L := by
      have : (S.cols.zip L)[i]? = some (c, l) := by
        simp [List.getElem?_zip_eq_some, hc, hl]
      exact List.mem_of_getElem? this
    have := hs.2 (c, l) hz
    simp only [Builtin.colOK, Bool.and_eq_true, beq_iff_eq] at this
    exact ⟨this.1.1, this.1.2, this.2⟩

/-- **C01 for whole lines.**  Under every built-in scheme, a line with the scheme's
    number of fields is accepted without validation errors exactly when every
    field lies in the documented domain of the column at its position. -/
theorem builtin_line_accept_iff (C : Ctx) (st : BuildState) (ss : List (String × Scheme))
    (hb : Builtin.built = .ok (st, ss)) (hC : C.tbl = st.tbl)
    (a : String) (S : Scheme) (hS : (a, S) ∈ ss) (L : Layout)
    (hL : layoutOf Generated.schemeDefs S.annotation = some L)
    (line : Text) (lineNo : Option Nat) (mode : Option Mode) (r : Record) (logs : List LogRec)
    (hlen : (fieldsOf line).length = S.size)
    (hr : Record.fromLine C line none (some S) lineNo mode = .ok (r, logs)) :
    r.errors = [] ↔
      ∀ (i : Nat) (l : String × ColType) (f : Text), L[i]? = some l → (fieldsOf line)[i]? = some f →
        inDomain ⟨C.enums, C.H⟩ l.2 f = true := by
  obtain ⟨L', hL', hlen', hcol⟩ := builtin_column st ss hb a S hS
  rw [hL] at hL'; cases hL'
  have hok0 := C01Tables.builtin_schemes_ok
  rw [hb] at hok0
  simp only [List.all_eq_true] at hok0
  have hyp0 := C01Record.hyp_of_check _ S (hok0 (a, S) hS)
  have hyp : C01Record.Hyp C S := schemeOK_of_tbl _ C S (by simp [hC]) hyp0
  rw [C01Record.accept_iff hyp hlen hr]
  constructor
  · intro h i l f hl hf
    have hi : i < L.length := by
      rcases Nat.lt_or_ge i L.length with h' | h'
      · exact h'
      · rw [List.getElem?_eq_none h'] at hl; cases hl
    have hi' : i < S.cols.length := by omega
    obtain ⟨c, hc⟩ : ∃ c, S.cols[i]? = some c := ⟨S.cols[i], List.getElem?_eq_getElem hi'⟩
    obtain ⟨_, hsome, hres⟩ := hcol i c l hc hl
    cases hsp : resolveSpec st.tbl c.2 with
    | none => rw [hsp] at hres; simp at hres; rw [← hres] at hsome; simp at hsome
    | some sp =>
      have hacc := h i c.1 c.2 sp f (by simpa using hc) (by rw [hC]; exact hsp) hf
      have := accept_of_resolved C c.2 sp l.2 f (by rw [hC]; exact hres) (by rw [hC]; exact hsp)
      rw [this] at hacc
      exact hacc
  · intro h i n cls sp f hc hsp hf
    have hi : i < S.cols.length := by
      rcases Nat.lt_or_ge i S.cols.length with h' | h'
      · exact h'
      · rw [List.getElem?_eq_none h'] at hc; cases hc
    have hi' : i < L.length := by omega
    obtain ⟨l, hl⟩ : ∃ l, L[i]? = some l := ⟨L[i], List.getElem?_eq_getElem hi'⟩
    obtain ⟨_, _, hres⟩ := hcol i (n, cls) l hc hl
    have := accept_of_resolved C cls sp l.2 f (by rw [hC]; exact hres) hsp
    rw [this]
    exact h i l f hl hf

end C01Builtin
