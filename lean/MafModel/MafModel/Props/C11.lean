/-
  Property C11 — the overlap iterator (`LocatableOverlapIterator`, model `Model.ovAll`)
  emits exactly the connected components of the closed-interval overlap graph of its
  inputs, in key order.

  Setting (`MafModel/Lemmas/OverlapLemmas.lean`):
  * `ops.Lawful cls`   : `ops.lt` is the lexicographic order on (class, start, stop) for a class
                         function `cls : κ → γ` into a linear order, `ops.same` compares classes;
  * `SortedInputs ops iters` : every input is sorted (`Pairwise (fun a b => ops.lt b a = false)`);
  * `ClosedInputs ops iters` : every item of every input has `start ≤ stop`;
  * `Overlap ops cls a b`    : `cls a = cls b ∧ start a ≤ stop b ∧ start b ≤ stop a`;
  * `Linked ops cls S a b`   : a chain of members of `S` from `a` to `b`, consecutive ones overlapping;
  * `Before ops cls a b`     : `cls a < cls b ∨ (cls a = cls b ∧ stop a < start b)`.

  The key type `κ` is abstract and the hypotheses only constrain `cls`, `start`, `stop`, so `κ` may
  carry an identity (input index, position): *occurrences* are elements of `κ`, and the theorems
  hold with duplicates (equal keys) as well.  Groups are addressed by position in the emitted list
  (`List.Pairwise` over the list of groups), which is occurrence-precise: by `partition` every
  occurrence `iters[i][p]` sits in exactly one slot of exactly one group.  The last section makes
  this explicit by tagging items with `(input index, position)` (`tagged_run`, `complete_occ`).

  All of 1–5 are proved in full; nothing is left partial.
-/
import Mathlib.Data.Nat.Basic
import MafModel.Lemmas.OverlapLemmas

open Model

namespace C11

variable {κ γ : Type} [LinearOrder γ] {ops : OvOps κ} {cls : κ → γ}

/-! ### 0. the fuel suffices -/

/-- With `fuel ≥ totalLen' iters + 1` the result does not depend on the fuel:
    `ovAll` stops because the inputs are exhausted, never because the fuel ran out. -/
theorem fuel_suffices (L : ops.Lawful cls) {iters : List (List κ)}
    (hs : SortedInputs ops iters) (hc : ClosedInputs ops iters) {fuel : Nat}
    (hf : totalLen' iters + 1 ≤ fuel) :
    ovAll ops fuel iters = ovAll ops (totalLen' iters + 1) iters :=
  ovAll_fuel_eq L hs hc hf (Nat.le_refl _)

/-! ### 1. partition -/

/-- Every emitted group has one slot per input. -/
theorem group_length (L : ops.Lawful cls) {iters : List (List κ)}
    (hs : SortedInputs ops iters) (hc : ClosedInputs ops iters) {fuel : Nat}
    (hf : totalLen' iters + 1 ≤ fuel) :
    ∀ g ∈ ovAll ops fuel iters, g.length = iters.length :=
  (ovAll_groups L fuel iters hs hc hf).length_eq

/-- For every input index `i`, concatenating slot `i` over all groups, in emission order,
    gives exactly `iters[i]`: nothing is lost, duplicated or reordered. -/
theorem partition (L : ops.Lawful cls) {iters : List (List κ)}
    (hs : SortedInputs ops iters) (hc : ClosedInputs ops iters) {fuel : Nat}
    (hf : totalLen' iters + 1 ≤ fuel) :
    ∀ i (hi : i < iters.length),
      ((ovAll ops fuel iters).map (fun g => g.getD i [])).flatten = iters[i] :=
  (ovAll_groups L fuel iters hs hc hf).partition

/-- Consequence of `partition`: the members of the groups are exactly the input items. -/
theorem mem_groups_iff (L : ops.Lawful cls) {iters : List (List κ)}
    (hs : SortedInputs ops iters) (hc : ClosedInputs ops iters) {fuel : Nat}
    (hf : totalLen' iters + 1 ≤ fuel) (x : κ) :
    x ∈ iters.flatten ↔ ∃ g ∈ ovAll ops fuel iters, x ∈ g.flatten :=
  (ovAll_groups L fuel iters hs hc hf).mem_iff x

/-! ### 2. non-empty groups -/

/-- Every emitted group has at least one non-empty slot. -/
theorem nonempty (L : ops.Lawful cls) {iters : List (List κ)}
    (hs : SortedInputs ops iters) (hc : ClosedInputs ops iters) {fuel : Nat}
    (hf : totalLen' iters + 1 ≤ fuel) :
    ∀ g ∈ ovAll ops fuel iters, ∃ s ∈ g, s ≠ [] := by
  intro g hg
  obtain ⟨x, hx⟩ := (ovAll_groups L fuel iters hs hc hf).nonempty g hg
  obtain ⟨s, hs', hxs⟩ := List.mem_flatten.1 hx
  exact ⟨s, hs', List.ne_nil_of_mem hxs⟩

/-! ### 3. soundness: a group is connected -/

/-- Any two members of one group are linked by a chain of pairwise-overlapping members of
    that group. -/
theorem sound (L : ops.Lawful cls) {iters : List (List κ)}
    (hs : SortedInputs ops iters) (hc : ClosedInputs ops iters) {fuel : Nat}
    (hf : totalLen' iters + 1 ≤ fuel) :
    ∀ g ∈ ovAll ops fuel iters, ∀ a ∈ g.flatten, ∀ b ∈ g.flatten,
      Linked ops cls (· ∈ g.flatten) a b :=
  (ovAll_groups L fuel iters hs hc hf).linked

/-! ### 5. order of emission (stated first: `complete` follows from it) -/

/-- Groups are separated and emitted in order: every member `b` of a later group lies strictly
    beyond every member `a` of an earlier group — its class is larger, or it has the same class and
    starts after `a` stops.  As the earlier group's final `hi` is the largest `stop` of its members,
    this says `b.start > hi` or `cls b` is larger. -/
theorem separated (L : ops.Lawful cls) {iters : List (List κ)}
    (hs : SortedInputs ops iters) (hc : ClosedInputs ops iters) {fuel : Nat}
    (hf : totalLen' iters + 1 ≤ fuel) :
    (ovAll ops fuel iters).Pairwise
      (fun g1 g2 => ∀ a ∈ g1.flatten, ∀ b ∈ g2.flatten, Before ops cls a b) :=
  (ovAll_groups L fuel iters hs hc hf).separated

/-- Groups are emitted in key order: every member of a later group has key strictly greater than
    (`lt a b`), in particular not less than (`¬ lt b a`), every member of every earlier group. -/
theorem ordered (L : ops.Lawful cls) {iters : List (List κ)}
    (hs : SortedInputs ops iters) (hc : ClosedInputs ops iters) {fuel : Nat}
    (hf : totalLen' iters + 1 ≤ fuel) :
    (ovAll ops fuel iters).Pairwise
      (fun g1 g2 => ∀ a ∈ g1.flatten, ∀ b ∈ g2.flatten,
        ops.lt a b = true ∧ ops.lt b a = false) := by
  refine (separated L hs hc hf).imp_of_mem ?_
  intro g1 g2 hg1 _ hsep a ha b hb
  have hca : ops.Closed a :=
    AllItems.flatten hc a ((mem_groups_iff L hs hc hf a).2 ⟨g1, hg1, ha⟩)
  have hlt := L.lt_of_before hca (hsep a ha b hb)
  exact ⟨hlt, L.lt_asymm hlt⟩

/-- The minimum key `lo` of a group (the first minimal head of its slots, `minKey`) is a member of
    the group, so by `ordered` every member of a later group has key `≥ lo`. -/
theorem ordered_lo (L : ops.Lawful cls) {iters : List (List κ)}
    (hs : SortedInputs ops iters) (hc : ClosedInputs ops iters) {fuel : Nat}
    (hf : totalLen' iters + 1 ≤ fuel) :
    (ovAll ops fuel iters).Pairwise
      (fun g1 g2 => ∀ lo, minKey ops (heads g1) = some lo → ∀ b ∈ g2.flatten,
        ops.lt b lo = false ∧ Before ops cls lo b) := by
  have h1 := separated L hs hc hf
  have h2 := ordered L hs hc hf
  refine (h1.and h2).imp ?_
  intro g1 g2 h lo hlo b hb
  obtain ⟨l, hl, hhead⟩ := mem_heads.1 (minKey_mem hlo)
  have hmem : lo ∈ g1.flatten := List.mem_flatten.2 ⟨l, hl, List.mem_of_mem_head? hhead⟩
  exact ⟨(h.2 lo hmem b hb).2, h.1 lo hmem b hb⟩

/-! ### 4. completeness: overlapping items share a group -/

/-- Occurrence-precise form: members of two different groups (different positions in the emitted
    list) never overlap.  With `partition` (each occurrence lies in exactly one group position)
    this says two overlapping occurrences are in the same group. -/
theorem complete_pos (L : ops.Lawful cls) {iters : List (List κ)}
    (hs : SortedInputs ops iters) (hc : ClosedInputs ops iters) {fuel : Nat}
    (hf : totalLen' iters + 1 ≤ fuel) :
    (ovAll ops fuel iters).Pairwise
      (fun g1 g2 => ∀ a ∈ g1.flatten, ∀ b ∈ g2.flatten,
        ¬ Overlap ops cls a b ∧ ¬ Overlap ops cls b a) :=
  (separated L hs hc hf).imp fun h a ha b hb =>
    ⟨(h a ha b hb).not_overlap, (h a ha b hb).not_overlap'⟩

/-- A member of two emitted groups forces them to be the same group: groups are disjoint. -/
theorem group_unique (L : ops.Lawful cls) {iters : List (List κ)}
    (hs : SortedInputs ops iters) (hc : ClosedInputs ops iters) {fuel : Nat}
    (hf : totalLen' iters + 1 ≤ fuel) {g1 g2 : List (List κ)}
    (hg1 : g1 ∈ ovAll ops fuel iters) (hg2 : g2 ∈ ovAll ops fuel iters) {x : κ}
    (h1 : x ∈ g1.flatten) (h2 : x ∈ g2.flatten) : g1 = g2 := by
  have hcx : ops.Closed x :=
    AllItems.flatten hc x ((mem_groups_iff L hs hc hf x).2 ⟨g1, hg1, h1⟩)
  rcases pairwise_mem_cases (separated L hs hc hf) hg1 hg2 with h | h | h
  · exact h
  · exact absurd (h x h1 x h2) (Before.irrefl_of_closed hcx)
  · exact absurd (h x h2 x h1) (Before.irrefl_of_closed hcx)

/-- Two items of the inputs that overlap are in the same group. -/
theorem complete (L : ops.Lawful cls) {iters : List (List κ)}
    (hs : SortedInputs ops iters) (hc : ClosedInputs ops iters) {fuel : Nat}
    (hf : totalLen' iters + 1 ≤ fuel) {a b : κ}
    (ha : a ∈ iters.flatten) (hb : b ∈ iters.flatten) (hab : Overlap ops cls a b) :
    ∃ g ∈ ovAll ops fuel iters, a ∈ g.flatten ∧ b ∈ g.flatten := by
  obtain ⟨g1, hg1, ha1⟩ := (mem_groups_iff L hs hc hf a).1 ha
  obtain ⟨g2, hg2, hb2⟩ := (mem_groups_iff L hs hc hf b).1 hb
  rcases pairwise_mem_cases (separated L hs hc hf) hg1 hg2 with h | h | h
  · subst h; exact ⟨g1, hg1, ha1, hb2⟩
  · exact absurd hab (h a ha1 b hb2).not_overlap
  · exact absurd hab (h b hb2 a ha1).not_overlap'

/-- 3 + 4: two input items share a group iff a chain of overlapping input items links them. -/
theorem same_group_iff (L : ops.Lawful cls) {iters : List (List κ)}
    (hs : SortedInputs ops iters) (hc : ClosedInputs ops iters) {fuel : Nat}
    (hf : totalLen' iters + 1 ≤ fuel) {a b : κ} :
    (∃ g ∈ ovAll ops fuel iters, a ∈ g.flatten ∧ b ∈ g.flatten) ↔
      Linked ops cls (· ∈ iters.flatten) a b := by
  constructor
  · rintro ⟨g, hg, ha, hb⟩
    refine (sound L hs hc hf g hg a ha b hb).mono ?_
    intro x hx
    exact (mem_groups_iff L hs hc hf x).2 ⟨g, hg, hx⟩
  · intro h
    induction h with
    | refl ha =>
      obtain ⟨g, hg, hag⟩ := (mem_groups_iff L hs hc hf _).1 ha
      exact ⟨g, hg, hag, hag⟩
    | @tail b c _ hc' ho ih =>
      obtain ⟨g, hg, hag, hbg⟩ := ih
      have hbmem : b ∈ iters.flatten := (mem_groups_iff L hs hc hf b).2 ⟨g, hg, hbg⟩
      obtain ⟨g', hg', hbg', hcg'⟩ := complete L hs hc hf hbmem hc' ho
      have : g = g' := group_unique L hs hc hf hg hg' hbg hbg'
      subst this
      exact ⟨g, hg, hag, hcg'⟩

/-! ### occurrences made explicit

`tagInputs iters` tags every item with its occurrence `(input index, position)`; the tagged items
are pairwise distinct, the tagged run (operations pulled back along `Prod.fst`) meets all
hypotheses, and forgetting the tags gives back the untagged run.  So every theorem above applies to
occurrences; `complete_occ` and `same_group_iff_occ` spell this out. -/

/-- the tagged run satisfies the hypotheses and projects onto the untagged run -/
theorem tagged_run (L : ops.Lawful cls) {iters : List (List κ)}
    (hs : SortedInputs ops iters) (hc : ClosedInputs ops iters) {fuel : Nat}
    (hf : totalLen' iters + 1 ≤ fuel) :
    (tagInputs iters).flatten.Nodup ∧
    (ops.comap Prod.fst).Lawful (fun x : κ × Nat × Nat => cls x.1) ∧
    SortedInputs (ops.comap Prod.fst) (tagInputs iters) ∧
    ClosedInputs (ops.comap Prod.fst) (tagInputs iters) ∧
    totalLen' (tagInputs iters) + 1 ≤ fuel ∧
    (ovAll (ops.comap Prod.fst) fuel (tagInputs iters)).map (List.map (List.map Prod.fst)) =
      ovAll ops fuel iters := by
  refine ⟨tagInputs_nodup iters, L.comap Prod.fst, ?_, ?_, ?_, ?_⟩
  · exact SortedInputs.comap (by rw [tagInputs_map_fst]; exact hs)
  · exact ClosedInputs.comap (by rw [tagInputs_map_fst]; exact hc)
  · have := totalLen_map (Prod.fst : κ × Nat × Nat → κ) (tagInputs iters)
    rw [tagInputs_map_fst] at this
    omega
  · rw [← ovAll_map, tagInputs_map_fst]

/-- Two occurrences `(i,p)`, `(j,q)` whose items overlap lie in the same group of the tagged run
    (whose projection is the untagged run, by `tagged_run`). -/
theorem complete_occ (L : ops.Lawful cls) {iters : List (List κ)}
    (hs : SortedInputs ops iters) (hc : ClosedInputs ops iters) {fuel : Nat}
    (hf : totalLen' iters + 1 ≤ fuel) {i p j q : Nat}
    (hi : i < iters.length) (hp : p < iters[i].length)
    (hj : j < iters.length) (hq : q < iters[j].length)
    (hov : Overlap ops cls iters[i][p] iters[j][q]) :
    ∃ g ∈ ovAll (ops.comap Prod.fst) fuel (tagInputs iters),
      (iters[i][p], i, p) ∈ g.flatten ∧ (iters[j][q], j, q) ∈ g.flatten := by
  obtain ⟨_, L', hs', hc', hf', _⟩ := tagged_run L hs hc hf
  exact complete L' hs' hc' hf' (mem_tagInputs.2 ⟨hi, hp, rfl⟩) (mem_tagInputs.2 ⟨hj, hq, rfl⟩) hov

/-- Two occurrences share a group iff a chain of overlapping occurrences links them. -/
theorem same_group_iff_occ (L : ops.Lawful cls) {iters : List (List κ)}
    (hs : SortedInputs ops iters) (hc : ClosedInputs ops iters) {fuel : Nat}
    (hf : totalLen' iters + 1 ≤ fuel) {x y : κ × Nat × Nat} :
    (∃ g ∈ ovAll (ops.comap Prod.fst) fuel (tagInputs iters), x ∈ g.flatten ∧ y ∈ g.flatten) ↔
      Linked (ops.comap Prod.fst) (fun z : κ × Nat × Nat => cls z.1)
        (· ∈ (tagInputs iters).flatten) x y := by
  obtain ⟨_, L', hs', hc', hf', _⟩ := tagged_run L hs hc hf
  exact same_group_iff L' hs' hc' hf'

/-! ### non-vacuity -/

/-- keys `(class, start, stop)` ordered lexicographically -/
def exOps : OvOps (Nat × Int × Int) where
  lt a b := decide (a.1 < b.1) || (decide (a.1 = b.1) &&
    (decide (a.2.1 < b.2.1) || (decide (a.2.1 = b.2.1) && decide (a.2.2 < b.2.2))))
  same a b := decide (a.1 = b.1)
  start k := k.2.1
  stop k := k.2.2

theorem exOps_lawful : exOps.Lawful (fun k : Nat × Int × Int => k.1) where
  same_iff := by intro a b; simp [exOps]
  lt_iff := by intro a b; simp [exOps]

def exIters : List (List (Nat × Int × Int)) :=
  [[(0, 1, 10), (0, 15, 15), (0, 30, 40)], [(0, 5, 25), (0, 50, 60)]]

theorem exIters_sorted : SortedInputs exOps exIters := by
  unfold SortedInputs exIters; decide

theorem exIters_closed : ClosedInputs exOps exIters := by
  unfold ClosedInputs AllItems exIters OvOps.Closed; decide

/-- the concrete run: three groups, the first one chained through `(0,5,25)` -/
example : ovAll exOps (totalLen' exIters + 1) exIters =
    [[[(0, 1, 10), (0, 15, 15)], [(0, 5, 25)]],
     [[(0, 30, 40)], []],
     [[], [(0, 50, 60)]]] := by decide

/-- all hypotheses of the theorems above are met by the concrete configuration -/
example : exOps.Lawful (fun k : Nat × Int × Int => k.1) ∧ SortedInputs exOps exIters ∧
    ClosedInputs exOps exIters ∧ totalLen' exIters + 1 ≤ 6 :=
  ⟨exOps_lawful, exIters_sorted, exIters_closed, by decide⟩

/-- instance of `sound`/`complete`: `(0,1,10)` and `(0,15,15)` do not overlap directly but share
    the first group, being linked through `(0,5,25)` -/
example : ∃ g ∈ ovAll exOps 6 exIters, (0, 1, 10) ∈ g.flatten ∧ (0, 15, 15) ∈ g.flatten :=
  (same_group_iff exOps_lawful exIters_sorted exIters_closed (by decide)).2
    (.tail (b := (0, 5, 25))
      (.tail (b := (0, 1, 10)) (.refl (by decide)) (by decide) (by unfold Overlap exOps; decide))
      (by decide) (by unfold Overlap exOps; decide))

/-! the theorems instantiated at the concrete configuration -/

example : ∀ i (hi : i < exIters.length),
    ((ovAll exOps 6 exIters).map (fun g => g.getD i [])).flatten = exIters[i] :=
  partition exOps_lawful exIters_sorted exIters_closed (by decide)

example : ∀ g ∈ ovAll exOps 6 exIters, ∃ s ∈ g, s ≠ [] :=
  nonempty exOps_lawful exIters_sorted exIters_closed (by decide)

example : ∀ g ∈ ovAll exOps 6 exIters, ∀ a ∈ g.flatten, ∀ b ∈ g.flatten,
    Linked exOps (fun k => k.1) (· ∈ g.flatten) a b :=
  sound exOps_lawful exIters_sorted exIters_closed (by decide)

example : (ovAll exOps 6 exIters).Pairwise
    (fun g1 g2 => ∀ a ∈ g1.flatten, ∀ b ∈ g2.flatten, Before exOps (fun k => k.1) a b) :=
  separated exOps_lawful exIters_sorted exIters_closed (by decide)

/-- occurrences `(0,0)` = `(0,1,10)` and `(1,0)` = `(0,5,25)` overlap, hence share a group -/
example : ∃ g ∈ ovAll (exOps.comap Prod.fst) 6 (tagInputs exIters),
    ((0, 1, 10), 0, 0) ∈ g.flatten ∧ ((0, 5, 25), 1, 0) ∈ g.flatten :=
  complete_occ (i := 0) (p := 0) (j := 1) (q := 0) exOps_lawful exIters_sorted exIters_closed
    (by decide) (by decide) (by decide) (by decide) (by decide)
    (by unfold Overlap exOps exIters; decide)

end C11
