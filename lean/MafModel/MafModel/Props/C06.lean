/-
  C06 — A Strict writer only ever emits lines that a Strict reader accepts.

  Operational model: `Model.Writer.write` (`writer += record`), which validates the record
  with `Model.Record.validate` (Strict, against the writer's scheme) and then either emits
  `str(record) + "\n"` or — when a sorter is configured — queues the record.

  1. `validate_ok_shape`      what a record that passes Strict validation looks like;
  2. `refused_no_bytes`       a refused record leaves the writer untouched (no bytes, nothing
                              queued), with the complete list of exceptions and their causes
                              (`refused_error_kinds`, `refused_only_format`, `unkeyable_refused`,
                              `bad_position_refused`: a position text that is not a number is a
                              `KeyError` from the sorter's key function, like a missing column);
  3. `emitted_line`           the line a direct writer emits: one rendering per scheme column,
                              each of a column valid for its position, each free of TAB/CR/LF;
  4. `emitted_line_accepted`  that line is accepted by `MafRecord.from_line` in Strict mode —
                              for columns of any subclass of the scheme's classes (the twin
                              check of `Column.schemeErrors`), for schemes whose classes are
                              column types of the development or the unrestricted
                              `MafColumnRecord` (`NoRestrictionsScheme`); built on
                              `valid_value_renders_accepted` (every column type of the
                              development, arbitrary valid values under `ValueWF`).  The former
                              counterexample (a nullable subclass holding `None` in a
                              non-nullable slot) is now refused: `nullable_subclass_refused`.

  5. `close_emits`            the sorting path: every line `close` emits went through the
                              sorter's Strict codec;
     `close_lines_accepted`   and is accepted by a Strict reader (schemes of column types of
                              the development); `sorted_writer_lines_accepted`: the same for a
                              writer fed by any sequence of `+=` from an empty queue.

  Helper lemmas: `Lemmas/WriterLemmas.lean`, `Lemmas/FromLineAccept.lean`,
  `Lemmas/CloseLemmas.lean`, `Lemmas/RenderValid.lean`.
-/
import MafModel.Lemmas.WriterLemmas
import MafModel.Lemmas.CloseLemmas
import MafModel.Props.C01Record
open Model Py Spec

namespace C06

/-- "column `c` is valid for position `i` of scheme `S`": it carries the `i`-th name, reports
    index `i`, its class derives from the `i`-th class of the scheme, its value passes the
    value check of its class, and its rendering (when rendering succeeds) has no TAB/CR/LF -/
def ValidAt (C : Ctx) (S : Scheme) (i : Nat) (c : Column) : Prop :=
  (∃ n cls, S.cols[i]? = some (n, cls) ∧ S.names[i]? = some n ∧ c.key = n.toList ∧
      isSubclass C c.cls cls = true)
  ∧ c.index = some (i : Int)
  ∧ c.valueInvalid C = false
  ∧ ∀ t, c.render C = .ok t → hasFieldSep t = false

theorem validAt_of (C : Ctx) (S : Scheme) (i : Nat) (c : Column) (h : ColValidAt C S i c) :
    ValidAt C S i c := by
  obtain ⟨n, cls, hp, hk, hsub⟩ := h.pos
  exact ⟨⟨n, cls, hp, by simp [Scheme.names, List.getElem?_map, hp], hk, hsub⟩,
    h.index, h.valid, h.framed⟩

/-! ### 1. the shape of a record that passes Strict validation -/

/-- **C06.1**  If `record.validate(Strict, reset_errors=True, scheme=S)` returns (does not
    raise) for a truthy scheme `S`, then no error was collected and nothing logged; the
    record has exactly `len(S)` slots, its two indexes are in sync, and every slot `i` holds a
    column valid for position `i`.  (Distinctness of the scheme's names is not needed.) -/
theorem validate_ok_shape (C : Ctx) (r : Record) (S : Scheme) (hS : S.truthy = true)
    (logs : List LogRec)
    (h : (r.validate C (some .strict) true (some S)).2 = .ok logs) :
    (r.validate C (some .strict) true (some S)).1.errors = [] ∧ logs = [] ∧
    r.slots.length = S.size ∧ r.syncErrors = [] ∧
    ∀ i, i < S.size → ∃ c, r.slots[i]? = some (some c) ∧ ValidAt C S i c.col := by
  obtain ⟨h1, h2, h3, h4, h5⟩ := Record.validate_strict_ok hS h
  refine ⟨h1, h2, h3, h4, fun i hi => ?_⟩
  obtain ⟨c, hc, hv⟩ := h5 i hi
  exact ⟨c, hc, validAt_of C S i c.col hv⟩

/-- in Strict mode `validate` raises nothing but the `MafFormatException` of a collected error -/
theorem validate_error_is_format (C : Ctx) (r : Record) (scheme : Option Scheme) (e : PyErr)
    (h : (r.validate C (some .strict) true scheme).2 = .error e) :
    ∃ x ∈ (r.validate C (some .strict) true scheme).1.errors, e = .format x.tpe x.line :=
  Record.validate_strict_error h

/-! ### 2. a refused record contributes no bytes -/

/-- **C06.2**  A Strict writer whose scheme is set: whenever `writer += record` raises, the
    writer is exactly as before — in particular no `write` call was made and nothing was
    queued, with or without sorting. -/
theorem refused_no_bytes (C : Ctx) (K : HConsts) (w : Writer) (r : Record) (S : Scheme) (e : PyErr)
    (hs : w.scheme = some S) (hS : S.truthy = true) (hm : w.mode = .strict)
    (h : (w.write C K r).2 = .error e) :
    (w.write C K r).1 = w ∧ (w.write C K r).1.out = w.out ∧ (w.write C K r).1.queued = w.queued := by
  have := (Writer.write_error hs hS hm h).1
  exact ⟨this, by rw [this], by rw [this]⟩

/-- **C06.2, which exceptions and when.**  The exception is
    * the `MafFormatException` of the first validation error of the record, or
    * — the record validated — when sorting: the exception of the sorter's key function on
      the record, which is a `KeyError` (a coordinate column is missing or a position is a text
      that is not a number) or a `ValueError` (chromosome not in the contig list,
      `refused_valueError_contigs`), or
    * — the record validated (and could be keyed) — the failure of `str(record)`. -/
theorem refused_error_kinds (C : Ctx) (K : HConsts) (w : Writer) (r : Record) (S : Scheme) (e : PyErr)
    (hs : w.scheme = some S) (hS : S.truthy = true) (hm : w.mode = .strict)
    (h : (w.write C K r).2 = .error e) :
    (∃ x ∈ (r.validate C (some .strict) true (some S)).1.errors, e = .format x.tpe x.line) ∨
    ((r.validate C (some .strict) true (some S)).2 = .ok [] ∧
      ((w.sorting = true ∧ w.keyOf K r = .error e ∧ (e = .key ∨ e = .value)) ∨
       r.render C = .error e)) := by
  rcases (Writer.write_error hs hS hm h).2 with h1 | ⟨h1, h2 | h2⟩
  · exact Or.inl h1
  · exact Or.inr ⟨h1, Or.inl ⟨h2.1, h2.2, Writer.keyOf_error_kinds h2.2⟩⟩
  · exact Or.inr ⟨h1, Or.inr h2⟩

/-- a record lacking one of `Chromosome` / `Start_Position` / `End_Position` cannot be keyed
    (`KeyError`, or `ValueError` when its chromosome is not in the contig list): a sorting
    Strict writer refuses it even if it validates, and is left untouched -/
theorem unkeyable_refused (C : Ctx) (K : HConsts) (w : Writer) (r : Record) (S : Scheme)
    (hs : w.scheme = some S) (hS : S.truthy = true) (hm : w.mode = .strict)
    (hsort : w.sorting = true) (hc : r.toLoc.hasCoords = false) :
    ∃ e, (w.write C K r).2 = .error e ∧ (w.write C K r).1 = w := by
  obtain ⟨ek, hk, _⟩ := Writer.keyOf_no_coords (K := K) (w := w) hc
  cases hres : (w.write C K r).2 with
  | error e => exact ⟨e, rfl, (Writer.write_error hs hS hm hres).1⟩
  | ok u =>
    have hw : w.write C K r = ((w.write C K r).1, .ok ()) := by
      rw [← hres]
    obtain ⟨_, _, ⟨k, hk'⟩, _⟩ := Writer.write_ok_sorting hs hS hm hsort hw
    rw [hk] at hk'; cases hk'

/-- a record that HAS its coordinate columns, with a chromosome the sorter can key, but whose
    `Start_Position` or `End_Position` is a text that is not a number, cannot be keyed either:
    a sorting Strict writer refuses it — once it validates — with `KeyError` (not `ValueError`),
    and is left untouched -/
theorem bad_position_refused (C : Ctx) (K : HConsts) (w : Writer) (r : Record) (S : Scheme)
    (hs : w.scheme = some S) (hS : S.truthy = true) (hm : w.mode = .strict)
    (hsort : w.sorting = true) {lg : List LogRec}
    (hval : (r.validate C (some .strict) true (some S)).2 = .ok lg)
    (h0 : r.toLoc.hasCoords = true) (hc : r.toLoc.chrOk (w.header.sortOrder K).2)
    (hp : r.toLoc.start.posOk = false ∨ r.toLoc.stop.posOk = false) :
    w.write C K r = (w, .error .key) := by
  rw [Writer.write_of_scheme C K w r hs hS, hm]
  have hkey := Writer.keyOf_validate C K w r (some .strict) true (some S)
  rw [Writer.keyOf_bad_position h0 hc hp] at hkey
  generalize r.validate C (some .strict) true (some S) = V at hval hkey
  rcases V with ⟨r', (e | l)⟩
  · cases hval
  · simp only at hkey ⊢
    simp only [hsort, if_true, hkey]

/-- the `ValueError` a sorting writer can raise from the key function is the missing-contig error
    (the header gives a contig list without the record's chromosome) — never a bad position -/
theorem refused_valueError_contigs (K : HConsts) (w : Writer) (r : Record)
    (h : w.keyOf K r = .error .value) :
    (w.header.sortOrder K).2 ≠ [] ∧
    (r.toLoc.hasCoords = true →
      ∀ s, r.toLoc.chrName = some s → s ∉ (w.header.sortOrder K).2) :=
  Writer.keyOf_valueError h

/-- **C06.2, the `MafFormatException` case.**  When the record's columns are of column types
    of the development and carry well-formed values, `str(record)` of a validated record does
    not fail; so for a direct writer, or a sorting one on a record that can be keyed, the only
    exception is `MafFormatException`. -/
theorem refused_only_format (C : Ctx) (K : HConsts) (w : Writer) (r : Record) (S : Scheme) (e : PyErr)
    (hs : w.scheme = some S) (hS : S.truthy = true) (hm : w.mode = .strict)
    (hE : Render.EnumsOK C.enums)
    (htyped : ∀ c, some c ∈ r.slots → ClassTyped C c.col.cls)
    (hwf : ∀ c, some c ∈ r.slots → RenderValid.ValueWF C c.col.value)
    (hkey : w.sorting = false ∨ ∃ k, w.keyOf K r = .ok k)
    (h : (w.write C K r).2 = .error e) :
    ∃ tpe line, e = .format tpe line := by
  rcases refused_error_kinds C K w r S e hs hS hm h with ⟨x, _, hx⟩ | ⟨hok, h2 | h2⟩
  · exact ⟨_, _, hx⟩
  · rcases hkey with hk | ⟨k, hk⟩
    · rw [hk] at h2; cases h2.1
    · rw [hk] at h2; cases h2.2.1
  · obtain ⟨t, ht⟩ := Record.render_ok_of_validated hS hE htyped hwf hok
    rw [ht] at h2; cases h2

/-! ### 3. the emitted line -/

/-- **C06.3**  A direct (non-sorting) Strict writer with truthy scheme `S`: an accepted record
    adds exactly one `write` call, `line + "\n"`, where `line` is the TAB-join of `len(S)`
    fields and field `i` is the rendering of the column in slot `i`, which is valid for
    position `i` and free of TAB / CR / LF.  Nothing else of the writer changes. -/
theorem emitted_line (C : Ctx) (K : HConsts) (w w' : Writer) (r : Record) (S : Scheme)
    (hs : w.scheme = some S) (hS : S.truthy = true) (hm : w.mode = .strict)
    (hsort : w.sorting = false) (h : w.write C K r = (w', .ok ())) :
    ∃ fields : List Text,
      w'.out = w.out ++ [joinWith '\t' fields ++ ['\n']] ∧
      w' = { w with out := w.out ++ [joinWith '\t' fields ++ ['\n']] } ∧
      fields.length = S.size ∧
      ∀ i, i < S.size → ∃ c f, r.slots[i]? = some (some c) ∧ fields[i]? = some f ∧
        ValidAt C S i c.col ∧ c.col.render C = .ok f ∧
        (∀ ch ∈ f, ch ≠ '\t' ∧ ch ≠ '\n' ∧ ch ≠ '\r') := by
  obtain ⟨fields, hw', hlen, _, hcols⟩ := Writer.write_ok_direct hs hS hm hsort h
  refine ⟨fields, by rw [hw'], hw', hlen, fun i hi => ?_⟩
  obtain ⟨c, f, hc, hf, hv, hr, hsep⟩ := hcols i hi
  exact ⟨c, f, hc, hf, validAt_of C S i c.col hv, hr, hasFieldSep_eq_false.1 hsep⟩

/-- when sorting, an accepted record is queued and nothing is written by `+=` -/
theorem queued_not_written (C : Ctx) (K : HConsts) (w w' : Writer) (r : Record) (S : Scheme)
    (hs : w.scheme = some S) (hS : S.truthy = true) (hm : w.mode = .strict)
    (hsort : w.sorting = true) (h : w.write C K r = (w', .ok ())) :
    w'.out = w.out ∧ w'.queued.length = w.queued.length + 1 := by
  obtain ⟨h1, h2, _⟩ := Writer.write_ok_sorting hs hS hm hsort h
  exact ⟨h1, by rw [h2]; simp⟩

/-! ### 4. the emitted line is accepted by a Strict reader -/

/-- well-formedness of a value as a Python object (`RenderValid.ValueWF`): every `float` is
    a `repr` the float host reads back as itself, every enum member exists in the table of
    its class, every UUID is below `2^128` (scalars, or all elements of a list / tuple) -/
abbrev ValueWF := RenderValid.ValueWF

/-- **a value that validates renders to a text in the column's domain** — every column type
    of the development (the 40 named types and the `RequireNullValue` redefinitions), for
    arbitrary values.  The known exceptions to *value* round-tripping (`""` in a
    `NullableStringColumn`, `[Null]` in a list of yes/no) are still *accepted*. -/
theorem valid_value_renders_accepted (C : Ctx) (hE : Render.EnumsOK C.enums) (ty : ColType)
    (sp : ColSpec) (h : Builtin.expectedOf ty = some sp) (v : PyVal)
    (hv : sp.valueInvalid v = false) (hwf : ValueWF C v) :
    ∃ t, sp.render C.enums v = .ok t ∧ (sp.accept C false t).isSome = true
      ∧ inDomain ⟨C.enums, C.H⟩ ty t = true := by
  obtain ⟨t, hr, ha⟩ := RenderValid.valid_render_accepted C hE ty sp h v hv hwf
  exact ⟨t, hr, ha, by rw [inDomain, ← Builtin.field_accept C ty sp t h]; exact ha⟩

/-- the hypotheses on the scheme: those of the record-level theorems of C01 (distinct names,
    at least one column, every class resolves and inherits `MafCustomColumnRecord.build`)
    and every class is (resolves to the record of) a column type of the development -/
structure SchemeHyp (C : Ctx) (S : Scheme) : Prop where
  ok : SchemeOK C S
  typed : ∀ p ∈ S.cols, ClassTyped C p.2

/-- `MafColumnRecord`, if the class table has it, is the plain base class: it does not
    inherit the custom `build` (this is `Model.PlainBase` of the reader lemmas; it holds for the
    generated class table, see `baseIsPlain_demo`) -/
def BaseIsPlain (C : Ctx) : Prop :=
  ∀ sp, resolveSpec C.tbl "MafColumnRecord" = some sp → sp.buildMethod = some "MafColumnRecord"

/-- the hypotheses on the scheme, general form: distinct names, at least one column, every
    class resolves and is a subclass of itself, and every class is either a column type of the
    development (inheriting `MafCustomColumnRecord.build`) or the unrestricted base class
    `MafColumnRecord` (inheriting neither the custom `build` nor the custom `validate`) — as in
    `NoRestrictionsScheme`.  Mixtures are allowed. -/
structure SchemeHypGen (C : Ctx) (S : Scheme) : Prop where
  ok : SchemeOKGen C S
  typed : ∀ p ∈ S.cols, p.2 ≠ "MafColumnRecord" → ClassTyped C p.2

/-- `SchemeHyp` is the special case without `MafColumnRecord` columns -/
theorem SchemeHyp.gen {C : Ctx} {S : Scheme} (h : SchemeHyp C S) (hb : BaseIsPlain C) :
    SchemeHypGen C S where
  ok := by
    refine h.ok.gen ?_
    intro p hp heq
    obtain ⟨sp, hsp, hbm, _⟩ := h.ok.cls_ok p hp
    rw [heq] at hsp
    have := hb sp hsp
    rw [hbm] at this
    exact absurd this (by decide)
  typed := fun p hp _ => h.typed p hp

/-- a decidable check of `SchemeHypGen.ok` (for concrete schemes: `decide +kernel`) -/
def hypGenCheck (C : Ctx) (S : Scheme) : Bool :=
  decide (S.names.Nodup) && decide (S.size > 0) &&
    S.cols.all (fun p => match resolveSpec C.tbl p.2 with
      | some sp => isSubclass C p.2 p.2 &&
          ((p.2 != "MafColumnRecord" && sp.buildMethod == some "MafCustomColumnRecord") ||
           (p.2 == "MafColumnRecord" && sp.buildMethod == some "MafColumnRecord" &&
              sp.validateMethod != some "MafCustomColumnRecord"))
      | none => false)

theorem schemeOKGen_of_check (C : Ctx) (S : Scheme) (h : hypGenCheck C S = true) :
    SchemeOKGen C S := by
  simp only [hypGenCheck, Bool.and_eq_true, decide_eq_true_eq, List.all_eq_true] at h
  obtain ⟨⟨h1, h2⟩, h3⟩ := h
  refine ⟨h1, h2, ?_⟩
  intro p hp
  have := h3 p hp
  cases hr : resolveSpec C.tbl p.2 with
  | none => simp [hr] at this
  | some sp =>
    simp only [hr, Bool.and_eq_true, Bool.or_eq_true, beq_iff_eq, bne_iff_ne, ne_eq] at this
    refine ⟨sp, rfl, this.1, ?_⟩
    rcases this.2 with h | h
    · exact Or.inl h
    · exact Or.inr ⟨h.1.1, h.1.2, h.2⟩

/-- **C06.4 — the emitted line is accepted by a Strict reader.**  The line a direct Strict
    writer emits — with or without its line terminator — is accepted by `MafRecord.from_line`
    in Strict mode against the same scheme: it returns a record without any error and logs
    nothing.  The columns of the record may be of ANY subclass of the scheme's classes (that
    is what `validate` checks, together with the twin condition: a column of a proper subclass
    must also be valid, with the same text, as an instance of the scheme's class); nothing is
    assumed about their classes beyond what validation established.  Hypotheses: the scheme
    (`SchemeHypGen`), the enum tables (`EnumsOK`), well-formed values (`ValueWF`). -/
theorem emitted_line_accepted (C : Ctx) (K : HConsts) (w w' : Writer) (r : Record)
    (S : Scheme) (lineNo : Option Nat)
    (hSch : SchemeHypGen C S) (hE : Render.EnumsOK C.enums)
    (hs : w.scheme = some S) (hm : w.mode = .strict) (hsort : w.sorting = false)
    (hwf : ∀ c, some c ∈ r.slots → ValueWF C c.col.value)
    (h : w.write C K r = (w', .ok ())) :
    ∃ line : Text, w'.out = w.out ++ [line ++ ['\n']] ∧
      (∃ r', Record.fromLine C (line ++ ['\n']) none (some S) lineNo (some .strict) = .ok (r', [])
          ∧ r'.errors = []) ∧
      (∃ r', Record.fromLine C line none (some S) lineNo (some .strict) = .ok (r', [])
          ∧ r'.errors = []) :=
  Writer.emitted_accepted_gen hSch.ok hE hSch.typed hs hm hsort hwf h lineNo

/-- The property C06.4 as it was stated before the twin check existed (columns of any subclass
    of the scheme's classes, scheme classes = column types of the development), with one added
    hypothesis: `BaseIsPlain C` — the class *named* `MafColumnRecord`, for which
    `Column.schemeErrors` skips the twin check, is the plain base class and therefore not one
    of the scheme's (custom) classes.  Now a theorem: `emitted_line_accepted_statement_holds`.
    (The hypothesis on the classes of the record's columns is not needed any more.) -/
def emitted_line_accepted_statement : Prop :=
  ∀ (C : Ctx) (K : HConsts) (w w' : Writer) (r : Record) (S : Scheme) (lineNo : Option Nat),
    SchemeHyp C S → BaseIsPlain C → Render.EnumsOK C.enums →
    (∀ c, some c ∈ r.slots → ClassTyped C c.col.cls) →
    w.scheme = some S → w.mode = .strict → w.sorting = false →
    (∀ c, some c ∈ r.slots → ValueWF C c.col.value) →
    w.write C K r = (w', .ok ()) →
    ∃ line : Text, w'.out = w.out ++ [line ++ ['\n']] ∧
      ∃ r', Record.fromLine C (line ++ ['\n']) none (some S) lineNo (some .strict) = .ok (r', [])
        ∧ r'.errors = []

theorem emitted_line_accepted_statement_holds : emitted_line_accepted_statement := by
  intro C K w w' r S lineNo hSch hb hE _ hs hm hsort hwf h
  obtain ⟨line, h1, h2, _⟩ := emitted_line_accepted C K w w' r S lineNo (hSch.gen hb) hE hs hm hsort hwf h
  exact ⟨line, h1, h2⟩

/-- the special case of columns exactly of the scheme's classes (no hypothesis on the class
    named `MafColumnRecord` is needed then); superseded by `emitted_line_accepted` -/
theorem emitted_line_accepted_partial (C : Ctx) (K : HConsts) (w w' : Writer) (r : Record)
    (S : Scheme) (lineNo : Option Nat)
    (hSch : SchemeHyp C S) (hE : Render.EnumsOK C.enums)
    (hs : w.scheme = some S) (hm : w.mode = .strict) (hsort : w.sorting = false)
    (hexact : ∀ (i : Nat) (c : RCol) (p : String × String),
      r.slots[i]? = some (some c) → S.cols[i]? = some p → c.col.cls = p.2)
    (hwf : ∀ c, some c ∈ r.slots → ValueWF C c.col.value)
    (h : w.write C K r = (w', .ok ())) :
    ∃ line : Text, w'.out = w.out ++ [line ++ ['\n']] ∧
      (∃ r', Record.fromLine C (line ++ ['\n']) none (some S) lineNo (some .strict) = .ok (r', [])
          ∧ r'.errors = []) ∧
      (∃ r', Record.fromLine C line none (some S) lineNo (some .strict) = .ok (r', [])
          ∧ r'.errors = []) :=
  Writer.emitted_accepted hSch.ok hE hSch.typed hs hm hsort hexact hwf h lineNo

/-- the reader-side statement on its own: any line made of `len(S)` TAB/CR/LF-free fields,
    each accepted by the class of its column, is accepted by a Strict `from_line` -/
theorem clean_accepted_fields_accepted (C : Ctx) (S : Scheme) (hS : SchemeOK C S)
    (fields : List Text) (hlen : fields.length = S.size)
    (hclean : ∀ f ∈ fields, ∀ ch ∈ f, ch ≠ '\t' ∧ ch ≠ '\n' ∧ ch ≠ '\r')
    (hall : ∀ (i : Nat) (n cls : String) (sp : ColSpec) (f : Text),
      S.cols[i]? = some (n, cls) → resolveSpec C.tbl cls = some sp → fields[i]? = some f →
      (sp.accept C false f).isSome = true)
    (lineNo : Option Nat) :
    ∃ r', Record.fromLine C (joinWith '\t' fields ++ ['\n']) none (some S) lineNo (some .strict)
        = .ok (r', []) ∧ r'.errors = [] := by
  obtain ⟨r', h1, h2, _⟩ := fromLine_strict_accepts hS fields hlen
    (fun f hf => hasFieldSep_eq_false.2 (hclean f hf)) hall lineNo ['\n'] (Or.inr (Or.inl rfl))
  exact ⟨r', h1, h2⟩

/-- the same for the general form of the scheme hypotheses (`MafColumnRecord` columns accept
    every text: `plainOk`) -/
theorem clean_accepted_fields_accepted_gen (C : Ctx) (S : Scheme) (hS : SchemeOKGen C S)
    (fields : List Text) (hlen : fields.length = S.size)
    (hclean : ∀ f ∈ fields, ∀ ch ∈ f, ch ≠ '\t' ∧ ch ≠ '\n' ∧ ch ≠ '\r')
    (hall : ∀ (i : Nat) (n cls : String) (sp : ColSpec) (f : Text),
      S.cols[i]? = some (n, cls) → resolveSpec C.tbl cls = some sp → fields[i]? = some f →
      (sp.accept C (plainOk cls) f).isSome = true)
    (lineNo : Option Nat) :
    ∃ r', Record.fromLine C (joinWith '\t' fields ++ ['\n']) none (some S) lineNo (some .strict)
        = .ok (r', []) ∧ r'.errors = [] := by
  obtain ⟨r', h1, h2, _⟩ := fromLine_strict_accepts_gen hS fields hlen hclean hall lineNo ['\n']
    (Or.inr (Or.inl rfl))
  exact ⟨r', h1, h2⟩

/-! ### the sorting path: what `close` emits -/

/-- the column names the sorter's codec uses: the keys of the first queued record -/
def codecNames (w : Writer) : Option (List Text) :=
  w.queued.head?.map (fun r =>
    r.keys.map (fun k => match k with | some t => t | none => "\x00<None>".toList))

/-- **`close`.**  A non-sorting writer emits nothing at `close`.  A sorting writer appends
    lines to the handle, each of which went through the sorter's codec: the queued record is
    rendered, the rendering is re-read by `from_line` *in Strict mode* (against the writer's
    scheme — a failure aborts `close`), and the record read is rendered and emitted.  The
    emitted records are, in order, a prefix (all of them when `close` succeeds) of a
    permutation of the queued records that could be keyed. -/
theorem close_emits (C : Ctx) (K : HConsts) (w : Writer) :
    (w.sorting = false → w.close C K = (w, .ok ())) ∧
    (w.sorting = true →
      ∃ (items : List (Key × Record)) (lines : List Text),
        (w.close C K).1.out = w.out ++ lines ∧
        items.Perm (w.queued.filterMap (fun r => match w.keyOf K r with
          | .ok k => some (k, r) | .error _ => none)) ∧
        List.Forall₂ (fun (kr : Key × Record) l => EmittedFor C w.scheme (codecNames w) kr.2 l)
          (items.take lines.length) lines ∧
        ((w.close C K).2 = .ok () → lines.length = items.length)) :=
  Writer.close_spec C K w

/-- The sorting counterpart of C06.4: every line `close` emits is accepted by a Strict reader.
    Proved below (`close_lines_accepted`). -/
def close_lines_accepted_statement : Prop :=
  ∀ (C : Ctx) (K : HConsts) (w : Writer) (S : Scheme) (lines : List Text) (lineNo : Option Nat),
    SchemeHyp C S → Render.FloatHost.Lawful' C.H → Render.EnumsOK C.enums →
    w.scheme = some S → w.mode = .strict → w.sorting = true →
    (∀ r ∈ w.queued, (r.validate C (some .strict) true (some S)).2 = .ok []) →
    (w.close C K).1.out = w.out ++ lines →
    ∀ l ∈ lines, ∃ r', Record.fromLine C l none (some S) lineNo (some .strict) = .ok (r', []) ∧
      r'.errors = []

/-- **C06.5 — every line `close` emits is accepted by a Strict reader.**  For a sorting Strict
    writer whose queued records all passed Strict validation against the scheme (that is how
    `+=` queues them: `queue_validated`).  Each emitted line is the rendering of a record the
    sorter's codec read back in Strict mode, so its values come from parsing and the fixpoint
    lemmas of C04 apply field by field (hence the float-host laws; no `ValueWF` is needed, and
    the queued records may hold columns of proper subclasses).  Schemes: column types of the
    development (`SchemeHyp`). -/
theorem close_lines_accepted : close_lines_accepted_statement := by
  intro C K w S lines lineNo hSch hH hE hs _ hsort hq hout
  exact Writer.close_lines_accepted hSch.ok hSch.typed hH hE hs hsort
    (fun r hr => ⟨[], hq r hr⟩) hout lineNo

/-- `writer += record` keeps the scheme, the stringency and the sorter, and only ever queues
    records that pass Strict validation against the scheme -/
theorem queue_validated (C : Ctx) (K : HConsts) (w : Writer) (S : Scheme) (r : Record)
    (hs : w.scheme = some S) (hS : S.truthy = true) (hm : w.mode = .strict)
    (hq : ∀ q ∈ w.queued, (q.validate C (some .strict) true (some S)).2 = .ok []) :
    (w.write C K r).1.scheme = some S ∧ (w.write C K r).1.mode = .strict ∧
    (w.write C K r).1.sorting = w.sorting ∧
    ∀ q ∈ (w.write C K r).1.queued, (q.validate C (some .strict) true (some S)).2 = .ok [] := by
  obtain ⟨h1, h2, h3, h4⟩ := Writer.write_queue_validated (C := C) (K := K) r hs hS hm
    (fun q hq' => ⟨[], hq q hq'⟩)
  refine ⟨h1, h2, h3, ?_⟩
  intro q hq'
  obtain ⟨logs, hl⟩ := h4 q hq'
  have := (validate_ok_shape C q S hS logs hl).2.1
  rw [this] at hl
  exact hl

/-- `writer += r₁; writer += r₂; …` (a refused record raises and leaves the writer as it was) -/
def writeAll (C : Ctx) (K : HConsts) (w : Writer) : List Record → Writer
  | [] => w
  | r :: rs => writeAll C K (w.write C K r).1 rs

/-- **C06.5, end to end.**  A sorting Strict writer with scheme `S` and nothing queued is fed
    any records whatsoever by `+=` (some accepted, some refused), then closed: every line the
    handle receives at `close` is accepted by a Strict reader. -/
theorem sorted_writer_lines_accepted (C : Ctx) (K : HConsts) (w : Writer) (S : Scheme)
    (rs : List Record) (lines : List Text) (lineNo : Option Nat)
    (hSch : SchemeHyp C S) (hH : Render.FloatHost.Lawful' C.H) (hE : Render.EnumsOK C.enums)
    (hs : w.scheme = some S) (hm : w.mode = .strict) (hsort : w.sorting = true)
    (hq : w.queued = [])
    (hout : ((writeAll C K w rs).close C K).1.out = (writeAll C K w rs).out ++ lines) :
    ∀ l ∈ lines, ∃ r', Record.fromLine C l none (some S) lineNo (some .strict) = .ok (r', []) ∧
      r'.errors = [] := by
  have hS : S.truthy = true := by simp [Scheme.truthy, hSch.ok.pos]
  have key : ∀ (rs : List Record) (w : Writer), w.scheme = some S → w.mode = .strict →
      w.sorting = true →
      (∀ q ∈ w.queued, (q.validate C (some .strict) true (some S)).2 = .ok []) →
      (writeAll C K w rs).scheme = some S ∧ (writeAll C K w rs).mode = .strict ∧
      (writeAll C K w rs).sorting = true ∧
      ∀ q ∈ (writeAll C K w rs).queued, (q.validate C (some .strict) true (some S)).2 = .ok [] := by
    intro rs
    induction rs with
    | nil => intro w h1 h2 h3 h4; exact ⟨h1, h2, h3, h4⟩
    | cons r rs ih =>
      intro w h1 h2 h3 h4
      obtain ⟨g1, g2, g3, g4⟩ := queue_validated C K w S r h1 hS h2 h4
      exact ih _ g1 g2 (g3.trans h3) g4
  obtain ⟨g1, g2, g3, g4⟩ := key rs w hs hm hsort (by rw [hq]; intro q hq'; cases hq')
  exact close_lines_accepted C K _ S lines lineNo hSch hH hE g1 g2 g3 g4 hout

/-! ### non-vacuity: a concrete writer over the generated class table -/

def demoC : Ctx := C01Record.demoC
def demoS : Scheme := C01Record.demoS
def demoK : HConsts := default

def col0 : RCol := ⟨0, { cls := "StringColumn", key := "Hugo_Symbol".toList, value := .atom (.str "TP53".toList), index := some 0 }⟩
def col1 : RCol := ⟨1, { cls := "OneBasedIntegerColumn", key := "Start_Position".toList, value := .atom (.int 7), index := some 1 }⟩
def col2 : RCol := ⟨2, { cls := "Strand", key := "Strand".toList, value := .atom (.enum "StrandEnum" "Plus"), index := some 2 }⟩

/-- a coherent three-column record -/
def demoR : Record :=
  { dict := [("Hugo_Symbol".toList, col0), ("Start_Position".toList, col1), ("Strand".toList, col2)],
    slots := [some col0, some col1, some col2] }

/-- the same with a TAB inside the first value, and with a `bool` where an integer is due -/
def badR1 : Record :=
  let c : RCol := ⟨0, { col0.col with value := .atom (.str "TP\t53".toList) }⟩
  { dict := [("Hugo_Symbol".toList, c), ("Start_Position".toList, col1), ("Strand".toList, col2)],
    slots := [some c, some col1, some col2] }
def badR2 : Record :=
  let c : RCol := ⟨1, { col1.col with value := .atom (.bool true) }⟩
  { dict := [("Hugo_Symbol".toList, col0), ("Start_Position".toList, c), ("Strand".toList, col2)],
    slots := [some col0, some c, some col2] }

def demoW : Writer := { scheme := some demoS, mode := .strict }
def demoWs : Writer := { scheme := some demoS, mode := .strict, sorting := true, assumeSorted := false }

theorem demo_truthy : demoS.truthy = true := by decide

theorem demo_schemeHyp : SchemeHyp demoC demoS where
  ok := C01Record.demo_hyp
  typed := by
    intro p hp
    simp only [demoS, C01Record.demoS, List.mem_cons, List.mem_nil_iff, or_false] at hp
    rcases hp with rfl | rfl | rfl
    · exact ⟨.named "StringColumn", by decide +kernel⟩
    · exact ⟨.named "OneBasedIntegerColumn", by decide +kernel⟩
    · exact ⟨.named "Strand", by decide +kernel⟩

/-- 1.: the hypothesis of `validate_ok_shape` is met by `demoR` … -/
example : (demoR.validate demoC (some .strict) true (some demoS)).2 = .ok [] := by decide +kernel

/-- … and Strict validation refuses the two bad records (framing check; `bool` is no integer) -/
example : (badR1.validate demoC (some .strict) true (some demoS)).2
    = .error (.format "RECORD_COLUMN_WRONG_FORMAT" none) := by decide +kernel
example : (badR2.validate demoC (some .strict) true (some demoS)).2
    = .error (.format "RECORD_COLUMN_WRONG_FORMAT" none) := by decide +kernel

/-- 2.: the hypotheses of `refused_no_bytes` are met (direct writer, format error) … -/
example : (demoW.write demoC demoK badR1).2 = .error (.format "RECORD_COLUMN_WRONG_FORMAT" none) := by
  decide +kernel
example : (demoW.write demoC demoK badR1).1.out = [] :=
  (refused_no_bytes demoC demoK demoW badR1 demoS _ rfl demo_truthy rfl
    (by decide +kernel : (demoW.write demoC demoK badR1).2 = .error (.format "RECORD_COLUMN_WRONG_FORMAT" none))).2.1

/-- … and of `unkeyable_refused` (sorting writer, valid record without coordinates: `KeyError`) -/
example : demoR.toLoc.hasCoords = false := by decide +kernel
example : (demoWs.write demoC demoK demoR).2 = .error .key := by decide +kernel

/-- 3. and 4.: the direct writer accepts `demoR` and emits the expected line … -/
theorem demo_write_ok : (demoW.write demoC demoK demoR).2 = .ok () := by decide +kernel
theorem demo_write_out : (demoW.write demoC demoK demoR).1.out = ["TP53\t7\t+\n".toList] := by
  decide +kernel
theorem demo_write : demoW.write demoC demoK demoR = ((demoW.write demoC demoK demoR).1, .ok ()) :=
  Prod.ext rfl demo_write_ok

theorem baseIsPlain_demo : BaseIsPlain demoC := by
  intro sp hsp
  have : resolveSpec demoC.tbl "MafColumnRecord" = some sp := hsp
  have h2 : (resolveSpec demoC.tbl "MafColumnRecord").map (·.buildMethod) = some (some "MafColumnRecord") := by
    decide +kernel
  rw [this] at h2
  simpa using h2

theorem demo_wf : ∀ c, some c ∈ demoR.slots → ValueWF demoC c.col.value := by
  intro c hc
  simp only [demoR, List.mem_cons, Option.some.injEq, List.mem_nil_iff, or_false] at hc
  rcases hc with rfl | rfl | rfl
  · trivial
  · trivial
  · show (enumValue demoC.enums "StrandEnum" "Plus").isSome = true
    decide +kernel

/-- … and all hypotheses of `emitted_line_accepted` hold, so the line is read back -/
example : ∃ r', Record.fromLine demoC "TP53\t7\t+\n".toList none (some demoS) (some 5) (some .strict)
    = .ok (r', []) ∧ r'.errors = [] := by
  obtain ⟨line, hout, h1, _⟩ := emitted_line_accepted demoC demoK demoW _ demoR demoS (some 5)
    (demo_schemeHyp.gen baseIsPlain_demo) Render.enumsOK_generated rfl rfl rfl demo_wf demo_write
  rw [demo_write_out] at hout
  have hl : "TP53\t7\t+\n".toList = line ++ ['\n'] := by
    simpa [demoW] using hout
  rw [hl]
  exact h1

/-- … as do those of the special case `emitted_line_accepted_partial` -/
example : ∀ (i : Nat) (c : RCol) (p : String × String),
    demoR.slots[i]? = some (some c) → demoS.cols[i]? = some p → c.col.cls = p.2 := by
  intro i c p hc hp
  match i with
  | 0 => simp [demoR, demoS, C01Record.demoS] at hc hp; subst hc; subst hp; rfl
  | 1 => simp [demoR, demoS, C01Record.demoS] at hc hp; subst hc; subst hp; rfl
  | 2 => simp [demoR, demoS, C01Record.demoS] at hc hp; subst hc; subst hp; rfl
  | n + 3 => simp [demoR] at hc

/-! ### the former counterexample: a column of a nullable subclass is now refused -/

/-- a one-column scheme whose column is a (non-nullable) `IntegerColumn` -/
def cexS : Scheme := { version := "v", annotation := "a", cols := [("Score", "IntegerColumn")] }

/-- a record holding, in that slot, a `NullableIntegerColumn` (a subclass of `IntegerColumn`)
    with the null value `None` -/
def cexCol : RCol := ⟨0, { cls := "NullableIntegerColumn", key := "Score".toList, value := .atom .none, index := some 0 }⟩
def cexR : Record := { dict := [("Score".toList, cexCol)], slots := [some cexCol] }
def cexW : Writer := { scheme := some cexS, mode := .strict }

theorem cex_schemeHyp : SchemeHyp demoC cexS where
  ok := C01Record.hyp_of_check _ _ (by decide +kernel)
  typed := by
    intro p hp
    simp only [cexS, List.mem_cons, List.mem_nil_iff, or_false] at hp
    subst hp
    exact ⟨.named "IntegerColumn", by decide +kernel⟩

/-- **The former counterexample is refused (kernel-checked).**  `NullableIntegerColumn` derives
    from `IntegerColumn` and `None` is its null value, so the class check (`isinstance`) and the
    column's own value check pass; but the column's twin — an `IntegerColumn` holding `None` — is
    not valid, so Strict validation against the scheme reports `RECORD_COLUMN_WRONG_FORMAT`: the
    Strict writer raises and emits nothing.  (Before the twin check the writer emitted the line
    `"\n"`, which the Strict reader refuses — see the last conjunct.) -/
theorem nullable_subclass_refused :
    (cexR.validate demoC (some .strict) true (some cexS)).2
      = .error (.format "RECORD_COLUMN_WRONG_FORMAT" none) ∧
    (cexW.write demoC demoK cexR).2 = .error (.format "RECORD_COLUMN_WRONG_FORMAT" none) ∧
    (cexW.write demoC demoK cexR).1.out = [] ∧
    Record.fromLine demoC "\n".toList none (some cexS) (some 1) (some .strict)
      = .error (.format "RECORD_INVALID_COLUMN_VALUE" (some 1)) := by
  refine ⟨by decide +kernel, by decide +kernel, by decide +kernel, ?_⟩
  rw [fromLine_spec cex_schemeHyp.ok _ _ _ (by decide +kernel)]
  decide +kernel

/-! ### non-vacuity of the general case: a proper subclass, and an unrestricted scheme -/

/-- the same `NullableIntegerColumn` in the `IntegerColumn` slot, now holding the integer 5:
    its twin (an `IntegerColumn` holding 5) is valid and renders alike, so it is accepted … -/
def subCol : RCol := ⟨0, { cexCol.col with value := .atom (.int 5) }⟩
def subR : Record := { dict := [("Score".toList, subCol)], slots := [some subCol] }

theorem sub_write_ok : (cexW.write demoC demoK subR).2 = .ok () := by decide +kernel
theorem sub_write_out : (cexW.write demoC demoK subR).1.out = ["5\n".toList] := by decide +kernel
theorem sub_write : cexW.write demoC demoK subR = ((cexW.write demoC demoK subR).1, .ok ()) :=
  Prod.ext rfl sub_write_ok

/-- … the column is of a PROPER subclass of the scheme's class (outside the special case
    `emitted_line_accepted_partial`), and the emitted line is read back by the Strict reader -/
example : subCol.col.cls ≠ "IntegerColumn" ∧
    ∃ r', Record.fromLine demoC "5\n".toList none (some cexS) (some 1) (some .strict) = .ok (r', [])
      ∧ r'.errors = [] := by
  refine ⟨by decide, ?_⟩
  obtain ⟨line, hout, h1, _⟩ := emitted_line_accepted demoC demoK cexW _ subR cexS (some 1)
    (cex_schemeHyp.gen baseIsPlain_demo) Render.enumsOK_generated rfl rfl rfl
    (by
      intro c hc
      simp only [subR, List.mem_cons, Option.some.injEq, List.mem_nil_iff, or_false] at hc
      subst hc
      trivial)
    sub_write
  rw [sub_write_out] at hout
  have hl : "5\n".toList = line ++ ['\n'] := by simpa [cexW] using hout
  rw [hl]
  exact h1

/-- an unrestricted scheme (`NoRestrictionsScheme`): every column is a plain `MafColumnRecord` -/
def plainS : Scheme := noRestrictionsScheme ["Anything", "Other"]
def plainCol0 : RCol := ⟨0, { cls := "MafColumnRecord", key := "Anything".toList, value := .atom (.str "a b;c".toList), index := some 0 }⟩
def plainCol1 : RCol := ⟨1, { cls := "MafColumnRecord", key := "Other".toList, value := .atom (.str [] ), index := some 1 }⟩
def plainR : Record :=
  { dict := [("Anything".toList, plainCol0), ("Other".toList, plainCol1)],
    slots := [some plainCol0, some plainCol1] }
def plainW : Writer := { scheme := some plainS, mode := .strict }

theorem plain_schemeHyp : SchemeHypGen demoC plainS where
  ok := schemeOKGen_of_check _ _ (by decide +kernel)
  typed := by
    intro p hp hne
    have : p.2 = "MafColumnRecord" := by
      have hall : plainS.cols.all (fun p => p.2 == "MafColumnRecord") = true := by decide +kernel
      simpa using List.all_eq_true.1 hall p hp
    exact absurd this hne

theorem plain_write_ok : (plainW.write demoC demoK plainR).2 = .ok () := by decide +kernel
theorem plain_write_out : (plainW.write demoC demoK plainR).1.out = ["a b;c\t\n".toList] := by
  decide +kernel
theorem plain_write : plainW.write demoC demoK plainR = ((plainW.write demoC demoK plainR).1, .ok ()) :=
  Prod.ext rfl plain_write_ok

example : ∃ r', Record.fromLine demoC "a b;c\t\n".toList none (some plainS) (some 1) (some .strict)
    = .ok (r', []) ∧ r'.errors = [] := by
  obtain ⟨line, hout, h1, _⟩ := emitted_line_accepted demoC demoK plainW _ plainR plainS (some 1)
    plain_schemeHyp Render.enumsOK_generated rfl rfl rfl
    (by
      intro c hc
      simp only [plainR, List.mem_cons, Option.some.injEq, List.mem_nil_iff, or_false] at hc
      rcases hc with rfl | rfl <;> trivial)
    plain_write
  rw [plain_write_out] at hout
  have hl : "a b;c\t\n".toList = line ++ ['\n'] := by simpa [plainW] using hout
  rw [hl]
  exact h1

/-- non-vacuity of `bad_position_refused`: unrestricted scheme with the three coordinate columns,
    the start position `abc` is not a number; the record validates, has its coordinates, and the
    sorting Strict writer refuses it with `KeyError`, untouched -/
def posS : Scheme := noRestrictionsScheme ["Chromosome", "Start_Position", "End_Position"]
def posCol (i : Nat) (k v : String) : RCol :=
  ⟨i, { cls := "MafColumnRecord", key := k.toList, value := .atom (.str v.toList), index := some i }⟩
def posR : Record :=
  { dict := [("Chromosome".toList, posCol 0 "Chromosome" "chr1"),
             ("Start_Position".toList, posCol 1 "Start_Position" "abc"),
             ("End_Position".toList, posCol 2 "End_Position" "7")],
    slots := [some (posCol 0 "Chromosome" "chr1"), some (posCol 1 "Start_Position" "abc"),
              some (posCol 2 "End_Position" "7")] }
def posWs : Writer := { scheme := some posS, mode := .strict, sorting := true, assumeSorted := false }

example : (posR.validate demoC (some .strict) true (some posS)).2 = .ok [] ∧
    posR.toLoc.hasCoords = true ∧ posR.toLoc.start = .str "abc".toList ∧
    posWs.write demoC demoK posR = (posWs, .error .key) := by
  have hv : (posR.validate demoC (some .strict) true (some posS)).2 = .ok [] := by decide +kernel
  have h0 : posR.toLoc.hasCoords = true := by decide +kernel
  have hs : posR.toLoc.start = .str "abc".toList := by decide +kernel
  refine ⟨hv, h0, hs, ?_⟩
  exact bad_position_refused demoC demoK posWs posR posS rfl (by decide +kernel) rfl rfl hv h0
    (.inl (by decide +kernel)) (.inl (by rw [hs]; decide))

/-- the per-type statement applies to values that never came from parsing: the `str` `""` in a
    `NullableStringColumn` (re-read as `None`) and `[Null]` in a list of yes/no (re-read as `[]`) -/
example : ∃ t, Expected.NullableStringColumn.render demoC.enums (.atom (.str [])) = .ok t ∧
    (Expected.NullableStringColumn.accept demoC false t).isSome = true := by
  obtain ⟨t, h1, h2, _⟩ := valid_value_renders_accepted demoC Render.enumsOK_generated
    (.named "NullableStringColumn") Expected.NullableStringColumn (by decide) (.atom (.str []))
    (by decide) trivial
  exact ⟨t, h1, h2⟩

example : ∃ t, Expected.SequenceOfNullableYesOrNo.render demoC.enums
      (.list [.enum "NullableYesOrNoEnum" "Null"]) = .ok t ∧
    (Expected.SequenceOfNullableYesOrNo.accept demoC false t).isSome = true := by
  obtain ⟨t, h1, h2, _⟩ := valid_value_renders_accepted demoC Render.enumsOK_generated
    (.named "SequenceOfNullableYesOrNo") Expected.SequenceOfNullableYesOrNo (by decide)
    (.list [.enum "NullableYesOrNoEnum" "Null"]) (by decide +kernel)
    (by intro a ha; simp at ha; subst ha; show (enumValue _ _ _).isSome = true; decide +kernel)
  exact ⟨t, h1, h2⟩

/-! ### non-vacuity of the sorting path -/

/-- generated tables with a lawful float host (`Render.intHost`) -/
def sortC : Ctx := ⟨Generated.classTable, Generated.enums, Render.intHost⟩

def sortS : Scheme :=
  { version := "v", annotation := "a",
    cols := [("Chromosome", "StringColumn"), ("Start_Position", "OneBasedIntegerColumn"),
             ("End_Position", "OneBasedIntegerColumn")] }

def locRec (ch : String) (s e : Int) : Record :=
  let c0 : RCol := ⟨0, { cls := "StringColumn", key := "Chromosome".toList, value := .atom (.str ch.toList), index := some 0 }⟩
  let c1 : RCol := ⟨1, { cls := "OneBasedIntegerColumn", key := "Start_Position".toList, value := .atom (.int s), index := some 1 }⟩
  let c2 : RCol := ⟨2, { cls := "OneBasedIntegerColumn", key := "End_Position".toList, value := .atom (.int e), index := some 2 }⟩
  { dict := [("Chromosome".toList, c0), ("Start_Position".toList, c1), ("End_Position".toList, c2)],
    slots := [some c0, some c1, some c2] }

def sortW : Writer := { scheme := some sortS, mode := .strict, sorting := true, assumeSorted := false }

theorem sort_schemeHyp : SchemeHyp sortC sortS where
  ok := C01Record.hyp_of_check _ _ (by decide +kernel)
  typed := by
    intro p hp
    simp only [sortS, List.mem_cons, List.mem_nil_iff, or_false] at hp
    rcases hp with rfl | rfl | rfl
    · exact ⟨.named "StringColumn", by decide +kernel⟩
    · exact ⟨.named "OneBasedIntegerColumn", by decide +kernel⟩
    · exact ⟨.named "OneBasedIntegerColumn", by decide +kernel⟩

/-- two records and one refused record (position 0 in a one-based column) are fed to the
    sorting writer; `close` emits the two accepted ones … -/
def sortInput : List Record := [locRec "chr1" 7 9, locRec "chr1" 0 3, locRec "chr2" 5 6]

theorem sort_refused : ((sortW.write sortC demoK (locRec "chr1" 7 9)).1.write sortC demoK
    (locRec "chr1" 0 3)).2 = .error (.format "RECORD_COLUMN_WRONG_FORMAT" none) := by decide +kernel

theorem sort_close_out :
    ((writeAll sortC demoK sortW sortInput).close sortC demoK).1.out =
      (writeAll sortC demoK sortW sortInput).out ++ ["chr1\t7\t9\n".toList, "chr2\t5\t6\n".toList] := by
  -- (`mergeSort` does not reduce in the kernel: go through `Writer.close_of_sorted`)
  rw [Writer.close_of_sorted sortC demoK _ (by decide +kernel) (by decide +kernel) (by decide +kernel)]
  decide +kernel

/-- … and both lines are accepted by the Strict reader (all hypotheses of
    `sorted_writer_lines_accepted` hold) -/
example : ∀ l ∈ ["chr1\t7\t9\n".toList, "chr2\t5\t6\n".toList],
    ∃ r', Record.fromLine sortC l none (some sortS) (some 3) (some .strict) = .ok (r', []) ∧
      r'.errors = [] :=
  sorted_writer_lines_accepted sortC demoK sortW sortS sortInput _ (some 3) sort_schemeHyp
    Render.intHost_lawful Render.enumsOK_generated rfl rfl rfl rfl sort_close_out

end C06
