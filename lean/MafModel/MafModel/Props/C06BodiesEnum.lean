/-
  C06 / C05 — `EnumColumn.__validate__` (translated from the source, interpreted) on every enumerated column
  class: `isinstance(self.value, self.__enum_class__())`, with the enum class a constant hook resolved on the instance's
  class, equals the hand model's `vEnum` over the regenerated class table, for every value (any enum class name).
-/
import MafModel.Lemmas.BodiesEmb
open Py PyIR Bodies

namespace C06Bodies

set_option maxHeartbeats 4000000

-- the enum-valued case of class `K` whose `__enum_class__` is `E`
set_option hygiene false in
macro "enum_case" K:str E:str : tactic => `(tactic| (
  rw [show modelInvalid $K (.atom (.enum c m)) = .ok (c != $E) from rfl]
  refine Tree.Forall.eval (H := host fp) (t := runTree Generated.Bodies.program (host fp) "EnumColumn" "__validate__" [colObj $K (.enum c m)])
    (P := fun (r : Except PyErr (Val × Env)) => Except.map (fun r => !r.1.isNone) r = Except.ok (c != $E)) ?_
  tree_split h
  · tree_leaf
    have hc : c = $E := ((beq_iff_eq (a := $E) (b := c)).1 h).symm
    subst hc; rfl
  · tree_leaf
    have hc : (c != $E) = true := by
      have h' : ($E == c) = false := h
      simp only [bne, Bool.not_eq_true', beq_eq_false_iff_ne, ne_eq] at h' ⊢
      exact fun e => h' e.symm
    rw [hc]; rfl))


theorem validate_enum_NullableYesOrNo (fp) (c m : String) : hookInvalid fp "NullableYesOrNo" (.enum c m) = modelInvalid "NullableYesOrNo" (.atom (.enum c m)) := by
  enum_case "NullableYesOrNo" "NullableYesOrNoEnum"
theorem validate_NullableYesOrNo (fp) : ∀ v : PyVal, hookInvalid fp "NullableYesOrNo" (emb v) = modelInvalid "NullableYesOrNo" v := by
  hook_enum (validate_enum_NullableYesOrNo fp)

theorem validate_enum_NullableYOrN (fp) (c m : String) : hookInvalid fp "NullableYOrN" (.enum c m) = modelInvalid "NullableYOrN" (.atom (.enum c m)) := by
  enum_case "NullableYOrN" "NullableYOrNEnum"
theorem validate_NullableYOrN (fp) : ∀ v : PyVal, hookInvalid fp "NullableYOrN" (emb v) = modelInvalid "NullableYOrN" v := by
  hook_enum (validate_enum_NullableYOrN fp)

theorem validate_enum_YesNoOrUnknown (fp) (c m : String) : hookInvalid fp "YesNoOrUnknown" (.enum c m) = modelInvalid "YesNoOrUnknown" (.atom (.enum c m)) := by
  enum_case "YesNoOrUnknown" "YesNoOrUnknownEnum"
theorem validate_YesNoOrUnknown (fp) : ∀ v : PyVal, hookInvalid fp "YesNoOrUnknown" (emb v) = modelInvalid "YesNoOrUnknown" v := by
  hook_enum (validate_enum_YesNoOrUnknown fp)

theorem validate_enum_PickColumn (fp) (c m : String) : hookInvalid fp "PickColumn" (.enum c m) = modelInvalid "PickColumn" (.atom (.enum c m)) := by
  enum_case "PickColumn" "PickEnum"
theorem validate_PickColumn (fp) : ∀ v : PyVal, hookInvalid fp "PickColumn" (emb v) = modelInvalid "PickColumn" v := by
  hook_enum (validate_enum_PickColumn fp)

theorem validate_enum_Strand (fp) (c m : String) : hookInvalid fp "Strand" (.enum c m) = modelInvalid "Strand" (.atom (.enum c m)) := by
  enum_case "Strand" "StrandEnum"
theorem validate_Strand (fp) : ∀ v : PyVal, hookInvalid fp "Strand" (emb v) = modelInvalid "Strand" v := by
  hook_enum (validate_enum_Strand fp)

theorem validate_enum_VariantClassification (fp) (c m : String) : hookInvalid fp "VariantClassification" (.enum c m) = modelInvalid "VariantClassification" (.atom (.enum c m)) := by
  enum_case "VariantClassification" "VariantClassificationEnum"
theorem validate_VariantClassification (fp) : ∀ v : PyVal, hookInvalid fp "VariantClassification" (emb v) = modelInvalid "VariantClassification" v := by
  hook_enum (validate_enum_VariantClassification fp)

theorem validate_enum_VariantType (fp) (c m : String) : hookInvalid fp "VariantType" (.enum c m) = modelInvalid "VariantType" (.atom (.enum c m)) := by
  enum_case "VariantType" "VariantTypeEnum"
theorem validate_VariantType (fp) : ∀ v : PyVal, hookInvalid fp "VariantType" (emb v) = modelInvalid "VariantType" v := by
  hook_enum (validate_enum_VariantType fp)

theorem validate_enum_VariantSupport (fp) (c m : String) : hookInvalid fp "VariantSupport" (.enum c m) = modelInvalid "VariantSupport" (.atom (.enum c m)) := by
  enum_case "VariantSupport" "VariantSupportEnum"
theorem validate_VariantSupport (fp) : ∀ v : PyVal, hookInvalid fp "VariantSupport" (emb v) = modelInvalid "VariantSupport" v := by
  hook_enum (validate_enum_VariantSupport fp)

theorem validate_enum_VerificationStatus (fp) (c m : String) : hookInvalid fp "VerificationStatus" (.enum c m) = modelInvalid "VerificationStatus" (.atom (.enum c m)) := by
  enum_case "VerificationStatus" "VerificationStatusEnum"
theorem validate_VerificationStatus (fp) : ∀ v : PyVal, hookInvalid fp "VerificationStatus" (emb v) = modelInvalid "VerificationStatus" v := by
  hook_enum (validate_enum_VerificationStatus fp)

theorem validate_enum_ValidationStatus (fp) (c m : String) : hookInvalid fp "ValidationStatus" (.enum c m) = modelInvalid "ValidationStatus" (.atom (.enum c m)) := by
  enum_case "ValidationStatus" "ValidationStatusEnum"
theorem validate_ValidationStatus (fp) : ∀ v : PyVal, hookInvalid fp "ValidationStatus" (emb v) = modelInvalid "ValidationStatus" v := by
  hook_enum (validate_enum_ValidationStatus fp)

theorem validate_enum_MutationStatus (fp) (c m : String) : hookInvalid fp "MutationStatus" (.enum c m) = modelInvalid "MutationStatus" (.atom (.enum c m)) := by
  enum_case "MutationStatus" "MutationStatusEnum"
theorem validate_MutationStatus (fp) : ∀ v : PyVal, hookInvalid fp "MutationStatus" (emb v) = modelInvalid "MutationStatus" v := by
  hook_enum (validate_enum_MutationStatus fp)

theorem validate_enum_Sequencer (fp) (c m : String) : hookInvalid fp "Sequencer" (.enum c m) = modelInvalid "Sequencer" (.atom (.enum c m)) := by
  enum_case "Sequencer" "SequencerEnum"
theorem validate_Sequencer (fp) : ∀ v : PyVal, hookInvalid fp "Sequencer" (emb v) = modelInvalid "Sequencer" v := by
  hook_enum (validate_enum_Sequencer fp)

theorem validate_enum_FeatureType (fp) (c m : String) : hookInvalid fp "FeatureType" (.enum c m) = modelInvalid "FeatureType" (.atom (.enum c m)) := by
  enum_case "FeatureType" "FeatureTypeEnum"
theorem validate_FeatureType (fp) : ∀ v : PyVal, hookInvalid fp "FeatureType" (emb v) = modelInvalid "FeatureType" v := by
  hook_enum (validate_enum_FeatureType fp)

theorem validate_enum_Impact (fp) (c m : String) : hookInvalid fp "Impact" (.enum c m) = modelInvalid "Impact" (.atom (.enum c m)) := by
  enum_case "Impact" "ImpactEnum"
theorem validate_Impact (fp) : ∀ v : PyVal, hookInvalid fp "Impact" (emb v) = modelInvalid "Impact" v := by
  hook_enum (validate_enum_Impact fp)

theorem validate_enum_MC3Overlap (fp) (c m : String) : hookInvalid fp "MC3Overlap" (.enum c m) = modelInvalid "MC3Overlap" (.atom (.enum c m)) := by
  enum_case "MC3Overlap" "MC3OverlapEnum"
theorem validate_MC3Overlap (fp) : ∀ v : PyVal, hookInvalid fp "MC3Overlap" (emb v) = modelInvalid "MC3Overlap" v := by
  hook_enum (validate_enum_MC3Overlap fp)

theorem validate_enum_GdcValidationStatus (fp) (c m : String) : hookInvalid fp "GdcValidationStatus" (.enum c m) = modelInvalid "GdcValidationStatus" (.atom (.enum c m)) := by
  enum_case "GdcValidationStatus" "GdcValidationStatusEnum"
theorem validate_GdcValidationStatus (fp) : ∀ v : PyVal, hookInvalid fp "GdcValidationStatus" (emb v) = modelInvalid "GdcValidationStatus" v := by
  hook_enum (validate_enum_GdcValidationStatus fp)

end C06Bodies
