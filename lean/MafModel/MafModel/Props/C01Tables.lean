/-
  Table obligation for the record-level C01 theorems (kept in its own file: it is
  a large `decide +kernel`, re-checked whenever the generated tables change).
-/
import MafModel.Props.C01Record
import MafModel.Lemmas.Builtin
open Model Py Spec

namespace C01Tables

open C01Record in
/-- the hypotheses of the record-level theorems hold for every built-in scheme
    (names pairwise distinct, every class resolves and inherits
    `MafCustomColumnRecord.build`) — re-checked against the generated tables -/
theorem builtin_schemes_ok :
    (match Builtin.built with
     | .ok (st, ss) => ss.all (fun p => hypCheck { tbl := st.tbl, enums := [], H := ⟨fun _ => none⟩ } p.2)
     | .error _ => false) = true := by decide +kernel


end C01Tables
