/-
  C16 — the reader returns exactly one record per data line, and raises only the documented
  exceptions: `MafFormatException` (only in Strict mode) and the order checker's `ValueError`
  (only for a sortable declared order).

  Notation as in C17 (`Lemmas/ReaderLemmas.lean`): `headerLen K lines` = `k`, the number of header
  lines; `dataLines K lines` = the lines after the column-name line.
-/
import MafModel.Lemmas.ReaderLemmas
import MafModel.Lemmas.ReaderHeader
import MafModel.Lemmas.ReaderExample
import MafModel.Generated.ClassTable
open Py Model
namespace C16

variable {C : Ctx} {K : HConsts} {R : Registry} {lines : List Text} {mode : Option Mode}
  {given : Option Scheme} {r r' : Reader} {recs : List Record}

/-- the declared sort order the reader enforces -/
def declaredOrder (K : HConsts) (r : Reader) : Order := (r.header.sortOrder K).1

theorem checker_order (K : HConsts) (r : Reader) : (r.checker K).order = declaredOrder K r := rfl

theorem checker_ok (K : HConsts) (r : Reader) : (r.checker K).OK := by
  intro _ l hl; cases hl

/-- **C16 (count).**  A whole-file reading that ends without an exception returns exactly one
    record per data line, i.e. per line after the column-name line. -/
theorem count (hinit : Reader.init C K R lines mode given = .ok r)
    (hread : r.readAll C K = (recs, none, r')) :
    recs.length = (dataLines K lines).length ∧
    (dataLines K lines).length = lines.length - (headerLen K lines + 1) := by
  have hat : At lines r (min (headerLen K lines + 1) lines.length) := by
    obtain ⟨hd, hlogs, lg, _, _, rfl⟩ := init_ok hinit
    exact initReader_at ..
  obtain ⟨j, _, _, _, hnone⟩ := readAll_spec (C := C) hat
  rw [hread] at hnone
  exact ⟨(hnone rfl).2, by simp [dataLines]⟩

/-- **C16 (which records).**  The records returned — all of them, or those returned before the
    iteration stopped — are, in order, the records `Record.fromLine` builds for data lines
    `0, 1, 2, …` when told they are lines `k + 2`, `k + 3`, …  (`recordOf`: that record, its errors
    stamped with the ghost origin). -/
theorem records (hinit : Reader.init C K R lines mode given = .ok r) :
    (r.readAll C K).1.map some =
      ((dataLines K lines).take (r.readAll C K).1.length).zipIdx.map
        (fun p => recordOf C r.scheme r.mode (headerLen K lines + 2 + p.2) p.1) := by
  have hat : At lines r (min (headerLen K lines + 1) lines.length) := by
    obtain ⟨hd, hlogs, lg, _, _, rfl⟩ := init_ok hinit
    exact initReader_at ..
  unfold Reader.readAll
  exact iterate_records (C := C) (K := K) (base := r.errors) _ r _ [] hat.fuel
    ⟨hat, Nat.zero_le _, rfl, rfl, by simp⟩ (by simp [recsUpTo])

/-- fuel sufficiency: a reading that ends without an exception has exhausted the input -/
theorem reads_to_end (hinit : Reader.init C K R lines mode given = .ok r)
    (h : (r.readAll C K).2.1 = none) : (r.readAll C K).2.2.next = none := by
  have hat : At lines r (min (headerLen K lines + 1) lines.length) := by
    obtain ⟨hd, hlogs, lg, _, _, rfl⟩ := init_ok hinit
    exact initReader_at ..
  exact readAll_reads_to_end hat h

/-- the number of records returned before an exception is at most the number of data lines -/
theorem count_le (hinit : Reader.init C K R lines mode given = .ok r) :
    (r.readAll C K).1.length ≤ (dataLines K lines).length := by
  obtain ⟨hd, hlogs, lg, _, _, rfl⟩ := init_ok hinit
  obtain ⟨j, hst, h1, _, _⟩ := readAll_spec (C := C) (K := K) (initReader_at lines _ hd _ _ _ _)
  exact Nat.le_trans h1 hst.le

/-- **C16 (kinds, construction).**  For ANY input, stringency and given scheme, `MafReader(...)`
    either succeeds or raises a `MafFormatException`, and the latter only in Strict mode. -/
theorem init_kinds (C : Ctx) (K : HConsts) (R : Registry) (lines : List Text) (mode : Option Mode)
    (given : Option Scheme) :
    (∃ r, Reader.init C K R lines mode given = .ok r) ∨
    (mode = some .strict ∧ ∃ tpe line, Reader.init C K R lines mode given = .error (.format tpe line)) := by
  have hstrict : ∀ {es e}, processErrors (modeOrSilent mode) es = .error e →
      mode = some .strict ∧ ∃ tpe line, e = .format tpe line := by
    intro es e h
    obtain ⟨hm, x, xs, _, rfl⟩ := processErrors_error h
    refine ⟨?_, _, _, rfl⟩
    cases mode with
    | none => cases hm
    | some m => exact congrArg some hm
  rw [init_eq, fromLines_spec]
  have e : modeOrSilent (some (modeOrSilent mode)) = modeOrSilent mode := rfl
  rw [e]
  cases h1 : processErrors (modeOrSilent mode) (parsedHeader K R (headerBlock K lines)).errors with
  | error e =>
    obtain ⟨hm, t, l, rfl⟩ := hstrict h1
    exact .inr ⟨hm, t, l, rfl⟩
  | ok hlogs =>
    simp only []
    generalize hes : (((parsedHeader K R (headerBlock K lines)).withMode (modeOrSilent mode)).errors ++ _ ++ _) = es
    cases h2 : processErrors (modeOrSilent mode) es with
    | error e =>
      obtain ⟨hm, t, l, rfl⟩ := hstrict h2
      exact .inr ⟨hm, t, l, rfl⟩
    | ok lg => exact .inl ⟨_, rfl⟩

/-- the unconditional form of the iteration part of C16 (kinds).  It is FALSE for arbitrary class
    tables / registries: a scheme whose barcode column is a `StringOrIntegerColumn` yields an `int`
    barcode for `"12"` and a `str` one for `"ab"`, and comparing their sort keys raises `TypeError`.
    `kinds_partial` proves it under the kind hypothesis `BarcodesTextual`; `kinds_unsortable` and
    `nonstrict_unsorted_total` need no such hypothesis. -/
def kinds_statement (C : Ctx) (K : HConsts) (R : Registry) : Prop :=
  ∀ (lines : List Text) (mode : Option Mode) (given : Option Scheme) (r : Reader),
    (∀ g, given = some g → g.names.Nodup) → (∀ s ∈ R.schemes, s.names.Nodup) →
    Reader.init C K R lines mode given = .ok r →
    ∀ recs e r', r.readAll C K = (recs, some e, r') →
      (mode = some .strict ∧ ∃ tpe line, e = .format tpe line) ∨
      ((declaredOrder K r).sortable = true ∧ e = .value)

/-- the core of C16 (kinds, iteration): from the scheme invariant and the kind hypothesis -/
theorem kinds_core (hinit : Reader.init C K R lines mode given = .ok r) (hinv : r.SchemeInv)
    (hk : (declaredOrder K r).sortable = false ∨ BarcodesTextual C r.scheme)
    {e : PyErr} (hread : r.readAll C K = (recs, some e, r')) :
    (mode = some .strict ∧ ∃ tpe line, e = .format tpe line) ∨
    ((declaredOrder K r).sortable = true ∧ e = .value) := by
  have hat : At lines r (min (headerLen K lines + 1) lines.length) := by
    obtain ⟨hd, hlogs, lg, _, _, rfl⟩ := init_ok hinit
    exact initReader_at ..
  have hmode : r.mode = modeOrSilent mode := by
    obtain ⟨hd, hlogs, lg, _, _, rfl⟩ := init_ok hinit
    rfl
  have := iterate_kinds (C := C) (K := K) (r.src.length + 2) r (r.checker K) [] hat.fuel hinv hk
    (checker_ok K r) e (by show (r.readAll C K).2.1 = some e; rw [hread])
  rcases this with ⟨hm, t, l, rfl⟩ | h
  · refine .inl ⟨?_, t, l, rfl⟩
    rw [hmode] at hm
    cases mode with
    | none => cases hm
    | some m => exact congrArg some hm
  · exact .inr h

/-- **C16 (kinds, iteration) — partial**: proved under the hypothesis `hk` that the records the
    reader's scheme produces carry textual barcodes (`BarcodesTextual`; it holds for
    `NoRestrictionsScheme`, see `kinds_schemeless` — and is not needed when the declared order
    is not sortable).  The other hypotheses are explicit well-formedness of the schemes: pairwise
    distinct column names (otherwise `record[name] = column` can raise `ValueError`).
    Then: an exception during the iteration is a `MafFormatException` in Strict mode, or the order
    checker's `ValueError` for a sortable declared order. -/
theorem kinds_partial (hg : ∀ g, given = some g → g.names.Nodup) (hR : ∀ s ∈ R.schemes, s.names.Nodup)
    (hinit : Reader.init C K R lines mode given = .ok r)
    (hk : (declaredOrder K r).sortable = false ∨ BarcodesTextual C r.scheme)
    {e : PyErr} (hread : r.readAll C K = (recs, some e, r')) :
    (mode = some .strict ∧ ∃ tpe line, e = .format tpe line) ∨
    ((declaredOrder K r).sortable = true ∧ e = .value) :=
  kinds_core hinit (init_schemeInv hinit hg hR) hk hread

/-- **C16 (kinds, iteration) for scheme-less files**, in full: when the reader has fallen back to
    `NoRestrictionsScheme(column names)` — no usable scheme given or named by the header — the kind
    hypothesis holds (all values are text) and the names are distinct by construction, so for ANY
    declared order the only exceptions are the Strict-mode `MafFormatException` and the order
    checker's `ValueError`.  (`PlainBase C`: the class table's `MafColumnRecord` has no custom
    `build`; true of the generated table, `plainBase_generated`.) -/
theorem kinds_schemeless (hC : PlainBase C) (hinit : Reader.init C K R lines mode given = .ok r)
    {names : List String} (hs : r.scheme = some (noRestrictionsScheme names))
    {e : PyErr} (hread : r.readAll C K = (recs, some e, r')) :
    (mode = some .strict ∧ ∃ tpe line, e = .format tpe line) ∨
    ((declaredOrder K r).sortable = true ∧ e = .value) :=
  kinds_core hinit (.inl ⟨_, hs, noRestrictionsScheme_names_nodup names⟩)
    (.inr (hs ▸ barcodesTextual_noRestrictions hC names)) hread

theorem plainBase_of_decide {C : Ctx}
    (h : (match resolveSpec C.tbl "MafColumnRecord" with
          | some sp => sp.buildMethod == some "MafColumnRecord"
          | none => true) = true) : PlainBase C := by
  intro sp hsp
  rw [hsp] at h
  simpa using h

private theorem generated_plain :
    (match resolveSpec Generated.classTable "MafColumnRecord" with
     | some sp => sp.buildMethod == some "MafColumnRecord"
     | none => true) = true := by decide

/-- the class table generated from the repository satisfies `PlainBase` -/
theorem plainBase_generated (E : Enums) (H : FloatHost) : PlainBase ⟨Generated.classTable, E, H⟩ :=
  plainBase_of_decide generated_plain

/-- without a given scheme and with a registry whose lookup finds nothing, the reader is
    scheme-less as soon as there is a column-name line -/
theorem scheme_of_no_match (hinit : Reader.init C K R lines mode none = .ok r)
    (hnone : r.header.scheme K R = none) {l : Text} (hcol : (stripped lines)[headerLen K lines]? = some l) :
    r.scheme = some (noRestrictionsScheme ((splitOn '\t' l).map String.ofList)) := by
  obtain ⟨hd, hlogs, lg, _, _, rfl⟩ := init_ok hinit
  have hnone' : hd.scheme K R = none := hnone
  show schemeOf K R lines none hd = _
  unfold schemeOf colNamesOf initSch1 initSch2
  rw [hcol, hnone']
  simp [schemeless]

/-- C16 (kinds) for an order that is not sortable: the only exception is the Strict-mode
    `MafFormatException` -/
theorem kinds_unsortable (hg : ∀ g, given = some g → g.names.Nodup) (hR : ∀ s ∈ R.schemes, s.names.Nodup)
    (hinit : Reader.init C K R lines mode given = .ok r)
    (ho : (declaredOrder K r).sortable = false)
    {e : PyErr} (hread : r.readAll C K = (recs, some e, r')) :
    mode = some .strict ∧ ∃ tpe line, e = .format tpe line := by
  rcases kinds_partial hg hR hinit (.inl ho) hread with h | ⟨h, _⟩
  · exact h
  · rw [ho] at h; cases h

/-- **C16 (totality).**  Outside Strict mode and for a declared order that is not sortable, the
    whole file is read without any exception, and one record is returned per data line. -/
theorem nonstrict_unsorted_total (hg : ∀ g, given = some g → g.names.Nodup)
    (hR : ∀ s ∈ R.schemes, s.names.Nodup)
    (hinit : Reader.init C K R lines mode given = .ok r) (hm : mode ≠ some .strict)
    (ho : (declaredOrder K r).sortable = false) :
    ∃ recs r', r.readAll C K = (recs, none, r') ∧ recs.length = (dataLines K lines).length := by
  rcases hres : r.readAll C K with ⟨recs, oe, r'⟩
  cases oe with
  | some e => exact absurd (kinds_unsortable hg hR hinit ho hres).1 hm
  | none => exact ⟨recs, r', rfl, (count hinit hres).1⟩

/-- outside Strict mode the reader can always be constructed -/
theorem nonstrict_init_total (C : Ctx) (K : HConsts) (R : Registry) (lines : List Text)
    {mode : Option Mode} (given : Option Scheme) (hm : mode ≠ some .strict) :
    ∃ r, Reader.init C K R lines mode given = .ok r := by
  rcases init_kinds C K R lines mode given with h | ⟨h, _⟩
  · exact h
  · exact absurd h hm

/-! ### non-vacuity: the five-line example file of `Lemmas/ReaderExample.lean` -/
section examples
open Model.ReaderExample

/-- the hypotheses of `count` / `nonstrict_unsorted_total` are met by the example file (2 header
    lines, the column names, 2 data lines — one of them short), read in Silent mode: no exception,
    2 records -/
example : ∃ r recs r', Reader.init exC exK exR exLines (some .silent) none = .ok r ∧
    (declaredOrder exK r).sortable = false ∧
    r.readAll exC exK = (recs, none, r') ∧ recs.length = 2 ∧ (dataLines exK exLines).length = 2 := by
  obtain ⟨r, hr, hf⟩ := exists_ok_of_map (x := Reader.init exC exK exR exLines (some .silent) none)
    (f := fun r => (r.header.sortOrder exK).1.sortable) (b := false) (by decide)
  obtain ⟨recs, r', hread, hlen⟩ := nonstrict_unsorted_total (C := exC) (by intro g h; cases h)
    (by intro s h; cases h) hr (by decide) hf
  exact ⟨r, recs, r', hr, hf, hread, by rw [hlen]; decide, by decide⟩

/-- Strict mode on the same file: the construction itself fails with the first header error -/
example : Reader.init exC exK exR exLines (some .strict) none
    = .error (.format "HEADER_LINE_MISSING_SEPARATOR" (some 2)) := eq_error_of_errOf (by decide)

/-- the hypotheses of `kinds_schemeless` are met by a file declaring a sortable order -/
example : ∃ r, Reader.init exC exK exR exSorted (some .silent) none = .ok r ∧
    (declaredOrder exK r).sortable = true ∧
    r.scheme = some (noRestrictionsScheme ["Chromosome", "Start_Position", "End_Position"]) := by
  obtain ⟨r, hr, hf⟩ := exists_ok_of_map (x := Reader.init exC exK exR exSorted (some .silent) none)
    (f := fun r => ((r.header.sortOrder exK).1.sortable, r.scheme))
    (b := (true, some (noRestrictionsScheme ["Chromosome", "Start_Position", "End_Position"])))
    (by decide)
  simp only [Prod.mk.injEq] at hf
  exact ⟨r, hr, hf.1, hf.2⟩

example : PlainBase exC := plainBase_of_decide (by decide)

end examples

end C16
