/-
  C16 — the reader returns exactly one record per data line, and raises only the documented
  exceptions: `MafFormatException` (only in Strict mode) and the order checker's `ValueError`
  (only for a sortable declared order).

  The order checker's `ValueError` is the ordering error or the missing-contig error and nothing
  else (`value_error_cause`).  A position text that is not a number is NOT a `ValueError`: the key
  function raises `KeyError` for it, the checker skips the record like one that lacks a coordinate
  column, and the record is yielded (`bad_position_text_skipped`).

  Notation as in C17 (`Lemmas/ReaderLemmas.lean`): `headerLen K lines` = `k`, the number of header
  lines; `dataLines K lines` = the lines after the column-name line.
-/
import MafModel.Lemmas.ReaderLemmas
import MafModel.Lemmas.ReaderHeader
import MafModel.Lemmas.ReaderExample
import MafModel.Generated.ClassTable
open Py Model
namespace C16

variable {C : Ctx} {K : HConsts} {R : Registry} {lines : List Text} {mode : Option Mode}
  {given : Option Scheme} {r r' : Reader} {recs : List Record}

/-- the declared sort order the reader enforces -/
def declaredOrder (K : HConsts) (r : Reader) : Order := (r.header.sortOrder K).1

theorem checker_order (K : HConsts) (r : Reader) : (r.checker K).order = declaredOrder K r := rfl

/-- the contig list the header gives with the sort order (empty when it gives none) -/
def declaredContigs (K : HConsts) (r : Reader) : List Text := (r.header.sortOrder K).2

theorem checker_contigs (K : HConsts) (r : Reader) : (r.checker K).contigs = declaredContigs K r := rfl

theorem checker_ok (K : HConsts) (r : Reader) : (r.checker K).OK := by
  intro _ l hl; cases hl

/-- **C16 (count).**  A whole-file reading that ends without an exception returns exactly one
    record per data line, i.e. per line after the column-name line. -/
theorem count (hinit : Reader.init C K R lines mode given = .ok r)
    (hread : r.readAll C K = (recs, none, r')) :
    recs.length = (dataLines K lines).length ∧
    (dataLines K lines).length = lines.length - (headerLen K lines + 1) := by
  have hat : At lines r (min (headerLen K lines + 1) lines.length) := by
    obtain ⟨hd, hlogs, lg, _, _, rfl⟩ := init_ok hinit
    exact initReader_at ..
  obtain ⟨j, _, _, _, hnone⟩ := readAll_spec (C := C) hat
  rw [hread] at hnone
  exact ⟨(hnone rfl).2, by simp [dataLines]⟩

/-- **C16 (which records).**  The records returned — all of them, or those returned before the
    iteration stopped — are, in order, the records `Record.fromLine` builds for data lines
    `0, 1, 2, …` when told they are lines `k + 2`, `k + 3`, …  (`recordOf`: that record, its errors
    stamped with the ghost origin). -/
theorem records (hinit : Reader.init C K R lines mode given = .ok r) :
    (r.readAll C K).1.map some =
      ((dataLines K lines).take (r.readAll C K).1.length).zipIdx.map
        (fun p => recordOf C r.scheme r.mode (headerLen K lines + 2 + p.2) p.1) := by
  have hat : At lines r (min (headerLen K lines + 1) lines.length) := by
    obtain ⟨hd, hlogs, lg, _, _, rfl⟩ := init_ok hinit
    exact initReader_at ..
  unfold Reader.readAll
  exact iterate_records (C := C) (K := K) (base := r.errors) _ r _ [] hat.fuel
    ⟨hat, Nat.zero_le _, rfl, rfl, by simp⟩ (by simp [recsUpTo])

/-- fuel sufficiency: a reading that ends without an exception has exhausted the input -/
theorem reads_to_end (hinit : Reader.init C K R lines mode given = .ok r)
    (h : (r.readAll C K).2.1 = none) : (r.readAll C K).2.2.next = none := by
  have hat : At lines r (min (headerLen K lines + 1) lines.length) := by
    obtain ⟨hd, hlogs, lg, _, _, rfl⟩ := init_ok hinit
    exact initReader_at ..
  exact readAll_reads_to_end hat h

/-- the number of records returned before an exception is at most the number of data lines -/
theorem count_le (hinit : Reader.init C K R lines mode given = .ok r) :
    (r.readAll C K).1.length ≤ (dataLines K lines).length := by
  obtain ⟨hd, hlogs, lg, _, _, rfl⟩ := init_ok hinit
  obtain ⟨j, hst, h1, _, _⟩ := readAll_spec (C := C) (K := K) (initReader_at lines _ hd _ _ _ _)
  exact Nat.le_trans h1 hst.le

/-- **C16 (kinds, construction).**  For ANY input, stringency and given scheme, `MafReader(...)`
    either succeeds or raises a `MafFormatException`, and the latter only in Strict mode. -/
theorem init_kinds (C : Ctx) (K : HConsts) (R : Registry) (lines : List Text) (mode : Option Mode)
    (given : Option Scheme) :
    (∃ r, Reader.init C K R lines mode given = .ok r) ∨
    (mode = some .strict ∧ ∃ tpe line, Reader.init C K R lines mode given = .error (.format tpe line)) := by
  have hstrict : ∀ {es e}, processErrors (modeOrSilent mode) es = .error e →
      mode = some .strict ∧ ∃ tpe line, e = .format tpe line := by
    intro es e h
    obtain ⟨hm, x, xs, _, rfl⟩ := processErrors_error h
    refine ⟨?_, _, _, rfl⟩
    cases mode with
    | none => cases hm
    | some m => exact congrArg some hm
  rw [init_eq, fromLines_spec]
  have e : modeOrSilent (some (modeOrSilent mode)) = modeOrSilent mode := rfl
  rw [e]
  cases h1 : processErrors (modeOrSilent mode) (parsedHeader K R (headerBlock K lines)).errors with
  | error e =>
    obtain ⟨hm, t, l, rfl⟩ := hstrict h1
    exact .inr ⟨hm, t, l, rfl⟩
  | ok hlogs =>
    simp only []
    generalize hes : (((parsedHeader K R (headerBlock K lines)).withMode (modeOrSilent mode)).errors ++ _ ++ _) = es
    cases h2 : processErrors (modeOrSilent mode) es with
    | error e =>
      obtain ⟨hm, t, l, rfl⟩ := hstrict h2
      exact .inr ⟨hm, t, l, rfl⟩
    | ok lg => exact .inl ⟨_, rfl⟩

/-- the unconditional form of the iteration part of C16 (kinds).  It is FALSE for arbitrary class
    tables / registries: a scheme whose barcode column is a `StringOrIntegerColumn` yields an `int`
    barcode for `"12"` and a `str` one for `"ab"`, and comparing their sort keys raises `TypeError`.
    `kinds_partial` proves it under the kind hypothesis `BarcodesTextual`; `kinds_unsortable` and
    `nonstrict_unsorted_total` need no such hypothesis. -/
def kinds_statement (C : Ctx) (K : HConsts) (R : Registry) : Prop :=
  ∀ (lines : List Text) (mode : Option Mode) (given : Option Scheme) (r : Reader),
    (∀ g, given = some g → g.names.Nodup) → (∀ s ∈ R.schemes, s.names.Nodup) →
    Reader.init C K R lines mode given = .ok r →
    ∀ recs e r', r.readAll C K = (recs, some e, r') →
      (mode = some .strict ∧ ∃ tpe line, e = .format tpe line) ∨
      ((declaredOrder K r).sortable = true ∧ e = .value)

/-- the core of C16 (kinds, iteration): from the scheme invariant and the kind hypothesis -/
theorem kinds_core (hinit : Reader.init C K R lines mode given = .ok r) (hinv : r.SchemeInv)
    (hk : (declaredOrder K r).sortable = false ∨ BarcodesTextual C r.scheme)
    {e : PyErr} (hread : r.readAll C K = (recs, some e, r')) :
    (mode = some .strict ∧ ∃ tpe line, e = .format tpe line) ∨
    ((declaredOrder K r).sortable = true ∧ e = .value) := by
  have hat : At lines r (min (headerLen K lines + 1) lines.length) := by
    obtain ⟨hd, hlogs, lg, _, _, rfl⟩ := init_ok hinit
    exact initReader_at ..
  have hmode : r.mode = modeOrSilent mode := by
    obtain ⟨hd, hlogs, lg, _, _, rfl⟩ := init_ok hinit
    rfl
  have := iterate_kinds (C := C) (K := K) (r.src.length + 2) r (r.checker K) [] hat.fuel hinv hk
    (checker_ok K r) e (by show (r.readAll C K).2.1 = some e; rw [hread])
  rcases this with ⟨hm, t, l, rfl⟩ | h
  · refine .inl ⟨?_, t, l, rfl⟩
    rw [hmode] at hm
    cases mode with
    | none => cases hm
    | some m => exact congrArg some hm
  · exact .inr h

/-- **C16 (kinds, iteration) — partial**: proved under the hypothesis `hk` that the records the
    reader's scheme produces carry textual barcodes (`BarcodesTextual`; it holds for
    `NoRestrictionsScheme`, see `kinds_schemeless` — and is not needed when the declared order
    is not sortable).  The other hypotheses are explicit well-formedness of the schemes: pairwise
    distinct column names (otherwise `record[name] = column` can raise `ValueError`).
    Then: an exception during the iteration is a `MafFormatException` in Strict mode, or the order
    checker's `ValueError` for a sortable declared order — which is the ordering error or the
    missing-contig error and nothing else (`value_error_cause`; a position text that is not a
    number is skipped, `bad_position_text_skipped`). -/
theorem kinds_partial (hg : ∀ g, given = some g → g.names.Nodup) (hR : ∀ s ∈ R.schemes, s.names.Nodup)
    (hinit : Reader.init C K R lines mode given = .ok r)
    (hk : (declaredOrder K r).sortable = false ∨ BarcodesTextual C r.scheme)
    {e : PyErr} (hread : r.readAll C K = (recs, some e, r')) :
    (mode = some .strict ∧ ∃ tpe line, e = .format tpe line) ∨
    ((declaredOrder K r).sortable = true ∧ e = .value) :=
  kinds_core hinit (init_schemeInv hinit hg hR) hk hread

/-- **C16 (kinds, iteration) for scheme-less files**, in full: when the reader has fallen back to
    `NoRestrictionsScheme(column names)` — no usable scheme given or named by the header — the kind
    hypothesis holds (all values are text) and the names are distinct by construction, so for ANY
    declared order the only exceptions are the Strict-mode `MafFormatException` and the order
    checker's `ValueError` (ordering error or missing contig, `value_error_cause`; NOT a position
    text that is not a number, although every position is a text here).  (`PlainBase C`: the class table's `MafColumnRecord` has no custom
    `build`; true of the generated table, `plainBase_generated`.) -/
theorem kinds_schemeless (hC : PlainBase C) (hinit : Reader.init C K R lines mode given = .ok r)
    {names : List String} (hs : r.scheme = some (noRestrictionsScheme names))
    {e : PyErr} (hread : r.readAll C K = (recs, some e, r')) :
    (mode = some .strict ∧ ∃ tpe line, e = .format tpe line) ∨
    ((declaredOrder K r).sortable = true ∧ e = .value) :=
  kinds_core hinit (.inl ⟨_, hs, noRestrictionsScheme_names_nodup names⟩)
    (.inr (hs ▸ barcodesTextual_noRestrictions hC names)) hread

/-! ### which `ValueError`: the ordering error or the missing-contig error, nothing else -/

/-- **C16 (kinds, the `ValueError`).**  When the iteration stops with `ValueError`, it was raised
    by the order checker on the record `rec` the reader had just parsed (the one after the records
    returned), with a checker `chk` that has the declared order and contig list and remembers the
    last of the returned records that could be keyed; the declared order is sortable; and the
    reason is one of exactly two:
    * the header gives a contig list, and it does not contain the chromosome of `rec`
      (stated for a `rec` that has its three coordinate columns), or
    * `rec` is out of order: it and the remembered record can both be keyed and its key is
      smaller (`Checker.OutOfOrder`).
    A start / end position that is a text `int()` cannot read is NOT a reason (such a record
    cannot be keyed and is skipped, `bad_position_text_skipped`). -/
theorem value_error_cause (hinit : Reader.init C K R lines mode given = .ok r) (hinv : r.SchemeInv)
    (hread : r.readAll C K = (recs, some .value, r')) :
    (declaredOrder K r).sortable = true ∧
    ∃ (r0 : Reader) (rec : Record) (chk : Checker),
      r0.nextRecord C = .ok (some (rec, r')) ∧
      chk.order = declaredOrder K r ∧ chk.contigs = declaredContigs K r ∧
      chk.last = lastKeyed (declaredOrder K r) (declaredContigs K r) (recs.map Record.toLoc) ∧
      chk.addRecord rec = .error .value ∧
      ((declaredContigs K r ≠ [] ∧
          (rec.toLoc.hasCoords = true →
            ∀ s, rec.toLoc.chrName = some s → s ∉ declaredContigs K r)) ∨
        (rec.toLoc.hasCoords = true ∧ chk.OutOfOrder rec.toLoc)) := by
  have hat : At lines r (min (headerLen K lines + 1) lines.length) := by
    obtain ⟨hd, hlogs, lg, _, _, rfl⟩ := init_ok hinit
    exact initReader_at ..
  have := iterate_valueError_source (C := C) (K := K) (r.src.length + 2) r (r.checker K) []
    hat.fuel hinv (Checker.lastKeyed_of_none rfl) (fun _ => rfl)
    (by show (r.readAll C K).2.1 = some .value; rw [hread])
  obtain ⟨r0, rec, chk, hnr, hord, hcs, hlk, hl, hadd⟩ := this
  have hres : Reader.iterate C K (r.src.length + 2) r (r.checker K) [] = (recs, some .value, r') := hread
  rw [hres] at hnr hl
  obtain ⟨hs, hcause⟩ := Checker.addRecord_valueError_cause hlk hadd
  have hs' : (declaredOrder K r).sortable = true := by rw [← checker_order, ← hord]; exact hs
  refine ⟨hs', r0, rec, chk, hnr, hord, hcs, hl hs', hadd, ?_⟩
  rw [hcs] at hcause
  exact hcause

/-- **C16 (kinds, no contig list).**  When the header gives no contig list, the only `ValueError`
    of the iteration is the ordering error; in particular the offending record has its coordinate
    columns and READABLE positions — a position text that is not a number never stops the
    iteration. -/
theorem value_error_no_contigs (hinit : Reader.init C K R lines mode given = .ok r)
    (hinv : r.SchemeInv) (hcs : declaredContigs K r = [])
    (hread : r.readAll C K = (recs, some .value, r')) :
    ∃ (r0 : Reader) (rec : Record) (chk : Checker),
      r0.nextRecord C = .ok (some (rec, r')) ∧
      chk.order = declaredOrder K r ∧ chk.contigs = [] ∧
      chk.last = lastKeyed (declaredOrder K r) [] (recs.map Record.toLoc) ∧
      chk.OutOfOrder rec.toLoc ∧
      rec.toLoc.hasCoords = true ∧ rec.toLoc.start.posOk = true ∧ rec.toLoc.stop.posOk = true := by
  obtain ⟨_, r0, rec, chk, hnr, hord, hc, hl, _, hcause⟩ := value_error_cause hinit hinv hread
  rw [hcs] at hc hl
  rcases hcause with ⟨hne, _⟩ | ⟨h0, ho⟩
  · exact (hne hcs).elim
  · exact ⟨r0, rec, chk, hnr, hord, hc, hl, ho, h0, ho.posOk.2.2.1, ho.posOk.2.2.2⟩

/-- **C16 (a non-numeric position text is skipped).**  One step of the order-enforcing iteration,
    for a checker of a sortable order WITHOUT contig list (what `Reader.checker` builds from a
    header that declares `Coordinate` / `BarcodesAndCoordinate` and no contigs), at any point of
    the file: when the record `rec` the reader parses from its look-ahead line has its three
    coordinate columns and its `Start_Position` or `End_Position` is a text that `int()` cannot
    read, then the checker accepts it and is left UNCHANGED (it still remembers the previous keyed
    record), the record is yielded, and the iteration goes on with the next line.
    (Holds for every scheme; with the unrestricted scheme every value is a text, so this is the
    only way a position can be unreadable.  Before the change this was a `ValueError` that
    stopped the iteration.) -/
theorem bad_position_text_skipped {r r1 : Reader} {chk : Checker} {rec : Record}
    (acc : List Record) (fuel : Nat)
    (hs : chk.order.sortable = true) (hcs : chk.contigs = [])
    (hnr : r.nextRecord C = .ok (some (rec, r1)))
    (h0 : rec.toLoc.hasCoords = true)
    (hbad : (∃ s, rec.toLoc.start = .str s ∧ pyInt s = none) ∨
            (∃ s, rec.toLoc.stop = .str s ∧ pyInt s = none)) :
    chk.addRecord rec = .ok chk ∧
    Reader.iterate C K (fuel + 1) r chk acc = Reader.iterate C K fuel r1 chk (acc ++ [rec]) := by
  have hp : rec.toLoc.start.posOk = false ∨ rec.toLoc.stop.posOk = false := by
    rcases hbad with ⟨s, h1, h2⟩ | ⟨s, h1, h2⟩
    · exact .inl (by rw [h1]; simp [KV.posOk, h2])
    · exact .inr (by rw [h1]; simp [KV.posOk, h2])
  have hadd : chk.addRecord rec = .ok chk :=
    Checker.addRecord_bad_position hs h0 (.inl hcs) hp
  refine ⟨hadd, ?_⟩
  rw [Reader.iterate]
  simp only [hnr, hadd]

/-- the same with a contig list, provided the chromosome of the record is in it (otherwise the
    missing-contig `ValueError` comes first, as in `_CoordinateKey.__init__`) -/
theorem bad_position_text_skipped_contigs {r r1 : Reader} {chk : Checker} {rec : Record}
    (acc : List Record) (fuel : Nat)
    (hs : chk.order.sortable = true)
    (hnr : r.nextRecord C = .ok (some (rec, r1)))
    (h0 : rec.toLoc.hasCoords = true)
    (hchr : ∃ s, rec.toLoc.chrName = some s ∧ s ∈ chk.contigs)
    (hp : rec.toLoc.start.posOk = false ∨ rec.toLoc.stop.posOk = false) :
    chk.addRecord rec = .ok chk ∧
    Reader.iterate C K (fuel + 1) r chk acc = Reader.iterate C K fuel r1 chk (acc ++ [rec]) := by
  have hadd : chk.addRecord rec = .ok chk := Checker.addRecord_bad_position hs h0 (.inr hchr) hp
  refine ⟨hadd, ?_⟩
  rw [Reader.iterate]
  simp only [hnr, hadd]

/-- at the first data line of a freshly constructed reader whose header declares a sortable order
    without contigs: the whole-file reading continues after the bad record with an untouched
    checker -/
theorem bad_position_text_skipped_first {r1 : Reader} {rec : Record}
    (hs : (declaredOrder K r).sortable = true) (hcs : declaredContigs K r = [])
    (hnr : r.nextRecord C = .ok (some (rec, r1)))
    (h0 : rec.toLoc.hasCoords = true)
    (hbad : (∃ s, rec.toLoc.start = .str s ∧ pyInt s = none) ∨
            (∃ s, rec.toLoc.stop = .str s ∧ pyInt s = none)) :
    r.readAll C K = Reader.iterate C K (r.src.length + 1) r1 (r.checker K) [rec] :=
  (bad_position_text_skipped (C := C) (K := K) (chk := r.checker K) [] (r.src.length + 1)
    hs hcs hnr h0 hbad).2

theorem plainBase_of_decide {C : Ctx}
    (h : (match resolveSpec C.tbl "MafColumnRecord" with
          | some sp => sp.buildMethod == some "MafColumnRecord"
          | none => true) = true) : PlainBase C := by
  intro sp hsp
  rw [hsp] at h
  simpa using h

private theorem generated_plain :
    (match resolveSpec Generated.classTable "MafColumnRecord" with
     | some sp => sp.buildMethod == some "MafColumnRecord"
     | none => true) = true := by decide

/-- the class table generated from the repository satisfies `PlainBase` -/
theorem plainBase_generated (E : Enums) (H : FloatHost) : PlainBase ⟨Generated.classTable, E, H⟩ :=
  plainBase_of_decide generated_plain

/-- without a given scheme and with a registry whose lookup finds nothing, the reader is
    scheme-less as soon as there is a column-name line -/
theorem scheme_of_no_match (hinit : Reader.init C K R lines mode none = .ok r)
    (hnone : r.header.scheme K R = none) {l : Text} (hcol : (stripped lines)[headerLen K lines]? = some l) :
    r.scheme = some (noRestrictionsScheme ((splitOn '\t' l).map String.ofList)) := by
  obtain ⟨hd, hlogs, lg, _, _, rfl⟩ := init_ok hinit
  have hnone' : hd.scheme K R = none := hnone
  show schemeOf K R lines none hd = _
  unfold schemeOf colNamesOf initSch1 initSch2
  rw [hcol, hnone']
  simp [schemeless]

/-- C16 (kinds) for an order that is not sortable: the only exception is the Strict-mode
    `MafFormatException` -/
theorem kinds_unsortable (hg : ∀ g, given = some g → g.names.Nodup) (hR : ∀ s ∈ R.schemes, s.names.Nodup)
    (hinit : Reader.init C K R lines mode given = .ok r)
    (ho : (declaredOrder K r).sortable = false)
    {e : PyErr} (hread : r.readAll C K = (recs, some e, r')) :
    mode = some .strict ∧ ∃ tpe line, e = .format tpe line := by
  rcases kinds_partial hg hR hinit (.inl ho) hread with h | ⟨h, _⟩
  · exact h
  · rw [ho] at h; cases h

/-- **C16 (totality).**  Outside Strict mode and for a declared order that is not sortable, the
    whole file is read without any exception, and one record is returned per data line. -/
theorem nonstrict_unsorted_total (hg : ∀ g, given = some g → g.names.Nodup)
    (hR : ∀ s ∈ R.schemes, s.names.Nodup)
    (hinit : Reader.init C K R lines mode given = .ok r) (hm : mode ≠ some .strict)
    (ho : (declaredOrder K r).sortable = false) :
    ∃ recs r', r.readAll C K = (recs, none, r') ∧ recs.length = (dataLines K lines).length := by
  rcases hres : r.readAll C K with ⟨recs, oe, r'⟩
  cases oe with
  | some e => exact absurd (kinds_unsortable hg hR hinit ho hres).1 hm
  | none => exact ⟨recs, r', rfl, (count hinit hres).1⟩

/-- outside Strict mode the reader can always be constructed -/
theorem nonstrict_init_total (C : Ctx) (K : HConsts) (R : Registry) (lines : List Text)
    {mode : Option Mode} (given : Option Scheme) (hm : mode ≠ some .strict) :
    ∃ r, Reader.init C K R lines mode given = .ok r := by
  rcases init_kinds C K R lines mode given with h | ⟨h, _⟩
  · exact h
  · exact absurd h hm

/-! ### non-vacuity: the five-line example file of `Lemmas/ReaderExample.lean` -/
section examples
open Model.ReaderExample

/-- the hypotheses of `count` / `nonstrict_unsorted_total` are met by the example file (2 header
    lines, the column names, 2 data lines — one of them short), read in Silent mode: no exception,
    2 records -/
example : ∃ r recs r', Reader.init exC exK exR exLines (some .silent) none = .ok r ∧
    (declaredOrder exK r).sortable = false ∧
    r.readAll exC exK = (recs, none, r') ∧ recs.length = 2 ∧ (dataLines exK exLines).length = 2 := by
  obtain ⟨r, hr, hf⟩ := exists_ok_of_map (x := Reader.init exC exK exR exLines (some .silent) none)
    (f := fun r => (r.header.sortOrder exK).1.sortable) (b := false) (by decide)
  obtain ⟨recs, r', hread, hlen⟩ := nonstrict_unsorted_total (C := exC) (by intro g h; cases h)
    (by intro s h; cases h) hr (by decide) hf
  exact ⟨r, recs, r', hr, hf, hread, by rw [hlen]; decide, by decide⟩

/-- Strict mode on the same file: the construction itself fails with the first header error -/
example : Reader.init exC exK exR exLines (some .strict) none
    = .error (.format "HEADER_LINE_MISSING_SEPARATOR" (some 2)) := eq_error_of_errOf (by decide)

/-- the hypotheses of `kinds_schemeless` are met by a file declaring a sortable order -/
example : ∃ r, Reader.init exC exK exR exSorted (some .silent) none = .ok r ∧
    (declaredOrder exK r).sortable = true ∧
    r.scheme = some (noRestrictionsScheme ["Chromosome", "Start_Position", "End_Position"]) := by
  obtain ⟨r, hr, hf⟩ := exists_ok_of_map (x := Reader.init exC exK exR exSorted (some .silent) none)
    (f := fun r => ((r.header.sortOrder exK).1.sortable, r.scheme))
    (b := (true, some (noRestrictionsScheme ["Chromosome", "Start_Position", "End_Position"])))
    (by decide)
  simp only [Prod.mk.injEq] at hf
  exact ⟨r, hr, hf.1, hf.2⟩

example : PlainBase exC := plainBase_of_decide (by decide)

/-- `bad_position_text_skipped` on a concrete file: unrestricted scheme, `Coordinate` order, no
    contigs, second record with start `abc`.  All three records are returned, no exception. -/
example : ∃ r recs r', Reader.init exC exK exR exBadPos (some .silent) none = .ok r ∧
    (declaredOrder exK r).sortable = true ∧ declaredContigs exK r = [] ∧
    r.scheme = some (noRestrictionsScheme ["Chromosome", "Start_Position", "End_Position"]) ∧
    r.readAll exC exK = (recs, none, r') ∧ recs.length = 3 ∧
    (recs.map (fun rec => rec.toLoc.start)) = [.str "10".toList, .str "abc".toList, .str "30".toList] := by
  obtain ⟨r, hr, hf⟩ := exists_ok_of_map (x := Reader.init exC exK exR exBadPos (some .silent) none)
    (f := fun r => (r.header.sortOrder exK).1.sortable && decide ((r.header.sortOrder exK).2 = []) &&
      decide (r.scheme = some (noRestrictionsScheme ["Chromosome", "Start_Position", "End_Position"])) &&
      decide ((r.readAll exC exK).1.length = 3) && decide ((r.readAll exC exK).2.1 = none) &&
      decide ((r.readAll exC exK).1.map (fun rec => rec.toLoc.start) =
        [.str "10".toList, .str "abc".toList, .str "30".toList]))
    (b := true) (by decide)
  simp only [Bool.and_eq_true, decide_eq_true_eq] at hf
  obtain ⟨⟨⟨⟨⟨h1, h2⟩, h3⟩, h4⟩, h5⟩, h6⟩ := hf
  exact ⟨r, (r.readAll exC exK).1, (r.readAll exC exK).2.2, hr, h1, h2, h3,
    by rw [← h5], h4, h6⟩

/-- the hypotheses of `bad_position_text_skipped` are met at the second data line of that file -/
example : ∃ r r1 rec1 r2 rec2, Reader.init exC exK exR exBadPos (some .silent) none = .ok r ∧
    (r.checker exK).order.sortable = true ∧ (r.checker exK).contigs = [] ∧
    r.nextRecord exC = .ok (some (rec1, r1)) ∧ r1.nextRecord exC = .ok (some (rec2, r2)) ∧
    rec2.toLoc.hasCoords = true ∧ (∃ s, rec2.toLoc.start = .str s ∧ pyInt s = none) := by
  obtain ⟨r, hr, hf⟩ := exists_ok_of_map (x := Reader.init exC exK exR exBadPos (some .silent) none)
    (f := fun r => (r.checker exK).order.sortable && decide ((r.checker exK).contigs = []) &&
      (match r.nextRecord exC with
       | .ok (some (_, r1)) =>
         (match r1.nextRecord exC with
          | .ok (some (rec2, _)) =>
            rec2.toLoc.hasCoords && decide (rec2.toLoc.start = .str "abc".toList)
          | _ => false)
       | _ => false))
    (b := true) (by decide)
  simp only [Bool.and_eq_true, decide_eq_true_eq] at hf
  obtain ⟨⟨h1, h2⟩, h3⟩ := hf
  split at h3
  · rename_i rec1 r1 hn1
    split at h3
    · rename_i rec2 r2 hn2
      simp only [Bool.and_eq_true, decide_eq_true_eq] at h3
      exact ⟨r, r1, rec1, r2, rec2, hr, h1, h2, hn1, hn2, h3.1, _, h3.2, by decide⟩
    · cases h3
  · cases h3

/-- ... and the bad record does not reset what the checker remembers: a third record that is out
    of order relative to the FIRST one is still reported (`ValueError` after two records) -/
example : ∃ r, Reader.init exC exK exR exBadPosDesc (some .silent) none = .ok r ∧
    (r.readAll exC exK).1.length = 2 ∧ (r.readAll exC exK).2.1 = some .value := by
  obtain ⟨r, hr, hf⟩ := exists_ok_of_map (x := Reader.init exC exK exR exBadPosDesc (some .silent) none)
    (f := fun r => ((r.readAll exC exK).1.length, (r.readAll exC exK).2.1))
    (b := (2, some .value)) (by decide)
  simp only [Prod.mk.injEq] at hf
  exact ⟨r, hr, hf.1, hf.2⟩

end examples

end C16
