/-
  Helper lemmas for the external sorter model (`MafModel/Model/Sorter.lean`):
  `minHead`, `mergeK`, `sortChunk`, the `add`/`spill` state machine and the
  "two sorted permutations are pointwise key-equivalent" lemma.

  Throughout, `le a b := !lt b a`.  "Total" is `∀ a b, !lt b a ∨ !lt a b`
  and "transitive" is `∀ a b c, !lt b a → !lt c b → !lt c a`.
-/
import MafModel.Model.Sorter
import Batteries.Data.List.Basic

namespace SorterLemmas
open Model

variable {α : Type}

/-! ### generic list facts -/

theorem modify_length_append (f : β → β) (l₁ : List β) (c : β) (l₂ : List β) :
    (l₁ ++ c :: l₂).modify l₁.length f = l₁ ++ f c :: l₂ := by
  induction l₁ with
  | nil => simp
  | cons a l₁ ih => simp [ih]

theorem totalLen_eq_length_flatten (cs : List (List α)) :
    totalLen cs = cs.flatten.length := by
  simp [totalLen, List.length_flatten]

theorem totalLen_nil : totalLen ([] : List (List α)) = 0 := rfl

theorem totalLen_append (l₁ l₂ : List (List α)) :
    totalLen (l₁ ++ l₂) = totalLen l₁ + totalLen l₂ := by
  simp [totalLen]

theorem totalLen_cons (c : List α) (cs : List (List α)) :
    totalLen (c :: cs) = c.length + totalLen cs := by
  simp [totalLen]

theorem totalLen_of_forall_length {n : Nat} :
    ∀ {cs : List (List α)}, (∀ c ∈ cs, c.length = n) → totalLen cs = cs.length * n
  | [], _ => by simp [totalLen]
  | c :: cs, h => by
    rw [totalLen_cons, totalLen_of_forall_length (fun d hd => h d (List.mem_cons_of_mem _ hd)),
      h c List.mem_cons_self, List.length_cons, Nat.succ_mul, Nat.add_comm]

/-! ### `minHead` -/

theorem minHead_none {lt : α → α → Bool} {cs : List (List α)}
    (h : minHead lt cs = none) : ∀ c ∈ cs, c = [] := by
  induction cs with
  | nil => intro c hc; cases hc
  | cons c cs ih =>
    cases c with
    | nil =>
      cases hr : minHead lt cs with
      | none =>
        intro d hd
        rcases List.mem_cons.1 hd with rfl | hd
        · rfl
        · exact ih hr d hd
      | some p => simp [minHead, hr] at h
    | cons x t =>
      cases hr : minHead lt cs with
      | none => simp [minHead, hr] at h
      | some p =>
        obtain ⟨j, y⟩ := p
        simp only [minHead, hr] at h
        split at h <;> cases h

/-- the selected head really is the head of chunk number `i` -/
theorem minHead_some {lt : α → α → Bool} {cs : List (List α)} {i : Nat} {x : α}
    (h : minHead lt cs = some (i, x)) :
    ∃ l₁ t l₂, cs = l₁ ++ (x :: t) :: l₂ ∧ l₁.length = i := by
  induction cs generalizing i x with
  | nil => cases h
  | cons c cs ih =>
    cases c with
    | nil =>
      cases hr : minHead lt cs with
      | none => simp [minHead, hr] at h
      | some p =>
        obtain ⟨j, y⟩ := p
        simp only [minHead, hr, Option.map_some, Option.some.injEq, Prod.mk.injEq] at h
        obtain ⟨rfl, rfl⟩ := h
        obtain ⟨l₁, t, l₂, rfl, rfl⟩ := ih hr
        exact ⟨[] :: l₁, t, l₂, rfl, rfl⟩
    | cons z t =>
      cases hr : minHead lt cs with
      | none =>
        simp only [minHead, hr, Option.some.injEq, Prod.mk.injEq] at h
        obtain ⟨rfl, rfl⟩ := h
        exact ⟨[], t, cs, rfl, rfl⟩
      | some p =>
        obtain ⟨j, y⟩ := p
        simp only [minHead, hr] at h
        split at h
        · simp only [Option.some.injEq, Prod.mk.injEq] at h
          obtain ⟨rfl, rfl⟩ := h
          obtain ⟨l₁, t', l₂, rfl, rfl⟩ := ih hr
          exact ⟨(z :: t) :: l₁, t', l₂, rfl, rfl⟩
        · simp only [Option.some.injEq, Prod.mk.injEq] at h
          obtain ⟨rfl, rfl⟩ := h
          exact ⟨[], t, cs, rfl, rfl⟩

/-- the selected head is `le` every chunk head -/
theorem minHead_le_heads {lt : α → α → Bool}
    (total : ∀ a b, (!lt b a) = true ∨ (!lt a b) = true)
    (trans : ∀ a b c, (!lt b a) = true → (!lt c b) = true → (!lt c a) = true)
    {cs : List (List α)} {i : Nat} {x : α}
    (h : minHead lt cs = some (i, x)) :
    ∀ y t, (y :: t) ∈ cs → (!lt y x) = true := by
  induction cs generalizing i x with
  | nil => cases h
  | cons c cs ih =>
    cases c with
    | nil =>
      cases hr : minHead lt cs with
      | none => simp [minHead, hr] at h
      | some p =>
        obtain ⟨j, y⟩ := p
        simp only [minHead, hr, Option.map_some, Option.some.injEq, Prod.mk.injEq] at h
        obtain ⟨rfl, rfl⟩ := h
        intro y' t' hm
        rcases List.mem_cons.1 hm with hm | hm
        · cases hm
        · exact ih hr y' t' hm
    | cons z t =>
      have refl : ∀ a, (!lt a a) = true := fun a => (total a a).elim id id
      cases hr : minHead lt cs with
      | none =>
        simp only [minHead, hr, Option.some.injEq, Prod.mk.injEq] at h
        obtain ⟨rfl, rfl⟩ := h
        intro y' t' hm
        rcases List.mem_cons.1 hm with hm | hm
        · cases hm; exact refl _
        · have := minHead_none hr _ hm; cases this
      | some p =>
        obtain ⟨j, y⟩ := p
        simp only [minHead, hr] at h
        split at h
        · rename_i hlt
          simp only [Option.some.injEq, Prod.mk.injEq] at h
          obtain ⟨rfl, rfl⟩ := h
          intro y' t' hm
          rcases List.mem_cons.1 hm with hm | hm
          · cases hm
            rcases total z y with h1 | h1
            · simp [hlt] at h1
            · exact h1
          · exact ih hr y' t' hm
        · rename_i hlt
          simp only [Option.some.injEq, Prod.mk.injEq] at h
          obtain ⟨rfl, rfl⟩ := h
          intro y' t' hm
          rcases List.mem_cons.1 hm with hm | hm
          · cases hm; exact refl _
          · have h1 : (!lt y' y) = true := ih hr y' t' hm
            have h2 : (!lt y z) = true := by simpa using hlt
            exact trans _ _ _ h2 h1

/-- with sorted chunks the selected head is `le` every item -/
theorem minHead_le_all {lt : α → α → Bool}
    (total : ∀ a b, (!lt b a) = true ∨ (!lt a b) = true)
    (trans : ∀ a b c, (!lt b a) = true → (!lt c b) = true → (!lt c a) = true)
    {cs : List (List α)} {i : Nat} {x : α}
    (hs : ∀ c ∈ cs, c.Pairwise (fun a b => (!lt b a) = true))
    (h : minHead lt cs = some (i, x)) :
    ∀ y ∈ cs.flatten, (!lt y x) = true := by
  intro y hy
  obtain ⟨c, hc, hyc⟩ := List.mem_flatten.1 hy
  cases c with
  | nil => cases hyc
  | cons z t =>
    have hz := minHead_le_heads total trans h z t hc
    rcases List.mem_cons.1 hyc with rfl | hyt
    · exact hz
    · exact trans x z y hz (List.rel_of_pairwise_cons (hs _ hc) hyt)

/-! ### `mergeK` -/

theorem mergeK_perm (lt : α → α → Bool) :
    ∀ (fuel : Nat) (cs : List (List α)), totalLen cs ≤ fuel →
      (mergeK lt fuel cs).Perm cs.flatten := by
  intro fuel
  induction fuel with
  | zero =>
    intro cs h
    have : cs.flatten = [] := by
      apply List.eq_nil_of_length_eq_zero
      rw [← totalLen_eq_length_flatten]; omega
    rw [this]; simp [mergeK]
  | succ fuel ih =>
    intro cs h
    cases hm : minHead lt cs with
    | none =>
      have : cs.flatten = [] := by
        apply List.flatten_eq_nil_iff.2
        exact minHead_none hm
      rw [this]; simp [mergeK, hm]
    | some p =>
      obtain ⟨i, x⟩ := p
      obtain ⟨l₁, t, l₂, rfl, rfl⟩ := minHead_some hm
      simp only [mergeK, hm, modify_length_append, List.tail_cons]
      have hlen : totalLen (l₁ ++ t :: l₂) ≤ fuel := by
        simp only [totalLen_append, totalLen_cons, List.length_cons] at h ⊢
        omega
      refine ((ih _ hlen).cons x).trans ?_
      simp only [List.flatten_append, List.flatten_cons, List.cons_append]
      exact List.perm_middle.symm

theorem mergeK_sorted {lt : α → α → Bool}
    (total : ∀ a b, (!lt b a) = true ∨ (!lt a b) = true)
    (trans : ∀ a b c, (!lt b a) = true → (!lt c b) = true → (!lt c a) = true) :
    ∀ (fuel : Nat) (cs : List (List α)),
      (∀ c ∈ cs, c.Pairwise (fun a b => (!lt b a) = true)) → totalLen cs ≤ fuel →
      (mergeK lt fuel cs).Pairwise (fun a b => (!lt b a) = true) := by
  intro fuel
  induction fuel with
  | zero => intro cs _ _; simp [mergeK]
  | succ fuel ih =>
    intro cs hs h
    cases hm : minHead lt cs with
    | none => simp [mergeK, hm]
    | some p =>
      obtain ⟨i, x⟩ := p
      have hall := minHead_le_all total trans hs hm
      obtain ⟨l₁, t, l₂, rfl, rfl⟩ := minHead_some hm
      simp only [mergeK, hm, modify_length_append, List.tail_cons]
      have hlen : totalLen (l₁ ++ t :: l₂) ≤ fuel := by
        simp only [totalLen_append, totalLen_cons, List.length_cons] at h ⊢
        omega
      have hs' : ∀ c ∈ l₁ ++ t :: l₂, c.Pairwise (fun a b => (!lt b a) = true) := by
        intro c hc
        rcases List.mem_append.1 hc with hc | hc
        · exact hs c (List.mem_append_left _ hc)
        · rcases List.mem_cons.1 hc with rfl | hc
          · exact (List.pairwise_cons.1
              (hs (x :: c) (List.mem_append_right _ List.mem_cons_self))).2
          · exact hs c (List.mem_append_right _ (List.mem_cons_of_mem _ hc))
      refine List.pairwise_cons.2 ⟨?_, ih _ hs' hlen⟩
      intro y hy
      have hy' : y ∈ (l₁ ++ t :: l₂).flatten := (mergeK_perm lt fuel _ hlen).subset hy
      apply hall
      simp only [List.flatten_append, List.flatten_cons, List.mem_append, List.mem_cons] at hy' ⊢
      rcases hy' with h1 | h1 | h1
      · exact Or.inl h1
      · exact Or.inr (Or.inl (Or.inr h1))
      · exact Or.inr (Or.inr h1)

/-! ### `sortChunk` -/

theorem sortChunk_perm (lt : α → α → Bool) (l : List α) : (sortChunk lt l).Perm l :=
  List.mergeSort_perm l _

theorem sortChunk_length (lt : α → α → Bool) (l : List α) : (sortChunk lt l).length = l.length :=
  (sortChunk_perm lt l).length_eq

theorem sortChunk_sorted {lt : α → α → Bool}
    (total : ∀ a b, (!lt b a) = true ∨ (!lt a b) = true)
    (trans : ∀ a b c, (!lt b a) = true → (!lt c b) = true → (!lt c a) = true)
    (l : List α) : (sortChunk lt l).Pairwise (fun a b => (!lt b a) = true) := by
  unfold sortChunk
  apply List.pairwise_mergeSort (le := fun a b => !lt b a)
  · intro a b c hab hbc; exact trans a b c hab hbc
  · intro a b
    rcases total a b with h | h <;> simp [h]

/-! ### the `add` state machine -/

/-- state after adding `xs` to a fresh sorter -/
def run (lt : α → α → Bool) (cap : Nat) (sp : Bool) (xs : List α) : Sorter α :=
  xs.foldl (Sorter.add lt) { cap := cap, alwaysSpill := sp }

theorem sortAll_eq (lt : α → α → Bool) (cap : Nat) (sp : Bool) (xs : List α) :
    sortAll lt cap sp xs = (run lt cap sp xs).iter lt := rfl

/-- the invariant carried by `add` -/
structure Inv (lt : α → α → Bool) (cap : Nat) (sp : Bool) (xs : List α) (s : Sorter α) : Prop where
  cap_eq : s.cap = cap
  sp_eq : s.alwaysSpill = sp
  stash_lt : s.stash.length < cap
  files_len : ∀ f ∈ s.files, f.length = cap
  files_chunk : ∀ f ∈ s.files, ∃ l, f = sortChunk lt l
  content : (s.files.flatten ++ s.stash).Perm xs

theorem inv_init (lt : α → α → Bool) {cap : Nat} (hcap : 1 ≤ cap) (sp : Bool) :
    Inv lt cap sp [] ({ cap := cap, alwaysSpill := sp } : Sorter α) :=
  ⟨rfl, rfl, hcap, by simp, by simp, by simp⟩

theorem inv_add (lt : α → α → Bool) {cap : Nat} (hcap : 1 ≤ cap) {sp : Bool} {xs : List α}
    {s : Sorter α} (ih : Inv lt cap sp xs s) (x : α) :
    Inv lt cap sp (xs ++ [x]) (s.add lt x) := by
  obtain ⟨h1, h2, h3, h4, h5, h6⟩ := ih
  have hp : (s.files.flatten ++ (s.stash ++ [x])).Perm (xs ++ [x]) := by
    rw [← List.append_assoc]; exact h6.append_right _
  unfold Sorter.add
  by_cases hfull : (s.stash ++ [x]).length = s.cap
  · have hne : (s.stash ++ [x]).isEmpty = false := by simp
    simp only [hfull, ↓reduceIte, Sorter.spill, hne, Bool.false_eq_true]
    refine ⟨h1, h2, by simp only [List.length_nil]; omega, ?_, ?_, ?_⟩
    · intro f hf
      rcases List.mem_append.1 hf with hf | hf
      · exact h4 f hf
      · rw [List.mem_singleton.1 hf, sortChunk_length, hfull, h1]
    · intro f hf
      rcases List.mem_append.1 hf with hf | hf
      · exact h5 f hf
      · exact ⟨_, List.mem_singleton.1 hf⟩
    · simp only [List.flatten_append, List.flatten_cons, List.flatten_nil, List.append_nil]
      exact ((sortChunk_perm lt _).append_left _).trans hp
  · simp only [hfull, ↓reduceIte]
    refine ⟨h1, h2, ?_, h4, h5, hp⟩
    simp only [List.length_append, List.length_cons, List.length_nil] at hfull ⊢
    omega

theorem inv_foldl (lt : α → α → Bool) {cap : Nat} (hcap : 1 ≤ cap) {sp : Bool} :
    ∀ (ys xs : List α) (s : Sorter α), Inv lt cap sp xs s →
      Inv lt cap sp (xs ++ ys) (ys.foldl (Sorter.add lt) s)
  | [], xs, s, h => by simpa using h
  | y :: ys, xs, s, h => by
    have := inv_foldl lt hcap ys (xs ++ [y]) (s.add lt y) (inv_add lt hcap h y)
    simpa using this

theorem inv_run (lt : α → α → Bool) {cap : Nat} (hcap : 1 ≤ cap) (sp : Bool) (xs : List α) :
    Inv lt cap sp xs (run lt cap sp xs) := by
  have := inv_foldl lt hcap xs [] _ (inv_init lt hcap sp)
  simpa [run] using this

/-! ### `iter` -/

theorem iter_perm (lt : α → α → Bool) (s : Sorter α) :
    (s.iter lt).Perm (s.files.flatten ++ s.stash) := by
  unfold Sorter.iter
  split
  · refine (mergeK_perm lt _ _ (Nat.le_refl _)).trans ?_
    unfold Sorter.spill
    split
    · rename_i he
      have : s.stash = [] := by simpa using he
      simp [this]
    · simp only [List.flatten_append, List.flatten_cons, List.flatten_nil, List.append_nil]
      exact (sortChunk_perm lt _).append_left _
  · rename_i hc
    have hf : s.files = [] := by
      cases hfs : s.files with
      | nil => rfl
      | cons a l => simp [hfs] at hc
    rw [hf]
    exact sortChunk_perm lt _

theorem iter_sorted {lt : α → α → Bool}
    (total : ∀ a b, (!lt b a) = true ∨ (!lt a b) = true)
    (trans : ∀ a b c, (!lt b a) = true → (!lt c b) = true → (!lt c a) = true)
    (s : Sorter α) (hs : ∀ f ∈ s.files, f.Pairwise (fun a b => (!lt b a) = true)) :
    (s.iter lt).Pairwise (fun a b => (!lt b a) = true) := by
  unfold Sorter.iter
  split
  · apply mergeK_sorted total trans _ _ _ (Nat.le_refl _)
    unfold Sorter.spill
    split
    · exact hs
    · intro f hf
      rcases List.mem_append.1 hf with hf | hf
      · exact hs f hf
      · rw [List.mem_singleton.1 hf]; exact sortChunk_sorted total trans _
  · exact sortChunk_sorted total trans _

/-! ### two sorted permutations are pointwise key-equivalent -/

theorem forall₂_of_all {R : α → α → Prop} :
    ∀ {l₁ l₂ : List α}, l₁.length = l₂.length → (∀ a ∈ l₁, ∀ b ∈ l₂, R a b) →
      List.Forall₂ R l₁ l₂
  | [], [], _, _ => .nil
  | [], _ :: _, h, _ => by cases h
  | _ :: _, [], h, _ => by cases h
  | a :: l₁, b :: l₂, h, hr =>
    .cons (hr a List.mem_cons_self b List.mem_cons_self)
      (forall₂_of_all (by simpa using h)
        (fun a' ha' b' hb' => hr a' (List.mem_cons_of_mem _ ha') b' (List.mem_cons_of_mem _ hb')))

theorem forall₂_length_eq {R : α → α → Prop} :
    ∀ {l₁ l₂ : List α}, List.Forall₂ R l₁ l₂ → l₁.length = l₂.length
  | _, _, .nil => rfl
  | _, _, .cons _ t => by simp [forall₂_length_eq t]

theorem forall₂_append {R : α → α → Prop} :
    ∀ {l₁ l₂ m₁ m₂ : List α}, List.Forall₂ R l₁ l₂ → List.Forall₂ R m₁ m₂ →
      List.Forall₂ R (l₁ ++ m₁) (l₂ ++ m₂)
  | _, _, _, _, .nil, hm => hm
  | _, _, _, _, .cons h t, hm => .cons h (forall₂_append t hm)

/-- split the left list of a `Forall₂` along an append on the right -/
theorem forall₂_append_right_split {R : α → α → Prop} :
    ∀ {l : List α} {u v : List α}, List.Forall₂ R l (u ++ v) →
      ∃ p q, l = p ++ q ∧ List.Forall₂ R p u ∧ List.Forall₂ R q v
  | l, [], v, h => ⟨[], l, rfl, .nil, h⟩
  | _, b :: u, v, .cons (a := a) (l₁ := l) hab h => by
    obtain ⟨p, q, rfl, hp, hq⟩ := forall₂_append_right_split h
    exact ⟨a :: p, q, rfl, .cons hab hp, hq⟩

theorem forall₂_mem_left {R : α → α → Prop} :
    ∀ {l₁ l₂ : List α}, List.Forall₂ R l₁ l₂ → ∀ a ∈ l₁, ∃ b ∈ l₂, R a b
  | _, _, .nil, a, ha => by cases ha
  | _, _, .cons (b := b) h t, a, ha => by
    rcases List.mem_cons.1 ha with rfl | ha
    · exact ⟨b, List.mem_cons_self, h⟩
    · obtain ⟨b', hb', hr⟩ := forall₂_mem_left t a ha
      exact ⟨b', List.mem_cons_of_mem _ hb', hr⟩

theorem sorted_perm_forall₂ {lt : α → α → Bool}
    (total : ∀ a b, (!lt b a) = true ∨ (!lt a b) = true)
    (trans : ∀ a b c, (!lt b a) = true → (!lt c b) = true → (!lt c a) = true) :
    ∀ {l₁ l₂ : List α}, l₁.Perm l₂ →
      l₁.Pairwise (fun a b => (!lt b a) = true) → l₂.Pairwise (fun a b => (!lt b a) = true) →
      List.Forall₂ (fun a b => (!lt a b) = true ∧ (!lt b a) = true) l₁ l₂ := by
  intro l₁
  induction l₁ with
  | nil => intro l₂ hp _ _; have := hp.symm.eq_nil; subst this; exact .nil
  | cons a l₁ ih =>
    intro l₂ hp hs₁ hs₂
    have ha : a ∈ l₂ := hp.subset List.mem_cons_self
    obtain ⟨u, v, rfl⟩ := List.append_of_mem ha
    have hp' : l₁.Perm (u ++ v) := (hp.trans List.perm_middle).cons_inv
    have hs₂' := List.pairwise_append.1 hs₂
    have huv : (u ++ v).Pairwise (fun a b => (!lt b a) = true) :=
      List.pairwise_append.2 ⟨hs₂'.1, (List.pairwise_cons.1 hs₂'.2.1).2,
        fun x hx y hy => hs₂'.2.2 x hx y (List.mem_cons_of_mem _ hy)⟩
    have hs₁' := List.pairwise_cons.1 hs₁
    have ih' := ih hp' hs₁'.2 huv
    obtain ⟨p, q, rfl, hpu, hqv⟩ := forall₂_append_right_split ih'
    -- every element of `u` is equivalent to `a`
    have hu : ∀ x ∈ u, (!lt a x) = true ∧ (!lt x a) = true := by
      intro x hx
      exact ⟨hs₂'.2.2 x hx a List.mem_cons_self,
        hs₁'.1 x (hp'.symm.subset (List.mem_append_left _ hx))⟩
    have hpa : ∀ x ∈ p, (!lt a x) = true ∧ (!lt x a) = true := by
      intro x hx
      obtain ⟨y, hy, hxy⟩ := forall₂_mem_left hpu x hx
      obtain ⟨h1, h2⟩ := hu y hy
      exact ⟨trans _ _ _ hxy.2 h1, trans _ _ _ h2 hxy.1⟩
    have haa : (!lt a a) = true := (total a a).elim id id
    have hL : ∀ x ∈ a :: p, (!lt a x) = true ∧ (!lt x a) = true := by
      intro x hx
      rcases List.mem_cons.1 hx with rfl | hx
      · exact ⟨haa, haa⟩
      · exact hpa x hx
    have hR : ∀ x ∈ u ++ [a], (!lt a x) = true ∧ (!lt x a) = true := by
      intro x hx
      rcases List.mem_append.1 hx with hx | hx
      · exact hu x hx
      · rw [List.mem_singleton.1 hx]; exact ⟨haa, haa⟩
    have hlen : (a :: p).length = (u ++ [a]).length := by
      simp [forall₂_length_eq hpu]
    have hfront : List.Forall₂ (fun a b => (!lt a b) = true ∧ (!lt b a) = true)
        (a :: p) (u ++ [a]) :=
      forall₂_of_all hlen (fun x hx y hy =>
        ⟨trans _ _ _ (hR y hy).1 (hL x hx).2, trans _ _ _ (hL x hx).1 (hR y hy).2⟩)
    have := forall₂_append hfront hqv
    simpa using this

end SorterLemmas
