/-
  Lemmas about the overlap iterator model (`MafModel/Model/Overlap.lean`, first half):
  `minKey`, `sweepPass`, `sweep`, `ovNext`, `ovAll`.

  The key type `κ` is abstract; `OvOps.Lawful ops cls` says the order `ops.lt`
  is the lexicographic order on (class, start, stop) for a class function `cls`
  into a linear order, and `ops.same` is equality of classes.

  Structure:
  * key-order facts from `Lawful` (`lt_irrefl`, `le_trans`, `beyond_of_not_overlapsHead`, …);
  * `minKey` returns a present head that is `≤` every present head;
  * `Pass` / `pass_spec`: `sweepPass` as an inductive relation, with its structural lemmas
    (lengths, `zipWith_appendTaken`, `suffix`, `idle`, `productive`);
  * `SweepR` / `sweep_spec`: `sweep` as a relation; fuel `> totalLen' iters` reaches the exit;
  * `Inv`: the sweep invariant (absorbed items have `lo`'s class, end by `hi`, are linked to `lo`,
    and together with `lo` cover `[lo.start, hi]`), `Pass.inv`, `SweepR.inv`, `SweepR.lo_mem`,
    `SweepR.beyond` (exit: all remaining items lie beyond `hi`);
  * `GroupSpec` / `ovNext_groupSpec`: what one emitted group satisfies;
  * `Groups` / `ovAll_groups`: `ovAll` as a chain of `GroupSpec`s until exhaustion (fuel suffices),
    and the list-level consequences (`partition`, `mem_iff`, `linked`, `separated`);
  * `OvOps.comap`, `ovAll_map`: the iterator commutes with relabelling; `tagInputs`: occurrences.
-/
import Mathlib.Order.Defs.LinearOrder
import MafModel.Model.Overlap

namespace Model

variable {κ γ : Type}

/-! ### hypotheses -/

/-- every input is sorted by the key order (`a` before `b` implies `¬ b < a`) -/
def SortedInputs (ops : OvOps κ) (iters : List (List κ)) : Prop :=
  ∀ l ∈ iters, l.Pairwise (fun a b => ops.lt b a = false)

/-- every item of every input satisfies `P` -/
def AllItems (P : κ → Prop) (iters : List (List κ)) : Prop :=
  ∀ l ∈ iters, ∀ k ∈ l, P k

/-- an item is a (non-empty) closed interval -/
def OvOps.Closed (ops : OvOps κ) (k : κ) : Prop := ops.start k ≤ ops.stop k

/-- every item of every input is a closed interval `start ≤ stop` -/
def ClosedInputs (ops : OvOps κ) (iters : List (List κ)) : Prop :=
  AllItems ops.Closed iters

/-- two items overlap: same class and the closed intervals share a point -/
def Overlap (ops : OvOps κ) (cls : κ → γ) (a b : κ) : Prop :=
  cls a = cls b ∧ ops.start a ≤ ops.stop b ∧ ops.start b ≤ ops.stop a

section
variable [LT γ]

/-- `ops.lt` is the lexicographic order on (class, start, stop); `ops.same` compares classes. -/
structure OvOps.Lawful (ops : OvOps κ) (cls : κ → γ) : Prop where
  same_iff : ∀ a b, ops.same a b = true ↔ cls a = cls b
  lt_iff : ∀ a b, ops.lt a b = true ↔
    cls a < cls b ∨ (cls a = cls b ∧ (ops.start a < ops.start b ∨
      (ops.start a = ops.start b ∧ ops.stop a < ops.stop b)))

/-- `b` lies strictly beyond the running interval `[lo.start, hi]` of `lo`'s class:
    its class is larger, or it has the same class and starts after `hi`. -/
def Beyond (ops : OvOps κ) (cls : κ → γ) (lo : κ) (hi : Int) (b : κ) : Prop :=
  cls lo < cls b ∨ (cls lo = cls b ∧ hi < ops.start b)

/-- `a` lies strictly before `b`: smaller class, or same class and `a` ends before `b` starts. -/
def Before (ops : OvOps κ) (cls : κ → γ) (a b : κ) : Prop :=
  cls a < cls b ∨ (cls a = cls b ∧ ops.stop a < ops.start b)

end

/-- `Linked S a b`: a chain `a = x₀, x₁, …, xₙ = b` of members of `S`, consecutive ones overlapping. -/
inductive Linked (ops : OvOps κ) (cls : κ → γ) (S : κ → Prop) : κ → κ → Prop
  | refl {a : κ} : S a → Linked ops cls S a a
  | tail {a b c : κ} : Linked ops cls S a b → S c → Overlap ops cls b c → Linked ops cls S a c

section order
variable {ops : OvOps κ} {cls : κ → γ}

theorem Overlap.symm {a b : κ} (h : Overlap ops cls a b) : Overlap ops cls b a :=
  ⟨h.1.symm, h.2.2, h.2.1⟩

theorem Overlap.refl_of_closed {a : κ} (h : ops.Closed a) : Overlap ops cls a a :=
  ⟨rfl, h, h⟩

namespace Linked

theorem mono {S T : κ → Prop} (hST : ∀ x, S x → T x) {a b : κ} (h : Linked ops cls S a b) :
    Linked ops cls T a b := by
  induction h with
  | refl h => exact .refl (hST _ h)
  | tail _ hc ho ih => exact .tail ih (hST _ hc) ho

theorem left_mem {S : κ → Prop} {a b : κ} (h : Linked ops cls S a b) : S a := by
  induction h with
  | refl h => exact h
  | tail _ _ _ ih => exact ih

theorem right_mem {S : κ → Prop} {a b : κ} (h : Linked ops cls S a b) : S b := by
  cases h with
  | refl h => exact h
  | tail _ hc _ => exact hc

theorem trans {S : κ → Prop} {a b c : κ} (h1 : Linked ops cls S a b) (h2 : Linked ops cls S b c) :
    Linked ops cls S a c := by
  induction h2 with
  | refl _ => exact h1
  | tail _ hc ho ih => exact .tail ih hc ho

theorem head {S : κ → Prop} {a b c : κ} (ha : S a) (ho : Overlap ops cls a b)
    (h : Linked ops cls S b c) : Linked ops cls S a c :=
  trans (.tail (.refl ha) h.left_mem ho) h

theorem symm {S : κ → Prop} {a b : κ} (h : Linked ops cls S a b) : Linked ops cls S b a := by
  induction h with
  | refl h => exact .refl h
  | tail hab hc ho ih => exact head hc ho.symm ih

end Linked

variable [LinearOrder γ]

theorem Before.not_overlap {a b : κ} (h : Before ops cls a b) : ¬ Overlap ops cls a b := by
  intro ho
  unfold Before at h; unfold Overlap at ho
  grind

theorem Before.not_overlap' {a b : κ} (h : Before ops cls a b) : ¬ Overlap ops cls b a :=
  fun ho => h.not_overlap ho.symm

theorem Before.irrefl_of_closed {a : κ} (hc : ops.Closed a) : ¬ Before ops cls a a := by
  unfold Before OvOps.Closed at *
  grind

namespace OvOps.Lawful
variable (L : ops.Lawful cls)
include L

theorem lt_irrefl (a : κ) : ops.lt a a = false := by
  have := L.lt_iff a a
  grind

/-- `a ≤ b → b ≤ c → a ≤ c` for the key order, `x ≤ y` being `lt y x = false` -/
theorem le_trans {a b c : κ} (h1 : ops.lt b a = false) (h2 : ops.lt c b = false) :
    ops.lt c a = false := by
  have := L.lt_iff b a
  have := L.lt_iff c b
  have := L.lt_iff c a
  grind

theorem lt_asymm {a b : κ} (h : ops.lt a b = true) : ops.lt b a = false := by
  have := L.lt_iff a b
  have := L.lt_iff b a
  grind

theorem same_self (a : κ) : ops.same a a = true := (L.same_iff a a).2 rfl

theorem overlapsHead_iff {lo : κ} {hi : Int} {k : κ} :
    overlapsHead ops lo hi k = true ↔
      cls lo = cls k ∧ ops.start lo ≤ ops.start k ∧ ops.start k ≤ hi := by
  simp [overlapsHead, L.same_iff, and_assoc]

theorem overlapsHead_self {lo : κ} {hi : Int} (hc : ops.Closed lo) (hhi : ops.stop lo ≤ hi) :
    overlapsHead ops lo hi lo = true := by
  rw [L.overlapsHead_iff]
  unfold OvOps.Closed at hc
  exact ⟨rfl, Int.le_refl _, by omega⟩

/-- a head that is `≥ lo` in key order and fails the overlap test lies beyond `[lo.start, hi]` -/
theorem beyond_of_not_overlapsHead {lo : κ} {hi : Int} {h : κ} (hle : ops.lt h lo = false)
    (hno : overlapsHead ops lo hi h = false) : Beyond ops cls lo hi h := by
  have h1 := L.lt_iff h lo
  have h2 := L.overlapsHead_iff (lo := lo) (hi := hi) (k := h)
  unfold Beyond
  grind

theorem beyond_mono {lo : κ} {hi : Int} {h b : κ} (hb : Beyond ops cls lo hi h)
    (hle : ops.lt b h = false) : Beyond ops cls lo hi b := by
  have h1 := L.lt_iff b h
  unfold Beyond at *
  grind

theorem lt_of_before {a b : κ} (hc : ops.Closed a) (h : Before ops cls a b) :
    ops.lt a b = true := by
  have h1 := L.lt_iff a b
  unfold Before OvOps.Closed at *
  grind

end OvOps.Lawful
end order

/-! ### `heads` and `minKey` -/

section structural
variable {ops : OvOps κ}

theorem mem_heads {k : κ} {iters : List (List κ)} :
    some k ∈ heads iters ↔ ∃ l ∈ iters, l.head? = some k := by
  simp [heads]

theorem mem_heads_cons {k : κ} {l : List κ} {iters : List (List κ)} :
    some k ∈ heads (l :: iters) ↔ l.head? = some k ∨ some k ∈ heads iters := by
  simp [heads, eq_comm]

theorem minKey_eq_none {hs : List (Option κ)} :
    minKey ops hs = none ↔ ∀ o ∈ hs, o = none := by
  induction hs with
  | nil => simp [minKey]
  | cons o r ih =>
    cases o with
    | none => simp [minKey, ih]
    | some k =>
      simp only [minKey]
      split <;> (try split) <;> simp

theorem minKey_mem {hs : List (Option κ)} {m : κ} (h : minKey ops hs = some m) : some m ∈ hs := by
  induction hs with
  | nil => simp [minKey] at h
  | cons o r ih =>
    cases o with
    | none => simp only [minKey] at h; exact List.mem_cons_of_mem _ (ih h)
    | some k =>
      simp only [minKey] at h
      split at h
      · simp_all
      · rename_i m' hm'
        split at h
        · cases h; exact List.mem_cons_of_mem _ (ih hm')
        · simp_all

theorem heads_all_none {iters : List (List κ)} (h : ∀ o ∈ heads iters, o = none) :
    ∀ l ∈ iters, l = [] := by
  intro l hl
  have := h l.head? (by simp only [heads]; exact List.mem_map_of_mem hl)
  simpa using this

/-! ### one pass (`sweepPass`) as a relation -/

/-- the running end after absorbing an item that ends at `s` -/
def bump (hi s : Int) : Int := if hi < s then s else hi

theorem le_bump (hi s : Int) : hi ≤ bump hi s := by unfold bump; split <;> omega
theorem le_bump' (hi s : Int) : s ≤ bump hi s := by unfold bump; split <;> omega
theorem bump_le {hi s b : Int} (h1 : hi ≤ b) (h2 : s ≤ b) : bump hi s ≤ b := by
  unfold bump; split <;> omega

/-- `Pass ops lo hi iters hi' t r`: one pass starting with running end `hi` over `iters`
    ends with running end `hi'`, absorbed heads `t` and remaining inputs `r`. -/
inductive Pass (ops : OvOps κ) (lo : κ) :
    Int → List (List κ) → Int → List (Option κ) → List (List κ) → Prop
  | nil {hi : Int} : Pass ops lo hi [] hi [] []
  | empty {hi : Int} {rest : List (List κ)} {hi' : Int} {t : List (Option κ)} {r : List (List κ)} :
      Pass ops lo hi rest hi' t r → Pass ops lo hi ([] :: rest) hi' (none :: t) ([] :: r)
  | take {hi : Int} {k : κ} {ks : List κ} {rest : List (List κ)} {hi' : Int}
      {t : List (Option κ)} {r : List (List κ)} :
      overlapsHead ops lo hi k = true → Pass ops lo (bump hi (ops.stop k)) rest hi' t r →
      Pass ops lo hi ((k :: ks) :: rest) hi' (some k :: t) (ks :: r)
  | skip {hi : Int} {k : κ} {ks : List κ} {rest : List (List κ)} {hi' : Int}
      {t : List (Option κ)} {r : List (List κ)} :
      overlapsHead ops lo hi k = false → Pass ops lo hi rest hi' t r →
      Pass ops lo hi ((k :: ks) :: rest) hi' (none :: t) ((k :: ks) :: r)

theorem pass_spec (lo : κ) (hi : Int) (iters : List (List κ)) :
    Pass ops lo hi iters (sweepPass ops lo hi iters).1 (sweepPass ops lo hi iters).2.1
      (sweepPass ops lo hi iters).2.2 := by
  induction iters generalizing hi with
  | nil => exact .nil
  | cons l rest ih =>
    cases l with
    | nil => simp only [sweepPass]; exact .empty (ih hi)
    | cons k ks =>
      simp only [sweepPass]
      split
      · rename_i hk; exact .take hk (ih _)
      · rename_i hk; exact .skip (by simpa using hk) (ih _)

namespace Pass
variable {lo : κ} {hi hi' : Int} {iters r : List (List κ)} {t : List (Option κ)}

theorem length_t (h : Pass ops lo hi iters hi' t r) : t.length = iters.length := by
  induction h <;> simp [*]

theorem length_r (h : Pass ops lo hi iters hi' t r) : r.length = iters.length := by
  induction h <;> simp [*]

theorem hi_le (h : Pass ops lo hi iters hi' t r) : hi ≤ hi' := by
  induction h with
  | nil => exact Int.le_refl _
  | empty _ ih => exact ih
  | take _ _ ih => exact Int.le_trans (le_bump _ _) ih
  | skip _ _ ih => exact ih

/-- the absorbed heads put back in front of the remaining inputs give the inputs -/
theorem zipWith_appendTaken (h : Pass ops lo hi iters hi' t r) (acc : List (List κ)) :
    List.zipWith (· ++ ·) (appendTaken acc t) r = List.zipWith (· ++ ·) acc iters := by
  induction h generalizing acc with
  | nil => simp [appendTaken]
  | empty _ ih => cases acc <;> simp_all [appendTaken]
  | take _ _ ih => cases acc <;> simp_all [appendTaken]
  | skip _ _ ih => cases acc <;> simp_all [appendTaken]

/-- every remaining input is a suffix of an original input -/
theorem suffix (h : Pass ops lo hi iters hi' t r) : ∀ l ∈ r, ∃ l' ∈ iters, l <:+ l' := by
  induction h with
  | nil => simp
  | empty _ ih =>
    intro l hl
    rcases List.mem_cons.1 hl with rfl | hl
    · exact ⟨[], List.mem_cons_self, List.suffix_refl _⟩
    · obtain ⟨l', h1, h2⟩ := ih l hl; exact ⟨l', List.mem_cons_of_mem _ h1, h2⟩
  | @take _ k ks _ _ _ _ _ _ ih =>
    intro l hl
    rcases List.mem_cons.1 hl with rfl | hl
    · exact ⟨k :: l, List.mem_cons_self, List.suffix_cons _ _⟩
    · obtain ⟨l', h1, h2⟩ := ih l hl; exact ⟨l', List.mem_cons_of_mem _ h1, h2⟩
  | skip _ _ ih =>
    intro l hl
    rcases List.mem_cons.1 hl with rfl | hl
    · exact ⟨_, List.mem_cons_self, List.suffix_refl _⟩
    · obtain ⟨l', h1, h2⟩ := ih l hl; exact ⟨l', List.mem_cons_of_mem _ h1, h2⟩

/-- a pass that absorbs nothing changes nothing and every head fails the test -/
theorem idle (h : Pass ops lo hi iters hi' t r) (hn : t.any Option.isSome = false) :
    r = iters ∧ hi' = hi ∧ ∀ k, some k ∈ heads iters → overlapsHead ops lo hi k = false := by
  induction h with
  | nil => simp [heads]
  | empty _ ih =>
    have := ih (by simpa using hn)
    refine ⟨by rw [this.1], this.2.1, ?_⟩
    intro k hk
    rw [mem_heads_cons] at hk
    simp at hk
    exact this.2.2 k hk
  | take _ _ _ => simp at hn
  | skip hk _ ih =>
    have := ih (by simpa using hn)
    refine ⟨by rw [this.1], this.2.1, ?_⟩
    intro k' hk'
    rw [mem_heads_cons] at hk'
    rcases hk' with hk' | hk'
    · simp at hk'; subst hk'; exact hk
    · exact this.2.2 k' hk'

theorem totalLen_le (h : Pass ops lo hi iters hi' t r) : totalLen' r ≤ totalLen' iters := by
  induction h <;> simp_all [totalLen']
  omega

/-- a productive pass removes at least one item -/
theorem productive (h : Pass ops lo hi iters hi' t r) (hp : t.any Option.isSome = true) :
    totalLen' r < totalLen' iters := by
  induction h with
  | nil => simp at hp
  | empty _ ih => have := ih (by simpa using hp); simp_all [totalLen']
  | take _ h' _ => have := h'.totalLen_le; simp_all [totalLen']; omega
  | skip _ _ ih => have := ih (by simpa using hp); simp_all [totalLen']

end Pass

theorem length_appendTaken {acc : List (List κ)} {t : List (Option κ)} (h : acc.length = t.length) :
    (appendTaken acc t).length = acc.length := by
  simp [appendTaken, h]

theorem mem_flatten_appendTaken {acc : List (List κ)} {t : List (Option κ)}
    (h : acc.length = t.length) (x : κ) :
    x ∈ (appendTaken acc t).flatten ↔ x ∈ acc.flatten ∨ some x ∈ t := by
  induction acc generalizing t with
  | nil => cases t <;> simp_all [appendTaken]
  | cons a as ih =>
    cases t with
    | nil => simp at h
    | cons o t =>
      have ih' := ih (t := t) (by simpa using h)
      simp only [appendTaken] at ih'
      cases o <;> simp [appendTaken, ih', or_assoc, or_left_comm, eq_comm]

/-! ### the `while added:` loop (`sweep`) as a relation -/

/-- `SweepR ops lo hi acc iters hiF g rest`: starting from running end `hi`, partial group `acc`
    and inputs `iters`, the loop exits with running end `hiF`, group `g` and inputs `rest`
    after a pass that absorbed nothing. -/
inductive SweepR (ops : OvOps κ) (lo : κ) :
    Int → List (List κ) → List (List κ) → Int → List (List κ) → List (List κ) → Prop
  | stop {hi : Int} {acc iters : List (List κ)} :
      (∀ k, some k ∈ heads iters → overlapsHead ops lo hi k = false) →
      SweepR ops lo hi acc iters hi acc iters
  | step {hi : Int} {acc iters : List (List κ)} {hi' : Int} {t : List (Option κ)}
      {r : List (List κ)} {hiF : Int} {g rest : List (List κ)} :
      Pass ops lo hi iters hi' t r → t.any Option.isSome = true →
      SweepR ops lo hi' (appendTaken acc t) r hiF g rest →
      SweepR ops lo hi acc iters hiF g rest

/-- with fuel exceeding the number of remaining items the loop exits normally -/
theorem sweep_spec (lo : κ) (fuel : Nat) (hi : Int) (acc iters : List (List κ))
    (hf : totalLen' iters < fuel) :
    ∃ hiF, SweepR ops lo hi acc iters hiF (sweep ops lo fuel hi acc iters).1
      (sweep ops lo fuel hi acc iters).2 := by
  induction fuel generalizing hi acc iters with
  | zero => omega
  | succ fuel ih =>
    have hp := pass_spec (ops := ops) lo hi iters
    simp only [sweep]
    split
    · rename_i hany
      obtain ⟨hiF, h⟩ := ih (sweepPass ops lo hi iters).1
        (appendTaken acc (sweepPass ops lo hi iters).2.1) (sweepPass ops lo hi iters).2.2
        (by have := hp.productive hany; omega)
      exact ⟨hiF, .step hp hany h⟩
    · rename_i hany
      have hidle := hp.idle (by simpa using hany)
      refine ⟨hi, ?_⟩
      simp only [hidle.1]
      exact .stop hidle.2.2

namespace SweepR
variable {lo : κ} {hi hiF : Int} {acc iters g rest : List (List κ)}

theorem length (h : SweepR ops lo hi acc iters hiF g rest) (hl : acc.length = iters.length) :
    g.length = iters.length ∧ rest.length = iters.length := by
  induction h with
  | stop _ => exact ⟨hl, rfl⟩
  | step hp _ _ ih =>
    have := ih (by rw [length_appendTaken (by rw [hl, hp.length_t]), hl, hp.length_r])
    rw [hp.length_r] at this
    exact this

theorem zipWith_eq (h : SweepR ops lo hi acc iters hiF g rest) :
    List.zipWith (· ++ ·) g rest = List.zipWith (· ++ ·) acc iters := by
  induction h with
  | stop _ => rfl
  | step hp _ _ ih => rw [ih, hp.zipWith_appendTaken]

theorem suffix (h : SweepR ops lo hi acc iters hiF g rest) :
    ∀ l ∈ rest, ∃ l' ∈ iters, l <:+ l' := by
  induction h with
  | stop _ => exact fun l hl => ⟨l, hl, List.suffix_refl _⟩
  | step hp _ _ ih =>
    intro l hl
    obtain ⟨l', h1, h2⟩ := ih l hl
    obtain ⟨l'', h3, h4⟩ := hp.suffix l' h1
    exact ⟨l'', h3, h2.trans h4⟩

theorem hi_le (h : SweepR ops lo hi acc iters hiF g rest) : hi ≤ hiF := by
  induction h with
  | stop _ => exact Int.le_refl _
  | step hp _ _ ih => exact Int.le_trans hp.hi_le ih

/-- at exit no head passes the overlap test -/
theorem exit (h : SweepR ops lo hi acc iters hiF g rest) :
    ∀ k, some k ∈ heads rest → overlapsHead ops lo hiF k = false := by
  induction h with
  | stop h => exact h
  | step _ _ _ ih => exact ih

end SweepR

theorem SortedInputs.of_suffix {iters r : List (List κ)}
    (hs : ∀ l ∈ r, ∃ l' ∈ iters, l <:+ l') (h : SortedInputs ops iters) : SortedInputs ops r := by
  intro l hl
  obtain ⟨l', h1, h2⟩ := hs l hl
  exact (h l' h1).sublist h2.sublist

theorem AllItems.of_suffix {P : κ → Prop} {iters r : List (List κ)}
    (hs : ∀ l ∈ r, ∃ l' ∈ iters, l <:+ l') (h : AllItems P iters) : AllItems P r := by
  intro l hl k hk
  obtain ⟨l', h1, h2⟩ := hs l hl
  exact h l' h1 k (h2.subset hk)

theorem AllItems.flatten {P : κ → Prop} {iters : List (List κ)} (h : AllItems P iters) :
    ∀ k ∈ iters.flatten, P k := by
  intro k hk
  obtain ⟨l, hl, hkl⟩ := List.mem_flatten.1 hk
  exact h l hl k hkl

end structural

/-! ### semantic invariants -/

section semantic
variable {ops : OvOps κ} {cls : κ → γ}

/-- Invariant of the sweep for the absorbed set `A`, with `S = {lo} ∪ A`: members of `A` have
    `lo`'s class and end by `hi`; each is linked to `lo` inside `S`; and `S` covers
    `[lo.start, hi]` without a gap. -/
structure Inv (ops : OvOps κ) (cls : κ → γ) (lo : κ) (hi : Int) (A : κ → Prop) : Prop where
  stop_le : ops.stop lo ≤ hi
  mem : ∀ a, A a → cls a = cls lo ∧ ops.stop a ≤ hi
  linked : ∀ a, A a → Linked ops cls (fun x => x = lo ∨ A x) lo a
  cover : ∀ z, ops.start lo ≤ z → z ≤ hi →
    ∃ a, (a = lo ∨ A a) ∧ ops.start a ≤ z ∧ z ≤ ops.stop a

theorem Inv.congr {lo : κ} {hi : Int} {A B : κ → Prop} (h : ∀ x, A x ↔ B x)
    (I : Inv ops cls lo hi A) : Inv ops cls lo hi B := by
  have : A = B := funext fun x => propext (h x)
  exact this ▸ I

theorem Inv.init {lo : κ} : Inv ops cls lo (ops.stop lo) (fun _ => False) where
  stop_le := Int.le_refl _
  mem := fun _ h => h.elim
  linked := fun _ h => h.elim
  cover := fun _ h1 h2 => ⟨lo, Or.inl rfl, h1, h2⟩

variable [LinearOrder γ]

theorem Inv.step (L : ops.Lawful cls) {lo : κ} {hi : Int} {A : κ → Prop} {k : κ}
    (I : Inv ops cls lo hi A) (hk : overlapsHead ops lo hi k = true) (hc : ops.Closed k) :
    Inv ops cls lo (bump hi (ops.stop k)) (fun x => A x ∨ x = k) := by
  rw [L.overlapsHead_iff] at hk
  obtain ⟨hcls, hlo, hhi⟩ := hk
  unfold OvOps.Closed at hc
  have hmono : ∀ x, (x = lo ∨ A x) → (x = lo ∨ (A x ∨ x = k)) := by
    intro x hx; rcases hx with h | h
    · exact Or.inl h
    · exact Or.inr (Or.inl h)
  refine ⟨Int.le_trans I.stop_le (le_bump _ _), ?_, ?_, ?_⟩
  · rintro a (ha | rfl)
    · exact ⟨(I.mem a ha).1, Int.le_trans (I.mem a ha).2 (le_bump _ _)⟩
    · exact ⟨hcls.symm, le_bump' _ _⟩
  · rintro a (ha | rfl)
    · exact (I.linked a ha).mono hmono
    · obtain ⟨a', ha', h1, h2⟩ := I.cover (ops.start a) hlo hhi
      have hl : Linked ops cls (fun x => x = lo ∨ A x) lo a' := by
        rcases ha' with rfl | ha'
        · exact .refl (Or.inl rfl)
        · exact I.linked a' ha'
      refine .tail (hl.mono hmono) (Or.inr (Or.inr rfl)) ⟨?_, by omega, h2⟩
      rcases ha' with rfl | ha'
      · exact hcls
      · exact (I.mem a' ha').1.trans hcls
  · intro z hz1 hz2
    by_cases hz : z ≤ hi
    · obtain ⟨a, ha, h1, h2⟩ := I.cover z hz1 hz
      exact ⟨a, hmono a ha, h1, h2⟩
    · refine ⟨k, Or.inr (Or.inr rfl), by omega, ?_⟩
      unfold bump at hz2
      split at hz2 <;> omega

theorem Pass.inv (L : ops.Lawful cls) {lo : κ} {hi hi' : Int} {iters r : List (List κ)}
    {t : List (Option κ)} (h : Pass ops lo hi iters hi' t r) (hc : ClosedInputs ops iters)
    (A : κ → Prop) (I : Inv ops cls lo hi A) :
    Inv ops cls lo hi' (fun x => A x ∨ some x ∈ t) := by
  induction h generalizing A with
  | nil => exact I.congr (by simp)
  | empty _ ih =>
    exact (ih (fun l hl => hc l (List.mem_cons_of_mem _ hl)) A I).congr (by simp)
  | @take _ k ks _ _ _ _ hk _ ih =>
    have hck : ops.Closed k := hc _ List.mem_cons_self k List.mem_cons_self
    refine (ih (fun l hl => hc l (List.mem_cons_of_mem _ hl)) _ (I.step L hk hck)).congr ?_
    intro x; simp [or_assoc]
  | skip _ _ ih =>
    exact (ih (fun l hl => hc l (List.mem_cons_of_mem _ hl)) A I).congr (by simp)

/-- the minimum key `lo`, while it is a head, is absorbed by the next pass -/
theorem Pass.take_lo (L : ops.Lawful cls) {lo : κ} {hi hi' : Int} {iters r : List (List κ)}
    {t : List (Option κ)} (h : Pass ops lo hi iters hi' t r) (hhi : ops.stop lo ≤ hi)
    (hc : ops.Closed lo) (hlo : some lo ∈ heads iters) : some lo ∈ t := by
  induction h with
  | nil => simp [heads] at hlo
  | empty _ ih =>
    rw [mem_heads_cons] at hlo
    simp at hlo
    exact List.mem_cons_of_mem _ (ih hhi hlo)
  | take _ _ ih =>
    rw [mem_heads_cons] at hlo
    rcases hlo with hlo | hlo
    · simp at hlo; subst hlo; exact List.mem_cons_self
    · exact List.mem_cons_of_mem _ (ih (Int.le_trans hhi (le_bump _ _)) hlo)
  | skip hk _ ih =>
    rw [mem_heads_cons] at hlo
    rcases hlo with hlo | hlo
    · simp at hlo; subst hlo
      rw [L.overlapsHead_self hc hhi] at hk
      exact absurd hk (by simp)
    · exact List.mem_cons_of_mem _ (ih hhi hlo)

namespace SweepR
variable {lo : κ} {hi hiF : Int} {acc iters g rest : List (List κ)}

theorem inv (L : ops.Lawful cls) (h : SweepR ops lo hi acc iters hiF g rest)
    (hl : acc.length = iters.length) (hc : ClosedInputs ops iters)
    (I : Inv ops cls lo hi (· ∈ acc.flatten)) : Inv ops cls lo hiF (· ∈ g.flatten) := by
  induction h with
  | stop _ => exact I
  | step hp _ _ ih =>
    have hlt := hl.trans hp.length_t.symm
    refine ih ?_ (AllItems.of_suffix hp.suffix hc) ?_
    · rw [length_appendTaken hlt, hl, hp.length_r]
    · exact (hp.inv L hc _ I).congr (fun x => (mem_flatten_appendTaken hlt x).symm)

theorem lo_mem (L : ops.Lawful cls) (h : SweepR ops lo hi acc iters hiF g rest)
    (hl : acc.length = iters.length) (hhi : ops.stop lo ≤ hi) (hc : ops.Closed lo)
    (hlo : some lo ∈ heads iters ∨ lo ∈ acc.flatten) : lo ∈ g.flatten := by
  induction h with
  | stop hx =>
    rcases hlo with hlo | hlo
    · have := hx lo hlo
      rw [L.overlapsHead_self hc hhi] at this
      exact absurd this (by simp)
    · exact hlo
  | step hp _ _ ih =>
    have hlt := hl.trans hp.length_t.symm
    refine ih ?_ (Int.le_trans hhi hp.hi_le) (Or.inr ?_)
    · rw [length_appendTaken hlt, hl, hp.length_r]
    · rw [mem_flatten_appendTaken hlt]
      rcases hlo with hlo | hlo
      · exact Or.inr (hp.take_lo L hhi hc hlo)
      · exact Or.inl hlo

/-- at exit every remaining item lies beyond the final interval -/
theorem beyond (L : ops.Lawful cls) (h : SweepR ops lo hi acc iters hiF g rest)
    (hs : SortedInputs ops iters) (hge : AllItems (fun b => ops.lt b lo = false) iters) :
    ∀ b ∈ rest.flatten, Beyond ops cls lo hiF b := by
  have hs' := hs.of_suffix h.suffix
  have hge' := hge.of_suffix h.suffix
  intro b hb
  obtain ⟨l, hl, hbl⟩ := List.mem_flatten.1 hb
  cases l with
  | nil => simp at hbl
  | cons x tl =>
    have hx : Beyond ops cls lo hiF x :=
      L.beyond_of_not_overlapsHead (hge' _ hl x List.mem_cons_self)
        (h.exit x (mem_heads.2 ⟨_, hl, rfl⟩))
    rcases List.mem_cons.1 hbl with rfl | hbt
    · exact hx
    · exact L.beyond_mono hx (List.rel_of_pairwise_cons (hs' _ hl) hbt)

end SweepR

/-- `minKey` returns a lower bound of all present heads -/
theorem OvOps.Lawful.minKey_le (L : ops.Lawful cls) {hs : List (Option κ)} {m : κ}
    (h : minKey ops hs = some m) : ∀ k, some k ∈ hs → ops.lt k m = false := by
  induction hs generalizing m with
  | nil => simp [minKey] at h
  | cons o r ih =>
    cases o with
    | none =>
      simp only [minKey] at h
      intro k hk
      exact ih h k (by simpa using hk)
    | some k0 =>
      simp only [minKey] at h
      intro k hk
      split at h
      · rename_i hnone
        cases h
        rcases List.mem_cons.1 hk with hk | hk
        · cases hk; exact L.lt_irrefl _
        · have := (minKey_eq_none.1 hnone) _ hk
          simp at this
      · rename_i m' hm'
        split at h
        · rename_i hlt
          cases h
          rcases List.mem_cons.1 hk with hk | hk
          · cases hk; exact L.lt_asymm hlt
          · exact ih hm' k hk
        · rename_i hlt
          cases h
          rcases List.mem_cons.1 hk with hk | hk
          · cases hk; exact L.lt_irrefl _
          · exact L.le_trans (by simpa using hlt) (ih hm' k hk)

end semantic

/-! ### `zipWith (· ++ ·)` bookkeeping -/

section zip

theorem zipWith_append_map_nil (iters : List (List κ)) :
    List.zipWith (· ++ ·) (iters.map fun _ => ([] : List κ)) iters = iters := by
  induction iters with
  | nil => rfl
  | cons l r ih => simp [ih]

theorem not_mem_flatten_map_nil (iters : List (List κ)) (x : κ) :
    x ∉ (iters.map fun _ => ([] : List κ)).flatten := by
  induction iters <;> simp_all

theorem mem_flatten_zipWith_append {g rest : List (List κ)} (h : g.length = rest.length) (x : κ) :
    x ∈ (List.zipWith (· ++ ·) g rest).flatten ↔ x ∈ g.flatten ∨ x ∈ rest.flatten := by
  induction g generalizing rest with
  | nil => cases rest <;> simp_all
  | cons a g ih =>
    cases rest with
    | nil => simp at h
    | cons b rest =>
      have := ih (rest := rest) (by simpa using h)
      simp [this, or_assoc, or_left_comm]

theorem totalLen_zipWith_append {g rest : List (List κ)} (h : g.length = rest.length) :
    totalLen' (List.zipWith (· ++ ·) g rest) = totalLen' g + totalLen' rest := by
  induction g generalizing rest with
  | nil => cases rest <;> simp_all [totalLen']
  | cons a g ih =>
    cases rest with
    | nil => simp at h
    | cons b rest =>
      have := ih (rest := rest) (by simpa using h)
      simp only [totalLen'] at this
      simp only [totalLen', List.zipWith_cons_cons, List.map_cons, List.sum_cons,
        List.length_append, this]
      omega

theorem totalLen_pos_of_mem {g : List (List κ)} {x : κ} (h : x ∈ g.flatten) : 0 < totalLen' g := by
  induction g with
  | nil => simp at h
  | cons a g ih =>
    rw [List.flatten_cons, List.mem_append] at h
    rcases h with h | h
    · have := List.length_pos_of_mem h
      simp [totalLen']; omega
    · have := ih h
      simp only [totalLen'] at this
      simp [totalLen']; omega

theorem all_isEmpty_eq_false_of_mem {g : List (List κ)} {x : κ} (h : x ∈ g.flatten) :
    g.all List.isEmpty = false := by
  obtain ⟨l, hl, hx⟩ := List.mem_flatten.1 h
  rw [Bool.eq_false_iff]
  intro hall
  have := (List.all_eq_true.1 hall) l hl
  simp at this
  subst this
  simp at hx

end zip

/-! ### one group (`ovNext`) -/

section group
variable {ops : OvOps κ} {cls : κ → γ}

theorem ovNext_eq_none {iters : List (List κ)} :
    ovNext ops iters = none ↔ ∀ l ∈ iters, l = [] := by
  unfold ovNext
  split
  · rename_i h
    simp only [true_iff]
    exact heads_all_none (minKey_eq_none.1 h)
  · rename_i lo h
    simp only [reduceCtorEq, false_iff]
    intro hall
    obtain ⟨l, hl, hh⟩ := mem_heads.1 (minKey_mem h)
    rw [hall l hl] at hh
    simp at hh

theorem ovNext_eq_some {iters g rest : List (List κ)} (h : ovNext ops iters = some (g, rest)) :
    ∃ lo hiF, minKey ops (heads iters) = some lo ∧
      SweepR ops lo (ops.stop lo) (iters.map fun _ => []) iters hiF g rest := by
  unfold ovNext at h
  split at h
  · simp at h
  · rename_i lo hlo
    obtain ⟨hiF, hs⟩ := sweep_spec (ops := ops) lo (totalLen' iters + 1) (ops.stop lo)
      (iters.map fun _ => []) iters (Nat.lt_succ_self _)
    simp only [Option.some.injEq] at h
    rw [h] at hs
    exact ⟨lo, hiF, hlo, hs⟩

variable [LinearOrder γ]

/-- what one emitted group `g` and the inputs `rest` left behind satisfy -/
structure GroupSpec (ops : OvOps κ) (cls : κ → γ) (iters g rest : List (List κ)) : Prop where
  length_g : g.length = iters.length
  length_rest : rest.length = iters.length
  /-- slot `i` of the group followed by what remains of input `i` is input `i` -/
  zip : List.zipWith (· ++ ·) g rest = iters
  suffix : ∀ l ∈ rest, ∃ l' ∈ iters, l <:+ l'
  /-- the group's minimum key is the minimum head, and it is a member -/
  lo_mem : ∃ lo, minKey ops (heads iters) = some lo ∧ lo ∈ g.flatten
  linked : ∀ a ∈ g.flatten, ∀ b ∈ g.flatten, Linked ops cls (· ∈ g.flatten) a b
  before : ∀ a ∈ g.flatten, ∀ b ∈ rest.flatten, Before ops cls a b

theorem ovNext_groupSpec (L : ops.Lawful cls) {iters g rest : List (List κ)}
    (hs : SortedInputs ops iters) (hc : ClosedInputs ops iters)
    (h : ovNext ops iters = some (g, rest)) : GroupSpec ops cls iters g rest := by
  obtain ⟨lo, hiF, hlo, hsw⟩ := ovNext_eq_some h
  have hl0 : (iters.map fun _ => ([] : List κ)).length = iters.length := by simp
  have hlen := hsw.length hl0
  have hlohead := minKey_mem hlo
  obtain ⟨l0, hl0mem, hl0head⟩ := mem_heads.1 hlohead
  have hloc : ops.Closed lo := hc l0 hl0mem lo (List.mem_of_mem_head? hl0head)
  -- every item is `≥ lo`
  have hge : AllItems (fun b => ops.lt b lo = false) iters := by
    intro l hl b hb
    cases l with
    | nil => simp at hb
    | cons x tl =>
      have hx : ops.lt x lo = false := L.minKey_le hlo x (mem_heads.2 ⟨_, hl, rfl⟩)
      rcases List.mem_cons.1 hb with rfl | hbt
      · exact hx
      · exact L.le_trans hx (List.rel_of_pairwise_cons (hs _ hl) hbt)
  have hinv : Inv ops cls lo hiF (· ∈ g.flatten) :=
    hsw.inv L hl0 hc (Inv.init.congr (fun x => (iff_false_intro (not_mem_flatten_map_nil iters x)).symm))
  have hlomem : lo ∈ g.flatten :=
    hsw.lo_mem L hl0 (Int.le_refl _) hloc (Or.inl hlohead)
  have hbeyond := hsw.beyond L hs hge
  have hS : ∀ x, (x = lo ∨ x ∈ g.flatten) → x ∈ g.flatten := by
    rintro x (rfl | hx)
    · exact hlomem
    · exact hx
  have hlink : ∀ a ∈ g.flatten, Linked ops cls (· ∈ g.flatten) lo a :=
    fun a ha => (hinv.linked a ha).mono hS
  refine ⟨hlen.1, hlen.2, ?_, hsw.suffix, ⟨lo, hlo, hlomem⟩, ?_, ?_⟩
  · rw [hsw.zipWith_eq, zipWith_append_map_nil]
  · intro a ha b hb
    exact (hlink a ha).symm.trans (hlink b hb)
  · intro a ha b hb
    have h1 := hinv.mem a ha
    have h2 := hbeyond b hb
    unfold Beyond at h2
    unfold Before
    rcases h2 with h2 | h2
    · left; rw [h1.1]; exact h2
    · right; exact ⟨h1.1.trans h2.1, by omega⟩

/-! ### all groups (`ovAll`) -/

/-- `Groups ops cls iters gs`: `gs` is the sequence of groups emitted from `iters`,
    each satisfying `GroupSpec` relative to what was left by its predecessors,
    until every input is exhausted. -/
inductive Groups (ops : OvOps κ) (cls : κ → γ) : List (List κ) → List (List (List κ)) → Prop
  | done {iters : List (List κ)} : (∀ l ∈ iters, l = []) → Groups ops cls iters []
  | next {iters g rest : List (List κ)} {gs : List (List (List κ))} :
      GroupSpec ops cls iters g rest → Groups ops cls rest gs → Groups ops cls iters (g :: gs)

/-- the fuel `totalLen' iters + 1` suffices: `ovAll` runs until the inputs are exhausted -/
theorem ovAll_groups (L : ops.Lawful cls) (fuel : Nat) (iters : List (List κ))
    (hs : SortedInputs ops iters) (hc : ClosedInputs ops iters) (hf : totalLen' iters < fuel) :
    Groups ops cls iters (ovAll ops fuel iters) := by
  induction fuel generalizing iters with
  | zero => omega
  | succ fuel ih =>
    simp only [ovAll]
    split
    · rename_i hnone
      exact .done (ovNext_eq_none.1 hnone)
    · rename_i g rest hsome
      have G := ovNext_groupSpec L hs hc hsome
      obtain ⟨lo, _, hlo⟩ := G.lo_mem
      rw [all_isEmpty_eq_false_of_mem hlo]
      simp only [Bool.false_eq_true, if_false]
      refine .next G (ih rest (hs.of_suffix G.suffix) (AllItems.of_suffix G.suffix hc) ?_)
      have h1 := totalLen_zipWith_append (G.length_g.trans G.length_rest.symm)
      rw [G.zip] at h1
      have h2 := totalLen_pos_of_mem hlo
      omega

/-- any two fuels `≥ totalLen' iters + 1` give the same result -/
theorem ovAll_fuel_eq (L : ops.Lawful cls) {iters : List (List κ)}
    (hs : SortedInputs ops iters) (hc : ClosedInputs ops iters) {f1 f2 : Nat}
    (h1 : totalLen' iters + 1 ≤ f1) (h2 : totalLen' iters + 1 ≤ f2) :
    ovAll ops f1 iters = ovAll ops f2 iters := by
  induction f1 generalizing f2 iters with
  | zero => omega
  | succ f1 ih =>
    cases f2 with
    | zero => omega
    | succ f2 =>
      simp only [ovAll]
      split
      · rfl
      · rename_i g rest hsome
        have G := ovNext_groupSpec L hs hc hsome
        obtain ⟨lo, _, hlo⟩ := G.lo_mem
        have e1 := totalLen_zipWith_append (G.length_g.trans G.length_rest.symm)
        rw [G.zip] at e1
        have e2 := totalLen_pos_of_mem hlo
        rw [ih (hs.of_suffix G.suffix) (AllItems.of_suffix G.suffix hc) (f2 := f2)
          (by omega) (by omega)]

theorem pairwise_mem_cases {α : Type} {R : α → α → Prop} {l : List α} (h : l.Pairwise R)
    {a b : α} (ha : a ∈ l) (hb : b ∈ l) : a = b ∨ R a b ∨ R b a := by
  induction h with
  | nil => simp at ha
  | cons hx _ ih =>
    rcases List.mem_cons.1 ha with rfl | ha' <;> rcases List.mem_cons.1 hb with rfl | hb'
    · exact Or.inl rfl
    · exact Or.inr (Or.inl (hx _ hb'))
    · exact Or.inr (Or.inr (hx _ ha'))
    · exact ih ha' hb'

namespace Groups
variable {iters : List (List κ)} {gs : List (List (List κ))}

theorem length_eq (h : Groups ops cls iters gs) : ∀ g ∈ gs, g.length = iters.length := by
  induction h with
  | done _ => simp
  | next G _ ih =>
    intro g hg
    rcases List.mem_cons.1 hg with rfl | hg
    · exact G.length_g
    · rw [ih g hg, G.length_rest]

/-- concatenating slot `i` over all groups gives input `i` -/
theorem partition (h : Groups ops cls iters gs) :
    ∀ i (hi : i < iters.length), (gs.map (fun g => g.getD i [])).flatten = iters[i] := by
  induction h with
  | done hall =>
    intro i hi
    simp [hall _ (List.getElem_mem hi)]
  | @next iters g rest gs G _ ih =>
    intro i hi
    have hg : i < g.length := by rw [G.length_g]; exact hi
    have hr : i < rest.length := by rw [G.length_rest]; exact hi
    have hz : iters[i] = g[i] ++ rest[i] := by
      have : (List.zipWith (· ++ ·) g rest)[i]'(by simp; omega) = g[i] ++ rest[i] := by
        simp
      rw [← this]
      congr 1
      exact G.zip.symm
    rw [hz, List.map_cons, List.flatten_cons, ih i hr]
    congr 1
    simp [List.getD_eq_getElem?_getD, hg]

theorem mem_iff (h : Groups ops cls iters gs) (x : κ) :
    x ∈ iters.flatten ↔ ∃ g ∈ gs, x ∈ g.flatten := by
  induction h with
  | done hall =>
    simp only [List.not_mem_nil, false_and, exists_false, iff_false]
    intro hx
    obtain ⟨l, hl, hxl⟩ := List.mem_flatten.1 hx
    rw [hall l hl] at hxl
    simp at hxl
  | next G _ ih =>
    have := mem_flatten_zipWith_append (G.length_g.trans G.length_rest.symm) x
    rw [G.zip] at this
    rw [this, ih]
    simp

theorem nonempty (h : Groups ops cls iters gs) : ∀ g ∈ gs, ∃ x, x ∈ g.flatten := by
  induction h with
  | done _ => simp
  | next G _ ih =>
    intro g hg
    rcases List.mem_cons.1 hg with rfl | hg
    · obtain ⟨lo, _, hlo⟩ := G.lo_mem; exact ⟨lo, hlo⟩
    · exact ih g hg

theorem linked (h : Groups ops cls iters gs) :
    ∀ g ∈ gs, ∀ a ∈ g.flatten, ∀ b ∈ g.flatten, Linked ops cls (· ∈ g.flatten) a b := by
  induction h with
  | done _ => simp
  | next G _ ih =>
    intro g hg
    rcases List.mem_cons.1 hg with rfl | hg
    · exact G.linked
    · exact ih g hg

theorem separated (h : Groups ops cls iters gs) :
    gs.Pairwise (fun g1 g2 => ∀ a ∈ g1.flatten, ∀ b ∈ g2.flatten, Before ops cls a b) := by
  induction h with
  | done _ => exact .nil
  | next G hrest ih =>
    refine List.Pairwise.cons ?_ ih
    intro g2 hg2 a ha b hb
    exact G.before a ha b ((hrest.mem_iff b).2 ⟨g2, hg2, hb⟩)

end Groups

end group


/-! ### relabelling: the iterator only looks at keys through `ops` -/

section comap
variable {κ κ' : Type}

/-- pull the key operations back along `f : κ' → κ` (e.g. forgetting a tag) -/
def OvOps.comap (ops : OvOps κ) (f : κ' → κ) : OvOps κ' where
  lt a b := ops.lt (f a) (f b)
  same a b := ops.same (f a) (f b)
  start a := ops.start (f a)
  stop a := ops.stop (f a)

variable (ops : OvOps κ) (f : κ' → κ)

@[simp] theorem OvOps.comap_lt (a b : κ') : (ops.comap f).lt a b = ops.lt (f a) (f b) := rfl
@[simp] theorem OvOps.comap_same (a b : κ') : (ops.comap f).same a b = ops.same (f a) (f b) := rfl
@[simp] theorem OvOps.comap_start (a : κ') : (ops.comap f).start a = ops.start (f a) := rfl
@[simp] theorem OvOps.comap_stop (a : κ') : (ops.comap f).stop a = ops.stop (f a) := rfl

theorem heads_map (iters : List (List κ')) :
    heads (iters.map (List.map f)) = (heads iters).map (Option.map f) := by
  simp [heads, List.head?_map]

theorem minKey_map (hs : List (Option κ')) :
    minKey ops (hs.map (Option.map f)) = (minKey (ops.comap f) hs).map f := by
  induction hs with
  | nil => rfl
  | cons o r ih =>
    cases o with
    | none => simpa [minKey] using ih
    | some k =>
      simp only [List.map_cons, Option.map_some, minKey, ih]
      cases minKey (ops.comap f) r with
      | none => rfl
      | some m =>
        simp only [Option.map_some, OvOps.comap_lt]
        split <;> simp [*]

theorem sweepPass_map (lo : κ') (hi : Int) (iters : List (List κ')) :
    sweepPass ops (f lo) hi (iters.map (List.map f)) =
      ((sweepPass (ops.comap f) lo hi iters).1,
       (sweepPass (ops.comap f) lo hi iters).2.1.map (Option.map f),
       (sweepPass (ops.comap f) lo hi iters).2.2.map (List.map f)) := by
  induction iters generalizing hi with
  | nil => rfl
  | cons l rest ih =>
    cases l with
    | nil => simp [sweepPass, ih]
    | cons k ks =>
      have e : overlapsHead (ops.comap f) lo hi k = overlapsHead ops (f lo) hi (f k) := rfl
      simp only [List.map_cons, sweepPass, e]
      split
      · simp only [ih, OvOps.comap_stop, List.map_cons, Option.map_some]; rfl
      · simp only [ih, List.map_cons, Option.map_none]

theorem appendTaken_map (acc : List (List κ')) (t : List (Option κ')) :
    appendTaken (acc.map (List.map f)) (t.map (Option.map f)) =
      (appendTaken acc t).map (List.map f) := by
  induction acc generalizing t with
  | nil => simp [appendTaken]
  | cons a acc ih =>
    cases t with
    | nil => simp [appendTaken]
    | cons o t =>
      have := ih t
      simp only [appendTaken] at this
      cases o <;> simp [appendTaken, this]

theorem any_isSome_map (t : List (Option κ')) :
    (t.map (Option.map f)).any Option.isSome = t.any Option.isSome := by
  induction t with
  | nil => rfl
  | cons o t ih => cases o <;> simp [ih]

theorem sweep_map (lo : κ') (fuel : Nat) (hi : Int) (acc iters : List (List κ')) :
    sweep ops (f lo) fuel hi (acc.map (List.map f)) (iters.map (List.map f)) =
      ((sweep (ops.comap f) lo fuel hi acc iters).1.map (List.map f),
       (sweep (ops.comap f) lo fuel hi acc iters).2.map (List.map f)) := by
  induction fuel generalizing hi acc iters with
  | zero => rfl
  | succ fuel ih =>
    simp only [sweep, sweepPass_map, any_isSome_map, appendTaken_map, ih]
    split <;> rfl

theorem totalLen_map (iters : List (List κ')) :
    totalLen' (iters.map (List.map f)) = totalLen' iters := by
  simp [totalLen', Function.comp_def]

theorem ovNext_map (iters : List (List κ')) :
    ovNext ops (iters.map (List.map f)) =
      (ovNext (ops.comap f) iters).map
        (fun p => (p.1.map (List.map f), p.2.map (List.map f))) := by
  have e : (iters.map (List.map f)).map (fun _ => ([] : List κ)) =
      (iters.map (fun _ => ([] : List κ'))).map (List.map f) := by
    simp
  simp only [ovNext, heads_map, minKey_map, totalLen_map]
  cases minKey (ops.comap f) (heads iters) with
  | none => rfl
  | some lo =>
    simp only [Option.map_some]
    rw [e, sweep_map]
    rfl

theorem all_isEmpty_map (g : List (List κ')) :
    (g.map (List.map f)).all List.isEmpty = g.all List.isEmpty := by
  induction g with
  | nil => rfl
  | cons a g ih => cases a <;> simp [ih]

/-- the iterator commutes with relabelling: running on `f`-images is the `f`-image of
    running with the pulled-back operations -/
theorem ovAll_map (fuel : Nat) (iters : List (List κ')) :
    ovAll ops fuel (iters.map (List.map f)) =
      (ovAll (ops.comap f) fuel iters).map (List.map (List.map f)) := by
  induction fuel generalizing iters with
  | zero => rfl
  | succ fuel ih =>
    simp only [ovAll, ovNext_map]
    cases ovNext (ops.comap f) iters with
    | none => rfl
    | some p =>
      obtain ⟨g, rest⟩ := p
      simp only [Option.map_some, all_isEmpty_map, ih]
      split <;> simp


theorem OvOps.Lawful.comap {cls : κ → γ} [LT γ] {ops : OvOps κ} (L : ops.Lawful cls) (f : κ' → κ) :
    (ops.comap f).Lawful (fun a => cls (f a)) :=
  ⟨fun _ _ => L.same_iff _ _, fun _ _ => L.lt_iff _ _⟩

theorem SortedInputs.comap {ops : OvOps κ} {f : κ' → κ} {iters : List (List κ')}
    (h : SortedInputs ops (iters.map (List.map f))) : SortedInputs (ops.comap f) iters := by
  intro l hl
  have := h _ (List.mem_map_of_mem hl)
  rwa [List.pairwise_map] at this

theorem ClosedInputs.comap {ops : OvOps κ} {f : κ' → κ} {iters : List (List κ')}
    (h : ClosedInputs ops (iters.map (List.map f))) : ClosedInputs (ops.comap f) iters :=
  fun _ hl _ hk => h _ (List.mem_map_of_mem hl) _ (List.mem_map_of_mem hk)

end comap

/-! ### occurrences: tagging items with (input index, position) -/

section tagging

/-- tag every item with its occurrence `(input index, position)` -/
def tagInputs (iters : List (List κ)) : List (List (κ × Nat × Nat)) :=
  iters.mapIdx (fun i l => l.mapIdx (fun p k => (k, i, p)))

theorem tagInputs_map_fst (iters : List (List κ)) :
    (tagInputs iters).map (List.map Prod.fst) = iters := by
  apply List.ext_getElem
  · simp [tagInputs]
  · intro i h1 h2
    apply List.ext_getElem
    · simp [tagInputs]
    · intro p h3 h4
      simp [tagInputs]

theorem mem_tagInputs {iters : List (List κ)} {k : κ} {i p : Nat} :
    (k, i, p) ∈ (tagInputs iters).flatten ↔
      ∃ (hi : i < iters.length) (hp : p < iters[i].length), iters[i][p] = k := by
  simp only [tagInputs, List.mem_flatten, List.mem_mapIdx]
  constructor
  · rintro ⟨l, ⟨i', hi', rfl⟩, hx⟩
    rw [List.mem_mapIdx] at hx
    obtain ⟨p', hp', heq⟩ := hx
    simp only [Prod.mk.injEq] at heq
    obtain ⟨rfl, rfl, rfl⟩ := heq
    exact ⟨hi', hp', rfl⟩
  · rintro ⟨hi, hp, rfl⟩
    exact ⟨_, ⟨i, hi, rfl⟩, List.mem_mapIdx.2 ⟨p, hp, rfl⟩⟩

theorem tagInputs_nodup (iters : List (List κ)) : (tagInputs iters).flatten.Nodup := by
  unfold List.Nodup
  rw [List.pairwise_flatten]
  constructor
  · intro l hl
    simp only [tagInputs, List.mem_mapIdx] at hl
    obtain ⟨i, hi, rfl⟩ := hl
    rw [List.pairwise_iff_getElem]
    intro p q hp hq hpq
    simp only [List.getElem_mapIdx, ne_eq, Prod.mk.injEq, not_and]
    intro _ _; omega
  · rw [List.pairwise_iff_getElem]
    intro i j hi hj hij x hx y hy
    simp only [tagInputs, List.getElem_mapIdx, List.mem_mapIdx] at hx hy
    obtain ⟨p, _, rfl⟩ := hx
    obtain ⟨q, _, rfl⟩ := hy
    simp only [ne_eq, Prod.mk.injEq, not_and]
    intro _ h; omega


end tagging

end Model
