/-
  The fault-injection scenario of the spill-file effect model: add, iterate, close (again while it fails).
-/
import MafModel.Lemmas.ResourceClose
open Py Model MergeLemmas

namespace ResourceLemmas


theorem closeN_succ (fuel k : Nat) (log : PhaseLog) (s : RState) :
    scenario.closeN (fuel + 1) k log s =
      match exec close s with
      | (.ok (), s') => (log, s')
      | (.error e, s') => scenario.closeN fuel (k + 1)
          { log with raised := log.raised ++ [("close#" ++ toString k, e)] } s' := by
  rw [scenario.closeN]
  rfl

/-- once the fault has fired, one more `close()` returns and leaves nothing -/
theorem closeN_fired (fuel k : Nat) (log : PhaseLog) (s : RState) (hr : RInv s) (hf : s.fired = true) :
    (scenario.closeN (fuel + 1) k log s).1 = log ∧
    (scenario.closeN (fuel + 1) k log s).2.failAt = s.failAt ∧
    (scenario.closeN (fuel + 1) k log s).2.fired = true ∧
    CloseOk (scenario.closeN (fuel + 1) k log s).2 := by
  rw [closeN_succ]
  obtain ⟨a, h1, h2, h3, h4⟩ := (close_spec s hr).ok_of_fired hf
  rcases hx : exec close s with ⟨r, s'⟩
  rw [hx] at h1 h2 h3 h4
  simp only at h1; subst h1
  exact ⟨rfl, h2, h3, h4⟩

structure CloseNQ (log : PhaseLog) (s : RState) (res : PhaseLog × RState) (extra : List (String × PyErr)) : Prop where
  raised : res.1.raised = log.raised ++ extra
  output : res.1.output = log.output
  io : ∀ p ∈ extra, p.2 = ioErr
  armed : extra ≠ [] → Fires s
  fired : res.2.fired = true → s.fired = true ∨ extra ≠ []
  failAt : res.2.failAt = s.failAt
  mono : s.fired = true ∨ extra ≠ [] → res.2.fired = true
  empty : CloseOk res.2

theorem closeN_spec (fuel k : Nat) (log : PhaseLog) (s : RState) (hr : RInv s) :
    ∃ extra, CloseNQ log s (scenario.closeN (fuel + 2) k log s) extra := by
  rw [closeN_succ]
  have hc := close_spec s hr
  rcases hx : exec close s with ⟨r, s'⟩
  rw [hx] at hc
  cases r with
  | ok a =>
    obtain ⟨h1, h2, h3⟩ := hc
    exact ⟨[], by simp, rfl, fun _ h => (by cases h), fun h => absurd rfl h, fun h => Or.inl (h2.symm.trans h), h1,
      fun h => h.elim (fun h => h2.trans h) (fun h => absurd rfl h), h3⟩
  | error e =>
    obtain ⟨h1, rfl, hf, h3, h4⟩ := hc
    simp only []
    obtain ⟨g1, g2, g3, g4⟩ := closeN_fired fuel (k + 1)
      { log with raised := log.raised ++ [("close#" ++ toString k, ioErr)] } s' h4.1 h3
    refine ⟨[("close#" ++ toString k, ioErr)], by rw [g1], by rw [g1], ?_, fun _ => hf, fun _ => Or.inr (by simp),
      g2.trans h1, fun _ => g3, g4⟩
    intro p hp
    simp only [List.mem_singleton] at hp
    subst hp; rfl


/-! ## the whole scenario -/

def s0 (cap : Nat) (sp : Bool) (failAt : Option Nat) : RState :=
  { cap := cap, alwaysSpill := sp, failAt := failAt }

def keysOf (n : Nat) : List Nat := (List.range n).map (fun k => n - k)

theorem scenario_eq (n cap : Nat) (sp : Bool) (abandon failAt : Option Nat) :
    scenario n cap sp abandon failAt =
      match exec ((keysOf n).forM add) (s0 cap sp failAt) with
      | (r1, s1) =>
        match (match r1 with
          | .error e => (({ raised := [("add", e)] } : PhaseLog), s1)
          | .ok () =>
            match exec (iterate abandon) s1 with
            | (.ok out, s) => ({ output := some out }, s)
            | (.error e, s) => ({ raised := [("iterate", e)] }, s)) with
        | (log1, s2) => scenario.closeN 3 0 log1 s2 := rfl

structure ScenQ (n : Nat) (abandon failAt : Option Nat) (res : PhaseLog × RState) : Prop where
  empty : CloseOk res.2
  io : ∀ p ∈ res.1.raised, p.2 = ioErr
  propagates : res.2.fired = true → res.1.raised ≠ []
  onlyFault : res.1.raised ≠ [] → failAt.isSome = true ∧ res.2.fired = true
  output : failAt = none → abandon = none → res.1.output = some ((List.range n).map (· + 1))

theorem wf_s0 (cap : Nat) (sp : Bool) (failAt : Option Nat) : WF (s0 cap sp failAt) :=
  ⟨List.nodup_nil, List.nodup_nil, List.nodup_nil, fun _ h => (by cases h), fun _ h => (by cases h),
   fun _ h => (by cases h), fun _ h => (by cases h), rfl, fun _ h => (by cases h)⟩

theorem dinv_s0 (cap : Nat) (sp : Bool) (failAt : Option Nat) : DInv (s0 cap sp failAt) [] :=
  ⟨rfl, fun _ h => (by cases h), List.Perm.refl _⟩

theorem scenario_spec (n cap : Nat) (sp : Bool) (abandon failAt : Option Nat) :
    ScenQ n abandon failAt (scenario n cap sp abandon failAt) := by
  rw [scenario_eq]
  have hadd := addAll_spec (keysOf n) (s0 cap sp failAt) (wf_s0 _ _ _) rfl
  rcases hx : exec ((keysOf n).forM add) (s0 cap sp failAt) with ⟨r1, s1⟩
  rw [hx] at hadd
  -- common ending: the close phase from a state satisfying the invariant
  have hend : ∀ (log1 : PhaseLog) (s2 : RState), RInv s2 → s2.failAt = failAt →
      (∀ p ∈ log1.raised, p.2 = ioErr) → (s2.fired = true → log1.raised ≠ []) →
      (log1.raised ≠ [] → failAt.isSome = true ∧ s2.fired = true) →
      (failAt = none → abandon = none → log1.output = some ((List.range n).map (· + 1))) →
      ScenQ n abandon failAt (scenario.closeN 3 0 log1 s2) := by
    intro log1 s2 hr hfa hio hprop honly hout
    obtain ⟨extra, q⟩ := closeN_spec 1 0 log1 s2 hr
    refine ⟨q.empty, ?_, ?_, ?_, ?_⟩
    · intro p hp
      rw [q.raised] at hp
      rcases List.mem_append.1 hp with hp | hp
      · exact hio p hp
      · exact q.io p hp
    · intro hf
      rw [q.raised]
      rcases q.fired hf with h | h
      · intro hn; exact hprop h (List.append_eq_nil_iff.1 hn).1
      · intro hn; exact h (List.append_eq_nil_iff.1 hn).2
    · intro hne
      rw [q.raised] at hne
      by_cases h1 : log1.raised = []
      · have hex : extra ≠ [] := by intro h; rw [h1, h] at hne; exact hne rfl
        have hF := q.armed hex
        exact ⟨hfa ▸ hF.2, q.mono (Or.inr hex)⟩
      · have := honly h1
        exact ⟨this.1, q.mono (Or.inl this.2)⟩
    · intro h1 h2
      rw [q.output]; exact hout h1 h2
  cases r1 with
  | error e =>
    obtain ⟨h1, rfl, hf, h3, g1, g2, g3⟩ := hadd
    simp only []
    refine hend _ s1 (RInv.of_wf g1 ?_ ?_) h1 ?_ (fun _ => by simp) (fun _ => ⟨hf.2, h3⟩) ?_
    · exact ⟨g2 ▸ List.nodup_nil, by rw [g2]; intro x hx; cases hx⟩
    · intro x hx; rw [g2] at hx; cases hx
    · intro p hp; simp only [List.mem_singleton] at hp; subst hp; rfl
    · intro hn; have := hf.2; rw [show (s0 cap sp failAt).failAt = failAt from rfl, hn] at this; cases this
  | ok u =>
    obtain ⟨h1, h2, g1, g2, g3, g4⟩ := hadd
    cases u
    simp only []
    have hit := iterate_spec abandon s1 g1 g2 g3
    rcases hy : exec (iterate abandon) s1 with ⟨r2, s2⟩
    rw [hy] at hit
    cases r2 with
    | ok out =>
      obtain ⟨k1, k2, q1, q2, q3, q4⟩ := hit
      simp only []
      refine hend _ s2 (RInv.of_wf q1 q2 q3) (k1.trans h1) (fun _ h => by cases h) ?_ (fun h => absurd rfl h) ?_
      · intro hf
        have : s2.fired = false := k2.trans h2
        rw [this] at hf; cases hf
      · intro hn ha
        subst ha
        have hd := g4 [] (dinv_s0 cap sp failAt)
        rw [q4 _ hd rfl]
        simp only [List.nil_append]
        exact congrArg some (sorted_keys n)
    | error e =>
      obtain ⟨k1, rfl, hf, k3, q1, q2, q3⟩ := hit
      simp only []
      refine hend _ s2 (RInv.of_wf q1 q2 q3) (k1.trans h1) ?_ (fun _ => by simp)
        (fun _ => ⟨by have := hf.2; rwa [(h1 : s1.failAt = failAt)] at this, k3⟩) ?_
      · intro p hp; simp only [List.mem_singleton] at hp; subst hp; rfl
      · intro hn; have := hf.2; rw [(h1 : s1.failAt = failAt), hn] at this; cases this


/-! ## a second `close()` -/

theorem close_noop (s : RState) (h1 : s.merging = []) (h2 : s.paths = []) (h3 : s.fdsReg = []) :
    exec close s = (.ok (), s) := by
  rw [close_eq, exec_bind, exec_get]
  simp only []
  rw [h1, h2]
  simp only [List.foldlM_nil, List.zip_nil_left]
  rw [exec_bind, exec_pure]
  simp only []
  rw [exec_bind, exec_modify]
  simp only []
  rw [exec_bind, exec_pure]
  simp only []
  rw [exec_bind, exec_modify]
  simp only [exec_pure, List.map_nil]
  congr 1
  cases s
  simp only at h1 h2 h3
  subst h1 h2 h3
  rfl

/-- the invariant holds when the add phase and the iteration are over, however they ended -/
theorem rinv_after_add (keys : List Nat) (s : RState) (hw : WF s) (hh : s.handles = []) :
    RInv (exec (keys.forM add) s).2 := by
  have h := addAll_spec keys s hw hh
  rcases hx : exec (keys.forM add) s with ⟨r, s1⟩
  rw [hx] at h
  have key : ∀ s1 : RState, WF s1 → s1.handles = [] → RInv s1 := by
    intro s1 g1 g2
    refine RInv.of_wf g1 ⟨g2 ▸ List.nodup_nil, by rw [g2]; intro x hx; cases hx⟩ ?_
    intro x hx; rw [g2] at hx; cases hx
  cases r with
  | ok a => exact key s1 h.2.2.1 h.2.2.2.1
  | error e => exact key s1 h.2.2.2.2.1 h.2.2.2.2.2.1

theorem rinv_after_iterate (limit : Option Nat) (s : RState) (hw : WF s) (hh : s.handles = [])
    (hm : s.merging = []) : RInv (exec (iterate limit) s).2 := by
  have h := iterate_spec limit s hw hh hm
  rcases hx : exec (iterate limit) s with ⟨r, s1⟩
  rw [hx] at h
  cases r with
  | ok a => exact RInv.of_wf h.2.2.1 h.2.2.2.1 h.2.2.2.2.1
  | error e => exact RInv.of_wf h.2.2.2.2.1 h.2.2.2.2.2.1 h.2.2.2.2.2.2

end ResourceLemmas
