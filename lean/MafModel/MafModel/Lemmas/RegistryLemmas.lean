/-
  Lemmas for C20 (scheme registration): what a successful `loadAll` /
  `buildSchemesTop` run consists of, normalisation of base-less definitions, a
  hypothesis-free invariant of the build loop (every definition gets a scheme with
  its own version and annotation), and the behaviour of `Spec.resolve` when
  definitions are appended.
-/
import MafModel.Model.Registry
import MafModel.Lemmas.SchemeLemmas
open Py Model SchemeLemmas

namespace RegistryLemmas

/-! ### small helpers -/

theorem ok_of_toBool {ε α} {x : Except ε α} (h : x.toBool = true) : ∃ r, x = .ok r := by
  cases x with
  | ok r => exact ⟨r, rfl⟩
  | error e => cases h

theorem mem_dictSet {β} {d : List (String × β)} {k : String} {v : β} {p : String × β}
    (h : p ∈ dictSet d k v) : p ∈ d ∨ p = (k, v) := by
  unfold dictSet at h
  split at h
  · obtain ⟨q, hq, rfl⟩ := List.mem_map.1 h
    split
    · exact .inr rfl
    · exact .inl hq
  · rcases List.mem_append.1 h with h | h
    · exact .inl h
    · exact .inr (by simpa using h)

/-! ### normalisation of base-less definitions -/

/-- `normalize` as a total function (the definition itself where it is rejected) -/
def normD (d : SchemeDef) : SchemeDef := d.normalize.getD d

theorem normalize_cases {d d' : SchemeDef} (h : d.normalize = some d') :
    d' = d ∨ ∃ f, d.hasBase = none ∧ d.filtered = some f ∧
      d' = { d with columns := d.columns.filter (fun c => !f.contains c.1), filtered := none } := by
  unfold SchemeDef.normalize at h
  split at h
  · rename_i f hb hf
    split at h
    · cases h
    · exact .inr ⟨f, hb, hf, (Option.some.inj h).symm⟩
  · exact .inl (Option.some.inj h).symm

theorem normalize_version {d d' : SchemeDef} (h : d.normalize = some d') : d'.version = d.version := by
  rcases normalize_cases h with rfl | ⟨f, _, _, rfl⟩ <;> rfl

theorem normalize_annotation {d d' : SchemeDef} (h : d.normalize = some d') :
    d'.annotation = d.annotation := by
  rcases normalize_cases h with rfl | ⟨f, _, _, rfl⟩ <;> rfl

theorem normalize_base {d d' : SchemeDef} (h : d.normalize = some d') : d'.base = d.base := by
  rcases normalize_cases h with rfl | ⟨f, _, _, rfl⟩ <;> rfl

theorem normalize_hasBase {d d' : SchemeDef} (h : d.normalize = some d') : d'.hasBase = d.hasBase := by
  unfold SchemeDef.hasBase; rw [normalize_base h]

theorem normalize_columns_sublist {d d' : SchemeDef} (h : d.normalize = some d') :
    d'.columns.Sublist d.columns := by
  rcases normalize_cases h with rfl | ⟨f, _, _, rfl⟩
  · exact List.Sublist.refl _
  · exact List.filter_sublist

/-- a definition with a base, or without a `filtered` list, is left alone -/
theorem normalize_id {d : SchemeDef} (h : d.hasBase = none → d.filtered = none) : d.normalize = some d := by
  unfold SchemeDef.normalize
  cases hb : d.hasBase with
  | some b => rfl
  | none => rw [h hb]

/-- a base-less definition's `filtered` list is applied to its own columns -/
theorem normalize_baseless {d d' : SchemeDef} (h : d.normalize = some d') (hb : d.hasBase = none)
    {f : List String} (hf : d.filtered = some f) :
    d'.filtered = none ∧ d'.columns = d.columns.filter (fun c => !f.contains c.1) ∧
      ∀ n ∈ f, n ∈ d.columns.map (·.1) := by
  unfold SchemeDef.normalize at h
  rw [hb, hf] at h
  simp only [] at h
  split at h
  · cases h
  · rename_i hany
    have := (Option.some.inj h).symm
    subst this
    refine ⟨rfl, rfl, fun n hn => ?_⟩
    simp only [List.any_eq_true, Bool.not_eq_true', not_exists, not_and, Bool.not_eq_false] at hany
    have := hany n hn
    simp only [beq_iff_eq] at this
    obtain ⟨c, hc, rfl⟩ := this
    exact List.mem_map.2 ⟨c, hc, rfl⟩

theorem normD_of_some {d d' : SchemeDef} (h : d.normalize = some d') : normD d = d' := by
  unfold normD; rw [h]; rfl

theorem mapM_normalize_some {data ds : List SchemeDef} (h : data.mapM SchemeDef.normalize = some ds) :
    (∀ d ∈ data, d.normalize = some (normD d)) ∧ ds = data.map normD := by
  induction data generalizing ds with
  | nil =>
    simp only [List.mapM_nil] at h
    cases h
    exact ⟨by simp, rfl⟩
  | cons x xs ih =>
    rw [List.mapM_cons] at h
    cases hx : x.normalize with
    | none => rw [hx] at h; cases h
    | some x' =>
      cases hxs : xs.mapM SchemeDef.normalize with
      | none => rw [hx, hxs] at h; cases h
      | some xs' =>
        rw [hx, hxs] at h
        obtain ⟨h1, h2⟩ := ih hxs
        have h3 : ds = x' :: xs' := by cases h; rfl
        refine ⟨fun d hd => ?_, ?_⟩
        · rcases List.mem_cons.1 hd with rfl | hd
          · rw [hx, normD_of_some hx]
          · exact h1 d hd
        · rw [h3, List.map_cons, normD_of_some hx, h2]

theorem mapM_normalize_of_all {data : List SchemeDef} (h : ∀ d ∈ data, d.normalize = some (normD d)) :
    data.mapM SchemeDef.normalize = some (data.map normD) := by
  induction data with
  | nil => rfl
  | cons x xs ih =>
    rw [List.mapM_cons, h x (by simp), ih (fun d hd => h d (by simp [hd]))]
    rfl

theorem map_normD_annotation {data : List SchemeDef} (h : ∀ d ∈ data, d.normalize = some (normD d)) :
    (data.map normD).map (·.annotation) = data.map (·.annotation) := by
  rw [List.map_map]
  apply List.map_congr_left
  intro d hd
  exact normalize_annotation (h d hd)

/-- the normalised list is well-formed when the original is -/
theorem defsOK_normD {data : List SchemeDef} (h : ∀ d ∈ data, d.normalize = some (normD d))
    (hnd : (data.map (·.annotation)).Nodup) (hcols : ∀ d ∈ data, (d.columns.map (·.1)).Nodup)
    (hann : ∀ d ∈ data, d.annotation ≠ "") : C14.DefsOK (data.map normD) := by
  refine ⟨by rw [map_normD_annotation h]; exact hnd, ?_, ?_⟩
  · intro d' hd'
    obtain ⟨d, hd, rfl⟩ := List.mem_map.1 hd'
    exact List.Nodup.sublist ((normalize_columns_sublist (h d hd)).map _) (hcols d hd)
  · intro d' hd'
    obtain ⟨d, hd, rfl⟩ := List.mem_map.1 hd'
    rw [normalize_annotation (h d hd)]; exact hann d hd

/-! ### what a successful run consists of -/

theorem buildSchemesTop_ok {st : BuildState} {data : List SchemeDef} {r}
    (h : buildSchemesTop st data = .ok r) :
    (data.map (·.annotation)).Nodup ∧ ∃ ds, data.mapM SchemeDef.normalize = some ds ∧
      buildSchemes st ds = .ok r := by
  unfold buildSchemesTop at h
  split at h
  · cases h
  · rename_i hnd
    simp only [Bool.not_eq_true', decide_eq_false_iff_not, Classical.not_not] at hnd
    split at h
    · cases h
    · rename_i ds hds
      exact ⟨hnd, ds, hds, h⟩

theorem buildSchemesTop_of {st : BuildState} {data ds : List SchemeDef}
    (hnd : (data.map (·.annotation)).Nodup) (hds : data.mapM SchemeDef.normalize = some ds) :
    buildSchemesTop st data = buildSchemes st ds := by
  unfold buildSchemesTop
  simp only [hnd, decide_true, Bool.not_true, Bool.false_eq_true, if_false, hds]

theorem loadAll_ok {tbl : ClassTable} {order : List Nat} {bs ex : List SchemeDef}
    {tbl' : ClassTable} {ss : List Scheme} (h : loadAll tbl order bs ex = .ok (tbl', ss)) :
    checkSchemeData { tbl := tbl, enums := [], H := ⟨fun _ => none⟩ } (bs ++ ex) = .ok () ∧
    ∃ st built, buildSchemesTop { tbl := tbl, order := order } (bs ++ ex) = .ok (st, built) ∧
      validateSchemes (noRestrictionsClass :: built.map (·.2)) = true ∧
      ss = built.map (·.2) ∧ tbl' = st.tbl := by
  unfold loadAll at h
  simp only [] at h
  split at h
  · cases h
  · rename_i hc
    split at h
    · cases h
    · rename_i st built hb
      split at h
      · cases h
      · rename_i hv
        simp only [Bool.not_eq_true, Bool.not_eq_false'] at hv
        simp only [Except.ok.injEq, Prod.mk.injEq] at h
        exact ⟨hc, st, built, hb, hv, h.2.symm, h.1.symm⟩

/-! ### a hypothesis-free invariant of the build loop -/

theorem buildSchemeClass_fields {st st1 : BuildState} {d : SchemeDef} {base : Option Scheme} {s : Scheme}
    (h : buildSchemeClass st d base = .ok (st1, s)) :
    s.version = d.version ∧ s.annotation = d.annotation ∧ s.noRestrictions = false := by
  unfold buildSchemeClass at h
  split at h
  · split at h
    · simp only [Except.ok.injEq, Prod.mk.injEq] at h
      obtain ⟨_, rfl⟩ := h
      exact ⟨rfl, rfl, rfl⟩
    · cases h
  · simp only [Except.ok.injEq, Prod.mk.injEq] at h
    obtain ⟨_, rfl⟩ := h
    exact ⟨rfl, rfl, rfl⟩

/-- keys are the annotations, every built scheme carries the version and annotation of
    its definition and is not the no-restrictions pseudo-scheme -/
structure BInv (ds data : List SchemeDef) (built : List (String × Scheme)) : Prop where
  perm : (built.map (·.1) ++ data.map (·.annotation)).Perm (ds.map (·.annotation))
  sub : ∀ d ∈ data, d ∈ ds
  ok : ∀ p ∈ built, ∃ d ∈ ds, d.annotation = p.1 ∧ p.2.version = d.version ∧
    p.2.annotation = d.annotation ∧ p.2.noRestrictions = false

theorem BInv.init (ds : List SchemeDef) : BInv ds ds [] := ⟨by simp, fun _ h => h, by simp⟩

theorem BInv.step {ds data built} (hnd : (ds.map (·.annotation)).Nodup) (hinv : BInv ds data built)
    {i : Nat} {d : SchemeDef} {st st1 : BuildState} {s : Scheme}
    (hd : data[i]? = some d)
    (hb : buildSchemeClass st d (d.hasBase.bind (dictGet built)) = .ok (st1, s)) :
    BInv ds (data.eraseIdx i) (dictSet built s.annotation s) := by
  have hdm : d ∈ data := List.mem_of_getElem? hd
  obtain ⟨hv, ha, hnr⟩ := buildSchemeClass_fields hb
  have hnd' : (built.map (·.1) ++ data.map (·.annotation)).Nodup := hinv.perm.nodup_iff.2 hnd
  have hfresh : s.annotation ∉ built.map (·.1) := by
    intro hmem
    rw [ha] at hmem
    exact (List.nodup_append.1 hnd').2.2 _ hmem _ (List.mem_map.2 ⟨d, hdm, rfl⟩) rfl
  rw [dictSet_of_not_mem _ hfresh]
  refine ⟨?_, fun x hx => hinv.sub x (List.mem_of_mem_eraseIdx hx), ?_⟩
  · refine List.Perm.trans ?_ hinv.perm
    rw [List.map_append, List.append_assoc]
    apply List.Perm.append_left
    simp only [List.map_cons, List.map_nil, List.singleton_append]
    rw [ha]
    exact (perm_cons_eraseIdx hd).map (·.annotation)
  · intro p hp
    rcases List.mem_append.1 hp with hp | hp
    · exact hinv.ok p hp
    · simp only [List.mem_singleton] at hp
      subst hp
      exact ⟨d, hinv.sub d hdm, ha.symm, hv, ha, hnr⟩

theorem binv_of_ok {st : BuildState} {ds : List SchemeDef} (hnd : (ds.map (·.annotation)).Nodup) {r}
    (h : buildSchemes st ds = .ok r) : BInv ds [] r.2 :=
  buildSchemesAux_induct (fun _ data built => BInv ds data built)
    (fun _ _ _ _ _ _ _ hinv _ hd hb => hinv.step hnd hd hb) _ st ds [] r (BInv.init ds) h

/-- every definition of a successful run has a scheme under its annotation, with its
    own version and annotation (only distinct annotations are assumed) -/
theorem built_entry {st : BuildState} {ds : List SchemeDef} (hnd : (ds.map (·.annotation)).Nodup) {r}
    (h : buildSchemes st ds = .ok r) {d : SchemeDef} (hd : d ∈ ds) :
    ∃ s, dictGet r.2 d.annotation = some s ∧ s.version = d.version ∧ s.annotation = d.annotation ∧
      s.noRestrictions = false := by
  have hinv := binv_of_ok hnd h
  have hkeys : (r.2.map (·.1)).Nodup := by
    have := hinv.perm.nodup_iff.2 hnd
    simpa using this
  have hmem : d.annotation ∈ r.2.map (·.1) := by
    have := hinv.perm.mem_iff.2 (List.mem_map.2 ⟨d, hd, rfl⟩)
    simpa using this
  obtain ⟨p, hp, hpa⟩ := List.mem_map.1 hmem
  obtain ⟨d', hd', ha', hv, hann, hnr⟩ := hinv.ok p hp
  have hdd : d' = d := by
    have h1 := findDef_of_mem hnd hd'
    have h2 := findDef_of_mem hnd hd
    rw [ha', hpa, h2] at h1
    exact (Option.some.inj h1).symm
  subst hdd
  exact ⟨p.2, dictGet_of_mem_nodup hkeys (by rw [← hpa]; exact hp), hv, hann, hnr⟩

/-- every built scheme comes from a definition -/
theorem built_origin {st : BuildState} {ds : List SchemeDef} (hnd : (ds.map (·.annotation)).Nodup) {r}
    (h : buildSchemes st ds = .ok r) {s : Scheme} (hs : s ∈ r.2.map (·.2)) :
    ∃ d ∈ ds, s.version = d.version ∧ s.annotation = d.annotation ∧ s.noRestrictions = false := by
  obtain ⟨p, hp, rfl⟩ := List.mem_map.1 hs
  obtain ⟨d, hd, _, hv, ha, hnr⟩ := (binv_of_ok hnd h).ok p hp
  exact ⟨d, hd, hv, ha, hnr⟩

/-! ### appending definitions does not change what is already resolved -/

theorem findDef_append_of_some {bs : List SchemeDef} (ex : List SchemeDef) {a : String} {d : SchemeDef}
    (h : Spec.findDef bs a = some d) : Spec.findDef (bs ++ ex) a = some d := by
  unfold Spec.findDef at h ⊢
  rw [List.find?_append, h]; rfl

/-- `findDef (bs ++ ex) a = findDef bs a` when `a` is an annotation in `bs` -/
theorem findDef_append_of_mem {bs : List SchemeDef} (ex : List SchemeDef) {a : String}
    (h : a ∈ bs.map (·.annotation)) : Spec.findDef (bs ++ ex) a = Spec.findDef bs a := by
  cases hf : Spec.findDef bs a with
  | none => exact absurd h (findDef_eq_none.1 hf)
  | some d => exact findDef_append_of_some ex hf

/-- a chain that resolves inside `bs` resolves to the same layout in `bs ++ ex` -/
theorem resolve_append {bs : List SchemeDef} (ex : List SchemeDef) {n : Nat} {a : String} {l : Spec.Layout}
    (h : Spec.resolve bs n a = some l) : Spec.resolve (bs ++ ex) n a = some l := by
  induction n generalizing a l with
  | zero => simp [Spec.resolve] at h
  | succ n ih =>
    unfold Spec.resolve at h ⊢
    split at h
    · cases h
    · rename_i d hd
      rw [findDef_append_of_some ex hd]
      simp only []
      split at h
      · exact h
      · rename_i b hb
        cases hr : Spec.resolve bs n b with
        | none => rw [hr] at h; cases h
        | some bl => rw [hr] at h; rw [ih hr]; exact h

theorem layoutOf_append {bs : List SchemeDef} (ex : List SchemeDef) {a : String} {l : Spec.Layout}
    (h : Spec.layoutOf bs a = some l) : Spec.layoutOf (bs ++ ex) a = some l := by
  unfold Spec.layoutOf at h ⊢
  exact resolve_mono _ (by simp) (resolve_append ex h)

end RegistryLemmas
