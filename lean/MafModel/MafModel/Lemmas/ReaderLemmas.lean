/-
  The reader (`MafModel/Model/Reader.lean`): where the look-ahead stands in the input, what
  `Reader.init` computes, and invariant reasoning over `Reader.iterate`.
-/
import MafModel.Lemmas.ReaderRecord
import MafModel.Lemmas.SortOrderLemmas
open Py
namespace Model

/-! ### the input as the reader sees it -/

/-- the input lines with their line ends stripped -/
def stripped (lines : List Text) : List Text := lines.map rstripCRLF

/-- the header block: the maximal prefix of (stripped) lines that start with the start symbol -/
def headerBlock (K : HConsts) (lines : List Text) : List Text :=
  (stripped lines).takeWhile (fun l => decide (l.head? = some K.startSymbol))

/-- `k`: the number of header lines -/
def headerLen (K : HConsts) (lines : List Text) : Nat := (headerBlock K lines).length

/-- the data lines: everything after the column-name line -/
def dataLines (K : HConsts) (lines : List Text) : List Text := (stripped lines).drop (headerLen K lines + 1)

theorem takeWhile_length_le {α} (p : α → Bool) (l : List α) : (l.takeWhile p).length ≤ l.length := by
  induction l with
  | nil => simp
  | cons a l ih => simp only [List.takeWhile_cons]; split <;> simp; omega

theorem takeWhile_eq_take_length {α} (p : α → Bool) (l : List α) :
    l.takeWhile p = l.take (l.takeWhile p).length := by
  induction l with
  | nil => simp
  | cons a l ih =>
    simp only [List.takeWhile_cons]
    split
    · simp only [List.length_cons, List.take_succ_cons]; rw [← ih]
    · simp

theorem of_mem_takeWhile {α} (p : α → Bool) (l : List α) (a : α) (h : a ∈ l.takeWhile p) : p a = true := by
  induction l with
  | nil => simp at h
  | cons b l ih =>
    simp only [List.takeWhile_cons] at h
    split at h
    · rcases List.mem_cons.1 h with rfl | h
      · assumption
      · exact ih h
    · simp at h

@[simp] theorem stripped_length (lines : List Text) : (stripped lines).length = lines.length := by
  simp [stripped]

theorem headerLen_le (K : HConsts) (lines : List Text) : headerLen K lines ≤ lines.length := by
  unfold headerLen headerBlock
  have := takeWhile_length_le (fun l => decide (l.head? = some K.startSymbol)) (stripped lines)
  simpa using this

theorem headerBlock_eq_take (K : HConsts) (lines : List Text) :
    headerBlock K lines = (stripped lines).take (headerLen K lines) := by
  unfold headerLen headerBlock
  exact takeWhile_eq_take_length _ _

/-- the line after the header block does not start with the start symbol -/
theorem not_header_at_headerLen (K : HConsts) (lines : List Text) (l : Text)
    (h : (stripped lines)[headerLen K lines]? = some l) : l.head? ≠ some K.startSymbol := by
  unfold headerLen headerBlock at h
  generalize stripped lines = S at h
  induction S with
  | nil => simp at h
  | cons a S ih =>
    by_cases ha : a.head? = some K.startSymbol
    · simp only [List.takeWhile_cons, ha, decide_true, if_true, List.length_cons,
        List.getElem?_cons_succ] at h
      exact ih h
    · simp only [List.takeWhile_cons, ha, decide_false, Bool.false_eq_true, if_false,
        List.length_nil, List.getElem?_cons_zero, Option.some.injEq] at h
      subst h; exact ha

/-- every line of the header block starts with the start symbol -/
theorem header_of_mem_headerBlock (K : HConsts) (lines : List Text) (l : Text)
    (h : l ∈ headerBlock K lines) : l.head? = some K.startSymbol := by
  have := of_mem_takeWhile _ _ _ h
  simpa using this

/-! ### `advance` -/

@[simp] theorem advance_header (r : Reader) : r.advance.header = r.header := by
  unfold Reader.advance; split <;> rfl
@[simp] theorem advance_scheme (r : Reader) : r.advance.scheme = r.scheme := by
  unfold Reader.advance; split <;> rfl
@[simp] theorem advance_errors (r : Reader) : r.advance.errors = r.errors := by
  unfold Reader.advance; split <;> rfl
@[simp] theorem advance_mode (r : Reader) : r.advance.mode = r.mode := by
  unfold Reader.advance; split <;> rfl
@[simp] theorem advance_logs (r : Reader) : r.advance.logs = r.logs := by
  unfold Reader.advance; split <;> rfl
/-- every call pulls once -/
@[simp] theorem advance_pulled (r : Reader) : r.advance.pulled = r.pulled + 1 := by
  unfold Reader.advance; split <;> rfl
@[simp] theorem advance_src (r : Reader) : r.advance.src = r.src.tail := by
  unfold Reader.advance; split <;> simp_all
@[simp] theorem advance_next (r : Reader) : r.advance.next = r.src.head?.map rstripCRLF := by
  unfold Reader.advance; split <;> simp_all
theorem advance_lineNo (r : Reader) :
    r.advance.lineNo = r.lineNo + (if r.src = [] then 0 else 1) := by
  unfold Reader.advance; split <;> simp_all

/-- the part of the state `advance` does not look at commutes with it -/
theorem advance_with (r : Reader) (h : Header) (s : Option Scheme) (es : List VErr) (m : Mode)
    (lg : List LogRec) :
    ({ r with header := h, scheme := s, errors := es, mode := m, logs := lg } : Reader).advance =
      { r.advance with header := h, scheme := s, errors := es, mode := m, logs := lg } := by
  unfold Reader.advance
  cases r.src <;> rfl

/-- **the look-ahead stands at (0-based) line `p`**: `p + 1` pulls so far, the look-ahead is
    line `p` (if there is one), the line counter is the number of lines really read -/
structure At (lines : List Text) (r : Reader) (p : Nat) : Prop where
  pulled : r.pulled = p + 1
  src : r.src = lines.drop (p + 1)
  lineNo : r.lineNo = min (p + 1) lines.length
  next : r.next = (stripped lines)[p]?

theorem At.advance {lines : List Text} {r : Reader} {p : Nat} (h : At lines r p) :
    At lines r.advance (p + 1) := by
  refine ⟨by simp [h.pulled], by simp [h.src], ?_, ?_⟩
  · rw [advance_lineNo, h.src, h.lineNo]
    by_cases hp : p + 1 < lines.length
    · have : lines.drop (p + 1) ≠ [] := by simp; omega
      rw [if_neg this]; omega
    · have : lines.drop (p + 1) = [] := by simp; omega
      rw [if_pos this]; omega
  · rw [advance_next, h.src]
    simp [stripped, List.head?_drop]

/-- `src.length + pulled` bookkeeping: the lines not yet pulled are exactly the input minus the
    pulls -/
theorem At.src_length {lines : List Text} {r : Reader} {p : Nat} (h : At lines r p) :
    r.src.length + min r.pulled lines.length = lines.length := by
  rw [h.src, h.pulled]; simp; omega

theorem At.next_none_iff {lines : List Text} {r : Reader} {p : Nat} (h : At lines r p) :
    r.next = none ↔ lines.length ≤ p := by
  rw [h.next]; simp

/-! ### `readHeaderLines` -/

theorem readHeaderLines_spec (K : HConsts) :
    ∀ (fuel : Nat) (r : Reader) (acc : List Text), r.src.length < fuel →
      readHeaderLines K fuel r acc =
        ({ r with src := r.src.drop ((headerBlock K r.src).length + 1),
                  pulled := r.pulled + (headerBlock K r.src).length + 1,
                  next := (stripped r.src)[(headerBlock K r.src).length]?,
                  lineNo := r.lineNo + min ((headerBlock K r.src).length + 1) r.src.length },
         acc ++ headerBlock K r.src) := by
  intro fuel
  induction fuel with
  | zero => intro r acc h; omega
  | succ fuel ih =>
    intro r acc hf
    obtain ⟨src, pulled, next, lineNo, header, scheme, errors, mode, logs⟩ := r
    cases src with
    | nil =>
      simp [readHeaderLines, Reader.advance, headerBlock, stripped]
    | cons l ls =>
      simp only [List.length_cons] at hf
      by_cases hl : (rstripCRLF l).head? = some K.startSymbol
      · have hb : headerBlock K (l :: ls) = rstripCRLF l :: headerBlock K ls := by
          simp [headerBlock, stripped, hl]
        simp only [readHeaderLines, Reader.advance, hl, if_true, hb]
        rw [ih _ _ (by simp; omega)]
        simp [stripped]
        omega
      · have hb : headerBlock K (l :: ls) = [] := by
          simp [headerBlock, stripped, hl]
        simp [readHeaderLines, Reader.advance, hl, hb, stripped]

/-- **the header block as `__init__` reads it**: with the fuel `Reader.init` provides,
    `readHeaderLines` returns exactly the maximal prefix of start-symbol lines, leaves the
    look-ahead on the line after it (`(stripped lines)[k]?`), has pulled `k + 1` times, counts
    `min (k+1) |lines|` lines read, and has `lines.drop (k+1)` still to pull -/
theorem readHeaderLines_init (K : HConsts) (lines : List Text) (m : Mode) :
    readHeaderLines K (lines.length + 1) { src := lines, mode := m } [] =
      ({ src := lines.drop (headerLen K lines + 1), pulled := headerLen K lines + 1,
         next := (stripped lines)[headerLen K lines]?,
         lineNo := min (headerLen K lines + 1) lines.length, mode := m },
       headerBlock K lines) := by
  rw [readHeaderLines_spec K _ _ _ (by simp)]
  simp [headerLen]

/-! ### `Reader.init`, taken apart -/

/-- `HEADER_MISMATCH_SCHEME`: the given scheme against the scheme the header names -/
def initE1 (hs given : Option Scheme) : List VErr :=
  match given with
  | some g =>
    (match hs with
     | some s => if g.version ≠ s.version then [{ tpe := "HEADER_MISMATCH_SCHEME", line := none }] else []
     | none => [])
  | none => []

/-- the scheme before the column names are seen: the given one, else the header's -/
def initSch1 (hs given : Option Scheme) : Option Scheme :=
  match given with
  | some g => some g
  | none => hs

/-- no usable scheme: the reader falls back to `NoRestrictionsScheme(column names)` -/
def schemeless (sch1 : Option Scheme) : Prop := sch1.isNone ∨ (sch1.map (·.noRestrictions)) = some true

instance (sch1 : Option Scheme) : Decidable (schemeless sch1) := by unfold schemeless; infer_instance

/-- the scheme the records are read with -/
def initSch2 (colNames : Option (List Text)) (sch1 : Option Scheme) : Option Scheme :=
  match colNames with
  | some names => if schemeless sch1 then some (noRestrictionsScheme (names.map String.ofList)) else sch1
  | none => sch1

/-- the `NO_MATCHING_SCHEME_WARNING` log record -/
def initWarn (m : Mode) (colNames : Option (List Text)) (sch1 : Option Scheme) : List LogRec :=
  match colNames with
  | some _ => if schemeless sch1 then (if m ≠ .silent then [{ tpe := "NO_MATCHING_SCHEME_WARNING", line := none }] else []) else []
  | none => []

/-- the column-name errors; `k` = number of header lines, so the column-name line is line `k + 1` -/
def initE2 (colNames : Option (List Text)) (sch2 : Option Scheme) (k : Nat) : List VErr :=
  match colNames, sch2 with
  | some names, some s =>
    let snames := s.names.map String.toList
    if names.length ≠ snames.length then
      [{ tpe := "SCHEME_MISMATCHING_NUMBER_OF_COLUMN_NAMES", line := some (k + 1), origin := some (k + 1) }]
    else (names.zip snames).filterMap (fun p =>
      if p.1 ≠ p.2 then some { tpe := "SCHEME_MISMATCHING_COLUMN_NAMES", line := some (k + 1), origin := some (k + 1) } else none)
  | some _, none => []
  | none, _ => [{ tpe := "HEADER_MISSING_COLUMN_NAMES", line := some (k + 1), origin := some (k + 1) }]

/-- the reader `__init__` leaves: look-ahead at line `p` -/
def initReader (lines : List Text) (p : Nat) (h : Header) (sch : Option Scheme) (errs : List VErr)
    (m : Mode) (logs : List LogRec) : Reader :=
  { src := lines.drop (p + 1), pulled := p + 1, next := (stripped lines)[p]?,
    lineNo := min (p + 1) lines.length, header := h, scheme := sch, errors := errs, mode := m, logs := logs }

theorem init_eq (C : Ctx) (K : HConsts) (R : Registry) (lines : List Text) (mode : Option Mode)
    (given : Option Scheme) :
    Reader.init C K R lines mode given =
      match Header.fromLines K R (headerBlock K lines) (some (modeOrSilent mode)) with
      | (_, .error e) => .error e
      | (h, .ok hlogs) =>
        let k := headerLen K lines
        let colNames := (stripped lines)[k]?.map (splitOn '\t')
        let sch1 := initSch1 (h.scheme K R) given
        let sch2 := initSch2 colNames sch1
        let errs := h.errors ++ initE1 (h.scheme K R) given ++ initE2 colNames sch2 k
        match processErrors (modeOrSilent mode) errs with
        | .error e => .error e
        | .ok lg => .ok (initReader lines (min (k + 1) lines.length) h sch2 errs (modeOrSilent mode)
                          (hlogs ++ initWarn (modeOrSilent mode) colNames sch1 ++ lg)) := by
  unfold Reader.init
  simp only []
  rw [readHeaderLines_spec K _ _ _ (by simp)]
  simp only [List.nil_append]
  rcases hfl : Header.fromLines K R (headerBlock K lines) (some (modeOrSilent mode)) with ⟨h, res⟩
  cases res with
  | error e => rfl
  | ok hlogs =>
    simp only []
    have hk := headerLen_le K lines
    cases hc : (stripped lines)[headerLen K lines]? with
    | none =>
      have hlen : lines.length ≤ headerLen K lines := by simpa using hc
      have hk' : headerLen K lines = lines.length := by omega
      have e0 : (headerBlock K lines).length = headerLen K lines := rfl
      have hmin : min (headerLen K lines + 1) lines.length = headerLen K lines := by omega
      simp only [e0, hc, Nat.zero_add, hmin, Option.map_none]
      cases given <;> simp only [initE1, initSch1, initSch2, initE2, initWarn, initReader, hc, List.append_nil]
      all_goals simp only [hmin]
      all_goals rfl
    | some l =>
      have hlt : headerLen K lines < lines.length := by
        have := (List.getElem?_eq_some_iff.1 hc).1
        simpa using this
      have e0 : (headerBlock K lines).length = headerLen K lines := rfl
      have hmin : min (headerLen K lines + 1) lines.length = headerLen K lines + 1 := by omega
      simp only [e0, hc, Nat.zero_add, hmin, Option.map_some]
      have hsrc : (List.drop (headerLen K lines + 1) lines).tail = List.drop (headerLen K lines + 1 + 1) lines := by
        simp [List.tail_drop]
      have hnext : (List.drop (headerLen K lines + 1) lines).head?.map rstripCRLF = (stripped lines)[headerLen K lines + 1]? := by
        simp [stripped, List.head?_drop]
      have hln : (headerLen K lines + 1 + if List.drop (headerLen K lines + 1) lines = [] then 0 else 1)
          = min (headerLen K lines + 1 + 1) lines.length := by
        by_cases hp : headerLen K lines + 1 < lines.length
        · have : lines.drop (headerLen K lines + 1) ≠ [] := by simp; omega
          rw [if_neg this]; omega
        · have : lines.drop (headerLen K lines + 1) = [] := by simp; omega
          rw [if_pos this]; omega
      simp only [advance_src, advance_pulled, advance_next, advance_lineNo, advance_header, advance_errors,
        advance_mode, advance_logs, hsrc, hnext, hln]
      cases given <;> simp only [initE1, initSch1, initSch2, initE2, initWarn, initReader, List.append_nil]
      · by_cases hs : schemeless (Header.scheme K R h)
        · have hs' : (Header.scheme K R h).isNone = true ∨ (Header.scheme K R h).map (·.noRestrictions) = some true := hs
          simp only [hs, hs', ↓reduceIte]
          rfl
        · have hs' : ¬ ((Header.scheme K R h).isNone = true ∨ (Header.scheme K R h).map (·.noRestrictions) = some true) := hs
          simp only [hs, hs', ↓reduceIte]
          cases Header.scheme K R h <;> rfl
      · rename_i g
        by_cases hs : schemeless (some g)
        · have hs' : (some g).isNone = true ∨ (some g).map (·.noRestrictions) = some true := hs
          simp only [hs, hs', ↓reduceIte]
          rfl
        · have hs' : ¬ ((some g).isNone = true ∨ (some g).map (·.noRestrictions) = some true) := hs
          simp only [hs, hs', ↓reduceIte]
          rfl



/-! ### `nextRecord` and `iterate` -/

/-- the ghost stamp `__next__` puts on the errors of the record it returns -/
def stamp (n : Nat) (es : List VErr) : List VErr := es.map (fun e => { e with origin := some n })

@[simp] theorem stamp_nil (n : Nat) : stamp n [] = [] := rfl
theorem stamp_eq_nil {n : Nat} {es : List VErr} : stamp n es = [] ↔ es = [] := by simp [stamp]
theorem errLogs_stamp (m : Mode) (n : Nat) (es : List VErr) : errLogs m (stamp n es) = errLogs m es :=
  errLogs_map_origin m es (some n)
theorem mem_stamp {n : Nat} {es : List VErr} {e : VErr} :
    e ∈ stamp n es ↔ ∃ e' ∈ es, e = { e' with origin := some n } := by
  simp [stamp, eq_comm]

theorem advance_with_errors_logs (r : Reader) (es : List VErr) (lg : List LogRec) :
    ({ r with errors := es, logs := lg } : Reader).advance = { r.advance with errors := es, logs := lg } := by
  unfold Reader.advance
  cases r.src <;> rfl

theorem nextRecord_none {C : Ctx} {r : Reader} (h : r.next = none) : r.nextRecord C = .ok none := by
  unfold Reader.nextRecord; rw [h]

/-- `__next__` = the stringency-independent parse of the look-ahead line, `processErrors` on the
    record's errors, then one pull -/
theorem nextRecord_some {C : Ctx} {r : Reader} {l : Text} (h : r.next = some l) :
    r.nextRecord C =
      match parsedLine C l none r.scheme (some r.lineNo) with
      | .error e => .error e
      | .ok rec =>
        match processErrors r.mode rec.errors with
        | .error e => .error e
        | .ok lg =>
          .ok (some ({ rec.withMode r.mode with errors := stamp r.lineNo rec.errors },
                     { r.advance with errors := r.errors ++ stamp r.lineNo rec.errors, logs := r.logs ++ lg })) := by
  unfold Reader.nextRecord
  split
  · rename_i h'; rw [h] at h'; cases h'
  · rename_i l' h'
    rw [h] at h'; cases h'
    rw [fromLine_spec]
    cases parsedLine C l none r.scheme (some r.lineNo) with
    | error e => rfl
    | ok rec =>
      simp only [modeOrSilent]
      cases processErrors r.mode rec.errors with
      | error e => rfl
      | ok lg =>
        simp only []
        rw [advance_with_errors_logs]
        rfl

/-- the lines the iteration still has to go through -/
def pending (r : Reader) : List Text :=
  match r.next with
  | none => []
  | some l => l :: r.src.map rstripCRLF

theorem pending_advance (r : Reader) : pending r.advance = r.src.map rstripCRLF := by
  unfold pending
  rw [advance_next, advance_src]
  cases r.src <;> rfl

theorem At.pending {lines : List Text} {r : Reader} {p : Nat} (h : At lines r p) :
    pending r = (stripped lines).drop p := by
  unfold Model.pending
  rw [h.next, h.src]
  by_cases hp : p < lines.length
  · rw [List.getElem?_eq_getElem (by simpa using hp)]
    simp only [stripped]
    have := List.drop_eq_getElem_cons (l := lines.map rstripCRLF) (i := p) (by simpa using hp)
    rw [this]; simp
  · rw [List.getElem?_eq_none (by simpa using hp)]
    simp
    omega

/-- a successful `__next__`: what it returns -/
theorem nextRecord_ok {C : Ctx} {r : Reader} {rec : Record} {r' : Reader}
    (h : r.nextRecord C = .ok (some (rec, r'))) :
    ∃ l prec lg, r.next = some l ∧ parsedLine C l none r.scheme (some r.lineNo) = .ok prec ∧
      processErrors r.mode prec.errors = .ok lg ∧
      rec = { prec.withMode r.mode with errors := stamp r.lineNo prec.errors } ∧
      r' = { r.advance with errors := r.errors ++ stamp r.lineNo prec.errors, logs := r.logs ++ lg } := by
  cases hn : r.next with
  | none => rw [nextRecord_none hn] at h; cases h
  | some l =>
    rw [nextRecord_some hn] at h
    cases hp : parsedLine C l none r.scheme (some r.lineNo) with
    | error e => rw [hp] at h; cases h
    | ok prec =>
      rw [hp] at h
      simp only [] at h
      cases hpe : processErrors r.mode prec.errors with
      | error e => rw [hpe] at h; cases h
      | ok lg =>
        rw [hpe] at h
        simp only [Except.ok.injEq, Option.some.injEq, Prod.mk.injEq] at h
        exact ⟨l, prec, lg, rfl, hp, hpe, h.1.symm, h.2.symm⟩

theorem nextRecord_ok_pending {C : Ctx} {r : Reader} {rec : Record} {r' : Reader}
    (h : r.nextRecord C = .ok (some (rec, r'))) : (pending r').length + 1 = (pending r).length := by
  obtain ⟨l, prec, lg, hn, _, _, _, rfl⟩ := nextRecord_ok h
  have : pending ({ r.advance with errors := r.errors ++ stamp r.lineNo prec.errors, logs := r.logs ++ lg } : Reader)
      = pending r.advance := rfl
  rw [this, pending_advance]
  simp [pending, hn]

/-- **invariant reasoning over the iteration**: `P` holds of every state the loop reaches, `Q` of
    the result, whichever way the loop ends; the fuel `readAll` provides is enough -/
theorem iterate_induction {C : Ctx} {K : HConsts}
    {P : Reader → Checker → List Record → Prop} {Q : List Record × Option PyErr × Reader → Prop}
    (hstop : ∀ r chk acc, P r chk acc → r.next = none → Q (acc, none, r))
    (herr1 : ∀ r chk acc e, P r chk acc → r.nextRecord C = .error e → Q (acc, some e, r))
    (herr2 : ∀ r chk acc rec r' e, P r chk acc → r.nextRecord C = .ok (some (rec, r')) →
      chk.addRecord rec = .error e → Q (acc, some e, r'))
    (hstep : ∀ r chk acc rec r' chk', P r chk acc → r.nextRecord C = .ok (some (rec, r')) →
      chk.addRecord rec = .ok chk' → P r' chk' (acc ++ [rec])) :
    ∀ (fuel : Nat) (r : Reader) (chk : Checker) (acc : List Record),
      (pending r).length < fuel → P r chk acc → Q (Reader.iterate C K fuel r chk acc) := by
  intro fuel
  induction fuel with
  | zero => intro r chk acc h; omega
  | succ fuel ih =>
    intro r chk acc hf hP
    unfold Reader.iterate
    cases hnr : r.nextRecord C with
    | error e => exact herr1 r chk acc e hP hnr
    | ok o =>
      cases o with
      | none =>
        simp only []
        apply hstop r chk acc hP
        cases hn : r.next with
        | none => rfl
        | some l =>
          rw [nextRecord_some hn] at hnr
          cases hp : parsedLine C l none r.scheme (some r.lineNo) with
          | error e => rw [hp] at hnr; cases hnr
          | ok prec =>
            rw [hp] at hnr
            simp only [] at hnr
            cases hpe : processErrors r.mode prec.errors with
            | error e => rw [hpe] at hnr; cases hnr
            | ok lg => rw [hpe] at hnr; cases hnr
      | some p =>
        obtain ⟨rec, r'⟩ := p
        simp only []
        cases hadd : chk.addRecord rec with
        | error e => exact herr2 r chk acc rec r' e hP hnr hadd
        | ok chk' =>
          simp only []
          apply ih r' chk' (acc ++ [rec])
          · have := nextRecord_ok_pending hnr; omega
          · exact hstep r chk acc rec r' chk' hP hnr hadd


/-! ### which exceptions the order checker raises -/

-- `posInt_error`, `posOk_of_posInt_ok`, `chrStep_error_kind`, `mkKey_error_kind` (and the exact
-- characterisations `mkKey_keyError_iff`, `mkKey_valueError_iff`) live in `SortOrderLemmas`.

/-- a keyable record with textual barcodes is well-formed -/
theorem wf_of_mkKey_ok {o : Order} {cs : List Text} {l : Loc} {k : Key} (h : mkKey o cs l = .ok k)
    (ht : l.tumor.isNS = true) (hn : l.normal.isNS = true) : l.WF := by
  have hc := hasCoords_of_mkKey_ok h
  rw [mkKey_unfold hc] at h
  cases h1 : chrStep cs (chrText l.chr) with
  | error e1 => rw [h1] at h; cases h
  | ok c =>
    cases h2 : posInt l.start with
    | error e2 => rw [h1, h2] at h; cases h
    | ok s =>
      cases h3 : posInt l.stop with
      | error e3 => rw [h1, h2, h3] at h; cases h
      | ok t => exact ⟨hc, ht, hn, posOk_of_posInt_ok h2, posOk_of_posInt_ok h3⟩

/-- textual (or absent) barcodes -/
def Loc.BarcodesNS (l : Loc) : Prop := l.tumor.isNS = true ∧ l.normal.isNS = true

/-- what the checker remembers can be keyed (sortable orders) and has textual barcodes -/
def Checker.OK (c : Checker) : Prop :=
  c.order.sortable = true → ∀ l, c.last = some l → l.BarcodesNS ∧ ∃ lk, mkKey c.order c.contigs l = .ok lk

/-- `checker.add` on records with textual barcodes raises only `ValueError`, only for a sortable
    order, and keeps the checker's order and contig list -/
theorem Checker.add_kinds {c : Checker} {l : Loc} (hc : c.OK) (hl : l.BarcodesNS) :
    (∀ e, c.add l = .error e → c.order.sortable = true ∧ e = .value) ∧
    (∀ c', c.add l = .ok c' → c'.order = c.order ∧ c'.contigs = c.contigs ∧ c'.OK) := by
  unfold Checker.add
  cases hs : c.order.sortable with
  | false =>
    simp only [Bool.not_false, if_true]
    refine ⟨fun e h => (by cases h), fun c' h => ?_⟩
    cases h
    exact ⟨rfl, rfl, fun h' => by simp [hs] at h'⟩
  | true =>
    simp only [Bool.not_true, Bool.false_eq_true, if_false]
    cases hk : mkKey c.order c.contigs l with
    | error e =>
      rcases mkKey_error_kind hk with rfl | rfl
      · exact ⟨fun e h => (by cases h), fun c' h => by cases h; exact ⟨rfl, rfl, hc⟩⟩
      · exact ⟨fun e h => (by cases h; simp), fun c' h => by cases h⟩
    | ok k =>
      simp only []
      have hnew : ({ c with last := some l } : Checker).OK := by
        intro _ l' hl'
        simp only [Option.some.injEq] at hl'
        subst hl'
        exact ⟨hl, k, hk⟩
      cases hlast : c.last with
      | none =>
        exact ⟨fun e h => (by cases h), fun c' h => by cases h; exact ⟨rfl, rfl, hnew⟩⟩
      | some l0 =>
        simp only []
        obtain ⟨hl0, lk, hlk⟩ := hc hs l0 hlast
        rw [hlk]
        simp only []
        have hcompat := (mkKey_inv (wf_of_mkKey_ok hk hl.1 hl.2) hk).compat
          (mkKey_inv (wf_of_mkKey_ok hlk hl0.1 hl0.2) hlk)
        rw [(ops_of_cmpKey (cmpKey_eq_cmp hcompat)).1]
        cases decide (Key.cmp k lk < 0) with
        | true => exact ⟨fun e h => (by cases h; simp), fun c' h => by cases h⟩
        | false => exact ⟨fun e h => (by cases h), fun c' h => by cases h; exact ⟨rfl, rfl, hnew⟩⟩

/-- the same for a parsed record -/
theorem Checker.addRecord_kinds {c : Checker} {rec : Record} (hc : c.OK) (hl : rec.toLoc.BarcodesNS) :
    (∀ e, c.addRecord rec = .error e → c.order.sortable = true ∧ e = .value) ∧
    (∀ c', c.addRecord rec = .ok c' → c'.order = c.order ∧ c'.contigs = c.contigs ∧ c'.OK) := by
  unfold Checker.addRecord
  simp only []
  split
  · exact Checker.add_kinds hc hl
  · rename_i hcond
    have hs : c.order.sortable = true := by
      cases h : c.order.sortable <;> simp [h] at hcond ⊢
    split
    · exact ⟨fun e h => (by cases h), fun c' h => by cases h; exact ⟨rfl, rfl, hc⟩⟩
    · split
      · exact ⟨fun e h => (by cases h; exact ⟨hs, rfl⟩), fun c' h => by cases h⟩
      · exact ⟨fun e h => (by cases h), fun c' h => by cases h; exact ⟨rfl, rfl, hc⟩⟩

/-- an order that is not sortable never stops the iteration -/
theorem Checker.addRecord_unsortable {c : Checker} (rec : Record) (h : c.order.sortable = false) :
    c.addRecord rec = .ok { c with last := some rec.toLoc } := by
  unfold Checker.addRecord Checker.add
  simp [h]



/-! ### the whole-file reading, stage by stage -/

/-- the errors the reader collects for the data line `l` read as physical line `n`
    (`from_line`'s collected errors, stamped with the ghost origin) -/
def recordErrors (C : Ctx) (sch : Option Scheme) (m : Mode) (n : Nat) (l : Text) : List VErr :=
  match Record.fromLine C l none sch (some n) (some m) with
  | .ok (rec, _) => stamp n rec.errors
  | .error _ => []

theorem recordErrors_of_parsed {C : Ctx} {sch : Option Scheme} {m : Mode} {n : Nat} {l : Text}
    {prec : Record} {lg : List LogRec} (hp : parsedLine C l none sch (some n) = .ok prec)
    (hpe : processErrors m prec.errors = .ok lg) : recordErrors C sch m n l = stamp n prec.errors := by
  unfold recordErrors
  rw [fromLine_spec, hp]
  simp only [modeOrSilent, hpe]
  rfl

/-- the errors of the first `j` lines of `D`, line `i` (0-based) contributing `f i D[i]` -/
def errsUpTo (f : Nat → Text → List VErr) (D : List Text) (j : Nat) : List VErr :=
  (D.take j).zipIdx.flatMap (fun p => f p.2 p.1)

@[simp] theorem errsUpTo_zero (f : Nat → Text → List VErr) (D : List Text) : errsUpTo f D 0 = [] := by
  simp [errsUpTo]

theorem errsUpTo_succ (f : Nat → Text → List VErr) (D : List Text) (j : Nat) (hj : j < D.length) :
    errsUpTo f D (j + 1) = errsUpTo f D j ++ f j D[j] := by
  unfold errsUpTo
  rw [List.take_succ_eq_append_getElem hj, List.zipIdx_append]
  simp [List.length_take, Nat.min_eq_left (Nat.le_of_lt hj)]

theorem errsUpTo_all (f : Nat → Text → List VErr) (D : List Text) :
    errsUpTo f D D.length = D.zipIdx.flatMap (fun p => f p.2 p.1) := by
  simp [errsUpTo]

theorem At.data_line {K : HConsts} {lines : List Text} {r : Reader} {j : Nat} {l : Text}
    (h : At lines r (min (headerLen K lines + 1) lines.length + j)) (hn : r.next = some l) :
    ∃ hj : j < (dataLines K lines).length, (dataLines K lines)[j] = l ∧
      r.lineNo = headerLen K lines + 2 + j ∧ headerLen K lines + 1 + j < lines.length := by
  have h1 := h.next
  rw [hn] at h1
  have h2 := (List.getElem?_eq_some_iff.1 h1.symm)
  obtain ⟨hlt, hget⟩ := h2
  simp only [stripped_length] at hlt
  have hp0 : min (headerLen K lines + 1) lines.length = headerLen K lines + 1 := by omega
  rw [hp0] at hlt
  have hj : j < (dataLines K lines).length := by
    simp [dataLines]; omega
  refine ⟨hj, ?_, ?_, hlt⟩
  · simp only [dataLines, List.getElem_drop]
    rw [← hget]
    congr 1
    omega
  · rw [h.lineNo, hp0]; omega

theorem At.data_end {K : HConsts} {lines : List Text} {r : Reader} {j : Nat}
    (h : At lines r (min (headerLen K lines + 1) lines.length + j)) (hn : r.next = none)
    (hj : j ≤ (dataLines K lines).length) : j = (dataLines K lines).length := by
  have h1 := h.next_none_iff.1 hn
  simp [dataLines] at hj ⊢
  omega

/-- the state of the whole-file reading after `j` data lines -/
structure ReadState (C : Ctx) (K : HConsts) (lines : List Text) (sch : Option Scheme) (m : Mode)
    (base : List VErr) (r : Reader) (j : Nat) : Prop where
  pos : At lines r (min (headerLen K lines + 1) lines.length + j)
  le : j ≤ (dataLines K lines).length
  scheme : r.scheme = sch
  mode : r.mode = m
  errors : r.errors = base ++
    errsUpTo (fun i l => recordErrors C sch m (headerLen K lines + 2 + i) l) (dataLines K lines) j

/-- one successful `__next__` moves the reading one data line on -/
theorem ReadState.step {C : Ctx} {K : HConsts} {lines : List Text} {sch : Option Scheme} {m : Mode}
    {base : List VErr} {r : Reader} {j : Nat} (h : ReadState C K lines sch m base r j)
    {rec : Record} {r' : Reader} (hn : r.nextRecord C = .ok (some (rec, r'))) :
    ReadState C K lines sch m base r' (j + 1) := by
  obtain ⟨l, prec, lg, hnext, hp, hpe, _, rfl⟩ := nextRecord_ok hn
  obtain ⟨hj, hget, hln, _⟩ := h.pos.data_line hnext
  refine ⟨?_, hj, ?_, ?_, ?_⟩
  · have := h.pos.advance
    rw [Nat.add_assoc] at this
    exact ⟨by simpa using this.pulled, by simpa using this.src, by simpa using this.lineNo,
      by simpa using this.next⟩
  · simpa using h.scheme
  · simpa using h.mode
  · simp only []
    rw [errsUpTo_succ _ _ _ hj, h.errors, hget, List.append_assoc]
    congr 2
    rw [h.scheme] at hp
    rw [h.mode] at hpe
    rw [← hln, ← recordErrors_of_parsed hp hpe]

/-- **the whole-file reading, whichever way it ends**: it has gone through `j` data lines, where
    `j` is the number of records returned — plus one when the order checker stopped the iteration —
    and has collected exactly the errors of those lines, in file order -/
theorem iterate_spec {C : Ctx} {K : HConsts} {lines : List Text} {sch : Option Scheme} {m : Mode}
    {base : List VErr} (fuel : Nat) (r : Reader) (chk : Checker) (acc : List Record)
    (hf : (pending r).length < fuel) (h : ReadState C K lines sch m base r acc.length) :
    ∃ j, ReadState C K lines sch m base (Reader.iterate C K fuel r chk acc).2.2 j ∧
      (Reader.iterate C K fuel r chk acc).1.length ≤ j ∧
      j ≤ (Reader.iterate C K fuel r chk acc).1.length + 1 ∧
      ((Reader.iterate C K fuel r chk acc).2.1 = none →
        j = (dataLines K lines).length ∧
        (Reader.iterate C K fuel r chk acc).1.length = (dataLines K lines).length) := by
  refine iterate_induction (C := C) (K := K)
    (P := fun r _ acc => ReadState C K lines sch m base r acc.length)
    (Q := fun res => ∃ j, ReadState C K lines sch m base res.2.2 j ∧ res.1.length ≤ j ∧
      j ≤ res.1.length + 1 ∧ (res.2.1 = none → j = (dataLines K lines).length ∧
        res.1.length = (dataLines K lines).length))
    ?_ ?_ ?_ ?_ fuel r chk acc hf h
  · intro r chk acc hP hn
    have := hP.pos.data_end hn hP.le
    exact ⟨acc.length, hP, Nat.le_refl _, Nat.le_succ _, fun _ => ⟨this, this⟩⟩
  · intro r chk acc e hP _
    exact ⟨acc.length, hP, Nat.le_refl _, Nat.le_succ _, fun h => by cases h⟩
  · intro r chk acc rec r' e hP hn _
    exact ⟨acc.length + 1, hP.step hn, Nat.le_succ _, Nat.le_refl _, fun h => by cases h⟩
  · intro r chk acc rec r' chk' hP hn _
    simpa using hP.step hn

/-- the column names: the fields of the line after the header block -/
def colNamesOf (K : HConsts) (lines : List Text) : Option (List Text) :=
  (stripped lines)[headerLen K lines]?.map (splitOn '\t')

/-- the scheme the reader settles on, given the parsed header -/
def schemeOf (K : HConsts) (R : Registry) (lines : List Text) (given : Option Scheme) (hd : Header) :
    Option Scheme :=
  initSch2 (colNamesOf K lines) (initSch1 (hd.scheme K R) given)

/-- the scheme-mismatch and column-name errors of `__init__` -/
def initErrorsOf (K : HConsts) (R : Registry) (lines : List Text) (given : Option Scheme) (hd : Header) :
    List VErr :=
  initE1 (hd.scheme K R) given ++ initE2 (colNamesOf K lines) (schemeOf K R lines given hd) (headerLen K lines)

/-- what a successful `Reader.init` has computed -/
theorem init_ok {C : Ctx} {K : HConsts} {R : Registry} {lines : List Text} {mode : Option Mode}
    {given : Option Scheme} {r : Reader} (h : Reader.init C K R lines mode given = .ok r) :
    ∃ hd hlogs lg,
      Header.fromLines K R (headerBlock K lines) (some (modeOrSilent mode)) = (hd, .ok hlogs) ∧
      processErrors (modeOrSilent mode) (hd.errors ++ initErrorsOf K R lines given hd) = .ok lg ∧
      r = initReader lines (min (headerLen K lines + 1) lines.length) hd (schemeOf K R lines given hd)
            (hd.errors ++ initErrorsOf K R lines given hd) (modeOrSilent mode)
            (hlogs ++ initWarn (modeOrSilent mode) (colNamesOf K lines) (initSch1 (hd.scheme K R) given) ++ lg) := by
  rw [init_eq] at h
  rcases hfl : Header.fromLines K R (headerBlock K lines) (some (modeOrSilent mode)) with ⟨hd, res⟩
  rw [hfl] at h
  cases res with
  | error e => cases h
  | ok hlogs =>
    simp only [] at h
    have e : hd.errors ++ initE1 (hd.scheme K R) given ++
        initE2 ((stripped lines)[headerLen K lines]?.map (splitOn '\t'))
          (initSch2 ((stripped lines)[headerLen K lines]?.map (splitOn '\t')) (initSch1 (hd.scheme K R) given))
          (headerLen K lines) = hd.errors ++ initErrorsOf K R lines given hd := by
      simp [initErrorsOf, schemeOf, colNamesOf]
    rw [e] at h
    cases hpe : processErrors (modeOrSilent mode) (hd.errors ++ initErrorsOf K R lines given hd) with
    | error e => rw [hpe] at h; cases h
    | ok lg =>
      rw [hpe] at h
      simp only [Except.ok.injEq] at h
      exact ⟨hd, hlogs, lg, rfl, hpe, h.symm⟩

theorem initReader_at (lines : List Text) (p : Nat) (hd : Header) (sch : Option Scheme) (es : List VErr)
    (m : Mode) (lg : List LogRec) : At lines (initReader lines p hd sch es m lg) p :=
  ⟨rfl, rfl, rfl, rfl⟩

theorem At.fuel {lines : List Text} {r : Reader} {p : Nat} (h : At lines r p) :
    (Model.pending r).length < r.src.length + 2 := by
  rw [h.pending, h.src]; simp; omega

/-- `readAll` after a successful `init`: see `iterate_spec` -/
theorem readAll_spec {C : Ctx} {K : HConsts} {lines : List Text} {r : Reader}
    (hat : At lines r (min (headerLen K lines + 1) lines.length)) :
    ∃ j, ReadState C K lines r.scheme r.mode r.errors (r.readAll C K).2.2 j ∧
      (r.readAll C K).1.length ≤ j ∧ j ≤ (r.readAll C K).1.length + 1 ∧
      ((r.readAll C K).2.1 = none →
        j = (dataLines K lines).length ∧ (r.readAll C K).1.length = (dataLines K lines).length) := by
  unfold Reader.readAll
  exact iterate_spec _ r _ [] hat.fuel ⟨hat, Nat.zero_le _, rfl, rfl, by simp⟩


/-! ### line numbers of the reader's errors -/

/-- **line numbers of record errors, as the reader collects them**: every error of the data line
    read as physical line `n` carries line number `n` (and ghost origin `n`) -/
theorem recordErrors_lines {C : Ctx} {sch : Option Scheme} {m : Mode} {n : Nat} {l : Text} {e : VErr}
    (he : e ∈ recordErrors C sch m n l) : e.origin = some n ∧ e.line = some n := by
  unfold recordErrors at he
  rw [fromLine_spec] at he
  cases hp : parsedLine C l none sch (some n) with
  | error e' => rw [hp] at he; simp at he
  | ok prec =>
    rw [hp] at he
    simp only [modeOrSilent] at he
    cases hpe : processErrors m prec.errors with
    | error e' => rw [hpe] at he; simp at he
    | ok lg =>
      rw [hpe] at he
      simp only [Record.withMode_errors] at he
      obtain ⟨e', he', rfl⟩ := mem_stamp.1 he
      exact ⟨rfl, parsedLine_lines_all hp e' he'⟩

theorem mem_errsUpTo {f : Nat → Text → List VErr} {D : List Text} {j : Nat} {e : VErr}
    (he : e ∈ errsUpTo f D j) : ∃ i, ∃ hi : i < D.length, i < j ∧ e ∈ f i D[i] := by
  unfold errsUpTo at he
  obtain ⟨p, hp, hep⟩ := List.mem_flatMap.1 he
  have := List.mem_zipIdx_iff_getElem?.1 (show (p.1, p.2) ∈ (D.take j).zipIdx from hp)
  rw [List.getElem?_take] at this
  split at this
  · rename_i hlt
    obtain ⟨hi, hget⟩ := List.getElem?_eq_some_iff.1 this
    exact ⟨p.2, hi, hlt, by rw [hget]; exact hep⟩
  · cases this

theorem initE1_lines {hs given : Option Scheme} {e : VErr} (he : e ∈ initE1 hs given) :
    e.line = none ∧ e.tpe = "HEADER_MISMATCH_SCHEME" := by
  unfold initE1 at he
  split at he
  · split at he
    · split at he
      · simp at he; subst he; exact ⟨rfl, rfl⟩
      · simp at he
    · simp at he
  · simp at he

theorem initE2_lines {cn : Option (List Text)} {sch : Option Scheme} {k : Nat} {e : VErr}
    (he : e ∈ initE2 cn sch k) : e.line = some (k + 1) ∧ e.origin = some (k + 1) := by
  unfold initE2 at he
  split at he
  · simp only [] at he
    split at he
    · simp at he; subst he; exact ⟨rfl, rfl⟩
    · obtain ⟨p, _, hp⟩ := List.mem_filterMap.1 he
      split at hp
      · simp at hp; subst hp; exact ⟨rfl, rfl⟩
      · cases hp
  · simp at he
  · simp at he; subst he; exact ⟨rfl, rfl⟩

/-- no column-name line: exactly `HEADER_MISSING_COLUMN_NAMES`, reported at line `k + 1` -/
theorem initE2_missing (sch : Option Scheme) (k : Nat) :
    initE2 none sch k = [{ tpe := "HEADER_MISSING_COLUMN_NAMES", line := some (k + 1), origin := some (k + 1) }] := by
  unfold initE2; rfl



/-! ### which exceptions the whole-file reading raises -/

/-- the kind invariant the order checker relies on: every record `from_line` can produce under the
    scheme has textual (or absent) barcodes -/
def BarcodesTextual (C : Ctx) (sch : Option Scheme) : Prop :=
  ∀ l n rec, parsedLine C l none sch n = .ok rec → rec.toLoc.BarcodesNS

/-- the reader has a scheme with pairwise distinct column names — or nothing left to read -/
def Reader.SchemeInv (r : Reader) : Prop :=
  (∃ s, r.scheme = some s ∧ s.names.Nodup) ∨ (r.next = none ∧ r.src = [])

theorem toLoc_congr {a b : Record} (h : a.dict = b.dict) : a.toLoc = b.toLoc := by
  unfold Record.toLoc
  rw [h]

/-- **the exceptions of the iteration**: a `MafFormatException` in Strict mode, or the order
    checker's `ValueError` for a sortable order — nothing else -/
theorem iterate_kinds {C : Ctx} {K : HConsts} (fuel : Nat) (r : Reader) (chk : Checker) (acc : List Record)
    (hf : (pending r).length < fuel) (hs : r.SchemeInv)
    (hk : chk.order.sortable = false ∨ BarcodesTextual C r.scheme) (hc : chk.OK) :
    ∀ e, (Reader.iterate C K fuel r chk acc).2.1 = some e →
      (r.mode = .strict ∧ ∃ t l, e = .format t l) ∨ (chk.order.sortable = true ∧ e = .value) := by
  refine iterate_induction (C := C) (K := K)
    (P := fun r' chk' _ => r'.scheme = r.scheme ∧ r'.mode = r.mode ∧ r'.SchemeInv ∧
      chk'.order = chk.order ∧ chk'.OK)
    (Q := fun res => ∀ e, res.2.1 = some e →
      (r.mode = .strict ∧ ∃ t l, e = .format t l) ∨ (chk.order.sortable = true ∧ e = .value))
    ?_ ?_ ?_ ?_ fuel r chk acc hf ⟨rfl, rfl, hs, rfl, hc⟩
  · intro r' chk' acc' _ _ e he; cases he
  · intro r' chk' acc' e ⟨hsch, hmode, hinv, _, _⟩ hnr e' he'
    cases he'
    cases hn : r'.next with
    | none => rw [nextRecord_none hn] at hnr; cases hnr
    | some l =>
      rw [nextRecord_some hn] at hnr
      rcases hinv with ⟨s, hs', hnd⟩ | ⟨hnone, _⟩
      · obtain ⟨prec, hp⟩ := parsedLine_ok_of_nodup C l (sch := r'.scheme) (cn := none) (some r'.lineNo)
          (by rw [hs']; exact lineNames_scheme s) (names_toList_nodup hnd)
        rw [hp] at hnr
        simp only [] at hnr
        cases hpe : processErrors r'.mode prec.errors with
        | ok lg => rw [hpe] at hnr; cases hnr
        | error e'' =>
          rw [hpe] at hnr
          cases hnr
          obtain ⟨hm, x, xs, _, rfl⟩ := processErrors_error hpe
          exact .inl ⟨hmode ▸ hm, _, _, rfl⟩
      · rw [hn] at hnone; cases hnone
  · intro r' chk' acc' rec r'' e ⟨hsch, _, _, hord, hok⟩ hnr hadd e' he'
    cases he'
    rcases hk with hk | hk
    · rw [Checker.addRecord_unsortable rec (by rw [hord]; exact hk)] at hadd; cases hadd
    · obtain ⟨l, prec, lg, _, hp, _, hrec, _⟩ := nextRecord_ok hnr
      have hb : rec.toLoc.BarcodesNS := by
        rw [toLoc_congr (show rec.dict = prec.dict by rw [hrec]; rfl)]
        exact hk l _ prec (hsch ▸ hp)
      have := (Checker.addRecord_kinds hok hb).1 e hadd
      exact .inr ⟨hord ▸ this.1, this.2⟩
  · intro r' chk' acc' rec r'' chk'' ⟨hsch, hmode, hinv, hord, hok⟩ hnr hadd
    obtain ⟨l, prec, lg, hnext, hp, _, hrec, hr''⟩ := nextRecord_ok hnr
    have h1 : r''.scheme = r'.scheme := by rw [hr'']; simp
    have h2 : r''.mode = r'.mode := by rw [hr'']; simp
    refine ⟨h1.trans hsch, h2.trans hmode, ?_, ?_, ?_⟩
    · rcases hinv with ⟨s, hs', hnd⟩ | ⟨hnone, _⟩
      · exact .inl ⟨s, h1.trans hs', hnd⟩
      · rw [hnext] at hnone; cases hnone
    · rcases hk with hk | hk
      · rw [Checker.addRecord_unsortable rec (by rw [hord]; exact hk)] at hadd
        cases hadd; exact hord
      · have hb : rec.toLoc.BarcodesNS := by
          rw [toLoc_congr (show rec.dict = prec.dict by rw [hrec]; rfl)]
          exact hk l _ prec (hsch ▸ hp)
        exact ((Checker.addRecord_kinds hok hb).2 chk'' hadd).1.trans hord
    · rcases hk with hk | hk
      · rw [Checker.addRecord_unsortable rec (by rw [hord]; exact hk)] at hadd
        cases hadd
        intro hs'; simp only [] at hs'; rw [hord, hk] at hs'; cases hs'
      · have hb : rec.toLoc.BarcodesNS := by
          rw [toLoc_congr (show rec.dict = prec.dict by rw [hrec]; rfl)]
          exact hk l _ prec (hsch ▸ hp)
        exact ((Checker.addRecord_kinds hok hb).2 chk'' hadd).2.2

/-! ### why the iteration raises `ValueError`

  The order checker raises `ValueError` for exactly two reasons: the chromosome of the record is
  missing from the contig list the header gives, or the record is out of order.  A position text
  that is not a number is NOT one of them: such a record cannot be keyed (`KeyError`) and is
  skipped like a record that lacks a coordinate column. -/

theorem Loc.keyable_of_unkeyable {o : Order} {cs : List Text} {l : Loc} (h : l.unkeyable o cs = true) :
    l.keyable o cs = false := by
  unfold Loc.keyable; rw [Loc.unkeyable_iff.1 h]

theorem Loc.keyable_of_no_coords {o : Order} {cs : List Text} {l : Loc} (h : l.hasCoords = false) :
    l.keyable o cs = false := Loc.keyable_of_unkeyable (Loc.unkeyable_of_no_coords h)

/-- `checker.add(record)` never changes the order or the contig list -/
theorem Checker.addRecord_order_contigs {c c' : Checker} {rec : Record} (h : c.addRecord rec = .ok c') :
    c'.order = c.order ∧ c'.contigs = c.contigs := by
  unfold Checker.addRecord at h
  simp only [] at h
  split at h
  · exact add_order_contigs h
  · split at h
    · cases h; exact ⟨rfl, rfl⟩
    · split at h
      · cases h
      · cases h; exact ⟨rfl, rfl⟩

/-- what the checker of a sortable order remembers after accepting a parsed record: the record if
    it can be keyed, else what it remembered before -/
theorem Checker.addRecord_ok_sortable {c c' : Checker} {rec : Record} (hs : c.order.sortable = true)
    (h : c.addRecord rec = .ok c') :
    c'.last = if rec.toLoc.keyable c.order c.contigs then some rec.toLoc else c.last := by
  unfold Checker.addRecord at h
  simp only [] at h
  split at h
  · rcases add_ok_sortable hs h with ⟨hk, rfl⟩ | ⟨hu, rfl⟩
    · simp [hk]
    · simp [Loc.keyable_of_unkeyable hu]
  · rename_i hcond
    have hc : rec.toLoc.hasCoords = false := by
      cases hh : rec.toLoc.hasCoords <;> simp [hs, hh] at hcond ⊢
    rw [Loc.keyable_of_no_coords hc]
    split at h
    · cases h; rfl
    · split at h
      · cases h
      · cases h; rfl

theorem Checker.LastKeyed.addRecord {c c' : Checker} {rec : Record} (hc : c.LastKeyed)
    (h : c.addRecord rec = .ok c') : c'.LastKeyed := by
  unfold Checker.addRecord at h
  simp only [] at h
  split at h
  · exact hc.add h
  · split at h
    · cases h; exact hc
    · split at h
      · cases h
      · cases h; exact hc

/-- **why `checker.add(record)` raises `ValueError`** on a parsed record: the order is sortable and
    either there is a contig list that does not contain the record's chromosome, or the record
    (which then has its coordinate columns and readable positions) is out of order -/
theorem Checker.addRecord_valueError_cause {c : Checker} {rec : Record} (hc : c.LastKeyed)
    (h : c.addRecord rec = .error .value) :
    c.order.sortable = true ∧
    ((c.contigs ≠ [] ∧
        (rec.toLoc.hasCoords = true → ∀ s, rec.toLoc.chrName = some s → s ∉ c.contigs)) ∨
      (rec.toLoc.hasCoords = true ∧ c.OutOfOrder rec.toLoc)) := by
  unfold Checker.addRecord at h
  simp only [] at h
  split at h
  · obtain ⟨hs, hm | ho⟩ := (Checker.add_valueError_iff hc).1 h
    · exact ⟨hs, .inl ⟨hm.2.1, fun _ => hm.2.2⟩⟩
    · exact ⟨hs, .inr ⟨ho.posOk.1, ho⟩⟩
  · rename_i hcond
    have hs : c.order.sortable = true := by
      cases hh : c.order.sortable <;> simp [hh] at hcond ⊢
    have hco : rec.toLoc.hasCoords = false := by
      cases hh : rec.toLoc.hasCoords <;> simp [hs, hh] at hcond ⊢
    refine ⟨hs, .inl ?_⟩
    split at h
    · cases h
    · split at h
      · rename_i hk
        exact ⟨(mkKey_valueError_iff.1 hk).2.1, fun h' => by rw [hco] at h'; cases h'⟩
      · cases h

/-- a record that has its coordinate columns and a keyable chromosome, but a start or end position
    that is a text `int()` cannot read, is skipped: the checker is unchanged -/
theorem Checker.addRecord_bad_position {c : Checker} {rec : Record}
    (hs : c.order.sortable = true) (h0 : rec.toLoc.hasCoords = true)
    (hchr : rec.toLoc.chrOk c.contigs)
    (hp : rec.toLoc.start.posOk = false ∨ rec.toLoc.stop.posOk = false) :
    c.addRecord rec = .ok c := by
  unfold Checker.addRecord
  simp only [h0, Bool.or_true, if_true]
  exact add_skip_unkeyable hs (mkKey_bad_position h0 hchr hp)

/-- the reader's `__next__` raises nothing but the Strict-mode `MafFormatException` (scheme with
    pairwise distinct names) -/
theorem nextRecord_error_format {C : Ctx} {r : Reader} {e : PyErr} (hinv : r.SchemeInv)
    (hnr : r.nextRecord C = .error e) : r.mode = .strict ∧ ∃ t l, e = .format t l := by
  cases hn : r.next with
  | none => rw [nextRecord_none hn] at hnr; cases hnr
  | some l =>
    rw [nextRecord_some hn] at hnr
    rcases hinv with ⟨s, hs', hnd⟩ | ⟨hnone, _⟩
    · obtain ⟨prec, hp⟩ := parsedLine_ok_of_nodup C l (sch := r.scheme) (cn := none) (some r.lineNo)
        (by rw [hs']; exact lineNames_scheme s) (names_toList_nodup hnd)
      rw [hp] at hnr
      simp only [] at hnr
      cases hpe : processErrors r.mode prec.errors with
      | ok lg => rw [hpe] at hnr; cases hnr
      | error e'' =>
        rw [hpe] at hnr
        cases hnr
        obtain ⟨hm, x, xs, _, rfl⟩ := processErrors_error hpe
        exact ⟨hm, _, _, rfl⟩
    · rw [hn] at hnone; cases hnone

theorem nextRecord_schemeInv {C : Ctx} {r r' : Reader} {rec : Record} (hinv : r.SchemeInv)
    (hnr : r.nextRecord C = .ok (some (rec, r'))) : r'.SchemeInv := by
  obtain ⟨l, prec, lg, hnext, hp, _, hrec, hr'⟩ := nextRecord_ok hnr
  have h1 : r'.scheme = r.scheme := by rw [hr']; simp
  rcases hinv with ⟨s, hs', hnd⟩ | ⟨hnone, _⟩
  · exact .inl ⟨s, h1.trans hs', hnd⟩
  · rw [hnext] at hnone; cases hnone

/-- **the `ValueError` of the iteration comes from the order checker**, on the record just parsed,
    with a checker that has the declared order and contig list and remembers the last of the
    yielded records that could be keyed -/
theorem iterate_valueError_source {C : Ctx} {K : HConsts} (fuel : Nat) (r : Reader) (chk : Checker)
    (acc : List Record) (hf : (pending r).length < fuel) (hs : r.SchemeInv) (hc : chk.LastKeyed)
    (hlast : chk.order.sortable = true →
      chk.last = lastKeyed chk.order chk.contigs (acc.map Record.toLoc)) :
    (Reader.iterate C K fuel r chk acc).2.1 = some .value →
      ∃ (r0 : Reader) (rec : Record) (chk0 : Checker),
        r0.nextRecord C = .ok (some (rec, (Reader.iterate C K fuel r chk acc).2.2)) ∧
        chk0.order = chk.order ∧ chk0.contigs = chk.contigs ∧ chk0.LastKeyed ∧
        (chk.order.sortable = true → chk0.last = lastKeyed chk.order chk.contigs
          ((Reader.iterate C K fuel r chk acc).1.map Record.toLoc)) ∧
        chk0.addRecord rec = .error .value := by
  refine iterate_induction (C := C) (K := K)
    (P := fun r' chk' acc' => r'.SchemeInv ∧ chk'.order = chk.order ∧ chk'.contigs = chk.contigs ∧
      chk'.LastKeyed ∧ (chk.order.sortable = true →
        chk'.last = lastKeyed chk.order chk.contigs (acc'.map Record.toLoc)))
    (Q := fun res => res.2.1 = some .value →
      ∃ (r0 : Reader) (rec : Record) (chk0 : Checker),
        r0.nextRecord C = .ok (some (rec, res.2.2)) ∧
        chk0.order = chk.order ∧ chk0.contigs = chk.contigs ∧ chk0.LastKeyed ∧
        (chk.order.sortable = true → chk0.last = lastKeyed chk.order chk.contigs
          (res.1.map Record.toLoc)) ∧
        chk0.addRecord rec = .error .value)
    ?_ ?_ ?_ ?_ fuel r chk acc hf ⟨hs, rfl, rfl, hc, hlast⟩
  · intro r' chk' acc' _ _ he; cases he
  · intro r' chk' acc' e ⟨hinv, _⟩ hnr he
    simp only [Option.some.injEq] at he
    subst he
    obtain ⟨_, t, l, h⟩ := nextRecord_error_format hinv hnr
    cases h
  · intro r' chk' acc' rec r'' e ⟨_, hord, hcs, hlk, hl⟩ hnr hadd he
    simp only [Option.some.injEq] at he
    subst he
    exact ⟨r', rec, chk', hnr, hord, hcs, hlk, hl, hadd⟩
  · intro r' chk' acc' rec r'' chk'' ⟨hinv, hord, hcs, hlk, hl⟩ hnr hadd
    obtain ⟨ho, hc'⟩ := Checker.addRecord_order_contigs hadd
    refine ⟨nextRecord_schemeInv hinv hnr, ho.trans hord, hc'.trans hcs, hlk.addRecord hadd, ?_⟩
    intro hsort
    rw [Checker.addRecord_ok_sortable (by rw [hord]; exact hsort) hadd, List.map_append,
      List.map_singleton, lastKeyed_append_singleton, hord, hcs, hl hsort]

theorem findSchemeClass_mem {all : List Scheme} {v a : Option String} {s : Scheme}
    (h : findSchemeClass all v a = .ok (some s)) : s ∈ all := by
  unfold findSchemeClass at h
  simp only [] at h
  split at h
  · cases h
  all_goals (simp only [Except.ok.injEq] at h; exact List.mem_of_find?_eq_some h)

/-- the scheme a header names is one of the registry -/
theorem Header.scheme_mem {K : HConsts} {R : Registry} {h : Header} {s : Scheme}
    (hs : h.scheme K R = some s) : s ∈ R.schemes := by
  unfold Header.scheme Registry.findScheme at hs
  split at hs
  · rename_i o ho
    split at ho
    · rename_i s' hf
      split at ho
      · cases ho; cases hs
      · cases ho; cases hs; exact findSchemeClass_mem hf
    · rename_i hne
      subst hs
      exact findSchemeClass_mem ho
  · cases hs

theorem schemeOf_nodup {K : HConsts} {R : Registry} {lines : List Text} {given : Option Scheme} {hd : Header}
    (hg : ∀ g, given = some g → g.names.Nodup) (hR : ∀ s ∈ R.schemes, s.names.Nodup)
    {names : List Text} (hc : colNamesOf K lines = some names) :
    ∃ s, schemeOf K R lines given hd = some s ∧ s.names.Nodup := by
  unfold schemeOf initSch2
  rw [hc]
  simp only []
  split
  · exact ⟨_, rfl, noRestrictionsScheme_names_nodup _⟩
  · rename_i hns
    unfold schemeless at hns
    cases hs1 : initSch1 (hd.scheme K R) given with
    | none => rw [hs1] at hns; simp at hns
    | some s =>
      refine ⟨s, rfl, ?_⟩
      unfold initSch1 at hs1
      split at hs1
      · cases hs1; exact hg _ rfl
      · exact hR s (Header.scheme_mem hs1)

/-- after `init` the reader has a scheme with pairwise distinct names, or nothing to read -/
theorem init_schemeInv {C : Ctx} {K : HConsts} {R : Registry} {lines : List Text} {mode : Option Mode}
    {given : Option Scheme} {r : Reader} (hinit : Reader.init C K R lines mode given = .ok r)
    (hg : ∀ g, given = some g → g.names.Nodup) (hR : ∀ s ∈ R.schemes, s.names.Nodup) : r.SchemeInv := by
  obtain ⟨hd, hlogs, lg, _, _, rfl⟩ := init_ok hinit
  cases hc : colNamesOf K lines with
  | some names => exact .inl (schemeOf_nodup hg hR hc)
  | none =>
    right
    have hnone : (stripped lines)[headerLen K lines]? = none := by
      unfold colNamesOf at hc
      simpa using hc
    have hlen : lines.length ≤ headerLen K lines := by simpa using hnone
    have hk := headerLen_le K lines
    have hmin : min (headerLen K lines + 1) lines.length = headerLen K lines := by omega
    simp only [initReader, hmin, hnone, true_and]
    simp; omega



/-! ### the kind invariant for schemes of plain text columns -/

/-- every column class of the scheme builds text values -/
def PlainScheme (C : Ctx) (s : Scheme) : Prop :=
  ∀ name cls, s.columnClass name = some cls →
    ∀ key t idx col, buildColumn C cls key t idx = .ok col → ∃ x, col.value = .atom (.str x)

/-- `MafColumnRecord` (if the class table has it) inherits no custom `build` -/
def PlainBase (C : Ctx) : Prop :=
  ∀ sp, resolveSpec C.tbl "MafColumnRecord" = some sp → sp.buildMethod = some "MafColumnRecord"

theorem tdictGet_mem {β} {d : List (Text × β)} {k : Text} {x : β} (h : tdictGet d k = some x) :
    ∃ p ∈ d, p.2 = x := by
  unfold tdictGet at h
  cases hf : List.find? (fun p => p.1 == k) d with
  | none => rw [hf] at h; cases h
  | some p =>
    rw [hf] at h
    simp only [Option.map_some, Option.some.injEq] at h
    exact ⟨p, List.mem_of_find?_eq_some hf, h⟩

/-- a record that stores only text values has textual (or absent) barcodes -/
theorem toLoc_barcodes_of_str {r : Record} (h : ∀ p ∈ r.dict, ∃ x, p.2.col.value = .atom (.str x)) :
    r.toLoc.BarcodesNS := by
  have key : ∀ n : String, KV.isNS ((((tdictGet r.dict n.toList).map (·.col.value)).map
      (fun v : PyVal => match v with
        | .atom (.int i) => KV.int i
        | .atom (.bool b) => KV.int (if b then 1 else 0)
        | .atom (.str s) => KV.str s
        | _ => KV.none)).getD KV.none) = true := by
    intro n
    cases hg : tdictGet r.dict n.toList with
    | none => rfl
    | some x =>
      obtain ⟨p, hp, rfl⟩ := tdictGet_mem hg
      obtain ⟨s, hs⟩ := h p hp
      simp [hs, KV.isNS]
  unfold Record.toLoc
  simp only []
  split
  · exact ⟨key "Tumor_Sample_Barcode", key "Matched_Norm_Sample_Barcode"⟩
  · exact ⟨rfl, rfl⟩

/-- a scheme of plain text columns with pairwise distinct names satisfies the kind invariant -/
theorem barcodesTextual_of_plain {C : Ctx} {s : Scheme} (hnd : s.names.Nodup) (hp : PlainScheme C s) :
    BarcodesTextual C (some s) := by
  intro l n rec h
  obtain ⟨rec', h', hQ⟩ := parsedLine_nodup_dict C l n (lineNames_scheme s) (names_toList_nodup hnd)
    (fun c => ∃ x, c.col.value = .atom (.str x)) (by
      intro name value i col hb
      unfold buildField at hb
      split at hb
      · cases hb; exact ⟨value, rfl⟩
      · rename_i cls hcls
        split at hb
        · rename_i c hbc
          cases hb
          have : s.columnClass (String.ofList name) = some cls := by
            simp only [Option.filter] at hcls
            split at hcls
            · simpa using hcls
            · simp at hcls
          exact hp _ _ this _ _ _ _ hbc
        · cases hb)
  rw [h] at h'
  cases h'
  exact toLoc_barcodes_of_str hQ

theorem mem_dictSet {β} {d : List (String × β)} {k : String} {v : β} {q : String × β}
    (h : q ∈ dictSet d k v) : q ∈ d ∨ q = (k, v) := by
  unfold dictSet at h
  split at h
  · obtain ⟨p, hp, rfl⟩ := List.mem_map.1 h
    split
    · exact .inr rfl
    · exact .inl hp
  · rcases List.mem_append.1 h with h | h
    · exact .inl h
    · exact .inr (by simpa using h)

theorem mem_dictOfList {β} {l : List (String × β)} {q : String × β} (h : q ∈ dictOfList l) : q ∈ l := by
  unfold dictOfList at h
  suffices ∀ (d : List (String × β)), q ∈ l.foldl (fun d p => dictSet d p.1 p.2) d → q ∈ d ∨ q ∈ l by
    rcases this [] h with h | h
    · cases h
    · exact h
  clear h
  induction l with
  | nil => exact fun d h => .inl h
  | cons p l ih =>
    intro d h
    rcases ih _ h with h | h
    · rcases mem_dictSet h with h | h
      · exact .inl h
      · exact .inr (by rw [h]; exact List.mem_cons_self)
    · exact .inr (List.mem_cons_of_mem _ h)

/-- `NoRestrictionsScheme(names)` is a scheme of plain text columns -/
theorem plainScheme_noRestrictions {C : Ctx} (hC : PlainBase C) (names : List String) :
    PlainScheme C (noRestrictionsScheme names) := by
  intro name cls hcls key t idx col hb
  have hcls' : cls = "MafColumnRecord" := by
    unfold Scheme.columnClass at hcls
    cases hf : List.find? (fun p => p.1 == name) (noRestrictionsScheme names).cols with
    | none => rw [hf] at hcls; cases hcls
    | some p =>
      rw [hf] at hcls
      simp only [Option.map_some, Option.some.injEq] at hcls
      have := mem_dictOfList (List.mem_of_find?_eq_some hf)
      obtain ⟨n, _, rfl⟩ := List.mem_map.1 this
      exact hcls.symm
  subst hcls'
  unfold buildColumn at hb
  split at hb
  · cases hb
  · rename_i sp hsp
    have hbm := hC sp hsp
    have : sp.buildValue C t = .ok (.inr ()) := by
      unfold ColSpec.buildValue
      rw [hbm]
      rfl
    rw [this] at hb
    cases hb
    exact ⟨t, rfl⟩

/-- the kind invariant holds for every `NoRestrictionsScheme` -/
theorem barcodesTextual_noRestrictions {C : Ctx} (hC : PlainBase C) (names : List String) :
    BarcodesTextual C (some (noRestrictionsScheme names)) :=
  barcodesTextual_of_plain (noRestrictionsScheme_names_nodup names) (plainScheme_noRestrictions hC names)


/-- outside Strict mode, a reader whose scheme has pairwise distinct names always returns the
    record of its look-ahead line -/
theorem nextRecord_total {C : Ctx} {r : Reader} {l : Text} (hm : r.mode ≠ .strict) (hs : r.SchemeInv)
    (hn : r.next = some l) :
    ∃ rec r', r.nextRecord C = .ok (some (rec, r')) ∧ r'.SchemeInv ∧ r'.mode = r.mode := by
  rcases hs with ⟨s, hs', hnd⟩ | ⟨hnone, _⟩
  · obtain ⟨prec, hp⟩ := parsedLine_ok_of_nodup C l (sch := r.scheme) (cn := none) (some r.lineNo)
      (by rw [hs']; exact lineNames_scheme s) (names_toList_nodup hnd)
    rw [nextRecord_some hn, hp]
    simp only [processErrors_nonstrict hm]
    exact ⟨_, _, rfl, .inl ⟨s, by simpa using hs', hnd⟩, by simp⟩
  · rw [hn] at hnone; cases hnone

/-- an evaluable form of `recordErrors` (no `mergeSort`): outside Strict mode and for a scheme with
    pairwise distinct names -/
theorem recordErrors_eval (C : Ctx) {s : Scheme} (hnd : s.names.Nodup) {m : Mode} (hm : m ≠ .strict)
    (n : Nat) (l : Text) :
    recordErrors C (some s) m n l =
      match preRecord C l none (some s) (some n) with
      | .ok r => stamp n (r.validateErrors C false none)
      | .error _ => [] := by
  unfold recordErrors
  rw [fromLine_spec, parsedLine_eq_of_nodup C l (some n) (lineNames_scheme s) (names_toList_nodup hnd)]
  cases preRecord C l none (some s) (some n) with
  | error e => rfl
  | ok r => simp only [modeOrSilent, processErrors_nonstrict hm]; rfl

/-- **fuel sufficiency**: `readAll` never stops for lack of fuel — when it ends without an
    exception, the input is exhausted -/
theorem readAll_reads_to_end {C : Ctx} {K : HConsts} {lines : List Text} {r : Reader} {p : Nat}
    (hat : At lines r p) : (r.readAll C K).2.1 = none → (r.readAll C K).2.2.next = none := by
  unfold Reader.readAll
  exact iterate_induction (C := C) (K := K) (P := fun _ _ _ => True)
    (Q := fun res => res.2.1 = none → res.2.2.next = none)
    (fun r _ _ _ hn _ => hn) (fun _ _ _ _ _ _ h => by cases h) (fun _ _ _ _ _ _ _ _ _ h => by cases h)
    (fun _ _ _ _ _ _ _ _ _ => trivial) _ r _ [] hat.fuel trivial

/-! ### the records returned -/

/-- the record the reader returns for the data line `l` read as physical line `n`:
    `from_line`'s record, its errors stamped with the ghost origin -/
def recordOf (C : Ctx) (sch : Option Scheme) (m : Mode) (n : Nat) (l : Text) : Option Record :=
  match Record.fromLine C l none sch (some n) (some m) with
  | .ok (rec, _) => some { rec with errors := stamp n rec.errors }
  | .error _ => none

theorem recordOf_of_parsed {C : Ctx} {sch : Option Scheme} {m : Mode} {n : Nat} {l : Text}
    {prec : Record} {lg : List LogRec} (hp : parsedLine C l none sch (some n) = .ok prec)
    (hpe : processErrors m prec.errors = .ok lg) :
    recordOf C sch m n l = some { prec.withMode m with errors := stamp n prec.errors } := by
  unfold recordOf
  rw [fromLine_spec, hp]
  simp only [modeOrSilent, hpe]
  rfl

/-- the records of the first `j` lines of `D` -/
def recsUpTo (f : Nat → Text → Option Record) (D : List Text) (j : Nat) : List (Option Record) :=
  (D.take j).zipIdx.map (fun p => f p.2 p.1)

theorem recsUpTo_succ (f : Nat → Text → Option Record) (D : List Text) (j : Nat) (hj : j < D.length) :
    recsUpTo f D (j + 1) = recsUpTo f D j ++ [f j D[j]] := by
  unfold recsUpTo
  rw [List.take_succ_eq_append_getElem hj, List.zipIdx_append]
  simp [List.length_take, Nat.min_eq_left (Nat.le_of_lt hj)]

/-- **the records returned are the records of the data lines, in order** (as many as were returned
    before the iteration stopped) -/
theorem iterate_records {C : Ctx} {K : HConsts} {lines : List Text} {sch : Option Scheme} {m : Mode}
    {base : List VErr} (fuel : Nat) (r : Reader) (chk : Checker) (acc : List Record)
    (hf : (pending r).length < fuel) (h : ReadState C K lines sch m base r acc.length)
    (hacc : acc.map some = recsUpTo (fun i l => recordOf C sch m (headerLen K lines + 2 + i) l)
      (dataLines K lines) acc.length) :
    (Reader.iterate C K fuel r chk acc).1.map some =
      recsUpTo (fun i l => recordOf C sch m (headerLen K lines + 2 + i) l) (dataLines K lines)
        (Reader.iterate C K fuel r chk acc).1.length := by
  refine iterate_induction (C := C) (K := K)
    (P := fun r _ acc => ReadState C K lines sch m base r acc.length ∧
      acc.map some = recsUpTo (fun i l => recordOf C sch m (headerLen K lines + 2 + i) l)
        (dataLines K lines) acc.length)
    (Q := fun res => res.1.map some =
      recsUpTo (fun i l => recordOf C sch m (headerLen K lines + 2 + i) l) (dataLines K lines) res.1.length)
    ?_ ?_ ?_ ?_ fuel r chk acc hf ⟨h, hacc⟩
  · intro r chk acc hP _; exact hP.2
  · intro r chk acc e hP _; exact hP.2
  · intro r chk acc rec r' e hP _ _; exact hP.2
  · intro r chk acc rec r' chk' ⟨hst, ha⟩ hn _
    refine ⟨by simpa using hst.step hn, ?_⟩
    obtain ⟨l, prec, lg, hnext, hp, hpe, hrec, _⟩ := nextRecord_ok hn
    obtain ⟨hj, hget, hln, _⟩ := hst.pos.data_line hnext
    rw [List.length_append, List.length_singleton, recsUpTo_succ _ _ _ hj, List.map_append, ha, hget]
    congr 1
    rw [hst.scheme] at hp
    rw [hst.mode] at hpe
    rw [← hln, recordOf_of_parsed hp hpe, hrec, hst.mode]
    rfl


end Model
