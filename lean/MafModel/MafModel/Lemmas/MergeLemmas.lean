/-
  Pure facts about the k-way merge of the spill-file model (`Model/Resources.lean`):
  `minCursor` picks a cursor with the smallest look-ahead, and emitting that
  look-ahead keeps the merge invariant; a sorted permutation is unique.
-/
import MafModel.Model.Resources
open Py Model

namespace MergeLemmas

/-- the keys a cursor will still deliver: its look-ahead, then the rest of its file -/
def pending (c : Cursor) : List Nat :=
  match c.peek with
  | some k => k :: c.rest
  | none => []

/-- invariant of the merge loop: `out` has been emitted, the cursors hold the rest -/
structure MInv (all : List Nat) (cs : List Cursor) (out : List Nat) : Prop where
  perm : (out ++ cs.flatMap pending).Perm all
  outSorted : out.Pairwise (· ≤ ·)
  le : ∀ x ∈ out, ∀ y ∈ cs.flatMap pending, x ≤ y
  sorted : ∀ c ∈ cs, (pending c).Pairwise (· ≤ ·)

/-! ### helpers -/

/-- the candidate list `minCursor` builds: (look-ahead, index) of every cursor that has one -/
def idxOf (cs : List Cursor) : List (Nat × Nat) :=
  cs.zipIdx.filterMap (fun (p : Cursor × Nat) => p.1.peek.map (fun k => (k, p.2)))

theorem mem_idxOf {cs : List Cursor} {k j : Nat} :
    (k, j) ∈ idxOf cs ↔ ∃ c, cs[j]? = some c ∧ c.peek = some k := by
  unfold idxOf
  rw [List.mem_filterMap]
  constructor
  · rintro ⟨⟨c, j'⟩, hmem, hp⟩
    rw [List.mk_mem_zipIdx_iff_getElem?] at hmem
    cases hpk : c.peek with
    | none => simp [hpk] at hp
    | some k' =>
      simp only [hpk, Option.map_some, Option.some.injEq, Prod.mk.injEq] at hp
      obtain ⟨rfl, rfl⟩ := hp
      exact ⟨c, hmem, hpk⟩
  · rintro ⟨c, hc, hk⟩
    refine ⟨(c, j), ?_, ?_⟩
    · rw [List.mk_mem_zipIdx_iff_getElem?]; exact hc
    · simp [hk]

theorem minCursor_eq (cs : List Cursor) :
    minCursor cs = match idxOf cs with
      | [] => none
      | x :: xs => some (xs.foldl (fun (best : Nat × Nat) y => if y.1 < best.1 then y else best) x).2 := by
  rfl

theorem foldl_min_spec (xs : List (Nat × Nat)) (x : Nat × Nat) :
    (xs.foldl (fun (best : Nat × Nat) y => if y.1 < best.1 then y else best) x) ∈ x :: xs ∧
    ∀ y ∈ x :: xs,
      (xs.foldl (fun (best : Nat × Nat) y => if y.1 < best.1 then y else best) x).1 ≤ y.1 := by
  induction xs generalizing x with
  | nil => simp
  | cons z zs ih =>
    simp only [List.foldl_cons]
    obtain ⟨hm, hle⟩ := ih (if z.1 < x.1 then z else x)
    constructor
    · rcases List.mem_cons.1 hm with h | h
      · rw [h]; split
        · exact List.mem_cons_of_mem _ List.mem_cons_self
        · exact List.mem_cons_self
      · exact List.mem_cons_of_mem _ (List.mem_cons_of_mem _ h)
    · intro y hy
      have h0 := hle _ List.mem_cons_self
      have h1 : (if z.1 < x.1 then z else x).1 ≤ x.1 ∧ (if z.1 < x.1 then z else x).1 ≤ z.1 := by
        split <;> omega
      rcases List.mem_cons.1 hy with rfl | hy
      · exact Nat.le_trans h0 h1.1
      · rcases List.mem_cons.1 hy with rfl | hy
        · exact Nat.le_trans h0 h1.2
        · exact hle _ (List.mem_cons_of_mem _ hy)

theorem pending_of_peek_none {c : Cursor} (h : c.peek = none) : pending c = [] := by
  simp [pending, h]

theorem pending_of_peek_some {c : Cursor} {k : Nat} (h : c.peek = some k) :
    pending c = k :: c.rest := by
  simp [pending, h]

theorem split_at {α} {cs : List α} {i : Nat} {c : α} (hc : cs[i]? = some c) :
    ∃ l₁ l₂, cs = l₁ ++ c :: l₂ ∧ l₁.length = i := by
  obtain ⟨hlt, rfl⟩ := List.getElem?_eq_some_iff.1 hc
  refine ⟨cs.take i, cs.drop (i + 1), ?_, ?_⟩
  · simp
  · simp; omega

theorem sorted_perm_unique {l l' : List Nat} (h1 : l.Pairwise (· ≤ ·)) (h2 : l'.Pairwise (· ≤ ·))
    (hp : l.Perm l') : l = l' :=
  List.Perm.eq_of_pairwise (le := (· ≤ ·)) (fun _ _ _ _ h h' => Nat.le_antisymm h h') h1 h2 hp

theorem pairwise_mergeSort_le (l : List Nat) :
    (l.mergeSort (fun a b => a ≤ b)).Pairwise (· ≤ ·) := by
  have h := List.pairwise_mergeSort (le := fun (a b : Nat) => decide (a ≤ b))
    (by intro a b c; simp; omega) (by intro a b; simp; omega) l
  exact h.imp (by intro a b; simp)

theorem eq_mergeSort_of_sorted_perm {l all : List Nat} (h1 : l.Pairwise (· ≤ ·))
    (hp : l.Perm all) : l = all.mergeSort (fun a b => a ≤ b) :=
  sorted_perm_unique h1 (pairwise_mergeSort_le all) (hp.trans (List.mergeSort_perm all _).symm)

/-! ### the stated theorems -/

theorem minCursor_none {cs : List Cursor} (h : minCursor cs = none) : cs.flatMap pending = [] := by
  rw [minCursor_eq] at h
  have hidx : idxOf cs = [] := by
    cases hi : idxOf cs with
    | nil => rfl
    | cons x xs => rw [hi] at h; simp at h
  rw [List.flatMap_eq_nil_iff]
  intro c hcm
  cases hp : c.peek with
  | none => exact pending_of_peek_none hp
  | some k =>
    obtain ⟨j, hj⟩ := List.mem_iff_getElem?.1 hcm
    have : (k, j) ∈ idxOf cs := mem_idxOf.2 ⟨c, hj, hp⟩
    rw [hidx] at this
    simp at this

theorem minCursor_some {cs : List Cursor} {i : Nat} (h : minCursor cs = some i) :
    ∃ c k, cs[i]? = some c ∧ c.peek = some k ∧ ∀ c' ∈ cs, ∀ k', c'.peek = some k' → k ≤ k' := by
  rw [minCursor_eq] at h
  cases hi : idxOf cs with
  | nil => rw [hi] at h; simp at h
  | cons x xs =>
    rw [hi] at h
    simp only [Option.some.injEq] at h
    obtain ⟨hm, hle⟩ := foldl_min_spec xs x
    generalize (xs.foldl (fun (best : Nat × Nat) y => if y.1 < best.1 then y else best) x) = r at h hm hle
    obtain ⟨k, j⟩ := r
    simp only at h
    subst h
    rw [← hi] at hm hle
    obtain ⟨c, hc, hk⟩ := mem_idxOf.1 hm
    refine ⟨c, k, hc, hk, ?_⟩
    intro c' hc' k' hk'
    obtain ⟨j', hj'⟩ := List.mem_iff_getElem?.1 hc'
    exact hle (k', j') (mem_idxOf.2 ⟨c', hj', hk'⟩)

/-- generic step: the chosen cursor `c` is replaced by `c'` which delivers the same keys minus `k` -/
theorem MInv.step_gen {all : List Nat} {cs : List Cursor} {out : List Nat} {i : Nat} {c c' : Cursor}
    {k : Nat} (h : MInv all cs out) (hm : minCursor cs = some i)
    (hc : cs[i]? = some c) (hp : pending c = k :: pending c') :
    MInv all (cs.set i c') (out ++ [k]) ∧
    ((cs.set i c').flatMap pending).length + 1 = (cs.flatMap pending).length := by
  obtain ⟨c0, k0, hc0, hk0, hmin⟩ := minCursor_some hm
  rw [hc] at hc0
  obtain rfl : c = c0 := by simpa using hc0
  have hk : k0 = k := by
    rw [pending_of_peek_some hk0] at hp
    exact (List.cons.inj hp).1
  subst hk
  obtain ⟨l₁, l₂, rfl, hlen⟩ := split_at hc
  subst hlen
  have hset : (l₁ ++ c :: l₂).set l₁.length c' = l₁ ++ c' :: l₂ := by simp
  rw [hset]
  have hflat : (l₁ ++ c :: l₂).flatMap pending
      = l₁.flatMap pending ++ (k0 :: pending c') ++ l₂.flatMap pending := by
    simp [List.flatMap_append, List.flatMap_cons, hp]
  have hflat' : (l₁ ++ c' :: l₂).flatMap pending
      = l₁.flatMap pending ++ pending c' ++ l₂.flatMap pending := by
    simp [List.flatMap_append, List.flatMap_cons]
  -- `k0` is below every pending key
  have hkmin : ∀ y ∈ (l₁ ++ c :: l₂).flatMap pending, k0 ≤ y := by
    intro y hy
    obtain ⟨d, hd, hyd⟩ := List.mem_flatMap.1 hy
    cases hpd : d.peek with
    | none => rw [pending_of_peek_none hpd] at hyd; simp at hyd
    | some kd =>
      have h1 : k0 ≤ kd := hmin d hd kd hpd
      have hs := h.sorted d hd
      rw [pending_of_peek_some hpd] at hs hyd
      rcases List.mem_cons.1 hyd with rfl | hyr
      · exact h1
      · exact Nat.le_trans h1 (List.rel_of_pairwise_cons hs hyr)
  have hsub : ∀ y ∈ (l₁ ++ c' :: l₂).flatMap pending, y ∈ (l₁ ++ c :: l₂).flatMap pending := by
    intro y hy
    rw [hflat'] at hy
    rw [hflat]
    simp only [List.mem_append, List.mem_cons] at hy ⊢
    rcases hy with (hy | hy) | hy <;> simp [hy]
  have hkin : k0 ∈ (l₁ ++ c :: l₂).flatMap pending := by
    rw [hflat]; simp
  refine ⟨⟨?_, ?_, ?_, ?_⟩, ?_⟩
  · refine List.Perm.trans ?_ h.perm
    rw [hflat, hflat']
    simp only [List.append_assoc, List.cons_append, List.nil_append]
    refine List.Perm.append_left out ?_
    exact (List.perm_middle (a := k0) (l₁ := l₁.flatMap pending)
      (l₂ := pending c' ++ l₂.flatMap pending)).symm
  · rw [List.pairwise_append]
    refine ⟨h.outSorted, by simp, ?_⟩
    intro a ha b hb
    simp only [List.mem_singleton] at hb
    subst hb
    exact h.le a ha _ hkin
  · intro x hx y hy
    have hy' := hsub y hy
    rcases List.mem_append.1 hx with hx | hx
    · exact h.le x hx y hy'
    · simp only [List.mem_singleton] at hx
      subst hx
      exact hkmin y hy'
  · intro d hd
    rcases List.mem_append.1 hd with hd | hd
    · exact h.sorted d (List.mem_append_left _ hd)
    · rcases List.mem_cons.1 hd with rfl | hd
      · have hs := h.sorted c (List.mem_append_right _ List.mem_cons_self)
        rw [hp] at hs
        exact hs.tail
      · exact h.sorted d (List.mem_append_right _ (List.mem_cons_of_mem _ hd))
  · rw [hflat, hflat']
    simp only [List.length_append, List.length_cons]
    omega

/-- the chosen cursor has more keys behind its look-ahead -/
theorem MInv.step_more {all : List Nat} {cs : List Cursor} {out : List Nat} {i : Nat} {c : Cursor}
    {k k' : Nat} {ks : List Nat} (h : MInv all cs out) (hm : minCursor cs = some i)
    (hc : cs[i]? = some c) (hk : c.peek = some k) (hr : c.rest = k' :: ks) :
    MInv all (cs.set i { c with rest := ks, peek := some k' }) (out ++ [k]) ∧
    ((cs.set i { c with rest := ks, peek := some k' }).flatMap pending).length + 1 =
      (cs.flatMap pending).length := by
  apply MInv.step_gen h hm hc
  rw [pending_of_peek_some hk, hr]
  simp [pending]

/-- the chosen cursor is at the end of its file -/
theorem MInv.step_last {all : List Nat} {cs : List Cursor} {out : List Nat} {i : Nat} {c : Cursor}
    {k : Nat} (h : MInv all cs out) (hm : minCursor cs = some i)
    (hc : cs[i]? = some c) (hk : c.peek = some k) (hr : c.rest = []) :
    MInv all (cs.set i { c with closed := true, peek := none }) (out ++ [k]) ∧
    ((cs.set i { c with closed := true, peek := none }).flatMap pending).length + 1 =
      (cs.flatMap pending).length := by
  apply MInv.step_gen h hm hc
  rw [pending_of_peek_some hk, hr]
  simp [pending]

/-- at the end the output is *the* sorted arrangement of the keys -/
theorem MInv.final {all : List Nat} {cs : List Cursor} {out : List Nat} (h : MInv all cs out)
    (he : cs.flatMap pending = []) : out = all.mergeSort (fun a b => a ≤ b) := by
  have hp := h.perm
  rw [he, List.append_nil] at hp
  exact eq_mergeSort_of_sorted_perm h.outSorted hp

/-- cursors freshly opened on sorted files -/
theorem MInv.init {ls : List (List Nat)} {cs : List Cursor} (hs : ∀ l ∈ ls, l.Pairwise (· ≤ ·))
    (hc : cs.map pending = ls) : MInv ls.flatten cs [] := by
  subst hc
  refine ⟨?_, List.Pairwise.nil, ?_, ?_⟩
  · rw [List.nil_append, List.flatMap_def]
  · intro x hx; simp at hx
  · intro c hcm
    exact hs _ (List.mem_map_of_mem hcm)

/-- two lists with the same elements sort to the same list -/
theorem mergeSort_perm_eq {l l' : List Nat} (h : l.Perm l') :
    l.mergeSort (fun a b => a ≤ b) = l'.mergeSort (fun a b => a ≤ b) :=
  eq_mergeSort_of_sorted_perm (pairwise_mergeSort_le l) ((List.mergeSort_perm l _).trans h)

/-- the keys of the harness, `n, n-1, …, 1`, sorted -/
theorem sorted_keys (n : Nat) :
    ((List.range n).map (fun k => n - k)).mergeSort (fun a b => a ≤ b) = (List.range n).map (· + 1) := by
  symm
  apply eq_mergeSort_of_sorted_perm
  · rw [List.pairwise_map]
    exact List.pairwise_lt_range.imp (by intro a b h; omega)
  · have hrev : (List.range n).map (fun k => n - k) = ((List.range n).map (· + 1)).reverse := by
      apply List.ext_getElem
      · simp
      · intro i h1 h2
        simp at h1 h2 ⊢
        omega
    rw [hrev]
    exact (List.reverse_perm _).symm

end MergeLemmas
