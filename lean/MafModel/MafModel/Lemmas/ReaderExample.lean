/-
  A tiny concrete reading context for the non-vacuity examples of C16 / C17 / C03 / C19:
  the class table knows only `MafColumnRecord`, the registry has no scheme (so every file is read
  with `NoRestrictionsScheme(column names)`), and a five-line file with one malformed header line
  and one short data line.
-/
import MafModel.Lemmas.ReaderLemmas
open Py
namespace Model.ReaderExample

def exK : HConsts :=
  { versionKey := "version".toList, annotationKey := "annotation.spec".toList,
    sortOrderKey := "sort.order".toList, contigKey := "contigs".toList, startSymbol := '#',
    sortOrders := [("Unknown".toList, false, false), ("Unsorted".toList, false, false),
      ("BarcodesAndCoordinate".toList, true, true), ("Coordinate".toList, true, false)] }

def exC : Ctx :=
  { tbl := [{ name := "MafColumnRecord", bases := [], hooks := ["build", "validate", "__string_it__"] }],
    enums := [], H := ⟨fun _ => none⟩ }

def exR : Registry := { schemes := [], supportedVersions := [], supportedAnnotations := [] }

/-- line 1: a good pragma; line 2: a header line without separator; line 3: the column names;
    line 4: a good record; line 5: a record with a missing field -/
def exLines : List Text :=
  ["#version 2.4\n".toList, "#oops\n".toList, "Chromosome\tStart_Position\tEnd_Position\n".toList,
   "chr1\t10\t20\n".toList, "chr2\t5\n".toList]

/-- the same file declaring `Coordinate` order with its two records out of order -/
def exSorted : List Text :=
  ["#version 2.4\n".toList, "#sort.order Coordinate\n".toList,
   "Chromosome\tStart_Position\tEnd_Position\n".toList,
   "chr1\t10\t20\n".toList, "chr1\t5\t7\n".toList]

/-- a file declaring `Coordinate` order (no contig list) whose second record has the start
    position `abc`, not a number; the records that can be keyed are in order -/
def exBadPos : List Text :=
  ["#version 2.4\n".toList, "#sort.order Coordinate\n".toList,
   "Chromosome\tStart_Position\tEnd_Position\n".toList,
   "chr1\t10\t20\n".toList, "chr1\tabc\t7\n".toList, "chr1\t30\t40\n".toList]

/-- the same with a third record that is out of order relative to the FIRST one -/
def exBadPosDesc : List Text :=
  ["#version 2.4\n".toList, "#sort.order Coordinate\n".toList,
   "Chromosome\tStart_Position\tEnd_Position\n".toList,
   "chr1\t10\t20\n".toList, "chr1\tabc\t7\n".toList, "chr1\t5\t6\n".toList]

/-- a registry that supports the version and annotation of `exClean` (still without schemes) -/
def exR2 : Registry := { schemes := [], supportedVersions := ["2.4"], supportedAnnotations := ["gdc-1.0.0"] }

/-- a file with a clean header whose second record is short -/
def exClean : List Text :=
  ["#version 2.4\n".toList, "#annotation.spec gdc-1.0.0\n".toList,
   "Chromosome\tStart_Position\tEnd_Position\n".toList,
   "chr1\t10\t20\n".toList, "chr2\t5\n".toList]

/-- a successful `Except` computation has a result with the computed property -/
theorem exists_ok_of_map {ε α β : Type} {x : Except ε α} {f : α → β} {b : β}
    (h : x.toOption.map f = some b) : ∃ a, x = .ok a ∧ f a = b := by
  cases x with
  | error e => cases h
  | ok a => exact ⟨a, rfl, by simpa [Except.toOption] using h⟩

/-- the exception of a computation, if it raised one -/
def errOf {α : Type} : Except PyErr α → Option PyErr
  | .error e => some e
  | .ok _ => none

theorem eq_error_of_errOf {α : Type} {x : Except PyErr α} {e : PyErr} (h : errOf x = some e) :
    x = .error e := by
  cases x with
  | error e' => simp only [errOf, Option.some.injEq] at h; rw [h]
  | ok a => cases h

end Model.ReaderExample
