/-
  The iteration phase of the spill-file effect model: cursors, the merge loop, `iterate`.
-/
import MafModel.Lemmas.ResourceLemmas
open Py Model MergeLemmas

namespace ResourceLemmas


/-! ## the iteration phase: only the trace, the fault flag, the handles, the id counter and
    the registered cursors change -/

structure Fr (s s' : RState) : Prop where
  files : s'.files = s.files
  fds : s'.fds = s.fds
  paths : s'.paths = s.paths
  fdsReg : s'.fdsReg = s.fdsReg
  stash : s'.stash = s.stash
  contents : s'.contents = s.contents
  nextId : s.nextId ≤ s'.nextId

theorem Fr.refl (s : RState) : Fr s s := ⟨rfl, rfl, rfl, rfl, rfl, rfl, Nat.le_refl _⟩
theorem Fr.trans {a b c : RState} (h1 : Fr a b) (h2 : Fr b c) : Fr a c :=
  ⟨h2.files.trans h1.files, h2.fds.trans h1.fds, h2.paths.trans h1.paths, h2.fdsReg.trans h1.fdsReg,
   h2.stash.trans h1.stash, h2.contents.trans h1.contents, Nat.le_trans h1.nextId h2.nextId⟩

theorem WF.fr {s s' : RState} (h : WF s) (f : Fr s s') : WF s' :=
  h.of_eq f.files f.fds f.paths f.fdsReg f.nextId

/-- every open handle belongs to a cursor of `cs` that is not marked closed -/
def Covered (H : List Nat) (cs : List Cursor) : Prop :=
  ∀ h ∈ H, ∃ c ∈ cs, c.handle = h ∧ c.closed = false

theorem HInv.sub {s s' : RState} (h : HInv s) (h1 : s'.handles.Sublist s.handles)
    (h2 : s.nextId ≤ s'.nextId) : HInv s' :=
  ⟨h.nd.sublist h1, fun x hx => Nat.lt_of_lt_of_le (h.lt x (h1.subset hx)) h2⟩

/-! ### generic handlers -/

theorem collectOS_spec {x : M Unit} {s : RState} {Q : Unit → RState → Prop} {E : RState → Prop}
    (hx : Outcome s (exec x s) Q E) (first : Option PyErr) (hfirst : first.isSome = true → s.fired = true) :
    ∃ first' s', exec (collectOS first x) s = (.ok first', s') ∧ s'.failAt = s.failAt ∧
      ((first' = first ∧ s'.fired = s.fired ∧ Q () s') ∨
       (first = none ∧ first' = some ioErr ∧ Fires s ∧ s'.fired = true ∧ E s')) := by
  unfold collectOS
  rw [exec_tryCatch, exec_bind]
  rcases hxs : exec x s with ⟨r, s1⟩
  rw [hxs] at hx
  cases r with
  | ok a =>
    refine ⟨first, s1, rfl, hx.1, Or.inl ⟨rfl, hx.2.1, hx.2.2⟩⟩
  | error e =>
    obtain ⟨h1, rfl, hf, h3, h4⟩ := hx
    have hn : first = none := by
      cases first with
      | none => rfl
      | some e => have := hfirst rfl; rw [hf.1] at this; cases this
    subst hn
    exact ⟨some ioErr, s1, rfl, h1, Or.inr ⟨rfl, rfl, hf, h3, h4⟩⟩

theorem swallowOS_fired {x : M Unit} {s : RState} {Q : Unit → RState → Prop} {E : RState → Prop}
    (hx : Outcome s (exec x s) Q E) (hf : s.fired = true) :
    ∃ s', exec (swallowOS x) s = (.ok (), s') ∧ s'.failAt = s.failAt ∧ s'.fired = true ∧ Q () s' := by
  unfold swallowOS
  rw [exec_tryCatch]
  obtain ⟨a, h1, h2, h3, h4⟩ := hx.ok_of_fired hf
  rcases hxs : exec x s with ⟨r, s1⟩
  rw [hxs] at h1 h2 h3 h4
  simp only at h1; subst h1
  exact ⟨s1, rfl, h2, h3, h4⟩

/-! ### `advance` -/

theorem advance_exec (c : Cursor) (s : RState) :
    (∃ k ks t, c.rest = k :: ks ∧
      exec (advance c) s = (.ok { c with rest := ks, peek := some k }, tr s t)) ∨
    (∃ t, c.rest = [] ∧ exec (advance c) s =
      (.ok { c with closed := true, peek := none }, { tr s t with handles := s.handles.erase c.handle })) ∨
    (Fires s ∧ ∃ t, exec (advance c) s = (.error ioErr, fire s t)) ∨
    (Fires s ∧ ∃ t, c.rest = [] ∧ exec (advance c) s =
      (.error ioErr, { fire s t with handles := s.handles.erase c.handle })) := by
  unfold advance
  rcases hread_exec s with ⟨t, h⟩ | ⟨hf, t, h⟩
  · rw [exec_bind_ok h]
    cases hr : c.rest with
    | nil =>
      simp only []
      rcases hclose_exec .hcloseR c.handle (tr s t) with ⟨t2, h2⟩ | ⟨hf2, t2, h2⟩
      · right; left
        refine ⟨t2, trivial, ?_⟩
        rw [exec_tryCatch, exec_bind_ok h2, exec_pure]
      · right; right; right
        refine ⟨hf2, t2, trivial, ?_⟩
        rw [exec_tryCatch, exec_bind_err h2]
        rfl
    | cons k ks =>
      simp only []
      rcases hread_exec (tr s t) with ⟨t2, h2⟩ | ⟨hf2, t2, h2⟩
      · left
        exact ⟨k, ks, t2, rfl, by rw [exec_bind_ok h2]; rfl⟩
      · right; right; left
        exact ⟨hf2, t2, by rw [exec_bind_err h2]⟩
  · right; right; left
    exact ⟨hf, t, by rw [exec_bind_err h]⟩

/-! ### `closeCursors` -/

def CloseQ (s : RState) (cs : List Cursor) (s' : RState) : Prop :=
  Fr s s' ∧ s'.merging = s.merging ∧ s'.nextId = s.nextId ∧ s'.handles.Sublist s.handles ∧
    ∀ h ∈ s'.handles, ∀ c ∈ cs, c.handle = h → c.closed = true

theorem hclose_outcome (c : IOCall) (h : Nat) (s : RState) :
    Outcome s (exec (hclose c h) s)
      (fun _ s' => Fr s s' ∧ s'.merging = s.merging ∧ s'.nextId = s.nextId ∧ s'.handles = s.handles.erase h)
      (fun s' => Fr s s' ∧ s'.merging = s.merging ∧ s'.nextId = s.nextId ∧ s'.handles = s.handles.erase h) := by
  rcases hclose_exec c h s with ⟨t, ht⟩ | ⟨hf, t, ht⟩
  · rw [ht]; exact Outcome.ok rfl rfl ⟨⟨rfl, rfl, rfl, rfl, rfl, rfl, Nat.le_refl _⟩, rfl, rfl, rfl⟩
  · rw [ht]; exact Outcome.err rfl hf rfl ⟨⟨rfl, rfl, rfl, rfl, rfl, rfl, Nat.le_refl _⟩, rfl, rfl, rfl⟩

def closeStep (first : Option PyErr) (c : Cursor) : M (Option PyErr) := do
  let s ← get
  if c.closed || !s.handles.contains c.handle then pure first
  else collectOS first (hclose .hcloseR c.handle)

theorem closeCursors_eq (cs : List Cursor) : closeCursors cs = (do
    let first ← cs.foldlM closeStep none
    match first with
    | some e => throw e
    | none => pure ()) := rfl

theorem closeFold_spec (cs : List Cursor) (first : Option PyErr) (s : RState) (hi : HInv s)
    (hfirst : first.isSome = true → s.fired = true) :
    ∃ first' s', exec (cs.foldlM closeStep first) s = (.ok first', s') ∧ CloseQ s cs s' ∧
      s'.failAt = s.failAt ∧
      ((first' = first ∧ s'.fired = s.fired) ∨
       (first = none ∧ first' = some ioErr ∧ Fires s ∧ s'.fired = true)) := by
  induction cs generalizing first s with
  | nil =>
    exact ⟨first, s, rfl, ⟨Fr.refl s, rfl, rfl, List.Sublist.refl _, fun _ _ _ hc => by cases hc⟩, rfl,
      Or.inl ⟨rfl, rfl⟩⟩
  | cons c cs ih =>
    rw [List.foldlM_cons]
    -- one step
    have hstep : ∃ f1 s1, exec (closeStep first c) s = (.ok f1, s1) ∧ CloseQ s [c] s1 ∧
        s1.failAt = s.failAt ∧
        ((f1 = first ∧ s1.fired = s.fired) ∨ (first = none ∧ f1 = some ioErr ∧ Fires s ∧ s1.fired = true)) := by
      unfold closeStep
      rw [exec_bind, exec_get]
      simp only []
      split
      · rename_i hc
        refine ⟨first, s, rfl, ⟨Fr.refl s, rfl, rfl, List.Sublist.refl _, ?_⟩, rfl, Or.inl ⟨rfl, rfl⟩⟩
        intro h hh c' hc' hch
        simp only [List.mem_singleton] at hc'; subst hc'
        simp only [Bool.or_eq_true, Bool.not_eq_true', List.contains_eq_mem, decide_eq_false_iff_not] at hc
        rcases hc with hc | hc
        · exact hc
        · rw [hch] at hc; exact absurd hh hc
      · obtain ⟨f1, s1, h1, h2, h3⟩ := collectOS_spec (hclose_outcome .hcloseR c.handle s) first hfirst
        have key : ∀ s1 : RState, (Fr s s1 ∧ s1.merging = s.merging ∧ s1.nextId = s.nextId ∧
            s1.handles = s.handles.erase c.handle) → CloseQ s [c] s1 := by
          rintro s1 ⟨g1, g2, g3, g4⟩
          refine ⟨g1, g2, g3, g4 ▸ List.erase_sublist, ?_⟩
          intro h hh c' hc' hch
          simp only [List.mem_singleton] at hc'; subst hc'
          rw [g4, hi.nd.mem_erase_iff] at hh
          exact absurd hch.symm hh.1
        refine ⟨f1, s1, h1, ?_, h2, ?_⟩
        · rcases h3 with ⟨_, _, h⟩ | ⟨_, _, _, _, h⟩ <;> exact key s1 h
        · rcases h3 with ⟨a, b, _⟩ | ⟨a, b, c, d, _⟩
          · exact Or.inl ⟨a, b⟩
          · exact Or.inr ⟨a, b, c, d⟩
    obtain ⟨f1, s1, h1, ⟨q1, q2, q3, q4, q5⟩, hfa1, hcase1⟩ := hstep
    have hi1 : HInv s1 := hi.sub q4 (Nat.le_of_eq q3.symm)
    have hfirst1 : f1.isSome = true → s1.fired = true := by
      rcases hcase1 with ⟨a, b⟩ | ⟨_, _, _, d⟩
      · subst a; intro h; rw [b]; exact hfirst h
      · exact fun _ => d
    obtain ⟨f2, s2, h2, ⟨r1, r2, r3, r4, r5⟩, hfa2, hcase2⟩ := ih f1 s1 hi1 hfirst1
    refine ⟨f2, s2, by rw [exec_bind_ok h1]; exact h2,
      ⟨q1.trans r1, r2.trans q2, r3.trans q3, r4.trans q4, ?_⟩, hfa2.trans hfa1, ?_⟩
    · intro h hh c' hc' hch
      rcases List.mem_cons.1 hc' with rfl | hc'
      · exact q5 h (r4.subset hh) c' (by simp) hch
      · exact r5 h hh c' hc' hch
    · rcases hcase1 with ⟨a, b⟩ | ⟨a, b, c1, d⟩
      · subst a
        rcases hcase2 with ⟨a2, b2⟩ | ⟨a2, b2, c2, d2⟩
        · exact Or.inl ⟨a2, b2.trans b⟩
        · exact Or.inr ⟨a2, b2, ⟨b ▸ c2.1, hfa1 ▸ c2.2⟩, d2⟩
      · subst a b
        rcases hcase2 with ⟨a2, b2⟩ | ⟨a2, _⟩
        · exact Or.inr ⟨rfl, a2, c1, b2.trans d⟩
        · cases a2

theorem closeCursors_spec (cs : List Cursor) (s : RState) (hi : HInv s) :
    Outcome s (exec (closeCursors cs) s) (fun _ => CloseQ s cs) (CloseQ s cs) := by
  rw [closeCursors_eq]
  obtain ⟨f, s', h1, h2, h3, h4⟩ := closeFold_spec cs none s hi (by simp)
  rw [exec_bind_ok h1]
  rcases h4 with ⟨a, b⟩ | ⟨_, a, b, c⟩
  · subst a; exact Outcome.ok h3 b h2
  · subst a; exact Outcome.err h3 b c h2


/-! ### `_SortedIterator(path)` -/

theorem erase_append_fresh {H : List Nat} {N : Nat} (h : N ∉ H) : (H ++ [N]).erase N = H := by
  rw [List.erase_append_right _ h]; simp

def NewQ (s : RState) (keys : List Nat) (c : Cursor) (s' : RState) : Prop :=
  Fr s s' ∧ s'.merging = s.merging ∧ HInv s' ∧ c.handle ∉ s.handles ∧ pending c = keys ∧
    ((c.closed = false ∧ s'.handles = s.handles ++ [c.handle]) ∨ (c.closed = true ∧ s'.handles = s.handles))
def NewE (s : RState) (s' : RState) : Prop :=
  Fr s s' ∧ s'.merging = s.merging ∧ HInv s' ∧ s'.handles = s.handles

theorem newCursor_spec (keys : List Nat) (s : RState) (hi : HInv s) :
    Outcome s (exec (newCursor keys) s) (NewQ s keys) (NewE s) := by
  have hfresh : s.nextId ∉ s.handles := fun h => Nat.lt_irrefl _ (hi.lt _ h)
  have hi1 : ∀ s' : RState, s'.handles = s.handles ++ [s.nextId] → s'.nextId = s.nextId + 1 → HInv s' := by
    intro s' h1 h2
    refine ⟨h1 ▸ nodup_append_fresh hi.nd hi.lt, ?_⟩
    rw [h1, h2]; intro x hx
    rcases List.mem_append.1 hx with hx | hx
    · exact Nat.lt_succ_of_lt (hi.lt x hx)
    · simp only [List.mem_singleton] at hx; omega
  have hi2 : ∀ s' : RState, s'.handles = s.handles → s.nextId ≤ s'.nextId → HInv s' := by
    intro s' h1 h2
    exact hi.sub (h1 ▸ List.Sublist.refl _) h2
  unfold newCursor
  rcases gzopen_exec .gzopenR s with ⟨t, h⟩ | ⟨hf, t, h⟩
  · rw [exec_bind_ok h]
    simp only []
    rw [exec_tryCatch]
    rcases advance_exec { handle := s.nextId, rest := keys, peek := none }
      { tr s t with handles := s.handles ++ [s.nextId], nextId := s.nextId + 1 } with
      ⟨k, ks, t2, hk, h2⟩ | ⟨t2, hk, h2⟩ | ⟨hf2, t2, h2⟩ | ⟨hf2, t2, hk, h2⟩
    · rw [h2]
      simp only [] at hk
      refine Outcome.ok rfl rfl ⟨⟨rfl, rfl, rfl, rfl, rfl, rfl, Nat.le_succ _⟩, rfl, hi1 _ rfl rfl, hfresh, ?_,
        Or.inl ⟨rfl, rfl⟩⟩
      simp [pending, hk]
    · rw [h2]
      simp only [] at hk
      refine Outcome.ok rfl rfl ⟨⟨rfl, rfl, rfl, rfl, rfl, rfl, Nat.le_succ _⟩, rfl, hi2 _ ?_ (Nat.le_succ _), hfresh,
        ?_, Or.inr ⟨rfl, ?_⟩⟩
      · exact erase_append_fresh hfresh
      · simp [pending, hk]
      · exact erase_append_fresh hfresh
    · rw [h2]
      simp only []
      rw [exec_bind, exec_get]
      simp only []
      have hc : (s.handles ++ [s.nextId]).contains s.nextId = true := by simp
      rw [if_pos hc]
      obtain ⟨t3, h3⟩ := swallowOS_hclose_fired .hcloseR s.nextId
        (s := fire { tr s t with handles := s.handles ++ [s.nextId], nextId := s.nextId + 1 } t2) rfl
      rw [exec_bind_ok h3, exec_throw]
      refine Outcome.err rfl hf2 rfl ⟨⟨rfl, rfl, rfl, rfl, rfl, rfl, Nat.le_succ _⟩, rfl,
        hi2 _ ?_ (Nat.le_succ _), ?_⟩
      · exact erase_append_fresh hfresh
      · exact erase_append_fresh hfresh
    · rw [h2]
      simp only []
      rw [exec_bind, exec_get]
      simp only []
      have hc : ((s.handles ++ [s.nextId]).erase s.nextId).contains s.nextId = false := by
        rw [erase_append_fresh hfresh]; simpa using hfresh
      rw [if_neg (by rw [hc]; simp), exec_throw]
      refine Outcome.err rfl hf2 rfl ⟨⟨rfl, rfl, rfl, rfl, rfl, rfl, Nat.le_succ _⟩, rfl,
        hi2 _ ?_ (Nat.le_succ _), ?_⟩
      · exact erase_append_fresh hfresh
      · exact erase_append_fresh hfresh
  · rw [exec_bind_err h]
    exact Outcome.err rfl hf rfl ⟨⟨rfl, rfl, rfl, rfl, rfl, rfl, Nat.le_refl _⟩, rfl, hi2 _ rfl (Nat.le_refl _), rfl⟩

/-! ### `_MergingIterator(paths)`: one cursor per file -/

def openStep (acc : List Cursor) (keys : List Nat) : M (List Cursor) :=
  tryCatch (do let c ← newCursor keys; pure (acc ++ [c]))
    (fun e => do swallowOS (closeCursors acc); throw e)

def OpenQ (s : RState) (acc : List Cursor) (ls : List (List Nat)) (cs : List Cursor) (s' : RState) : Prop :=
  Fr s s' ∧ s'.merging = s.merging ∧ HInv s' ∧ Covered s'.handles cs ∧
    cs.map pending = acc.map pending ++ ls
def OpenE (s : RState) (s' : RState) : Prop :=
  Fr s s' ∧ s'.merging = s.merging ∧ HInv s' ∧ s'.handles = []

theorem openAll_spec (ls : List (List Nat)) (acc : List Cursor) (s : RState) (hi : HInv s)
    (hc : Covered s.handles acc) :
    Outcome s (exec (ls.foldlM openStep acc) s) (OpenQ s acc ls) (OpenE s) := by
  induction ls generalizing acc s with
  | nil =>
    exact Outcome.ok rfl rfl ⟨Fr.refl s, rfl, hi, hc, by simp⟩
  | cons keys ls ih =>
    rw [List.foldlM_cons]
    have hstep : Outcome s (exec (openStep acc keys) s)
        (fun cs s' => Fr s s' ∧ s'.merging = s.merging ∧ HInv s' ∧ Covered s'.handles cs ∧
          cs.map pending = acc.map pending ++ [keys]) (OpenE s) := by
      unfold openStep
      rw [exec_tryCatch, exec_bind]
      have hn := newCursor_spec keys s hi
      rcases hx : exec (newCursor keys) s with ⟨r, s1⟩
      rw [hx] at hn
      cases r with
      | ok c =>
        obtain ⟨h1, h2, g1, g2, g3, g4, g5, g6⟩ := hn
        simp only [exec_pure]
        refine Outcome.ok h1 h2 ⟨g1, g2, g3, ?_, by simp [g5]⟩
        intro h hh
        rcases g6 with ⟨g6, g7⟩ | ⟨g6, g7⟩
        · rw [g7] at hh
          rcases List.mem_append.1 hh with hh | hh
          · obtain ⟨c0, hc0, hc1⟩ := hc h hh
            exact ⟨c0, List.mem_append_left _ hc0, hc1⟩
          · simp only [List.mem_singleton] at hh
            exact ⟨c, by simp, hh.symm, g6⟩
        · rw [g7] at hh
          obtain ⟨c0, hc0, hc1⟩ := hc h hh
          exact ⟨c0, List.mem_append_left _ hc0, hc1⟩
      | error e =>
        obtain ⟨h1, rfl, hf, h3, g1, g2, g3, g4⟩ := hn
        simp only []
        obtain ⟨s2, k1, k2, k3, q1, q2, q3, q4, q5⟩ := swallowOS_fired (closeCursors_spec acc s1 g3) h3
        rw [exec_bind_ok k1, exec_throw]
        refine Outcome.err (k2.trans h1) hf k3 ⟨g1.trans q1, q2.trans g2, g3.sub q4 (Nat.le_of_eq q3.symm), ?_⟩
        rw [List.eq_nil_iff_forall_not_mem]
        intro h hh
        obtain ⟨c0, hc0, hc1, hc2⟩ := hc h (g4 ▸ q4.subset hh)
        have := q5 h hh c0 hc0 hc1
        rw [hc2] at this; cases this
    refine Outcome.bind (hstep.mono (fun _ _ h => h) (fun _ h => h)) ?_
    rintro cs s1 ⟨g1, g2, g3, g4, g5⟩ _ _
    refine (ih cs s1 g3 g4).mono ?_ ?_
    · rintro cs' s' ⟨q1, q2, q3, q4, q5⟩
      exact ⟨g1.trans q1, q2.trans g2, q3, q4, by rw [q5, g5]; simp⟩
    · rintro s' ⟨q1, q2, q3, q4⟩
      exact ⟨g1.trans q1, q2.trans g2, q3, q4⟩




/-! ### the merge loop -/

/-- mark the registered cursors on handle `h` closed -/
def markClosed (h : Nat) (m : List Cursor) : List Cursor :=
  m.map (fun x => if x.handle = h then { x with closed := true } else x)

/-- `s_iter.next()` with the bookkeeping of a failing close at end of file -/
def advanceG (c : Cursor) : M Cursor :=
  tryCatch (advance c) (fun e => do
    let s ← get
    if !s.handles.contains c.handle then
      modify (fun s => { s with merging := s.merging.map (markClosed c.handle) })
    throw e)

theorem mergeLoop_succ (fuel : Nat) (limit : Option Nat) (cs : List Cursor) (out : List Nat) :
    mergeLoop (fuel + 1) limit cs out =
    (if limit == some out.length then pure (out, cs, true)
    else match minCursor cs with
      | none => pure (out, cs, false)
      | some i =>
        match cs[i]? with
        | none => pure (out, cs, false)
        | some c =>
          match c.peek with
          | none => pure (out, cs, false)
          | some k => do
            let c' ← advanceG c
            modify (fun s => { s with merging := s.merging.map (fun m => if m.map (·.handle) == cs.map (·.handle) then cs.set i c' else m) })
            mergeLoop fuel limit (cs.set i c') (out ++ [k])) := by
  rw [mergeLoop]
  rfl


theorem covered_mark {H H' : List Nat} {cs : List Cursor} {ch : Nat} (hc : Covered H cs)
    (hsub : ∀ h ∈ H', h ∈ H) (hn : ch ∉ H') : Covered H' (markClosed ch cs) := by
  intro h hh
  obtain ⟨c0, hc0, hc1, hc2⟩ := hc h (hsub h hh)
  refine ⟨c0, ?_, hc1, hc2⟩
  unfold markClosed
  refine List.mem_map.2 ⟨c0, hc0, ?_⟩
  have : c0.handle ≠ ch := by rw [hc1]; rintro rfl; exact hn hh
  simp [this]

def AdvQ (s : RState) (c : Cursor) (c' : Cursor) (s' : RState) : Prop :=
  Fr s s' ∧ s'.merging = s.merging ∧ s'.nextId = s.nextId ∧
    ((∃ k ks, c.rest = k :: ks ∧ c' = { c with rest := ks, peek := some k } ∧ s'.handles = s.handles) ∨
     (c.rest = [] ∧ c' = { c with closed := true, peek := none } ∧ s'.handles = s.handles.erase c.handle))
def MergeE (s : RState) (s' : RState) : Prop :=
  Fr s s' ∧ HInv s' ∧ ∃ cs', s'.merging = [cs'] ∧ Covered s'.handles cs'

theorem advanceG_spec (c : Cursor) (s : RState) (hi : HInv s) (cs : List Cursor) (hm : s.merging = [cs])
    (hcov : Covered s.handles cs) :
    Outcome s (exec (advanceG c) s) (AdvQ s c) (MergeE s) := by
  unfold advanceG
  rw [exec_tryCatch]
  rcases advance_exec c s with ⟨k, ks, t, hk, h⟩ | ⟨t, hk, h⟩ | ⟨hf, t, h⟩ | ⟨hf, t, hk, h⟩
  · rw [h]
    exact Outcome.ok rfl rfl ⟨⟨rfl, rfl, rfl, rfl, rfl, rfl, Nat.le_refl _⟩, rfl, rfl, Or.inl ⟨k, ks, hk, rfl, rfl⟩⟩
  · rw [h]
    exact Outcome.ok rfl rfl ⟨⟨rfl, rfl, rfl, rfl, rfl, rfl, Nat.le_refl _⟩, rfl, rfl, Or.inr ⟨hk, rfl, rfl⟩⟩
  · rw [h]
    simp only []
    rw [exec_bind, exec_get]
    simp only []
    split
    · rename_i hc
      rw [exec_bind, exec_modify]
      simp only [exec_throw]
      refine Outcome.err rfl hf rfl ⟨⟨rfl, rfl, rfl, rfl, rfl, rfl, Nat.le_refl _⟩, ⟨hi.nd, hi.lt⟩,
        markClosed c.handle cs, by simp [hm], ?_⟩
      refine covered_mark hcov (fun _ h => h) ?_
      simpa using hc
    · simp only [exec_throw]
      exact Outcome.err rfl hf rfl ⟨⟨rfl, rfl, rfl, rfl, rfl, rfl, Nat.le_refl _⟩, ⟨hi.nd, hi.lt⟩, cs, hm, hcov⟩
  · rw [h]
    simp only []
    rw [exec_bind, exec_get]
    simp only []
    have hnot : c.handle ∉ s.handles.erase c.handle := fun h => (hi.nd.mem_erase_iff.1 h).1 rfl
    have hc : (!(s.handles.erase c.handle).contains c.handle) = true := by simpa using hnot
    rw [if_pos hc, exec_bind, exec_modify]
    simp only [exec_throw]
    refine Outcome.err rfl hf rfl ⟨⟨rfl, rfl, rfl, rfl, rfl, rfl, Nat.le_refl _⟩,
      ⟨hi.nd.sublist List.erase_sublist, fun x hx => hi.lt x (List.mem_of_mem_erase hx)⟩,
      markClosed c.handle cs, by simp [hm], ?_⟩
    exact covered_mark hcov (fun _ h => List.mem_of_mem_erase h) hnot

theorem mem_set_of_ne {cs : List Cursor} {i : Nat} {c c' c0 : Cursor} (hc : cs[i]? = some c)
    (h0 : c0 ∈ cs) (hne : c0 ≠ c) : c0 ∈ cs.set i c' := by
  obtain ⟨j, hj⟩ := List.mem_iff_getElem?.1 h0
  refine List.mem_iff_getElem?.2 ⟨j, ?_⟩
  have hij : i ≠ j := by rintro rfl; rw [hj] at hc; exact hne (Option.some.inj hc)
  rw [List.getElem?_set_ne hij]; exact hj

theorem self_mem_set {cs : List Cursor} {i : Nat} {c c' : Cursor} (hc : cs[i]? = some c) :
    c' ∈ cs.set i c' := by
  have hlt : i < cs.length := by
    rcases Nat.lt_or_ge i cs.length with h | h
    · exact h
    · rw [List.getElem?_eq_none h] at hc; cases hc
  exact List.mem_iff_getElem?.2 ⟨i, by rw [List.getElem?_set_self hlt]⟩

def MergeQ (s : RState) (cs : List Cursor) (out : List Nat) (fuel : Nat) (limit : Option Nat)
    (r : List Nat × List Cursor × Bool) (s' : RState) : Prop :=
  Fr s s' ∧ HInv s' ∧ s'.merging = [r.2.1] ∧ Covered s'.handles r.2.1 ∧
    (∀ all, MInv all cs out → limit = none → (cs.flatMap pending).length < fuel →
      MInv all r.2.1 r.1 ∧ r.2.1.flatMap pending = [] ∧ r.2.2 = false)

theorem mergeLoop_spec (fuel : Nat) (limit : Option Nat) (cs : List Cursor) (out : List Nat) (s : RState)
    (hi : HInv s) (hm : s.merging = [cs]) (hcov : Covered s.handles cs) :
    Outcome s (exec (mergeLoop fuel limit cs out) s) (MergeQ s cs out fuel limit) (MergeE s) := by
  induction fuel generalizing cs out s with
  | zero =>
    rw [mergeLoop]
    exact Outcome.ok rfl rfl ⟨Fr.refl s, hi, hm, hcov, fun all _ _ h => absurd h (Nat.not_lt_zero _)⟩
  | succ fuel ih =>
    rw [mergeLoop_succ]
    split
    · rename_i hl
      refine Outcome.ok rfl rfl ⟨Fr.refl s, hi, hm, hcov, fun all _ hn _ => ?_⟩
      subst hn; simp at hl
    · cases hmin : minCursor cs with
      | none =>
        exact Outcome.ok rfl rfl ⟨Fr.refl s, hi, hm, hcov, fun all h _ _ => ⟨h, minCursor_none hmin, rfl⟩⟩
      | some i =>
        obtain ⟨c, k, hci, hck, _⟩ := minCursor_some hmin
        simp only [hci, hck]
        refine Outcome.bind ((advanceG_spec c s hi cs hm hcov).mono (fun _ _ h => h) (fun _ h => h)) ?_
        rintro c' s1 ⟨g1, g2, g3, g4⟩ _ _
        rw [exec_bind, exec_modify]
        simp only []
        have hmerge : (List.map (fun m => if (List.map (fun x => x.handle) m == List.map (fun x => x.handle) cs) = true
            then cs.set i c' else m) s1.merging) = [cs.set i c'] := by
          rw [g2, hm]; simp
        rw [hmerge]
        have hi1 : HInv s1 := by
          refine hi.sub ?_ (Nat.le_of_eq g3.symm)
          rcases g4 with ⟨_, _, _, _, h⟩ | ⟨_, _, h⟩
          · rw [h]; exact List.Sublist.refl _
          · rw [h]; exact List.erase_sublist
        have hcov1 : Covered s1.handles (cs.set i c') := by
          intro h hh
          rcases g4 with ⟨k', ks, hr, hc', hH⟩ | ⟨hr, hc', hH⟩
          · rw [hH] at hh
            obtain ⟨c0, hc0, hc1, hc2⟩ := hcov h hh
            by_cases he : c0 = c
            · subst he
              exact ⟨c', self_mem_set hci, by rw [hc']; exact hc1, by rw [hc']; exact hc2⟩
            · exact ⟨c0, mem_set_of_ne hci hc0 he, hc1, hc2⟩
          · rw [hH, hi.nd.mem_erase_iff] at hh
            obtain ⟨c0, hc0, hc1, hc2⟩ := hcov h hh.2
            have he : c0 ≠ c := by rintro rfl; exact hh.1 hc1.symm
            exact ⟨c0, mem_set_of_ne hci hc0 he, hc1, hc2⟩
        refine (ih (cs.set i c') (out ++ [k]) _ ?_ ?_ ?_).mono ?_ ?_
        · exact ⟨hi1.nd, hi1.lt⟩
        · rfl
        · exact hcov1
        · rintro r s' ⟨q1, q2, q3, q4, q5⟩
          refine ⟨g1.trans ⟨q1.files, q1.fds, q1.paths, q1.fdsReg, q1.stash, q1.contents, q1.nextId⟩, q2, q3, q4, ?_⟩
          intro all hall hn hlen
          have hstep : MInv all (cs.set i c') (out ++ [k]) ∧
              ((cs.set i c').flatMap pending).length + 1 = (cs.flatMap pending).length := by
            rcases g4 with ⟨k', ks, hr, hc', _⟩ | ⟨hr, hc', _⟩
            · rw [hc']; exact hall.step_more hmin hci hck hr
            · rw [hc']; exact hall.step_last hmin hci hck hr
          exact q5 all hstep.1 hn (by omega)
        · rintro s' ⟨q1, q2, q3⟩
          exact ⟨g1.trans ⟨q1.files, q1.fds, q1.paths, q1.fdsReg, q1.stash, q1.contents, q1.nextId⟩, q2, q3⟩


/-! ### `iter(sorter)` -/

/-- every open handle belongs to a registered cursor that is not marked closed -/
def Cov (s : RState) : Prop :=
  ∀ h ∈ s.handles, ∃ cs ∈ s.merging, ∃ c ∈ cs, c.handle = h ∧ c.closed = false

theorem handles_nil_of_closed {H H' : List Nat} {cs : List Cursor} (hc : Covered H cs)
    (hsub : H'.Sublist H) (hcl : ∀ h ∈ H', ∀ c ∈ cs, c.handle = h → c.closed = true) : H' = [] := by
  rw [List.eq_nil_iff_forall_not_mem]
  intro h hh
  obtain ⟨c0, hc0, hc1, hc2⟩ := hc h (hsub.subset hh)
  have := hcl h hh c0 hc0 hc1
  rw [hc2] at this; cases this

theorem catchAll_fired {x : M Unit} {s : RState} {Q : Unit → RState → Prop} {E : RState → Prop}
    (hx : Outcome s (exec x s) Q E) (hf : s.fired = true) :
    ∃ s', exec (tryCatch x (fun _ => pure ())) s = (.ok (), s') ∧ s'.failAt = s.failAt ∧
      s'.fired = true ∧ Q () s' := by
  rw [exec_tryCatch]
  obtain ⟨a, h1, h2, h3, h4⟩ := hx.ok_of_fired hf
  rcases hxs : exec x s with ⟨r, s1⟩
  rw [hxs] at h1 h2 h3 h4
  simp only at h1; subst h1
  exact ⟨s1, rfl, h2, h3, h4⟩

def iterTail (limit : Option Nat) (cs : List Cursor) (total : Nat) : M (List Nat) := do
  let r ← tryCatch (mergeLoop (total + 1) limit cs []) (fun e => do
        let s ← get
        let cur := (s.merging.getLast?).getD cs
        modify (fun s => { s with merging := s.merging.dropLast })
        tryCatch (closeCursors cur) (fun _ => pure ())
        throw e)
  let (out, cs', abandoned) := r
  if abandoned then return out
  else
    modify (fun s => { s with merging := s.merging.dropLast })
    closeCursors cs'
    return out

theorem iterate_eq (limit : Option Nat) : iterate limit = (do
    let s ← get
    if !s.paths.isEmpty || s.alwaysSpill then
      spill
      let s ← get
      let files := s.paths.map (fun p => ((s.contents.find? (fun q => q.1 == p)).map (·.2)).getD [])
      let cs ← files.foldlM openStep []
      modify (fun s => { s with merging := s.merging ++ [cs] })
      iterTail limit cs (files.map List.length).sum
    else
      let out := s.stash.mergeSort (fun a b => a ≤ b)
      return match limit with
        | some j => out.take j
        | none => out) := rfl

def IterE (s : RState) (s' : RState) : Prop := Fr s s' ∧ HInv s' ∧ Cov s'

theorem iterTail_spec (limit : Option Nat) (cs : List Cursor) (total : Nat) (s : RState)
    (hi : HInv s) (hm : s.merging = [cs]) (hcov : Covered s.handles cs) :
    Outcome s (exec (iterTail limit cs total) s)
      (fun out s' => IterE s s' ∧ ∀ all, MInv all cs [] → limit = none →
        (cs.flatMap pending).length ≤ total → out = all.mergeSort (fun a b => a ≤ b))
      (IterE s) := by
  unfold iterTail
  rw [exec_bind, exec_tryCatch]
  have hml := mergeLoop_spec (total + 1) limit cs [] s hi hm hcov
  rcases hx : exec (mergeLoop (total + 1) limit cs []) s with ⟨r, s1⟩
  rw [hx] at hml
  cases r with
  | ok r =>
    obtain ⟨out, cs', ab⟩ := r
    obtain ⟨h1, h2, g1, g2, g3, g4, g5⟩ := hml
    simp only [] at g3 g4 g5 ⊢
    cases ab with
    | true =>
      simp only [if_true, exec_pure]
      refine Outcome.ok h1 h2 ⟨⟨g1, g2, ?_⟩, ?_⟩
      · intro h hh
        exact ⟨cs', by rw [g3]; simp, g4 h hh⟩
      · intro all hall hn hlen
        have := (g5 all hall hn (by omega)).2.2
        cases this
    | false =>
      simp only [Bool.false_eq_true, if_false]
      rw [exec_bind, exec_modify]
      simp only []
      have hcc := closeCursors_spec cs' { s1 with merging := s1.merging.dropLast } ⟨g2.nd, g2.lt⟩
      have hfin : ∀ s' : RState, CloseQ { s1 with merging := s1.merging.dropLast } cs' s' → IterE s s' := by
        rintro s' ⟨q1, q2, q3, q4, q5⟩
        have hnil : s'.handles = [] := handles_nil_of_closed g4 q4 q5
        refine ⟨g1.trans ⟨q1.files, q1.fds, q1.paths, q1.fdsReg, q1.stash, q1.contents, q1.nextId⟩,
          ⟨hnil ▸ List.nodup_nil, by rw [hnil]; intro x hx; cases hx⟩, ?_⟩
        intro h hh; rw [hnil] at hh; cases hh
      rw [exec_bind]
      rcases hy : exec (closeCursors cs') { s1 with merging := s1.merging.dropLast } with ⟨r2, s2⟩
      rw [hy] at hcc
      cases r2 with
      | ok _ =>
        obtain ⟨k1, k2, k3⟩ := hcc
        simp only [exec_pure]
        refine Outcome.ok (k1.trans h1) (k2.trans h2) ⟨hfin s2 k3, ?_⟩
        intro all hall hn hlen
        obtain ⟨m1, m2, _⟩ := g5 all hall hn (by omega)
        exact m1.final m2
      | error e =>
        obtain ⟨k1, rfl, k2, k3, k4⟩ := hcc
        exact Outcome.err (k1.trans h1) ⟨h2 ▸ k2.1, h1 ▸ k2.2⟩ k3 (hfin s2 k4)
  | error e =>
    obtain ⟨h1, rfl, hf, h3, g1, g2, cs', g3, g4⟩ := hml
    simp only []
    rw [exec_bind, exec_get]
    simp only []
    rw [exec_bind, exec_modify]
    simp only []
    have hcur : (s1.merging.getLast?).getD cs = cs' := by rw [g3]; rfl
    rw [hcur]
    obtain ⟨s2, k1, k2, k3, q1, q2, q3, q4, q5⟩ :=
      catchAll_fired (closeCursors_spec cs' { s1 with merging := s1.merging.dropLast } ⟨g2.nd, g2.lt⟩) h3
    rw [exec_bind_ok k1, exec_throw]
    have hnil : s2.handles = [] := handles_nil_of_closed g4 q4 q5
    refine Outcome.err (k2.trans h1) hf k3
      ⟨g1.trans ⟨q1.files, q1.fds, q1.paths, q1.fdsReg, q1.stash, q1.contents, q1.nextId⟩,
       ⟨hnil ▸ List.nodup_nil, by rw [hnil]; intro x hx; cases hx⟩, ?_⟩
    intro h hh; rw [hnil] at hh; cases hh


theorem lookup_files (contents : List (Nat × List Nat)) (hnd : (contents.map (·.1)).Nodup) :
    (contents.map (·.1)).map (fun p => ((contents.find? (fun q => q.1 == p)).map (·.2)).getD []) =
      contents.map (·.2) := by
  induction contents with
  | nil => rfl
  | cons a l ih =>
    rw [List.map_cons, List.nodup_cons] at hnd
    simp only [List.map_cons, List.find?_cons_of_pos, beq_self_eq_true, Option.map_some, Option.getD_some,
      List.cons.injEq, true_and]
    rw [← ih hnd.2]
    apply List.map_congr_left
    intro p hp
    have : (a.1 == p) = false := by
      rw [beq_eq_false_iff_ne]; rintro rfl; exact hnd.1 hp
    rw [List.find?_cons_of_neg (by simp [this])]

def IterQ (s : RState) (limit : Option Nat) (out : List Nat) (s' : RState) : Prop :=
  WF s' ∧ HInv s' ∧ Cov s' ∧ ∀ all, DInv s all → limit = none → out = all.mergeSort (fun a b => a ≤ b)
def IterE' (s' : RState) : Prop := WF s' ∧ HInv s' ∧ Cov s'

theorem iterate_spec (limit : Option Nat) (s : RState) (hw : WF s) (hh : s.handles = [])
    (hm : s.merging = []) : Outcome s (exec (iterate limit) s) (IterQ s limit) IterE' := by
  have hnilI : ∀ s' : RState, s'.handles = [] → HInv s' ∧ Cov s' := by
    intro s' h
    refine ⟨⟨h ▸ List.nodup_nil, by rw [h]; intro x hx; cases hx⟩, ?_⟩
    intro x hx; rw [h] at hx; cases hx
  rw [iterate_eq, exec_bind, exec_get]
  simp only []
  split
  · refine Outcome.bind ((spill_spec s hw hh).mono (fun _ _ h => h) ?_) ?_
    · rintro s' ⟨g1, g2, _⟩
      exact ⟨g1, (hnilI s' g2).1, (hnilI s' g2).2⟩
    rintro _ s1 ⟨g1, g2, g3, g4, g5⟩ _ _
    rw [exec_bind, exec_get]
    simp only []
    have hi1 := (hnilI s1 g2).1
    have hopen := openAll_spec
      (s1.paths.map (fun p => ((s1.contents.find? (fun q => q.1 == p)).map (·.2)).getD [])) [] s1 hi1
      (by rw [g2]; intro h hh; cases hh)
    refine Outcome.bind (hopen.mono (fun _ _ h => h) ?_) ?_
    · rintro s' ⟨q1, q2, q3, q4⟩
      exact ⟨g1.fr q1, q3, (hnilI s' q4).2⟩
    rintro cs s2 ⟨q1, q2, q3, q4, q5⟩ _ _
    rw [exec_bind, exec_modify]
    simp only []
    have hm2 : s2.merging ++ [cs] = [cs] := by rw [q2, g3, hm]; rfl
    rw [hm2]
    refine (iterTail_spec limit cs _ _ ?_ ?_ ?_).mono ?_ ?_
    · exact ⟨q3.nd, q3.lt⟩
    · rfl
    · exact q4
    · rintro out s' ⟨⟨k1, k2, k3⟩, k4⟩
      refine ⟨g1.fr (q1.trans ⟨k1.files, k1.fds, k1.paths, k1.fdsReg, k1.stash, k1.contents, k1.nextId⟩), k2, k3, ?_⟩
      intro all hd hn
      have hd1 := g5 all hd
      have hfiles : s1.paths.map (fun p => ((s1.contents.find? (fun q => q.1 == p)).map (·.2)).getD []) =
          s1.contents.map (·.2) := by
        have := lookup_files s1.contents (by rw [hd1.keys]; exact g1.pathsNd)
        rw [hd1.keys] at this; exact this
      rw [hfiles] at q5 k4
      simp only [List.map_nil, List.nil_append] at q5
      have hinit : MInv (s1.contents.map (·.2)).flatten cs [] := by
        refine MInv.init ?_ q5
        intro l hl
        obtain ⟨p, hp, rfl⟩ := List.mem_map.1 hl
        exact hd1.sorted p hp
      have hlen : (cs.flatMap pending).length ≤ ((s1.contents.map (·.2)).map List.length).sum := by
        rw [List.flatMap_def, q5, List.length_flatten]
        exact Nat.le_refl _
      rw [k4 _ hinit hn hlen]
      apply mergeSort_perm_eq
      have hp := hd1.perm
      rw [g4, List.append_nil, List.flatMap_def] at hp
      exact hp
    · rintro s' ⟨k1, k2, k3⟩
      exact ⟨g1.fr (q1.trans ⟨k1.files, k1.fds, k1.paths, k1.fdsReg, k1.stash, k1.contents, k1.nextId⟩), k2, k3⟩
  · rename_i hc
    rw [exec_pure]
    refine Outcome.ok rfl rfl ⟨hw, (hnilI s hh).1, (hnilI s hh).2, ?_⟩
    intro all hd hn
    subst hn
    simp only []
    apply mergeSort_perm_eq
    have hp : s.paths = [] := by
      simp only [Bool.or_eq_true, Bool.not_eq_true', not_or, Bool.not_eq_true] at hc
      simpa using hc.1
    have hcn : s.contents = [] := by
      have := hd.keys; rw [hp] at this; simpa using this
    have := hd.perm
    rw [hcn] at this
    simpa using this


end ResourceLemmas
