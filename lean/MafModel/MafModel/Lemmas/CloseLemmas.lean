/-
  Lemmas behind C06, the sorting path: every line `Writer.close` emits is accepted by a
  Strict reader.  A queued (validated) record is rendered, re-read in Strict mode by the
  sorter's codec, and the record read is rendered and emitted; the values of that record come
  from parsing, so `Lemmas/Render.lean` (the fixpoint lemmas of C04) applies to each field.
-/
import MafModel.Lemmas.WriterLemmas
open Py
namespace Model

/-! ### what a successful Strict `from_line` returns -/

/-- a Strict `from_line` that returns: the line has one field per column, every field is
    accepted by the class of its column, and slot `i` of the record holds the column built
    from field `i` -/
theorem fromLine_strict_ok_shape {C : Ctx} {S : Scheme} (hS : SchemeOK C S) {line : Text}
    {lineNo : Option Nat} {r' : Record} {logs : List LogRec}
    (h : Record.fromLine C line none (some S) lineNo (some .strict) = .ok (r', logs)) :
    (fieldsOf line).length = S.size ∧ logs = [] ∧ r'.errors = [] ∧ r'.slots.length = S.size ∧
    ∀ i, i < S.size → ∃ n cls sp f v, S.cols[i]? = some (n, cls) ∧ (fieldsOf line)[i]? = some f ∧
      resolveSpec C.tbl cls = some sp ∧ sp.accept C false f = some v ∧
      r'.slots[i]? = some (some (fieldCol i n cls v)) := by
  by_cases hlen : (fieldsOf line).length = S.size
  · rw [fromLine_spec hS line lineNo (some .strict) hlen] at h
    simp only [modeOrSilent] at h
    cases hp : processErrors .strict (specFinal C S (fieldsOf line) lineNo .strict).errors with
    | error e => rw [hp] at h; cases h
    | ok lg =>
      rw [hp] at h
      simp only [Except.ok.injEq, Prod.mk.injEq] at h
      obtain ⟨hr, hl⟩ := h
      obtain ⟨herr, hlg⟩ := processErrors_strict_ok hp
      subst hr; subst hl
      refine ⟨hlen, hlg, herr, ?_⟩
      simp only [specFinal, specRec, List.append_eq_nil_iff, List.flatMap_eq_nil_iff,
        List.mem_range] at herr
      obtain ⟨herrAt, _⟩ := herr
      have key : ∀ i, i < S.size → ∃ n cls sp f v, S.cols[i]? = some (n, cls) ∧
          (fieldsOf line)[i]? = some f ∧ resolveSpec C.tbl cls = some sp ∧
          sp.accept C false f = some v ∧
          (trimNone (specCols C S (fieldsOf line) S.size))[i]? = some (some (fieldCol i n cls v)) := by
        intro i hi
        have hi' : i < S.cols.length := hi
        have hif : i < (fieldsOf line).length := by rw [hlen]; exact hi
        obtain ⟨⟨n, cls⟩, hp⟩ : ∃ p, S.cols[i]? = some p := ⟨_, List.getElem?_eq_getElem hi'⟩
        obtain ⟨f, hf⟩ : ∃ f, (fieldsOf line)[i]? = some f := ⟨_, List.getElem?_eq_getElem hif⟩
        obtain ⟨sp, hsp, _, _⟩ := hS.cls_ok _ (List.mem_of_getElem? hp)
        simp only at hsp
        have he := herrAt i hi
        rw [errAt_eq hp hf hsp] at he
        cases ha : sp.accept C false f with
        | none => rw [ha] at he; simp at he
        | some v =>
          refine ⟨n, cls, sp, f, v, hp, hf, hsp, ha, ?_⟩
          rw [trimNone_getElem?_some, specCols_getElem? C S _ _ _ hi, colAt_eq hp hf hsp, ha]
          rfl
      refine ⟨?_, key⟩
      show (trimNone (specCols C S (fieldsOf line) S.size)).length = S.size
      apply Nat.le_antisymm
      · have := trimNone_length_le (specCols C S (fieldsOf line) S.size)
        rwa [specCols_length] at this
      · have hpos := hS.pos
        obtain ⟨_, _, _, _, _, _, _, _, _, hget⟩ := key (S.size - 1) (by omega)
        have : S.size - 1 < (trimNone (specCols C S (fieldsOf line) S.size)).length := by
          apply Decidable.byContradiction
          intro hn
          rw [List.getElem?_eq_none (by omega)] at hget
          cases hget
        omega
  · rw [fromLine_mismatch C S line lineNo (some .strict) hlen] at h
    simp [modeOrSilent, processErrors] at h

/-! ### the rendering of a parsed value -/

theorem singleEmpty_render_accept (C : Ctx) (v : PyVal) (h : Render.SingleEmpty C.enums v) :
    Expected.SequenceOfNullableYesOrNo.render C.enums v = .ok [] ∧
    (Expected.SequenceOfNullableYesOrNo.accept C false []).isSome = true := by
  constructor
  · apply Classical.byContradiction
    intro hne
    exact Render.not_singleEmpty_of_render C.enums Expected.SequenceOfNullableYesOrNo v rfl rfl hne h
  · rfl

/-- **the rendering of a value obtained by parsing a clean field** is a clean field that the
    same class accepts (C04 gives: with the same value — except for the one-element list
    `[Null]` of yes/no values, whose rendering `""` is accepted as the empty list) -/
theorem parsed_render_accepted {C : Ctx} (hH : Render.FloatHost.Lawful' C.H)
    (hE : Render.EnumsOK C.enums) {cls : String} {sp : ColSpec}
    (hsp : resolveSpec C.tbl cls = some sp) (hty : ClassTyped C cls)
    {f : Text} {v : PyVal} (hclean : Render.FieldClean f) (ha : sp.accept C false f = some v) :
    ∃ t', sp.render C.enums v = .ok t' ∧ Render.FieldClean t' ∧
      (sp.accept C false t').isSome = true := by
  obtain ⟨ty, hty⟩ := hty
  rw [hsp] at hty
  simp only [Option.map_some] at hty
  have ha' : sp.erase.accept C false f = some v := by rw [Builtin.accept_erase]; exact ha
  by_cases hse : ty = .named "SequenceOfNullableYesOrNo" ∧ Render.SingleEmpty C.enums v
  · obtain ⟨hty', hse⟩ := hse
    subst hty'
    have hexp : sp.erase = Expected.SequenceOfNullableYesOrNo := by
      have : Builtin.expectedOf (.named "SequenceOfNullableYesOrNo")
          = some Expected.SequenceOfNullableYesOrNo := by decide
      rw [this] at hty
      exact Option.some.inj hty
    obtain ⟨h1, h2⟩ := singleEmpty_render_accept C v hse
    refine ⟨[], ?_, Render.fieldClean_nil, ?_⟩
    · rw [← ColSpec.render_erase, hexp]; exact h1
    · rw [← Builtin.accept_erase, hexp]; exact h2
  · obtain ⟨t', hr, hc, hacc, _⟩ := Render.fix_all C hH hE ty sp.erase hty.symm f v hclean ha'
      (fun e hs => hse ⟨e, hs⟩)
    refine ⟨t', ?_, hc, ?_⟩
    · rw [← ColSpec.render_erase]; exact hr
    · rw [← Builtin.accept_erase, hacc]; rfl

/-! ### one record through the sorter's codec -/

theorem fieldCol_render (C : Ctx) (i : Nat) (n cls : String) (v : PyVal) {sp : ColSpec}
    (hsp : resolveSpec C.tbl cls = some sp) :
    (fieldCol i n cls v).col.render C = sp.render C.enums v := by
  simp [fieldCol, Column.render, hsp]

/-- the rendering of a record that passed Strict validation: `S.size` clean fields -/
theorem Record.render_of_validated {C : Ctx} {r : Record} {S : Scheme} (hS : S.truthy = true)
    {logs : List LogRec} (hv : (r.validate C (some .strict) true (some S)).2 = .ok logs)
    {t : Text} (ht : r.render C = .ok t) :
    ∃ fields : List Text, t = joinWith '\t' fields ∧ fields.length = S.size ∧
      ∀ f ∈ fields, hasFieldSep f = false := by
  obtain ⟨_, _, hlen, _, hcols⟩ := Record.validate_strict_ok hS hv
  obtain ⟨fields, hjoin, hfl, hfi⟩ := Record.render_ok_fields ht
  refine ⟨fields, hjoin, by omega, ?_⟩
  intro f hf
  obtain ⟨i, hi⟩ := List.mem_iff_getElem?.1 hf
  have hlt : i < S.size := by
    by_cases hlt : i < fields.length
    · omega
    · rw [List.getElem?_eq_none (by omega)] at hi; cases hi
  obtain ⟨c, hc, hvalid⟩ := hcols i hlt
  obtain ⟨f', hf', hcf⟩ := hfi i c hc
  rw [hi] at hf'; cases hf'
  exact hvalid.framed f hcf

theorem fieldsOf_join {fields : List Text} (hne : fields ≠ [])
    (hclean : ∀ f ∈ fields, hasFieldSep f = false) :
    fieldsOf (joinWith '\t' fields) = fields := by
  have hcl : ∀ c ∈ joinWith '\t' fields, c ≠ '\r' ∧ c ≠ '\n' :=
    joinWith_tab_clean fields (fun f hf c hc =>
      ⟨(hasFieldSep_eq_false.1 (hclean f hf) c hc).2.2, (hasFieldSep_eq_false.1 (hclean f hf) c hc).2.1⟩)
  unfold fieldsOf
  rw [rstripCRLF_of_clean _ hcl]
  exact splitOn_tab_join fields hne (fun f hf hc => (hasFieldSep_eq_false.1 (hclean f hf) _ hc).1 rfl)

/-- **the sorter's codec, one record.**  A record that passed Strict validation against `S` is
    rendered; the rendering is re-read in Strict mode; the record read is rendered: the
    resulting line is accepted by a Strict reader (with or without the line terminator) -/
theorem recode_line_accepted {C : Ctx} {S : Scheme} (hSok : SchemeOK C S)
    (htyped : ∀ p ∈ S.cols, ClassTyped C p.2)
    (hH : Render.FloatHost.Lawful' C.H) (hE : Render.EnumsOK C.enums)
    {r r' : Record} {logs lg : List LogRec} {t t' : Text}
    (hv : (r.validate C (some .strict) true (some S)).2 = .ok logs)
    (ht : r.render C = .ok t)
    (hread : Record.fromLine C t none (some S) none (some .strict) = .ok (r', lg))
    (ht' : r'.render C = .ok t') (lineNo : Option Nat) :
    (∃ r'', Record.fromLine C (t' ++ ['\n']) none (some S) lineNo (some .strict) = .ok (r'', [])
        ∧ r''.errors = []) ∧
    (∃ r'', Record.fromLine C t' none (some S) lineNo (some .strict) = .ok (r'', [])
        ∧ r''.errors = []) := by
  have hS : S.truthy = true := by simp [Scheme.truthy, hSok.pos]
  obtain ⟨fields, hjoin, hfl, hfclean⟩ := Record.render_of_validated hS hv ht
  have hne : fields ≠ [] := by
    intro e; have := hSok.pos; rw [e] at hfl; simp at hfl; omega
  have hfo : fieldsOf t = fields := by rw [hjoin]; exact fieldsOf_join hne hfclean
  obtain ⟨_, _, _, hslen, hslots⟩ := fromLine_strict_ok_shape hSok hread
  rw [hfo] at hslots
  obtain ⟨fields', hjoin', hfl', hfi'⟩ := Record.render_ok_fields ht'
  -- every field of the second rendering is clean and accepted
  have hfield : ∀ (i : Nat) (n cls : String) (sp : ColSpec) (f' : Text),
      S.cols[i]? = some (n, cls) → resolveSpec C.tbl cls = some sp → fields'[i]? = some f' →
      hasFieldSep f' = false ∧ (sp.accept C false f').isSome = true := by
    intro i n cls sp f' hp hsp hf'
    have hlt : i < S.size := by
      by_cases hlt : i < S.cols.length
      · exact hlt
      · rw [List.getElem?_eq_none (by omega)] at hp; cases hp
    obtain ⟨n', cls', sp', f, v, hp', hf, hsp', hacc, hslot⟩ := hslots i hlt
    rw [hp] at hp'
    simp only [Option.some.injEq, Prod.mk.injEq] at hp'
    obtain ⟨rfl, rfl⟩ := hp'
    rw [hsp] at hsp'; cases hsp'
    obtain ⟨g, hg, hren⟩ := hfi' i _ hslot
    rw [hf'] at hg; cases hg
    rw [fieldCol_render C i n cls v hsp] at hren
    have hfc : Render.FieldClean f := hasFieldSep_eq_false.1 (hfclean f (List.mem_of_getElem? hf))
    obtain ⟨t2, hr2, hc2, ha2⟩ := parsed_render_accepted hH hE hsp
      (htyped _ (List.mem_of_getElem? hp)) hfc hacc
    rw [hren] at hr2; cases hr2
    exact ⟨hasFieldSep_eq_false.2 hc2, ha2⟩
  have hlen' : fields'.length = S.size := by omega
  have hclean' : ∀ f ∈ fields', hasFieldSep f = false := by
    intro f hf
    obtain ⟨i, hi⟩ := List.mem_iff_getElem?.1 hf
    have hlt : i < S.cols.length := by
      by_cases hlt : i < fields'.length
      · have : S.cols.length = S.size := rfl
        omega
      · rw [List.getElem?_eq_none (by omega)] at hi; cases hi
    obtain ⟨⟨n, cls⟩, hp⟩ : ∃ p, S.cols[i]? = some p := ⟨_, List.getElem?_eq_getElem hlt⟩
    obtain ⟨sp, hsp, _, _⟩ := hSok.cls_ok _ (List.mem_of_getElem? hp)
    exact (hfield i n cls sp f hp hsp hi).1
  have hall' : ∀ (i : Nat) (n cls : String) (sp : ColSpec) (f : Text),
      S.cols[i]? = some (n, cls) → resolveSpec C.tbl cls = some sp → fields'[i]? = some f →
      (sp.accept C false f).isSome = true :=
    fun i n cls sp f hp hsp hf => (hfield i n cls sp f hp hsp hf).2
  rw [hjoin']
  constructor
  · obtain ⟨r'', h1, h2, _⟩ := fromLine_strict_accepts hSok fields' hlen' hclean' hall' lineNo ['\n']
      (Or.inr (Or.inl rfl))
    exact ⟨r'', h1, h2⟩
  · obtain ⟨r'', h1, h2, _⟩ := fromLine_strict_accepts hSok fields' hlen' hclean' hall' lineNo []
      (Or.inl rfl)
    rw [List.append_nil] at h1
    exact ⟨r'', h1, h2⟩

/-! ### the column names the codec uses -/

/-- the keys of a record that passed Strict validation against `S` are the names of `S` -/
theorem Record.keys_of_validated {C : Ctx} {r : Record} {S : Scheme} (hS : S.truthy = true)
    {logs : List LogRec} (hv : (r.validate C (some .strict) true (some S)).2 = .ok logs) :
    r.keys = S.names.map (fun n => some n.toList) := by
  obtain ⟨_, _, hlen, _, hcols⟩ := Record.validate_strict_ok hS hv
  apply List.ext_getElem?
  intro i
  by_cases hi : i < S.size
  · obtain ⟨c, hc, hvalid⟩ := hcols i hi
    obtain ⟨n, cls, hp, hk, _⟩ := hvalid.pos
    simp [Record.keys, List.getElem?_map, hc, Scheme.names, hp, hk]
  · have h1 : r.slots.length ≤ i := by omega
    have h2 : S.cols.length ≤ i := by have : S.cols.length = S.size := rfl; omega
    simp [Record.keys, Scheme.names, List.getElem?_map, List.getElem?_eq_none h1,
      List.getElem?_eq_none h2]

/-- `from_line` with the column names of the scheme given explicitly is `from_line` with the
    names taken from the scheme -/
theorem fromLine_names_of_scheme (C : Ctx) (t : Text) (S : Scheme) (ln : Option Nat)
    (m : Option Mode) :
    Record.fromLine C t (some (S.names.map String.toList)) (some S) ln m =
      Record.fromLine C t none (some S) ln m := rfl

theorem forall₂_mem_right {α β} {R : α → β → Prop} {as : List α} {bs : List β}
    (h : List.Forall₂ R as bs) {b : β} (hb : b ∈ bs) : ∃ a ∈ as, R a b := by
  induction h with
  | nil => cases hb
  | cons hab _ ih =>
    rcases List.mem_cons.1 hb with rfl | hb
    · exact ⟨_, by simp, hab⟩
    · obtain ⟨a, ha, hr⟩ := ih hb
      exact ⟨a, by simp [ha], hr⟩

/-- **every line `close` emits is accepted by a Strict reader** (the sorting path): for a
    sorting Strict writer whose queued records all passed Strict validation against the
    scheme — which is how `writer += record` queues them, see `Writer.write_queue_validated` -/
theorem Writer.close_lines_accepted {C : Ctx} {K : HConsts} {w : Writer} {S : Scheme}
    (hSok : SchemeOK C S) (htyped : ∀ p ∈ S.cols, ClassTyped C p.2)
    (hH : Render.FloatHost.Lawful' C.H) (hE : Render.EnumsOK C.enums)
    (hs : w.scheme = some S) (hsort : w.sorting = true)
    (hq : ∀ r ∈ w.queued, ∃ logs, (r.validate C (some .strict) true (some S)).2 = .ok logs)
    {lines : List Text} (hout : (w.close C K).1.out = w.out ++ lines) (lineNo : Option Nat) :
    ∀ l ∈ lines, ∃ r', Record.fromLine C l none (some S) lineNo (some .strict) = .ok (r', []) ∧
      r'.errors = [] := by
  have hS : S.truthy = true := by simp [Scheme.truthy, hSok.pos]
  obtain ⟨items, lines', hout', hperm, hall, _⟩ := (Writer.close_spec C K w).2 hsort
  have hl : lines' = lines := by
    rw [hout'] at hout
    exact List.append_cancel_left hout
  subst hl
  intro l hl
  obtain ⟨kr, hkr, t, r', lg, t', ht, hread, ht', hlt⟩ := forall₂_mem_right hall hl
  have hkr' : kr ∈ items := List.mem_of_mem_take hkr
  have hmem : kr.2 ∈ w.queued := by
    have := hperm.mem_iff.1 hkr'
    simp only [List.mem_filterMap] at this
    obtain ⟨r, hr, hk⟩ := this
    split at hk
    · simp only [Option.some.injEq] at hk; rw [← hk]; exact hr
    · cases hk
  obtain ⟨logs, hv⟩ := hq _ hmem
  -- the codec's column names are the names of the scheme
  obtain ⟨r0, rest, hq0⟩ : ∃ r0 rest, w.queued = r0 :: rest := by
    cases hqq : w.queued with
    | nil => rw [hqq] at hmem; cases hmem
    | cons r0 rest => exact ⟨r0, rest, rfl⟩
  obtain ⟨logs0, hv0⟩ := hq r0 (by rw [hq0]; simp)
  generalize hnm : Option.map _ w.queued.head? = nm at hread
  have hnames : nm = some (S.names.map String.toList) := by
    rw [hq0] at hnm
    simp only [List.head?_cons, Option.map_some, Record.keys_of_validated hS hv0, List.map_map] at hnm
    rw [← hnm]
    congr 1
  rw [hnames, hs, fromLine_names_of_scheme] at hread
  rw [hlt]
  exact (recode_line_accepted hSok htyped hH hE hv ht hread ht' lineNo).1

/-- `writer += record` only ever queues records that pass Strict validation against the
    scheme: the invariant that `Writer.close_lines_accepted` assumes -/
theorem Writer.write_queue_validated {C : Ctx} {K : HConsts} {w : Writer} {S : Scheme} (r : Record)
    (hs : w.scheme = some S) (hS : S.truthy = true) (hm : w.mode = .strict)
    (hq : ∀ q ∈ w.queued, ∃ logs, (q.validate C (some .strict) true (some S)).2 = .ok logs) :
    (w.write C K r).1.scheme = some S ∧ (w.write C K r).1.mode = .strict ∧
    (w.write C K r).1.sorting = w.sorting ∧
    ∀ q ∈ (w.write C K r).1.queued,
      ∃ logs, (q.validate C (some .strict) true (some S)).2 = .ok logs := by
  cases hres : (w.write C K r).2 with
  | error e =>
    have := (Writer.write_error hs hS hm hres).1
    rw [this]
    exact ⟨hs, hm, rfl, hq⟩
  | ok u =>
    have hw : w.write C K r = ((w.write C K r).1, .ok ()) := by rw [← hres]
    cases hsort : w.sorting with
    | false =>
      obtain ⟨fields, hw', _⟩ := Writer.write_ok_direct hs hS hm hsort hw
      rw [hw']
      exact ⟨hs, hm, hsort, hq⟩
    | true =>
      rw [Writer.write_of_scheme C K w r hs hS, hm] at hw ⊢
      have hkey := Writer.keyOf_validate C K w r (some .strict) true (some S)
      have hren := Record.render_validate C r (some .strict) true (some S)
      have hval : ∀ lg, (r.validate C (some .strict) true (some S)).2 = .ok lg →
          ((r.validate C (some .strict) true (some S)).1.validate C (some .strict) true (some S)).2
            = .ok lg := fun lg h => h
      generalize r.validate C (some .strict) true (some S) = V at hw hkey hren hval ⊢
      rcases V with ⟨r', (e' | l)⟩
      · simp at hw
      · simp only [hsort, if_true] at hw hkey hren ⊢
        cases hk : w.keyOf K r' with
        | error ek => rw [hk] at hw; simp at hw
        | ok k =>
          cases hr : r'.render C with
          | error er => rw [hk, hr] at hw; simp at hw
          | ok t =>
            simp only
            refine ⟨hs, trivial, trivial, ?_⟩
            intro q hq'
            rcases List.mem_append.1 hq' with hq' | hq'
            · exact hq q hq'
            · simp only [List.mem_singleton] at hq'
              subst hq'
              exact ⟨l, hval l rfl⟩

/-! ### `close` on a queue that is already in key order (used to evaluate examples: `mergeSort`
    does not reduce in the kernel) -/

section sorted
variable {α : Type}

theorem foldl_add_stash (lt : α → α → Bool) (xs : List α) (s : Sorter α)
    (h : s.stash.length + xs.length < s.cap) :
    xs.foldl (Sorter.add lt) s = { s with stash := s.stash ++ xs } := by
  induction xs generalizing s with
  | nil => simp
  | cons x xs ih =>
    simp only [List.length_cons] at h
    have hne : ¬ ((s.stash ++ [x]).length = s.cap) := by simp; omega
    have hadd : Sorter.add lt s x = { s with stash := s.stash ++ [x] } := by
      simp only [Sorter.add]
      rw [if_neg hne]
    rw [List.foldl_cons, hadd, ih _ (by simp; omega)]
    simp

theorem mergeK_single (lt : α → α → Bool) (l : List α) :
    ∀ n, l.length ≤ n → mergeK lt n [l] = l := by
  induction l with
  | nil =>
    intro n _
    cases n with
    | zero => rfl
    | succ n => simp [mergeK, minHead]
  | cons x xs ih =>
    intro n hn
    cases n with
    | zero => simp at hn
    | succ n =>
      simp only [mergeK, minHead]
      have : ([x :: xs] : List (List α)).modify 0 List.tail = [xs] := rfl
      rw [this, ih n (by simpa using hn)]

/-- the sorter returns an input that is already in order unchanged -/
theorem sortAll_of_sorted (lt : α → α → Bool) (cap : Nat) (xs : List α) (hlen : xs.length < cap)
    (hs : xs.Pairwise (fun a b => (!lt b a) = true)) : sortAll lt cap true xs = xs := by
  unfold sortAll
  rw [foldl_add_stash lt xs _ (by simpa using hlen)]
  simp only [List.nil_append, Sorter.iter, Bool.or_true, if_true, Sorter.spill]
  cases xs with
  | nil => simp [totalLen, mergeK]
  | cons x xs =>
    simp only [List.isEmpty_cons, Bool.false_eq_true, if_false, sortChunk]
    rw [List.mergeSort_of_pairwise hs]
    exact mergeK_single lt _ _ (by simp [totalLen])

end sorted

/-- the comparison `close` sorts with -/
def closeLt (a b : Key × Record) : Bool :=
  match keyLt a.1 b.1 with | .ok true => true | _ => false

/-- the queued records that can be keyed, with their keys -/
def keyedOf (K : HConsts) (w : Writer) : List (Key × Record) :=
  w.queued.filterMap (fun r => match w.keyOf K r with | .ok k => some (k, r) | .error _ => none)

/-- the column names the sorter's codec uses -/
def codecNamesOf (w : Writer) : Option (List Text) :=
  w.queued.head?.map (fun r =>
    r.keys.map (fun k => match k with | some t => t | none => "\x00<None>".toList))

/-- `close` of a sorting writer whose queue is already in key order: the queue is drained as it is -/
theorem Writer.close_of_sorted (C : Ctx) (K : HConsts) (w : Writer) (hsort : w.sorting = true)
    (hlen : (keyedOf K w).length < 10000)
    (hpw : (keyedOf K w).Pairwise (fun a b => (!closeLt b a) = true)) :
    w.close C K = Writer.close.drain C (codecNamesOf w) w (keyedOf K w) := by
  have h := sortAll_of_sorted closeLt 10000 (keyedOf K w) hlen hpw
  unfold Writer.close
  simp only [hsort, Bool.not_true, Bool.false_eq_true, if_false]
  exact congrArg (Writer.close.drain C (codecNamesOf w) w) h

end Model
