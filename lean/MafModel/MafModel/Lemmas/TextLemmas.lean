/-
  Text round trips used by the record reader/writer properties:
  line splitting vs. line joining, TAB split/join, CR/LF stripping, ASCII case maps.
  (Supports properties C04, C02, C13.)
-/
import MafModel.Py.Text
namespace Py

/-! ### `rstrip("\r\n")` -/

/-- A text with no CR/LF is untouched by `rstrip("\r\n")`. -/
theorem rstripCRLF_of_clean (s : Text) (h : ∀ c ∈ s, c ≠ '\r' ∧ c ≠ '\n') :
    rstripCRLF s = s := by
  apply rstripChars_of_all_not
  intro c hc
  have := h c hc
  simp [isCRLF, this.1, this.2]

/-- `rstrip("\r\n")` removes one appended line terminator (`\n`, `\r\n` or `\r`)
    when the line itself does not end in CR/LF. -/
theorem rstripChars_append_all (p : Char → Bool) (s t : Text)
    (hs : ∀ c, s.getLast? = some c → p c = false) (ht : ∀ c ∈ t, p c = true) :
    rstripChars p (s ++ t) = s := by
  unfold rstripChars
  rw [List.reverse_append]
  have h1 : ∀ (r : Text), (∀ c ∈ r, p c = true) → ∀ u : Text, (r ++ u).dropWhile p = u.dropWhile p := by
    intro r hr u
    induction r with
    | nil => rfl
    | cons c cs ih =>
      simp only [List.cons_append, List.dropWhile_cons, hr c (by simp), if_true]
      exact ih (fun d hd => hr d (by simp [hd]))
  rw [h1 _ (fun c hc => ht c (by simpa using hc))]
  exact rstripChars_of_not_last p s hs

theorem rstripCRLF_append_lf (s : Text) (h : ∀ c ∈ s, c ≠ '\r' ∧ c ≠ '\n') :
    rstripCRLF (s ++ ['\n']) = s ∧ rstripCRLF (s ++ ['\r', '\n']) = s ∧
      rstripCRLF (s ++ ['\r']) = s := by
  have hs : ∀ c, s.getLast? = some c → isCRLF c = false := by
    intro c hc
    have := h c (List.mem_of_getLast? hc)
    simp [isCRLF, this.1, this.2]
  refine ⟨?_, ?_, ?_⟩ <;> apply rstripChars_append_all _ _ _ hs <;> decide

/-! ### `textLines` (universal-newline reading) -/

theorem textLines_eq_go (s : Text) : textLines s = textLines.go s [] := by
  cases s with
  | nil => simp [textLines, textLines.go]
  | cons c cs => rw [textLines.eq_2 _ (by simp)]

/-- Scanning a CR/LF-free prefix only accumulates it. -/
theorem textLines_go_clean (l rest acc : Text) (h : ∀ c ∈ l, c ≠ '\r' ∧ c ≠ '\n') :
    textLines.go (l ++ rest) acc = textLines.go rest (l.reverse ++ acc) := by
  induction l generalizing acc with
  | nil => rfl
  | cons c cs ih =>
    have hc := h c (by simp)
    rw [List.cons_append, textLines.go.eq_5 acc c (cs ++ rest) (fun e => hc.2 e)
      (fun _ e _ => hc.1 e) (fun e => hc.1 e), ih _ (fun d hd => h d (by simp [hd]))]
    simp

theorem textLines_go_line_lf (l rest acc : Text) (h : ∀ c ∈ l, c ≠ '\r' ∧ c ≠ '\n') :
    textLines.go (l ++ '\n' :: rest) acc = (acc.reverse ++ l) :: textLines.go rest [] := by
  rw [textLines_go_clean l _ acc h, textLines.go.eq_2]
  simp

theorem textLines_go_line_crlf (l rest acc : Text) (h : ∀ c ∈ l, c ≠ '\r' ∧ c ≠ '\n') :
    textLines.go (l ++ '\r' :: '\n' :: rest) acc = (acc.reverse ++ l) :: textLines.go rest [] := by
  rw [textLines_go_clean l _ acc h, textLines.go.eq_3]
  simp

/-- Every line terminated by `\n`: reading gives back exactly the lines (empty lines
    included; `textLines` has no special case here because every line, also the last,
    carries its terminator). -/
theorem textLines_join (ls : List Text) (h : ∀ l ∈ ls, ∀ c ∈ l, c ≠ '\r' ∧ c ≠ '\n') :
    textLines (ls.flatMap (fun l => l ++ ['\n'])) = ls := by
  rw [textLines_eq_go]
  induction ls with
  | nil => simp [textLines.go]
  | cons l r ih =>
    rw [List.flatMap_cons, List.append_assoc, List.singleton_append,
      textLines_go_line_lf l _ [] (h l (by simp)), ih (fun m hm => h m (by simp [hm]))]
    simp

/-- The same with Windows line ends. -/
theorem textLines_join_crlf (ls : List Text) (h : ∀ l ∈ ls, ∀ c ∈ l, c ≠ '\r' ∧ c ≠ '\n') :
    textLines (ls.flatMap (fun l => l ++ ['\r', '\n'])) = ls := by
  rw [textLines_eq_go]
  induction ls with
  | nil => simp [textLines.go]
  | cons l r ih =>
    rw [List.flatMap_cons, List.append_assoc, List.cons_append, List.cons_append, List.nil_append]
    rw [textLines_go_line_crlf l _ [] (h l (by simp)), ih (fun m hm => h m (by simp [hm]))]
    simp

/-- A final line without terminator is returned iff it is non-empty: this is the one place
    where `textLines` treats the last line specially (`"a\n"` and `"a\n" + ""` are the same
    file, so an unterminated *empty* last line does not exist). -/
theorem textLines_join_unterminated (ls : List Text) (last : Text)
    (h : ∀ l ∈ ls, ∀ c ∈ l, c ≠ '\r' ∧ c ≠ '\n') (hl : ∀ c ∈ last, c ≠ '\r' ∧ c ≠ '\n') :
    textLines (ls.flatMap (fun l => l ++ ['\n']) ++ last) =
      if last = [] then ls else ls ++ [last] := by
  rw [textLines_eq_go]
  induction ls with
  | nil =>
    have := textLines_go_clean last [] [] hl
    simp only [List.append_nil] at this
    simp only [List.flatMap_nil, List.nil_append, this, textLines.go]
    cases last <;> simp
  | cons l r ih =>
    rw [List.flatMap_cons, List.append_assoc, List.append_assoc, List.singleton_append,
      textLines_go_line_lf l _ [] (h l (by simp)), ih (fun m hm => h m (by simp [hm]))]
    split <;> simp

example : textLines "a\tb\n\nc d\n".toList = ["a\tb".toList, [], "c d".toList] :=
  textLines_join ["a\tb".toList, [], "c d".toList] (by decide)

/-! ### TAB split / join -/

/-- Record lines: splitting the TAB-join of TAB-free fields gives the fields back. -/
theorem splitOn_tab_join (fields : List Text) (hne : fields ≠ [])
    (h : ∀ f ∈ fields, '\t' ∉ f) : splitOn '\t' (joinWith '\t' fields) = fields :=
  splitOn_joinWith '\t' fields hne h

example : splitOn '\t' (joinWith '\t' ["chr1".toList, [], "12".toList]) =
    ["chr1".toList, [], "12".toList] :=
  splitOn_tab_join _ (by simp) (by decide)

/-- The characters of a join are the separator or come from an element. -/
theorem mem_joinWith (sep : Char) (xs : List Text) (c : Char) (hc : c ∈ joinWith sep xs) :
    c = sep ∨ ∃ x ∈ xs, c ∈ x := by
  induction xs with
  | nil => simp [joinWith] at hc
  | cons x r ih =>
    cases r with
    | nil => simp only [joinWith] at hc; exact .inr ⟨x, by simp, hc⟩
    | cons y r' =>
      rw [joinWith_cons_cons] at hc
      simp only [List.mem_append, List.mem_cons] at hc
      rcases hc with hc | rfl | hc
      · exact .inr ⟨x, by simp, hc⟩
      · exact .inl rfl
      · rcases ih hc with e | ⟨z, hz, hcz⟩
        · exact .inl e
        · exact .inr ⟨z, by simp [hz], hcz⟩

theorem mem_joinWith_of_mem (sep : Char) (xs : List Text) (x : Text) (c : Char)
    (hx : x ∈ xs) (hc : c ∈ x) : c ∈ joinWith sep xs := by
  induction xs with
  | nil => simp at hx
  | cons y r ih =>
    cases r with
    | nil =>
      simp only [List.mem_singleton] at hx
      subst hx
      simpa [joinWith] using hc
    | cons z r' =>
      rw [joinWith_cons_cons]
      simp only [List.mem_cons] at hx
      rcases hx with rfl | hx
      · simp [hc]
      · have := ih (by simpa using hx)
        simp [this]

/-- A joined record line is free of CR/LF when its fields are. -/
theorem joinWith_tab_clean (fields : List Text)
    (h : ∀ f ∈ fields, ∀ c ∈ f, c ≠ '\r' ∧ c ≠ '\n') :
    ∀ c ∈ joinWith '\t' fields, c ≠ '\r' ∧ c ≠ '\n' := by
  intro c hc
  rcases mem_joinWith _ _ _ hc with rfl | ⟨f, hf, hcf⟩
  · decide
  · exact h f hf c hcf

theorem joinWith_length (sep : Char) (xs : List Text) :
    (joinWith sep xs).length = (xs.map List.length).sum + (xs.length - 1) := by
  induction xs with
  | nil => simp [joinWith]
  | cons x r ih =>
    cases r with
    | nil => simp [joinWith]
    | cons y r' =>
      rw [joinWith_cons_cons, List.length_append, List.length_cons, ih]
      simp only [List.map_cons, List.sum_cons, List.length_cons]
      omega

theorem joinWith_count_sep (sep : Char) (xs : List Text) (h : ∀ x ∈ xs, sep ∉ x) :
    (joinWith sep xs).count sep = xs.length - 1 := by
  induction xs with
  | nil => simp [joinWith]
  | cons x r ih =>
    have hx : x.count sep = 0 := List.count_eq_zero.mpr (h x (by simp))
    cases r with
    | nil => simpa [joinWith] using hx
    | cons y r' =>
      rw [joinWith_cons_cons, List.count_append, List.count_cons_self, hx,
        ih (fun z hz => h z (by simp [hz]))]
      simp

/-- `joinWith` is injective on separator-free, non-empty field lists. -/
theorem joinWith_injective (sep : Char) (xs ys : List Text) (hx : xs ≠ []) (hy : ys ≠ [])
    (h1 : ∀ x ∈ xs, sep ∉ x) (h2 : ∀ y ∈ ys, sep ∉ y)
    (h : joinWith sep xs = joinWith sep ys) : xs = ys := by
  rw [← splitOn_joinWith sep xs hx h1, h, splitOn_joinWith sep ys hy h2]

/-! ### ASCII case maps -/

theorem asciiUpper_ascii : ∀ n, n < 128 →
    (asciiUpper (Char.ofNat n)).toNat < 128 ∧
    asciiUpper (asciiUpper (Char.ofNat n)) = asciiUpper (Char.ofNat n) := by decide

theorem asciiLower_ascii : ∀ n, n < 128 →
    (asciiLower (Char.ofNat n)).toNat < 128 ∧
    asciiLower (asciiLower (Char.ofNat n)) = asciiLower (Char.ofNat n) := by decide

theorem asciiUpper_toNat_lt (c : Char) (h : c.toNat < 128) : (asciiUpper c).toNat < 128 := by
  have := (asciiUpper_ascii c.toNat h).1
  rwa [Char.ofNat_toNat] at this

theorem asciiUpper_idem (c : Char) (h : c.toNat < 128) :
    asciiUpper (asciiUpper c) = asciiUpper c := by
  have := (asciiUpper_ascii c.toNat h).2
  rwa [Char.ofNat_toNat] at this

theorem asciiLower_toNat_lt (c : Char) (h : c.toNat < 128) : (asciiLower c).toNat < 128 := by
  have := (asciiLower_ascii c.toNat h).1
  rwa [Char.ofNat_toNat] at this

theorem asciiLower_idem (c : Char) (h : c.toNat < 128) :
    asciiLower (asciiLower c) = asciiLower c := by
  have := (asciiLower_ascii c.toNat h).2
  rwa [Char.ofNat_toNat] at this

theorem upperChar_of_ascii (c : Char) (h : c.toNat < 128) : upperChar c = [asciiUpper c] := by
  simp [upperChar, h]

theorem lowerChar_of_ascii (c : Char) (h : c.toNat < 128) : lowerChar c = [asciiLower c] := by
  simp [lowerChar, h]

theorem titleChar_of_ascii (c : Char) (h : c.toNat < 128) : titleChar c = [asciiUpper c] := by
  simp [titleChar, h]

/-- `upper` of a pure-ASCII text is the character-wise ASCII map. -/
theorem pyUpper_of_ascii (s : Text) (h : ∀ c ∈ s, c.toNat < 128) : pyUpper s = s.map asciiUpper := by
  induction s with
  | nil => rfl
  | cons c cs ih =>
    have := ih (fun d hd => h d (by simp [hd]))
    unfold pyUpper at this ⊢
    rw [List.flatMap_cons, upperChar_of_ascii c (h c (by simp)), this]
    simp

theorem pyUpper_ascii_isAscii (s : Text) (h : ∀ c ∈ s, c.toNat < 128) :
    ∀ c ∈ pyUpper s, c.toNat < 128 := by
  rw [pyUpper_of_ascii s h]
  intro c hc
  simp only [List.mem_map] at hc
  obtain ⟨d, hd, rfl⟩ := hc
  exact asciiUpper_toNat_lt d (h d hd)

/-- `s.upper().upper() == s.upper()` for pure-ASCII `s`. -/
theorem pyUpper_ascii_idem (s : Text) (h : ∀ c ∈ s, c.toNat < 128) :
    pyUpper (pyUpper s) = pyUpper s := by
  rw [pyUpper_of_ascii _ (pyUpper_ascii_isAscii s h), pyUpper_of_ascii s h, List.map_map]
  apply List.map_congr_left
  intro c hc
  exact asciiUpper_idem c (h c hc)

/-- The `isAscii` boolean of the model is the hypothesis used above. -/
theorem isAscii_iff (s : Text) : isAscii s = true ↔ ∀ c ∈ s, c.toNat < 128 := by
  simp [isAscii, List.all_eq_true]

example : pyUpper (pyUpper "Snp_x".toList) = pyUpper "Snp_x".toList :=
  pyUpper_ascii_idem _ (by decide)

/-- The model's `upperChar` is idempotent on *every* character (the ten special non-ASCII
    code points map to upper-case ASCII letters, all others are fixed). -/
theorem upperChar_idem (c : Char) : (upperChar c).flatMap upperChar = upperChar c := by
  by_cases h : c.toNat < 128
  · rw [upperChar_of_ascii c h]
    simp only [List.flatMap_cons, List.flatMap_nil, List.append_nil]
    rw [upperChar_of_ascii _ (asciiUpper_toNat_lt c h), asciiUpper_idem c h]
  · have key : upperChar c = [c] ∨ upperChar c ∈
        [['S', 'S'], ['I'], ['S'], ['F', 'F'], ['F', 'I'], ['F', 'L'], ['F', 'F', 'I'],
         ['F', 'F', 'L'], ['S', 'T']] := by
      unfold upperChar
      rw [if_neg h]
      split <;> simp
    rcases key with e | e
    · rw [e]; simpa using e
    · simp only [List.mem_cons, List.not_mem_nil, or_false] at e
      rcases e with e | e | e | e | e | e | e | e | e <;> rw [e] <;> decide

/-- `s.upper().upper() == s.upper()` for every text (in the model). -/
theorem pyUpper_idem (s : Text) : pyUpper (pyUpper s) = pyUpper s := by
  unfold pyUpper
  rw [List.flatMap_assoc]
  congr 1
  funext c
  exact upperChar_idem c

/-- `capitalize` of a pure-ASCII text: upper-case the first, lower-case the rest. -/
theorem pyCapitalize_of_ascii (c : Char) (cs : Text) (h : ∀ d ∈ c :: cs, d.toNat < 128) :
    pyCapitalize (c :: cs) = asciiUpper c :: cs.map asciiLower := by
  have hcs : ∀ (l : Text), (∀ d ∈ l, d.toNat < 128) → l.flatMap lowerChar = l.map asciiLower := by
    intro l hl
    induction l with
    | nil => rfl
    | cons d ds ih =>
      rw [List.flatMap_cons, lowerChar_of_ascii d (hl d (by simp)),
        ih (fun e he => hl e (by simp [he]))]
      simp
  simp only [pyCapitalize]
  rw [titleChar_of_ascii c (h c (by simp)), hcs cs (fun d hd => h d (by simp [hd]))]
  simp

/-- `s.capitalize().capitalize() == s.capitalize()` for pure-ASCII `s`. -/
theorem pyCapitalize_ascii_idem (s : Text) (h : ∀ c ∈ s, c.toNat < 128) :
    pyCapitalize (pyCapitalize s) = pyCapitalize s := by
  cases s with
  | nil => rfl
  | cons c cs =>
    have hc := h c (by simp)
    have hcs : ∀ d ∈ cs, d.toNat < 128 := fun d hd => h d (by simp [hd])
    rw [pyCapitalize_of_ascii c cs h]
    rw [pyCapitalize_of_ascii]
    · rw [asciiUpper_idem c hc, List.map_map]
      congr 1
      apply List.map_congr_left
      intro d hd
      exact asciiLower_idem d (hcs d hd)
    · intro d hd
      simp only [List.mem_cons, List.mem_map] at hd
      rcases hd with rfl | ⟨e, he, rfl⟩
      · exact asciiUpper_toNat_lt c hc
      · exact asciiLower_toNat_lt e (hcs e he)

example : pyCapitalize "sNP".toList = "Snp".toList := by
  rw [show "sNP".toList = 's' :: "NP".toList from rfl, pyCapitalize_of_ascii _ _ (by decide)]
  decide

end Py
