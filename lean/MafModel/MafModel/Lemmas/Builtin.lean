/-
  Lemmas behind C01/C04/C05: the resolved record of every column of every
  built-in layout, and field-level acceptance = the flat domain spec.
-/
import MafModel.Lemmas.Accept
import MafModel.Spec.Layout
import MafModel.Generated.ClassTable
import MafModel.Generated.SchemeDefs
import MafModel.Generated.Enums
import MafModel.Generated.Consts
open Model Py Spec

namespace Builtin

/-- the built-in schemes as the model of `build_schemes` produces them from the generated definitions -/
def built : Except PyErr (BuildState × List (String × Scheme)) :=
  buildSchemes { tbl := Generated.classTable, order := Generated.extendClassOrder } Generated.schemeDefs

/-- column types a `RequireNullValue` redefinition may be mixed over in this
    development: their only null spelling is `""` ↦ `None` and building a
    non-empty text never yields the null value -/
def maskable : List String := ["NullableDnaString", "NullableZeroBasedIntegerColumn"]

/-- the resolved class record expected for a specification-level column type -/
def expectedOf : ColType → Option ColSpec
  | .named n => Expected.namedSpec n
  | .mixed extra (.named n) =>
    if extra = "RequireNullValue" ∧ n ∈ maskable then
      (Expected.namedSpec n).map (fun s => { s with validateChain := "RequireNullValue" :: s.validateChain })
    else none
  | .mixed _ (.mixed _ _) => none

def colOK (tbl : ClassTable) (c : String × String) (l : String × ColType) : Bool :=
  c.1 == l.1 && (expectedOf l.2).isSome && ((resolveSpec tbl c.2).map ColSpec.erase == expectedOf l.2)

def schemeOK (tbl : ClassTable) (defs : List SchemeDef) (S : Scheme) : Bool :=
  match layoutOf defs S.annotation with
  | some L => L.length == S.cols.length && (S.cols.zip L).all (fun p => colOK tbl p.1 p.2)
  | none => false

/-- every column of every built-in layout resolves (through the generated class
    table, C3 and the model of scheme building) to the record the field theorems
    are about, at the position the documented layout gives it -/
def builtinsOK : Bool :=
  match built with
  | .ok (st, ss) => ss.length == Generated.schemeDefs.length && ss.all (fun p => schemeOK st.tbl Generated.schemeDefs p.2)
  | .error _ => false

theorem named_mem (n : String) (sp : ColSpec) (h : Expected.namedSpec n = some sp) :
    (n, sp) ∈ Expected.named := by
  unfold Expected.namedSpec at h
  cases hf : List.find? (fun p => p.1 == n) Expected.named with
  | none => simp [hf] at h
  | some p =>
    simp [hf] at h
    have hm := List.mem_of_find?_eq_some hf
    have hp := List.find?_some hf
    simp at hp
    subst h
    cases p with
    | mk a b => simp at hp; subst hp; exact hm

/-- field-level refinement for every named type -/
theorem accept_named (C : Ctx) (n : String) (sp : ColSpec) (t : Text)
    (h : Expected.namedSpec n = some sp) :
    sp.accept C false t = namedBuild ⟨C.enums, C.H⟩ n t := by
  have hm := named_mem n sp h
  simp only [Expected.named, List.mem_cons, Prod.mk.injEq, List.mem_nil_iff, or_false] at hm
  rcases hm with ⟨rfl, rfl⟩ | ⟨rfl, rfl⟩ | ⟨rfl, rfl⟩ | ⟨rfl, rfl⟩ | ⟨rfl, rfl⟩ | ⟨rfl, rfl⟩ | ⟨rfl, rfl⟩ | ⟨rfl, rfl⟩ | ⟨rfl, rfl⟩ | ⟨rfl, rfl⟩ | ⟨rfl, rfl⟩ | ⟨rfl, rfl⟩ | ⟨rfl, rfl⟩ | ⟨rfl, rfl⟩ | ⟨rfl, rfl⟩ | ⟨rfl, rfl⟩ | ⟨rfl, rfl⟩ | ⟨rfl, rfl⟩ | ⟨rfl, rfl⟩ | ⟨rfl, rfl⟩ | ⟨rfl, rfl⟩ | ⟨rfl, rfl⟩ | ⟨rfl, rfl⟩ | ⟨rfl, rfl⟩ | ⟨rfl, rfl⟩ | ⟨rfl, rfl⟩ | ⟨rfl, rfl⟩ | ⟨rfl, rfl⟩ | ⟨rfl, rfl⟩ | ⟨rfl, rfl⟩ | ⟨rfl, rfl⟩ | ⟨rfl, rfl⟩ | ⟨rfl, rfl⟩ | ⟨rfl, rfl⟩ | ⟨rfl, rfl⟩ | ⟨rfl, rfl⟩ | ⟨rfl, rfl⟩ | ⟨rfl, rfl⟩ | ⟨rfl, rfl⟩ | ⟨rfl, rfl⟩
  · exact Accept.accept_NullableStringColumn C t
  · exact Accept.accept_StringColumn C t
  · exact Accept.accept_StringOrIntegerColumn C t
  · exact Accept.accept_StringIntegerOrFloatColumn C t
  · exact Accept.accept_IntegerColumn C t
  · exact Accept.accept_NullableIntegerColumn C t
  · exact Accept.accept_ZeroBasedIntegerColumn C t
  · exact Accept.accept_OneBasedIntegerColumn C t
  · exact Accept.accept_NullableZeroBasedIntegerColumn C t
  · exact Accept.accept_NullableOneBasedIntegerColumn C t
  · exact Accept.accept_EntrezGeneId C t
  · exact Accept.accept_FloatColumn C t
  · exact Accept.accept_NullableFloatColumn C t
  · exact Accept.accept_SequenceOfStrings C t
  · exact Accept.accept_SequenceOfIntegers C t
  · exact Accept.accept_SequenceOfNullableYesOrNo C t
  · exact Accept.accept_SequenceOfSequencers C t
  · exact Accept.accept_NullableDnaString C t
  · exact Accept.accept_DnaString C t
  · exact Accept.accept_Canonical C t
  · exact Accept.accept_BooleanColumn C t
  · exact Accept.accept_UUIDColumn C t
  · exact Accept.accept_NullableUUIDColumn C t
  · exact Accept.accept_TranscriptStrand C t
  · exact Accept.accept_YesNoOrUnknown C t
  · exact Accept.accept_Strand C t
  · exact Accept.accept_VariantClassification C t
  · exact Accept.accept_VariantType C t
  · exact Accept.accept_VariantSupport C t
  · exact Accept.accept_MutationStatus C t
  · exact Accept.accept_Sequencer C t
  · exact Accept.accept_Impact C t
  · exact Accept.accept_MC3Overlap C t
  · exact Accept.accept_GdcValidationStatus C t
  · exact Accept.accept_VerificationStatus C t
  · exact Accept.accept_ValidationStatus C t
  · exact Accept.accept_FeatureType C t
  · exact Accept.accept_NullableYesOrNo C t
  · exact Accept.accept_NullableYOrN C t
  · exact Accept.accept_PickColumn C t

open Accept
set_option linter.unusedSimpArgs false

theorem runBuild_congr (C : Ctx) (sp sp' : ColSpec) (t : Text) (h1 : sp'.buildChain = sp.buildChain)
    (h2 : sp'.elem = sp.elem) (h3 : sp'.enumCls = sp.enumCls) : runBuild C sp' t = runBuild C sp t := by
  simp [runBuild, h1, h2, h3]

/-- redefinition with `RequireNullValue` of a type whose only null spelling is `""` ↦ `None` -/
theorem accept_masked' (C : Ctx) (sp sp' : ColSpec) (t : Text)
    (hb : sp'.buildMethod = some "MafCustomColumnRecord")
    (hv : sp'.validateMethod = some "MafCustomColumnRecord")
    (hn : sp'.nullDict = some [("", NullVal.none)])
    (hvc : sp'.validateChain = "RequireNullValue" :: sp.validateChain)
    (h1 : sp'.buildChain = sp.buildChain) (h2 : sp'.elem = sp.elem) (h3 : sp'.enumCls = sp.enumCls)
    (hnn : ∀ v, t ≠ [] → runBuild C sp t = .ok v → v ≠ .atom .none) :
    sp'.accept C false t = if t = [] then some (.atom .none) else none := by
  rw [accept_eq_custom _ _ _ hb]
  by_cases ht : t = []
  · simp [acceptCustom, hn, ht, ColSpec.valueInvalid, hv, ColSpec.isNullValue, ColSpec.nullValues, NullVal.toPy]
  · simp only [acceptCustom, hn, ht, if_false]
    simp only [Option.bind, List.find?, String.toList_empty, nil_beq, ht, decide_false]
    rw [runBuild_congr C sp sp' t h1 h2 h3]
    cases hr : runBuild C sp t with
    | error e => simp
    | ok v =>
      have hv' := hnn v ht hr
      simp [ColSpec.valueInvalid, hv, ColSpec.isNullValue, ColSpec.nullValues, hn, NullVal.toPy, hvc]
      cases v with
      | atom a => simp; intro h; subst h; exact hv' rfl
      | list xs => simp [PyVal.pyEq]
      | tuple xs => simp [PyVal.pyEq]

theorem accept_masked (C : Ctx) (sp : ColSpec) (t : Text)
    (hb : sp.buildMethod = some "MafCustomColumnRecord")
    (hv : sp.validateMethod = some "MafCustomColumnRecord")
    (hn : sp.nullDict = some [("", NullVal.none)])
    (hnn : ∀ v, t ≠ [] → runBuild C sp t = .ok v → v ≠ .atom .none) :
    ({ sp with validateChain := "RequireNullValue" :: sp.validateChain } : ColSpec).accept C false t
      = if t = [] then some (.atom .none) else none :=
  accept_masked' C sp _ t hb hv hn rfl rfl rfl rfl hnn

theorem accept_mixed (C : Ctx) (n : String) (sp : ColSpec) (t : Text)
    (h : expectedOf (.mixed "RequireNullValue" (.named n)) = some sp) :
    sp.accept C false t = specBuild ⟨C.enums, C.H⟩ (.mixed "RequireNullValue" (.named n)) t := by
  simp only [expectedOf] at h
  split at h
  · rename_i hc
    have hmem := hc.2
    simp only [maskable, List.mem_cons, List.mem_nil_iff, or_false] at hmem
    rcases hmem with rfl | rfl
    · -- NullableDnaString
      have he : Expected.namedSpec "NullableDnaString" = some Expected.NullableDnaString := by decide
      rw [he] at h; simp at h; subst h
      rw [accept_masked C Expected.NullableDnaString t rfl rfl rfl (by
        intro v ht hr; simp [runBuild, Expected.NullableDnaString, Except.map] at hr; subst hr; simp)]
      by_cases ht : t = [] <;> simp [specBuild, namedBuild, nullOr, namedNulls, baseName, ht, lookupName, capEnums]
      split <;> simp
    · have he : Expected.namedSpec "NullableZeroBasedIntegerColumn" = some Expected.NullableZeroBasedIntegerColumn := by decide
      rw [he] at h; simp at h; subst h
      rw [accept_masked C Expected.NullableZeroBasedIntegerColumn t rfl rfl rfl (by
        intro v ht hr
        simp [runBuild, Expected.NullableZeroBasedIntegerColumn, Except.map, bInt] at hr
        cases hp : pyInt t <;> simp [hp] at hr
        subst hr; simp)]
      by_cases ht : t = [] <;> simp [specBuild, namedBuild, nullOr, namedNulls, baseName, ht, lookupName, capEnums, intAtLeast]
      split <;> simp
  · simp at h

/-- acceptance does not depend on the identity of the class, only on what
    method resolution decided -/
theorem accept_erase (C : Ctx) (sp : ColSpec) (b : Bool) (t : Text) :
    sp.erase.accept C b t = sp.accept C b t := by
  simp [ColSpec.accept, ColSpec.erase, ColSpec.buildValue, runBuild, ColSpec.valueInvalid,
    ColSpec.isNullValue, ColSpec.nullValues, ColSpec.elemInvalid]

/-- **Field-level refinement.**  For every specification-level column type the
    development covers, the operational acceptance of a text equals the typed
    value the flat specification says the text denotes. -/
theorem field_accept (C : Ctx) (ty : ColType) (sp : ColSpec) (t : Text)
    (h : expectedOf ty = some sp) :
    sp.accept C false t = specBuild ⟨C.enums, C.H⟩ ty t := by
  cases ty with
  | named n =>
    simp only [expectedOf] at h
    simp only [specBuild]
    exact accept_named C n sp t h
  | mixed extra b =>
    cases b with
    | named n =>
      have hx : extra = "RequireNullValue" := by
        simp only [expectedOf] at h
        split at h
        · rename_i hc; exact hc.1
        · simp at h
      subst hx
      exact accept_mixed C n sp t h
    | mixed e2 b2 => simp [expectedOf] at h

end Builtin
