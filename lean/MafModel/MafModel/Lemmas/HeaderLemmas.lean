/-
  Header lines: helper lemmas for property C13
  (`HRec.fromLine`, `Header.get`/`set`, `Header.parseLines`, `Header.applyContigs`).
-/
import MafModel.Model.Header
import MafModel.Lemmas.TextLemmas
open Py
namespace Model

/-- results of `fromLine` / `validate` can be compared by `decide` (for the examples) -/
instance instDecidableEqExceptHeader {ε α} [DecidableEq ε] [DecidableEq α] :
    DecidableEq (Except ε α)
  | .ok a, .ok b => if h : a = b then isTrue (by rw [h]) else isFalse (fun e => h (by cases e; rfl))
  | .error a, .error b =>
    if h : a = b then isTrue (by rw [h]) else isFalse (fun e => h (by cases e; rfl))
  | .ok _, .error _ => isFalse (fun e => by cases e)
  | .error _, .ok _ => isFalse (fun e => by cases e)

/-! ## well-formed header constants -/

/-- The four special keys of a header. -/
def HConsts.specialKeys (K : HConsts) : List Text :=
  [K.versionKey, K.annotationKey, K.sortOrderKey, K.contigKey]

/-- Well-formed constants: the four special keys are pairwise distinct and contain no blank;
    the sort-order name table is consistent with `Order.name` (looking a listed name up gives an
    order that prints as exactly that name). -/
structure HConsts.WF (K : HConsts) : Prop where
  keys_distinct : K.specialKeys.Pairwise (· ≠ ·)
  keys_noblank : ∀ k ∈ K.specialKeys, ' ' ∉ k
  names_faithful : ∀ p ∈ K.sortOrders, ∀ o ∈ orderOfName K p.1, o.name = p.1

/-- the real constants of `maflib/header.py` / `maflib/sort_order.py` -/
def K0 : HConsts :=
  { versionKey := "version".toList, annotationKey := "annotation.spec".toList,
    sortOrderKey := "sort.order".toList, contigKey := "contigs".toList,
    startSymbol := '#',
    sortOrders := [("Unknown".toList, false, false), ("Unsorted".toList, false, false),
      ("BarcodesAndCoordinate".toList, true, true), ("Coordinate".toList, true, false)] }

theorem K0_WF : K0.WF := ⟨by decide, by decide, by decide⟩

/-- the names of the real sort orders are pairwise distinct (not needed by any theorem) -/
theorem K0_names_distinct : (K0.sortOrders.map (·.1)).Pairwise (· ≠ ·) := by decide

namespace HConsts.WF
variable {K : HConsts} (W : K.WF)
include W

theorem version_ne_sort : K.versionKey ≠ K.sortOrderKey := by
  have := W.keys_distinct; simp [HConsts.specialKeys] at this; exact this.1.2.1
theorem version_ne_contig : K.versionKey ≠ K.contigKey := by
  have := W.keys_distinct; simp [HConsts.specialKeys] at this; exact this.1.2.2
theorem version_ne_annotation : K.versionKey ≠ K.annotationKey := by
  have := W.keys_distinct; simp [HConsts.specialKeys] at this; exact this.1.1
theorem annotation_ne_sort : K.annotationKey ≠ K.sortOrderKey := by
  have := W.keys_distinct; simp [HConsts.specialKeys] at this; exact this.2.1.1
theorem annotation_ne_contig : K.annotationKey ≠ K.contigKey := by
  have := W.keys_distinct; simp [HConsts.specialKeys] at this; exact this.2.1.2
theorem sort_ne_contig : K.sortOrderKey ≠ K.contigKey := by
  have := W.keys_distinct; simp [HConsts.specialKeys] at this; exact this.2.2

end HConsts.WF

/-! ## sort-order names -/

theorem Order.name_ne_nil (o : Order) : o.name ≠ [] := by cases o <;> decide

theorem Order.name_stripped (o : Order) : rstripWs o.name = o.name := by cases o <;> decide

theorem Order.name_injective {a b : Order} (h : a.name = b.name) : a = b := by
  revert h; cases a <;> cases b <;> decide

/-- whatever name is looked up successfully is a listed name -/
theorem orderOfName_some_mem {K : HConsts} {n : Text} {o : Order} (h : orderOfName K n = some o) :
    ∃ p ∈ K.sortOrders, p.1 = n := by
  unfold orderOfName at h
  split at h
  · rename_i c b heq
    refine ⟨_, List.mem_of_find?_eq_some heq, ?_⟩
    have := List.find?_some heq
    simpa using this
  · simp at h

/-- under `K.WF`, a recognised name is the printed name of the order found -/
theorem orderOfName_name {K : HConsts} (W : K.WF) {n : Text} {o : Order}
    (h : orderOfName K n = some o) : o.name = n := by
  obtain ⟨p, hp, rfl⟩ := orderOfName_some_mem h
  exact W.names_faithful p hp o h

/-- under `K.WF`, an order that some name denotes is found again under its printed name -/
theorem orderOfName_roundtrip {K : HConsts} (W : K.WF) {n : Text} {o : Order}
    (h : orderOfName K n = some o) : orderOfName K o.name = some o := by
  rw [orderOfName_name W h]; exact h

/-! ## `HRec.fromLine` -/

/-- a per-line diagnosis: category, reported line number, and the ghost origin (the same number) -/
def lineErr (t : String) (n : Nat) : VErr := { tpe := t, line := some n, origin := some n }

/-- the value the parser stores for key `key` and stripped value text `value` (`none`: the key is
    the sort-order key and the value is not the name of a sort order) -/
def HVal.ofText (K : HConsts) (key value : Text) : Option HVal :=
  if key = K.sortOrderKey then (orderOfName K value).map (fun o => .sortOrder o [])
  else if key = K.contigKey then some (.contigs (splitOn ',' value))
  else some (.text value)

/-- what `fromLine` answers on a line of the shape `# key ␣ v` (`key` free of blanks) -/
def kvResult (K : HConsts) (key v : Text) (n : Nat) : Except VErr HRec :=
  if key = [] then .error (lineErr "HEADER_LINE_EMPTY_KEY" n)
  else if rstripWs v = [] then .error (lineErr "HEADER_LINE_EMPTY_VALUE" n)
  else match HVal.ofText K key (rstripWs v) with
    | some val => .ok { key := key, value := val }
    | none => .error (lineErr "HEADER_UNSUPPORTED_SORT_ORDER" n)

theorem fromLine_nil (K : HConsts) (n : Nat) :
    HRec.fromLine K [] n = .error (lineErr "HEADER_LINE_MISSING_START_SYMBOL" n) := rfl

theorem fromLine_noStart (K : HConsts) (c : Char) (rest : Text) (n : Nat) (h : c ≠ K.startSymbol) :
    HRec.fromLine K (c :: rest) n = .error (lineErr "HEADER_LINE_MISSING_START_SYMBOL" n) := by
  simp [HRec.fromLine, h, lineErr]

/-- `fromLine` on a line with the start symbol, in terms of `split(" ", 1)` of the rest -/
theorem fromLine_start (K : HConsts) (rest : Text) (n : Nat) :
    HRec.fromLine K (K.startSymbol :: rest) n =
      match split1 ' ' rest with
      | none => .error (lineErr "HEADER_LINE_MISSING_SEPARATOR" n)
      | some (key, v) => kvResult K key v n := by
  simp only [HRec.fromLine, ne_eq, not_true_eq_false, if_false]
  cases split1 ' ' rest with
  | none => rfl
  | some kv =>
    obtain ⟨key, v⟩ := kv
    simp only [kvResult, HVal.ofText, List.isEmpty_iff, lineErr]
    by_cases h1 : key = []
    · simp [h1]
    · by_cases h2 : rstripWs v = []
      · simp [h1, h2]
      · simp only [h1, h2, if_false]
        by_cases h3 : key = K.sortOrderKey
        · simp only [h3, if_true]
          cases orderOfName K (rstripWs v) <;> rfl
        · by_cases h4 : key = K.contigKey
          · subst h4; simp [h3]
          · simp [h3, h4]

theorem fromLine_noSep (K : HConsts) (rest : Text) (n : Nat) (h : ' ' ∉ rest) :
    HRec.fromLine K (K.startSymbol :: rest) n = .error (lineErr "HEADER_LINE_MISSING_SEPARATOR" n) := by
  rw [fromLine_start, (split1_none ' ' rest).mpr h]

theorem fromLine_kv (K : HConsts) (key v : Text) (n : Nat) (h : ' ' ∉ key) :
    HRec.fromLine K (K.startSymbol :: (key ++ ' ' :: v)) n = kvResult K key v n := by
  rw [fromLine_start, split1_append ' ' key v h]

/-- every line has exactly one of three shapes -/
theorem line_shape (K : HConsts) (line : Text) :
    (∀ rest, line ≠ K.startSymbol :: rest) ∨
    (∃ rest, line = K.startSymbol :: rest ∧ ' ' ∉ rest) ∨
    (∃ key v, line = K.startSymbol :: (key ++ ' ' :: v) ∧ ' ' ∉ key) := by
  cases line with
  | nil => left; simp
  | cons c rest =>
    by_cases hc : c = K.startSymbol
    · subst hc
      right
      cases hs : split1 ' ' rest with
      | none => left; exact ⟨rest, rfl, (split1_none ' ' rest).mp hs⟩
      | some kv =>
        obtain ⟨key, v⟩ := kv
        have := split1_some ' ' rest key v hs
        right; exact ⟨key, v, by rw [this.1], this.2⟩
    · left; intro r h; injection h with h1 _; exact hc h1

/-- the decomposition `key ␣ v` with a blank-free `key` is unique -/
theorem kv_unique {key v key' v' : Text} (h : ' ' ∉ key) (h' : ' ' ∉ key')
    (e : key ++ ' ' :: v = key' ++ ' ' :: v') : key = key' ∧ v = v' := by
  have a := split1_append ' ' key v h
  have b := split1_append ' ' key' v' h'
  rw [e, b] at a
  simpa [eq_comm] using a

/-- `fromLine` answers `.ok` exactly on the lines `# key ␣ v` with a non-empty blank-free key, a
    value that is not all whitespace, and (for the sort-order key) a recognised name -/
theorem fromLine_ok_iff (K : HConsts) (line : Text) (n : Nat) (r : HRec) :
    HRec.fromLine K line n = .ok r ↔
      ∃ v, line = K.startSymbol :: (r.key ++ ' ' :: v) ∧ ' ' ∉ r.key ∧ r.key ≠ [] ∧
        rstripWs v ≠ [] ∧ HVal.ofText K r.key (rstripWs v) = some r.value := by
  constructor
  · intro h
    rcases line_shape K line with h1 | ⟨rest, rfl, h2⟩ | ⟨key, v, rfl, h3⟩
    · cases line with
      | nil => simp [fromLine_nil] at h
      | cons c rest =>
        rw [fromLine_noStart K c rest n (fun e => h1 rest (by rw [e]))] at h
        simp at h
    · rw [fromLine_noSep K rest n h2] at h; simp at h
    · rw [fromLine_kv K key v n h3] at h
      unfold kvResult at h
      split at h
      · simp at h
      · rename_i hk
        split at h
        · simp at h
        · rename_i hv
          split at h
          · rename_i val hval
            injection h with h
            subst h
            exact ⟨v, rfl, h3, hk, hv, hval⟩
          · simp at h
  · rintro ⟨v, rfl, h1, h2, h3, h4⟩
    rw [fromLine_kv K r.key v n h1]
    simp [kvResult, h2, h3, h4]

/-- the `.ok` answer does not depend on the line number -/
theorem fromLine_ok_indep {K : HConsts} {line : Text} {n : Nat} {r : HRec}
    (h : HRec.fromLine K line n = .ok r) (m : Nat) : HRec.fromLine K line m = .ok r :=
  (fromLine_ok_iff K line m r).mpr ((fromLine_ok_iff K line n r).mp h)

/-- an error answer is one of the five per-line diagnoses, at the given line number -/
theorem fromLine_error (K : HConsts) (line : Text) (n : Nat) (e : VErr)
    (h : HRec.fromLine K line n = .error e) :
    e.line = some n ∧ e.origin = some n ∧
      e.tpe ∈ ["HEADER_LINE_MISSING_START_SYMBOL", "HEADER_LINE_MISSING_SEPARATOR",
        "HEADER_LINE_EMPTY_KEY", "HEADER_LINE_EMPTY_VALUE", "HEADER_UNSUPPORTED_SORT_ORDER"] := by
  have key : ∃ t, e = lineErr t n ∧ t ∈ ["HEADER_LINE_MISSING_START_SYMBOL",
      "HEADER_LINE_MISSING_SEPARATOR", "HEADER_LINE_EMPTY_KEY", "HEADER_LINE_EMPTY_VALUE",
      "HEADER_UNSUPPORTED_SORT_ORDER"] := by
    rcases line_shape K line with h1 | ⟨rest, rfl, h2⟩ | ⟨key, v, rfl, h3⟩
    · cases line with
      | nil => rw [fromLine_nil] at h; injection h with h; exact ⟨_, h.symm, by simp⟩
      | cons c rest =>
        rw [fromLine_noStart K c rest n (fun e => h1 rest (by rw [e]))] at h
        injection h with h; exact ⟨_, h.symm, by simp⟩
    · rw [fromLine_noSep K rest n h2] at h
      injection h with h; exact ⟨_, h.symm, by simp⟩
    · rw [fromLine_kv K key v n h3] at h
      unfold kvResult at h
      split at h
      · injection h with h; exact ⟨_, h.symm, by simp⟩
      · split at h
        · injection h with h; exact ⟨_, h.symm, by simp⟩
        · split at h
          · simp at h
          · injection h with h; exact ⟨_, h.symm, by simp⟩
  obtain ⟨t, rfl, ht⟩ := key
  exact ⟨rfl, rfl, ht⟩

/-! ## canonical records and printing -/

/-- forget the contig list attached to a sort order: a freshly parsed sort order has none
    (`applyContigs` attaches it afterwards) -/
def HVal.reset : HVal → HVal
  | .sortOrder o _ => .sortOrder o []
  | v => v

def HRec.reset (r : HRec) : HRec := { r with value := r.value.reset }

@[simp] theorem HRec.reset_key (r : HRec) : r.reset.key = r.key := rfl
@[simp] theorem HVal.reset_str (v : HVal) : v.reset.str = v.str := by cases v <;> rfl
@[simp] theorem HVal.reset_reset (v : HVal) : v.reset.reset = v.reset := by cases v <;> rfl
@[simp] theorem HRec.reset_reset (r : HRec) : r.reset.reset = r.reset := by simp [HRec.reset]

/-- the invariant of a stored value under key `key` -/
def HVal.Canon (K : HConsts) (key : Text) : HVal → Prop
  | .text t => key ≠ K.sortOrderKey ∧ key ≠ K.contigKey ∧ t ≠ [] ∧ rstripWs t = t
  | .contigs cs => key ≠ K.sortOrderKey ∧ key = K.contigKey ∧ cs ≠ [] ∧ (∀ c ∈ cs, ',' ∉ c) ∧
      joinWith ',' cs ≠ [] ∧ rstripWs (joinWith ',' cs) = joinWith ',' cs
  | .sortOrder o _ => key = K.sortOrderKey ∧ orderOfName K o.name = some o

/-- the invariant of a header record: what `fromLine` returns and `applyContigs` preserves -/
structure HRec.Canon (K : HConsts) (r : HRec) : Prop where
  key_ne : r.key ≠ []
  key_noblank : ' ' ∉ r.key
  value : r.value.Canon K r.key

theorem HVal.Canon.reset {K : HConsts} {key : Text} {v : HVal} (h : v.Canon K key) :
    v.reset.Canon K key := by cases v <;> exact h

theorem HRec.Canon.reset {K : HConsts} {r : HRec} (h : r.Canon K) : r.reset.Canon K :=
  ⟨h.key_ne, h.key_noblank, h.value.reset⟩

/-- the printed value of a canonical value is non-empty and has no trailing whitespace -/
theorem HVal.Canon.str_ok {K : HConsts} {key : Text} {v : HVal} (h : v.Canon K key) :
    v.str ≠ [] ∧ rstripWs v.str = v.str := by
  cases v with
  | text t => exact ⟨h.2.2.1, h.2.2.2⟩
  | contigs cs => exact ⟨h.2.2.2.2.1, h.2.2.2.2.2⟩
  | sortOrder o cs => exact ⟨o.name_ne_nil, o.name_stripped⟩

/-- parsing the printed value of a canonical value gives the value back (a sort order without
    its contig list) -/
theorem HVal.ofText_str {K : HConsts} {key : Text} {v : HVal} (h : v.Canon K key) :
    HVal.ofText K key v.str = some v.reset := by
  cases v with
  | text t => simp [HVal.ofText, h.1, h.2.1, HVal.str, HVal.reset]
  | contigs cs =>
    obtain ⟨h1, h2, h3, h4, -, -⟩ := h
    rw [h2] at h1
    simp [HVal.ofText, h1, h2, HVal.str, HVal.reset, splitOn_joinWith ',' cs h3 h4]
  | sortOrder o cs => simp [HVal.ofText, h.1, h.2, HVal.str, HVal.reset]

/-- what the parser stores is canonical, fresh, and prints as the stripped value text -/
theorem HVal.ofText_canon {K : HConsts} (W : K.WF) {key value : Text} {val : HVal}
    (h1 : value ≠ []) (h2 : rstripWs value = value) (h : HVal.ofText K key value = some val) :
    val.Canon K key ∧ val.reset = val ∧ val.str = value := by
  unfold HVal.ofText at h
  split at h
  · rename_i hk
    cases ho : orderOfName K value with
    | none => simp [ho] at h
    | some o =>
      simp [ho] at h; subst h
      exact ⟨⟨hk, orderOfName_roundtrip W ho⟩, rfl, orderOfName_name W ho⟩
  · rename_i hk
    split at h
    · rename_i hc
      simp at h; subst h
      have hj := joinWith_splitOn ',' value
      refine ⟨⟨hk, hc, splitOn_ne_nil _ _, not_mem_of_mem_splitOn ',' value, ?_, ?_⟩, rfl, hj⟩
      · rw [hj]; exact h1
      · rw [hj]; exact h2
    · rename_i hc
      simp at h; subst h
      exact ⟨⟨hk, hc, h1, h2⟩, rfl, rfl⟩

/-- every record `fromLine` returns is canonical and fresh, and prints as
    `# key ␣ rstrip(v)` -/
theorem fromLine_canon {K : HConsts} (W : K.WF) {line : Text} {n : Nat} {r : HRec}
    (h : HRec.fromLine K line n = .ok r) : r.Canon K ∧ r.reset = r := by
  obtain ⟨v, -, h1, h2, h3, h4⟩ := (fromLine_ok_iff K line n r).mp h
  have := HVal.ofText_canon W h3 (rstripChars_idem _ v) h4
  exact ⟨⟨h2, h1, this.1⟩, by simp [HRec.reset, this.2.1]⟩

theorem HRec.render_eq (K : HConsts) (r : HRec) :
    r.render K = K.startSymbol :: (r.key ++ ' ' :: r.value.str) := rfl

/-- printing is faithful: a parsed line prints as itself without the trailing whitespace -/
theorem fromLine_render_line {K : HConsts} (W : K.WF) {key v : Text} {n : Nat} {r : HRec}
    (hk : ' ' ∉ key) (h : HRec.fromLine K (K.startSymbol :: (key ++ ' ' :: v)) n = .ok r) :
    r.render K = K.startSymbol :: (key ++ ' ' :: rstripWs v) := by
  obtain ⟨v', e, h1, h2, h3, h4⟩ := (fromLine_ok_iff K _ n r).mp h
  injection e with _ e
  obtain ⟨rfl, rfl⟩ := kv_unique hk h1 e
  have := HVal.ofText_canon W h3 (rstripChars_idem _ v) h4
  rw [HRec.render_eq, this.2.2]

/-- parsing a printed canonical record gives the record back (without the contig list of a sort
    order) -/
theorem fromLine_render {K : HConsts} {r : HRec} (h : r.Canon K) (n : Nat) :
    HRec.fromLine K (r.render K) n = .ok r.reset := by
  rw [fromLine_ok_iff]
  refine ⟨r.value.str, rfl, h.key_noblank, h.key_ne, ?_, ?_⟩
  · rw [h.value.str_ok.2]; exact h.value.str_ok.1
  · rw [h.value.str_ok.2]; exact HVal.ofText_str h.value

/-! ## the ordered dictionary of a header -/

/-- the keys of the kept records, in order -/
def Header.keys (h : Header) : List Text := h.recs.map (·.1)

theorem Header.get_eq_none_iff (h : Header) (k : Text) : h.get k = none ↔ k ∉ h.keys := by
  simp only [Header.get, Header.get.tdictGetH, Option.map_eq_none_iff, List.find?_eq_none,
    Header.keys, List.mem_map, not_exists, not_and]
  constructor
  · intro hh p hp e; exact hh p hp (by simp [e])
  · intro hh p hp e; exact hh p hp (by simpa using e)

theorem Header.get_isSome_iff (h : Header) (k : Text) : (h.get k).isSome = true ↔ k ∈ h.keys := by
  rw [Option.isSome_iff_ne_none, ne_eq, Header.get_eq_none_iff, Classical.not_not]

theorem Header.mem_of_get {h : Header} {k : Text} {r : HRec} (hg : h.get k = some r) :
    (k, r) ∈ h.recs := by
  simp only [Header.get, Header.get.tdictGetH, Option.map_eq_some_iff] at hg
  obtain ⟨p, hp, rfl⟩ := hg
  have h1 := List.mem_of_find?_eq_some hp
  have h2 := List.find?_some hp
  have : p.1 = k := by simpa using h2
  rw [← this]; exact h1

theorem Header.get_of_mem {h : Header} {k : Text} {r : HRec} (hn : h.keys.Pairwise (· ≠ ·))
    (hm : (k, r) ∈ h.recs) : h.get k = some r := by
  unfold Header.keys at hn
  simp only [Header.get, Header.get.tdictGetH]
  generalize h.recs = d at hn hm
  induction d with
  | nil => simp at hm
  | cons p d ih =>
    simp only [List.map_cons, List.pairwise_cons] at hn
    simp only [List.mem_cons] at hm
    rcases hm with rfl | hm
    · simp
    · have : p.1 ≠ k := hn.1 k (List.mem_map.mpr ⟨(k, r), hm, rfl⟩)
      simp only [List.find?_cons]
      have hf : (p.1 == k) = false := by simp [this]
      rw [hf]
      exact ih hn.2 hm

theorem Header.set_of_not_mem {h : Header} {r : HRec} (hk : r.key ∉ h.keys) :
    h.set r = { h with recs := h.recs ++ [(r.key, r)] } := by
  have : h.recs.any (fun p => p.1 == r.key) = false := by
    rw [List.any_eq_false]
    intro p hp e
    exact hk (List.mem_map.mpr ⟨p, hp, by simpa using e⟩)
  simp [Header.set, this]

theorem Header.set_of_mem {h : Header} {r : HRec} (hk : r.key ∈ h.keys) :
    h.set r = { h with recs := h.recs.map (fun p => if p.1 == r.key then (r.key, r) else p) } := by
  have : h.recs.any (fun p => p.1 == r.key) = true := by
    rw [List.any_eq_true]
    obtain ⟨p, hp, e⟩ := List.mem_map.mp hk
    exact ⟨p, hp, by simp [e]⟩
  simp [Header.set, this]

@[simp] theorem Header.set_errors (h : Header) (r : HRec) : (h.set r).errors = h.errors := rfl
@[simp] theorem Header.set_mode (h : Header) (r : HRec) : (h.set r).mode = h.mode := rfl

/-- replacing a record keeps the keys -/
theorem Header.set_keys_of_mem {h : Header} {r : HRec} (hk : r.key ∈ h.keys) :
    (h.set r).keys = h.keys := by
  rw [Header.set_of_mem hk]
  simp only [Header.keys, List.map_map]
  apply List.map_congr_left
  intro p _
  by_cases e : p.1 = r.key <;> simp [e]

/-! ## `Header.parseLines` -/

/-- the records of the well-formed lines, in line order -/
def okRecs (K : HConsts) (lines : List Text) : List HRec :=
  lines.filterMap (fun l => (HRec.fromLine K l 0).toOption)

/-- the keys of the well-formed lines, in line order -/
def okKeys (K : HConsts) (lines : List Text) : List Text := (okRecs K lines).map (·.key)

/-- the first record of each key, in order of first occurrence -/
def keepFirst : List HRec → List HRec
  | [] => []
  | r :: rs => r :: (keepFirst rs).filter (fun s => s.key ≠ r.key)

/-- the diagnosis of line `l` with 1-based index `n`, given the keys `seen` of the well-formed lines
    before it: its own error, or `HEADER_DUPLICATE_KEYS` when it is well-formed with a key already
    seen, or nothing -/
def lineDiag (K : HConsts) (seen : List Text) (l : Text) (n : Nat) : List VErr :=
  match HRec.fromLine K l n with
  | .error e => [e]
  | .ok r => if r.key ∈ seen then [lineErr "HEADER_DUPLICATE_KEYS" n] else []

/-- the errors of `lines` numbered from `n`, with `seen` the keys kept before -/
def errsFrom (K : HConsts) (seen : List Text) (n : Nat) : List Text → List VErr
  | [] => []
  | l :: ls => lineDiag K seen l n ++ errsFrom K (seen ++ okKeys K [l]) (n + 1) ls

theorem okRecs_cons_ok {K : HConsts} {l : Text} {n : Nat} {r : HRec} (ls : List Text)
    (h : HRec.fromLine K l n = .ok r) : okRecs K (l :: ls) = r :: okRecs K ls := by
  simp [okRecs, fromLine_ok_indep h 0, Except.toOption]

theorem okRecs_cons_error {K : HConsts} {l : Text} {n : Nat} {e : VErr} (ls : List Text)
    (h : HRec.fromLine K l n = .error e) : okRecs K (l :: ls) = okRecs K ls := by
  cases h0 : HRec.fromLine K l 0 with
  | error e' => simp [okRecs, h0, Except.toOption]
  | ok r => rw [fromLine_ok_indep h0 n] at h; simp at h

theorem okRecs_append (K : HConsts) (a b : List Text) : okRecs K (a ++ b) = okRecs K a ++ okRecs K b := by
  simp [okRecs, List.filterMap_append]

theorem okKeys_cons (K : HConsts) (l : Text) (ls : List Text) :
    okKeys K (l :: ls) = okKeys K [l] ++ okKeys K ls := by
  rw [show l :: ls = [l] ++ ls from rfl]
  simp only [okKeys, okRecs_append, List.map_append]

theorem lineDiag_congr (K : HConsts) {s s' : List Text} (h : ∀ k, k ∈ s ↔ k ∈ s') (l : Text) (n : Nat) :
    lineDiag K s l n = lineDiag K s' l n := by
  unfold lineDiag
  split
  · rfl
  · rename_i r _; simp [h r.key]

theorem errsFrom_congr (K : HConsts) {s s' : List Text} (h : ∀ k, k ∈ s ↔ k ∈ s') (n : Nat)
    (ls : List Text) : errsFrom K s n ls = errsFrom K s' n ls := by
  induction ls generalizing s s' n with
  | nil => rfl
  | cons l ls ih =>
    simp only [errsFrom]
    rw [lineDiag_congr K h, ih (s := s ++ okKeys K [l]) (s' := s' ++ okKeys K [l])]
    intro k; simp [h k]

theorem flatMap_congr' {α β} {l : List α} {f g : α → List β} (h : ∀ a ∈ l, f a = g a) :
    l.flatMap f = l.flatMap g := by
  induction l with
  | nil => rfl
  | cons a l ih =>
    simp only [List.flatMap_cons]
    rw [h a (by simp), ih (fun b hb => h b (by simp [hb]))]

/-- positional form of `errsFrom`: line by line, each diagnosed against the keys of the
    well-formed lines before it -/
theorem errsFrom_eq_flatMap (K : HConsts) (seen : List Text) (n : Nat) (lines : List Text) :
    errsFrom K seen n lines =
      (lines.zipIdx n).flatMap
        (fun p => lineDiag K (seen ++ okKeys K (lines.take (p.2 - n))) p.1 p.2) := by
  induction lines generalizing seen n with
  | nil => rfl
  | cons l ls ih =>
    simp only [errsFrom, List.zipIdx_cons, List.flatMap_cons, Nat.sub_self, List.take_zero]
    congr 1
    · simp [okKeys, okRecs]
    · rw [ih]
      apply flatMap_congr'
      rintro ⟨x, m⟩ hm
      have hm' := (List.mem_zipIdx hm).1
      have : m - n = (m - (n + 1)) + 1 := by omega
      simp only [this, List.take_succ_cons]
      rw [List.append_assoc, ← okKeys_cons]

theorem keepFirst_filter_seen (rs : List HRec) (r : HRec) (seen : List Text) :
    ((keepFirst rs).filter (fun s => s.key ≠ r.key)).filter (fun s => s.key ∉ seen) =
      (keepFirst rs).filter (fun s => s.key ∉ r.key :: seen) := by
  rw [List.filter_filter]
  apply List.filter_congr
  intro s _
  by_cases h1 : s.key = r.key <;> by_cases h2 : s.key ∈ seen <;> simp [h1, h2]

theorem keepFirst_filter_seen_mem (rs : List HRec) (r : HRec) (seen : List Text) (h : r.key ∈ seen) :
    ((keepFirst rs).filter (fun s => s.key ≠ r.key)).filter (fun s => s.key ∉ seen) =
      (keepFirst rs).filter (fun s => s.key ∉ seen) := by
  rw [List.filter_filter]
  apply List.filter_congr
  intro s _
  by_cases h1 : s.key = r.key
  · simp [h1, h]
  · simp [h1]

/-- **`parseLines` against its specification**, from any starting header: the kept records are
    appended (first of each key not kept before), the errors are appended in line order, the mode
    is untouched. -/
theorem parseLines_spec (K : HConsts) (lines : List Text) (n : Nat) (h : Header) (seen : List Text)
    (hs : ∀ k, k ∈ seen ↔ k ∈ h.keys) :
    Header.parseLines K n lines h =
      { recs := h.recs ++
          ((keepFirst (okRecs K lines)).filter (fun r => r.key ∉ seen)).map (fun r => (r.key, r)),
        errors := h.errors ++ errsFrom K seen n lines,
        mode := h.mode } := by
  induction lines generalizing n h seen with
  | nil => simp [Header.parseLines, okRecs, keepFirst, errsFrom]
  | cons l ls ih =>
    unfold Header.parseLines
    cases hl : HRec.fromLine K l n with
    | error e =>
      simp only
      have hok : okKeys K [l] = [] := by rw [okKeys, okRecs_cons_error [] hl]; rfl
      rw [ih (n + 1) _ seen (by simpa [Header.keys] using hs), okRecs_cons_error ls hl]
      simp [errsFrom, lineDiag, hl, hok]
    | ok r =>
      simp only
      have hok : okKeys K [l] = [r.key] := by rw [okKeys, okRecs_cons_ok [] hl]; rfl
      rw [okRecs_cons_ok ls hl]
      by_cases hk : r.key ∈ h.keys
      · have hk' : r.key ∈ seen := (hs _).mpr hk
        rw [if_pos ((Header.get_isSome_iff h r.key).mpr hk)]
        rw [ih (n + 1) _ seen (by simpa [Header.keys] using hs)]
        simp only [keepFirst, List.filter_cons, hk', not_true_eq_false, decide_false,
          Bool.false_eq_true, if_false, keepFirst_filter_seen_mem _ _ _ hk']
        simp only [errsFrom, lineDiag, hl, hk', if_true, hok, List.append_assoc, List.singleton_append]
        rw [errsFrom_congr K (s := seen ++ [r.key]) (s' := seen) (by intro k; simp; rintro rfl; exact hk')]
        rfl
      · have hk' : r.key ∉ seen := fun e => hk ((hs _).mp e)
        have hg : ¬ (h.get r.key).isSome = true := fun e => hk ((Header.get_isSome_iff h r.key).mp e)
        rw [if_neg hg, Header.set_of_not_mem hk]
        rw [ih (n + 1) _ (seen ++ [r.key]) (by intro k; rw [List.mem_append, hs k]; simp [Header.keys])]
        simp only [keepFirst, List.filter_cons, hk', not_false_eq_true, decide_true, if_true,
          keepFirst_filter_seen]
        simp only [errsFrom, lineDiag, hl, hk', if_false, hok, List.nil_append, List.map_cons,
          List.append_assoc, List.singleton_append]
        congr 3
        apply congrArg
        apply List.filter_congr
        intro s _; simp [or_comm]

/-! ## `keepFirst` -/

theorem keepFirst_sublist (rs : List HRec) : (keepFirst rs).Sublist rs := by
  induction rs with
  | nil => exact .slnil
  | cons r rs ih => exact (List.filter_sublist.trans ih).cons_cons r

theorem mem_keepFirst_mem {rs : List HRec} {r : HRec} (h : r ∈ keepFirst rs) : r ∈ rs :=
  (keepFirst_sublist rs).subset h

/-- the kept records have pairwise distinct keys -/
theorem keepFirst_keys_distinct (rs : List HRec) :
    ((keepFirst rs).map (·.key)).Pairwise (· ≠ ·) := by
  induction rs with
  | nil => simp [keepFirst]
  | cons r rs ih =>
    simp only [keepFirst, List.map_cons, List.pairwise_cons]
    constructor
    · intro k hk
      obtain ⟨s, hs, rfl⟩ := List.mem_map.mp hk
      have := of_decide_eq_true (List.mem_filter.mp hs).2
      exact fun e => this e.symm
    · rw [List.pairwise_map] at ih ⊢
      exact ih.filter _

/-- a list whose keys are already distinct is kept entirely -/
theorem keepFirst_of_distinct (rs : List HRec) (h : (rs.map (·.key)).Pairwise (· ≠ ·)) :
    keepFirst rs = rs := by
  induction rs with
  | nil => rfl
  | cons r rs ih =>
    simp only [List.map_cons, List.pairwise_cons] at h
    simp only [keepFirst, ih h.2]
    congr 1
    rw [List.filter_eq_self]
    intro s hs
    have := h.1 s.key (List.mem_map.mpr ⟨s, hs, rfl⟩)
    exact decide_eq_true (Ne.symm this)

theorem keepFirst_filter_key (rs : List HRec) (q : Text → Bool) :
    keepFirst (rs.filter (fun s => q s.key)) = (keepFirst rs).filter (fun s => q s.key) := by
  induction rs with
  | nil => rfl
  | cons r rs ih =>
    by_cases hq : q r.key = true
    · simp only [List.filter_cons, hq, if_true, keepFirst, ih, List.filter_filter]
      congr 1
      apply List.filter_congr
      intro s _; exact Bool.and_comm _ _
    · simp only [List.filter_cons, hq, Bool.false_eq_true, if_false, keepFirst, ih,
        List.filter_filter]
      apply List.filter_congr
      intro s _
      by_cases e : s.key = r.key
      · simp [e, hq]
      · simp [e]

/-- membership: exactly the records that are the first of their key -/
theorem mem_keepFirst_iff (rs : List HRec) (r : HRec) :
    r ∈ keepFirst rs ↔ ∃ pre post, rs = pre ++ r :: post ∧ ∀ s ∈ pre, s.key ≠ r.key := by
  induction rs with
  | nil => simp [keepFirst]
  | cons a rs ih =>
    simp only [keepFirst, List.mem_cons, List.mem_filter, ih]
    constructor
    · rintro (rfl | ⟨⟨pre, post, rfl, hp⟩, hne⟩)
      · exact ⟨[], rs, rfl, by simp⟩
      · refine ⟨a :: pre, post, rfl, ?_⟩
        intro s hs
        simp only [List.mem_cons] at hs
        rcases hs with rfl | hs
        · intro e; simp [e] at hne
        · exact hp s hs
    · rintro ⟨pre, post, e, hp⟩
      cases pre with
      | nil => simp at e; exact .inl e.1.symm
      | cons b pre =>
        simp at e
        obtain ⟨rfl, rfl⟩ := e
        refine .inr ⟨⟨pre, post, rfl, fun s hs => hp s (by simp [hs])⟩, ?_⟩
        have := hp a (by simp)
        exact decide_eq_true (Ne.symm this)

theorem find?_filter_of_imp {α} (l : List α) (p q : α → Bool) (h : ∀ x ∈ l, p x = true → q x = true) :
    (l.filter q).find? p = l.find? p := by
  induction l with
  | nil => rfl
  | cons a l ih =>
    have ih' := ih (fun x hx => h x (by simp [hx]))
    by_cases hq : q a = true
    · simp only [List.filter_cons, hq, if_true, List.find?_cons, ih']
    · have hp : p a = false := by
        cases hpa : p a with
        | false => rfl
        | true => exact absurd (h a (by simp) hpa) hq
      simp only [List.filter_cons, hq, Bool.false_eq_true, if_false, List.find?_cons, hp, ih']

/-- looking a key up among the kept records finds the first record of that key -/
theorem find?_keepFirst (rs : List HRec) (k : Text) :
    (keepFirst rs).find? (fun r => r.key == k) = rs.find? (fun r => r.key == k) := by
  induction rs with
  | nil => rfl
  | cons r rs ih =>
    by_cases e : r.key = k
    · simp [keepFirst, e]
    · have e' : (r.key == k) = false := by simp [e]
      simp only [keepFirst, List.find?_cons, e']
      rw [find?_filter_of_imp, ih]
      intro s _ hs
      have : s.key = k := by simpa using hs
      simp [this, Ne.symm e]

/-- positional form: the kept records are the records at the positions where a key occurs for
    the first time -/
theorem keepFirst_positions (rs : List HRec) (k : Nat) :
    keepFirst rs =
      ((rs.zipIdx k).filter
        (fun p => (rs.take (p.2 - k)).all (fun s => s.key ≠ p.1.key))).map (·.1) := by
  induction rs generalizing k with
  | nil => rfl
  | cons r rs ih =>
    simp only [keepFirst, List.zipIdx_cons, List.filter_cons, Nat.sub_self, List.take_zero,
      List.all_nil, if_true, List.map_cons]
    congr 1
    rw [ih (k + 1), List.filter_map, List.filter_filter]
    congr 1
    apply List.filter_congr
    rintro ⟨x, m⟩ hm
    have hm' := (List.mem_zipIdx hm).1
    have : m - k = (m - (k + 1)) + 1 := by omega
    simp only [this, List.take_succ_cons, List.all_cons, Function.comp]
    by_cases e : r.key = x.key
    · simp [e]
    · simp [e, Ne.symm e]

/-! ## invariants of a parsed header -/

/-- the invariant of the ordered dictionary: every entry is filed under its own key, every record
    is canonical, the keys are pairwise distinct -/
structure Header.Inv (K : HConsts) (h : Header) : Prop where
  key_eq : ∀ p ∈ h.recs, p.2.key = p.1
  canon : ∀ p ∈ h.recs, p.2.Canon K
  distinct : h.keys.Pairwise (· ≠ ·)

/-- no sort order carries a contig list yet (the state between `parseLines` and `applyContigs`) -/
def Header.Fresh (h : Header) : Prop := ∀ p ∈ h.recs, p.2.reset = p.2

theorem mem_okRecs {K : HConsts} {lines : List Text} {r : HRec} :
    r ∈ okRecs K lines ↔ ∃ l ∈ lines, HRec.fromLine K l 0 = .ok r := by
  simp only [okRecs, List.mem_filterMap]
  constructor
  · rintro ⟨l, hl, e⟩
    refine ⟨l, hl, ?_⟩
    cases h0 : HRec.fromLine K l 0 with
    | error e' => simp [h0, Except.toOption] at e
    | ok r' => simp [h0, Except.toOption] at e; rw [e]
  · rintro ⟨l, hl, e⟩
    exact ⟨l, hl, by simp [e, Except.toOption]⟩

/-- the kept records of a parse from an empty header -/
theorem parseLines_recs (K : HConsts) (lines : List Text) (n : Nat) (m : Mode) :
    (Header.parseLines K n lines { mode := m }).recs =
      (keepFirst (okRecs K lines)).map (fun r => (r.key, r)) := by
  rw [parseLines_spec K lines n { mode := m } [] (by simp [Header.keys])]
  simp only [List.nil_append, List.not_mem_nil, not_false_eq_true, decide_true]
  rw [List.filter_eq_self.mpr (fun _ _ => rfl)]

/-- the errors of a parse from an empty header -/
theorem parseLines_errors (K : HConsts) (lines : List Text) (n : Nat) (m : Mode) :
    (Header.parseLines K n lines { mode := m }).errors = errsFrom K [] n lines := by
  rw [parseLines_spec K lines n { mode := m } [] (by simp [Header.keys])]
  simp

theorem parseLines_mode (K : HConsts) (lines : List Text) (n : Nat) (h : Header) :
    (Header.parseLines K n lines h).mode = h.mode := by
  rw [parseLines_spec K lines n h h.keys (fun _ => Iff.rfl)]

theorem parseLines_keys (K : HConsts) (lines : List Text) (n : Nat) (m : Mode) :
    (Header.parseLines K n lines { mode := m }).keys = (keepFirst (okRecs K lines)).map (·.key) := by
  simp [Header.keys, parseLines_recs, Function.comp_def]

/-- a parse from an empty header satisfies the invariant and is fresh -/
theorem parseLines_inv {K : HConsts} (W : K.WF) (lines : List Text) (n : Nat) (m : Mode) :
    (Header.parseLines K n lines { mode := m }).Inv K ∧
      (Header.parseLines K n lines { mode := m }).Fresh := by
  have hmem : ∀ p ∈ (Header.parseLines K n lines { mode := m }).recs,
      p.2.key = p.1 ∧ p.2.Canon K ∧ p.2.reset = p.2 := by
    intro p hp
    rw [parseLines_recs] at hp
    obtain ⟨r, hr, rfl⟩ := List.mem_map.mp hp
    obtain ⟨l, -, hl⟩ := mem_okRecs.mp (mem_keepFirst_mem hr)
    have := fromLine_canon W hl
    exact ⟨rfl, this.1, this.2⟩
  refine ⟨⟨fun p hp => (hmem p hp).1, fun p hp => (hmem p hp).2.1, ?_⟩, fun p hp => (hmem p hp).2.2⟩
  rw [parseLines_keys]
  exact keepFirst_keys_distinct _

/-- looking a key up in a parsed header finds the first well-formed line with that key -/
theorem parseLines_get (K : HConsts) (lines : List Text) (n : Nat) (m : Mode) (k : Text) :
    (Header.parseLines K n lines { mode := m }).get k =
      (okRecs K lines).find? (fun r => r.key == k) := by
  simp only [Header.get, Header.get.tdictGetH, parseLines_recs, List.find?_map, Option.map_map]
  rw [show ((fun p : Text × HRec => p.1 == k) ∘ fun r : HRec => (r.key, r)) =
    (fun r => r.key == k) from rfl, find?_keepFirst]
  cases (okRecs K lines).find? (fun r => r.key == k) <;> rfl

/-! ## `get` after `set` -/

theorem tdictGetH_nil (k : Text) : Header.get.tdictGetH [] k = none := rfl

theorem tdictGetH_cons (p : Text × HRec) (d : List (Text × HRec)) (k : Text) :
    Header.get.tdictGetH (p :: d) k = if p.1 = k then some p.2 else Header.get.tdictGetH d k := by
  simp only [Header.get.tdictGetH, List.find?_cons]
  by_cases e : p.1 = k
  · simp [e]
  · have : (p.1 == k) = false := by simp [e]
    simp [this, e]

theorem tdictGetH_append (d e : List (Text × HRec)) (k : Text) :
    Header.get.tdictGetH (d ++ e) k = (Header.get.tdictGetH d k).or (Header.get.tdictGetH e k) := by
  induction d with
  | nil => simp [tdictGetH_nil]
  | cons p d ih =>
    rw [List.cons_append, tdictGetH_cons, tdictGetH_cons, ih]
    by_cases e1 : p.1 = k <;> simp [e1]

theorem Header.get_set (h : Header) (r : HRec) (k : Text) :
    (h.set r).get k = if r.key = k then some r else h.get k := by
  by_cases hk : r.key ∈ h.keys
  · rw [Header.set_of_mem hk]
    have key : ∀ d : List (Text × HRec),
        Header.get.tdictGetH (d.map (fun p => if p.1 == r.key then (r.key, r) else p)) k =
          if r.key = k then (if r.key ∈ d.map (·.1) then some r else none)
          else Header.get.tdictGetH d k := by
      intro d
      induction d with
      | nil => simp [tdictGetH_nil]
      | cons p d ih =>
        rw [List.map_cons, tdictGetH_cons, tdictGetH_cons, ih]
        by_cases e1 : p.1 = r.key
        · by_cases e2 : r.key = k
          · simp [e1, e2]
          · simp [e1, e2]
        · by_cases e2 : r.key = k
          · have e3 : ¬ p.1 = k := fun e => e1 (e.trans e2.symm)
            have hm : (r.key ∈ List.map (·.1) (p :: d)) ↔ (r.key ∈ List.map (·.1) d) := by
              rw [List.map_cons, List.mem_cons]
              exact ⟨fun e => e.elim (fun e => absurd e.symm e1) id, Or.inr⟩
            have e4 : ¬ (if (p.1 == r.key) = true then (r.key, r) else p).1 = k := by
              simpa [e1] using e3
            rw [if_pos e2, if_pos e2, if_neg e4]
            simp only [hm]
          · simp [e1, e2]
    have := key h.recs
    simp only [Header.get]
    rw [this]
    have hk' : r.key ∈ h.recs.map (·.1) := hk
    simp [hk']
  · rw [Header.set_of_not_mem hk]
    simp only [Header.get]
    rw [tdictGetH_append, tdictGetH_cons, tdictGetH_nil]
    by_cases e : r.key = k
    · have : h.get k = none := (Header.get_eq_none_iff h k).mpr (e ▸ hk)
      simp only [Header.get] at this
      simp [this, e]
    · simp [e]

/-! ## parsing printed records -/

theorem parseLines_rendered {K : HConsts} (rs : List HRec) (n : Nat) (h : Header)
    (hc : ∀ r ∈ rs, r.Canon K) (hd : (rs.map (·.key)).Pairwise (· ≠ ·))
    (hk : ∀ r ∈ rs, r.key ∉ h.keys) :
    Header.parseLines K n (rs.map (HRec.render K)) h =
      { h with recs := h.recs ++ rs.map (fun r => (r.key, r.reset)) } := by
  induction rs generalizing n h with
  | nil => simp [Header.parseLines]
  | cons r rs ih =>
    simp only [List.map_cons, List.pairwise_cons] at hd
    simp only [List.map_cons, Header.parseLines, fromLine_render (hc r (by simp)) n]
    have hr : r.reset.key ∉ h.keys := hk r (by simp)
    have hg : ¬ (h.get r.reset.key).isSome = true := fun e => hr ((Header.get_isSome_iff _ _).mp e)
    rw [if_neg hg, Header.set_of_not_mem hr]
    rw [ih (n + 1) _ (fun s hs => hc s (by simp [hs])) hd.2]
    · simp
    · intro s hs
      simp only [Header.keys, List.map_append, List.map_cons, List.map_nil, List.mem_append,
        List.mem_singleton, HRec.reset_key, not_or]
      exact ⟨hk s (by simp [hs]), Ne.symm (hd.1 s.key (List.mem_map.mpr ⟨s, hs, rfl⟩))⟩

/-! ## `applyContigs` -/

/-- `applyContigs` either leaves the header alone or replaces the sort-order record by the same
    order carrying the (non-empty) contig list of the contigs pragma -/
theorem applyContigs_shape (K : HConsts) (h : Header) :
    h.applyContigs K = h ∨
    ∃ cs o cs0 k, h.contigs K = some cs ∧ cs ≠ [] ∧ o.sortable = true ∧
      h.get K.sortOrderKey = some ⟨k, .sortOrder o cs0⟩ ∧
      h.applyContigs K = h.set ⟨k, .sortOrder o cs⟩ := by
  unfold Header.applyContigs
  split
  · rename_i cs k o cs0 hc hg
    split
    · rename_i hcond
      simp only [Bool.and_eq_true, Bool.not_eq_eq_eq_not, Bool.not_true, List.isEmpty_eq_false_iff] at hcond
      exact .inr ⟨cs, o, cs0, k, hc, hcond.1, hcond.2, hg, rfl⟩
    · exact .inl rfl
  · exact .inl rfl

theorem applyContigs_errors (K : HConsts) (h : Header) : (h.applyContigs K).errors = h.errors := by
  rcases applyContigs_shape K h with e | ⟨cs, o, cs0, k, -, -, -, -, e⟩ <;> rw [e]; rfl

theorem applyContigs_mode (K : HConsts) (h : Header) : (h.applyContigs K).mode = h.mode := by
  rcases applyContigs_shape K h with e | ⟨cs, o, cs0, k, -, -, -, -, e⟩ <;> rw [e]; rfl

/-- the result's records depend on the records only -/
theorem applyContigs_recs_congr (K : HConsts) {h1 h2 : Header} (e : h1.recs = h2.recs) :
    (h1.applyContigs K).recs = (h2.applyContigs K).recs := by
  obtain ⟨r1, e1, m1⟩ := h1
  obtain ⟨r2, e2, m2⟩ := h2
  simp only at e
  subst e
  have hc : Header.contigs K ⟨r1, e1, m1⟩ = Header.contigs K ⟨r1, e2, m2⟩ := rfl
  have hg : Header.get ⟨r1, e1, m1⟩ K.sortOrderKey = Header.get ⟨r1, e2, m2⟩ K.sortOrderKey := rfl
  unfold Header.applyContigs
  rw [hc, hg]
  split
  · split <;> rfl
  · rfl

/-- under the invariant, the record filed under the sort-order key has that key -/
theorem Header.Inv.get_key {K : HConsts} {h : Header} (hi : h.Inv K) {k : Text} {r : HRec}
    (hg : h.get k = some r) : r.key = k :=
  hi.key_eq _ (Header.mem_of_get hg)

/-- replacing, under the invariant, the record of an existing key by a canonical one with the same
    key keeps the invariant -/
theorem Header.Inv.set {K : HConsts} {h : Header} (hi : h.Inv K) {r : HRec} (hr : r.Canon K)
    (hk : r.key ∈ h.keys) : (h.set r).Inv K := by
  refine ⟨?_, ?_, ?_⟩
  · intro p hp
    rw [Header.set_of_mem hk] at hp
    obtain ⟨q, hq, rfl⟩ := List.mem_map.mp hp
    by_cases e : q.1 = r.key
    · simp [e]
    · simp [e]; exact hi.key_eq q hq
  · intro p hp
    rw [Header.set_of_mem hk] at hp
    obtain ⟨q, hq, rfl⟩ := List.mem_map.mp hp
    by_cases e : q.1 = r.key
    · simp [e]; exact hr
    · simp [e]; exact hi.canon q hq
  · rw [Header.set_keys_of_mem hk]; exact hi.distinct

/-- under the invariant, replacing the record of a key by one that differs only in the contig list
    of its sort order changes nothing else -/
theorem Header.Inv.set_reset {K : HConsts} {h : Header} (hi : h.Inv K) {r r' : HRec}
    (hg : h.get r.key = some r') (hr : r.reset = r'.reset) :
    (h.set r).recs.map (fun p => (p.1, p.2.reset)) = h.recs.map (fun p => (p.1, p.2.reset)) := by
  have hk : r.key ∈ h.keys := (Header.get_isSome_iff h r.key).mp (by simp [hg])
  rw [Header.set_of_mem hk]
  simp only [List.map_map]
  apply List.map_congr_left
  intro p hp
  by_cases e : p.1 = r.key
  · have : h.get p.1 = some p.2 := Header.get_of_mem hi.distinct hp
    rw [e, hg] at this
    injection this with this
    simp [e, hr, this]
  · simp [e]

theorem applyContigs_inv {K : HConsts} {h : Header} (hi : h.Inv K) : (h.applyContigs K).Inv K := by
  rcases applyContigs_shape K h with e | ⟨cs, o, cs0, k, -, -, -, hg, e⟩
  · rw [e]; exact hi
  · rw [e]
    have hk := hi.get_key hg
    simp only at hk
    have hc := hi.canon _ (Header.mem_of_get hg)
    apply hi.set
    · exact ⟨hc.key_ne, hc.key_noblank, hc.value⟩
    · rw [hk]; exact (Header.get_isSome_iff h _).mp (by simp [hg])

/-- `applyContigs` changes at most the contig list of the sort order -/
theorem applyContigs_reset {K : HConsts} {h : Header} (hi : h.Inv K) :
    (h.applyContigs K).recs.map (fun p => (p.1, p.2.reset)) =
      h.recs.map (fun p => (p.1, p.2.reset)) := by
  rcases applyContigs_shape K h with e | ⟨cs, o, cs0, k, -, -, -, hg, e⟩
  · rw [e]
  · rw [e]
    have hk := hi.get_key hg
    simp only at hk
    subst hk
    exact hi.set_reset (r := ⟨K.sortOrderKey, .sortOrder o cs⟩) hg rfl

/-- a fresh header is unchanged by forgetting the contig lists -/
theorem Header.Fresh.map_reset {h : Header} (hf : h.Fresh) :
    h.recs.map (fun p => (p.1, p.2.reset)) = h.recs := by
  conv => rhs; rw [← List.map_id h.recs]
  apply List.map_congr_left
  intro p hp
  rw [hf p hp]; rfl

/-- lookups of other keys are not affected by `applyContigs` -/
theorem applyContigs_get {K : HConsts} {h : Header} (hi : h.Inv K) {k : Text}
    (hk : k ≠ K.sortOrderKey) : (h.applyContigs K).get k = h.get k := by
  rcases applyContigs_shape K h with e | ⟨cs, o, cs0, k', -, -, -, hg, e⟩
  · rw [e]
  · rw [e, Header.get_set]
    have hk' := hi.get_key hg
    simp only at hk'
    simp [hk', Ne.symm hk]

/-- the sort order after `applyContigs` (any header satisfying the invariant) -/
theorem applyContigs_sortOrder {K : HConsts} {h : Header} (hi : h.Inv K) :
    (h.applyContigs K).sortOrder K =
      match h.contigs K with
      | some cs => if !cs.isEmpty && (h.sortOrder K).1.sortable then ((h.sortOrder K).1, cs)
                   else h.sortOrder K
      | none => h.sortOrder K := by
  unfold Header.applyContigs
  split
  · rename_i cs k o cs0 hc hg
    have hk := hi.get_key hg
    simp only at hk
    subst hk
    have hso : h.sortOrder K = (o, cs0) := by simp [Header.sortOrder, hg]
    rw [hc, hso]
    simp only
    split
    · simp [Header.sortOrder, Header.get_set]
    · exact hso
  · rename_i hno
    cases hc : h.contigs K with
    | none => rfl
    | some cs =>
      simp only
      cases hg : h.get K.sortOrderKey with
      | none => simp [Header.sortOrder, hg, Order.sortable]
      | some r =>
        obtain ⟨k, v⟩ := r
        cases v with
        | sortOrder o cs0 => exact absurd hg (hno cs k o cs0 hc)
        | text t => simp [Header.sortOrder, hg, Order.sortable]
        | contigs c => simp [Header.sortOrder, hg, Order.sortable]

end Model
